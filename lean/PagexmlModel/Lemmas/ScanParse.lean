/-
Page level: the dict of a rendered page / document and what `parseScan` makes of its parts.
-/
import PagexmlModel.Lemmas.C01Parse
import PagexmlModel.Model.Scan

set_option linter.unusedSimpArgs false

namespace Pagexml.Scan
open Pagexml.X Pagexml.C01 Pagexml.C05 Pagexml.C08
open Pagexml.C03 (Pt Coords)

/-! ### ReadingOrder -/

def refDict (e : Int × String) : PyVal := .dict [("@index", .str (intStr e.1)), ("@regionRef", .str e.2)]

theorem toDict_renderRef (e : Int × String) : toDict (renderRef e) = refDict e := by
  simp [renderRef, toDict_elem, toDictList, pushAll_nil, finish_container, attrEntries, refDict]

theorem tag_renderRef (e : Int × String) : (renderRef e).tag = "RegionRefIndexed" := rfl

theorem roStep_refDict (ro : RO) (e : Int × String) : roStep ro (refDict e) = .ok (roInsert ro e.1 e.2) := by
  simp [roStep, refDict, pyIn, pyGet, lookup_cons, strOf, pyIntStr_intStr, bind, Except.bind, pure, Except.pure]

theorem foldlM_roStep (refs : List (Int × String)) (ro : RO) :
    (refs.map refDict).foldlM roStep ro = .ok (refs.foldl (fun ro e => roInsert ro e.1 e.2) ro) := by
  induction refs generalizing ro with
  | nil => rfl
  | cons e es ih => simp [List.foldlM_cons, roStep_refDict, ih, bind, Except.bind]

def ogEntries (id : String) (caption : Option String) (refs : List (Int × String)) : Entries :=
  attrEntries ([("id", id)] ++ optAttr "caption" caption) ++ groupEntry "RegionRefIndexed" (refs.map refDict)

theorem toDict_orderedGroup (id : String) (caption : Option String) (refs : List (Int × String)) :
    toDict (.elem "OrderedGroup" ([("id", id)] ++ optAttr "caption" caption) "" (refs.map renderRef))
      = .dict (ogEntries id caption refs) := by
  have e : refs.map renderRef = [("RegionRefIndexed", refs.map renderRef)].flatMap (·.2) := by simp
  rw [e, toDict_groups]
  · simp [groupsEntries, ogEntries, toDict_renderRef, attrEntries, Function.comp_def]
  · intro g hg x hx
    simp at hg; subst hg
    simp at hx
    obtain ⟨a, b, _, rfl⟩ := hx
    rfl
  · simp
  · intro g hg
    simp at hg; subst hg; simp

/-- the value of the ReadingOrder entry of the page dict (`none`: no such key) -/
def roVals (ro : SrcRO) : List PyVal := (renderRO ro).map toDict

theorem parseRO_ordered (id : String) (caption : Option String) (refs : List (Int × String)) :
    parseReadingOrder (.dict [("OrderedGroup", .dict (ogEntries id caption refs))])
      = .ok (roOf (.ordered id caption refs), roAttrsOf (.ordered id caption refs)) := by
  have hl : lookup "RegionRefIndexed" (ogEntries id caption refs)
      = if refs = [] then none else some (collapse (refs.map refDict)) := by
    cases caption <;>
      simp [ogEntries, attrEntries_append, lookup_append_or, lookup_optAttr, lookup_groupEntry, lookup_attr_cons,
        optAttr, attrEntries, lookup_cons]
  have hid : lookup "@id" (ogEntries id caption refs) = some (.str id) := by
    simp [ogEntries, attrEntries, lookup_cons]
  have hcap : lookup "@caption" (ogEntries id caption refs) = caption.map PyVal.str := by
    cases caption <;> simp [ogEntries, attrEntries, lookup_cons, optAttr, lookup_append_or, lookup_groupEntry]
  unfold parseReadingOrder
  by_cases hr : refs = []
  · subst hr
    simp [pyIn, pyGet, lookup_cons, hl, roOf, roAttrsOf, roOfEntries, bind, Except.bind, pure, Except.pure]
  · have hgroup : listOrSingle (collapse (refs.map refDict)) = refs.map refDict := by
      match refs, hr with
      | [e], _ => simp [collapse, refDict, listOrSingle]
      | e1 :: e2 :: rest, _ => simp [collapse, listOrSingle]
    simp only [pyIn, pyGet, lookup_cons, hl, hr, if_true, if_false, Option.isSome_some, bind, Except.bind,
      pure, Except.pure, hid, hcap]
    simp only [hgroup, foldlM_roStep]
    cases caption <;> simp [roOf, roAttrsOf, roOfEntries, hr, strOf, bind, Except.bind, pure, Except.pure]

/-- the ReadingOrder entry of the page dict -/
def roValue : SrcRO → Option PyVal
  | .absent => none
  | .empty => some .none
  | .ordered id caption refs => some (.dict [("OrderedGroup", .dict (ogEntries id caption refs))])
  | .unordered id refs => some (.dict [("UnorderedGroup",
      toDict (.elem "UnorderedGroup" [("id", id)] "" (refs.map (fun r => .elem "RegionRef" [("regionRef", r)] "" [])))) ])

theorem toDict_single_child (t : String) (c : Xml) (h : c.tag.toList.head? ≠ some '@') :
    toDict (.elem t [] "" [c]) = .dict [(c.tag, toDict c)] := by
  have e : [c] = [(c.tag, [c])].flatMap (·.2) := by simp
  rw [e, toDict_groups]
  · simp [groupsEntries, groupEntry, attrEntries, collapse]
  · intro g hg x hx
    simp at hg; subst hg
    simp at hx; subst hx; rfl
  · simp
  · intro g hg
    simp at hg; subst hg; exact h

theorem roVals_eq (ro : SrcRO) : (renderRO ro).map toDict = (roValue ro).toList := by
  cases ro with
  | absent => rfl
  | empty => simp [renderRO, roValue, toDict_elem, toDictList, pushAll_nil, finish_container, attrEntries]
  | ordered id caption refs =>
    simp only [renderRO, roValue, List.map_cons, List.map_nil, Option.toList_some]
    rw [toDict_single_child _ _ (by simp [Xml.tag]), toDict_orderedGroup]
    rfl
  | unordered id refs =>
    simp only [renderRO, roValue, List.map_cons, List.map_nil, Option.toList_some]
    rw [toDict_single_child _ _ (by simp [Xml.tag])]
    rfl

theorem unorderedGroup_dict (id : String) (refs : List String) :
    ∃ d, toDict (.elem "UnorderedGroup" [("id", id)] ""
      (refs.map (fun r => .elem "RegionRef" [("regionRef", r)] "" []))) = .dict d := by
  rw [toDict_elem, finish_container]
  have : (pushAll (attrEntries [("id", id)]) (toDictList (refs.map (fun r => Xml.elem "RegionRef" [("regionRef", r)] "" [])))).isEmpty = false := by
    have e : refs.map (fun r => Xml.elem "RegionRef" [("regionRef", r)] "" [])
        = [("RegionRef", refs.map (fun r => Xml.elem "RegionRef" [("regionRef", r)] "" []))].flatMap (·.2) := by simp
    rw [e, toDictList_groups, pushAll_groups]
    · simp [attrEntries]
    · simp
    · intro g hg
      simp at hg; subst hg
      simp [keys, attrEntries]
    · intro g hg v hv
      simp at hg; subst hg
      simp at hv
      obtain ⟨r, _, rfl⟩ := hv
      exact isList_toDict _
    · intro g hg x hx
      simp at hg; subst hg
      simp at hx
      obtain ⟨r, _, rfl⟩ := hx
      rfl
  rw [this]
  exact ⟨_, rfl⟩

/-- the reading-order part of `parse_pagexml_json` -/
theorem scanRO_ok (d : Entries) (ro : SrcRO) (h : lookup "ReadingOrder" d = roValue ro) :
    scanRO (.dict d) = .ok (roOf ro, roAttrsOf ro) := by
  unfold scanRO
  simp only [pyIn, pyGet, h]
  cases ro with
  | absent => simp [roValue, roOf, roAttrsOf, bind, Except.bind, pure, Except.pure]
  | empty => simp [roValue, roOf, roAttrsOf, truthy, bind, Except.bind, pure, Except.pure]
  | ordered id caption refs =>
    simp [roValue, truthy, bind, Except.bind, pure, Except.pure, parseRO_ordered]
  | unordered id refs =>
    obtain ⟨ud, hud⟩ := unorderedGroup_dict id refs
    simp [roValue, truthy, hud, bind, Except.bind, pure, Except.pure, parseReadingOrder, pyIn, pyGet, lookup_cons,
      roOf, roAttrsOf]

/-! ### Metadata -/

theorem assocSet_not_mem {ν : Type} (k : String) (v : ν) (l : List (String × ν)) (h : k ∉ l.map (·.1)) :
    assocSet k v l = l ++ [(k, v)] := by
  induction l with
  | nil => rfl
  | cons kv l ih =>
    obtain ⟨k', v'⟩ := kv
    have h1 : k' ≠ k := fun e => h (by simp [e])
    have h2 : k ∉ l.map (·.1) := fun e => h (by simp [e])
    simp [assocSet, h1, ih h2]

theorem digitsVal_some (cs : List Char) (a : Nat) (h : ∀ c ∈ cs, isAsciiDigit c = true) :
    ∃ n, digitsVal cs a = some n := by
  induction cs generalizing a with
  | nil => exact ⟨a, rfl⟩
  | cons c cs ih =>
    simp only [digitsVal, h c (by simp), if_true]
    exact ih _ (fun d hd => h d (by simp [hd]))

theorem pyInt_of_allAsciiDigits (cs : List Char) (h : allAsciiDigits cs = true) : ∃ i, pyInt? cs = some i := by
  simp only [allAsciiDigits, Bool.and_eq_true, Bool.not_eq_true', List.all_eq_true] at h
  obtain ⟨hne, hall⟩ := h
  have hne' : cs ≠ [] := by intro e; rw [e] at hne; simp at hne
  have had : AllDigits cs := hall
  obtain ⟨hh, hl⟩ := allDigits_head_last cs had
  obtain ⟨n, hn⟩ := digitsVal_some cs 0 hall
  have hs : Pagexml.strip cs = cs := strip_of_ends cs hne' hh hl
  refine ⟨(n : Int), ?_⟩
  unfold pyInt?
  rw [hs]
  cases cs with
  | nil => exact absurd rfl hne'
  | cons c rest =>
    have hc : isAsciiDigit c = true := hall c (by simp)
    have hm : c ≠ '-' := by rintro rfl; revert hc; decide
    have hp : c ≠ '+' := by rintro rfl; revert hc; decide
    have : undDigitsVal (c :: rest) false 0 = some n := by
      rw [undDigitsVal_of_allDigits _ _ _ had hne', hn]
    split
    · next r heq => simp at heq; exact absurd heq.1 hm
    · next r heq => simp at heq; exact absurd heq.1 hp
    · next r _ _ => simp [this]

def metaStep (acc : List (String × MetaVal)) (kv : String × PyVal) : Res (List (String × MetaVal)) := do
  if truthy kv.2 then return assocSet kv.1 (← metaField kv.1 kv.2) acc else return acc

theorem parseMeta_dict (d : Entries) : parseMeta (.dict d) = d.foldlM metaStep [] := rfl

theorem strip_textVal (t : String) (s : String) (h : textVal t = .str s) : s ≠ "" := by
  unfold textVal at h
  split at h
  · cases h
  · next hne => injection h with e; rw [← e]; exact hne

theorem metaPiece (k : String) (t : Option String) (acc : List (String × MetaVal)) (hk : k ∉ acc.map (·.1)) :
    (groupEntry k (t.map textVal).toList).foldlM metaStep acc = .ok (acc ++ mirrorMetaField k t) := by
  cases t with
  | none => simp [groupEntry, mirrorMetaField]; rfl
  | some t =>
    simp only [Option.map_some, Option.toList_some, groupEntry, List.isEmpty_cons, Bool.false_eq_true, if_false,
      collapse, List.foldlM_cons, List.foldlM_nil, mirrorMetaField, metaStep]
    cases hv : textVal t with
    | none => simp [truthy, bind, Except.bind, pure, Except.pure]
    | str s =>
      have hs := strip_textVal t s hv
      simp only [truthy, hs, ne_eq, not_false_eq_true, decide_true, if_true, metaField]
      by_cases hd : (k = "Created" || k = "LastChange") = true
      · simp [hd, assocSet_not_mem k _ acc hk, bind, Except.bind, pure, Except.pure]
      · simp only [hd, Bool.false_eq_true, if_false]
        by_cases hdig : allAsciiDigits s.toList = true
        · obtain ⟨i, hi⟩ := pyInt_of_allAsciiDigits _ hdig
          simp [hdig, hi, assocSet_not_mem k _ acc hk, bind, Except.bind, pure, Except.pure]
        · simp [hdig, assocSet_not_mem k _ acc hk, bind, Except.bind, pure, Except.pure]
    | list xs => unfold textVal at hv; split at hv <;> cases hv
    | dict d => unfold textVal at hv; split at hv <;> cases hv

theorem keys_mirrorMetaField (k : String) (t : Option String) :
    ∀ x ∈ (mirrorMetaField k t).map (·.1), x = k := by
  intro x hx
  cases t with
  | none => simp [mirrorMetaField] at hx
  | some t =>
    simp only [mirrorMetaField] at hx
    split at hx
    · split at hx
      · simp at hx; exact hx
      · split at hx <;> (simp at hx; exact hx)
    · simp at hx

def metaEntries (m : SrcMeta) : Entries :=
  groupEntry "Creator" (m.creator.map textVal).toList ++ groupEntry "Created" (m.created.map textVal).toList
    ++ groupEntry "LastChange" (m.lastChange.map textVal).toList ++ groupEntry "Comments" (m.comments.map textVal).toList

theorem toDict_renderMeta (m : SrcMeta) :
    toDict (renderMeta m) = if (metaEntries m).isEmpty then .none else .dict (metaEntries m) := by
  have e : renderMeta m = .elem "Metadata" [] ""
      ([("Creator", optText "Creator" m.creator), ("Created", optText "Created" m.created),
        ("LastChange", optText "LastChange" m.lastChange), ("Comments", optText "Comments" m.comments)].flatMap (·.2)) := by
    simp [renderMeta]
  rw [e, toDict_groups]
  · have : attrEntries [] ++ groupsEntries (List.map (fun g => (g.1, List.map toDict g.2))
        [("Creator", optText "Creator" m.creator), ("Created", optText "Created" m.created),
          ("LastChange", optText "LastChange" m.lastChange), ("Comments", optText "Comments" m.comments)])
        = metaEntries m := by
      simp only [attrEntries, List.map_nil, List.nil_append, groupsEntries, List.map_cons, List.flatMap_cons,
        List.flatMap_nil, List.append_nil, metaEntries, List.append_assoc]
      cases m.creator <;> cases m.created <;> cases m.lastChange <;> cases m.comments <;>
        simp [optText, toDict_textElem]
    rw [this]
  · intro g hg x hx
    simp at hg
    rcases hg with rfl | rfl | rfl | rfl
    · cases h : m.creator <;> simp [h, optText] at hx; subst hx; rfl
    · cases h : m.created <;> simp [h, optText] at hx; subst hx; rfl
    · cases h : m.lastChange <;> simp [h, optText] at hx; subst hx; rfl
    · cases h : m.comments <;> simp [h, optText] at hx; subst hx; rfl
  · simp
  · intro g hg
    simp at hg
    rcases hg with rfl | rfl | rfl | rfl <;> simp

theorem parseMeta_entries (m : SrcMeta) : parseMeta (.dict (metaEntries m)) = .ok (mirrorMeta (some m)) := by
  rw [parseMeta_dict]
  simp only [metaEntries, List.foldlM_append, bind, Except.bind]
  rw [metaPiece "Creator" m.creator [] (by simp)]
  simp only [List.nil_append]
  rw [metaPiece "Created" m.created _ (by
    intro h; have := keys_mirrorMetaField _ _ _ h; revert this; decide)]
  simp only []
  rw [metaPiece "LastChange" m.lastChange _ (by
    intro h
    simp only [List.map_append, List.mem_append] at h
    rcases h with h | h <;> (have := keys_mirrorMetaField _ _ _ h; revert this; decide))]
  simp only []
  rw [metaPiece "Comments" m.comments _ (by
    intro h
    simp only [List.map_append, List.mem_append] at h
    rcases h with (h | h) | h <;> (have := keys_mirrorMetaField _ _ _ h; revert this; decide))]
  simp [mirrorMeta]

/-! ### Page and document dicts -/

def tableVals (ts : List SrcTable) : List PyVal := ts.map (fun t => toDict (renderTable t))

def pageEntries (p : SrcPage) : Entries :=
  attrEntries (optAttr "imageFilename" p.imageFilename
    ++ [("imageWidth", natStr p.width), ("imageHeight", natStr p.height)])
  ++ (if p.roFirst then groupEntry "ReadingOrder" (roValue p.ro).toList else [])
  ++ groupEntry "TextRegion" (subVals p.regions)
  ++ groupEntry "TableRegion" (tableVals p.tables)
  ++ (if p.roFirst then [] else groupEntry "ReadingOrder" (roValue p.ro).toList)

theorem tag_renderRO (ro : SrcRO) : ∀ x ∈ renderRO ro, x.tag = "ReadingOrder" := by
  intro x hx
  cases ro <;> simp [renderRO] at hx <;> (subst hx; rfl)

theorem tag_renderTable (t : SrcTable) : (renderTable t).tag = "TableRegion" := rfl

theorem toDict_renderPage (p : SrcPage) : toDict (renderPage p) = .dict (pageEntries p) := by
  cases hrf : p.roFirst with
  | true =>
    have e : renderPage p = .elem "Page" (optAttr "imageFilename" p.imageFilename
        ++ [("imageWidth", natStr p.width), ("imageHeight", natStr p.height)]) ""
        ([("ReadingOrder", renderRO p.ro), ("TextRegion", p.regions.map renderRegion),
          ("TableRegion", p.tables.map renderTable)].flatMap (·.2)) := by
      simp [renderPage, hrf, renderRegions_eq_map]
    rw [e, toDict_groups]
    · have : attrEntries (optAttr "imageFilename" p.imageFilename
          ++ [("imageWidth", natStr p.width), ("imageHeight", natStr p.height)]) ++
          groupsEntries (List.map (fun g => (g.1, List.map toDict g.2))
            [("ReadingOrder", renderRO p.ro), ("TextRegion", p.regions.map renderRegion),
              ("TableRegion", p.tables.map renderTable)]) = pageEntries p := by
        simp [groupsEntries, pageEntries, hrf, roVals_eq, subVals, tableVals, Function.comp_def]
      rw [this]
      simp [pageEntries, attrEntries_append, attrEntries]
    · intro g hg x hx
      simp at hg
      rcases hg with rfl | rfl | rfl
      · exact tag_renderRO _ x hx
      · simp at hx; obtain ⟨w, _, rfl⟩ := hx; exact tag_renderRegion w
      · simp at hx; obtain ⟨w, _, rfl⟩ := hx; rfl
    · simp
    · intro g hg
      simp at hg
      rcases hg with rfl | rfl | rfl <;> simp
  | false =>
    have e : renderPage p = .elem "Page" (optAttr "imageFilename" p.imageFilename
        ++ [("imageWidth", natStr p.width), ("imageHeight", natStr p.height)]) ""
        ([("TextRegion", p.regions.map renderRegion),
          ("TableRegion", p.tables.map renderTable), ("ReadingOrder", renderRO p.ro)].flatMap (·.2)) := by
      simp [renderPage, hrf, renderRegions_eq_map]
    rw [e, toDict_groups]
    · have : attrEntries (optAttr "imageFilename" p.imageFilename
          ++ [("imageWidth", natStr p.width), ("imageHeight", natStr p.height)]) ++
          groupsEntries (List.map (fun g => (g.1, List.map toDict g.2))
            [("TextRegion", p.regions.map renderRegion),
              ("TableRegion", p.tables.map renderTable), ("ReadingOrder", renderRO p.ro)]) = pageEntries p := by
        simp [groupsEntries, pageEntries, hrf, roVals_eq, subVals, tableVals, Function.comp_def]
      rw [this]
      simp [pageEntries, attrEntries_append, attrEntries]
    · intro g hg x hx
      simp at hg
      rcases hg with rfl | rfl | rfl
      · simp at hx; obtain ⟨w, _, rfl⟩ := hx; exact tag_renderRegion w
      · simp at hx; obtain ⟨w, _, rfl⟩ := hx; rfl
      · exact tag_renderRO _ x hx
    · simp
    · intro g hg
      simp at hg
      rcases hg with rfl | rfl | rfl <;> simp

def metaVals (m : Option SrcMeta) : List PyVal := (m.map (fun m => toDict (renderMeta m))).toList

def docEntries (p : SrcPage) : Entries :=
  [("@xmlns", .str (nsUri p.ns2019))] ++ groupEntry "Metadata" (metaVals p.mdata)
    ++ groupEntry "Page" [.dict (pageEntries p)]

theorem tag_renderMeta (m : SrcMeta) : (renderMeta m).tag = "Metadata" := rfl
theorem tag_renderPage (p : SrcPage) : (renderPage p).tag = "Page" := rfl

theorem toDict_renderDoc (p : SrcPage) : toDict (renderDoc p) = .dict (docEntries p) := by
  have e : renderDoc p = .elem "PcGts" [("xmlns", nsUri p.ns2019)] ""
      ([("Metadata", (p.mdata.map renderMeta).toList), ("Page", [renderPage p])].flatMap (·.2)) := by
    simp [renderDoc]
  rw [e, toDict_groups]
  · have : attrEntries [("xmlns", nsUri p.ns2019)] ++
        groupsEntries (List.map (fun g => (g.1, List.map toDict g.2))
          [("Metadata", (p.mdata.map renderMeta).toList), ("Page", [renderPage p])]) = docEntries p := by
      simp [groupsEntries, docEntries, metaVals, attrEntries, toDict_renderPage]
      cases p.mdata <;> simp
    rw [this]
    simp [docEntries]
  · intro g hg x hx
    simp at hg
    rcases hg with rfl | rfl
    · cases h : p.mdata <;> simp [h] at hx; subst hx; rfl
    · simp at hx; subst hx; rfl
  · simp
  · intro g hg
    simp at hg
    rcases hg with rfl | rfl <;> simp

/-! ### the parts of `parseScan` on a rendered document -/

theorem natStr_eq_intStr (n : Nat) : natStr n = intStr (Int.ofNat n) := rfl

theorem pyIntStr_natStr (n : Nat) : pyIntStr (natStr n) = .ok (n : Int) := by
  rw [natStr_eq_intStr]; exact pyIntStr_intStr _

theorem natStr_zero_iff (n : Nat) : natStr n = "0" ↔ n = 0 := by
  constructor
  · intro h
    have h1 : (natStr n).toList = ['0'] := by rw [h]; rfl
    simp only [natStr, String.toList_ofList] at h1
    have := (showNat_spec n).2.1
    rw [h1] at this
    simp [digitsVal, isAsciiDigit, digitVal] at this
    omega
  · rintro rfl; decide

theorem scanMeta_ok (p : SrcPage) : scanMeta (.dict (docEntries p)) = .ok (mirrorMeta p.mdata) := by
  have hm : lookup "Metadata" (docEntries p) = p.mdata.map (fun m => toDict (renderMeta m)) := by
    cases hmd : p.mdata <;> simp [docEntries, metaVals, hmd, lookup_cons, lookup_append_or, lookup_groupEntry, collapse]
  have hx : lookup "xmlns" (docEntries p) = none := by
    simp [docEntries, lookup_cons, lookup_append_or, lookup_groupEntry]
  unfold scanMeta
  simp only [pyIn, pyGet, hm, hx]
  cases hmd : p.mdata with
  | none => simp [mirrorMeta, bind, Except.bind, pure, Except.pure]
  | some m =>
    have hpm := parseMeta_entries m
    simp only [Option.map_some, Option.isSome_some, toDict_renderMeta]
    by_cases he : (metaEntries m).isEmpty = true
    · have he' : metaEntries m = [] := List.isEmpty_iff.mp he
      rw [he'] at hpm
      have : mirrorMeta (some m) = [] := by
        have h2 : parseMeta (.dict []) = .ok [] := rfl
        rw [h2] at hpm
        injection hpm with h3
        exact h3.symm
      simp [he, truthy, this, bind, Except.bind, pure, Except.pure]
    · have he' : (metaEntries m).isEmpty = false := by simpa using he
      simp [he', truthy, hpm, bind, Except.bind, pure, Except.pure]

theorem lookup_page_attr (p : SrcPage) (k : String) :
    lookup k (attrEntries (optAttr "imageFilename" p.imageFilename
      ++ [("imageWidth", natStr p.width), ("imageHeight", natStr p.height)]))
    = if k = "@imageFilename" then p.imageFilename.map PyVal.str
      else if k = "@imageWidth" then some (.str (natStr p.width))
      else if k = "@imageHeight" then some (.str (natStr p.height)) else none := by
  cases p.imageFilename <;> simp [optAttr, attrEntries, lookup_cons] <;> split <;> simp_all [eq_comm]


theorem pageEntries_attr (p : SrcPage) (k : String) (hk : k.toList.head? = some '@') :
    lookup k (pageEntries p) = lookup k (attrEntries (optAttr "imageFilename" p.imageFilename
      ++ [("imageWidth", natStr p.width), ("imageHeight", natStr p.height)])) := by
  have h1 : k ≠ "ReadingOrder" := by rintro rfl; revert hk; decide
  have h2 : k ≠ "TextRegion" := by rintro rfl; revert hk; decide
  have h3 : k ≠ "TableRegion" := by rintro rfl; revert hk; decide
  simp only [pageEntries, lookup_append_or]
  cases p.roFirst <;> simp [lookup_groupEntry, h1.symm, h2.symm, h3.symm]

theorem scanId_ok (fname : String) (p : SrcPage) :
    scanId fname (.dict (pageEntries p)) = .ok (p.imageFilename.getD fname) := by
  unfold scanId
  simp only [pyIn, pyGet, pageEntries_attr p "@imageFilename" (by decide), lookup_page_attr]
  cases p.imageFilename <;> simp [bind, Except.bind, pure, Except.pure]

theorem scanSize_ok (p : SrcPage) (md : List (String × MetaVal)) :
    scanSize (.dict (pageEntries p)) md
      = .ok (if p.width ≠ 0 && p.height ≠ 0 then
               (some (boxOf (pageBox p.width p.height)),
                assocSet "scan_height" (MetaVal.int p.height) (assocSet "scan_width" (MetaVal.int p.width) md))
             else (none, md)) := by
  unfold scanSize
  simp only [pyGet, pageEntries_attr p "@imageWidth" (by decide), pageEntries_attr p "@imageHeight" (by decide),
    lookup_page_attr]
  simp only [show ("@imageWidth" = "@imageFilename") = False from by decide,
    show ("@imageHeight" = "@imageFilename") = False from by decide,
    show ("@imageHeight" = "@imageWidth") = False from by decide, if_false, if_true, strOf, bind, Except.bind,
    pure, Except.pure]
  by_cases hw : p.width = 0
  · simp [hw, (natStr_zero_iff 0).mpr rfl]
  · have hw' : natStr p.width ≠ "0" := fun e => hw ((natStr_zero_iff _).mp e)
    by_cases hh : p.height = 0
    · simp [hw, hh, hw', (natStr_zero_iff 0).mpr rfl]
    · have hh' : natStr p.height ≠ "0" := fun e => hh ((natStr_zero_iff _).mp e)
      have hb : coordsOfPts (pageBox (p.width : Int) (p.height : Int)) = .ok (boxOf (pageBox p.width p.height)) := by
        simp [coordsOfPts, pageBox, mkCoords_boxOf]
      simp [hw, hh, hw', hh', pyIntStr_natStr, hb]

theorem lookup_page_group (p : SrcPage) :
    lookup "TextRegion" (pageEntries p) = (if p.regions = [] then none else some (collapse (subVals p.regions)))
    ∧ lookup "TableRegion" (pageEntries p) = (if p.tables = [] then none else some (collapse (tableVals p.tables)))
    ∧ lookup "ReadingOrder" (pageEntries p) = roValue p.ro := by
  have ha : ∀ k, k.toList.head? ≠ some '@' → lookup k (attrEntries (optAttr "imageFilename" p.imageFilename
      ++ [("imageWidth", natStr p.width), ("imageHeight", natStr p.height)])) = none := by
    intro k hk
    exact lookup_none_of_not_mem _ _ (not_mem_attr_keys _ _ hk)
  have hro : ∀ v : Option PyVal, lookup "ReadingOrder" (groupEntry "ReadingOrder" v.toList) = v := by
    intro v; cases v <;> simp [lookup_groupEntry, collapse]
  refine ⟨?_, ?_, ?_⟩
  · simp only [pageEntries, lookup_append_or, ha "TextRegion" (by decide)]
    cases p.roFirst <;> simp [lookup_groupEntry, subVals]
  · simp only [pageEntries, lookup_append_or, ha "TableRegion" (by decide)]
    cases p.roFirst <;> simp [lookup_groupEntry, tableVals]
  · simp only [pageEntries, lookup_append_or, ha "ReadingOrder" (by decide)]
    cases p.roFirst <;> simp [lookup_groupEntry, hro]

theorem scanRegions_ok (hull : List Pt → Res (List Pt)) (hullT : List Pt → List Pt) (p : SrcPage)
    (h : regionsOk hull hullT p.regions = true) :
    scanRegions hull (.dict (pageEntries p)) = .ok (mirrorRegions hullT p.regions) := by
  unfold scanRegions
  simp only [pyIn, pyGet, (lookup_page_group p).1]
  by_cases hr : p.regions = []
  · simp [hr, mirrorRegions, bind, Except.bind, pure, Except.pure]
  · have := regionVal_render hull hullT p.regions hr h
    simp only [hr, if_false, Option.isSome_some, if_true, bind, Except.bind, pure, Except.pure]
    cases hv : regionVal hull (collapse (subVals p.regions)) with
    | error e => rw [hv] at this; simp [Functor.map, Except.map] at this
    | ok l =>
      rw [hv] at this
      simp only [Functor.map, Except.map] at this
      injection this with h1
      simp [h1]

/-! ### the whole document -/

theorem keys_mirrorMeta (m : Option SrcMeta) :
    ∀ x ∈ (mirrorMeta m).map (·.1), x = "Creator" ∨ x = "Created" ∨ x = "LastChange" ∨ x = "Comments" := by
  intro x hx
  cases m with
  | none => simp [mirrorMeta] at hx
  | some m =>
    simp only [mirrorMeta, List.map_append, List.mem_append] at hx
    rcases hx with ((hx | hx) | hx) | hx
    · exact Or.inl (keys_mirrorMetaField _ _ _ hx)
    · exact Or.inr (Or.inl (keys_mirrorMetaField _ _ _ hx))
    · exact Or.inr (Or.inr (Or.inl (keys_mirrorMetaField _ _ _ hx)))
    · exact Or.inr (Or.inr (Or.inr (keys_mirrorMetaField _ _ _ hx)))

/-- the metadata entries added after `parse_page_metadata` -/
theorem scan_metadata_chain (m : Option SrcMeta) (sized : Bool) (w h : Int) (docId fname : String) :
    assocSet "filename" (MetaVal.str fname) (assocSet "scan_id" (MetaVal.str docId)
      (if sized then assocSet "scan_height" (MetaVal.int h) (assocSet "scan_width" (MetaVal.int w) (mirrorMeta m))
       else mirrorMeta m))
    = mirrorMeta m ++ (if sized then [("scan_width", .int w), ("scan_height", .int h)] else [])
        ++ [("scan_id", .str docId), ("filename", .str fname)] := by
  have hk := keys_mirrorMeta m
  have hn : ∀ k, k ≠ "Creator" → k ≠ "Created" → k ≠ "LastChange" → k ≠ "Comments" →
      k ∉ (mirrorMeta m).map (·.1) := by
    intro k h1 h2 h3 h4 hmem
    rcases hk k hmem with e | e | e | e
    · exact h1 e
    · exact h2 e
    · exact h3 e
    · exact h4 e
  cases sized with
  | false =>
    simp only [Bool.false_eq_true, if_false, List.append_nil]
    rw [assocSet_not_mem "scan_id" _ _ (hn _ (by decide) (by decide) (by decide) (by decide))]
    rw [assocSet_not_mem "filename" _ _ (by
      simp only [List.map_append, List.mem_append, not_or]
      exact ⟨hn _ (by decide) (by decide) (by decide) (by decide), by simp⟩)]
    simp
  | true =>
    simp only [if_true]
    rw [assocSet_not_mem "scan_width" _ _ (hn _ (by decide) (by decide) (by decide) (by decide))]
    rw [assocSet_not_mem "scan_height" _ _ (by
      simp only [List.map_append, List.mem_append, not_or]
      exact ⟨hn _ (by decide) (by decide) (by decide) (by decide), by simp⟩)]
    rw [assocSet_not_mem "scan_id" _ _ (by
      simp only [List.map_append, List.mem_append, not_or]
      exact ⟨⟨hn _ (by decide) (by decide) (by decide) (by decide), by simp⟩, by simp⟩)]
    rw [assocSet_not_mem "filename" _ _ (by
      simp only [List.map_append, List.mem_append, not_or]
      exact ⟨⟨⟨hn _ (by decide) (by decide) (by decide) (by decide), by simp⟩, by simp⟩, by simp⟩)]
    simp

/-- conformance of a source page for the text hierarchy: every region satisfies `regionOk`
    (non-empty point lists, parsable float literals, the hull contract where a region
    without Coords needs it); no tables (C08 covers them) -/
def Conformant (hull : List Pt → Res (List Pt)) (hullT : List Pt → List Pt) (p : SrcPage) : Prop :=
  regionsOk hull hullT p.regions = true ∧ p.tables = []

/-- the whole document, given what the table part of the page parses to -/
theorem parseScan_render_gen (hull : List Pt → Res (List Pt)) (hullT : List Pt → List Pt) (fname : String)
    (p : SrcPage) (hreg : regionsOk hull hullT p.regions = true)
    (htabs : scanTables hull (.dict (pageEntries p)) = .ok (p.tables.map (mirrorTable hullT))) :
    parseScan hull fname (toDictDoc (renderDoc p)) = .ok (mirrorScan hullT fname p) := by
  have hpage : lookup "Page" (docEntries p) = some (.dict (pageEntries p)) := by
    cases hmd : p.mdata <;> simp [docEntries, metaVals, hmd, lookup_cons, lookup_append_or, lookup_groupEntry, collapse]
  have hro := scanRO_ok (pageEntries p) p.ro (lookup_page_group p).2.2
  unfold parseScan toDictDoc
  have htag : (renderDoc p).tag = "PcGts" := rfl
  simp only [htag, lookup_cons, if_true, toDict_renderDoc, bind, Except.bind, pure, Except.pure, scanMeta_ok,
    pyGet, hpage, scanId_ok, scanSize_ok, scanRegions_ok hull hullT p hreg, htabs, hro]
  by_cases hs : (p.width ≠ 0 && p.height ≠ 0) = true
  · simp only [hs, if_true, mirrorScan, List.map_map, Function.comp_def]
    have := scan_metadata_chain p.mdata true p.width p.height (p.imageFilename.getD fname) fname
    simp only [if_true] at this
    rw [this]
  · have hs' : (p.width ≠ 0 && p.height ≠ 0) = false := by simpa using hs
    simp only [hs', Bool.false_eq_true, if_false, mirrorScan, List.map_map, Function.comp_def]
    have := scan_metadata_chain p.mdata false p.width p.height (p.imageFilename.getD fname) fname
    simp only [Bool.false_eq_true, if_false] at this
    rw [this]

theorem parseScan_render (hull : List Pt → Res (List Pt)) (hullT : List Pt → List Pt) (fname : String)
    (p : SrcPage) (h : Conformant hull hullT p) :
    parseScan hull fname (toDictDoc (renderDoc p)) = .ok (mirrorScan hullT fname p) := by
  obtain ⟨hreg, htab⟩ := h
  apply parseScan_render_gen hull hullT fname p hreg
  unfold scanTables
  simp [pyIn, (lookup_page_group p).2.1, htab, bind, Except.bind, pure, Except.pure]

end Pagexml.Scan
