/-
C06: whatever the builders `json_to_pagexml_*` return is well-formed (`ok`) — for every JSON
value they accept whose truthiness-guarded entries are canonical — and JSON-valued (`jv`) when
the JSON value is (as decoded JSON text always is).
-/
import PagexmlModel.Lemmas.C06JV

set_option linter.unusedSimpArgs false
set_option linter.unusedVariables false
set_option linter.unusedSectionVars false

namespace Pagexml.C06

/-! ### reading a JSON value -/

theorem asList_ok (v : PyVal) (xs : List PyVal) (h : v.asList = .ok xs) : v = .list xs := by
  cases v <;> simp [PyVal.asList] at h
  case list ys => cases h; rfl

theorem req_get (j : PyVal) (k : String) (v : PyVal) (h : j.req k = .ok v) : j.get? k = some v := by
  unfold PyVal.req at h
  split at h
  · rename_i v' hv; cases h; exact hv
  · cases h

theorem getD_cases (j : PyVal) (k : String) (d : PyVal) : j.getD k d = d ∨ j.get? k = some (j.getD k d) := by
  unfold PyVal.getD
  split
  · rename_i v hv; exact Or.inr hv
  · exact Or.inl rfl

/-- a property of JSON values inherited by dict entries and list members -/
structure SubClosed (P : PyVal → Prop) : Prop where
  get : ∀ j k v, P j → j.get? k = some v → P v
  mem : ∀ xs x, P (.list xs) → x ∈ xs → P x

theorem gcKvs_lookup (k : Key) : ∀ (kvs : List (Key × PyVal)) (v : PyVal), PyVal.guardsCanonKvs kvs = true →
    alookup k kvs = some v → v.guardsCanon = true := by
  intro kvs
  induction kvs with
  | nil => intro v _ h; simp at h
  | cons x m ih =>
    obtain ⟨k', v'⟩ := x
    intro v hg h
    simp only [PyVal.guardsCanonKvs, Bool.and_eq_true] at hg
    simp only [alookup_cons] at h
    split at h
    · cases h; exact hg.1
    · exact ih v hg.2 h

theorem gcList_mem : ∀ (xs : List PyVal) (x : PyVal), PyVal.guardsCanonList xs = true → x ∈ xs → x.guardsCanon = true := by
  intro xs
  induction xs with
  | nil => intro x _ h; simp at h
  | cons y ys ih =>
    intro x hg hx
    simp only [PyVal.guardsCanonList, Bool.and_eq_true] at hg
    rcases List.mem_cons.mp hx with rfl | hx
    · exact hg.1
    · exact ih x hg.2 hx

theorem subClosed_gc : SubClosed (fun j => j.guardsCanon = true) where
  get := by
    intro j k v hj h
    cases j <;> simp only [PyVal.get?] at h <;> try cases h
    case dict kvs =>
      simp only [PyVal.guardsCanon, Bool.and_eq_true] at hj
      exact gcKvs_lookup _ kvs v hj.2 h
  mem := by
    intro xs x h hx
    simp only [PyVal.guardsCanon] at h
    exact gcList_mem xs x h hx

theorem subClosed_stable : SubClosed (fun j => j.stable = true) where
  get := by
    intro j k v hj h
    cases j <;> simp only [PyVal.get?] at h <;> try cases h
    case dict kvs =>
      simp only [PyVal.stable] at hj
      exact stable_of_lookup _ kvs v hj h
  mem := by
    intro xs x h hx
    simp only [PyVal.stable] at h
    exact stableList_mem xs h x hx

theorem SubClosed.req {P} (hP : SubClosed P) (j : PyVal) (k : String) (v : PyVal) (hj : P j) (h : j.req k = .ok v) : P v :=
  hP.get j k v hj (req_get j k v h)

theorem SubClosed.getD {P} (hP : SubClosed P) (j : PyVal) (k : String) (d : PyVal) (hj : P j) (hd : P d) :
    P (j.getD k d) := by
  rcases getD_cases j k d with e | e
  · rw [e]; exact hd
  · exact hP.get j k _ hj e

/-- members of `json_doc.get(k, [])` read as a list -/
theorem SubClosed.children {P} (hP : SubClosed P) (j : PyVal) (k : String) (xs : List PyVal) (hj : P j)
    (hnil : P (.list [])) (h : (j.getD k (.list [])).asList = .ok xs) : ∀ x ∈ xs, P x := by
  have := hP.getD j k (.list []) hj hnil
  rw [asList_ok _ _ h] at this
  exact fun x hx => hP.mem xs x this hx

theorem optChildren_mem {α} (f : PyVal → Res α) (o : Option PyVal) (ys : List α) (h : optChildren f o = .ok ys) :
    ∀ y ∈ ys, ∃ ws xs x, o = some ws ∧ ws = .list xs ∧ x ∈ xs ∧ f x = .ok y := by
  cases o with
  | none => simp only [optChildren, pure_eq_ok] at h; cases h; simp
  | some ws =>
    simp only [optChildren] at h
    obtain ⟨xs, hxs, h⟩ := bind_ok h
    intro y hy
    obtain ⟨x, hx, hfx⟩ := mapM_ok_mem f xs ys h y hy
    exact ⟨ws, xs, x, rfl, asList_ok _ _ hxs, hx, hfx⟩

/-- transfer along `[f(x) for x in json_doc[k]] if k in json_doc else []` -/
theorem optChildren_all {α} {P} (hP : SubClosed P) (Q : α → Prop) (f : PyVal → Res α)
    (hf : ∀ x a, f x = .ok a → P x → Q a) (j : PyVal) (k : String) (ys : List α) (hj : P j)
    (h : optChildren f (j.get? k) = .ok ys) : ∀ y ∈ ys, Q y := by
  intro y hy
  obtain ⟨ws, xs, x, e1, e2, hx, hfx⟩ := optChildren_mem f _ ys h y hy
  subst e2
  exact hf x y hfx (hP.mem xs x (hP.get j k _ hj e1) hx)

/-- transfer along `[f(x) for x in json_doc.get(k, [])]` -/
theorem children_all {α} {P} (hP : SubClosed P) (Q : α → Prop) (f : PyVal → Res α)
    (hf : ∀ x a, f x = .ok a → P x → Q a) (j : PyVal) (k : String) (xs : List PyVal) (ys : List α) (hj : P j)
    (hnil : P (.list [])) (h1 : (j.getD k (.list [])).asList = .ok xs) (h2 : xs.mapM f = .ok ys) : ∀ y ∈ ys, Q y := by
  intro y hy
  obtain ⟨x, hx, hfx⟩ := mapM_ok_mem f xs ys h2 y hy
  exact hf x y hfx (hP.children j k xs hj hnil h1 x hx)

theorem gc_nil : (PyVal.list []).guardsCanon = true := by simp [PyVal.guardsCanon, PyVal.guardsCanonList]
theorem st_nil : (PyVal.list []).stable = true := by simp [PyVal.stable, PyVal.stableList]
theorem st_emptyDict : (PyVal.dict []).stable = true := by simp [PyVal.stable, PyVal.stableKvs]

theorem canon_none : canon .none = true := by simp [canon]

/-- the three truthiness-guarded entries of a canonical JSON value, read with default `None` -/
theorem gc_canon (j : PyVal) (k : String) (hk : k = "orientation" ∨ k = "xheight" ∨ k = "cornerpoints")
    (hj : j.guardsCanon = true) : canon (j.getD k .none) = true := by
  cases j <;> try (simp [PyVal.getD, PyVal.get?, canon_none])
  case dict kvs =>
    simp only [PyVal.guardsCanon, Bool.and_eq_true, canonAt] at hj
    obtain ⟨⟨⟨h1, h2⟩, h3⟩, _⟩ := hj
    rcases hk with rfl | rfl | rfl
    · cases e : alookup (Key.s "orientation") kvs <;> simp_all [canon_none]
    · cases e : alookup (Key.s "xheight") kvs <;> simp_all [canon_none]
    · cases e : alookup (Key.s "cornerpoints") kvs <;> simp_all [canon_none]

theorem parsePts_ne (v : PyVal) (ps : Pts) (h : parsePts v = .ok ps) : ps ≠ [] := by
  cases v <;> simp only [parsePts] at h <;> try cases h
  case list xs =>
    obtain ⟨c, hc, h⟩ := bind_ok h
    cases h
    unfold C03.coordsOfList at hc
    obtain ⟨qs, _, hc⟩ := bind_ok hc
    obtain ⟨e, hne⟩ := mkCoords_ne qs c hc
    rw [e]; exact hne
  case str s =>
    obtain ⟨c, hc, h⟩ := bind_ok h
    cases h
    unfold C03.coordsOfStr at hc
    obtain ⟨qs, _, hc⟩ := bind_ok hc
    obtain ⟨e, hne⟩ := mkCoords_ne qs c hc
    rw [e]; exact hne

theorem jsonCoords_ne (j : PyVal) (k : String) (c : Option Pts) (h : jsonCoords j k = .ok c) : c ≠ some [] := by
  unfold jsonCoords at h
  split at h
  · rename_i v _
    obtain ⟨ps, hps, h⟩ := bind_ok h
    cases h
    intro e; cases e
    exact parsePts_ne v [] hps rfl
  · cases h; simp

/-! ### reading orders -/

theorem roOf_spec : ∀ (kvs : List (Key × PyVal)) (acc ro : RO), roOf kvs acc = .ok ro →
    (acc.map (·.1)).Nodup → (ro.map (·.1)).Nodup := by
  intro kvs
  induction kvs with
  | nil => intro acc ro h hn; simp only [roOf] at h; cases h; exact hn
  | cons x m ih =>
    obtain ⟨k, v⟩ := x
    intro acc ro h hn
    simp only [roOf] at h
    obtain ⟨i, _, h⟩ := bind_ok h
    apply ih _ ro h
    split
    · rename_i hany
      have : (acc.map (fun e => if e.1 = i then (i, v) else e)).map (·.1) = acc.map (·.1) := by
        rw [List.map_map]
        apply List.map_congr_left
        intro e _
        simp only [Function.comp]
        split
        · rename_i he; exact he.symm
        · rfl
      rw [this]; exact hn
    · rename_i hany
      rw [List.map_append, List.nodup_append]
      refine ⟨hn, by simp, ?_⟩
      intro a ha b hb
      simp only [List.map_cons, List.map_nil, List.mem_singleton] at hb
      subst hb
      intro e
      apply hany
      simp only [List.any_eq_true, decide_eq_true_eq]
      obtain ⟨x, hx, rfl⟩ := List.mem_map.mp ha
      exact ⟨x, hx, e⟩

theorem roOf_jv : ∀ (kvs : List (Key × PyVal)) (acc ro : RO), roOf kvs acc = .ok ro →
    PyVal.stableKvs kvs = true → roJv acc = true → roJv ro = true := by
  intro kvs
  induction kvs with
  | nil => intro acc ro h _ hn; simp only [roOf] at h; cases h; exact hn
  | cons x m ih =>
    obtain ⟨k, v⟩ := x
    intro acc ro h hs hn
    have hv : v.stable = true ∧ PyVal.stableKvs m = true := by
      cases k with
      | s k => simpa [PyVal.stableKvs] using hs
      | i n => simp [PyVal.stableKvs] at hs
    simp only [roOf] at h
    obtain ⟨i, _, h⟩ := bind_ok h
    apply ih _ ro h hv.2
    simp only [roJv, List.all_eq_true] at hn ⊢
    split
    · intro e he
      simp only [List.mem_map] at he
      obtain ⟨e0, he0, rfl⟩ := he
      split
      · exact hv.1
      · exact hn e0 he0
    · intro e he
      rcases List.mem_append.mp he with he | he
      · exact hn e he
      · simp only [List.mem_singleton] at he; subst he; exact hv.1

theorem regionMeta_spec (j : PyVal) (ro : RO) (roa o : PyVal) (h : regionMeta j = .ok (ro, roa, o)) :
    (ro.map (·.1)).Nodup ∧ roa = j.getD "reading_order_attributes" (.dict []) ∧ o = j.getD "orientation" .none
    ∧ (j.stable = true → roJv ro = true) := by
  unfold regionMeta at h
  dsimp only at h
  have hst : j.stable = true → (j.getD "reading_order" (.dict [])).stable = true :=
    fun hs => subClosed_stable.getD j "reading_order" (.dict []) hs st_emptyDict
  generalize j.getD "reading_order" (.dict []) = rov at h hst
  split at h
  · cases rov with
    | dict kvs =>
      obtain ⟨ro', hro, h⟩ := bind_ok h
      simp only [pure_eq_ok, Except.ok.injEq, Prod.mk.injEq] at h
      obtain ⟨rfl, rfl, rfl⟩ := h
      refine ⟨roOf_spec _ [] _ hro (by simp), rfl, rfl, ?_⟩
      intro hs
      have := hst hs
      simp only [PyVal.stable] at this
      exact roOf_jv _ [] _ hro this rfl
    | none => cases h
    | bool _ => cases h
    | int _ => cases h
    | num _ => cases h
    | str _ => cases h
    | list _ => cases h
    | obj _ => cases h
  · obtain ⟨ro', hro, h⟩ := bind_ok h
    simp only [pure_eq_ok, Except.ok.injEq, Prod.mk.injEq] at h hro
    obtain ⟨rfl, rfl, rfl⟩ := h
    subst hro
    exact ⟨by simp, rfl, rfl, fun _ => rfl⟩

/-! ### the builders -/

theorem fromJsonWord_closed (j : PyVal) (w : Word) (h : fromJsonWord j = .ok w) :
    w.ok = true ∧ (j.stable = true → w.jv = true) := by
  unfold fromJsonWord at h
  obtain ⟨id, hid, h⟩ := bind_ok h
  obtain ⟨ty, hty, h⟩ := bind_ok h
  obtain ⟨md, hmd, h⟩ := bind_ok h
  obtain ⟨text, htx, h⟩ := bind_ok h
  obtain ⟨coords, hco, h⟩ := bind_ok h
  refine ⟨mkWord_ok _ _ _ _ _ _ w h (jsonCoords_ne j _ coords hco), ?_⟩
  intro hs
  exact mkWord_jv _ _ _ _ _ _ w h (subClosed_stable.req j _ _ hs hid) (subClosed_stable.req j _ _ hs hmd)
    (subClosed_stable.getD j _ _ hs stable_none)

theorem fromJsonLine_closed (j : PyVal) (l : Line) (h : fromJsonLine j = .ok l) :
    (j.guardsCanon = true → l.ok = true) ∧ (j.stable = true → l.jv = true) := by
  unfold fromJsonLine at h
  obtain ⟨words, hw, h⟩ := bind_ok h
  obtain ⟨⟨ro, roa, o⟩, hrm, h⟩ := bind_ok h
  obtain ⟨id, hid, h⟩ := bind_ok h
  obtain ⟨ty, hty, h⟩ := bind_ok h
  obtain ⟨md, hmd, h⟩ := bind_ok h
  obtain ⟨coords, hco, h⟩ := bind_ok h
  obtain ⟨bl, hbl, h⟩ := bind_ok h
  obtain ⟨text, htx, h⟩ := bind_ok h
  obtain ⟨hnd, rfl, _, hrj⟩ := regionMeta_spec j ro roa o hrm
  constructor
  · intro hg
    refine mkLine_ok _ _ _ _ _ _ _ _ _ _ _ l h (jsonCoords_ne j _ coords hco) (jsonCoords_ne j _ bl hbl)
      (gc_canon j "xheight" (by simp) hg) hnd ?_
    intro w hw'
    obtain ⟨ws, xs, x, _, _, _, hfx⟩ := optChildren_mem _ _ _ hw w hw'
    exact (fromJsonWord_closed x w hfx).1
  · intro hs
    refine mkLine_jv _ _ _ _ _ _ _ _ _ _ _ l h (subClosed_stable.req j _ _ hs hid) (subClosed_stable.req j _ _ hs hmd)
      (subClosed_stable.getD j _ _ hs stable_none) (subClosed_stable.getD j _ _ hs stable_none) (hrj hs)
      (subClosed_stable.getD j _ _ hs st_emptyDict) ?_
    exact optChildren_all subClosed_stable (fun w => w.jv = true) fromJsonWord
      (fun x a hx hp => (fromJsonWord_closed x a hx).2 hp) j "words" words hs hw

theorem mkLine_text (id ty md : PyVal) (coords baseline : Option Pts) (text conf : PyVal) (words : List Word)
    (ro : RO) (roa xheight : PyVal) (l : Line)
    (h : mkLine id ty md coords baseline text conf words ro roa xheight = .ok l) : asText text = .ok l.text := by
  unfold mkLine at h
  obtain ⟨ts, _, h⟩ := bind_ok h
  obtain ⟨m, _, h⟩ := bind_ok h
  obtain ⟨t, ht, h⟩ := bind_ok h
  cases h
  exact ht

theorem fromJsonCell_closed (j : PyVal) (c : Cell) (h : fromJsonCell j = .ok c) :
    (j.guardsCanon = true → c.ok = true) ∧ (j.stable = true → c.jv = true) := by
  unfold fromJsonCell at h
  obtain ⟨lines, hl, h⟩ := bind_ok h
  obtain ⟨id, hid, h⟩ := bind_ok h
  obtain ⟨ty, hty, h⟩ := bind_ok h
  obtain ⟨md, hmd, h⟩ := bind_ok h
  obtain ⟨coords, hco, h⟩ := bind_ok h
  obtain ⟨col, hcol, h⟩ := bind_ok h
  obtain ⟨cs, hcs, h⟩ := bind_ok h
  obtain ⟨rs, hrs, h⟩ := bind_ok h
  obtain ⟨ts, hts, h⟩ := bind_ok h
  obtain ⟨m, hm, h⟩ := bind_ok h
  obtain ⟨col', hcol', h⟩ := bind_ok h
  · simp only [pure_eq_ok, Except.ok.injEq] at h
    subst h
    constructor
    · intro hg
      apply Cell.build_ok _ _ _ _ _ _ _ _ _ _ _ _ (jsonCoords_ne j _ coords hco)
        (gc_canon j "cornerpoints" (by simp) hg) (gc_canon j "orientation" (by simp) hg)
      intro l hl'
      exact optChildren_all subClosed_gc (fun l => l.ok = true) fromJsonLine
        (fun x a hx hp => (fromJsonLine_closed x a hx).1 hp) j "lines" lines hg hl l hl'
    · intro hs
      exact Cell.build_jv _ _ _ _ _ _ _ _ _ _ _ _ (subClosed_stable.req j _ _ hs hid)
        (asMeta_stable md m hm (subClosed_stable.req j _ _ hs hmd))
        (subClosed_stable.getD j _ _ hs stable_none) (subClosed_stable.req j _ _ hs hcs)
        (subClosed_stable.req j _ _ hs hrs) (subClosed_stable.getD j _ _ hs stable_none)
        (subClosed_stable.getD j _ _ hs stable_none) (subClosed_stable.getD j _ _ hs stable_none)
        (optChildren_all subClosed_stable (fun l => l.jv = true) fromJsonLine
          (fun x a hx hp => (fromJsonLine_closed x a hx).2 hp) j "lines" lines hs hl)

theorem colCells_spec (n : Nat) (cs : List Cell) (m : Nat) (h : colCells n cs = .ok m) :
    m = colCellsN n cs ∧ ∀ c ∈ cs, c.col.isSome = true := by
  induction cs generalizing n with
  | nil => simp only [colCells] at h; cases h; exact ⟨rfl, by simp⟩
  | cons c cs ih =>
    simp only [colCells] at h
    cases hc : c.col with
    | none => simp [hc] at h
    | some col =>
      simp only [hc] at h
      obtain ⟨e, hall⟩ := ih _ h
      refine ⟨by simp only [colCellsN, hc]; exact e, ?_⟩
      intro d hd
      rcases List.mem_cons.mp hd with rfl | hd
      · simp [hc]
      · exact hall d hd

theorem fromJsonRow_closed (j : PyVal) (r : Row) (h : fromJsonRow j = .ok r) :
    (j.guardsCanon = true → r.ok = true ∧ r.numCols = colCellsN 0 r.cells) ∧ (j.stable = true → r.jv = true) := by
  unfold fromJsonRow at h
  obtain ⟨xs, hxs, h⟩ := bind_ok h
  obtain ⟨cells, hcells, h⟩ := bind_ok h
  obtain ⟨id, hid, h⟩ := bind_ok h
  obtain ⟨ty, hty, h⟩ := bind_ok h
  obtain ⟨md, hmd, h⟩ := bind_ok h
  obtain ⟨coords, hco, h⟩ := bind_ok h
  obtain ⟨ts, hts, h⟩ := bind_ok h
  obtain ⟨m, hm, h⟩ := bind_ok h
  split at h
  · cases h
  · rename_i hsame
    obtain ⟨n, hn, h⟩ := bind_ok h
    split at h
    · cases h
    · rename_i hne
      simp only [pure_eq_ok, Except.ok.injEq] at h
      subst h
      obtain ⟨en, hcol⟩ := colCells_spec 0 cells n hn
      constructor
      · intro hg
        refine ⟨?_, en⟩
        apply Row.build_ok _ _ _ _ _ _ _ (jsonCoords_ne j _ coords hco) (gc_canon j "orientation" (by simp) hg)
          (by simpa using hne) (by simpa using hsame)
        intro c hc
        exact ⟨children_all subClosed_gc (fun c => c.ok = true) fromJsonCell
          (fun x a hx hp => (fromJsonCell_closed x a hx).1 hp) j "cells" xs cells hg gc_nil hxs hcells c hc, hcol c hc⟩
      · intro hs
        exact Row.build_jv _ _ _ _ _ _ _ (subClosed_stable.req j _ _ hs hid)
          (asMeta_stable md m hm (subClosed_stable.req j _ _ hs hmd)) (subClosed_stable.getD j _ _ hs stable_none)
          (children_all subClosed_stable (fun c => c.jv = true) fromJsonCell
            (fun x a hx hp => (fromJsonCell_closed x a hx).2 hp) j "cells" xs cells hs st_nil hxs hcells)

theorem fromJsonTable_closed (j : PyVal) (t : Table) (h : fromJsonTable j = .ok t) :
    (j.guardsCanon = true → t.preOk = true) ∧ (j.stable = true → t.jv = true) := by
  unfold fromJsonTable at h
  obtain ⟨xs, hxs, h⟩ := bind_ok h
  obtain ⟨rows, hrows, h⟩ := bind_ok h
  obtain ⟨id, hid, h⟩ := bind_ok h
  obtain ⟨ty, hty, h⟩ := bind_ok h
  obtain ⟨md, hmd, h⟩ := bind_ok h
  obtain ⟨coords, hco, h⟩ := bind_ok h
  obtain ⟨ts, hts, h⟩ := bind_ok h
  obtain ⟨m, hm, h⟩ := bind_ok h
  simp only [pure_eq_ok, Except.ok.injEq] at h
  subst h
  constructor
  · intro hg
    apply Table.build_preOk _ _ _ _ _ _ (jsonCoords_ne j _ coords hco) (gc_canon j "orientation" (by simp) hg)
    exact children_all subClosed_gc (fun r => r.ok = true ∧ r.numCols = colCellsN 0 r.cells) fromJsonRow
      (fun x a hx hp => (fromJsonRow_closed x a hx).1 hp) j "rows" xs rows hg gc_nil hxs hrows
  · intro hs
    exact Table.build_jv _ _ _ _ _ _ (subClosed_stable.req j _ _ hs hid)
      (asMeta_stable md m hm (subClosed_stable.req j _ _ hs hmd)) (subClosed_stable.getD j _ _ hs stable_none)
      (children_all subClosed_stable (fun r => r.jv = true) fromJsonRow
        (fun x a hx hp => (fromJsonRow_closed x a hx).2 hp) j "rows" xs rows hs st_nil hxs hrows)

theorem fromJsonRegion_closed : ∀ (fuel : Nat) (j : PyVal) (r : Region), fromJsonRegion fuel j = .ok r →
    (j.guardsCanon = true → r.ok = true) ∧ (j.stable = true → r.jv = true)
  | 0, j, r, h => by simp [fromJsonRegion] at h
  | fuel + 1, j, r, h => by
    unfold fromJsonRegion at h
    obtain ⟨xr, hxr, h⟩ := bind_ok h
    obtain ⟨regions, hregions, h⟩ := bind_ok h
    obtain ⟨xl, hxl, h⟩ := bind_ok h
    obtain ⟨lines, hlines, h⟩ := bind_ok h
    obtain ⟨xt, hxt, h⟩ := bind_ok h
    obtain ⟨tables, htables, h⟩ := bind_ok h
    obtain ⟨⟨ro, roa, o⟩, hrm, h⟩ := bind_ok h
    obtain ⟨id, hid, h⟩ := bind_ok h
    obtain ⟨ty, hty, h⟩ := bind_ok h
    obtain ⟨md, hmd, h⟩ := bind_ok h
    obtain ⟨coords, hco, h⟩ := bind_ok h
    obtain ⟨text, htx, h⟩ := bind_ok h
    obtain ⟨ts, hts, h⟩ := bind_ok h
    obtain ⟨m, hm, h⟩ := bind_ok h
    simp only [pure_eq_ok, Except.ok.injEq] at h
    subst h
    obtain ⟨hnd, rfl, rfl, hrj⟩ := regionMeta_spec j ro roa o hrm
    constructor
    · intro hg
      exact Region.build_ok _ _ _ _ _ _ _ _ _ _ _ (jsonCoords_ne j _ coords hco)
        (gc_canon j "orientation" (by simp) hg) hnd
        (children_all subClosed_gc (fun l => l.ok = true) fromJsonLine
          (fun x a hx hp => (fromJsonLine_closed x a hx).1 hp) j "lines" xl lines hg gc_nil hxl hlines)
        (children_all subClosed_gc (fun r => r.ok = true) (fromJsonRegion fuel)
          (fun x a hx hp => (fromJsonRegion_closed fuel x a hx).1 hp) j "text_regions" xr regions hg gc_nil hxr hregions)
        (children_all subClosed_gc (fun t => t.preOk = true) fromJsonTable
          (fun x a hx hp => (fromJsonTable_closed x a hx).1 hp) j "table_regions" xt tables hg gc_nil hxt htables)
    · intro hs
      exact Region.build_jv _ _ _ _ _ _ _ _ _ _ _ (subClosed_stable.req j _ _ hs hid)
        (asMeta_stable md m hm (subClosed_stable.req j _ _ hs hmd)) (subClosed_stable.getD j _ _ hs stable_none)
        (hrj hs) (subClosed_stable.getD j _ _ hs st_emptyDict)
        (children_all subClosed_stable (fun l => l.jv = true) fromJsonLine
          (fun x a hx hp => (fromJsonLine_closed x a hx).2 hp) j "lines" xl lines hs st_nil hxl hlines)
        (children_all subClosed_stable (fun r => r.jv = true) (fromJsonRegion fuel)
          (fun x a hx hp => (fromJsonRegion_closed fuel x a hx).2 hp) j "text_regions" xr regions hs st_nil hxr hregions)
        (children_all subClosed_stable (fun t => t.jv = true) fromJsonTable
          (fun x a hx hp => (fromJsonTable_closed x a hx).2 hp) j "table_regions" xt tables hs st_nil hxt htables)

theorem fromJsonRegions_closed (fuel : Nat) (j : PyVal) (regions : List Region) (tables : List Table)
    (h : fromJsonRegions fuel j = .ok (regions, tables)) :
    (j.guardsCanon = true → (∀ r ∈ regions, r.ok = true) ∧ (∀ t ∈ tables, t.preOk = true))
    ∧ (j.stable = true → (∀ r ∈ regions, r.jv = true) ∧ (∀ t ∈ tables, t.jv = true)) := by
  unfold fromJsonRegions at h
  obtain ⟨xr, hxr, h⟩ := bind_ok h
  obtain ⟨regions', hregions, h⟩ := bind_ok h
  obtain ⟨xt, hxt, h⟩ := bind_ok h
  obtain ⟨tables', htables, h⟩ := bind_ok h
  simp only [pure_eq_ok, Except.ok.injEq, Prod.mk.injEq] at h
  obtain ⟨rfl, rfl⟩ := h
  constructor
  · intro hg
    exact ⟨children_all subClosed_gc (fun r => r.ok = true) (fromJsonRegion fuel)
        (fun x a hx hp => (fromJsonRegion_closed fuel x a hx).1 hp) j "text_regions" xr _ hg gc_nil hxr hregions,
      children_all subClosed_gc (fun t => t.preOk = true) fromJsonTable
        (fun x a hx hp => (fromJsonTable_closed x a hx).1 hp) j "table_regions" xt _ hg gc_nil hxt htables⟩
  · intro hs
    exact ⟨children_all subClosed_stable (fun r => r.jv = true) (fromJsonRegion fuel)
        (fun x a hx hp => (fromJsonRegion_closed fuel x a hx).2 hp) j "text_regions" xr _ hs st_nil hxr hregions,
      children_all subClosed_stable (fun t => t.jv = true) fromJsonTable
        (fun x a hx hp => (fromJsonTable_closed x a hx).2 hp) j "table_regions" xt _ hs st_nil hxt htables⟩

theorem fromJsonColumn_closed (fuel : Nat) (j : PyVal) (c : Column) (h : fromJsonColumn fuel j = .ok c) :
    (j.guardsCanon = true → c.ok = true) ∧ (j.stable = true → c.jv = true) := by
  unfold fromJsonColumn at h
  obtain ⟨⟨regions, tables⟩, hrt, h⟩ := bind_ok h
  obtain ⟨lines, hlines, h⟩ := bind_ok h
  obtain ⟨⟨ro, roa, o⟩, hrm, h⟩ := bind_ok h
  obtain ⟨id, hid, h⟩ := bind_ok h
  obtain ⟨ty, hty, h⟩ := bind_ok h
  obtain ⟨md, hmd, h⟩ := bind_ok h
  obtain ⟨coords, hco, h⟩ := bind_ok h
  obtain ⟨ts, hts, h⟩ := bind_ok h
  obtain ⟨m, hm, h⟩ := bind_ok h
  simp only [pure_eq_ok, Except.ok.injEq] at h
  subst h
  obtain ⟨hnd, rfl, rfl, hrj⟩ := regionMeta_spec j ro roa o hrm
  obtain ⟨c1, c2⟩ := fromJsonRegions_closed fuel j regions tables hrt
  constructor
  · intro hg
    exact Column.build_ok _ _ _ _ _ _ _ _ _ _ (jsonCoords_ne j _ coords hco)
      (gc_canon j "orientation" (by simp) hg) hnd
      (optChildren_all subClosed_gc (fun l => l.ok = true) fromJsonLine
        (fun x a hx hp => (fromJsonLine_closed x a hx).1 hp) j "lines" lines hg hlines)
      (c1 hg).1 (c1 hg).2
  · intro hs
    exact Column.build_jv _ _ _ _ _ _ _ _ _ _ (subClosed_stable.req j _ _ hs hid)
      (asMeta_stable md m hm (subClosed_stable.req j _ _ hs hmd)) (subClosed_stable.getD j _ _ hs stable_none)
      (hrj hs) (subClosed_stable.getD j _ _ hs st_emptyDict)
      (optChildren_all subClosed_stable (fun l => l.jv = true) fromJsonLine
        (fun x a hx hp => (fromJsonLine_closed x a hx).2 hp) j "lines" lines hs hlines)
      (c2 hs).1 (c2 hs).2

theorem fromJsonContainer_closed (fuel : Nat) (j : PyVal) (columns : List Column) (regions : List Region)
    (tables : List Table) (lines : List Line) (coords : Option Pts)
    (h : fromJsonContainer fuel j = .ok (columns, regions, tables, lines, coords)) :
    coords ≠ some [] ∧
    (j.guardsCanon = true → (∀ c ∈ columns, c.ok = true) ∧ (∀ r ∈ regions, r.ok = true)
      ∧ (∀ t ∈ tables, t.preOk = true) ∧ (∀ l ∈ lines, l.ok = true))
    ∧ (j.stable = true → (∀ c ∈ columns, c.jv = true) ∧ (∀ r ∈ regions, r.jv = true)
      ∧ (∀ t ∈ tables, t.jv = true) ∧ (∀ l ∈ lines, l.jv = true)) := by
  unfold fromJsonContainer at h
  obtain ⟨columns', hcolumns, h⟩ := bind_ok h
  obtain ⟨⟨regions', tables'⟩, hrt, h⟩ := bind_ok h
  obtain ⟨xl, hxl, h⟩ := bind_ok h
  obtain ⟨lines', hlines, h⟩ := bind_ok h
  obtain ⟨coords', hco, h⟩ := bind_ok h
  simp only [pure_eq_ok, Except.ok.injEq, Prod.mk.injEq] at h
  obtain ⟨rfl, rfl, rfl, rfl, rfl⟩ := h
  obtain ⟨c1, c2⟩ := fromJsonRegions_closed fuel j _ _ hrt
  refine ⟨jsonCoords_ne j _ _ hco, ?_, ?_⟩
  · intro hg
    exact ⟨optChildren_all subClosed_gc (fun c => c.ok = true) (fromJsonColumn fuel)
        (fun x a hx hp => (fromJsonColumn_closed fuel x a hx).1 hp) j "columns" _ hg hcolumns,
      (c1 hg).1, (c1 hg).2,
      children_all subClosed_gc (fun l => l.ok = true) fromJsonLine
        (fun x a hx hp => (fromJsonLine_closed x a hx).1 hp) j "lines" xl _ hg gc_nil hxl hlines⟩
  · intro hs
    exact ⟨optChildren_all subClosed_stable (fun c => c.jv = true) (fromJsonColumn fuel)
        (fun x a hx hp => (fromJsonColumn_closed fuel x a hx).2 hp) j "columns" _ hs hcolumns,
      (c2 hs).1, (c2 hs).2,
      children_all subClosed_stable (fun l => l.jv = true) fromJsonLine
        (fun x a hx hp => (fromJsonLine_closed x a hx).2 hp) j "lines" xl _ hs st_nil hxl hlines⟩

theorem fromJsonPage_closed (fuel : Nat) (j : PyVal) (p : Page) (h : fromJsonPage fuel j = .ok p) :
    (j.guardsCanon = true → p.ok = true) ∧ (j.stable = true → p.jv = true) := by
  unfold fromJsonPage at h
  obtain ⟨xe, hxe, h⟩ := bind_ok h
  obtain ⟨extra, hextra, h⟩ := bind_ok h
  obtain ⟨⟨columns, regions, tables, lines, coords⟩, hcont, h⟩ := bind_ok h
  obtain ⟨⟨ro, roa, o⟩, hrm, h⟩ := bind_ok h
  obtain ⟨id, hid, h⟩ := bind_ok h
  obtain ⟨ty, hty, h⟩ := bind_ok h
  obtain ⟨md, hmd, h⟩ := bind_ok h
  obtain ⟨ts, hts, h⟩ := bind_ok h
  obtain ⟨m, hm, h⟩ := bind_ok h
  split at h
  · cases h
  · simp only [pure_eq_ok, Except.ok.injEq] at h
    subst h
    obtain ⟨hnd, rfl, rfl, hrj⟩ := regionMeta_spec j ro roa o hrm
    obtain ⟨hco, c1, c2⟩ := fromJsonContainer_closed fuel j _ _ _ _ _ hcont
    constructor
    · intro hg
      exact Page.build_ok _ _ _ _ _ _ _ _ _ _ _ hco (gc_canon j "orientation" (by simp) hg) hnd
        (c1 hg).1 (c1 hg).2.1 (c1 hg).2.2.1
        (children_all subClosed_gc (fun r => r.ok = true) (fromJsonRegion fuel)
          (fun x a hx hp => (fromJsonRegion_closed fuel x a hx).1 hp) j "extra" xe extra hg gc_nil hxe hextra)
    · intro hs
      exact Page.build_jv _ _ _ _ _ _ _ _ _ _ _ (subClosed_stable.req j _ _ hs hid)
        (asMeta_stable md m hm (subClosed_stable.req j _ _ hs hmd)) (subClosed_stable.getD j _ _ hs stable_none)
        (hrj hs) (subClosed_stable.getD j _ _ hs st_emptyDict)
        (c2 hs).1 (c2 hs).2.1 (c2 hs).2.2.1
        (children_all subClosed_stable (fun r => r.jv = true) (fromJsonRegion fuel)
          (fun x a hx hp => (fromJsonRegion_closed fuel x a hx).2 hp) j "extra" xe extra hs st_nil hxe hextra)

theorem fromJsonScan_closed (fuel : Nat) (j : PyVal) (s : Scan) (h : fromJsonScan fuel j = .ok s) :
    (j.guardsCanon = true → s.ok = true) ∧ (j.stable = true → s.jv = true) := by
  unfold fromJsonScan at h
  obtain ⟨pages, hpages, h⟩ := bind_ok h
  obtain ⟨⟨columns, regions, tables, lines, coords⟩, hcont, h⟩ := bind_ok h
  obtain ⟨⟨ro, roa, o⟩, hrm, h⟩ := bind_ok h
  obtain ⟨id, hid, h⟩ := bind_ok h
  obtain ⟨ty, hty, h⟩ := bind_ok h
  obtain ⟨md, hmd, h⟩ := bind_ok h
  obtain ⟨ts, hts, h⟩ := bind_ok h
  obtain ⟨m, hm, h⟩ := bind_ok h
  simp only [pure_eq_ok, Except.ok.injEq] at h
  subst h
  obtain ⟨hnd, rfl, rfl, hrj⟩ := regionMeta_spec j ro roa o hrm
  obtain ⟨hco, c1, c2⟩ := fromJsonContainer_closed fuel j _ _ _ _ _ hcont
  constructor
  · intro hg
    exact Scan.build_ok _ _ _ _ _ _ _ _ _ _ _ _ hco (gc_canon j "orientation" (by simp) hg) hnd
      (optChildren_all subClosed_gc (fun p => p.ok = true) (fromJsonPage fuel)
        (fun x a hx hp => (fromJsonPage_closed fuel x a hx).1 hp) j "pages" pages hg hpages)
      (c1 hg).1 (c1 hg).2.2.2 (c1 hg).2.1 (c1 hg).2.2.1
  · intro hs
    exact Scan.build_jv _ _ _ _ _ _ _ _ _ _ _ _ (subClosed_stable.req j _ _ hs hid)
      (asMeta_stable md m hm (subClosed_stable.req j _ _ hs hmd)) (subClosed_stable.getD j _ _ hs stable_none)
      (hrj hs) (subClosed_stable.getD j _ _ hs st_emptyDict)
      (optChildren_all subClosed_stable (fun p => p.jv = true) (fromJsonPage fuel)
        (fun x a hx hp => (fromJsonPage_closed fuel x a hx).2 hp) j "pages" pages hs hpages)
      (c2 hs).1 (c2 hs).2.2.2 (c2 hs).2.1 (c2 hs).2.2.1


/-! ### the type list of a built document, and the dispatch of `json_to_pagexml_doc` -/

theorem mem_addTypes (x : String) : ∀ (ts cur : List String), x ∈ addTypes cur ts → x ∈ cur ∨ x ∈ ts := by
  intro ts
  induction ts with
  | nil => intro cur h; exact Or.inl h
  | cons t ts ih =>
    intro cur h
    simp only [addTypes] at h
    split at h
    · rcases ih cur h with h | h
      · exact Or.inl h
      · exact Or.inr (by simp [h])
    · rcases ih _ h with h | h
      · rcases List.mem_append.mp h with h | h
        · exact Or.inl h
        · simp only [List.mem_singleton] at h; exact Or.inr (by simp [h])
      · exact Or.inr (by simp [h])

/-- the type list a builder leaves: the class's base tags extended by the JSON `type` entry -/
def TypesFrom (j : PyVal) (base types : List String) : Prop :=
  ∃ ty ts, j.req "type" = .ok ty ∧ asTypes ty = .ok ts ∧ types = addTypes base ts

theorem fromJsonWord_types (j : PyVal) (w : Word) (h : fromJsonWord j = .ok w) :
    TypesFrom j (baseTypes "word") w.h.types := by
  unfold fromJsonWord at h
  obtain ⟨id, hid, h⟩ := bind_ok h
  obtain ⟨ty, hty, h⟩ := bind_ok h
  obtain ⟨md, hmd, h⟩ := bind_ok h
  obtain ⟨text, htx, h⟩ := bind_ok h
  obtain ⟨coords, hco, h⟩ := bind_ok h
  unfold mkWord at h
  obtain ⟨ts, hts, h⟩ := bind_ok h
  obtain ⟨m, _, h⟩ := bind_ok h
  obtain ⟨t, _, h⟩ := bind_ok h
  cases h
  exact ⟨ty, ts, hty, hts, rfl⟩

theorem fromJsonLine_types (j : PyVal) (l : Line) (h : fromJsonLine j = .ok l) :
    TypesFrom j (baseTypes "line") l.h.types := by
  unfold fromJsonLine at h
  obtain ⟨words, hw, h⟩ := bind_ok h
  obtain ⟨⟨ro, roa, o⟩, hrm, h⟩ := bind_ok h
  obtain ⟨id, hid, h⟩ := bind_ok h
  obtain ⟨ty, hty, h⟩ := bind_ok h
  obtain ⟨md, hmd, h⟩ := bind_ok h
  obtain ⟨coords, hco, h⟩ := bind_ok h
  obtain ⟨bl, hbl, h⟩ := bind_ok h
  obtain ⟨text, htx, h⟩ := bind_ok h
  unfold mkLine at h
  obtain ⟨ts, hts, h⟩ := bind_ok h
  obtain ⟨m, _, h⟩ := bind_ok h
  obtain ⟨t, _, h⟩ := bind_ok h
  cases h
  exact ⟨ty, ts, hty, hts, rfl⟩

theorem Region.setParentage_h (r : Region) : r.setParentage.h = r.h := by
  obtain ⟨h, text, orientation, ro, roa, lines, regions, tables⟩ := r
  simp only [Region.setParentage]

theorem fromJsonRegion_types (fuel : Nat) (j : PyVal) (r : Region) (h : fromJsonRegion fuel j = .ok r) :
    TypesFrom j (regionBase "text_region") r.h.types := by
  cases fuel with
  | zero => simp [fromJsonRegion] at h
  | succ fuel =>
    unfold fromJsonRegion at h
    obtain ⟨xr, hxr, h⟩ := bind_ok h
    obtain ⟨regions, hregions, h⟩ := bind_ok h
    obtain ⟨xl, hxl, h⟩ := bind_ok h
    obtain ⟨lines, hlines, h⟩ := bind_ok h
    obtain ⟨xt, hxt, h⟩ := bind_ok h
    obtain ⟨tables, htables, h⟩ := bind_ok h
    obtain ⟨⟨ro, roa, o⟩, hrm, h⟩ := bind_ok h
    obtain ⟨id, hid, h⟩ := bind_ok h
    obtain ⟨ty, hty, h⟩ := bind_ok h
    obtain ⟨md, hmd, h⟩ := bind_ok h
    obtain ⟨coords, hco, h⟩ := bind_ok h
    obtain ⟨text, htx, h⟩ := bind_ok h
    obtain ⟨ts, hts, h⟩ := bind_ok h
    obtain ⟨m, hm, h⟩ := bind_ok h
    simp only [pure_eq_ok, Except.ok.injEq] at h
    subst h
    exact ⟨ty, ts, hty, hts, by rw [Region.setParentage_h]⟩

theorem fromJsonColumn_types (fuel : Nat) (j : PyVal) (c : Column) (h : fromJsonColumn fuel j = .ok c) :
    TypesFrom j (regionBase "column") c.h.types := by
  unfold fromJsonColumn at h
  obtain ⟨⟨regions, tables⟩, hrt, h⟩ := bind_ok h
  obtain ⟨lines, hlines, h⟩ := bind_ok h
  obtain ⟨⟨ro, roa, o⟩, hrm, h⟩ := bind_ok h
  obtain ⟨id, hid, h⟩ := bind_ok h
  obtain ⟨ty, hty, h⟩ := bind_ok h
  obtain ⟨md, hmd, h⟩ := bind_ok h
  obtain ⟨coords, hco, h⟩ := bind_ok h
  obtain ⟨ts, hts, h⟩ := bind_ok h
  obtain ⟨m, hm, h⟩ := bind_ok h
  simp only [pure_eq_ok, Except.ok.injEq] at h
  subst h
  exact ⟨ty, ts, hty, hts, rfl⟩

theorem fromJsonPage_types (fuel : Nat) (j : PyVal) (p : Page) (h : fromJsonPage fuel j = .ok p) :
    TypesFrom j (regionBase "page") p.h.types := by
  unfold fromJsonPage at h
  obtain ⟨xe, hxe, h⟩ := bind_ok h
  obtain ⟨extra, hextra, h⟩ := bind_ok h
  obtain ⟨⟨columns, regions, tables, lines, coords⟩, hcont, h⟩ := bind_ok h
  obtain ⟨⟨ro, roa, o⟩, hrm, h⟩ := bind_ok h
  obtain ⟨id, hid, h⟩ := bind_ok h
  obtain ⟨ty, hty, h⟩ := bind_ok h
  obtain ⟨md, hmd, h⟩ := bind_ok h
  obtain ⟨ts, hts, h⟩ := bind_ok h
  obtain ⟨m, hm, h⟩ := bind_ok h
  split at h
  · cases h
  · simp only [pure_eq_ok, Except.ok.injEq] at h
    subst h
    exact ⟨ty, ts, hty, hts, rfl⟩

theorem isPrefixOf_self (t : List Char) : t.isPrefixOf t = true := by
  induction t with
  | nil => rfl
  | cons c cs ih => simp [List.isPrefixOf, ih]

theorem isSubstr_self (t : List Char) (h : t ≠ []) : isSubstr t t = true := by
  cases t with
  | nil => exact absurd rfl h
  | cons c cs => simp only [isSubstr, isPrefixOf_self, Bool.true_or]

/-- a tag the dispatch did not find is not in the decoded type list -/
theorem hasTag_false (ty : PyVal) (t : String) (ts : List String) (ht : t ≠ "")
    (h : hasTag ty t = .ok false) (hts : asTypes ty = .ok ts) : t ∉ ts := by
  cases ty <;> simp only [asTypes] at hts <;> try cases hts
  case str s =>
    simp only [hasTag, Except.ok.injEq] at h
    intro hm
    split at hm
    · simp at hm
    · simp only [List.mem_singleton] at hm
      subst hm
      have hne : t.toList ≠ [] := by
        intro e; apply ht
        have := congrArg String.ofList e
        simpa using this
      rw [isSubstr_self _ hne] at h
      cases h
  case list xs =>
    simp only [hasTag, Except.ok.injEq] at h
    intro hm
    have : ∀ (xs : List PyVal) (ts : List String),
        xs.mapM (fun x => match x with | .str s => (.ok s : Res String) | _ => .error .TypeError) = .ok ts →
        t ∈ ts → PyVal.str t ∈ xs := by
      intro xs
      induction xs with
      | nil => intro ts h hm; simp [List.mapM_nil] at h; cases h; simp at hm
      | cons x xs ih =>
        intro ts h hm
        rw [List.mapM_cons] at h
        obtain ⟨a, ha, h⟩ := bind_ok h
        obtain ⟨as, has, h⟩ := bind_ok h
        cases h
        rcases List.mem_cons.mp hm with rfl | hm
        · cases x <;> simp at ha
          case str s => cases ha; simp
        · exact List.mem_cons_of_mem _ (ih as has hm)
    have hx := this xs ts hts hm
    rw [List.any_eq_false] at h
    exact h _ hx (by simp)

theorem noTags_of (j : PyVal) (base types tags : List String) (ht : TypesFrom j base types)
    (hb : ∀ t ∈ tags, t ∉ base) (hne : ∀ t ∈ tags, t ≠ "")
    (hd : ∀ t ∈ tags, ∀ ty, j.req "type" = .ok ty → hasTag ty t = .ok false) : noTags tags types = true := by
  obtain ⟨ty, ts, hty, hts, rfl⟩ := ht
  simp only [noTags, List.all_eq_true, Bool.not_eq_true', List.contains_eq_mem, decide_eq_false_iff_not]
  intro t htg hm
  rcases mem_addTypes t ts base hm with h | h
  · exact hb t htg h
  · exact hasTag_false ty t ts (hne t htg) (hd t htg ty hty) hts h

/-- **every document `parse_pagexml_from_json` returns is well-formed** (for a JSON value whose
    truthiness-guarded entries are canonical) **and JSON-valued** (for a JSON-stable value) -/
theorem fromJson_closed (fuel : Nat) (j : PyVal) (d : Doc) (h : fromJson fuel j = .ok (some d)) :
    (j.guardsCanon = true → d.ok = true) ∧ (j.stable = true → d.jv = true) := by
  unfold fromJson at h
  obtain ⟨ty, hty, h⟩ := bind_ok h
  obtain ⟨b0, h0, h⟩ := bind_ok h
  have hreq : ∀ ty', j.req "type" = .ok ty' → ty' = ty := by
    intro ty' h'; rw [hty] at h'; cases h'; rfl
  split at h
  · cases h
  · obtain ⟨b1, h1, h⟩ := bind_ok h
    split at h
    · obtain ⟨s, hs, h⟩ := bind_ok h
      simp only [pure_eq_ok, Except.ok.injEq, Option.some.injEq] at h
      subst h
      exact fromJsonScan_closed fuel j s hs
    · rename_i n1
      obtain ⟨b2, h2, h⟩ := bind_ok h
      split at h
      · obtain ⟨p, hp, h⟩ := bind_ok h
        simp only [pure_eq_ok, Except.ok.injEq, Option.some.injEq] at h
        subst h
        obtain ⟨c1, c2⟩ := fromJsonPage_closed fuel j p hp
        refine ⟨fun hg => ?_, c2⟩
        simp only [Doc.ok, Bool.and_eq_true]
        refine ⟨c1 hg, noTags_of j _ _ _ (fromJsonPage_types fuel j p hp) (by decide) (by decide) ?_⟩
        intro t ht ty' hty'
        rw [hreq ty' hty']
        simp only [List.mem_cons, List.not_mem_nil, or_false] at ht
        subst ht
        rw [h1]; simp at n1; rw [n1]
      · rename_i n2
        obtain ⟨b3, h3, h⟩ := bind_ok h
        split at h
        · obtain ⟨c, hc, h⟩ := bind_ok h
          simp only [pure_eq_ok, Except.ok.injEq, Option.some.injEq] at h
          subst h
          obtain ⟨c1, c2⟩ := fromJsonColumn_closed fuel j c hc
          refine ⟨fun hg => ?_, c2⟩
          simp only [Doc.ok, Bool.and_eq_true]
          refine ⟨c1 hg, noTags_of j _ _ _ (fromJsonColumn_types fuel j c hc) (by decide) (by decide) ?_⟩
          intro t ht ty' hty'
          rw [hreq ty' hty']
          simp only [List.mem_cons, List.not_mem_nil, or_false] at ht
          simp at n1 n2
          rcases ht with rfl | rfl
          · rw [h1, n1]
          · rw [h2, n2]
        · rename_i n3
          obtain ⟨b4, h4, h⟩ := bind_ok h
          split at h
          · obtain ⟨r, hr, h⟩ := bind_ok h
            simp only [pure_eq_ok, Except.ok.injEq, Option.some.injEq] at h
            subst h
            obtain ⟨c1, c2⟩ := fromJsonRegion_closed fuel j r hr
            refine ⟨fun hg => ?_, c2⟩
            simp only [Doc.ok, Bool.and_eq_true]
            refine ⟨c1 hg, noTags_of j _ _ _ (fromJsonRegion_types fuel j r hr) (by decide) (by decide) ?_⟩
            intro t ht ty' hty'
            rw [hreq ty' hty']
            simp only [List.mem_cons, List.not_mem_nil, or_false] at ht
            simp at n1 n2 n3
            rcases ht with rfl | rfl | rfl
            · rw [h1, n1]
            · rw [h2, n2]
            · rw [h3, n3]
          · rename_i n4
            obtain ⟨b5, h5, h⟩ := bind_ok h
            split at h
            · obtain ⟨l, hl, h⟩ := bind_ok h
              simp only [pure_eq_ok, Except.ok.injEq, Option.some.injEq] at h
              subst h
              obtain ⟨c1, c2⟩ := fromJsonLine_closed j l hl
              refine ⟨fun hg => ?_, c2⟩
              simp only [Doc.ok, Bool.and_eq_true]
              refine ⟨c1 hg, noTags_of j _ _ _ (fromJsonLine_types j l hl) (by decide) (by decide) ?_⟩
              intro t ht ty' hty'
              rw [hreq ty' hty']
              simp only [List.mem_cons, List.not_mem_nil, or_false] at ht
              simp at n1 n2 n3 n4
              rcases ht with rfl | rfl | rfl | rfl
              · rw [h1, n1]
              · rw [h2, n2]
              · rw [h3, n3]
              · rw [h4, n4]
            · rename_i n5
              obtain ⟨b6, h6, h⟩ := bind_ok h
              split at h
              · obtain ⟨w, hw, h⟩ := bind_ok h
                simp only [pure_eq_ok, Except.ok.injEq, Option.some.injEq] at h
                subst h
                obtain ⟨c1, c2⟩ := fromJsonWord_closed j w hw
                refine ⟨fun hg => ?_, c2⟩
                simp only [Doc.ok, Bool.and_eq_true]
                refine ⟨c1, noTags_of j _ _ _ (fromJsonWord_types j w hw) (by decide) (by decide) ?_⟩
                intro t ht ty' hty'
                rw [hreq ty' hty']
                simp only [List.mem_cons, List.not_mem_nil, or_false] at ht
                simp at n1 n2 n3 n4 n5
                rcases ht with rfl | rfl | rfl | rfl | rfl
                · rw [h1, n1]
                · rw [h2, n2]
                · rw [h3, n3]
                · rw [h4, n4]
                · rw [h5, n5]
              · simp at h

end Pagexml.C06
