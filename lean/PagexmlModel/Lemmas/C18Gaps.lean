/-
C18 helper lemmas, part 1: the pixel list and the gap intervals.
-/
import PagexmlModel.Lemmas.C18Consts

namespace Pagexml.C18

/-! ### min / max folds -/

theorem minLeft_le_init (a : Int) (ls : List Line) : minLeft a ls ≤ a := by
  induction ls with
  | nil => simp [minLeft]
  | cons l ls ih => simp only [minLeft]; omega

theorem minLeft_le_mem (a : Int) (ls : List Line) : ∀ l ∈ ls, minLeft a ls ≤ l.box.l := by
  induction ls with
  | nil => simp
  | cons x xs ih =>
    intro l hl
    simp only [minLeft]
    rcases List.mem_cons.mp hl with rfl | h
    · omega
    · have := ih l h; omega

theorem maxRight_ge_init (a : Int) (ls : List Line) : a ≤ maxRight a ls := by
  induction ls with
  | nil => simp [maxRight]
  | cons l ls ih => simp only [maxRight]; omega

theorem maxRight_ge_mem (a : Int) (ls : List Line) : ∀ l ∈ ls, l.box.r ≤ maxRight a ls := by
  induction ls with
  | nil => simp
  | cons x xs ih =>
    intro l hl
    simp only [maxRight]
    rcases List.mem_cons.mp hl with rfl | h
    · omega
    · have := ih l h; omega

theorem minTop_le_init (a : Int) (ls : List Line) : minTop a ls ≤ a := by
  induction ls with
  | nil => simp [minTop]
  | cons l ls ih => simp only [minTop]; omega

theorem minTop_le_mem (a : Int) (ls : List Line) : ∀ l ∈ ls, minTop a ls ≤ l.box.t := by
  induction ls with
  | nil => simp
  | cons x xs ih =>
    intro l hl
    simp only [minTop]
    rcases List.mem_cons.mp hl with rfl | h
    · omega
    · have := ih l h; omega

theorem maxBottom_ge_init (a : Int) (ls : List Line) : a ≤ maxBottom a ls := by
  induction ls with
  | nil => simp [maxBottom]
  | cons l ls ih => simp only [maxBottom]; omega

theorem maxBottom_ge_mem (a : Int) (ls : List Line) : ∀ l ∈ ls, l.box.b ≤ maxBottom a ls := by
  induction ls with
  | nil => simp
  | cons x xs ih =>
    intro l hl
    simp only [maxBottom]
    rcases List.mem_cons.mp hl with rfl | h
    · omega
    · have := ih l h; omega

/-- the fold value is attained: bounds on the initial value and all members carry over -/
theorem minLeft_ge (a k : Int) (ls : List Line) (ha : k ≤ a) (h : ∀ l ∈ ls, k ≤ l.box.l) :
    k ≤ minLeft a ls := by
  induction ls with
  | nil => simpa [minLeft]
  | cons x xs ih =>
    simp only [minLeft]
    have := ih (fun l hl => h l (List.mem_cons_of_mem _ hl))
    have := h x (List.mem_cons_self ..)
    omega

theorem maxRight_le (a k : Int) (ls : List Line) (ha : a ≤ k) (h : ∀ l ∈ ls, l.box.r ≤ k) :
    maxRight a ls ≤ k := by
  induction ls with
  | nil => simpa [maxRight]
  | cons x xs ih =>
    simp only [maxRight]
    have := ih (fun l hl => h l (List.mem_cons_of_mem _ hl))
    have := h x (List.mem_cons_self ..)
    omega

/-! ### the pixel list -/

theorem mem_intRange {lo : Int} {n : Nat} {p : Int} : p ∈ intRange lo n ↔ lo ≤ p ∧ p < lo + n := by
  simp only [intRange, List.mem_map, List.mem_range]
  constructor
  · rintro ⟨i, hi, rfl⟩; omega
  · rintro ⟨h1, h2⟩; exact ⟨(p - lo).toNat, by omega, by omega⟩

theorem intRange_sorted (lo : Int) (n : Nat) : (intRange lo n).Pairwise (· < ·) := by
  simp only [intRange, List.pairwise_map]
  exact List.pairwise_lt_range.imp (by intro a b h; omega)

theorem covered_iff {ls : List Line} {p : Int} :
    covered ls p = true ↔ ∃ l ∈ ls, l.box.l ≤ p ∧ p ≤ l.box.r := by
  simp [covered, covers, List.any_eq_true]

/-- the model's pixel list is exactly the set of covered pixels … -/
theorem mem_pixels {ls : List Line} {p : Int} :
    p ∈ pixels ls ↔ ∃ l ∈ ls, l.box.l ≤ p ∧ p ≤ l.box.r := by
  cases ls with
  | nil => simp [pixels]
  | cons a as =>
    simp only [pixels, List.mem_filter, mem_intRange, covered_iff]
    constructor
    · exact fun h => h.2
    · rintro ⟨l, hl, h1, h2⟩
      refine ⟨?_, l, hl, h1, h2⟩
      have hlo : minLeft a.box.l as ≤ l.box.l := by
        rcases List.mem_cons.mp hl with rfl | h
        · exact minLeft_le_init _ _
        · exact minLeft_le_mem _ _ l h
      have hhi : l.box.r ≤ maxRight a.box.r as := by
        rcases List.mem_cons.mp hl with rfl | h
        · exact maxRight_ge_init _ _
        · exact maxRight_ge_mem _ _ l h
      omega

/-- … in strictly increasing order (hence without duplicates) -/
theorem pixels_sorted (ls : List Line) : (pixels ls).Pairwise (· < ·) := by
  cases ls with
  | nil => simp [pixels]
  | cons a as => exact (intRange_sorted _ _).filter _

/-! ### the interval loop -/

theorem pairwise_trichotomy {α} {R : α → α → Prop} {l : List α} (h : l.Pairwise R) {a b : α}
    (ha : a ∈ l) (hb : b ∈ l) : a = b ∨ R a b ∨ R b a := by
  induction l with
  | nil => cases ha
  | cons x xs ih =>
    have hx := List.pairwise_cons.mp h
    rcases List.mem_cons.mp ha with rfl | ha' <;> rcases List.mem_cons.mp hb with rfl | hb'
    · exact Or.inl rfl
    · exact Or.inr (Or.inl (hx.1 b hb'))
    · exact Or.inr (Or.inr (hx.1 a ha'))
    · exact ih hx.2 ha' hb'

theorem gapGo_start_ge (thr s e : Int) (xs : List Int) (hse : s ≤ e)
    (hs : (e :: xs).Pairwise (· < ·)) : ∀ ρ ∈ gapGo thr s e xs, s ≤ ρ.1 := by
  induction xs generalizing s e with
  | nil => intro ρ h; simp [gapGo] at h; subst h; exact Int.le_refl _
  | cons p ps ih =>
    have hep : e < p := (List.pairwise_cons.mp hs).1 p (List.mem_cons_self ..)
    have hps : (p :: ps).Pairwise (· < ·) := (List.pairwise_cons.mp hs).2
    intro ρ h
    simp only [gapGo] at h
    split at h
    · exact ih s p (by omega) hps ρ h
    · rcases List.mem_cons.mp h with rfl | h
      · exact Int.le_refl _
      · have := ih p p (Int.le_refl _) hps ρ h; omega

theorem gapGo_pairwise (thr s e : Int) (xs : List Int) (hse : s ≤ e)
    (hs : (e :: xs).Pairwise (· < ·)) :
    (gapGo thr s e xs).Pairwise (fun a b => a.2 + max thr gapMin ≤ b.1) := by
  induction xs generalizing s e with
  | nil => simp [gapGo]
  | cons p ps ih =>
    have hep : e < p := (List.pairwise_cons.mp hs).1 p (List.mem_cons_self ..)
    have hps : (p :: ps).Pairwise (· < ·) := (List.pairwise_cons.mp hs).2
    simp only [gapGo]
    split
    · exact ih s p (by omega) hps
    · refine List.pairwise_cons.mpr ⟨?_, ih p p (Int.le_refl _) hps⟩
      intro ρ hρ
      have := gapGo_start_ge thr p p ps (Int.le_refl _) hps ρ hρ
      show e + max thr gapMin ≤ ρ.1
      omega

theorem gapGo_wf (thr s e : Int) (xs : List Int) (hse : s ≤ e)
    (hs : (e :: xs).Pairwise (· < ·)) : ∀ ρ ∈ gapGo thr s e xs, ρ.1 ≤ ρ.2 := by
  induction xs generalizing s e with
  | nil => intro ρ h; simp [gapGo] at h; subst h; exact hse
  | cons p ps ih =>
    have hep : e < p := (List.pairwise_cons.mp hs).1 p (List.mem_cons_self ..)
    have hps : (p :: ps).Pairwise (· < ·) := (List.pairwise_cons.mp hs).2
    intro ρ h
    simp only [gapGo] at h
    split at h
    · exact ih s p (by omega) hps ρ h
    · rcases List.mem_cons.mp h with rfl | h
      · exact hse
      · exact ih p p (Int.le_refl _) hps ρ h

theorem gapGo_cover (thr s e : Int) (xs : List Int) (hse : s ≤ e)
    (hs : (e :: xs).Pairwise (· < ·)) :
    ∀ q, (s ≤ q ∧ q ≤ e) ∨ q ∈ xs → ∃ ρ ∈ gapGo thr s e xs, ρ.1 ≤ q ∧ q ≤ ρ.2 := by
  induction xs generalizing s e with
  | nil =>
    intro q hq
    rcases hq with hq | hq
    · exact ⟨(s, e), by simp [gapGo], hq.1, hq.2⟩
    · cases hq
  | cons p ps ih =>
    have hep : e < p := (List.pairwise_cons.mp hs).1 p (List.mem_cons_self ..)
    have hps : (p :: ps).Pairwise (· < ·) := (List.pairwise_cons.mp hs).2
    intro q hq
    simp only [gapGo]
    split
    · apply ih s p (by omega) hps q
      rcases hq with hq | hq
      · left; omega
      · rcases List.mem_cons.mp hq with rfl | hq
        · left; omega
        · right; exact hq
    · rcases hq with hq | hq
      · exact ⟨(s, e), List.mem_cons_self .., hq.1, hq.2⟩
      · obtain ⟨ρ, hρ, h1, h2⟩ := ih p p (Int.le_refl _) hps q (by
          rcases List.mem_cons.mp hq with rfl | hq
          · left; omega
          · right; exact hq)
        exact ⟨ρ, List.mem_cons_of_mem _ hρ, h1, h2⟩

theorem gapGo_dense (P : Int → Prop) (thr s e : Int) (xs : List Int)
    (hs : (e :: xs).Pairwise (· < ·)) (hP : ∀ y ∈ e :: xs, P y)
    (h0 : ∀ x, s ≤ x → x < e → ∃ y, P y ∧ x < y ∧ y < x + max thr gapMin ∧ y ≤ e) :
    ∀ ρ ∈ gapGo thr s e xs, ∀ x, ρ.1 ≤ x → x < ρ.2 →
      ∃ y, P y ∧ x < y ∧ y < x + max thr gapMin ∧ y ≤ ρ.2 := by
  induction xs generalizing s e with
  | nil => intro ρ h; simp [gapGo] at h; subst h; exact h0
  | cons p ps ih =>
    have hep : e < p := (List.pairwise_cons.mp hs).1 p (List.mem_cons_self ..)
    have hps : (p :: ps).Pairwise (· < ·) := (List.pairwise_cons.mp hs).2
    have hP' : ∀ y ∈ p :: ps, P y := fun y hy => hP y (List.mem_cons_of_mem _ hy)
    intro ρ h
    simp only [gapGo] at h
    split at h
    · rename_i hlt
      refine ih s p hps hP' ?_ ρ h
      intro x hx1 hx2
      by_cases hxe : x < e
      · obtain ⟨y, hy, h1, h2, h3⟩ := h0 x hx1 hxe
        exact ⟨y, hy, h1, h2, by omega⟩
      · exact ⟨p, hP' p (List.mem_cons_self ..), hx2, by omega, Int.le_refl _⟩
    · rcases List.mem_cons.mp h with rfl | h
      · exact h0
      · refine ih p p hps hP' ?_ ρ h
        intro x hx1 hx2
        omega

/-! ### facts about `gapIntervals thr xs` for a strictly increasing pixel list -/

theorem gapIntervals_pairwise (thr : Int) {xs : List Int} (hs : xs.Pairwise (· < ·)) :
    (gapIntervals thr xs).Pairwise (fun a b => a.2 + max thr gapMin ≤ b.1) := by
  cases xs with
  | nil => simp [gapIntervals]
  | cons p ps => exact gapGo_pairwise thr p p ps (Int.le_refl _) hs

theorem gapIntervals_wf (thr : Int) {xs : List Int} (hs : xs.Pairwise (· < ·)) :
    ∀ ρ ∈ gapIntervals thr xs, ρ.1 ≤ ρ.2 := by
  cases xs with
  | nil => simp [gapIntervals]
  | cons p ps => exact gapGo_wf thr p p ps (Int.le_refl _) hs

theorem gapIntervals_cover (thr : Int) {xs : List Int} (hs : xs.Pairwise (· < ·)) :
    ∀ q ∈ xs, ∃ ρ ∈ gapIntervals thr xs, ρ.1 ≤ q ∧ q ≤ ρ.2 := by
  cases xs with
  | nil => simp
  | cons p ps =>
    intro q hq
    apply gapGo_cover thr p p ps (Int.le_refl _) hs q
    rcases List.mem_cons.mp hq with rfl | hq
    · left; omega
    · right; exact hq

theorem gapIntervals_dense (thr : Int) {xs : List Int} (hs : xs.Pairwise (· < ·)) :
    ∀ ρ ∈ gapIntervals thr xs, ∀ x, ρ.1 ≤ x → x < ρ.2 →
      ∃ y ∈ xs, x < y ∧ y < x + max thr gapMin ∧ y ≤ ρ.2 := by
  cases xs with
  | nil => simp [gapIntervals]
  | cons p ps =>
    intro ρ hρ x h1 h2
    exact gapGo_dense (· ∈ p :: ps) thr p p ps hs (fun y hy => hy) (by intro x a b; omega) ρ hρ x h1 h2

/-- two different intervals are a full gap apart -/
theorem gapIntervals_apart (thr : Int) {xs : List Int} (hs : xs.Pairwise (· < ·))
    {ρ ρ' : Int × Int} (h : ρ ∈ gapIntervals thr xs) (h' : ρ' ∈ gapIntervals thr xs) :
    ρ = ρ' ∨ ρ.2 + max thr gapMin ≤ ρ'.1 ∨ ρ'.2 + max thr gapMin ≤ ρ.1 :=
  pairwise_trichotomy (gapIntervals_pairwise thr hs) h h'

/-- a run of pixels without a hole of `max thr gapMin` that starts inside an interval stays inside it -/
theorem chain_in_interval (thr : Int) {xs : List Int} (hs : xs.Pairwise (· < ·))
    {ρ : Int × Int} (hρ : ρ ∈ gapIntervals thr xs) {a b : Int} (ha2 : a ≤ ρ.2)
    (hch : ∀ x, a ≤ x → x < b → ∃ y ∈ xs, x < y ∧ y < x + max thr gapMin) : b ≤ ρ.2 := by
  apply Classical.byContradiction
  intro hcon
  obtain ⟨y, hy, h1, h2⟩ := hch ρ.2 ha2 (by omega)
  obtain ⟨ρ', hρ', h3, h4⟩ := gapIntervals_cover thr hs y hy
  have hw := gapIntervals_wf thr hs ρ hρ
  rcases gapIntervals_apart thr hs hρ hρ' with rfl | h | h <;> omega

end Pagexml.C18
