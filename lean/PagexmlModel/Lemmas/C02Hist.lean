/-
C02: the histories of Model/C02Hist.lean (bottom-up construction, the JSON builders, the XML
parser) are disciplined: every operation meets `Pre` in the store it is applied to, none fails,
and the store they end in satisfies the invariants.
-/
import PagexmlModel.Lemmas.C02Total
import PagexmlModel.Lemmas.C02Step
import PagexmlModel.Model.C02Hist

set_option linter.unusedSimpArgs false
set_option linter.unusedVariables false

namespace Pagexml.C02

/-! ### running a history -/

/-- the history runs from `σ` to `σ'` without error, every operation meeting the precondition -/
def Runs (σ : Store) (ops : List Op) (σ' : Store) : Prop := run σ ops = .ok σ' ∧ runPre σ ops = true

theorem Runs.nil (σ : Store) : Runs σ [] σ := ⟨rfl, rfl⟩

theorem Runs.cons {σ σ₁ σ' : Store} {op : Op} {o : Out} {ops : List Op} (hs : step σ op = .ok (σ₁, o))
    (hp : Pre σ op = true) (h : Runs σ₁ ops σ') : Runs σ (op :: ops) σ' := by
  refine ⟨?_, ?_⟩
  · simp only [run, hs]; exact h.1
  · simp only [runPre, hs, hp, Bool.true_and]; exact h.2

theorem Runs.append {σ σ₁ σ' : Store} {a b : List Op} (h1 : Runs σ a σ₁) (h2 : Runs σ₁ b σ') : Runs σ (a ++ b) σ' := by
  induction a generalizing σ with
  | nil =>
    obtain ⟨r, _⟩ := h1
    simp only [run, Except.ok.injEq] at r
    subst r; exact h2
  | cons op a ih =>
    obtain ⟨r, p⟩ := h1
    simp only [run] at r
    simp only [runPre, Bool.and_eq_true] at p
    cases hs : step σ op with
    | error e => rw [hs] at r; cases r
    | ok x =>
      obtain ⟨σ₂, o⟩ := x
      rw [hs] at r p
      exact Runs.cons hs p.1 (ih ⟨r, p.2⟩)

/-- the two invariants carried along a history -/
structure Good (σ : Store) : Prop where
  inv : Inv σ
  ac : Acyclic σ

theorem inv_empty : Inv Store.empty := by
  have nog : ∀ n, Store.empty.get? n = none := fun n => by simp [Store.empty, Store.get?]
  refine ⟨?_, ⟨?_, ?_, ?_⟩, ?_, ?_⟩
  · intro p pn c g; rw [nog] at g; cases g
  · intro p q pn qn c g; rw [nog] at g; cases g
  · intro p pn c cn g; rw [nog] at g; cases g
  · intro p pn c g; rw [nog] at g; cases g
  · intro n nd _ g; rw [nog] at g; cases g
  · intro s sn n nn _ g; rw [nog] at g; cases g

theorem good_empty : Good Store.empty := ⟨inv_empty, acyclic_empty⟩

/-- one disciplined step: it succeeds, keeps both invariants, and writes one node's child lists -/
theorem good_step {σ : Store} {op : Op} (g : Good σ) (hp : Pre σ op = true) :
    ∃ σ' o, step σ op = .ok (σ', o) ∧ Good σ' ∧ Adds σ σ' (op.source σ) op.targets := by
  obtain ⟨⟨σ', o⟩, hs⟩ := step_total g.inv g.ac hp
  exact ⟨σ', o, hs, ⟨step_preserves hp g.inv hs, step_acyclic g.inv g.ac hp hs⟩, step_adds g.inv hs⟩

theorem good_run {σ σ' : Store} {ops : List Op} (g : Good σ) (h : Runs σ ops σ') : Good σ' := by
  induction ops generalizing σ with
  | nil => obtain ⟨r, _⟩ := h; simp only [run, Except.ok.injEq] at r; subst r; exact g
  | cons op ops ih =>
    obtain ⟨r, p⟩ := h
    simp only [run] at r
    simp only [runPre, Bool.and_eq_true] at p
    cases hs : step σ op with
    | error e => rw [hs] at r; cases r
    | ok x =>
      obtain ⟨σ₂, o⟩ := x
      rw [hs] at r p
      exact ih ⟨step_preserves p.1 g.inv hs, step_acyclic g.inv g.ac p.1 hs⟩ ⟨r, p.2⟩

/-! ### free elements -/

theorem FreeKid.lt {σ : Store} {c : Nat} (h : FreeKid σ c) : c < σ.size := by
  obtain ⟨⟨cn, g, _⟩, _⟩ := h
  exact get?_lt g

theorem FreeKid.bools {σ : Store} {c : Nat} (h : FreeKid σ c) :
    σ.has c = true ∧ σ.free c = true ∧ σ.notScan c = true := by
  refine ⟨has_iff.mpr h.lt, free_iff.mpr h.2, ?_⟩
  obtain ⟨⟨cn, g, hc⟩, _⟩ := h
  exact notScan_iff.mpr (fun cn' g' => by rw [g] at g'; cases g'; exact hc)

theorem clsOf_some {σ : Store} {c : Nat} {C : Cls} (h : clsOf σ c = some C) : ∃ cn, σ.get? c = some cn ∧ cn.cls = C := by
  unfold clsOf at h
  cases g : σ.get? c with
  | none => rw [g] at h; cases h
  | some cn => rw [g] at h; simp at h; exact ⟨cn, rfl, h⟩

/-- an element that was free and is not among the new entries stays free -/
theorem freeKid_adds {σ σ' : Store} {p c : Nat} {cs : List Nat} (A : Adds σ σ' p cs) (h : FreeKid σ c) (hc : c ∉ cs) :
    FreeKid σ' c := by
  obtain ⟨⟨cn, g, hcls⟩, hfree⟩ := h
  have e := A.cls c (get?_lt g)
  have : clsOf σ' c = some cn.cls := by rw [e]; simp [clsOf, g]
  obtain ⟨cn', g', hc'⟩ := clsOf_some this
  refine ⟨⟨cn', g', by rw [hc']; exact hcls⟩, ?_⟩
  intro q qn gq hm
  rcases A.edge q c (mem_kidsOf.mpr ⟨qn, gq, hm⟩) with hold | ⟨_, hnew⟩
  · obtain ⟨qn₀, gq₀, hm₀⟩ := mem_kidsOf.mp hold
    exact hfree q qn₀ gq₀ hm₀
  · exact hc hnew

/-- the node a constructor has just created is free -/
theorem freeKid_new {σ σ' : Store} {cs : List Nat} {C : Cls} (A : Adds σ σ' σ.size cs) (hcl : Closed σ)
    (hcs : ∀ c ∈ cs, c < σ.size) (hcls : clsOf σ' σ.size = some C) (hC : C ≠ .scan) : FreeKid σ' σ.size := by
  obtain ⟨cn, g, hc⟩ := clsOf_some hcls
  refine ⟨⟨cn, g, by rw [hc]; exact hC⟩, ?_⟩
  intro q qn gq hm
  rcases A.edge q σ.size (mem_kidsOf.mpr ⟨qn, gq, hm⟩) with hold | ⟨_, hnew⟩
  · exact absurd (hcl q _ hold) (by omega)
  · exact absurd (hcs _ hnew) (by omega)

/-- after a step, a target that was free is listed by the written node only -/
theorem onlyBy_adds {σ σ' : Store} {p c : Nat} {cs : List Nat} (A : Adds σ σ' p cs) (h : FreeKid σ c) :
    ∀ q qn, σ'.get? q = some qn → c ∈ qn.allKids → q = p := by
  intro q qn gq hm
  rcases A.edge q c (mem_kidsOf.mpr ⟨qn, gq, hm⟩) with hold | ⟨e, _⟩
  · obtain ⟨qn₀, gq₀, hm₀⟩ := mem_kidsOf.mp hold
    exact absurd hm₀ (h.2 q qn₀ gq₀)
  · exact e

/-- what a subtree leaves of the store it started from: elements that were free stay free -/
def Frame (σ σ' : Store) : Prop := ∀ c, FreeKid σ c → FreeKid σ' c

theorem Frame.rfl' (σ : Store) : Frame σ σ := fun _ h => h
theorem Frame.trans {σ₁ σ₂ σ₃ : Store} (a : Frame σ₁ σ₂) (b : Frame σ₂ σ₃) : Frame σ₁ σ₃ := fun c h => b c (a c h)

/-! ### a freshly constructed node -/

structure Fresh (σ σ' : Store) (C : Cls) : Prop where
  size : σ'.size = σ.size + 1
  cls : clsOf σ' σ.size = some C

theorem Fresh.then_eq {σ σ₁ σ₂ : Store} {C : Cls} (f : Fresh σ σ₁ C) (e : KidsEq σ₁ σ₂) : Fresh σ σ₂ C :=
  ⟨by rw [e.1]; exact f.size, by rw [(e.2 _).2]; exact f.cls⟩

theorem fresh_alloc (σ : Store) (nd : Node) (C : Cls) (h : nd.cls = C) : Fresh σ (σ.alloc nd) C :=
  ⟨by simp, by simp [clsOf, get?_alloc, h]⟩

theorem addTypeIf_cls (ts : List String) (nd : Node) : (nd.addTypeIf ts).cls = nd.cls := (addTypeIf_fields ts nd).1

theorem docInit_cls (cls : Cls) (a : Args) (dt : String) : (docInit cls a dt).cls = cls := by
  simp [docInit, physInit, structInit, Node.addType]

theorem fresh_mkWord (σ : Store) (a : Args) : Fresh σ (mkWord σ a).1 .word := by
  unfold mkWord
  refine fresh_alloc σ _ _ ?_
  rw [addTypeIf_cls]; simp [docInit_cls]

theorem fresh_mkLine (σ : Store) (a : Args) (ws : List Nat) : Fresh σ (mkLine σ a ws).1 .line := by
  unfold mkLine
  simp only
  refine Fresh.then_eq ?_ (kidsEq_upd _ _ _ (addTypeIf_fields _))
  refine Fresh.then_eq ?_ (kidsEq_setAsParent _ _ _)
  refine fresh_alloc σ _ _ ?_
  simp [setMeta, docInit_cls]

theorem fresh_mkRow (σ : Store) (a : Args) (cs : List Nat) (h : cs.isEmpty = false) : Fresh σ (mkRow σ a cs).1 .row := by
  unfold mkRow
  simp only [h, Bool.false_eq_true, if_false]
  refine fresh_alloc σ _ _ ?_
  rw [addTypeIf_cls]; simp [docInit_cls]

theorem fresh_mkTable (σ : Store) (a : Args) (rs : List Nat) : Fresh σ (mkTable σ a rs).1 .table := by
  unfold mkTable
  refine fresh_alloc σ _ _ ?_
  rw [addTypeIf_cls]; simp [docInit_cls]

theorem fresh_mkCell (σ : Store) (a : Args) (ls : List Nat) : Fresh σ (mkCell σ a ls).1 .cell := by
  unfold mkCell
  simp only
  have h1 : Fresh σ (setAsParent (σ.alloc { docInit .cell a "table_cell" with mainType := "table_cell", lines := ls }) σ.size ls)
      .cell := by
    refine Fresh.then_eq ?_ (kidsEq_setAsParent _ _ _)
    exact fresh_alloc σ _ _ (by simp [docInit_cls])
  exact h1.then_eq (kidsEq_upd _ _ _ (addTypeIf_fields _))

theorem fresh_regionInit (σ : Store) (cls : Cls) (a : Args) (dt : List String) (nd0 : Node) :
    Fresh σ (regionInit σ cls a dt nd0) cls := by
  unfold regionInit
  simp only
  refine Fresh.then_eq ?_ (kidsEq_upd _ _ _ (addTypeIf_fields _))
  refine Fresh.then_eq ?_ (kidsEq_setAsParent _ _ _)
  refine Fresh.then_eq ?_ (kidsEq_setAsParent _ _ _)
  refine Fresh.then_eq ?_ (kidsEq_setAsParent _ _ _)
  exact fresh_alloc σ _ _ (by simp [docInit_cls])

theorem fresh_mkRegion (σ : Store) (col : Bool) (a : Args) (ls rs ts : List Nat) :
    Fresh σ (mkRegion σ col a ls rs ts).1 (if col then .column else .region) := by
  unfold mkRegion
  cases col with
  | true =>
    simp only [if_true]
    refine Fresh.then_eq ?_ (kidsEq_upd _ _ _ (addTypeIf_fields _))
    refine Fresh.then_eq ?_ (kidsEq_upd _ _ _ (fun nd => ⟨rfl, rfl⟩))
    exact fresh_regionInit σ .column a ["column"] _
  | false =>
    simp only [Bool.false_eq_true, if_false]
    exact fresh_regionInit σ .region a a.dtype _

theorem fresh_mkPage (σ : Store) (a : Args) (ls rs ts cols ex : List Nat) :
    Fresh σ (mkPage σ a ls rs ts cols ex).1 .page := by
  unfold mkPage
  simp only
  refine Fresh.then_eq ?_ (kidsEq_upd _ _ _ (addTypeIf_fields _))
  refine Fresh.then_eq ?_ (kidsEq_setAsParent _ _ _)
  refine Fresh.then_eq ?_ (kidsEq_setAsParent _ _ _)
  refine Fresh.then_eq ?_ (kidsEq_upd _ _ _ (fun nd => ⟨rfl, rfl⟩))
  exact fresh_regionInit σ .page a ["page"] _

theorem fresh_scanPre (σ : Store) (a : Args) (ls rs ts cols pages : List Nat) :
    Fresh σ (scanPre σ a ls rs ts cols pages) .scan := by
  unfold scanPre
  refine Fresh.then_eq ?_ (kidsEq_upd _ _ _ (addTypeIf_fields _))
  refine Fresh.then_eq ?_ (kidsEq_setAsParent _ _ _)
  refine Fresh.then_eq ?_ (kidsEq_setAsParent _ _ _)
  refine Fresh.then_eq ?_ (kidsEq_upd _ _ _ (fun nd => ⟨rfl, rfl⟩))
  exact fresh_regionInit σ .scan a ["scan"] _

theorem fresh_mkScan {σ σ' : Store} {o : Out} (a : Args) (ls rs ts cols pages : List Nat)
    (h : mkScan σ a ls rs ts cols pages = .ok (σ', o)) : Fresh σ σ' .scan := by
  rw [mkScan_eq] at h
  cases hs : setScanId ((scanPre σ a ls rs ts cols pages).size + 1) (scanPre σ a ls rs ts cols pages) σ.size a.id with
  | error e => rw [hs] at h; simp [Except.map] at h
  | ok τ =>
    rw [hs] at h
    simp only [Except.map, Except.ok.injEq, Prod.mk.injEq] at h
    rw [← h.1]
    exact (fresh_scanPre σ a ls rs ts cols pages).then_eq (kidsEq_setScanId hs)

/-! ### the constructor call of a tree node -/

theorem mem_slot {ks : List Built} {p : Cls → Bool → Bool} {c : Nat} (h : c ∈ slot ks p) :
    ∃ k ∈ ks, k.2.2 = c ∧ p k.1 k.2.1 = true := by
  simp only [slot, List.mem_map, List.mem_filter] at h
  obtain ⟨k, ⟨hk, hp⟩, e⟩ := h
  exact ⟨k, hk, e, hp⟩

/-- every child a constructor call takes is one of the built children, and not a scan -/
theorem mkOp_newKids (kind : Cls) (a : Args) (ks : List Built) :
    ∀ c ∈ (mkOp kind a ks).newKids, ∃ k ∈ ks, k.2.2 = c ∧ k.1 ≠ .scan := by
  intro c hc
  have key : ∀ (p : Cls → Bool → Bool), (∀ k e, p k e = true → k ≠ .scan) → c ∈ slot ks p →
      ∃ k ∈ ks, k.2.2 = c ∧ k.1 ≠ .scan := by
    intro p hp h
    obtain ⟨k, hk, e, hpk⟩ := mem_slot h
    exact ⟨k, hk, e, hp _ _ hpk⟩
  have c1 : ∀ C : Cls, C ≠ .scan → ∀ k e, isCls C k e = true → k ≠ .scan := by
    intro C hC k e h
    simp only [isCls, beq_iff_eq] at h
    rw [h]; exact hC
  have c2 : ∀ (b : Bool) k e, (k == Cls.region && (if b then e else !e)) = true → k ≠ .scan := by
    intro b k e h
    simp only [Bool.and_eq_true, beq_iff_eq] at h
    rw [h.1]; decide
  cases kind <;> simp only [mkOp, Op.newKids, List.mem_append] at hc
  case word => cases hc
  case line => exact key _ (c1 .word (by decide)) hc
  case region =>
    rcases hc with (hc | hc) | hc
    · exact key _ (c1 .line (by decide)) hc
    · exact key _ (c1 .region (by decide)) hc
    · exact key _ (c1 .table (by decide)) hc
  case column =>
    rcases hc with (hc | hc) | hc
    · exact key _ (c1 .line (by decide)) hc
    · exact key _ (c1 .region (by decide)) hc
    · exact key _ (c1 .table (by decide)) hc
  case page =>
    rcases hc with (((hc | hc) | hc) | hc) | hc
    · exact key _ (c1 .line (by decide)) hc
    · exact key _ (fun k e h => c2 false k e (by simpa using h)) hc
    · exact key _ (c1 .table (by decide)) hc
    · exact key _ (c1 .column (by decide)) hc
    · exact key _ (fun k e h => c2 true k e (by simpa using h)) hc
  case scan =>
    rcases hc with (((hc | hc) | hc) | hc) | hc
    · exact key _ (c1 .line (by decide)) hc
    · exact key _ (c1 .region (by decide)) hc
    · exact key _ (c1 .table (by decide)) hc
    · exact key _ (c1 .column (by decide)) hc
    · exact key _ (c1 .page (by decide)) hc
  case cell => exact key _ (c1 .line (by decide)) hc
  case row => exact key _ (c1 .cell (by decide)) hc
  case table => exact key _ (c1 .row (by decide)) hc

theorem mkOp_shape (kind : Cls) (a : Args) (ks : List Built) (σ : Store) :
    (mkOp kind a ks).refs = (mkOp kind a ks).newKids ∧ (mkOp kind a ks).targets = (mkOp kind a ks).newKids ∧
    (mkOp kind a ks).source σ = σ.size ∧
    Pre σ (mkOp kind a ks) = ((mkOp kind a ks).refs.all σ.has &&
      (mkOp kind a ks).newKids.all (fun c => σ.free c && σ.notScan c)) := by
  cases kind <;> exact ⟨rfl, rfl, rfl, rfl⟩

theorem pre_mkOp (kind : Cls) (a : Args) (ks : List Built) (σ : Store)
    (h : ∀ c ∈ (mkOp kind a ks).newKids, FreeKid σ c) : Pre σ (mkOp kind a ks) = true := by
  obtain ⟨e1, _, _, e4⟩ := mkOp_shape kind a ks σ
  rw [e4, e1, Bool.and_eq_true, List.all_eq_true, List.all_eq_true]
  refine ⟨fun c hc => (h c hc).bools.1, fun c hc => ?_⟩
  simp only [Bool.and_eq_true]
  exact ⟨(h c hc).bools.2.1, (h c hc).bools.2.2⟩

theorem fresh_mkOp {σ σ' : Store} {o : Out} (kind : Cls) (a : Args) (ks : List Built)
    (hrow : kind = .row → (slot ks (isCls .cell)).isEmpty = false)
    (h : step σ (mkOp kind a ks) = .ok (σ', o)) : Fresh σ σ' kind := by
  have hrefs := step_refs h
  unfold step at h
  rw [hrefs] at h
  simp only [Bool.not_true, Bool.false_eq_true, if_false] at h
  cases kind <;> simp only [mkOp] at h
  case word =>
    simp only [Except.ok.injEq] at h
    rw [show σ' = (mkWord σ a).1 from by rw [h]]; exact fresh_mkWord σ a
  case line =>
    simp only [Except.ok.injEq] at h
    rw [show σ' = (mkLine σ a _).1 from by rw [h]]; exact fresh_mkLine σ a _
  case region =>
    simp only [Except.ok.injEq] at h
    rw [show σ' = (mkRegion σ false a _ _ _).1 from by rw [h]]; exact fresh_mkRegion σ false a _ _ _
  case column =>
    simp only [Except.ok.injEq] at h
    rw [show σ' = (mkRegion σ true a _ _ _).1 from by rw [h]]; exact fresh_mkRegion σ true a _ _ _
  case page =>
    simp only [Except.ok.injEq] at h
    rw [show σ' = (mkPage σ a _ _ _ _ _).1 from by rw [h]]; exact fresh_mkPage σ a _ _ _ _ _
  case scan => exact fresh_mkScan a _ _ _ _ _ h
  case cell =>
    simp only [Except.ok.injEq] at h
    rw [show σ' = (mkCell σ a _).1 from by rw [h]]; exact fresh_mkCell σ a _
  case row =>
    simp only [Except.ok.injEq] at h
    rw [show σ' = (mkRow σ a _).1 from by rw [h]]; exact fresh_mkRow σ a _ (hrow rfl)
  case table =>
    simp only [Except.ok.injEq] at h
    rw [show σ' = (mkTable σ a _).1 from by rw [h]]; exact fresh_mkTable σ a _

/-! ### operations that write no child list -/

/-- a step whose targets are empty changes neither the size nor any class -/
structure Same (σ σ' : Store) : Prop where
  size : σ'.size = σ.size
  frame : Frame σ σ'
  cls : ∀ k, k < σ.size → clsOf σ' k = clsOf σ k

theorem same_of_adds {σ σ' : Store} {p : Nat} {cs : List Nat} (A : Adds σ σ' p cs) (hs : σ'.size = σ.size)
    (hfree : ∀ c, FreeKid σ c → c ∉ cs) : Same σ σ' :=
  ⟨hs, fun c h => freeKid_adds A h (hfree c h), A.cls⟩

theorem size_step_setParentage {σ σ' : Store} {o : Out} {p : Nat} (hinv : Inv σ)
    (h : step σ (.setParentage p) = .ok (σ', o)) : σ'.size = σ.size := by
  have hrefs := step_refs h
  unfold step at h
  rw [hrefs] at h
  simp only [Bool.not_true, Bool.false_eq_true, if_false] at h
  cases hsp : setParentage (σ.size + 1) σ p with
  | error e => rw [hsp] at h; cases h
  | ok σ₁ =>
    rw [hsp] at h
    simp only [bind, Except.bind, pure, Except.pure, Except.ok.injEq, Prod.mk.injEq] at h
    rw [← h.1]
    exact (inv_setParentage _ _ _ _ hinv hsp).2.1

theorem size_step_simple {σ σ' : Store} {o : Out} {op : Op}
    (hop : (∃ p cs, op = .setAsParent p cs) ∨ (∃ p cs, op = .attachLines p cs) ∨ (∃ p cs, op = .attachRegions p cs)
      ∨ (∃ p cs, op = .attachRows p cs) ∨ (∃ n ts, op = .addType n ts) ∨ (∃ n v, op = .setFilename n v))
    (h : step σ op = .ok (σ', o)) : σ'.size = σ.size := by
  have hrefs := step_refs h
  unfold step at h
  rw [hrefs] at h
  simp only [Bool.not_true, Bool.false_eq_true, if_false] at h
  rcases hop with ⟨p, cs, rfl⟩ | ⟨p, cs, rfl⟩ | ⟨p, cs, rfl⟩ | ⟨p, cs, rfl⟩ | ⟨n, ts, rfl⟩ | ⟨n, v, rfl⟩ <;>
    (simp only [Except.ok.injEq, Prod.mk.injEq] at h; rw [← h.1]; simp)

end Pagexml.C02
