/-
Clean layouts: the geometric predicates, what `is_below` / `is_next_to` / `__lt__` answer on
them, and generic list lemmas (block decomposition of a sorted list, uniqueness of a sorted
permutation).
-/
import PagexmlModel.Lemmas.C15Group
import PagexmlModel.Lemmas.C15Baseline

namespace Pagexml.C15

open List

/-! ### generic list lemmas -/

theorem pairwise_mem_trichotomy {α} {S : α → α → Prop} {l : List α} (h : l.Pairwise S) :
    ∀ a ∈ l, ∀ b ∈ l, a = b ∨ S a b ∨ S b a := by
  induction l with
  | nil => intro a ha; cases ha
  | cons x l ih =>
    obtain ⟨hx, hl⟩ := pairwise_cons.mp h
    intro a ha b hb
    rcases mem_cons.mp ha with e1 | ha' <;> rcases mem_cons.mp hb with e2 | hb'
    · exact Or.inl (e1.trans e2.symm)
    · exact Or.inr (Or.inl (e1 ▸ hx b hb'))
    · exact Or.inr (Or.inr (e2 ▸ hx a ha'))
    · exact ih hl a ha' b hb'

/-- a list strictly sorted for `le` is the only sorted permutation of itself -/
theorem eq_of_perm_of_strict {α} (le : α → α → Prop) {r x : List α}
    (hr : r.Pairwise (fun a b => le a b ∧ ¬ le b a)) (hx : x.Pairwise le) (hp : x ~ r) : x = r := by
  refine Perm.eq_of_pairwise (le := le) ?_ hx (hr.imp (fun h => h.1)) hp
  intro a b ha hb hab hba
  rcases pairwise_mem_trichotomy hr a (hp.subset ha) b hb with h | h | h
  · exact h
  · exact absurd hba h.2
  · exact absurd hab h.2

theorem mergeSort_eq_of_strict {α} (le : α → α → Bool)
    (trans : ∀ a b c, le a b → le b c → le a c) (total : ∀ a b, (le a b || le b a) = true)
    {r x : List α} (hr : r.Pairwise (fun a b => le a b = true ∧ ¬ le b a = true)) (hp : x ~ r) :
    x.mergeSort le = r :=
  eq_of_perm_of_strict (fun a b => le a b = true) hr (pairwise_mergeSort trans total x)
    ((mergeSort_perm x le).trans hp)

theorem filter_append_filter_not {α} (p : α → Bool) :
    ∀ (l : List α), l.Pairwise (fun a b => p b = true → p a = true) → l = l.filter p ++ l.filter (fun a => !p a) := by
  intro l
  induction l with
  | nil => intro _; rfl
  | cons x l ih =>
    intro h
    obtain ⟨hx, hl⟩ := pairwise_cons.mp h
    by_cases hpx : p x = true
    · have := ih hl
      simp only [filter_cons, hpx, if_true, Bool.not_true, Bool.false_eq_true, if_false, cons_append]
      exact congrArg _ this
    · have hall : ∀ b ∈ l, p b = false := by
        intro b hb
        cases hb2 : p b with
        | false => rfl
        | true => exact absurd (hx b hb hb2) hpx
      have e1 : l.filter p = [] := filter_eq_nil_iff.mpr (fun b hb => by simp [hall b hb])
      have e2 : l.filter (fun a => !p a) = l := filter_eq_self.mpr (fun b hb => by simp [hall b hb])
      simp [hpx, e1, e2]

/-- a list sorted by `top` that is a permutation of `r ++ rest`, every line of `r` starting
    higher than every line of `rest`, begins with a permutation of `r` -/
theorem sorted_block_split (r rest xs : List Line)
    (hs : xs.Pairwise (fun a b => a.box.top ≤ b.box.top)) (hp : xs ~ r ++ rest)
    (hlt : ∀ a ∈ r, ∀ b ∈ rest, a.box.top < b.box.top) :
    ∃ xr xrest, xs = xr ++ xrest ∧ xr ~ r ∧ xrest ~ rest := by
  let p : Line → Bool := fun a => decide (a ∈ r)
  have hnot : ∀ b ∈ rest, b ∉ r := by
    intro b hb hbr
    have := hlt b hbr b hb
    omega
  refine ⟨xs.filter p, xs.filter (fun a => !p a), ?_, ?_, ?_⟩
  · apply filter_append_filter_not
    refine hs.imp_of_mem ?_
    intro a b ha _ hab hpb
    simp only [p, decide_eq_true_eq] at hpb ⊢
    rcases mem_append.mp (hp.subset ha) with h | h
    · exact h
    · have := hlt b hpb a h
      omega
  · have e : (r ++ rest).filter p = r := by
      rw [filter_append, filter_eq_self.mpr (fun a ha => by simp [p, ha]),
        filter_eq_nil_iff.mpr (fun b hb => by simp [p, hnot b hb]), append_nil]
    exact e ▸ hp.filter p
  · have e : (r ++ rest).filter (fun a => !p a) = rest := by
      rw [filter_append, filter_eq_nil_iff.mpr (fun a ha => by simp [p, ha]),
        filter_eq_self.mpr (fun b hb => by simp [p, hnot b hb]), nil_append]
    exact e ▸ hp.filter _

/-! ### clean lines and their relations -/

/-- positive-size box, a baseline, and the baseline lies inside the box -/
def CleanLine (l : Line) : Prop :=
  l.box.left < l.box.right ∧ l.box.top < l.box.bottom ∧
  match l.bl with
  | none => False
  | some b => l.box.left ≤ b.left ∧ b.right ≤ l.box.right ∧ l.box.top ≤ b.top ∧ b.bottom ≤ l.box.bottom

instance (l : Line) : Decidable (CleanLine l) := by
  unfold CleanLine
  cases l.bl <;> infer_instance

/-- `a` stands left of `b` in the same row: boxes horizontally disjoint, vertically
    overlapping, baselines within the tolerance of `is_next_to` (`rowTol`: the literal of the source,
    10 pixels at the time of writing) -/
def SideBySide (a b : Line) : Prop :=
  a.box.right < b.box.left ∧ max a.box.top b.box.top ≤ min a.box.bottom b.box.bottom ∧
  match a.bl, b.bl with
  | some x, some y => x.top ≤ y.bottom + rowTol ∧ y.top ≤ x.bottom + rowTol
  | _, _ => False

instance (a b : Line) : Decidable (SideBySide a b) := by
  unfold SideBySide
  cases a.bl <;> cases b.bl <;> infer_instance

/-- `a` lies completely above `b` -/
def Above (a b : Line) : Prop := a.box.bottom < b.box.top

instance (a b : Line) : Decidable (Above a b) := by unfold Above; infer_instance

theorem CleanLine.bl_some {l : Line} (h : CleanLine l) :
    ∃ b, l.bl = some b ∧ l.box.left ≤ b.left ∧ b.right ≤ l.box.right ∧ l.box.top ≤ b.top ∧ b.bottom ≤ l.box.bottom := by
  obtain ⟨_, _, h3⟩ := h
  cases hb : l.bl with
  | none => simp [hb] at h3
  | some b => simp only [hb] at h3; exact ⟨b, rfl, h3⟩

theorem hOverlap_comm (a b : Line) : hOverlap a b = hOverlap b a := by
  simp only [hOverlap]
  cases a.bl <;> cases b.bl <;> simp only [Int.max_comm, Int.min_comm]

theorem vOverlap_comm (a b : Line) : vOverlap a b = vOverlap b a := by
  simp only [vOverlap, Int.max_comm, Int.min_comm]

theorem hOverlap_zero_of_disjoint {a b : Line} (ha : CleanLine a) (hb : CleanLine b)
    (h : a.box.right < b.box.left) : hOverlap a b = 0 ∧ hOverlap b a = 0 := by
  obtain ⟨x, ex, _, x2, _, _⟩ := ha.bl_some
  obtain ⟨y, ey, y1, _, _, _⟩ := hb.bl_some
  have e : hOverlap a b = 0 := by
    simp only [hOverlap, ex, ey, overlapLen]
    split <;> omega
  exact ⟨e, hOverlap_comm a b ▸ e⟩

theorem vOverlap_zero_of_above {a b : Line} (h : Above a b) : vOverlap a b = 0 ∧ vOverlap b a = 0 := by
  have e : vOverlap a b = 0 := by
    simp only [vOverlap, overlapLen, Above] at *
    split <;> omega
  exact ⟨e, vOverlap_comm a b ▸ e⟩

theorem isBelow_total {a b : Line} (ha : CleanLine a) (hb : CleanLine b) : ∃ v, isBelow a b = .ok v := by
  obtain ⟨x, ex, _⟩ := ha.bl_some
  obtain ⟨y, ey, _⟩ := hb.bl_some
  simp only [isBelow, ex, ey]
  split
  · exact ⟨_, rfl⟩
  · split
    · exact ⟨_, rfl⟩
    · exact baselineIsBelow_total _ _ x.points_ne_nil y.points_ne_nil

theorem isNextTo_total {a b : Line} (ha : CleanLine a) (hb : CleanLine b) : ∃ v, isNextTo a b = .ok v := by
  obtain ⟨x, ex, _⟩ := ha.bl_some
  obtain ⟨y, ey, _⟩ := hb.bl_some
  simp only [isNextTo, ex, ey]
  split
  · exact ⟨_, rfl⟩
  · split
    · exact ⟨_, rfl⟩
    · split
      · exact ⟨_, rfl⟩
      · split <;> exact ⟨_, rfl⟩

/-- two cells of one row, in either order: not below, next to -/
theorem sideBySide_rel {a b : Line} (ha : CleanLine a) (hb : CleanLine b) (h : SideBySide a b) :
    isBelow a b = .ok false ∧ isBelow b a = .ok false ∧ isNextTo a b = .ok true ∧ isNextTo b a = .ok true := by
  obtain ⟨h0a, h0b⟩ := hOverlap_zero_of_disjoint ha hb h.1
  obtain ⟨x, ex, _⟩ := ha.bl_some
  obtain ⟨y, ey, _⟩ := hb.bl_some
  obtain ⟨_, hv, ht⟩ := h
  simp only [ex, ey] at ht
  have v1 : vOverlap a b ≠ 0 := by
    simp only [vOverlap, overlapLen]; split <;> omega
  have v2 : vOverlap b a ≠ 0 := vOverlap_comm a b ▸ v1
  refine ⟨by simp [isBelow, h0a], by simp [isBelow, h0b], ?_⟩
  -- the facts about the regenerated literals that are used: one tolerance, a non-negative limit
  have hB : Generated.C15.nextToTolBottom = Generated.C15.nextToTolTop := consts_next_to_tolerances_equal.symm
  have hM : ¬ ((0 : Int) > Generated.C15.nextToMaxHOverlap) := by
    have := consts_next_to_overlap_limit_nonneg; omega
  simp only [rowTol] at ht
  refine ⟨?_, ?_⟩
  · have c1 : ¬ (x.top > y.bottom + Generated.C15.nextToTolTop) := by omega
    have c2 : ¬ (x.bottom < y.top - Generated.C15.nextToTolTop) := by omega
    simp only [isNextTo, v1, h0a, ex, ey, if_false, hB]
    rw [if_neg hM, if_neg c1, if_neg c2]
  · have c1 : ¬ (y.top > x.bottom + Generated.C15.nextToTolTop) := by omega
    have c2 : ¬ (y.bottom < x.top - Generated.C15.nextToTolTop) := by omega
    simp only [isNextTo, v2, h0b, ex, ey, if_false, hB]
    rw [if_neg hM, if_neg c1, if_neg c2]

/-- a line of a lower row is never next to a line of a higher row -/
theorem above_not_nextTo {a b : Line} (h : Above a b) : isNextTo b a = .ok false ∧ isNextTo a b = .ok false := by
  obtain ⟨e1, e2⟩ := vOverlap_zero_of_above h
  exact ⟨by simp [isNextTo, e2], by simp [isNextTo, e1]⟩

/-! ### `__lt__` on two lines of one column -/

theorem lineLt_of_above {a b : Line} (ha : CleanLine a) (hb : CleanLine b) (h : Above a b) (hid : a.id ≠ b.id) :
    lineLt a b = .ok true ∧ lineLt b a = .ok false := by
  obtain ⟨x, ex, _, _, x3, x4⟩ := ha.bl_some
  obtain ⟨y, ey, _, _, y3, y4⟩ := hb.bl_some
  obtain ⟨v1, v2⟩ := vOverlap_zero_of_above h
  have ha2 := ha.2.1
  have hb2 := hb.2.1
  simp only [Above] at h
  have xtb := x.top_le_bottom
  have ytb := y.top_le_bottom
  constructor
  · have hid' : ¬ (b.id = a.id) := fun e => hid e.symm
    simp only [lineLt, hid', if_false, sortLines, v1]
    by_cases ho : hOverlap a b = 0
    · have : a.box.top < b.box.top := by omega
      simp [ho, this]
    · have hlt : x.bottom < y.top := by omega
      simp [ho, isBelow, ex, ey, hlt]
  · simp only [lineLt, hid, if_false, sortLines, v2]
    by_cases ho : hOverlap b a = 0
    · have : ¬ (b.box.top < a.box.top) := by omega
      simp [ho, this]
    · have hlt : ¬ (y.bottom < x.top) := by omega
      have hall : ∀ p ∈ y.points, ∀ q ∈ x.points, p.2 > q.2 := by
        intro p hp q hq
        have := y.top_le p hp
        have := x.le_bottom q hq
        omega
      simp [ho, isBelow, ex, ey, hlt,
        baselineIsBelow_of_all_lower _ _ y.points_ne_nil x.points_ne_nil hall]

end Pagexml.C15
