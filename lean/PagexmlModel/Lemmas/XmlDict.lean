/-
Laws of the xmltodict model: lookups in association lists, and the grouping lemma —
pushing the children of an element, given as consecutive groups of equal tags with
pairwise different tags, yields one entry per non-empty group, in group order
(one child ↦ the value itself, several ↦ the list of values).
-/
import PagexmlModel.Model.Xml

namespace Pagexml.X

/-! ### lookup -/

@[simp] theorem lookup_nil (k : String) : lookup k [] = none := rfl

theorem lookup_cons (k k' : String) (v : PyVal) (r : Entries) :
    lookup k ((k', v) :: r) = if k' = k then some v else lookup k r := rfl

theorem lookup_append (k : String) (a b : Entries) :
    lookup k (a ++ b) = match lookup k a with
      | some v => some v
      | none => lookup k b := by
  induction a with
  | nil => simp
  | cons kv a ih =>
    obtain ⟨k', v⟩ := kv
    simp only [List.cons_append, lookup_cons]
    split
    · rfl
    · exact ih

theorem lookup_none_of_not_mem (k : String) (d : Entries) (h : k ∉ keys d) : lookup k d = none := by
  induction d with
  | nil => rfl
  | cons kv d ih =>
    obtain ⟨k', v⟩ := kv
    have h1 : k' ≠ k := fun e => h (by simp [keys, e])
    have h2 : k ∉ keys d := fun e => h (by simp [keys] at e ⊢; exact Or.inr e)
    simp [lookup_cons, h1, ih h2]

theorem keys_append (a b : Entries) : keys (a ++ b) = keys a ++ keys b := by simp [keys]

/-! ### push -/

theorem push_not_mem (k : String) (v : PyVal) (d : Entries) (h : k ∉ keys d) :
    push k v d = d ++ [(k, v)] := by
  induction d with
  | nil => rfl
  | cons kv d ih =>
    obtain ⟨k', old⟩ := kv
    have h1 : k' ≠ k := fun e => h (by simp [keys, e])
    have h2 : k ∉ keys d := fun e => h (by simp [keys] at e ⊢; exact Or.inr e)
    simp [push, h1, ih h2]

theorem push_last_list (k : String) (v : PyVal) (d : Entries) (xs : List PyVal) (h : k ∉ keys d) :
    push k v (d ++ [(k, .list xs)]) = d ++ [(k, .list (xs ++ [v]))] := by
  induction d with
  | nil => simp [push]
  | cons kv d ih =>
    obtain ⟨k', old⟩ := kv
    have h1 : k' ≠ k := fun e => h (by simp [keys, e])
    have h2 : k ∉ keys d := fun e => h (by simp [keys] at e ⊢; exact Or.inr e)
    simp [push, h1, ih h2]

theorem push_last_single (k : String) (v o : PyVal) (d : Entries) (ho : isList o = false) (h : k ∉ keys d) :
    push k v (d ++ [(k, o)]) = d ++ [(k, .list [o, v])] := by
  induction d with
  | nil => cases o <;> simp_all [push, isList]
  | cons kv d ih =>
    obtain ⟨k', old⟩ := kv
    have h1 : k' ≠ k := fun e => h (by simp [keys, e])
    have h2 : k ∉ keys d := fun e => h (by simp [keys] at e ⊢; exact Or.inr e)
    simp [push, h1, ih h2]

theorem pushAll_nil (d : Entries) : pushAll d [] = d := rfl

theorem pushAll_cons (d : Entries) (kv : String × PyVal) (r : Entries) :
    pushAll d (kv :: r) = pushAll (push kv.1 kv.2 d) r := rfl

theorem pushAll_append (d a b : Entries) : pushAll d (a ++ b) = pushAll (pushAll d a) b := by
  simp [pushAll, List.foldl_append]

/-- pushing further values of a tag whose entry is already a list -/
theorem pushAll_same_list (k : String) (d : Entries) (xs vs : List PyVal) (h : k ∉ keys d) :
    pushAll (d ++ [(k, .list xs)]) (vs.map (fun v => (k, v))) = d ++ [(k, .list (xs ++ vs))] := by
  induction vs generalizing xs with
  | nil => simp [pushAll_nil]
  | cons v vs ih =>
    simp only [List.map_cons, pushAll_cons]
    rw [push_last_list k v d xs h, ih]
    simp

/-- one group of values pushed onto a dict that does not have the tag yet -/
theorem pushAll_group (k : String) (d : Entries) (vs : List PyVal) (h : k ∉ keys d)
    (hnl : ∀ v ∈ vs, isList v = false) :
    pushAll d (vs.map (fun v => (k, v))) = d ++ groupEntry k vs := by
  cases vs with
  | nil => simp [pushAll_nil, groupEntry]
  | cons v vs =>
    simp only [List.map_cons, pushAll_cons]
    rw [push_not_mem k v d h]
    cases vs with
    | nil => simp [pushAll_nil, groupEntry, collapse]
    | cons w ws =>
      simp only [List.map_cons, pushAll_cons]
      rw [push_last_single k w v d (hnl v (by simp)) h]
      rw [pushAll_same_list k d [v, w] ws h]
      simp [groupEntry, collapse]

theorem keys_groupEntry (k : String) (vs : List PyVal) :
    keys (groupEntry k vs) = if vs.isEmpty then [] else [k] := by
  unfold groupEntry
  split <;> simp [keys]

/-- a list of groups `(tag, values)` as the flat list of pushes -/
def groupPushes (gs : List (String × List PyVal)) : Entries :=
  gs.flatMap (fun g => g.2.map (fun v => (g.1, v)))

def groupsEntries (gs : List (String × List PyVal)) : Entries :=
  gs.flatMap (fun g => groupEntry g.1 g.2)

theorem keys_groupsEntries_subset (gs : List (String × List PyVal)) :
    ∀ k ∈ keys (groupsEntries gs), k ∈ gs.map (·.1) := by
  induction gs with
  | nil => simp [groupsEntries, keys]
  | cons g gs ih =>
    intro k hk
    simp only [groupsEntries, List.flatMap_cons, keys_append, List.mem_append] at hk
    rcases hk with hk | hk
    · rw [keys_groupEntry] at hk
      split at hk
      · simp at hk
      · simp at hk; simp [hk]
    · have := ih k (by simpa [groupsEntries] using hk)
      simp only [List.map_cons, List.mem_cons]
      exact Or.inr this

/-- **the grouping lemma** -/
theorem pushAll_groups (d : Entries) (gs : List (String × List PyVal))
    (hnd : (gs.map (·.1)).Nodup) (hdis : ∀ g ∈ gs, g.1 ∉ keys d)
    (hnl : ∀ g ∈ gs, ∀ v ∈ g.2, isList v = false) :
    pushAll d (groupPushes gs) = d ++ groupsEntries gs := by
  induction gs generalizing d with
  | nil => simp [groupPushes, groupsEntries, pushAll_nil]
  | cons g gs ih =>
    simp only [groupPushes, groupsEntries, List.flatMap_cons, pushAll_append]
    rw [pushAll_group g.1 d g.2 (hdis g (by simp)) (hnl g (by simp))]
    have hnd' : (gs.map (·.1)).Nodup := (List.nodup_cons.mp (by simpa using hnd)).2
    have hg : g.1 ∉ gs.map (·.1) := (List.nodup_cons.mp (by simpa using hnd)).1
    have := ih (d ++ groupEntry g.1 g.2) hnd'
      (by
        intro g' hg'
        rw [keys_append, List.mem_append]
        rintro (h | h)
        · exact hdis g' (by simp [hg']) h
        · rw [keys_groupEntry] at h
          split at h
          · simp at h
          · simp at h
            exact hg (by rw [← h]; exact List.mem_map_of_mem hg'))
      (fun g' hg' => hnl g' (by simp [hg']))
    simp only [groupPushes, groupsEntries] at this
    rw [this]
    simp

/-! ### toDict -/

theorem toDictList_eq_map (cs : List Xml) : toDictList cs = cs.map (fun c => (c.tag, toDict c)) := by
  induction cs with
  | nil => rfl
  | cons c cs ih => simp [toDictList, ih]

theorem toDictList_append (a b : List Xml) : toDictList (a ++ b) = toDictList a ++ toDictList b := by
  simp [toDictList_eq_map]

theorem strip_empty : strip "" = "" := by decide

theorem textVal_empty : textVal "" = .none := by
  simp [textVal, strip_empty]

theorem finish_container (item : Entries) :
    finish item "" = if item.isEmpty then .none else .dict item := by
  unfold finish
  simp [strip_empty, textVal_empty]

theorem toDict_elem (t : String) (attrs : List (String × String)) (text : String) (cs : List Xml) :
    toDict (.elem t attrs text cs) = finish (pushAll (attrEntries attrs) (toDictList cs)) text := by
  simp [toDict]

/-- a text-only element: the stripped text, or `None` -/
theorem toDict_text (t : String) (text : String) : toDict (.elem t [] text []) = textVal text := by
  simp [toDict, toDictList, attrEntries, pushAll_nil, finish]

theorem isList_textVal (t : String) : isList (textVal t) = false := by
  unfold textVal; split <;> rfl

theorem isList_finish (item : Entries) (text : String) : isList (finish item text) = false := by
  unfold finish
  split
  · exact isList_textVal _
  · split <;> rfl

/-- xmltodict never stores a list as the value of a single element -/
theorem isList_toDict (x : Xml) : isList (toDict x) = false := by
  cases x with
  | elem t a x c => rw [toDict_elem]; exact isList_finish _ _

theorem keys_attrEntries (attrs : List (String × String)) :
    keys (attrEntries attrs) = attrs.map (fun kv => "@" ++ kv.1) := by
  simp [keys, attrEntries]

end Pagexml.X
