/-
C06: `set_scan_id` (a metadata-only update of every header below a scan) keeps documents
well-formed; the scan constructor.
-/
import PagexmlModel.Lemmas.C06Ctor

set_option linter.unusedSimpArgs false
set_option linter.unusedVariables false
set_option linter.unusedSectionVars false

namespace Pagexml.C06

/-- a header update that only touches metadata keys no well-formedness clause below a scan reads -/
structure MdOnly (f : Hdr → Hdr) : Prop where
  id : ∀ h, (f h).id = h.id
  ok : ∀ base h, (f h).ok base = h.ok base
  ty : ∀ h, (f h).hasMeta "type" (.str "line") = h.hasMeta "type" (.str "line")
  par : ∀ t i h, t ∈ ["line", "table_cell", "text_region", "column", "page"] →
          (f h).hasParent t i = h.hasParent t i

theorem Hdr.hasParent_setMeta_ne (k : String) (v : PyVal) (t : String) (i : PyVal) (h : Hdr)
    (h1 : k ≠ "parent_type") (h2 : k ≠ "parent_id") (h3 : k ≠ t ++ "_id") :
    (h.setMeta k v).hasParent t i = h.hasParent t i := by
  simp [Hdr.hasParent, Hdr.setMeta, alookup_setKey, h1, h2, h3]

theorem mdOnly_scanId (v : PyVal) : MdOnly (Hdr.setMeta "scan_id" v) where
  id := fun _ => rfl
  ok := fun _ _ => rfl
  ty := fun h => Hdr.hasMeta_setMeta_ne _ _ _ _ h (by decide)
  par := by
    intro t i h ht
    simp only [List.mem_cons, List.not_mem_nil, or_false] at ht
    rcases ht with rfl | rfl | rfl | rfl | rfl <;>
      exact Hdr.hasParent_setMeta_ne _ _ _ _ h (by decide) (by decide) (by decide)

@[simp] theorem Word.mapAll_h (f : Hdr → Hdr) (w : Word) : (w.mapAll f).h = f w.h := rfl
@[simp] theorem Line.mapAll_h (f : Hdr → Hdr) (l : Line) : (l.mapAll f).h = f l.h := rfl
@[simp] theorem Line.mapAll_text (f : Hdr → Hdr) (l : Line) : (l.mapAll f).text = l.text := rfl
@[simp] theorem Cell.mapAll_h (f : Hdr → Hdr) (c : Cell) : (c.mapAll f).h = f c.h := rfl
@[simp] theorem Cell.mapAll_col (f : Hdr → Hdr) (c : Cell) : (c.mapAll f).col = c.col := rfl
@[simp] theorem Cell.mapAll_row (f : Hdr → Hdr) (c : Cell) : (c.mapAll f).row = c.row := rfl
@[simp] theorem Row.mapAll_h (f : Hdr → Hdr) (r : Row) : (r.mapAll f).h = f r.h := rfl
@[simp] theorem Row.mapAll_numCols (f : Hdr → Hdr) (r : Row) : (r.mapAll f).numCols = r.numCols := rfl
@[simp] theorem Row.mapAll_cells (f : Hdr → Hdr) (r : Row) : (r.mapAll f).cells = r.cells.map (Cell.mapAll f) := rfl
@[simp] theorem Column.mapAll_h (f : Hdr → Hdr) (c : Column) : (c.mapAll f).h = f c.h := rfl
@[simp] theorem Page.mapAll_h (f : Hdr → Hdr) (p : Page) : (p.mapAll f).h = f p.h := rfl


section mapAllOk
variable (f : Hdr → Hdr) (hf : MdOnly f)
include hf

theorem Word.ok_mapAll (w : Word) : (w.mapAll f).ok = w.ok := by
  simp only [Word.ok, Word.mapAll_h, hf.ok]

theorem Line.ok_mapAll (l : Line) : (l.mapAll f).ok = l.ok := by
  have hp : ∀ i h, (f h).hasParent "line" i = h.hasParent "line" i := fun i h => hf.par "line" i h (by simp)
  simp only [Line.ok, Line.mapAll, hf.ok, hf.ty, hf.id, List.all_map, Function.comp_def, Word.ok_mapAll f hf,
    Word.mapAll_h, hp]
  rfl

theorem Cell.ok_mapAll (c : Cell) : (c.mapAll f).ok = c.ok := by
  have hp : ∀ i h, (f h).hasParent "table_cell" i = h.hasParent "table_cell" i :=
    fun i h => hf.par "table_cell" i h (by simp)
  simp only [Cell.ok, Cell.mapAll, hf.ok, hf.id, List.all_map, Function.comp_def, Line.ok_mapAll f hf,
    Line.mapAll_h, Line.mapAll_text, hp]

theorem sameRow_mapAll (cs : List Cell) : sameRow (cs.map (Cell.mapAll f)) = sameRow cs := by
  cases cs with
  | nil => rfl
  | cons c cs => simp [sameRow, List.all_map, Function.comp_def]; rfl

theorem colCellsN_mapAll (n : Nat) (cs : List Cell) : colCellsN n (cs.map (Cell.mapAll f)) = colCellsN n cs := by
  induction cs generalizing n with
  | nil => rfl
  | cons c cs ih => simp only [List.map_cons, colCellsN, Cell.mapAll_col, ih]

theorem Row.ok_mapAll (r : Row) : (r.mapAll f).ok = r.ok := by
  simp only [Row.ok, Row.mapAll_h, Row.mapAll_cells, hf.ok, List.all_map, Function.comp_def, Cell.ok_mapAll f hf,
    Cell.mapAll_col, sameRow_mapAll f hf, List.isEmpty_map]
  rfl

theorem maxCells_mapAll (rows : List Row) : maxCells (rows.map (Row.mapAll f)) = maxCells rows := by
  induction rows with
  | nil => rfl
  | cons r rows ih => simp [maxCells, ih]

theorem padded_mapAll (m : Nat) (r : Row) : padded m (r.mapAll f) = padded m r := by
  simp only [padded, Row.mapAll_cells, List.length_map, colCellsN_mapAll f hf]

theorem Table.ok_mapAll (t : Table) : (t.mapAll f).ok = t.ok := by
  simp only [Table.ok, Table.mapAll, hf.ok, List.all_map, Function.comp_def, Row.ok_mapAll f hf,
    maxCells_mapAll f hf, padded_mapAll f hf, Row.mapAll_numCols]

theorem Region.mapAll_hd (r : Region) : (r.mapAll f).h = f r.h := by
  obtain ⟨h, text, orientation, ro, roa, lines, regions, tables⟩ := r
  simp only [Region.mapAll]

theorem Region.mapAllL_ids : ∀ rs : List Region, (Region.mapAllL f rs).map rid = rs.map rid
  | [] => rfl
  | r :: rs => by
    simp only [Region.mapAllL, List.map_cons, Region.mapAllL_ids rs, rid, Region.mapAll_hd f hf, hf.id]

theorem lines_ok_mapAll (t : String) (ht : t ∈ ["line", "table_cell", "text_region", "column", "page"])
    (i : PyVal) (ls : List Line) :
    (ls.map (Line.mapAll f)).all (fun l => l.ok && l.h.hasParent t i) = ls.all (fun l => l.ok && l.h.hasParent t i) := by
  simp only [List.all_map, Function.comp_def, Line.ok_mapAll f hf, Line.mapAll_h, hf.par t _ _ ht]

theorem tables_ok_mapAll (ts : List Table) : (ts.map (Table.mapAll f)).all Table.ok = ts.all Table.ok := by
  simp only [List.all_map, Function.comp_def, Table.ok_mapAll f hf]

mutual
theorem Region.ok_mapAll : ∀ r : Region, (r.mapAll f).ok = r.ok
  | ⟨h, text, orientation, ro, roa, lines, regions, tables⟩ => by
    simp only [Region.mapAll, Region.ok, hf.ok, hf.id, lines_ok_mapAll f hf "text_region" (by simp),
      tables_ok_mapAll f hf, Region.okL_mapAll "text_region" (by simp) h.id regions,
      roOk_congr true ro _ _ (Region.mapAllL_ids f hf regions)]
theorem Region.okL_mapAll (t : String) (ht : t ∈ ["line", "table_cell", "text_region", "column", "page"])
    (i : PyVal) : ∀ rs : List Region, Region.okL t i (Region.mapAllL f rs) = Region.okL t i rs
  | [] => rfl
  | r :: rs => by
    simp only [Region.mapAllL, Region.okL, Region.ok_mapAll r, Region.okL_mapAll t ht i rs,
      Region.mapAll_hd f hf, hf.par t _ _ ht]
end

theorem Column.ok_mapAll (c : Column) : (c.mapAll f).ok = c.ok := by
  simp only [Column.mapAll, Column.ok, hf.ok, hf.id, lines_ok_mapAll f hf "column" (by simp),
    tables_ok_mapAll f hf, Region.okL_mapAll f hf "column" (by simp) c.h.id c.regions,
    roOk_congr true c.ro _ _ (Region.mapAllL_ids f hf c.regions)]
  rfl

theorem Page.ok_mapAll (p : Page) : (p.mapAll f).ok = p.ok := by
  simp only [Page.mapAll, Page.ok, hf.ok, hf.id, List.all_map, Function.comp_def, Column.ok_mapAll f hf,
    Column.mapAll_h, hf.par "page" _ _ (by simp),
    tables_ok_mapAll f hf, Region.okL_mapAll f hf "page" (by simp) p.h.id p.regions,
    Region.okL_mapAll f hf "page" (by simp) p.h.id p.extra,
    roOk_congr false p.ro _ _ (Region.mapAllL_ids f hf p.regions)]
  rfl

end mapAllOk

/-! ### every header below carries what the update wrote -/

section allHmap
variable (f : Hdr → Hdr) (p : Hdr → Bool) (hp : ∀ h, p (f h) = true)
include hp

theorem Word.allH_mapAll (w : Word) : (w.mapAll f).allH p = true := by simp [Word.allH, Word.mapAll, hp]
theorem Line.allH_mapAll (l : Line) : (l.mapAll f).allH p = true := by
  simp only [Line.allH, Line.mapAll, hp, List.all_map, Bool.true_and, List.all_eq_true]
  exact fun w _ => Word.allH_mapAll f p hp w
theorem Cell.allH_mapAll (c : Cell) : (c.mapAll f).allH p = true := by
  simp only [Cell.allH, Cell.mapAll, hp, List.all_map, Bool.true_and, List.all_eq_true]
  exact fun l _ => Line.allH_mapAll f p hp l
theorem Row.allH_mapAll (r : Row) : (r.mapAll f).allH p = true := by
  simp only [Row.allH, Row.mapAll, hp, List.all_map, Bool.true_and, List.all_eq_true]
  exact fun c _ => Cell.allH_mapAll f p hp c
theorem Table.allH_mapAll (t : Table) : (t.mapAll f).allH p = true := by
  simp only [Table.allH, Table.mapAll, hp, List.all_map, Bool.true_and, List.all_eq_true]
  exact fun r _ => Row.allH_mapAll f p hp r
theorem lines_allH (ls : List Line) : (ls.map (Line.mapAll f)).all (Line.allH p) = true := by
  simp only [List.all_map, List.all_eq_true]; exact fun l _ => Line.allH_mapAll f p hp l
theorem tables_allH (ts : List Table) : (ts.map (Table.mapAll f)).all (Table.allH p) = true := by
  simp only [List.all_map, List.all_eq_true]; exact fun t _ => Table.allH_mapAll f p hp t
mutual
theorem Region.allH_mapAll : ∀ r : Region, (r.mapAll f).allH p = true
  | ⟨h, text, orientation, ro, roa, lines, regions, tables⟩ => by
    simp only [Region.mapAll, Region.allH, hp, lines_allH f p hp, tables_allH f p hp,
      Region.allHL_mapAll regions, Bool.and_self]
theorem Region.allHL_mapAll : ∀ rs : List Region, Region.allHL p (Region.mapAllL f rs) = true
  | [] => rfl
  | r :: rs => by simp only [Region.mapAllL, Region.allHL, Region.allH_mapAll r, Region.allHL_mapAll rs, Bool.and_self]
end
theorem Column.allH_mapAll (c : Column) : (c.mapAll f).allH p = true := by
  simp only [Column.mapAll, Column.allH, hp, lines_allH f p hp, tables_allH f p hp,
    Region.allHL_mapAll f p hp, Bool.and_self]
theorem Page.allH_mapAll (g : Page) : (g.mapAll f).allH p = true := by
  simp only [Page.mapAll, Page.allH, hp, tables_allH f p hp, Region.allHL_mapAll f p hp, Bool.and_self,
    Bool.true_and, Bool.and_true, List.all_map, List.all_eq_true]
  exact fun c _ => Column.allH_mapAll f p hp c
theorem Scan.allH_mapAll (s : Scan) : (s.mapAll f).allH p = true := by
  simp only [Scan.mapAll, Scan.allH, hp, tables_allH f p hp, lines_allH f p hp, Region.allHL_mapAll f p hp,
    Bool.and_self, Bool.true_and, Bool.and_true, List.all_map, List.all_eq_true, Bool.and_eq_true]
  exact ⟨fun g _ => Page.allH_mapAll f p hp g, fun c _ => Column.allH_mapAll f p hp c⟩
end allHmap

/-! ### the scan constructor -/

theorem Hdr.hasParent_scan_setMeta (i : PyVal) (h : Hdr) (hh : h.hasParent "scan" i = true) :
    (h.setMeta "scan_id" i).hasParent "scan" i = true := by
  simp only [Hdr.hasParent, Bool.and_eq_true, beq_iff_eq] at hh ⊢
  simp only [Hdr.setMeta, alookup_setKey]
  refine ⟨⟨?_, ?_⟩, ?_⟩
  · simpa using hh.1.1
  · simpa using hh.1.2
  · simp

theorem Hdr.hasMeta_setMeta (k : String) (v : PyVal) (h : Hdr) : (h.setMeta k v).hasMeta k v = true := by
  simp [Hdr.hasMeta, Hdr.setMeta, alookup_setKey]

/-- **PageXMLScan(...)** (`set_scan_id` at the end of the constructor) -/
theorem Scan.ctor_ok (id : PyVal) (ts : List String) (m : Meta) (coords : Option Pts)
    (orientation : PyVal) (ro : RO) (roa : PyVal) (pages : List Page) (columns : List Column)
    (lines : List Line) (regions : List Region) (tables : List Table)
    (hc : coords ≠ some []) (hor : canon orientation = true) (hro : (ro.map (·.1)).Nodup)
    (hps : ∀ p ∈ pages, p.ok = true) (hcs : ∀ c ∈ columns, c.ok = true)
    (hl : ∀ l ∈ lines, l.ok = true) (hr : ∀ r ∈ regions, r.ok = true) (htb : ∀ t ∈ tables, t.preOk = true) :
    (Scan.ctor id ts m coords orientation ro roa pages columns lines regions tables).ok = true := by
  obtain ⟨b1, b2, b3, b4, b5⟩ := regionInit_ok "scan" id ro lines regions tables parentTag_scan hl hr htb
  have hf := mdOnly_scanId id
  have h1 : Scan.ok (Scan.mapAll (Hdr.setMeta "scan_id" id)
      ⟨{ id := id, types := addTypes (regionBase "scan") ts, md := m, coords := coords },
      orientation, (regionInit "scan" id ro lines regions tables).ro, roa,
      pages.map (Page.setParent "scan" id), columns.map (Column.setParent "scan" id),
      (regionInit "scan" id ro lines regions tables).regions,
      (regionInit "scan" id ro lines regions tables).tables,
      (regionInit "scan" id ro lines regions tables).lines⟩) = true := by
    simp only [Scan.ok, Bool.and_eq_true]
    refine ⟨⟨⟨⟨⟨⟨⟨⟨⟨?_, hor⟩, ?_⟩, ?_⟩, ?_⟩, ?_⟩, ?_⟩, ?_⟩, ?_⟩, ?_⟩
    · exact mkHdr_ok _ ts id _ coords nodup_scan hc
    · exact decide_eq_true (nodup_of_or _ _ b5 hro)
    · simp only [Scan.mapAll]
      rw [roOk_congr true _ _ _ (Region.mapAllL_ids _ hf _)]; exact b4
    · simp only [Scan.mapAll, List.all_map, List.all_eq_true, Function.comp, Hdr.setMeta_id]
      intro p hp
      have := pages_parent_ok "scan" id parentTag_scan pages hps _ (List.mem_map_of_mem hp)
      simp only [Bool.and_eq_true]
      exact ⟨by rw [Page.ok_mapAll _ hf]; exact this.1, Hdr.hasParent_scan_setMeta id _ this.2⟩
    · simp only [Scan.mapAll, List.all_map, List.all_eq_true, Function.comp, Hdr.setMeta_id]
      intro c hc'
      have := columns_parent_ok "scan" id parentTag_scan columns hcs _ (List.mem_map_of_mem hc')
      simp only [Bool.and_eq_true]
      exact ⟨by rw [Column.ok_mapAll _ hf]; exact this.1, Hdr.hasParent_scan_setMeta id _ this.2⟩
    · simp only [Scan.mapAll, List.all_map, List.all_eq_true, Function.comp, Hdr.setMeta_id]
      intro l hl'
      have := b1 l hl'
      simp only [Bool.and_eq_true]
      exact ⟨by rw [Line.ok_mapAll _ hf]; exact this.1, Hdr.hasParent_scan_setMeta id _ this.2⟩
    · simp only [Scan.mapAll, Hdr.setMeta_id]
      apply Region.okL_of_mem
      intro r hr'
      have hmem : ∀ rs : List Region, ∀ r ∈ Region.mapAllL (Hdr.setMeta "scan_id" id) rs,
          ∃ r0 ∈ rs, r = r0.mapAll (Hdr.setMeta "scan_id" id) := by
        intro rs
        induction rs with
        | nil => intro r hr; simp [Region.mapAllL] at hr
        | cons a rs ih =>
          intro r hr
          simp only [Region.mapAllL, List.mem_cons] at hr
          rcases hr with rfl | hr
          · exact ⟨a, by simp, rfl⟩
          · obtain ⟨r0, h0, e⟩ := ih r hr; exact ⟨r0, by simp [h0], e⟩
      obtain ⟨r0, hr0, rfl⟩ := hmem _ r hr'
      have := Region.okL_mem _ _ _ b2 r0 hr0
      exact ⟨by rw [Region.ok_mapAll _ hf]; exact this.1, by
        rw [Region.mapAll_hd _ hf]; exact Hdr.hasParent_scan_setMeta id _ this.2⟩
    · simp only [Scan.mapAll, List.all_map, List.all_eq_true, Function.comp]
      intro t ht
      rw [Table.ok_mapAll _ hf]; exact b3 t ht
    · exact Scan.allH_mapAll _ _ (fun h => Hdr.hasMeta_setMeta "scan_id" id h) _
  exact h1

/-- **PageXMLScan(...)** then set_parentage -/
theorem Scan.build_ok (id : PyVal) (ts : List String) (m : Meta) (coords : Option Pts)
    (orientation : PyVal) (ro : RO) (roa : PyVal) (pages : List Page) (columns : List Column)
    (lines : List Line) (regions : List Region) (tables : List Table)
    (hc : coords ≠ some []) (hor : canon orientation = true) (hro : (ro.map (·.1)).Nodup)
    (hps : ∀ p ∈ pages, p.ok = true) (hcs : ∀ c ∈ columns, c.ok = true)
    (hl : ∀ l ∈ lines, l.ok = true) (hr : ∀ r ∈ regions, r.ok = true) (htb : ∀ t ∈ tables, t.preOk = true) :
    (Scan.build id ts m coords orientation ro roa pages columns lines regions tables).ok = true := by
  have h1 := Scan.ctor_ok id ts m coords orientation ro roa pages columns lines regions tables hc hor hro hps hcs hl hr htb
  show (Scan.setParentage _).ok = true
  rw [Scan.setParentage_of_ok _ h1]; exact h1

end Pagexml.C06
