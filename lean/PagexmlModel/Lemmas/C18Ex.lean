/-
C18: concrete values used by the non-vacuity examples of Props/C18.lean, and `PlainReg`.
-/
import PagexmlModel.Lemmas.C18Sep

namespace Pagexml.C18

/-- two groups of lines 70 px apart, one narrow line far right -/
def exLines : List Line :=
  [⟨"a", ⟨0, 0, 30, 10⟩⟩, ⟨"b", ⟨5, 20, 28, 30⟩⟩, ⟨"c", ⟨100, 0, 130, 10⟩⟩, ⟨"d", ⟨200, 0, 204, 9⟩⟩]

def exReg : RegInfo := ⟨.lit "r1", none⟩

theorem exLines_wf : WF exLines := by
  intro l hl
  simp [exLines] at hl
  rcases hl with rfl | rfl | rfl | rfl <;> decide

theorem exLines_pos : PosW exLines := by
  intro l hl
  simp [exLines] at hl
  rcases hl with rfl | rfl | rfl | rfl <;> decide

/-- a region id / parent id that is `None` or a plain string is not touched by a translation -/
def PlainReg (g : RegInfo) : Prop :=
  (g.id = .none ∨ ∃ s, g.id = .lit s) ∧
  (g.parent = none ∨ g.parent = some .none ∨ ∃ s, g.parent = some (.lit s))

end Pagexml.C18
