/-
C07: what is read back from the exported tree (`readNode`: id, Coords / Baseline points, text,
confidence, custom string of every TextRegion / TextLine / Word element, with the nesting) is the
content of the document (`regionNode`), for every region at any depth.
-/
import PagexmlModel.Lemmas.C07Tree

set_option linter.unusedSimpArgs false
set_option linter.unusedVariables false

namespace Pagexml.C07
open Pagexml.C06

/-! ### attribute and child lookups -/

def lookupA (k : String) (l : List (String × String)) : Option String := (l.find? (·.1 = k)).map (·.2)

theorem attr_eq (x : Xml) (k : String) : attr x k = lookupA k x.attrs := rfl

theorem lookupA_append (k : String) (a b : List (String × String)) :
    lookupA k (a ++ b) = (lookupA k a).or (lookupA k b) := by
  induction a with
  | nil => simp [lookupA]
  | cons x a ih =>
    simp only [lookupA, List.cons_append, List.find?_cons] at ih ⊢
    split <;> simp_all

theorem lookupA_idAttrs (k : String) (id : PyVal) : lookupA k (idAttrs id) = if k = "id" then idStr id else none := by
  unfold idAttrs
  cases h : idStr id with
  | none => simp [lookupA]
  | some s => by_cases hk : k = "id" <;> simp [lookupA, hk, eq_comm]

theorem lookupA_customAttrs (k : String) (md : Meta) :
    lookupA k (customAttrs md) = if k = "custom" then customStr md else none := by
  unfold customAttrs
  cases h : customStr md with
  | none => simp [lookupA]
  | some s => by_cases hk : k = "custom" <;> simp [lookupA, hk, eq_comm]

theorem lookupA_orientAttrs (k : String) (o : PyVal) (hk : k ≠ "orientation") : lookupA k (orientAttrs o) = none := by
  unfold orientAttrs
  split <;> simp [lookupA, Ne.symm hk]

theorem find_tag_none (t : String) (cs : List Xml) (h : ∀ c ∈ cs, c.tag ≠ t) : cs.find? (·.tag = t) = none := by
  induction cs with
  | nil => rfl
  | cons c cs ih =>
    simp only [List.find?_cons, h c (by simp), decide_false]
    exact ih (fun c' hc' => h c' (by simp [hc']))

theorem readNodes_append (t : String) (a b : List Xml) : readNodes t (a ++ b) = readNodes t a ++ readNodes t b := by
  induction a with
  | nil => simp [readNodes]
  | cons x a ih =>
    simp only [List.cons_append, readNodes]
    split <;> simp [ih]

theorem readNodes_skip (t : String) (cs : List Xml) (h : ∀ c ∈ cs, c.tag ≠ t) : readNodes t cs = [] := by
  induction cs with
  | nil => simp [readNodes]
  | cons c cs ih =>
    simp only [readNodes, h c (by simp), if_false]
    exact ih (fun c' hc' => h c' (by simp [hc']))

theorem readNodes_map {α} (t : String) (f : α → Xml) (g : α → Node) (as : List α)
    (ht : ∀ a ∈ as, (f a).tag = t) (hg : ∀ a ∈ as, readNode (f a) = g a) :
    readNodes t (as.map f) = as.map g := by
  induction as with
  | nil => simp [readNodes]
  | cons a as ih =>
    simp only [List.map_cons, readNodes, ht a (by simp), if_true, hg a (by simp)]
    rw [ih (fun b hb => ht b (by simp [hb])) (fun b hb => hg b (by simp [hb]))]

/-! ### the leaf children -/

theorem tag_coordsKids (c : Option Pts) : ∀ x ∈ coordsKids c, x.tag = "Coords" := by
  cases c <;> simp [coordsKids, pointsElem]
theorem tag_baselineKids (c : Option Pts) : ∀ x ∈ baselineKids c, x.tag = "Baseline" := by
  cases c <;> simp [baselineKids, pointsElem]
theorem tag_teKids (t : Option String) (c : PyVal) : ∀ x ∈ teKids t c, x.tag = "TextEquiv" := by
  unfold teKids; split <;> simp
theorem tag_wordTree (w : Word) : (wordTree w).tag = "Word" := rfl
theorem tag_lineTree (l : Line) : (lineTree l).tag = "TextLine" := rfl
theorem tag_tableTree (t : Table) : (tableTree t).tag = "TableRegion" := rfl
theorem tag_regionTree (r : Region) : (regionTree r).tag = "TextRegion" := by
  cases r; rfl
theorem tag_regionTrees (rs : List Region) : ∀ x ∈ regionTrees rs, x.tag = "TextRegion" := by
  induction rs with
  | nil => simp [regionTrees]
  | cons r rs ih =>
    intro x hx
    simp only [regionTrees, List.mem_cons] at hx
    rcases hx with rfl | hx
    · exact tag_regionTree r
    · exact ih x hx

theorem find_append_left (t : String) (a b : List Xml) (x : Xml) (h : a.find? (·.tag = t) = some x) :
    (a ++ b).find? (·.tag = t) = some x := by
  simp [List.find?_append, h]

theorem find_append_right (t : String) (a b : List Xml) (h : a.find? (·.tag = t) = none) :
    (a ++ b).find? (·.tag = t) = b.find? (·.tag = t) := by
  simp [List.find?_append, h]

theorem find_coordsKids (c : Option Pts) :
    (coordsKids c).find? (·.tag = "Coords") = c.map (pointsElem "Coords") := by
  cases c <;> simp [coordsKids, pointsElem]

theorem find_baselineKids (c : Option Pts) :
    (baselineKids c).find? (·.tag = "Baseline") = c.map (pointsElem "Baseline") := by
  cases c <;> simp [baselineKids, pointsElem]

/-- the Coords points read from an element whose children start with `coordsKids c` -/
theorem pointsAt_coords (t : String) (a : List (String × String)) (tx : Option String) (c : Option Pts) (rest : List Xml)
    (hrest : ∀ x ∈ rest, x.tag ≠ "Coords") :
    pointsAt ⟨t, a, tx, coordsKids c ++ rest⟩ "Coords" = c.map pointString := by
  unfold pointsAt child
  cases c with
  | none => simp [coordsKids, find_tag_none "Coords" rest hrest]
  | some ps => simp [coordsKids, pointsElem, attr, lookupA]

theorem textAt_te (t : String) (a : List (String × String)) (tx : Option String) (pre post : List Xml)
    (text : Option String) (conf : PyVal) (hpre : ∀ x ∈ pre, x.tag ≠ "TextEquiv") (hpost : ∀ x ∈ post, x.tag ≠ "TextEquiv") :
    textAt ⟨t, a, tx, pre ++ teKids text conf ++ post⟩ = text
    ∧ confAt ⟨t, a, tx, pre ++ teKids text conf ++ post⟩ = confStr conf := by
  unfold textAt confAt child
  simp only [List.append_assoc, find_append_right "TextEquiv" pre _ (find_tag_none _ _ hpre)]
  unfold teKids
  cases hte : hasTE text conf with
  | false =>
    have h2 : text = none ∧ conf = .none := by
      cases text <;> cases conf <;> simp_all [hasTE]
    obtain ⟨rfl, rfl⟩ := h2
    simp [find_tag_none "TextEquiv" post hpost, confStr]
  | true =>
    simp only [if_true, List.cons_append, List.nil_append, List.find?_cons, decide_true, Option.bind_some]
    refine ⟨by simp [child], ?_⟩
    simp only [attr, confAttrs]
    cases confStr conf <;> simp

/-! ### word, line -/

theorem readNode_wordTree (w : Word) : readNode (wordTree w) = wordNode w := by
  obtain ⟨⟨id, ty, md, co⟩, text, conf⟩ := w
  have hte := textAt_te "Word" (idAttrs id ++ customAttrs md) none (coordsKids co) [] text conf
    (fun x hx => by rw [tag_coordsKids co x hx]; decide) (by simp)
  simp only [List.append_nil] at hte
  have hpt := pointsAt_coords "Word" (idAttrs id ++ customAttrs md) none co (teKids text conf)
    (fun x hx => by rw [tag_teKids _ _ x hx]; decide)
  simp only [wordTree, readNode, wordNode, hte.1, hte.2, hpt, attr_eq, lookupA_append, lookupA_idAttrs, lookupA_customAttrs,
    readNodes_append]
  have hb : pointsAt ⟨"Word", idAttrs id ++ customAttrs md, none, coordsKids co ++ teKids text conf⟩ "Baseline" = none := by
    unfold pointsAt child
    rw [find_tag_none]
    · rfl
    · intro c hc
      simp only [List.mem_append] at hc
      rcases hc with hc | hc
      · rw [tag_coordsKids co c hc]; decide
      · rw [tag_teKids _ _ c hc]; decide
  rw [hb]
  have hk : ∀ t, t = "TextLine" ∨ t = "TextRegion" ∨ t = "Word" → readNodes t (coordsKids co) = [] ∧ readNodes t (teKids text conf) = [] := by
    intro t ht
    refine ⟨readNodes_skip t _ (fun c hc => ?_), readNodes_skip t _ (fun c hc => ?_)⟩
    · rw [tag_coordsKids co c hc]; rcases ht with rfl | rfl | rfl <;> decide
    · rw [tag_teKids _ _ c hc]; rcases ht with rfl | rfl | rfl <;> decide
  simp [(hk "TextLine" (by simp)).1, (hk "TextLine" (by simp)).2, (hk "TextRegion" (by simp)).1, (hk "TextRegion" (by simp)).2,
    (hk "Word" (by simp)).1, (hk "Word" (by simp)).2]

theorem readNode_lineTree (l : Line) : readNode (lineTree l) = lineNode l := by
  obtain ⟨⟨id, ty, md, co⟩, bl, text, conf, xh, ro, roa, words⟩ := l
  have hte := textAt_te "TextLine" (idAttrs id ++ customAttrs md) none (coordsKids co ++ baselineKids bl) (words.map wordTree)
    text conf
    (fun x hx => by
      simp only [List.mem_append] at hx
      rcases hx with hx | hx
      · rw [tag_coordsKids co x hx]; decide
      · rw [tag_baselineKids bl x hx]; decide)
    (fun x hx => by
      obtain ⟨w, _, rfl⟩ := List.mem_map.mp hx
      rw [tag_wordTree]; decide)
  have hpt := pointsAt_coords "TextLine" (idAttrs id ++ customAttrs md) none co
    (baselineKids bl ++ teKids text conf ++ words.map wordTree)
    (fun x hx => by
      simp only [List.mem_append] at hx
      rcases hx with (hx | hx) | hx
      · rw [tag_baselineKids bl x hx]; decide
      · rw [tag_teKids _ _ x hx]; decide
      · obtain ⟨w, _, rfl⟩ := List.mem_map.mp hx; rw [tag_wordTree]; decide)
  have hb : pointsAt ⟨"TextLine", idAttrs id ++ customAttrs md, none,
      coordsKids co ++ baselineKids bl ++ teKids text conf ++ words.map wordTree⟩ "Baseline" = bl.map pointString := by
    unfold pointsAt child
    simp only [List.append_assoc]
    rw [find_append_right "Baseline" (coordsKids co) _ (find_tag_none _ _ (fun c hc => by rw [tag_coordsKids co c hc]; decide))]
    cases bl with
    | some ps => simp [baselineKids, pointsElem, attr, lookupA]
    | none =>
      simp only [baselineKids, List.nil_append, Option.map_none]
      rw [find_tag_none]
      · rfl
      · intro c hc
        simp only [List.mem_append] at hc
        rcases hc with hc | hc
        · rw [tag_teKids _ _ c hc]; decide
        · obtain ⟨w, _, rfl⟩ := List.mem_map.mp hc; rw [tag_wordTree]; decide
  simp only [List.append_assoc] at hte hpt hb
  simp only [lineTree, readNode, lineNode, List.append_assoc, hte.1, hte.2, hpt, hb, attr_eq, lookupA_append, lookupA_idAttrs,
    lookupA_customAttrs, readNodes_append]
  have hk : ∀ t, t = "TextLine" ∨ t = "TextRegion" ∨ t = "Word" →
      readNodes t (coordsKids co) = [] ∧ readNodes t (baselineKids bl) = [] ∧ readNodes t (teKids text conf) = [] := by
    intro t ht
    refine ⟨readNodes_skip t _ (fun c hc => ?_), readNodes_skip t _ (fun c hc => ?_), readNodes_skip t _ (fun c hc => ?_)⟩
    · rw [tag_coordsKids co c hc]; rcases ht with rfl | rfl | rfl <;> decide
    · rw [tag_baselineKids bl c hc]; rcases ht with rfl | rfl | rfl <;> decide
    · rw [tag_teKids _ _ c hc]; rcases ht with rfl | rfl | rfl <;> decide
  have hw : readNodes "Word" (words.map wordTree) = words.map wordNode :=
    readNodes_map "Word" wordTree wordNode words (fun _ _ => rfl) (fun w _ => readNode_wordTree w)
  have hw1 : readNodes "TextLine" (words.map wordTree) = [] :=
    readNodes_skip _ _ (fun c hc => by obtain ⟨w, _, rfl⟩ := List.mem_map.mp hc; rw [tag_wordTree]; decide)
  have hw2 : readNodes "TextRegion" (words.map wordTree) = [] :=
    readNodes_skip _ _ (fun c hc => by obtain ⟨w, _, rfl⟩ := List.mem_map.mp hc; rw [tag_wordTree]; decide)
  simp [(hk "TextLine" (by simp)), (hk "TextRegion" (by simp)), (hk "Word" (by simp)), hw, hw1, hw2]

/-! ### regions, to any depth -/

theorem readNode_regionTree_mk (h : Hdr) (text : Option String) (orientation : PyVal) (ro : RO) (roa : PyVal)
    (lines : List Line) (regions : List Region) (tables : List Table)
    (ih : readNodes "TextRegion" (regionTrees regions) = regionNodes regions) :
    readNode (regionTree ⟨h, text, orientation, ro, roa, lines, regions, tables⟩)
      = regionNode ⟨h, text, orientation, ro, roa, lines, regions, tables⟩ := by
  obtain ⟨id, ty, md, co⟩ := h
  have tagsRest : ∀ x ∈ lines.map lineTree ++ regionTrees regions ++ tables.map tableTree,
      x.tag = "TextLine" ∨ x.tag = "TextRegion" ∨ x.tag = "TableRegion" := by
    intro x hx
    simp only [List.mem_append] at hx
    rcases hx with (hx | hx) | hx
    · obtain ⟨l, _, rfl⟩ := List.mem_map.mp hx; exact Or.inl rfl
    · exact Or.inr (Or.inl (tag_regionTrees regions x hx))
    · obtain ⟨t, _, rfl⟩ := List.mem_map.mp hx; exact Or.inr (Or.inr rfl)
  have hpt := pointsAt_coords "TextRegion" (idAttrs id ++ customAttrs md ++ orientAttrs orientation) none co
    (lines.map lineTree ++ regionTrees regions ++ tables.map tableTree)
    (fun x hx => by rcases tagsRest x hx with h | h | h <;> rw [h] <;> decide)
  have hnone : ∀ t, t = "Baseline" ∨ t = "TextEquiv" →
      (coordsKids co ++ (lines.map lineTree ++ regionTrees regions ++ tables.map tableTree)).find? (·.tag = t) = none := by
    intro t ht
    apply find_tag_none
    intro c hc
    rcases List.mem_append.mp hc with hc | hc
    · rw [tag_coordsKids co c hc]; rcases ht with rfl | rfl <;> decide
    · have := tagsRest c hc
      rcases this with h | h | h <;> rw [h] <;> rcases ht with rfl | rfl <;> decide
  have hb : pointsAt ⟨"TextRegion", idAttrs id ++ customAttrs md ++ orientAttrs orientation, none,
      coordsKids co ++ (lines.map lineTree ++ regionTrees regions ++ tables.map tableTree)⟩ "Baseline" = none := by
    unfold pointsAt child; rw [hnone "Baseline" (Or.inl rfl)]; rfl
  have ht : textAt ⟨"TextRegion", idAttrs id ++ customAttrs md ++ orientAttrs orientation, none,
      coordsKids co ++ (lines.map lineTree ++ regionTrees regions ++ tables.map tableTree)⟩ = none := by
    unfold textAt child; rw [hnone "TextEquiv" (Or.inr rfl)]; rfl
  have hc : confAt ⟨"TextRegion", idAttrs id ++ customAttrs md ++ orientAttrs orientation, none,
      coordsKids co ++ (lines.map lineTree ++ regionTrees regions ++ tables.map tableTree)⟩ = none := by
    unfold confAt child; rw [hnone "TextEquiv" (Or.inr rfl)]; rfl
  have hco : ∀ t, t = "TextLine" ∨ t = "TextRegion" ∨ t = "Word" → readNodes t (coordsKids co) = [] := by
    intro t ht
    exact readNodes_skip t _ (fun c hc => by rw [tag_coordsKids co c hc]; rcases ht with rfl | rfl | rfl <;> decide)
  have hl : readNodes "TextLine" (lines.map lineTree) = lines.map lineNode :=
    readNodes_map "TextLine" lineTree lineNode lines (fun _ _ => rfl) (fun l _ => readNode_lineTree l)
  have hl' : ∀ t, t = "TextRegion" ∨ t = "Word" → readNodes t (lines.map lineTree) = [] := by
    intro t ht
    exact readNodes_skip t _ (fun c hc => by
      obtain ⟨l, _, rfl⟩ := List.mem_map.mp hc; rw [tag_lineTree]; rcases ht with rfl | rfl <;> decide)
  have hr' : ∀ t, t = "TextLine" ∨ t = "Word" → readNodes t (regionTrees regions) = [] := by
    intro t ht
    exact readNodes_skip t _ (fun c hc => by rw [tag_regionTrees regions c hc]; rcases ht with rfl | rfl <;> decide)
  have htb : ∀ t, t = "TextLine" ∨ t = "TextRegion" ∨ t = "Word" → readNodes t (tables.map tableTree) = [] := by
    intro t ht
    exact readNodes_skip t _ (fun c hc => by
      obtain ⟨x, _, rfl⟩ := List.mem_map.mp hc; rw [tag_tableTree]; rcases ht with rfl | rfl | rfl <;> decide)
  simp only [List.append_assoc] at hpt hb ht hc
  simp only [regionTree, readNode, regionNode, List.append_assoc, hpt, hb, ht, hc, attr_eq, lookupA_append, lookupA_idAttrs,
    lookupA_customAttrs, lookupA_orientAttrs _ orientation (by decide : "id" ≠ "orientation"),
    lookupA_orientAttrs _ orientation (by decide : "custom" ≠ "orientation"), readNodes_append, ih, hl,
    hco "TextLine" (by simp), hco "TextRegion" (by simp), hco "Word" (by simp), hl' "TextRegion" (by simp), hl' "Word" (by simp),
    hr' "TextLine" (by simp), hr' "Word" (by simp), htb "TextLine" (by simp), htb "TextRegion" (by simp), htb "Word" (by simp)]
  simp

mutual
theorem readNode_regionTree : ∀ r : Region, readNode (regionTree r) = regionNode r
  | ⟨h, text, orientation, ro, roa, lines, regions, tables⟩ =>
    readNode_regionTree_mk h text orientation ro roa lines regions tables (readNodes_regionTrees regions)
theorem readNodes_regionTrees : ∀ rs : List Region, readNodes "TextRegion" (regionTrees rs) = regionNodes rs
  | [] => by simp [regionTrees, readNodes, regionNodes]
  | r :: rs => by
    simp only [regionTrees, readNodes, tag_regionTree, if_true, regionNodes, readNode_regionTree r, readNodes_regionTrees rs]
end

/-! ### the page -/

theorem pageOf_scanTree (s : Scan) : pageOf (scanTree s) = some (pageTree s) := by
  simp [pageOf, child, scanTree, metadataTree, pageTree]

theorem tag_readingOrderTrees (ro : RO) (roa : PyVal) : ∀ x ∈ readingOrderTrees ro roa, x.tag = "ReadingOrder" := by
  unfold readingOrderTrees; split <;> simp

theorem readNodes_pageTree (s : Scan) : readNodes "TextRegion" (pageTree s).children = regionNodes s.regions := by
  simp only [pageTree, readNodes_append, readNodes_regionTrees]
  rw [readNodes_skip "TextRegion" (readingOrderTrees s.ro s.roa)
        (fun c hc => by rw [tag_readingOrderTrees _ _ c hc]; decide),
      readNodes_skip "TextRegion" (s.tables.map tableTree)
        (fun c hc => by obtain ⟨x, _, rfl⟩ := List.mem_map.mp hc; rw [tag_tableTree]; decide)]
  simp

def refOf (r : Xml) : Option (String × String) :=
  if r.tag = "RegionRefIndexed" then
    match attr r "index", attr r "regionRef" with
    | some i, some ref => some (i, ref)
    | _, _ => none
  else none

theorem filterMap_refTree (l : RO) : (l.map refTree).filterMap refOf = l.map (fun e => (strOfInt e.1, strT e.2)) := by
  induction l with
  | nil => rfl
  | cons a l ih =>
    have h1 : refOf (refTree a) = some (strOfInt a.1, strT a.2) := by simp [refOf, refTree, attr]
    simp only [List.map_cons, List.filterMap_cons, h1, ih]

/-- the reading order read from the exported Page: the entries of the document's reading order, in order -/
theorem readingOrderAt_pageTree (s : Scan) :
    readingOrderAt (pageTree s) = s.ro.map (fun e => (strOfInt e.1, strT e.2)) := by
  unfold readingOrderAt child pageTree readingOrderTrees
  cases hro : s.ro with
  | nil =>
    simp only [List.isEmpty_nil, Bool.not_true, Bool.false_eq_true, if_false, List.nil_append, List.map_nil]
    rw [find_tag_none "ReadingOrder"]
    · rfl
    · intro c hc
      simp only [List.mem_append] at hc
      rcases hc with hc | hc
      · rw [tag_regionTrees _ c hc]; decide
      · obtain ⟨x, _, rfl⟩ := List.mem_map.mp hc; rw [tag_tableTree]; decide
  | cons e es =>
    simp only [List.isEmpty_cons, Bool.not_false, if_true, List.cons_append, List.nil_append, List.find?_cons, decide_true,
      Option.bind_some, child]
    exact filterMap_refTree (e :: es)

/-! ### the ids, in document order -/

mutual
/-- the id of an element and of everything read below it: its lines (each with its words), then its
    sub-regions, then its words -/
def Node.ids : Node → List (Option String)
  | ⟨id, _, _, _, _, _, lines, regions, words⟩ => id :: (idsL lines ++ idsL regions ++ idsL words)
def idsL : List Node → List (Option String)
  | [] => []
  | n :: ns => n.ids ++ idsL ns
end

/-- the ids of a document's elements in the same order (`none`: the element has no id) -/
def lineIds (l : Line) : List (Option String) := idStr l.h.id :: l.words.map (fun w => idStr w.h.id)

mutual
def regionIds : Region → List (Option String)
  | ⟨h, _, _, _, _, lines, regions, _⟩ => idStr h.id :: (lines.flatMap lineIds ++ regionsIds regions)
def regionsIds : List Region → List (Option String)
  | [] => []
  | r :: rs => regionIds r ++ regionsIds rs
end

theorem idsL_append (a b : List Node) : idsL (a ++ b) = idsL a ++ idsL b := by
  induction a with
  | nil => simp [idsL]
  | cons n a ih => simp [idsL, ih]

theorem ids_wordNode (w : Word) : (wordNode w).ids = [idStr w.h.id] := by
  simp [wordNode, Node.ids, idsL]

theorem idsL_words (ws : List Word) : idsL (ws.map wordNode) = ws.map (fun w => idStr w.h.id) := by
  induction ws with
  | nil => simp [idsL]
  | cons w ws ih => simp [idsL, ids_wordNode, ih]

theorem ids_lineNode (l : Line) : (lineNode l).ids = lineIds l := by
  simp [lineNode, Node.ids, idsL, idsL_words, lineIds]

theorem idsL_lines (ls : List Line) : idsL (ls.map lineNode) = ls.flatMap lineIds := by
  induction ls with
  | nil => simp [idsL]
  | cons l ls ih => simp [idsL, ids_lineNode, ih]

mutual
theorem ids_regionNode : ∀ r : Region, (regionNode r).ids = regionIds r
  | ⟨h, text, o, ro, roa, lines, regions, tables⟩ => by
    simp [regionNode, Node.ids, idsL, idsL_lines, regionIds, idsL_regionNodes regions]
theorem idsL_regionNodes : ∀ rs : List Region, idsL (regionNodes rs) = regionsIds rs
  | [] => by simp [regionNodes, idsL, regionsIds]
  | r :: rs => by simp [regionNodes, idsL, regionsIds, ids_regionNode r, idsL_regionNodes rs]
end

end Pagexml.C07
