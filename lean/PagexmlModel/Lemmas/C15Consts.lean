/-
What the C15 theorems need to know about the numeric literals regenerated from the source
(Generated/C15.lean).  Everything else in Lemmas/C15*.lean and Props/C15.lean treats these
constants as unknown numbers: the proofs go through for every value, and an edit of the source
that changes a literal is simply followed.  The few RELATIONS between the literals that a theorem
really uses are the named statements below, each decided on the regenerated table; an edit of
the source that breaks one of them breaks exactly that obligation (and what is built on it).
-/
import PagexmlModel.Model.C15

namespace Pagexml.C15

open Generated.C15

/-- the tolerance with which the cells of one row of a clean layout are aligned: the first of the two
    tolerances of `is_next_to` (`consts_next_to_tolerances_equal`: it is also the second) -/
def rowTol : Int := nextToTolTop

/-- `is_next_to` uses ONE tolerance: the test `top > other.bottom + N` and the test
    `bottom < other.top - N` carry the same `N`, so that "next to" is symmetric on
    vertically overlapping, horizontally disjoint lines -/
theorem consts_next_to_tolerances_equal : nextToTolTop = nextToTolBottom := by decide

/-- lines without horizontal overlap are never refused by the overlap limit of `is_next_to` -/
theorem consts_next_to_overlap_limit_nonneg : 0 ≤ nextToMaxHOverlap := by decide

/-- the majority ratio of `baseline_is_below` is a proper fraction in `[0, 1)`: no point below is
    "not below", all points below is "below" -/
theorem consts_baseline_below_ratio_proper :
    0 ≤ baselineBelowRatio.1 ∧ baselineBelowRatio.1 < baselineBelowRatio.2 := by decide

/-- the threshold of `is_horizontally_overlapping` that `PageXMLTextRegion.__lt__` uses is a
    non-negative fraction: regions without horizontal overlap are not "overlapping" -/
theorem consts_region_overlap_threshold_nonneg :
    0 ≤ regionHOverlapThr.1 ∧ 0 < regionHOverlapThr.2 := by decide

/-! ### the two facts about `ratioGt` / `ratGt` that the layout theorems use, for every ratio -/

theorem ratioGt_self {d : Int} {r : Int × Int} (hr : r.1 < r.2) (hd : 0 < d) : ratioGt d d r = true := by
  simp only [ratioGt, decide_eq_true_eq, gt_iff_lt]
  rw [Int.mul_comm r.1 d]
  exact Int.mul_lt_mul_of_pos_left hr hd

theorem ratioGt_zero {d : Int} {r : Int × Int} (hr : 0 ≤ r.1) (hd : 0 ≤ d) : ratioGt 0 d r = false := by
  simp only [ratioGt, Int.zero_mul, gt_iff_lt, decide_eq_false_iff_not, Int.not_lt]
  exact Int.mul_nonneg hr hd

theorem ratGt_zero {d p q : Int} (hp : 0 ≤ p) (hd : 0 < d) : ratGt 0 d p q = false := by
  simp only [ratGt, hd, if_true, Int.zero_mul, gt_iff_lt, decide_eq_false_iff_not, Int.not_lt]
  exact Int.mul_nonneg hp (Int.le_of_lt hd)

end Pagexml.C15
