/-
Helper lemmas for C07: the structural guards of the export never fire on the text hierarchy,
and every tree the export returns satisfies the (generated) structure rules.
-/
import PagexmlModel.Model.C07
import PagexmlModel.Lemmas.C06

set_option linter.unusedSimpArgs false
set_option linter.unusedVariables false

namespace Pagexml.C07
open Pagexml.C06

@[simp] theorem err_bind {α β} (e : Err) (f : α → Res β) : (Except.error e >>= f) = .error e := rfl

/-! ### facts about the generated tables (re-checked against xml.py on every run) -/

theorem vc_page_region : validChild "Page" "TextRegion" = .ok true := by decide
theorem vc_page_table : validChild "Page" "TableRegion" = .ok true := by decide
theorem vc_page_ro : validChild "Page" "ReadingOrder" = .ok true := by decide
theorem vc_region_region : validChild "TextRegion" "TextRegion" = .ok true := by decide
theorem vc_region_line : validChild "TextRegion" "TextLine" = .ok true := by decide
theorem vc_line_word : validChild "TextLine" "Word" = .ok true := by decide
theorem vc_ro_og : validChild "ReadingOrder" "OrderedGroup" = .ok true := by decide
theorem vc_og_ref : validChild "OrderedGroup" "RegionRefIndexed" = .ok true := by decide
theorem vc_pcgts_page : validChild "PcGts" "Page" = .ok true := by decide
theorem vc_pcgts_md : validChild "PcGts" "Metadata" = .ok true := by decide
theorem vc_md_fields : ∀ f ∈ ["Creator", "Created", "LastChange"], validChild "Metadata" f = .ok true := by decide
theorem vc_coords : ∀ n ∈ Gen.coordsTags, validChild n "Coords" = .ok true := by decide
theorem vc_baseline : ∀ n ∈ Gen.baselineTags, validChild n "Baseline" = .ok true := by decide
theorem vc_textequiv : ∀ n ∈ ["TextLine", "Word"], validChild n "TextEquiv" = .ok true := by decide
theorem vc_te_unicode : validChild "TextEquiv" "Unicode" = .ok true := by decide
theorem vc_te_plain : validChild "TextEquiv" "PlainText" = .ok true := by decide

theorem sg_page_region : singleton "Page" "TextRegion" = .ok false := by decide
theorem sg_page_table : singleton "Page" "TableRegion" = .ok false := by decide
theorem sg_region_region : singleton "TextRegion" "TextRegion" = .ok false := by decide
theorem sg_region_line : singleton "TextRegion" "TextLine" = .ok false := by decide
theorem sg_line_word : singleton "TextLine" "Word" = .ok false := by decide
theorem sg_ro_og : singleton "ReadingOrder" "OrderedGroup" = .ok false := by decide
theorem sg_og_ref : singleton "OrderedGroup" "RegionRefIndexed" = .ok false := by decide
theorem sg_page_ro : singleton "Page" "ReadingOrder" = .ok true := by decide
theorem sg_pcgts_page : singleton "PcGts" "Page" = .ok true := by decide

theorem tags_word : "Word" ∈ Gen.coordsTags ∧ "Word" ∈ Gen.textSelfTags := by decide
theorem tags_line : "TextLine" ∈ Gen.coordsTags ∧ "TextLine" ∈ Gen.baselineTags ∧ "TextLine" ∈ Gen.textSelfTags := by decide
theorem tags_region : "TextRegion" ∈ Gen.coordsTags := by decide

/-! ### the guards -/

theorem checkAdd_ok (p : Xml) (name : String) (hv : validChild p.tag name = .ok true)
    (hs : singleton p.tag name = .ok false ∨ (singleton p.tag name = .ok true ∧ hasChild p name = false)) :
    checkAdd true p name = .ok () := by
  unfold checkAdd
  rcases hs with hs | ⟨hs, hc⟩ <;> simp [hv, hs, *]

theorem checkAdd_false (p : Xml) (name : String) : checkAdd false p name = .ok () := rfl

/-- a checked addition on a parent whose tag admits the child: the flag makes no difference -/
theorem addSub_g (p : Xml) (name : String) (b b' : Res Xml) (hb : b = b')
    (hv : validChild p.tag name = .ok true)
    (hs : singleton p.tag name = .ok false ∨ (singleton p.tag name = .ok true ∧ hasChild p name = false)) :
    addSub true p name b = addSub false p name b' := by
  simp [addSub, checkAdd_ok p name hv hs, checkAdd_false, hb]

theorem addSub_tag (g : Bool) (p : Xml) (name : String) (b : Res Xml) (p' : Xml) (h : addSub g p name b = .ok p') :
    p'.tag = p.tag := by
  unfold addSub at h
  cases hc : checkAdd g p name with
  | error e => simp [hc] at h
  | ok u =>
    cases hb : b with
    | error e => simp [hc, hb] at h
    | ok c => simp [hc, hb] at h; rw [← h]; rfl

theorem foldAdd_tag {α} (f : Xml → α → Res Xml) (hf : ∀ p a p', f p a = .ok p' → p'.tag = p.tag) :
    ∀ (as : List α) (p p' : Xml), foldAdd f p as = .ok p' → p'.tag = p.tag := by
  intro as
  induction as with
  | nil => intro p p' h; simp [foldAdd] at h; rw [h]
  | cons a as ih =>
    intro p p' h
    simp only [foldAdd] at h
    cases hfa : f p a with
    | error e => simp [hfa] at h
    | ok q => simp [hfa] at h; rw [ih q p' h, hf p a q hfa]

theorem foldAdd_congr {α} (t : String) (f f' : Xml → α → Res Xml)
    (hff : ∀ p a, p.tag = t → f p a = f' p a)
    (hf' : ∀ p a p', f' p a = .ok p' → p'.tag = p.tag) :
    ∀ (as : List α) (p : Xml), p.tag = t → foldAdd f p as = foldAdd f' p as := by
  intro as
  induction as with
  | nil => intro p _; rfl
  | cons a as ih =>
    intro p hp
    simp only [foldAdd, hff p a hp]
    cases hfa : f' p a with
    | error e => rfl
    | ok q => simp only [ok_bind]; exact ih q (by rw [hf' p a q hfa, hp])

/-! ### `C07_export_ok`: with or without the structural guards, the same result -/

theorem mkElement_g_word (id : PyVal) (custom : Option PyVal) (attrs : List (String × PyVal)) (coords : Option Pts)
    (text : Option String) (conf : PyVal) :
    mkElement true "Word" id custom attrs coords none text conf = mkElement false "Word" id custom attrs coords none text conf := by
  have h1 : coordsChild true "Word" coords = coordsChild false "Word" coords := by
    cases coords <;> simp [coordsChild, tags_word.1]
  have h3 : textChild true "Word" coords none conf text = textChild false "Word" coords none conf text := by
    cases text <;> cases conf <;> simp [textChild, tags_word.2]
  simp only [mkElement, h1, h3, baselineChild]

theorem mkElement_g_line (id : PyVal) (custom : Option PyVal) (attrs : List (String × PyVal)) (coords baseline : Option Pts)
    (text : Option String) (conf : PyVal) :
    mkElement true "TextLine" id custom attrs coords baseline text conf
      = mkElement false "TextLine" id custom attrs coords baseline text conf := by
  have h1 : coordsChild true "TextLine" coords = coordsChild false "TextLine" coords := by
    cases coords <;> simp [coordsChild, tags_line.1]
  have h2 : baselineChild true "TextLine" baseline = baselineChild false "TextLine" baseline := by
    cases baseline <;> simp [baselineChild, tags_line.2.1]
  have h3 : textChild true "TextLine" coords baseline conf text = textChild false "TextLine" coords baseline conf text := by
    cases text <;> cases conf <;> simp [textChild, tags_line.2.2]
  simp only [mkElement, h1, h2, h3]

theorem mkElement_g_region (id : PyVal) (custom : Option PyVal) (attrs : List (String × PyVal)) (coords : Option Pts) :
    mkElement true "TextRegion" id custom attrs coords none none .none
      = mkElement false "TextRegion" id custom attrs coords none none .none := by
  have h1 : coordsChild true "TextRegion" coords = coordsChild false "TextRegion" coords := by
    cases coords <;> simp [coordsChild, tags_region]
  simp only [mkElement, h1, baselineChild, textChild]

theorem mkElement_tag (g : Bool) (name : String) (id : PyVal) (custom : Option PyVal) (attrs : List (String × PyVal))
    (coords baseline : Option Pts) (text : Option String) (conf : PyVal) (x : Xml)
    (h : mkElement g name id custom attrs coords baseline text conf = .ok x) : x.tag = name := by
  unfold mkElement at h
  cases h0 : elemAttrs id custom attrs with
  | error e => simp [h0] at h
  | ok a =>
    cases h1 : coordsChild g name coords with
    | error e => simp [h0, h1] at h
    | ok c1 =>
      cases h2 : baselineChild g name baseline with
      | error e => simp [h0, h1, h2] at h
      | ok c2 =>
        cases h3 : textChild g name coords baseline conf text with
        | error e => simp [h0, h1, h2, h3] at h
        | ok c3 => simp [h0, h1, h2, h3] at h; rw [← h]

theorem addWord_tag (g : Bool) (p : Xml) (w : Word) (p' : Xml) (h : addWord g p w = .ok p') : p'.tag = p.tag :=
  addSub_tag g p _ _ p' h
theorem addLine_tag (g : Bool) (p : Xml) (l : Line) (p' : Xml) (h : addLine g p l = .ok p') : p'.tag = p.tag :=
  addSub_tag g p _ _ p' h
theorem addTable_tag (g : Bool) (p : Xml) (t : Table) (p' : Xml) (h : addTable g p t = .ok p') : p'.tag = p.tag :=
  addSub_tag g p _ _ p' h

theorem addWord_g (p : Xml) (w : Word) (hp : p.tag = "TextLine") : addWord true p w = addWord false p w := by
  unfold addWord
  exact addSub_g p "Word" _ _ (mkElement_g_word _ _ _ _ _ _) (by rw [hp]; exact vc_line_word)
    (Or.inl (by rw [hp]; exact sg_line_word))

theorem lineBuild_g (l : Line) :
    (do let e ← mkElement true "TextLine" l.h.id (some (customOf l.h.md)) [] l.h.coords l.baseline l.text l.conf
        foldAdd (addWord true) e l.words)
    = (do let e ← mkElement false "TextLine" l.h.id (some (customOf l.h.md)) [] l.h.coords l.baseline l.text l.conf
          foldAdd (addWord false) e l.words) := by
  rw [mkElement_g_line]
  cases he : mkElement false "TextLine" l.h.id (some (customOf l.h.md)) [] l.h.coords l.baseline l.text l.conf with
  | error e => rfl
  | ok e =>
    simp only [ok_bind]
    exact foldAdd_congr "TextLine" _ _ (fun p w hp => addWord_g p w hp) (addWord_tag false) l.words e
      (mkElement_tag _ _ _ _ _ _ _ _ _ e he)

theorem addLine_g (p : Xml) (l : Line) (hp : p.tag = "TextRegion") : addLine true p l = addLine false p l := by
  unfold addLine
  exact addSub_g p "TextLine" _ _ (lineBuild_g l) (by rw [hp]; exact vc_region_line)
    (Or.inl (by rw [hp]; exact sg_region_line))

mutual
/-- no table regions anywhere below (the text hierarchy) -/
def noTables : Region → Bool
  | ⟨_, _, _, _, _, _, regions, tables⟩ => tables.isEmpty && noTablesL regions
def noTablesL : List Region → Bool
  | [] => true
  | r :: rs => noTables r && noTablesL rs
end

mutual
theorem addRegion_tag (g : Bool) : ∀ (r : Region) (p p' : Xml), addRegion g p r = .ok p' → p'.tag = p.tag
  | ⟨h, text, orientation, ro, roa, lines, regions, tables⟩, p, p', hh => by
    unfold addRegion at hh
    exact addSub_tag g p _ _ p' hh
theorem addRegions_tag (g : Bool) : ∀ (rs : List Region) (p p' : Xml), addRegions g p rs = .ok p' → p'.tag = p.tag
  | [], p, p', h => by simp [addRegions] at h; rw [h]
  | r :: rs, p, p', h => by
    simp only [addRegions] at h
    cases hr : addRegion g p r with
    | error e => simp [hr] at h
    | ok q => simp [hr] at h; rw [addRegions_tag g rs q p' h, addRegion_tag g r p q hr]
end

mutual
theorem addRegion_g : ∀ (r : Region) (p : Xml), (p.tag = "Page" ∨ p.tag = "TextRegion") → noTables r = true →
    addRegion true p r = addRegion false p r
  | ⟨h, text, orientation, ro, roa, lines, regions, tables⟩, p, hp, hnt => by
    simp only [noTables, Bool.and_eq_true, List.isEmpty_iff] at hnt
    obtain ⟨ht, hrs⟩ := hnt
    subst ht
    unfold addRegion
    apply addSub_g p "TextRegion"
    · rw [mkElement_g_region]
      cases he : mkElement false "TextRegion" h.id (some (customOf h.md)) (docAttributes orientation) h.coords none none .none with
      | error e => rfl
      | ok e =>
        have het : e.tag = "TextRegion" := mkElement_tag _ _ _ _ _ _ _ _ _ e he
        simp only [ok_bind]
        rw [foldAdd_congr "TextRegion" _ _ (fun p l hp => addLine_g p l hp) (addLine_tag false) lines e het]
        cases hl : foldAdd (addLine false) e lines with
        | error e => rfl
        | ok e2 =>
          have het2 : e2.tag = "TextRegion" := by rw [foldAdd_tag _ (addLine_tag false) lines e e2 hl, het]
          simp only [ok_bind]
          rw [addRegions_g regions e2 (Or.inr het2) hrs]
          cases hr : addRegions false e2 regions with
          | error e => rfl
          | ok e3 => simp [foldAdd]
    · rcases hp with hp | hp <;> rw [hp]
      · exact vc_page_region
      · exact vc_region_region
    · rcases hp with hp | hp <;> rw [hp]
      · exact Or.inl sg_page_region
      · exact Or.inl sg_region_region
theorem addRegions_g : ∀ (rs : List Region) (p : Xml), (p.tag = "Page" ∨ p.tag = "TextRegion") → noTablesL rs = true →
    addRegions true p rs = addRegions false p rs
  | [], p, _, _ => rfl
  | r :: rs, p, hp, hnt => by
    simp only [noTablesL, Bool.and_eq_true] at hnt
    simp only [addRegions]
    rw [addRegion_g r p hp hnt.1]
    cases hr : addRegion false p r with
    | error e => rfl
    | ok q =>
      simp only [ok_bind]
      exact addRegions_g rs q (by rw [addRegion_tag false r p q hr]; exact hp) hnt.2
end

theorem guardValid_ok (p c : String) (e : Err) (h : validChild p c = .ok true) : guardValid true p c e = .ok () := by
  simp [guardValid, h]

theorem addRef_tag (g : Bool) (og : Xml) (e : Int × PyVal) (og' : Xml) (h : addRef g og e = .ok og') : og'.tag = og.tag :=
  addSub_tag g og _ _ og' h

theorem orderedGroup_g (ro : RO) (roa : PyVal) : orderedGroup true ro roa = orderedGroup false ro roa := by
  unfold orderedGroup
  cases ha : roaAttrs roa with
  | error e => rfl
  | ok attrs =>
    simp only [ok_bind]
    exact foldAdd_congr "OrderedGroup" _ _
      (fun og e hog => addSub_g og "RegionRefIndexed" _ _ rfl (by rw [hog]; exact vc_og_ref)
        (Or.inl (by rw [hog]; exact sg_og_ref)))
      (addRef_tag false) ro _ rfl

theorem addReadingOrder_g (page : Xml) (ro : RO) (roa : PyVal) (hp : page.tag = "Page")
    (hc : hasChild page "ReadingOrder" = false) :
    addReadingOrder true page ro roa = addReadingOrder false page ro roa := by
  unfold addReadingOrder
  rw [hp, guardValid_ok _ _ _ vc_page_ro]
  simp only [guardValid, Bool.false_eq_true, if_false, ok_bind, pure_eq_ok]
  apply addSub_g page "ReadingOrder"
  · exact addSub_g ⟨"ReadingOrder", [], none, []⟩ "OrderedGroup" _ _ (orderedGroup_g ro roa) vc_ro_og (Or.inl sg_ro_og)
  · rw [hp]; exact vc_page_ro
  · rw [hp]; exact Or.inr ⟨sg_page_ro, hc⟩

theorem addReadingOrder_tag (g : Bool) (page : Xml) (ro : RO) (roa : PyVal) (p' : Xml)
    (h : addReadingOrder g page ro roa = .ok p') : p'.tag = page.tag := by
  unfold addReadingOrder at h
  cases hg : guardValid g page.tag "ReadingOrder" .ValueError with
  | error e => simp [hg] at h
  | ok u => simp only [hg, ok_bind] at h; exact addSub_tag g page _ _ p' h

theorem scanOrientation_keeps (page : Xml) (o : PyVal) (p' : Xml) (h : scanOrientation page o = .ok p') :
    p'.tag = page.tag ∧ p'.children = page.children := by
  unfold scanOrientation at h
  split at h
  · cases hn : needStr o with
    | error e => simp [hn] at h
    | ok v => simp [hn] at h; rw [← h]; exact ⟨rfl, rfl⟩
  · simp only [pure_eq_ok, Except.ok.injEq] at h; rw [← h]; exact ⟨rfl, rfl⟩

theorem scanReadingOrder_tag (g : Bool) (page : Xml) (ro : RO) (roa : PyVal) (p' : Xml)
    (h : scanReadingOrder g page ro roa = .ok p') : p'.tag = page.tag := by
  unfold scanReadingOrder at h
  split at h
  · exact addReadingOrder_tag g page ro roa p' h
  · simp only [pure_eq_ok, Except.ok.injEq] at h; rw [← h]

theorem addScan_g (page : Xml) (s : Scan) (hp : page.tag = "Page") (hc : page.children = [])
    (ht : s.tables = []) (hr : noTablesL s.regions = true) : addScan true page s = addScan false page s := by
  unfold addScan
  cases ho : scanOrientation page s.orientation with
  | error e => rfl
  | ok page1 =>
    obtain ⟨h1t, h1c⟩ := scanOrientation_keeps page s.orientation page1 ho
    simp only [ok_bind, ht, foldAdd]
    have hro : scanReadingOrder true page1 s.ro s.roa = scanReadingOrder false page1 s.ro s.roa := by
      unfold scanReadingOrder
      split
      · exact addReadingOrder_g page1 s.ro s.roa (by rw [h1t, hp]) (by simp [hasChild, h1c, hc])
      · rfl
    rw [hro]
    cases hq : scanReadingOrder false page1 s.ro s.roa with
    | error e => rfl
    | ok page2 =>
      have h2 : page2.tag = "Page" := by rw [scanReadingOrder_tag false page1 s.ro s.roa page2 hq, h1t, hp]
      simp only [ok_bind]
      rw [addRegions_g s.regions page2 (Or.inl h2) hr]

/-- make_empty_pagexml: the Metadata fields and the Page check -/
theorem mdField_g (md : Meta) (m : Xml) (field : String) (hm : m.tag = "Metadata")
    (hf : field = "Creator" ∨ field = "Created" ∨ field = "LastChange")
    (hc : field = "Created" → hasChild m "Created" = false) :
    mdField true md m field = mdField false md m field := by
  unfold mdField
  cases alookup (.s field) md with
  | none => rfl
  | some v =>
    simp only
    apply addSub_g m field _ _ rfl
    · rw [hm]; rcases hf with rfl | rfl | rfl <;> decide
    · rw [hm]
      rcases hf with rfl | rfl | rfl
      · exact Or.inl (by decide)
      · exact Or.inr ⟨by decide, hc rfl⟩
      · exact Or.inl (by decide)

theorem mdField_tag (g : Bool) (md : Meta) (m : Xml) (field : String) (m' : Xml) (h : mdField g md m field = .ok m') :
    m'.tag = m.tag := by
  unfold mdField at h
  cases hl : alookup (.s field) md with
  | none => simp only [hl, Except.ok.injEq] at h; rw [← h]
  | some v => simp only [hl] at h; exact addSub_tag g m _ _ m' h

theorem mdField_creator_keeps (md : Meta) (m' : Xml)
    (h : mdField false md ⟨"Metadata", [], none, []⟩ "Creator" = .ok m') : hasChild m' "Created" = false := by
  unfold mdField at h
  cases hl : alookup (.s "Creator") md with
  | none => simp only [hl, Except.ok.injEq] at h; rw [← h]; rfl
  | some v =>
    simp only [hl, addSub, checkAdd, Bool.false_eq_true, if_false, ok_bind, pure_eq_ok, fieldElem] at h
    cases hn : pyStr v with
    | error e => simp [hn] at h
    | ok t => simp [hn] at h; rw [← h]; simp [hasChild, append]

theorem emptyPagexml_g (md : Meta) (w h : Option Int) : emptyPagexml true md w h = emptyPagexml false md w h := by
  unfold emptyPagexml
  simp only [foldAdd]
  rw [mdField_g md ⟨"Metadata", [], none, []⟩ "Creator" rfl (Or.inl rfl) (by intro h; exact absurd h (by decide))]
  cases h1 : mdField false md ⟨"Metadata", [], none, []⟩ "Creator" with
  | error e => rfl
  | ok m1 =>
    have hm1 : m1.tag = "Metadata" := mdField_tag false md _ _ m1 h1
    simp only [ok_bind]
    rw [mdField_g md m1 "Created" hm1 (Or.inr (Or.inl rfl)) (fun _ => mdField_creator_keeps md m1 h1)]
    cases h2 : mdField false md m1 "Created" with
    | error e => rfl
    | ok m2 =>
      have hm2 : m2.tag = "Metadata" := by rw [mdField_tag false md _ _ m2 h2, hm1]
      simp only [ok_bind]
      rw [mdField_g md m2 "LastChange" hm2 (Or.inr (Or.inr rfl)) (by intro h; exact absurd h (by decide))]
      cases h3 : mdField false md m2 "LastChange" with
      | error e => rfl
      | ok m3 =>
        have hm3 : m3.tag = "Metadata" := by rw [mdField_tag false md _ _ m3 h3, hm2]
        simp only [ok_bind]
        have hck : checkAdd true ⟨"PcGts", [(Gen.xsiSchemaLocationAttr, Gen.schemaLocation)], none, [m3]⟩ "Page" = .ok () :=
          checkAdd_ok _ _ vc_pcgts_page (Or.inr ⟨sg_pcgts_page, by simp [hasChild, hm3]⟩)
        simp only [hck, checkAdd_false]

theorem foldAdd_mdField_tag (g : Bool) (md : Meta) (fs : List String) (m m' : Xml)
    (h : foldAdd (mdField g md) m fs = .ok m') : m'.tag = m.tag :=
  foldAdd_tag _ (fun p a p' hp => mdField_tag g md p a p' hp) fs m m' h

/-- what make_empty_pagexml returns: a PcGts root holding one Metadata element, and a fresh Page element -/
theorem emptyPagexml_spec (g : Bool) (md : Meta) (w h : Option Int) (root page : Xml)
    (he : emptyPagexml g md w h = .ok (root, page)) :
    page.tag = "Page" ∧ page.children = [] ∧ root.tag = "PcGts" ∧ (∃ m, root.children = [m] ∧ m.tag = "Metadata") := by
  unfold emptyPagexml at he
  cases h1 : foldAdd (mdField g md) ⟨"Metadata", [], none, []⟩ ["Creator", "Created", "LastChange"] with
  | error e => simp [h1] at he
  | ok m =>
    have hm := foldAdd_mdField_tag g md _ _ m h1
    simp only [h1, ok_bind] at he
    cases h2 : fnameAttr md with
    | error e => simp [h2] at he
    | ok fname =>
      simp only [h2, ok_bind] at he
      cases h3 : checkAdd g ⟨"PcGts", [(Gen.xsiSchemaLocationAttr, Gen.schemaLocation)], none, [m]⟩ "Page" with
      | error e => simp [h3] at he
      | ok u =>
        simp only [h3, ok_bind, pure_eq_ok, Except.ok.injEq, Prod.mk.injEq] at he
        obtain ⟨hr, hp⟩ := he
        subst hr; subst hp
        exact ⟨rfl, rfl, rfl, m, rfl, hm⟩

theorem toPagexml_g (h : Hdr) (fill fill' : Xml → Res Xml)
    (hfill : ∀ page : Xml, page.tag = "Page" → page.children = [] → fill page = fill' page) :
    toPagexml true h fill = toPagexml false h fill' := by
  unfold toPagexml
  cases hw : imageDim h.md "scan_width" h.coords (·.1) with
  | error e => rfl
  | ok w =>
    cases hh : imageDim h.md "scan_height" h.coords (·.2) with
    | error e => rfl
    | ok ht =>
      simp only [ok_bind]
      rw [emptyPagexml_g]
      cases he : emptyPagexml false h.md w ht with
      | error e => rfl
      | ok rp =>
        obtain ⟨root, page⟩ := rp
        obtain ⟨hp, hc, _, _⟩ := emptyPagexml_spec false h.md w ht root page he
        simp only [ok_bind, hfill page hp hc]

/-! ### `C07_structure`: every parent/child pair of an exported tree satisfies the structure rules -/

mutual
/-- every element sits under a parent that `is_valid_pagexml_sub_element` allows -/
def validTree : Xml → Bool
  | ⟨tag, _, _, children⟩ => validKids tag children
def validKids (ptag : String) : List Xml → Bool
  | [] => true
  | c :: cs => (match validChild ptag c.tag with | .ok true => true | _ => false) && validTree c && validKids ptag cs
end

theorem validKids_append (t : String) (a b : List Xml) : validKids t (a ++ b) = (validKids t a && validKids t b) := by
  induction a with
  | nil => simp [validKids]
  | cons x a ih => simp [validKids, ih, Bool.and_assoc]

theorem validTree_eq (x : Xml) : validTree x = validKids x.tag x.children := by
  obtain ⟨tag, attrs, text, children⟩ := x; simp [validTree]

theorem validTree_append (p c : Xml) (hp : validTree p = true) (hv : validChild p.tag c.tag = .ok true)
    (hc : validTree c = true) : validTree (append p c) = true := by
  rw [validTree_eq] at hp ⊢
  simp only [append, validKids_append, hp, validKids, hv, hc, Bool.and_self]

theorem validTree_attrs (p : Xml) (a : List (String × String)) (hp : validTree p = true) :
    validTree { p with attrs := a } = true := by
  rw [validTree_eq] at hp ⊢; exact hp

/-- a passed check means the pair is valid -/
theorem checkAdd_valid (p : Xml) (name : String) (h : checkAdd true p name = .ok ()) :
    validChild p.tag name = .ok true := by
  unfold checkAdd at h
  cases hv : validChild p.tag name with
  | error e => simp [hv] at h
  | ok b => cases b with
    | true => rfl
    | false => simp [hv] at h

theorem addSub_valid (p : Xml) (name : String) (b : Res Xml) (p' : Xml) (h : addSub true p name b = .ok p')
    (hp : validTree p = true) (hb : ∀ c, b = .ok c → validTree c = true ∧ c.tag = name) : validTree p' = true := by
  unfold addSub at h
  cases hc : checkAdd true p name with
  | error e => simp [hc] at h
  | ok u =>
    cases hbc : b with
    | error e => simp [hc, hbc] at h
    | ok c =>
      simp [hc, hbc] at h
      rw [← h]
      obtain ⟨hvc, htag⟩ := hb c hbc
      exact validTree_append p c hp (by rw [htag]; exact checkAdd_valid p name hc) hvc

theorem foldAdd_valid {α} (f : Xml → α → Res Xml) (hf : ∀ p a p', f p a = .ok p' → validTree p = true → validTree p' = true) :
    ∀ (as : List α) (p p' : Xml), foldAdd f p as = .ok p' → validTree p = true → validTree p' = true := by
  intro as
  induction as with
  | nil => intro p p' h hp; simp [foldAdd] at h; rw [← h]; exact hp
  | cons a as ih =>
    intro p p' h hp
    simp only [foldAdd] at h
    cases hfa : f p a with
    | error e => simp [hfa] at h
    | ok q => simp [hfa] at h; exact ih q p' h (hf p a q hfa hp)

theorem textEquiv_valid (text : Option String) (conf : PyVal) (x : Xml) (h : textEquiv text conf = .ok x) :
    validTree x = true ∧ x.tag = "TextEquiv" := by
  unfold textEquiv at h
  cases ha : confAttr conf with
  | error e => simp [ha] at h
  | ok a =>
    simp only [ha, ok_bind, pure_eq_ok, Except.ok.injEq] at h
    rw [← h]
    simp [validTree, validKids, vc_te_unicode, vc_te_plain]

theorem coordsChild_valid (name : String) (coords : Option Pts) (c : List Xml)
    (h : coordsChild true name coords = .ok c) : validKids name c = true := by
  cases coords with
  | none => simp [coordsChild] at h; rw [h]; rfl
  | some ps =>
    simp only [coordsChild, Bool.not_true, Bool.false_or] at h
    split at h
    · rename_i hm
      simp only [Except.ok.injEq] at h; rw [← h]
      have := vc_coords name (by simpa using hm)
      simp [validKids, pointsElem, this, validTree]
    · cases h

theorem baselineChild_valid (name : String) (baseline : Option Pts) (c : List Xml)
    (h : baselineChild true name baseline = .ok c) : validKids name c = true := by
  cases baseline with
  | none => simp [baselineChild] at h; rw [h]; rfl
  | some ps =>
    simp only [baselineChild, Bool.not_true, Bool.false_or] at h
    split at h
    · rename_i hm
      simp only [Except.ok.injEq] at h; rw [← h]
      have := vc_baseline name (by simpa using hm)
      simp [validKids, pointsElem, this, validTree]
    · cases h

theorem textChild_valid (name : String) (coords baseline : Option Pts) (conf : PyVal) (text : Option String) (c : List Xml)
    (hn : (name = "Word" ∨ name = "TextLine") ∨ (text = none ∧ conf = .none))
    (h : textChild true name coords baseline conf text = .ok c) : validKids name c = true := by
  by_cases hnone : text = none ∧ conf = .none
  · obtain ⟨rfl, rfl⟩ := hnone
    simp [textChild] at h; rw [h]; rfl
  · have hn' : name = "Word" ∨ name = "TextLine" := by
      rcases hn with hn | hn
      · exact hn
      · exact absurd hn hnone
    have hself : Gen.textSelfTags.contains name = true := by
      rcases hn' with rfl | rfl <;> decide
    have hte : ∃ te, textEquiv text conf = .ok te ∧ c = [te] := by
      cases text <;> cases conf <;> simp_all [textChild] <;>
        (first
          | (cases hte : textEquiv _ _ with
              | error e => simp_all
              | ok te => simp_all))
    obtain ⟨te, hte, rfl⟩ := hte
    obtain ⟨hv, htag⟩ := textEquiv_valid _ _ te hte
    have := vc_textequiv name (by rcases hn' with rfl | rfl <;> simp)
    simp [validKids, htag, this, hv]

/-- the element make_pagexml_element returns for a word, a line, a region or a table region
    (a region / table without text argument) is valid below itself -/
theorem mkElement_valid (name : String) (id : PyVal) (custom : Option PyVal) (attrs : List (String × PyVal))
    (coords baseline : Option Pts) (text : Option String) (conf : PyVal) (x : Xml)
    (hn : (name = "Word" ∨ name = "TextLine") ∨ (text = none ∧ conf = .none))
    (h : mkElement true name id custom attrs coords baseline text conf = .ok x) : validTree x = true ∧ x.tag = name := by
  refine ⟨?_, mkElement_tag _ _ _ _ _ _ _ _ _ x h⟩
  unfold mkElement at h
  cases h0 : elemAttrs id custom attrs with
  | error e => simp [h0] at h
  | ok a =>
    cases h1 : coordsChild true name coords with
    | error e => simp [h0, h1] at h
    | ok c1 =>
      cases h2 : baselineChild true name baseline with
      | error e => simp [h0, h1, h2] at h
      | ok c2 =>
        cases h3 : textChild true name coords baseline conf text with
        | error e => simp [h0, h1, h2, h3] at h
        | ok c3 =>
          simp [h0, h1, h2, h3] at h
          rw [← h]
          simp only [validTree, validKids_append, Bool.and_eq_true]
          exact ⟨coordsChild_valid name coords c1 h1, baselineChild_valid name baseline c2 h2,
                 textChild_valid name coords baseline conf text c3 hn h3⟩

theorem addWord_valid (p : Xml) (w : Word) (p' : Xml) (h : addWord true p w = .ok p') (hp : validTree p = true) :
    validTree p' = true :=
  addSub_valid p "Word" _ p' h hp (fun c hc => mkElement_valid _ _ _ _ _ _ _ _ c (Or.inl (Or.inl rfl)) hc)

theorem lineBuild_valid (l : Line) (c : Xml)
    (hc : (do let e ← mkElement true "TextLine" l.h.id (some (customOf l.h.md)) [] l.h.coords l.baseline l.text l.conf
              foldAdd (addWord true) e l.words) = .ok c) : validTree c = true ∧ c.tag = "TextLine" := by
  cases he : mkElement true "TextLine" l.h.id (some (customOf l.h.md)) [] l.h.coords l.baseline l.text l.conf with
  | error e => simp [he] at hc
  | ok e =>
    simp only [he, ok_bind] at hc
    obtain ⟨hv, ht⟩ := mkElement_valid _ _ _ _ _ _ _ _ e (Or.inl (Or.inr rfl)) he
    exact ⟨foldAdd_valid _ addWord_valid l.words e c hc hv, by rw [foldAdd_tag _ (addWord_tag true) l.words e c hc, ht]⟩

theorem addLine_valid (p : Xml) (l : Line) (p' : Xml) (h : addLine true p l = .ok p') (hp : validTree p = true) :
    validTree p' = true :=
  addSub_valid p "TextLine" _ p' h hp (fun c hc => lineBuild_valid l c hc)

theorem addTable_valid (p : Xml) (t : Table) (p' : Xml) (h : addTable true p t = .ok p') (hp : validTree p = true) :
    validTree p' = true :=
  addSub_valid p "TableRegion" _ p' h hp (fun c hc => mkElement_valid _ _ _ _ _ _ _ _ c (Or.inr ⟨rfl, rfl⟩) hc)

mutual
theorem addRegion_valid : ∀ (r : Region) (p p' : Xml), addRegion true p r = .ok p' → validTree p = true →
    validTree p' = true
  | ⟨h, text, orientation, ro, roa, lines, regions, tables⟩, p, p', hh, hp => by
    unfold addRegion at hh
    refine addSub_valid p "TextRegion" _ p' hh hp (fun c hc => ?_)
    cases he : mkElement true "TextRegion" h.id (some (customOf h.md)) (docAttributes orientation) h.coords none none .none with
    | error e => simp [he] at hc
    | ok e =>
      obtain ⟨hv, ht⟩ := mkElement_valid _ _ _ _ _ _ _ _ e (Or.inr ⟨rfl, rfl⟩) he
      simp only [he, ok_bind] at hc
      cases hl : foldAdd (addLine true) e lines with
      | error e => simp [hl] at hc
      | ok e2 =>
        simp only [hl, ok_bind] at hc
        have hv2 := foldAdd_valid _ addLine_valid lines e e2 hl hv
        have ht2 : e2.tag = "TextRegion" := by rw [foldAdd_tag _ (addLine_tag true) lines e e2 hl, ht]
        cases hr : addRegions true e2 regions with
        | error e => simp [hr] at hc
        | ok e3 =>
          simp only [hr, ok_bind] at hc
          have hv3 := addRegions_valid regions e2 e3 hr hv2
          have ht3 : e3.tag = "TextRegion" := by rw [addRegions_tag true regions e2 e3 hr, ht2]
          exact ⟨foldAdd_valid _ addTable_valid tables e3 c hc hv3,
                 by rw [foldAdd_tag _ (addTable_tag true) tables e3 c hc, ht3]⟩
theorem addRegions_valid : ∀ (rs : List Region) (p p' : Xml), addRegions true p rs = .ok p' → validTree p = true →
    validTree p' = true
  | [], p, p', h, hp => by simp [addRegions] at h; rw [← h]; exact hp
  | r :: rs, p, p', h, hp => by
    simp only [addRegions] at h
    cases hr : addRegion true p r with
    | error e => simp [hr] at h
    | ok q => simp [hr] at h; exact addRegions_valid rs q p' h (addRegion_valid r p q hr hp)
end

theorem orderedGroup_valid (ro : RO) (roa : PyVal) (c : Xml) (h : orderedGroup true ro roa = .ok c) :
    validTree c = true ∧ c.tag = "OrderedGroup" := by
  unfold orderedGroup at h
  cases ha : roaAttrs roa with
  | error e => simp [ha] at h
  | ok attrs =>
    simp only [ha, ok_bind] at h
    refine ⟨foldAdd_valid _ (fun p a p' hpa hp => addSub_valid p "RegionRefIndexed" _ p' hpa hp (fun c hc => ?_)) ro _ c h
              (by simp [validTree, validKids]), by rw [foldAdd_tag _ (addRef_tag true) ro _ c h]⟩
    unfold refElem at hc
    cases hn : needStr a.2 with
    | error e => simp [hn] at hc
    | ok ref => simp [hn] at hc; rw [← hc]; simp [validTree, validKids]

theorem addReadingOrder_valid (page : Xml) (ro : RO) (roa : PyVal) (p' : Xml)
    (h : addReadingOrder true page ro roa = .ok p') (hp : validTree page = true) : validTree p' = true := by
  unfold addReadingOrder at h
  cases hg : guardValid true page.tag "ReadingOrder" .ValueError with
  | error e => simp [hg] at h
  | ok u =>
    simp only [hg, ok_bind] at h
    refine addSub_valid page "ReadingOrder" _ p' h hp (fun c hc => ?_)
    exact ⟨addSub_valid _ "OrderedGroup" _ c hc (by simp [validTree, validKids]) (fun c' hc' => orderedGroup_valid ro roa c' hc'),
           by rw [addSub_tag true _ _ _ c hc]⟩

theorem addScan_valid (page : Xml) (s : Scan) (p' : Xml) (h : addScan true page s = .ok p')
    (hp : validTree page = true) : validTree p' = true := by
  unfold addScan at h
  cases ho : scanOrientation page s.orientation with
  | error e => simp [ho] at h
  | ok page1 =>
    have hv1 : validTree page1 = true := by
      unfold scanOrientation at ho
      split at ho
      · cases hn : needStr s.orientation with
        | error e => simp [hn] at ho
        | ok v => simp [hn] at ho; rw [← ho]; exact validTree_attrs page _ hp
      · simp only [pure_eq_ok, Except.ok.injEq] at ho; rw [← ho]; exact hp
    simp only [ho, ok_bind] at h
    cases hq : scanReadingOrder true page1 s.ro s.roa with
    | error e => simp [hq] at h
    | ok page2 =>
      have hv2 : validTree page2 = true := by
        unfold scanReadingOrder at hq
        split at hq
        · exact addReadingOrder_valid page1 s.ro s.roa page2 hq hv1
        · simp only [pure_eq_ok, Except.ok.injEq] at hq; rw [← hq]; exact hv1
      simp only [hq, ok_bind] at h
      cases hr : addRegions true page2 s.regions with
      | error e => simp [hr] at h
      | ok page3 =>
        simp only [hr, ok_bind] at h
        exact foldAdd_valid _ addTable_valid s.tables page3 p' h (addRegions_valid s.regions page2 page3 hr hv2)

theorem addScan_tag (g : Bool) (page : Xml) (s : Scan) (p' : Xml) (h : addScan g page s = .ok p') : p'.tag = page.tag := by
  unfold addScan at h
  cases ho : scanOrientation page s.orientation with
  | error e => simp [ho] at h
  | ok page1 =>
    simp only [ho, ok_bind] at h
    cases hq : scanReadingOrder g page1 s.ro s.roa with
    | error e => simp [hq] at h
    | ok page2 =>
      simp only [hq, ok_bind] at h
      cases hr : addRegions g page2 s.regions with
      | error e => simp [hr] at h
      | ok page3 =>
        simp only [hr, ok_bind] at h
        rw [foldAdd_tag _ (addTable_tag g) s.tables page3 p' h, addRegions_tag g s.regions page2 page3 hr,
            scanReadingOrder_tag g page1 s.ro s.roa page2 hq, (scanOrientation_keeps page s.orientation page1 ho).1]

theorem mdField_valid (md : Meta) (m : Xml) (field : String) (m' : Xml) (h : mdField true md m field = .ok m')
    (hm : validTree m = true) : validTree m' = true := by
  unfold mdField at h
  cases hl : alookup (.s field) md with
  | none => simp only [hl, Except.ok.injEq] at h; rw [← h]; exact hm
  | some v =>
    simp only [hl] at h
    refine addSub_valid m field _ m' h hm (fun c hc => ?_)
    unfold fieldElem at hc
    cases hn : pyStr v with
    | error e => simp [hn] at hc
    | ok t => simp [hn] at hc; rw [← hc]; simp [validTree, validKids]

/-- the whole tree `to_pagexml` returns: PcGts root, children exactly [Metadata, Page], every pair valid -/
theorem toPagexml_spec (h : Hdr) (fill : Xml → Res Xml) (x : Xml)
    (hfill : ∀ page p', fill page = .ok p' → validTree page = true → validTree p' = true ∧ p'.tag = page.tag)
    (hx : toPagexml true h fill = .ok x) :
    x.tag = "PcGts" ∧ x.children.map (·.tag) = ["Metadata", "Page"] ∧ validTree x = true := by
  unfold toPagexml at hx
  cases hw : imageDim h.md "scan_width" h.coords (·.1) with
  | error e => simp [hw] at hx
  | ok w =>
    cases hh : imageDim h.md "scan_height" h.coords (·.2) with
    | error e => simp [hw, hh] at hx
    | ok ht =>
      simp only [hw, hh, ok_bind] at hx
      cases he : emptyPagexml true h.md w ht with
      | error e => simp [he] at hx
      | ok rp =>
        obtain ⟨root, page⟩ := rp
        obtain ⟨hpt, hpc, hrt, m, hrc, hmt⟩ := emptyPagexml_spec true h.md w ht root page he
        simp only [he, ok_bind] at hx
        cases hf : fill page with
        | error e => simp [hf] at hx
        | ok page' =>
          simp only [hf, ok_bind, pure_eq_ok, Except.ok.injEq] at hx
          have hpv : validTree page = true := by rw [validTree_eq, hpc]; rfl
          obtain ⟨hv', ht'⟩ := hfill page page' hf hpv
          -- the Metadata element is valid: rebuild it from emptyPagexml
          have hmv : validTree m = true := by
            unfold emptyPagexml at he
            cases h1 : foldAdd (mdField true h.md) ⟨"Metadata", [], none, []⟩ ["Creator", "Created", "LastChange"] with
            | error e => simp [h1] at he
            | ok m0 =>
              simp only [h1, ok_bind] at he
              cases h2 : fnameAttr h.md with
              | error e => simp [h2] at he
              | ok fname =>
                simp only [h2, ok_bind] at he
                cases h3 : checkAdd true ⟨"PcGts", [(Gen.xsiSchemaLocationAttr, Gen.schemaLocation)], none, [m0]⟩ "Page" with
                | error e => simp [h3] at he
                | ok u =>
                  simp only [h3, ok_bind, pure_eq_ok, Except.ok.injEq, Prod.mk.injEq] at he
                  have : root.children = [m0] := by rw [← he.1]
                  rw [hrc] at this
                  cases this
                  exact foldAdd_valid _ (mdField_valid h.md) _ _ m h1 (by simp [validTree, validKids])
          rw [← hx]
          refine ⟨by simp [append, hrt], by simp [append, hrc, hmt, ht', hpt], ?_⟩
          rw [validTree_eq]
          simp only [append, hrt, hrc, List.cons_append, List.nil_append, validKids, hmt, vc_pcgts_md, hmv, ht', hpt,
            vc_pcgts_page, hv', Bool.and_self]

/-! ### the wrappers of Line / Word `_to_pagexml` -/

def lineFill (g : Bool) (l : Line) (page : Xml) : Res Xml :=
  addSub g page "TextRegion" (do addLine g (← dummyRegion g l.h.coords) l)

def wordFill (g : Bool) (w : Word) (page : Xml) : Res Xml :=
  addSub g page "TextRegion" (do
    let tr ← dummyRegion g w.h.coords
    addSub g tr "TextLine" (do
      let ln ← mkElement g "TextLine" .none (some (.dict [])) [] w.h.coords none none .none
      addWord g ln w))

theorem dummyRegion_g (c : Option Pts) : dummyRegion true c = dummyRegion false c := mkElement_g_region _ _ _ _

theorem lineFill_g (l : Line) (page : Xml) (hp : page.tag = "Page") : lineFill true l page = lineFill false l page := by
  unfold lineFill
  apply addSub_g page "TextRegion"
  · rw [dummyRegion_g]
    cases hd : dummyRegion false l.h.coords with
    | error e => rfl
    | ok tr => simp only [ok_bind]; exact addLine_g tr l (mkElement_tag _ _ _ _ _ _ _ _ _ tr hd)
  · rw [hp]; exact vc_page_region
  · rw [hp]; exact Or.inl sg_page_region

theorem wordFill_g (w : Word) (page : Xml) (hp : page.tag = "Page") : wordFill true w page = wordFill false w page := by
  unfold wordFill
  apply addSub_g page "TextRegion"
  · rw [dummyRegion_g]
    cases hd : dummyRegion false w.h.coords with
    | error e => rfl
    | ok tr =>
      have htr : tr.tag = "TextRegion" := mkElement_tag _ _ _ _ _ _ _ _ _ tr hd
      simp only [ok_bind]
      apply addSub_g tr "TextLine"
      · rw [mkElement_g_line]
        cases hl : mkElement false "TextLine" .none (some (.dict [])) [] w.h.coords none none .none with
        | error e => rfl
        | ok ln => simp only [ok_bind]; exact addWord_g ln w (mkElement_tag _ _ _ _ _ _ _ _ _ ln hl)
      · rw [htr]; exact vc_region_line
      · rw [htr]; exact Or.inl sg_region_line
  · rw [hp]; exact vc_page_region
  · rw [hp]; exact Or.inl sg_page_region

theorem lineFill_valid (l : Line) (page p' : Xml) (h : lineFill true l page = .ok p') (hp : validTree page = true) :
    validTree p' = true ∧ p'.tag = page.tag := by
  refine ⟨?_, addSub_tag true page _ _ p' h⟩
  unfold lineFill at h
  refine addSub_valid page "TextRegion" _ p' h hp (fun c hc => ?_)
  cases hd : dummyRegion true l.h.coords with
  | error e => simp [hd] at hc
  | ok tr =>
    obtain ⟨hv, ht⟩ := mkElement_valid _ _ _ _ _ _ _ _ tr (Or.inr ⟨rfl, rfl⟩) hd
    simp only [hd, ok_bind] at hc
    exact ⟨addLine_valid tr l c hc hv, by rw [addLine_tag true tr l c hc, ht]⟩

theorem wordFill_valid (w : Word) (page p' : Xml) (h : wordFill true w page = .ok p') (hp : validTree page = true) :
    validTree p' = true ∧ p'.tag = page.tag := by
  refine ⟨?_, addSub_tag true page _ _ p' h⟩
  unfold wordFill at h
  refine addSub_valid page "TextRegion" _ p' h hp (fun c hc => ?_)
  cases hd : dummyRegion true w.h.coords with
  | error e => simp [hd] at hc
  | ok tr =>
    obtain ⟨hv, ht⟩ := mkElement_valid _ _ _ _ _ _ _ _ tr (Or.inr ⟨rfl, rfl⟩) hd
    simp only [hd, ok_bind] at hc
    refine ⟨addSub_valid tr "TextLine" _ c hc hv (fun c' hc' => ?_), by rw [addSub_tag true tr _ _ c hc, ht]⟩
    cases hl : mkElement true "TextLine" .none (some (.dict [])) [] w.h.coords none none .none with
    | error e => simp [hl] at hc'
    | ok ln =>
      obtain ⟨hvl, htl⟩ := mkElement_valid _ _ _ _ _ _ _ _ ln (Or.inl (Or.inr rfl)) hl
      simp only [hl, ok_bind] at hc'
      exact ⟨addWord_valid ln w c' hc' hvl, by rw [addWord_tag true ln w c' hc', htl]⟩

end Pagexml.C07
