/-
The loop of `read_pagexml_docs_from_line_file` on the records of well-formed documents:
a new scan per run of equal document ids, a new region per run of equal region ids, every
line added to the current region.
-/
import PagexmlModel.Lemmas.C14Tsv
import PagexmlModel.Props.C03

namespace Pagexml.C14
open Pagexml.C03

/-! ### boxes -/

/-- the `Coords` object `transform_box_to_coords` builds for a box -/
def rect (b : Box) : Coords :=
  { points := [(b.x, b.y), (b.x + b.w, b.y), (b.x + b.w, b.y + b.h), (b.x, b.y + b.h)],
    x := b.x, y := b.y, w := b.w, h := b.h }

theorem mkCoords_rect (x y w h : Int) (hw : 0 ≤ w) (hh : 0 ≤ h) :
    mkCoords [(x, y), (x + w, y), (x + w, y + h), (x, y + h)] =
      .ok { points := [(x, y), (x + w, y), (x + w, y + h), (x, y + h)], x := x, y := y, w := w, h := h } := by
  have h1 : min (min (min x (x + w)) (x + w)) x = x := by omega
  have h2 : min (min (min y y) (y + h)) (y + h) = y := by omega
  have h3 : max (max (max x (x + w)) (x + w)) x = x + w := by omega
  have h4 : max (max (max y y) (y + h)) (y + h) = y + h := by omega
  simp only [mkCoords, minL, maxL, List.map, List.foldl, bind, Except.bind, pure, Except.pure, h1, h2, h3, h4]
  congr 2 <;> omega

def Box.NonNeg (b : Box) : Prop := 0 ≤ b.w ∧ 0 ≤ b.h

theorem transformBox_bboxString (b : Box) (h : b.NonNeg) :
    transformBox (bboxString b) = .ok (rect b) := by
  unfold transformBox bboxString
  have e : showInt b.x ++ [','] ++ showInt b.y ++ [','] ++ showInt b.w ++ [','] ++ showInt b.h =
      showInt b.x ++ ',' :: (showInt b.y ++ ',' :: (showInt b.w ++ ',' :: showInt b.h)) := by simp
  rw [e, splitOn_append_sep ',' _ _ (showInt_no_comma _), splitOn_append_sep ',' _ _ (showInt_no_comma _),
    splitOn_append_sep ',' _ _ (showInt_no_comma _), splitOn_no_sep ',' _ (showInt_no_comma _)]
  simp only [mapMOpt, pyInt_showInt]
  exact mkCoords_rect b.x b.y b.w b.h h.1 h.2

theorem boxOfCoords_rect (b : Box) : boxOfCoords (rect b) = b := rfl

/-! ### the records of well-formed documents, as a plan -/

structure LItem where
  id : Str
  text : Str
  box : Box

structure RItem where
  id : Str
  box : Box
  lines : List LItem

structure DItem where
  id : Str
  box : Box
  regions : List RItem

/-- all seven fields of line `l` of region `t` of document `d`, under the column names of the
    statement -/
def nrecFull (d : DItem) (t : RItem) (l : LItem) : DRec :=
  [(sDocId, d.id), (sRegionId, t.id), (sLineId, l.id), (sText, l.text),
   (sDocBox, bboxString d.box), (sRegionBox, bboxString t.box), (sLineBox, bboxString l.box)]

/-- the value of column `h` in a record read from a file ('' when there is no such column) -/
def dfield (r : DRec) (h : Str) : Str :=
  match lookupKey h r with
  | .ok v => v
  | .error _ => []

/-- the record read back from a line file written under the header list `hs` (any columns, in any
    order) for line `l` of region `t` of document `d` -/
def nrec (hs : List Str) (d : DItem) (t : RItem) (l : LItem) : DRec :=
  hs.map (fun h => (h, dfield (nrecFull d t l) h))

def RItem.recs (hs : List Str) (d : DItem) (t : RItem) : List DRec := t.lines.map (nrec hs d t)
def DItem.recs (hs : List Str) (d : DItem) : List DRec := d.regions.flatMap (RItem.recs hs d)

/-- looking a header up in a record whose value is a function of the header -/
theorem lookupKey_map_self {β} (hs : List Str) (f : Str → β) (k : Str) (hk : k ∈ hs) :
    lookupKey k (hs.map (fun h => (h, f h))) = .ok (f k) := by
  induction hs with
  | nil => simp at hk
  | cons a as ih =>
    simp only [List.map_cons, lookupKey]
    by_cases e : a = k
    · simp [e]
    · simp only [e, if_false]
      exact ih (by simpa [Ne.symm e] using hk)

/-- the header list holds the seven columns the rebuilding loop looks up -/
def HasColumns (hs : List Str) : Prop := ∀ k ∈ columnNames, k ∈ hs

section
variable {hs : List Str} (hk : HasColumns hs)
include hk

theorem lk_docId (d t l) : lookupKey sDocId (nrec hs d t l) = .ok d.id := by
  rw [nrec, lookupKey_map_self _ _ _ (hk _ (by simp [columnNames, baseHeaders]))]; rfl
theorem lk_regionId (d t l) : lookupKey sRegionId (nrec hs d t l) = .ok t.id := by
  rw [nrec, lookupKey_map_self _ _ _ (hk _ (by simp [columnNames, baseHeaders]))]
  simp [dfield, lookupKey, nrecFull, sDocId, sRegionId]
theorem lk_lineId (d t l) : lookupKey sLineId (nrec hs d t l) = .ok l.id := by
  rw [nrec, lookupKey_map_self _ _ _ (hk _ (by simp [columnNames, baseHeaders]))]
  simp [dfield, lookupKey, nrecFull, sDocId, sRegionId, sLineId]
theorem lk_text (d t l) : lookupKey sText (nrec hs d t l) = .ok l.text := by
  rw [nrec, lookupKey_map_self _ _ _ (hk _ (by simp [columnNames, baseHeaders]))]
  simp [dfield, lookupKey, nrecFull, sDocId, sRegionId, sLineId, sText]
theorem lk_docBox (d t l) : lookupKey sDocBox (nrec hs d t l) = .ok (bboxString d.box) := by
  rw [nrec, lookupKey_map_self _ _ _ (hk _ (by simp [columnNames, boxHeaders]))]
  simp [dfield, lookupKey, nrecFull, sDocId, sRegionId, sLineId, sText, sDocBox]
theorem lk_regionBox (d t l) : lookupKey sRegionBox (nrec hs d t l) = .ok (bboxString t.box) := by
  rw [nrec, lookupKey_map_self _ _ _ (hk _ (by simp [columnNames, boxHeaders]))]
  simp [dfield, lookupKey, nrecFull, sDocId, sRegionId, sLineId, sText, sDocBox, sRegionBox]
theorem lk_lineBox (d t l) : lookupKey sLineBox (nrec hs d t l) = .ok (bboxString l.box) := by
  rw [nrec, lookupKey_map_self _ _ _ (hk _ (by simp [columnNames, boxHeaders]))]
  simp [dfield, lookupKey, nrecFull, sDocId, sRegionId, sLineId, sText, sDocBox, sRegionBox, sLineBox]

end

/-! ### what the rebuilt objects must be -/

def expLine (l : LItem) : RLine := { id := l.id, text := l.text, coords := some (rect l.box) }

def regionBox (ls : List LItem) : Option Box :=
  match deriveBox (ls.map expLine) with | .ok b => some b | .error _ => none

def expRegion (t : RItem) : RRegion :=
  { id := t.id, box := regionBox t.lines, lines := t.lines.map expLine }

def expDoc (d : DItem) : RDoc :=
  { id := d.id, coords := some (rect d.box), regions := d.regions.map expRegion }

theorem mapM_coords (ls : List LItem) :
    (ls.map expLine).mapM RLine.coordsOrErr = .ok (ls.map (fun l => rect l.box)) := by
  induction ls with
  | nil => rfl
  | cons l ls ih => simp only [List.map_cons, List.mapM_cons, expLine, RLine.coordsOrErr, ih]; rfl

/-- deriving the region box never fails on lines that have coordinates -/
theorem deriveBox_ok (ls : List LItem) (hne : ls ≠ []) : ∃ b, deriveBox (ls.map expLine) = .ok b := by
  unfold deriveBox
  rw [mapM_coords]
  have hpts : (ls.map (fun l => rect l.box)).flatMap (·.points) ≠ [] := by
    cases ls with
    | nil => exact absurd rfl hne
    | cons l ls => simp [rect]
  obtain ⟨c, hc, _⟩ := C03_exact_box _ hpts
  exact ⟨boxOfCoords c, by simp [bind, Except.bind, hc, pure, Except.pure]⟩

theorem regionBox_spec (ls : List LItem) (hne : ls ≠ []) :
    ∃ b, deriveBox (ls.map expLine) = .ok b ∧ regionBox ls = some b := by
  obtain ⟨b, hb⟩ := deriveBox_ok ls hne
  exact ⟨b, hb, by simp [regionBox, hb]⟩

/-! ### single steps of the loop -/

theorem addLine_last (pre : List RRegion) (R : RRegion) (l : RLine) (b : Box)
    (hb : deriveBox (R.lines ++ [l]) = .ok b) :
    addLine (pre ++ [R]) l = .ok (pre ++ [{ R with lines := R.lines ++ [l], box := some b }]) := by
  simp [addLine, hb, bind, Except.bind, pure, Except.pure]

/-- the loop body on a well-formed record, all look-ups and box parsers evaluated -/
theorem rebuildAux_step {hs : List Str} (hk : HasColumns hs)
    (cur : Option RDoc) (d : DItem) (t : RItem) (l : LItem) (rs : LStream DRec)
    (hd : d.box.NonNeg) (ht : t.box.NonNeg) (hl : l.box.NonNeg) :
    rebuildAux true cur (.ok (nrec hs d t l) :: rs) =
      (let newDoc := match cur with | none => true | some c => decide (c.id ≠ d.id)
       let yielded := if newDoc then (match cur with | none => [] | some c => [c]) else []
       let doc : RDoc := if newDoc then { id := d.id, coords := some (rect d.box), regions := [] }
                         else (match cur with | some c => c | none => { id := d.id, coords := some (rect d.box), regions := [] })
       let newTr := match doc.regions.getLast? with | none => true | some r => decide (r.id ≠ t.id)
       let regions := if newTr then doc.regions ++ [{ id := t.id, box := some t.box, lines := [] }] else doc.regions
       (addLine regions (expLine l)).bind (fun regions =>
         (rebuildAux true (some { doc with regions := regions }) rs).bind (fun rest =>
           .ok (yielded ++ rest)))) := by
  simp only [rebuildAux, lk_docId hk, lk_regionId hk, lk_lineId hk, lk_text hk, lk_docBox hk, lk_regionBox hk,
    lk_lineBox hk,
    transformBox_bboxString _ hd, transformBox_bboxString _ ht, transformBox_bboxString _ hl,
    bind, Except.bind, pure, Except.pure, if_true, Option.map, boxOfCoords_rect, expLine]
  rfl

/-! ### runs -/

/-- consecutive entries differ -/
def AdjNe : List Str → Prop
  | [] => True
  | [_] => True
  | a :: b :: rest => a ≠ b ∧ AdjNe (b :: rest)

def RItem.OK (t : RItem) : Prop := t.box.NonNeg ∧ t.lines ≠ [] ∧ ∀ l ∈ t.lines, l.box.NonNeg

def DItem.OK (d : DItem) : Prop :=
  d.box.NonNeg ∧ d.regions ≠ [] ∧ AdjNe (d.regions.map (·.id)) ∧ ∀ t ∈ d.regions, t.OK

/-- further lines of the current region are appended to it -/
theorem run_lines {hs : List Str} (hk : HasColumns hs) (d : DItem) (t : RItem) (hd : d.box.NonNeg) (ht : t.box.NonNeg)
    (ls : List LItem) (hls : ∀ l ∈ ls, l.box.NonNeg)
    (done : List LItem) (hdone : done ≠ []) (coords : Option Coords) (pre : List RRegion)
    (rest : LStream DRec) :
    rebuildAux true (some { id := d.id, coords := coords,
                            regions := pre ++ [⟨t.id, regionBox done, done.map expLine⟩] })
        ((ls.map (nrec hs d t)).map .ok ++ rest) =
    rebuildAux true (some { id := d.id, coords := coords,
                            regions := pre ++ [⟨t.id, regionBox (done ++ ls), (done ++ ls).map expLine⟩] })
        rest := by
  induction ls generalizing done with
  | nil => simp
  | cons l ls ih =>
    simp only [List.map_cons, List.cons_append]
    rw [rebuildAux_step hk _ d t l _ hd ht (hls l (by simp))]
    obtain ⟨b, hb, hrb⟩ := regionBox_spec (done ++ [l]) (by simp)
    have hb' : deriveBox ((⟨t.id, regionBox done, done.map expLine⟩ : RRegion).lines ++ [expLine l]) = .ok b := by
      simpa using hb
    simp only [ne_eq, not_true_eq_false, decide_false, List.getLast?_append, List.getLast?_singleton,
      Option.some_or, Bool.false_eq_true, if_false]
    rw [addLine_last pre _ (expLine l) b hb']
    simp only [Except.bind]
    have e : (done.map expLine ++ [expLine l]) = (done ++ [l]).map expLine := by simp
    rw [e, ← hrb, ih (fun x hx => hls x (by simp [hx])) (done ++ [l]) (by simp)]
    simp
    cases rebuildAux true _ rest <;> rfl

/-- a region whose id differs from the current one is opened and filled -/
theorem run_region {hs : List Str} (hk : HasColumns hs) (d : DItem) (t : RItem) (hd : d.box.NonNeg) (ht : t.OK)
    (coords : Option Coords) (pre : List RRegion)
    (hpre : ∀ r, pre.getLast? = some r → r.id ≠ t.id) (rest : LStream DRec) :
    rebuildAux true (some { id := d.id, coords := coords, regions := pre })
        ((RItem.recs hs d t).map .ok ++ rest) =
    rebuildAux true (some { id := d.id, coords := coords, regions := pre ++ [expRegion t] }) rest := by
  obtain ⟨htb, hne, hls⟩ := ht
  unfold RItem.recs expRegion
  cases hl : t.lines with
  | nil => exact absurd hl hne
  | cons l0 ls =>
    rw [hl] at hls
    simp only [List.map_cons, List.cons_append]
    rw [rebuildAux_step hk _ d t l0 _ hd htb (hls l0 (by simp))]
    obtain ⟨b, hb, hrb⟩ := regionBox_spec [l0] (by simp)
    have hnew : (match pre.getLast? with | none => true | some r => decide (r.id ≠ t.id)) = true := by
      cases hp : pre.getLast? with
      | none => rfl
      | some r => simp [hpre r hp]
    have hb' : deriveBox ((⟨t.id, some t.box, []⟩ : RRegion).lines ++ [expLine l0]) = .ok b := by
      simpa using hb
    simp only [ne_eq, not_true_eq_false, decide_false, Bool.false_eq_true, if_false, hnew, if_true]
    rw [addLine_last pre _ (expLine l0) b hb']
    simp only [Except.bind, List.nil_append]
    have := run_lines hk d t hd htb ls (fun x hx => hls x (by simp [hx])) [l0] (by simp) coords pre rest
    simp only [List.map_cons, List.map_nil, ← hrb] at this ⊢
    rw [this]
    simp
    cases rebuildAux true _ rest <;> rfl

theorem adjNe_tail {a : Str} {l : List Str} (h : AdjNe (a :: l)) : AdjNe l := by
  cases l with
  | nil => trivial
  | cons b r => exact h.2

/-- the remaining regions of a document -/
theorem run_regions {hs : List Str} (hk : HasColumns hs) (d : DItem) (hd : d.box.NonNeg) (ts : List RItem) (hts : ∀ t ∈ ts, t.OK)
    (coords : Option Coords) (pre : List RRegion)
    (hadj : AdjNe (ts.map (·.id)))
    (hpre : ∀ r t, pre.getLast? = some r → ts.head? = some t → r.id ≠ t.id) (rest : LStream DRec) :
    rebuildAux true (some { id := d.id, coords := coords, regions := pre })
        ((ts.flatMap (RItem.recs hs d)).map .ok ++ rest) =
    rebuildAux true (some { id := d.id, coords := coords, regions := pre ++ ts.map expRegion }) rest := by
  induction ts generalizing pre with
  | nil => simp
  | cons t ts ih =>
    simp only [List.flatMap_cons, List.map_append, List.append_assoc]
    rw [run_region hk d t hd (hts t (by simp)) coords pre (fun r hr => hpre r t hr rfl)]
    rw [ih (fun x hx => hts x (by simp [hx])) (pre ++ [expRegion t]) (adjNe_tail hadj) (by
      intro r t' hr ht'
      simp at hr
      subst hr
      cases ts with
      | nil => simp at ht'
      | cons u us =>
        simp at ht'; subst ht'
        exact hadj.1)]
    simp

/-- a document whose id differs from the current one: the current one is yielded, a new scan
    is built from the document's records -/
theorem run_doc {hs : List Str} (hk : HasColumns hs) (d : DItem) (hd : d.OK) (cur : Option RDoc)
    (hcur : ∀ c, cur = some c → c.id ≠ d.id) (rest : LStream DRec) :
    rebuildAux true cur ((DItem.recs hs d).map .ok ++ rest) =
      (rebuildAux true (some (expDoc d)) rest).bind (fun out => .ok (cur.toList ++ out)) := by
  obtain ⟨hdb, hne, hadj, hts⟩ := hd
  unfold DItem.recs expDoc
  cases hr : d.regions with
  | nil => exact absurd hr hne
  | cons t0 ts =>
    rw [hr] at hts hadj
    obtain ⟨htb, hlne, hls⟩ := hts t0 (by simp)
    simp only [List.flatMap_cons, List.map_append, List.append_assoc]
    unfold RItem.recs
    cases hl : t0.lines with
    | nil => exact absurd hl hlne
    | cons l0 ls =>
      rw [hl] at hls
      simp only [List.map_cons, List.cons_append]
      rw [rebuildAux_step hk _ d t0 l0 _ hdb htb (hls l0 (by simp))]
      have hnewDoc : ∀ (cur : Option RDoc), (∀ c, cur = some c → c.id ≠ d.id) →
          (match cur with | none => true | some c => decide (c.id ≠ d.id)) = true := by
        intro cur hcur
        cases cur with
        | none => rfl
        | some c => simp [hcur c rfl]
      have hnewDoc := hnewDoc cur hcur
      obtain ⟨b, hb, hrb⟩ := regionBox_spec [l0] (by simp)
      have hb' : deriveBox ((⟨t0.id, some t0.box, []⟩ : RRegion).lines ++ [expLine l0]) = .ok b := by
        simpa using hb
      simp only [hnewDoc, if_true, List.getLast?_nil, List.nil_append]
      have := addLine_last [] ⟨t0.id, some t0.box, []⟩ (expLine l0) b hb'
      simp only [List.nil_append] at this
      rw [this]
      simp only [Except.bind]
      have h1 := run_lines hk d t0 hdb htb ls (fun x hx => hls x (by simp [hx])) [l0] (by simp)
        (some (rect d.box)) [] (((ts.flatMap (fun t => t.lines.map (nrec hs d t))).map .ok) ++ rest)
      simp only [List.map_cons, List.map_nil, ← hrb, List.nil_append] at h1 ⊢
      rw [h1]
      have h2 := run_regions hk d hdb ts (fun x hx => hts x (by simp [hx])) (some (rect d.box))
        [⟨t0.id, regionBox (l0 :: ls), (l0 :: ls).map expLine⟩] (adjNe_tail hadj) (by
          intro r t' hr' ht'
          simp at hr'
          subst hr'
          cases ts with
          | nil => simp at ht'
          | cons u us =>
            simp at ht'; subst ht'
            exact hadj.1) rest
      unfold RItem.recs at h2
      simp only [List.cons_append, List.nil_append] at h2 ⊢
      rw [h2]
      simp only [expRegion, hl, List.map_cons]
      cases cur <;> rfl

theorem rebuild_plan {hs : List Str} (hk : HasColumns hs) (ds : List DItem) (hok : ∀ d ∈ ds, d.OK) (hadj : AdjNe (ds.map (·.id)))
    (cur : Option RDoc) (hcur : ∀ c d, cur = some c → ds.head? = some d → c.id ≠ d.id) :
    rebuildAux true cur ((ds.flatMap (DItem.recs hs)).map .ok) =
      .ok (cur.toList ++ ds.map expDoc) := by
  induction ds generalizing cur with
  | nil => cases cur <;> simp [rebuildAux]
  | cons d ds ih =>
    simp only [List.flatMap_cons, List.map_append]
    rw [run_doc hk d (hok d (by simp)) cur (fun c hc => hcur c d hc rfl)]
    rw [ih (fun x hx => hok x (by simp [hx])) (adjNe_tail hadj) (some (expDoc d)) (by
      intro c d' hc hd'
      simp at hc; subst hc
      cases ds with
      | nil => simp at hd'
      | cons u us =>
        simp at hd'; subst hd'
        exact hadj.1)]
    simp [Except.bind]

end Pagexml.C14
