/-
Lemmas about `determine_word_break`.
-/
import PagexmlModel.Lemmas.Reduce

namespace Pagexml.C17

/-! ### determine_word_break -/

theorem determine_no_words (cc : CharClass) (det : Option Detector) (B0 : BreakSet) (pw cw : List Str)
    (h : pw = [] ∨ cw = []) : determine cc det B0 pw cw = .ok (false, none) := by
  unfold determine
  rcases h with h | h <;> subst h <;> simp [pure, Except.pure]

/-- the hyphen rule: without a detector the lines are merged exactly when the last word of the first
    line ends with a break character, and the merged word is the junction join -/
theorem determine_none_eq (cc : CharClass) (B : BreakSet) (pw cw : List Str) (e s : Str) (el : Char) (ep : Str)
    (he : e = ep ++ [el]) (hs : s ≠ []) :
    determine cc none B (pw ++ [e]) (s :: cw) =
      .ok (if B el then (true, some (joinReduced B e s)) else (false, none)) := by
  have hene : e ≠ [] := by rw [he]; simp
  unfold determine
  simp only [pyLast_concat, pyHead_cons, removeWordBreakChars_eq B e s hene hs, bind, Except.bind, pure,
    Except.pure]
  have : pyLast e = .ok el := by rw [he]; exact pyLast_concat ep el
  simp [this]

theorem hyphComp_ok (cc : CharClass) (D : Detector) (e s m : Str) (he : e ≠ []) (hs : s ≠ []) :
    ∃ b, endStartAreHyphenatedCompound cc D e s m = .ok b := by
  obtain ⟨e0, er, rfl⟩ : ∃ c r, e = c :: r := by
    cases e with
    | nil => exact absurd rfl he
    | cons c r => exact ⟨c, r, rfl⟩
  obtain ⟨s0, sr, rfl⟩ : ∃ c r, s = c :: r := by
    cases s with
    | nil => exact absurd rfl hs
    | cons c r => exact ⟨c, r, rfl⟩
  obtain ⟨el, hel⟩ := pyLast_ok_of_ne_nil he
  unfold endStartAreHyphenatedCompound
  simp only [pyHead_cons, hel, bind, Except.bind, pure, Except.pure]
  by_cases h0 : strIsUpper cc (s0 :: sr) = true
  · exact ⟨false, by simp [h0]⟩
  · by_cases h1 : cc.isUpper e0 = true <;> by_cases h2 : [el] = Generated.C17.compoundHyphen <;> simp only [h0, h1, h2, if_true, if_false] <;>
      skip
    all_goals simp only [Bool.false_eq_true, if_false]
    all_goals repeat' split
    all_goals exact ⟨_, rfl⟩

theorem wbSymbol_ok (cc : CharClass) (D : Detector) (e s m : Str) (he : e ≠ []) :
    ∃ b, hasWordBreakSymbol cc D e s m = .ok b := by
  obtain ⟨el, hel⟩ := pyLast_ok_of_ne_nil he
  unfold hasWordBreakSymbol
  simp only [hel, bind, Except.bind, pure, Except.pure]
  repeat' split
  all_goals exact ⟨_, rfl⟩

/-- with a detector the answer is: no merge, or a merge into the plain concatenation, or a merge into
    the junction join — for every detector record -/
theorem determine_some_range (cc : CharClass) (D : Detector) (B0 : BreakSet) (pw cw : List Str) (e s : Str)
    (he : e ≠ []) (hs : s ≠ []) :
    ∃ d, determine cc (some D) B0 (pw ++ [e]) (s :: cw) = .ok d ∧
      (d = (false, none) ∨ d = (true, some (e ++ s)) ∨ d = (true, some (joinReduced D.breakChars e s))) := by
  obtain ⟨el, hel⟩ := pyLast_ok_of_ne_nil he
  obtain ⟨s0, sr, rfl⟩ : ∃ c r, s = c :: r := by
    cases s with
    | nil => exact absurd rfl hs
    | cons c r => exact ⟨c, r, rfl⟩
  have h0 : (decide ((pw ++ [e]).length = 0) || decide (((s0 :: sr) :: cw).length = 0)) = false := by simp
  unfold determine
  simp only [pyLast_concat, pyHead_cons, removeWordBreakChars_eq D.breakChars e (s0 :: sr) he hs, hel,
    startIsTitleword, bind, Except.bind, pure, Except.pure, h0]
  generalize hm : (if D.freqAll (e ++ s0 :: sr) > D.freqAll (joinReduced D.breakChars e (s0 :: sr))
    then e ++ s0 :: sr else joinReduced D.breakChars e (s0 :: sr)) = m
  have hmr : m = e ++ s0 :: sr ∨ m = joinReduced D.breakChars e (s0 :: sr) := by
    rw [← hm]; split <;> simp
  obtain ⟨b1, hb1⟩ := hyphComp_ok cc D e (s0 :: sr) m he hs
  obtain ⟨b2, hb2⟩ := wbSymbol_ok cc D e (s0 :: sr) m he
  simp only [hb1, hb2]
  clear hm hb1 hb2 h0
  generalize (if D.breakChars el = true then D.bigram (List.dropLast e) (s0 :: sr) else D.bigram e (s0 :: sr)) = bf
  generalize hasNonMergeWord cc D e (s0 :: sr) = c1
  generalize endStartAreBigram D m bf Generated.C17.bigramFactorFirst = c2
  generalize cc.isUpper s0 = c3
  generalize startWordHasIncorrectTitlecase cc D e (s0 :: sr) Generated.C17.titlecaseFactor = c4
  generalize hasCommonMergeEnd D e (s0 :: sr) = c5
  generalize endStartAreBigram D m bf Generated.C17.bigramFactorSecond = c6
  generalize endIsCommonWord D e Generated.C17.commonFreq = c7
  generalize mergeIsMoreCommon D e (s0 :: sr) m = c8
  generalize D.breakChars el = c9
  have fin0 : ∃ d : Decision, (Except.ok (false, none) : Res Decision) = .ok d ∧
      (d = (false, none) ∨ d = (true, some (e ++ s0 :: sr)) ∨ d = (true, some (joinReduced D.breakChars e (s0 :: sr)))) :=
    ⟨_, rfl, Or.inl rfl⟩
  have fin1 : ∃ d : Decision, (Except.ok (true, some (e ++ s0 :: sr)) : Res Decision) = .ok d ∧
      (d = (false, none) ∨ d = (true, some (e ++ s0 :: sr)) ∨ d = (true, some (joinReduced D.breakChars e (s0 :: sr)))) :=
    ⟨_, rfl, Or.inr (Or.inl rfl)⟩
  have fin2 : ∃ d : Decision, (Except.ok (true, some m) : Res Decision) = .ok d ∧
      (d = (false, none) ∨ d = (true, some (e ++ s0 :: sr)) ∨ d = (true, some (joinReduced D.breakChars e (s0 :: sr)))) := by
    rcases hmr with h | h
    · exact ⟨_, rfl, Or.inr (Or.inl (by rw [h]))⟩
    · exact ⟨_, rfl, Or.inr (Or.inr (by rw [h]))⟩
  cases c1 <;> cases c2 <;> cases c3 <;> simp only [Bool.false_eq_true, if_false, if_true] <;>
    first
    | exact fin0
    | (cases b1 <;> cases c4 <;> simp only [Bool.false_eq_true, if_false, if_true] <;>
        first | exact fin0 | exact fin1 | exact fin2)
    | (cases c5 <;> simp only [Bool.false_eq_true, if_false, if_true] <;>
        first
        | exact fin2
        | (cases b2 <;> cases c6 <;> cases c7 <;> cases c8 <;> cases c9 <;>
            simp only [Bool.false_eq_true, if_false, if_true] <;>
            first | exact fin0 | exact fin2))

/-- pure punctuation on either side never merges -/
theorem determine_some_punct (cc : CharClass) (D : Detector) (B0 : BreakSet) (pw cw : List Str) (e s : Str)
    (he : e ≠ []) (hs : s ≠ []) (hp : hasWordChar cc e = false ∨ hasWordChar cc s = false) :
    determine cc (some D) B0 (pw ++ [e]) (s :: cw) = .ok (false, none) := by
  obtain ⟨el, hel⟩ := pyLast_ok_of_ne_nil he
  have hn : hasNonMergeWord cc D e s = true := by
    unfold hasNonMergeWord
    rcases hp with hp | hp
    · simp [hp]
    · simp [hp]
  unfold determine
  simp only [pyLast_concat, pyHead_cons, removeWordBreakChars_eq D.breakChars e s he hs, hel, hn,
    bind, Except.bind, pure, Except.pure]
  simp

end Pagexml.C17
