/-
C19: x-monotone baselines (left to right) are sampled in increasing x order, which makes
the distances of two such baselines equal as lists in both argument orders.
-/
import PagexmlModel.Lemmas.C19Height

namespace Pagexml.C19
open Pagexml.C03 (Pt)

/-- the baseline runs left to right: x never decreases along the point list -/
def XMonotone (pts : List Pt) : Prop := pts.Pairwise (fun p q => p.1 ≤ q.1)

theorem keys_interpSeg_sorted (mdt : MulDivTrunc) {a b : Pt} {step : Int} (hs : 0 < step) (hab : a.1 < b.1) :
    (keys (interpSegPure mdt a b step)).Pairwise (· < ·) ∧
    ∀ k ∈ keys (interpSegPure mdt a b step), a.1 < k ∧ k ≤ b.1 := by
  have hgt : ¬ a.1 > b.1 := by omega
  have hne : ¬ b.1 = a.1 := by omega
  simp only [interpSegPure, hgt, ↓reduceIte, hne, keys, List.map_map, Function.comp_def, List.map_id']
  refine ⟨pyRange_pairwise_lt hs, fun k hk => ?_⟩
  have := (mem_sample_range hs).mp hk
  omega

theorem keys_sorted_fold (mdt : MulDivTrunc) {step : Int} (hs : 0 < step) :
    ∀ (pts : List Pt) (d : Dict), XMonotone pts → (keys d).Pairwise (· < ·) →
      (∀ k ∈ keys d, ∀ p ∈ pts, k ≤ p.1) →
      (keys ((pairs pts).foldl (interpStep mdt step) d)).Pairwise (· < ·)
  | [], d, _, hd, _ => by simpa [pairs] using hd
  | [_], d, _, hd, _ => by simpa [pairs] using hd
  | a :: b :: r, d, hm, hd, hb => by
    simp only [pairs, List.foldl_cons]
    have hab : a.1 ≤ b.1 := (List.pairwise_cons.mp hm).1 b List.mem_cons_self
    have hm' : XMonotone (b :: r) := (List.pairwise_cons.mp hm).2
    have hbr : ∀ p ∈ b :: r, b.1 ≤ p.1 := by
      intro p hp
      rcases List.mem_cons.mp hp with rfl | hp
      · exact Int.le_refl _
      · exact (List.pairwise_cons.mp hm').1 p hp
    apply keys_sorted_fold mdt hs (b :: r) _ hm'
    · unfold interpStep
      split
      · exact hd
      · rename_i hne
        have hlt : a.1 < b.1 := by simp only at hne; omega
        obtain ⟨s1, s2⟩ := keys_interpSeg_sorted mdt hs hlt
        have hall : (keys (d ++ interpSegPure mdt a b step)).Pairwise (· < ·) := by
          simp only [keys, List.map_append]
          refine List.pairwise_append.mpr ⟨hd, s1, fun x hx y hy => ?_⟩
          have := hb x hx a List.mem_cons_self
          have := (s2 y hy).1
          omega
        rw [dictSetAll_append (hall.imp (fun h => by omega))]
        exact hall
    · intro k hk p hp
      have hbp := hbr p hp
      unfold interpStep at hk
      split at hk
      · have := hb k hk a List.mem_cons_self; omega
      · rename_i hne
        have hlt : a.1 < b.1 := by simp only at hne; omega
        obtain ⟨k', v⟩ : ∃ e : Int × Int, e ∈ dictSetAll d (interpSegPure mdt a b step) ∧ e.1 = k := by
          obtain ⟨e, he, rfl⟩ := List.mem_map.mp hk
          exact ⟨e, he, rfl⟩
        obtain ⟨hv, rfl⟩ := v
        rcases mem_dictSetAll hv with h | h
        · have := hb k'.1 (List.mem_map.mpr ⟨k', h, rfl⟩) a List.mem_cons_self; omega
        · have := ((keys_interpSeg_sorted mdt hs hlt).2 k'.1 (List.mem_map.mpr ⟨k', h, rfl⟩)).2
          omega

/-- the samples of a left-to-right baseline come in strictly increasing x order -/
theorem keys_sorted_of_monotone (mdt : MulDivTrunc) {pts : List Pt} {step : Int} (hs : 0 < step)
    (hm : XMonotone pts) : (keys (interpBaselinePure mdt pts step)).Pairwise (· < ·) := by
  unfold interpBaselinePure
  exact keys_sorted_fold mdt hs pts [] hm (by simp [keys]) (by simp [keys])

theorem distOf_comm_of_sorted {b1 b2 : Dict} (h1 : (keys b1).Pairwise (· < ·)) (h2 : (keys b2).Pairwise (· < ·)) :
    distOf b1 b2 = distOf b2 b1 := by
  have n1 : (keys b1).Nodup := h1.imp (fun h => by omega)
  have n2 : (keys b2).Nodup := h2.imp (fun h => by omega)
  rw [distOf_eq_keys n1, distOf_eq_keys n2]
  have hp : ((keys b1).filter (fun x => (dictGet? b2 x).isSome)).Perm
      ((keys b2).filter (fun x => (dictGet? b1 x).isSome)) := by
    apply (List.perm_ext_iff_of_nodup (List.Pairwise.filter _ n1) (List.Pairwise.filter _ n2)).mpr
    intro x
    simp only [List.mem_filter, dictGet?_isSome_iff]
    constructor <;> (intro h; exact ⟨h.2, h.1⟩)
  have he := List.Perm.eq_of_pairwise (le := (· < ·)) (fun a b _ _ hab hba => by omega)
    (List.Pairwise.filter _ h1) (List.Pairwise.filter _ h2) hp
  rw [he]
  apply List.map_congr_left
  intro x _
  unfold iabs; omega

/-! ### every grid point of every segment is sampled -/

theorem keys_dictSet_mono (d : Dict) (k v : Int) : k ∈ keys (dictSet d k v) ∧ ∀ x ∈ keys d, x ∈ keys (dictSet d k v) := by
  rw [keys_dictSet]
  split
  · rename_i h; exact ⟨h, fun x hx => hx⟩
  · exact ⟨by simp, fun x hx => List.mem_append_left _ hx⟩

theorem keys_dictSetAll_mono (d : Dict) (kvs : List Pt) :
    (∀ e ∈ kvs, e.1 ∈ keys (dictSetAll d kvs)) ∧ ∀ x ∈ keys d, x ∈ keys (dictSetAll d kvs) := by
  induction kvs generalizing d with
  | nil => exact ⟨fun e he => absurd he List.not_mem_nil, fun x hx => hx⟩
  | cons a r ih =>
    have h1 := keys_dictSet_mono d a.1 a.2
    have h2 := ih (dictSet d a.1 a.2)
    simp only [dictSetAll, List.foldl_cons] at h2 ⊢
    refine ⟨fun e he => ?_, fun x hx => h2.2 x (h1.2 x hx)⟩
    rcases List.mem_cons.mp he with rfl | he
    · exact h2.2 _ h1.1
    · exact h2.1 e he

theorem keys_fold_mono (mdt : MulDivTrunc) (step : Int) (l : List (Pt × Pt)) (d : Dict) :
    (∀ x ∈ keys d, x ∈ keys (l.foldl (interpStep mdt step) d)) ∧
    (∀ pq ∈ l, pq.2.1 ≠ pq.1.1 → ∀ e ∈ interpSegPure mdt pq.1 pq.2 step,
      e.1 ∈ keys (l.foldl (interpStep mdt step) d)) := by
  induction l generalizing d with
  | nil => exact ⟨fun x hx => hx, fun pq hpq => absurd hpq List.not_mem_nil⟩
  | cons a r ih =>
    have h2 := ih (interpStep mdt step d a)
    simp only [List.foldl_cons]
    have hstep : ∀ x ∈ keys d, x ∈ keys (interpStep mdt step d a) := by
      intro x hx
      unfold interpStep
      split
      · exact hx
      · exact (keys_dictSetAll_mono d _).2 x hx
    refine ⟨fun x hx => h2.1 x (hstep x hx), fun pq hpq hne e he => ?_⟩
    rcases List.mem_cons.mp hpq with rfl | hpq
    · apply h2.1
      unfold interpStep
      simp only [hne, ↓reduceIte]
      exact (keys_dictSetAll_mono d _).1 e he
    · exact h2.2 pq hpq hne e he

end Pagexml.C19
