/-
C19: text height of a rectangle with a horizontal baseline.
-/
import PagexmlModel.Lemmas.C19Stack

namespace Pagexml.C19
open Pagexml.C03 (Pt Coords mkCoords)

/-- the x values sampled on a segment from `x0` to `x1` -/
def sampleXs (x0 x1 s : Int) : List Int := pyRange (x0 + s - Int.fmod x0 s) (x1 - Int.fmod x1 s + 1) s

theorem dictSet_append {d : Dict} {k v : Int} (h : k ∉ keys d) : dictSet d k v = d ++ [(k, v)] := by
  induction d with
  | nil => rfl
  | cons a r ih =>
    obtain ⟨k', v'⟩ := a
    simp only [keys, List.map_cons, List.mem_cons, not_or] at h
    have hne : ¬ k' = k := fun e => h.1 e.symm
    simp only [dictSet, hne, ↓reduceIte, List.cons_append]
    rw [ih h.2]

theorem dictSetAll_append {d : Dict} {kvs : List Pt} (h : (keys (d ++ kvs)).Nodup) :
    dictSetAll d kvs = d ++ kvs := by
  induction kvs generalizing d with
  | nil => simp [dictSetAll]
  | cons a r ih =>
    simp only [dictSetAll, List.foldl_cons]
    have hk : a.1 ∉ keys d := by
      simp only [keys, List.map_append, List.map_cons] at h
      have := (List.nodup_append.mp h).2.2
      intro hm
      exact this a.1 hm a.1 List.mem_cons_self rfl
    rw [dictSet_append hk]
    have : (keys ((d ++ [(a.1, a.2)]) ++ r)).Nodup := by simpa using h
    have := ih this
    simpa [dictSetAll] using this

/-- a horizontal two-point baseline is interpolated to the grid points at the same height -/
theorem interp_horizontal (mdt : MulDivTrunc) (laws : MulDivTruncLaws mdt) {x0 x1 y s : Int}
    (hx : x0 < x1) (hs : 0 < s) :
    interpBaselinePure mdt [(x0, y), (x1, y)] s = (sampleXs x0 x1 s).map (fun x => (x, y)) := by
  have hne : ¬ x1 = x0 := by omega
  have hgt : ¬ x0 > x1 := by omega
  simp only [interpBaselinePure, pairs, List.foldl_cons, List.foldl_nil, interpStep, hne, ↓reduceIte]
  have hseg : interpSegPure mdt (x0, y) (x1, y) s = (sampleXs x0 x1 s).map (fun x => (x, y)) := by
    simp only [interpSegPure, hgt, ↓reduceIte, hne, sampleXs]
    apply List.map_congr_left
    intro x hxm
    have := (mem_sample_range hs).mp hxm
    have h0 := laws.abs_le (x - x0) (y - y) (x1 - x0) (by omega) (by omega)
    unfold iabs at h0
    have : mdt (x - x0) (y - y) (x1 - x0) = 0 := by omega
    rw [this]; simp
  rw [hseg, dictSetAll_append]
  · rfl
  · simp only [List.nil_append, keys, List.map_map, Function.comp_def, List.map_id']
    exact pyRange_nodup hs

theorem mkCoords_two {x0 x1 y : Int} (hx : x0 ≤ x1) :
    mkCoords [(x0, y), (x1, y)] = .ok ⟨[(x0, y), (x1, y)], x0, y, x1 - x0, 0⟩ := by
  simp only [mkCoords, C03.minL, C03.maxL, List.map, List.foldl, bind, Except.bind, pure, Except.pure]
  congr 2 <;> omega

theorem mkCoords_rect {x0 x1 t bot : Int} (hx : x0 ≤ x1) (hy : t ≤ bot) :
    mkCoords [(x0, t), (x1, t), (x1, bot), (x0, bot)] =
      .ok ⟨[(x0, t), (x1, t), (x1, bot), (x0, bot)], x0, t, x1 - x0, bot - t⟩ := by
  simp only [mkCoords, C03.minL, C03.maxL, List.map, List.foldl, bind, Except.bind, pure, Except.pure]
  congr 2 <;> omega

/-! ### the split for a horizontal baseline is a filter on y -/

theorem takeFor_filter (curr : Pt) (next : Option Pt) (cs : List Pt) :
    (takeFor curr next cs).1 ++ (takeFor curr next cs).2.2.filter (fun p => decide (p.2 < curr.2))
      = cs.filter (fun p => decide (p.2 < curr.2)) ∧
    (takeFor curr next cs).2.1 ++ (takeFor curr next cs).2.2.filter (fun p => !decide (p.2 < curr.2))
      = cs.filter (fun p => !decide (p.2 < curr.2)) := by
  induction cs with
  | nil => simp [takeFor]
  | cons c r ih =>
    simp only [takeFor]
    by_cases hcl : closerToNext curr next c = true
    · simp [hcl]
    · simp only [hcl, Bool.false_eq_true, ↓reduceIte]
      by_cases hy : c.2 < curr.2
      · simp only [hy, ↓reduceIte, List.filter_cons, decide_true, Bool.not_true, Bool.false_eq_true,
          List.cons_append]
        exact ⟨by rw [ih.1], ih.2⟩
      · simp only [hy, ↓reduceIte, List.filter_cons, decide_false, Bool.false_eq_true, Bool.not_false,
          List.cons_append]
        exact ⟨ih.1, by rw [ih.2]⟩

theorem goAB_filter {bs : List Pt} {yb : Int} (hb : ∀ b ∈ bs, b.2 = yb) (hne : bs ≠ []) (cs : List Pt) :
    (goAB bs cs).1 = cs.filter (fun p => decide (p.2 < yb)) ∧
    (goAB bs cs).2 = cs.filter (fun p => !decide (p.2 < yb)) := by
  induction bs generalizing cs with
  | nil => exact absurd rfl hne
  | cons b r ih =>
    have hby : b.2 = yb := hb b List.mem_cons_self
    simp only [goAB]
    split
    · rename_i hem
      rw [List.isEmpty_iff] at hem; subst hem; simp
    · have ht := takeFor_filter b r.head? cs
      rw [hby] at ht
      cases r with
      | nil =>
        have hr := takeFor_none_rest b cs
        simp only [List.head?_nil] at ht ⊢
        rw [hr] at ht
        simp only [goAB, List.append_nil]
        simpa using ht
      | cons b' r' =>
        have := ih (fun x hx => hb x (List.mem_cons_of_mem _ hx)) (by simp)
          (takeFor b (b' :: r').head? cs).2.2
        rw [this.1, this.2]
        exact ht

/-- the whole `get_text_heights` pipeline for a rectangle `x0..x1 × top..bottom` with the
    horizontal baseline `y = yb` from `x0` to `x1`, at a positive step `s` -/
theorem textHeightsAt_rect (mdt : MulDivTrunc) (laws : MulDivTruncLaws mdt) {x0 x1 top bottom yb s : Int}
    (hx : x0 < x1) (ht : top < yb) (hb : yb ≤ bottom) (hs : 0 < s) :
    textHeightsAt mdt [(x0, top), (x1, top), (x1, bottom), (x0, bottom)] [(x0, yb), (x1, yb)] s =
      .ok (if (sampleXs x0 x1 s).isEmpty then none
           else some (List.replicate (sampleXs x0 x1 s).length (yb - top))) := by
  have hs' : s ≠ 0 := by omega
  unfold textHeightsAt sortAboveBelow
  rw [mkCoords_rect (by omega) (by omega), mkCoords_two (by omega)]
  simp only [bind, Except.bind, Coords.right, Coords.left, interpBaseline_of_ne hs', pure, Except.pure]
  have g1 : ¬ (x0 + (x1 - x0) < x0) := by omega
  have g2 : ¬ (x0 > x0 + (x1 - x0)) := by omega
  simp only [g1, g2, ↓reduceIte]
  rw [interp_horizontal mdt laws hx hs]
  by_cases hg : (sampleXs x0 x1 s) = []
  · simp [hg, goAB]
  · have hbs : ∀ b ∈ (sampleXs x0 x1 s).map (fun x => (x, yb)), b.2 = yb := by
      intro b hb
      obtain ⟨x, _, rfl⟩ := List.mem_map.mp hb
      rfl
    have hne : (sampleXs x0 x1 s).map (fun x => (x, yb)) ≠ [] := by simpa using hg
    have hsort : isort (fun p q : Pt => decide (p.1 ≤ q.1)) [(x0, top), (x1, top), (x1, bottom), (x0, bottom)]
        = [(x0, top), (x0, bottom), (x1, top), (x1, bottom)] := by
      have h1 : ¬ x1 ≤ x0 := by omega
      simp [isort, insertBy, h1]
    have hab := (goAB_filter hbs hne (isort (fun p q : Pt => decide (p.1 ≤ q.1))
      [(x0, top), (x1, top), (x1, bottom), (x0, bottom)])).1
    rw [hsort] at hab
    have hnb : ¬ bottom < yb := by omega
    have habove : List.filter (fun p : Pt => decide (p.2 < yb)) [(x0, top), (x0, bottom), (x1, top), (x1, bottom)]
        = [(x0, top), (x1, top)] := by
      simp [List.filter, ht, hnb]
    rw [habove] at hab
    rw [hsort, hab]
    simp only [List.isEmpty_cons, Bool.false_eq_true, ↓reduceIte]
    rw [interp_horizontal mdt laws hx hs]
    have hh : heightsOf ((sampleXs x0 x1 s).map (fun x => (x, yb))) ((sampleXs x0 x1 s).map (fun x => (x, top)))
        = List.replicate (sampleXs x0 x1 s).length (yb - top) := by
      unfold heightsOf
      rw [filterMap_const (c := yb - top)]
      · simp
      · intro e he
        obtain ⟨x, hxm, rfl⟩ := List.mem_map.mp he
        have hn : (keys ((sampleXs x0 x1 s).map (fun x => (x, top)))).Nodup := by
          simp only [keys, List.map_map, Function.comp_def, List.map_id']
          exact pyRange_nodup hs
        rw [dictGet?_of_mem hn (List.mem_map.mpr ⟨x, hxm, rfl⟩)]
        rfl
    rw [hh]
    have : (List.replicate (sampleXs x0 x1 s).length (yb - top)).isEmpty = false := by
      cases hl : sampleXs x0 x1 s with
      | nil => exact absurd hl hg
      | cons a r => simp
    simp [this, hg]

end Pagexml.C19
