/-
C08: list laws behind the table grid — the `column_cells` loop of a table row, grouping of
cells by row index, the fullest row.
-/
import PagexmlModel.Model.C08
import PagexmlModel.Lemmas.C05Order

set_option linter.unusedSimpArgs false

namespace Pagexml.C08
open Pagexml.C05 (assocSet assocGet)

variable {β : Type}

/-! ### the `column_cells` loop -/

/-- the loop of `PageXMLTableRow.__init__` over cells with column numbers `colOf` -/
def colStep (colOf : β → Nat) (acc : List (Option β)) (c : β) : List (Option β) :=
  (if colOf c > acc.length then acc ++ List.replicate (colOf c - acc.length) none else acc) ++ [some c]

theorem colStep_length (colOf : β → Nat) (acc : List (Option β)) (c : β) (h : acc.length ≤ colOf c) :
    (colStep colOf acc c).length = colOf c + 1 := by
  unfold colStep
  split <;> simp <;> omega

theorem colStep_prefix (colOf : β → Nat) (acc : List (Option β)) (c : β) (j : Nat) (hj : j < acc.length) :
    (colStep colOf acc c)[j]? = acc[j]? := by
  unfold colStep
  split
  · rw [List.getElem?_append_left (by simp; omega), List.getElem?_append_left hj]
  · rw [List.getElem?_append_left hj]

theorem colStep_at (colOf : β → Nat) (acc : List (Option β)) (c : β) (h : acc.length ≤ colOf c) :
    (colStep colOf acc c)[colOf c]? = some (some c) := by
  unfold colStep
  split
  · next hgt =>
    rw [List.getElem?_append_right (by simp; omega)]
    have : colOf c - (acc ++ List.replicate (colOf c - acc.length) none).length = 0 := by simp; omega
    rw [this]; rfl
  · have : acc.length = colOf c := by omega
    rw [List.getElem?_append_right (by omega)]
    simp [this]

theorem colStep_gap (colOf : β → Nat) (acc : List (Option β)) (c : β) (j : Nat)
    (h1 : acc.length ≤ j) (h2 : j < colOf c) : (colStep colOf acc c)[j]? = some none := by
  unfold colStep
  have : colOf c > acc.length := by omega
  simp only [this, if_true]
  rw [List.getElem?_append_left (by simp; omega), List.getElem?_append_right h1]
  simp [List.getElem?_replicate]
  omega

/-- what the loop builds from cells with strictly ascending columns -/
theorem colCells_spec (colOf : β → Nat) (cs : List β) (acc : List (Option β))
    (hasc : (cs.map colOf).Pairwise (· < ·)) (hacc : ∀ c ∈ cs, acc.length ≤ colOf c) :
    let R := cs.foldl (colStep colOf) acc
    (R.length = match cs.getLast? with
      | none => acc.length
      | some l => colOf l + 1) ∧
    (∀ j, j < acc.length → R[j]? = acc[j]?) ∧
    (∀ c ∈ cs, R[colOf c]? = some (some c)) ∧
    (∀ j, acc.length ≤ j → j < R.length → (∀ c ∈ cs, colOf c ≠ j) → R[j]? = some none) := by
  induction cs generalizing acc with
  | nil =>
    simp only [List.foldl_nil, List.getLast?_nil, List.not_mem_nil, false_imp_iff, implies_true, true_and]
    intro j h1 h2; omega
  | cons c rest ih =>
    have hc : acc.length ≤ colOf c := hacc c (by simp)
    rw [List.map_cons, List.pairwise_cons] at hasc
    have hgt : ∀ r ∈ rest, colOf c < colOf r := fun r hr => hasc.1 _ (List.mem_map_of_mem hr)
    have hlen := colStep_length colOf acc c hc
    have ih' := ih (colStep colOf acc c) hasc.2 (by intro r hr; have := hgt r hr; omega)
    simp only [List.foldl_cons]
    obtain ⟨hL, hK, hM, hN⟩ := ih'
    refine ⟨?_, ?_, ?_, ?_⟩
    · rw [hL]
      cases hr : rest.getLast? with
      | none =>
        have : rest = [] := by simpa using hr
        subst this
        simp [hlen]
      | some l =>
        have : (c :: rest).getLast? = some l := by
          cases rest with
          | nil => simp at hr
          | cons a b => simpa [List.getLast?_cons_cons] using hr
        simp [this]
    · intro j hj
      rw [hK j (by omega), colStep_prefix colOf acc c j hj]
    · intro x hx
      rcases List.mem_cons.mp hx with rfl | hx
      · rw [hK _ (by omega), colStep_at colOf acc x hc]
      · exact hM x hx
    · intro j hj1 hj2 hne
      by_cases hlt : j < colOf c + 1
      · have hjc : j ≠ colOf c := fun e => hne c (by simp) e.symm
        rw [hK j (by omega), colStep_gap colOf acc c j hj1 (by omega)]
      · exact hN j (by omega) hj2 (fun r hr => hne r (by simp [hr]))

/-- strictly ascending naturals: the k-th element is at least k above the lower bound -/
theorem asc_length_le (l : List Nat) (lo c : Nat) (hasc : l.Pairwise (· < ·))
    (hlo : ∀ x ∈ l, lo ≤ x) (hc : ∀ x ∈ l, x < c) : l.length + lo ≤ c ∨ l = [] := by
  induction l generalizing lo with
  | nil => exact Or.inr rfl
  | cons a r ih =>
    left
    rw [List.pairwise_cons] at hasc
    have ha := hlo a (by simp)
    have hac := hc a (by simp)
    rcases ih (a + 1) hasc.2 (fun x hx => hasc.1 x hx) (fun x hx => hc x (by simp [hx])) with h | h
    · simp; omega
    · subst h; simp; omega

theorem asc_last_ge (l : List Nat) (lo : Nat) (hasc : l.Pairwise (· < ·)) (hlo : ∀ x ∈ l, lo ≤ x)
    (x : Nat) (hx : l.getLast? = some x) : l.length + lo ≤ x + 1 := by
  induction l generalizing lo with
  | nil => simp at hx
  | cons a r ih =>
    rw [List.pairwise_cons] at hasc
    cases r with
    | nil =>
      simp at hx; subst hx
      have := hlo a (by simp)
      simp; omega
    | cons b r' =>
      have hx' : (b :: r').getLast? = some x := by simpa [List.getLast?_cons_cons] using hx
      have := ih (a + 1) hasc.2 (fun y hy => hasc.1 y hy) hx'
      have ha := hlo a (by simp)
      simp at this ⊢; omega

/-! ### the fullest row -/

theorem foldl_max_ge (l : List Nat) (a : Nat) : a ≤ l.foldl max a ∧ ∀ x ∈ l, x ≤ l.foldl max a := by
  induction l generalizing a with
  | nil => simp
  | cons b r ih =>
    obtain ⟨h1, h2⟩ := ih (max a b)
    simp only [List.foldl_cons]
    refine ⟨by omega, ?_⟩
    intro x hx
    rcases List.mem_cons.mp hx with rfl | hx
    · omega
    · exact h2 x hx

theorem foldl_max_le (l : List Nat) (a c : Nat) (ha : a ≤ c) (hl : ∀ x ∈ l, x ≤ c) : l.foldl max a ≤ c := by
  induction l generalizing a with
  | nil => simpa
  | cons b r ih =>
    simp only [List.foldl_cons]
    exact ih _ (by have := hl b (by simp); omega) (fun x hx => hl x (by simp [hx]))

theorem maxLen_eq (l : List Nat) (c : Nat) (hle : ∀ x ∈ l, x ≤ c) (hmem : c ∈ l) : maxLen l = c := by
  cases l with
  | nil => simp at hmem
  | cons a r =>
    simp only [maxLen]
    have h1 := foldl_max_le r a c (hle a (by simp)) (fun x hx => hle x (by simp [hx]))
    have ⟨h2, h3⟩ := foldl_max_ge r a
    rcases List.mem_cons.mp hmem with rfl | hm
    · omega
    · have := h3 c hm; omega

/-! ### grouping by row -/

variable {κ : Type} [DecidableEq κ]

theorem assocGet_mem {ν : Type} (k : κ) (l : List (κ × ν)) (v : ν) (h : assocGet k l = some v) : (k, v) ∈ l := by
  induction l with
  | nil => simp [assocGet] at h
  | cons kv l ih =>
    obtain ⟨k', v'⟩ := kv
    simp only [assocGet] at h
    split at h
    · next e => injection h with h; subst e; subst h; simp
    · exact List.mem_cons_of_mem _ (ih h)

theorem assocGet_none {ν : Type} (k : κ) (l : List (κ × ν)) (h : assocGet k l = none) : k ∉ l.map (·.1) := by
  intro hm
  have := (C05.assocGet_isSome k l).mpr hm
  rw [h] at this
  simp at this

theorem keys_assocSet_mem {ν : Type} (k : κ) (v : ν) (l : List (κ × ν)) (h : k ∈ l.map (·.1)) :
    (assocSet k v l).map (·.1) = l.map (·.1) := by
  induction l with
  | nil => simp at h
  | cons kv l ih =>
    obtain ⟨k', v'⟩ := kv
    simp only [assocSet]
    split
    · rfl
    · next hne =>
      simp only [List.map_cons]
      congr 1
      apply ih
      simp only [List.map_cons, List.mem_cons] at h
      rcases h with h | h
      · exact absurd h.symm hne
      · exact h

theorem mem_assocSet {ν : Type} (k : κ) (v : ν) (l : List (κ × ν)) (hnd : (l.map (·.1)).Nodup) (g : κ × ν)
    (h : g ∈ assocSet k v l) : g = (k, v) ∨ (g ∈ l ∧ g.1 ≠ k) := by
  induction l with
  | nil => simp [assocSet] at h; exact Or.inl h
  | cons kv l ih =>
    obtain ⟨k', v'⟩ := kv
    rw [List.map_cons, List.nodup_cons] at hnd
    simp only [assocSet] at h
    split at h
    · next e =>
      subst e
      rcases List.mem_cons.mp h with h | h
      · exact Or.inl h
      · right
        refine ⟨List.mem_cons_of_mem _ h, ?_⟩
        intro e
        apply hnd.1
        rw [← e]
        exact List.mem_map_of_mem (f := (·.1)) h
    · next hne =>
      rcases List.mem_cons.mp h with h | h
      · right; subst h; exact ⟨by simp, hne⟩
      · rcases ih hnd.2 h with h | ⟨h1, h2⟩
        · exact Or.inl h
        · exact Or.inr ⟨List.mem_cons_of_mem _ h1, h2⟩

/-- the invariant of the grouping loop after the cells `pre` -/
def GroupInv (rowOf : β → κ) (pre : List β) (G : List (κ × List β)) : Prop :=
  (G.map (·.1)).Nodup ∧
  (∀ g ∈ G, g.2 = pre.filter (fun c => decide (rowOf c = g.1)) ∧ g.2 ≠ []) ∧
  (∀ c ∈ pre, rowOf c ∈ G.map (·.1))

theorem groupInv_step (rowOf : β → κ) (pre : List β) (G : List (κ × List β)) (c : β)
    (h : GroupInv rowOf pre G) : GroupInv rowOf (pre ++ [c]) (groupStep rowOf G c) := by
  obtain ⟨hnd, hg, hc⟩ := h
  unfold groupStep
  cases hget : assocGet (rowOf c) G with
  | some cs =>
    have hmem : (rowOf c, cs) ∈ G := assocGet_mem _ _ _ hget
    have hk : rowOf c ∈ G.map (·.1) := List.mem_map_of_mem (f := (·.1)) hmem
    refine ⟨by rw [keys_assocSet_mem _ _ _ hk]; exact hnd, ?_, ?_⟩
    · intro g hgm
      rcases mem_assocSet _ _ _ hnd g hgm with rfl | ⟨h1, h2⟩
      · have := (hg _ hmem).1
        simp only at this
        simp [List.filter_append, this]
      · obtain ⟨e1, e2⟩ := hg g h1
        refine ⟨?_, e2⟩
        simp [List.filter_append, e1, Ne.symm h2]
    · intro x hx
      rw [keys_assocSet_mem _ _ _ hk]
      rcases List.mem_append.mp hx with hx | hx
      · exact hc x hx
      · simp at hx; subst hx; exact hk
  | none =>
    have hk : rowOf c ∉ G.map (·.1) := assocGet_none _ _ hget
    refine ⟨?_, ?_, ?_⟩
    · rw [List.map_append, List.nodup_append]
      refine ⟨hnd, by simp, ?_⟩
      intro a ha b hb
      simp at hb
      subst hb
      exact fun e => hk (e ▸ ha)
    · intro g hgm
      rcases List.mem_append.mp hgm with hgm | hgm
      · obtain ⟨e1, e2⟩ := hg g hgm
        refine ⟨?_, e2⟩
        have : rowOf c ≠ g.1 := fun e => hk (e ▸ List.mem_map_of_mem (f := (·.1)) hgm)
        simp [List.filter_append, e1, this]
      · simp at hgm
        subst hgm
        have : pre.filter (fun x => decide (rowOf x = rowOf c)) = [] := by
          apply List.filter_eq_nil_iff.mpr
          intro x hx
          simp only [decide_eq_true_eq]
          exact fun e => hk (e ▸ hc x hx)
        simp [List.filter_append, this]
    · intro x hx
      rw [List.map_append, List.mem_append]
      rcases List.mem_append.mp hx with hx | hx
      · exact Or.inl (hc x hx)
      · simp at hx; subst hx; simp

theorem groupInv_foldl (rowOf : β → κ) (pre suf : List β) (G : List (κ × List β))
    (h : GroupInv rowOf pre G) : GroupInv rowOf (pre ++ suf) (suf.foldl (groupStep rowOf) G) := by
  induction suf generalizing pre G with
  | nil => simpa using h
  | cons c suf ih =>
    have := ih (pre ++ [c]) _ (groupInv_step rowOf pre G c h)
    simpa using this

/-- the grouping loop: one group per distinct row index, holding exactly the cells of that
    row, in their order -/
theorem groupInv_all (rowOf : β → κ) (cells : List β) :
    GroupInv rowOf cells (cells.foldl (groupStep rowOf) []) := by
  have := groupInv_foldl rowOf [] cells [] ⟨by simp, by simp, by simp⟩
  simpa using this

theorem groupByRow_eq (cells : List Cell) : groupByRow cells = cells.foldl (groupStep Cell.row) [] := rfl

/-! ### sums over the groups -/

theorem sum_assocSet (w : List β → Nat) (k : κ) (v cs : List β) (l : List (κ × List β))
    (h : assocGet k l = some cs) :
    ((assocSet k v l).map (fun g => w g.2)).sum + w cs = (l.map (fun g => w g.2)).sum + w v := by
  induction l with
  | nil => simp [assocGet] at h
  | cons kv l ih =>
    obtain ⟨k', v'⟩ := kv
    simp only [assocGet] at h
    simp only [assocSet]
    split at h
    · next e =>
      injection h with h
      subst h
      simp [e]
      omega
    · next hne =>
      have := ih h
      simp [hne]
      omega

/-- a weight summed group by group is the weight summed over the cells -/
theorem sum_groups (rowOf : β → κ) (w : β → Nat) (pre suf : List β) (G : List (κ × List β))
    (h : (G.map (fun g => (g.2.map w).sum)).sum = (pre.map w).sum) :
    ((suf.foldl (groupStep rowOf) G).map (fun g => (g.2.map w).sum)).sum = ((pre ++ suf).map w).sum := by
  induction suf generalizing pre G with
  | nil => simpa using h
  | cons c suf ih =>
    have hstep : ((groupStep rowOf G c).map (fun g => (g.2.map w).sum)).sum = ((pre ++ [c]).map w).sum := by
      unfold groupStep
      cases hget : assocGet (rowOf c) G with
      | some cs =>
        have := sum_assocSet (fun l => (l.map w).sum) (rowOf c) (cs ++ [c]) cs G hget
        simp at this ⊢
        omega
      | none => simp [h]
    have := ih (pre ++ [c]) _ hstep
    simpa using this

theorem sum_groupByRow (w : Cell → Nat) (cells : List Cell) :
    ((groupByRow cells).map (fun g => (g.2.map w).sum)).sum = (cells.map w).sum := by
  have := sum_groups Cell.row w [] cells [] (by simp)
  simpa [groupByRow] using this

end Pagexml.C08
