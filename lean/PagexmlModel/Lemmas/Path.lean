/-
Laws of the path functions of Model/C12.lean (`lastSeg`, `splitext`, `splitDirFile`, `extOfFile`).
-/
import PagexmlModel.Model.C12
import PagexmlModel.Lemmas.Split

namespace Pagexml.C12
open Pagexml.Generated.C12
open Pagexml.C03 (splitOn intercalate splitOn_ne_nil splitOn_no_sep)

theorem lastSeg_no_sep (sep : Char) (p : Path) (h : sep ∉ p) : lastSeg sep p = p := by
  induction p with
  | nil => rfl
  | cons c cs ih =>
    have hc : c ≠ sep := fun e => h (by simp [e])
    have hcs : sep ∉ cs := fun e => h (by simp [e])
    simp [lastSeg, hcs, hc]

theorem lastSeg_append (sep : Char) (pre name : Path) (h : sep ∉ name) :
    lastSeg sep (pre ++ sep :: name) = name := by
  induction pre with
  | nil => simp [lastSeg, h]
  | cons c cs ih => simp [lastSeg, ih]

theorem lastSeg_not_mem (sep : Char) (p : Path) : sep ∉ lastSeg sep p := by
  induction p with
  | nil => simp [lastSeg]
  | cons c cs ih =>
    unfold lastSeg
    split
    · exact ih
    · split
      · assumption
      · rename_i h1 h2
        intro hm
        rcases List.mem_cons.mp hm with e | e
        · exact h2 e.symm
        · exact h1 e

/-- `splitext` of a file name `stem ++ "." ++ e` (no `/`, no dot in `e`, a non-dot character in
    `stem`) splits exactly before that last dot -/
theorem splitext_name (stem e : Path) (hs : ∃ c ∈ stem, c ≠ '.') (h1 : '/' ∉ stem) (h2 : '/' ∉ e)
    (h3 : '.' ∉ e) : splitext (stem ++ '.' :: e) = (stem, '.' :: e) := by
  have hno : '/' ∉ stem ++ '.' :: e := by
    simp only [List.mem_append, List.mem_cons, not_or]
    exact ⟨h1, by decide, h2⟩
  have hdot : '.' ∈ stem ++ '.' :: e := by simp
  have hall : (stem.all (· = '.')) = false := by
    obtain ⟨c, hc, hne⟩ := hs
    rw [Bool.eq_false_iff]
    intro hall
    rw [List.all_eq_true] at hall
    have := hall c hc
    simp at this
    exact hne this
  have hlen : (stem ++ '.' :: e).length - e.length - 1 = stem.length := by
    simp only [List.length_append, List.length_cons]; omega
  unfold splitext
  simp only [lastSeg_no_sep '/' _ hno, hdot, if_true, lastSeg_append '.' stem e h3, hlen,
    List.take_left', hall]
  simp

theorem endsWith_append (a b : Path) : endsWith (a ++ b) b = true := by
  simp [endsWith]

/-! ### `normpath` keeps the last component -/

theorem splitOn_snoc (sep : Char) (pre name : Path) (h : sep ∉ name) :
    splitOn sep (pre ++ sep :: name) = splitOn sep pre ++ [name] := by
  induction pre with
  | nil =>
    have := splitOn_no_sep sep name h
    simp [splitOn, this]
  | cons c cs ih =>
    simp only [List.cons_append]
    rw [splitOn, ih]
    cases hs : splitOn sep cs with
    | nil => exact absurd hs (splitOn_ne_nil sep cs)
    | cons f fs =>
      rw [splitOn, hs]
      by_cases hc : c = sep <;> simp [hc]

theorem intercalate_snoc (acc : List Path) (name : Path) :
    intercalate ['/'] (acc ++ [name]) = if acc = [] then name else intercalate ['/'] acc ++ '/' :: name := by
  induction acc with
  | nil => simp [intercalate]
  | cons a as ih =>
    cases as with
    | nil => simp [intercalate]
    | cons b bs =>
      simp only [List.cons_append, intercalate] at ih ⊢
      simp only [reduceCtorEq, if_false] at ih ⊢
      rw [ih]
      simp

theorem normStep_name (n : Nat) (acc : List Path) (name : Path) (h0 : name ≠ []) (h1 : name ≠ ['.'])
    (h2 : name ≠ ['.', '.']) : normStep n acc name = acc ++ [name] := by
  simp [normStep, h0, h1, h2]

/-- the body of `normpath` for a given number of initial slashes -/
def normBody (n : Nat) (p : Path) : Path :=
  let comps := (splitOn '/' p).foldl (normStep n) []
  let r := List.replicate n '/' ++ intercalate ['/'] comps
  if r = [] then ['.'] else r

theorem normpath_eq (p : Path) (h : p ≠ []) : ∃ n, normpath p = normBody n p := by
  unfold normpath
  simp only [h, if_false]
  exact ⟨_, rfl⟩

theorem lastSeg_normBody (n : Nat) (pre name : Path) (hs : '/' ∉ name) (h0 : name ≠ []) (h1 : name ≠ ['.'])
    (h2 : name ≠ ['.', '.']) : lastSeg '/' (normBody n (pre ++ '/' :: name)) = name := by
  unfold normBody
  simp only [splitOn_snoc '/' pre name hs, List.foldl_append, List.foldl_cons, List.foldl_nil,
    normStep_name n _ name h0 h1 h2, intercalate_snoc]
  generalize List.foldl (normStep n) [] (splitOn '/' pre) = acc
  by_cases hacc : acc = []
  · simp only [hacc, if_true]
    have hr : List.replicate n '/' ++ name ≠ [] := by simp [h0]
    simp only [hr, if_false]
    cases n with
    | zero => simpa using lastSeg_no_sep '/' name hs
    | succ k =>
      have : List.replicate (k + 1) '/' ++ name = List.replicate k '/' ++ '/' :: name := by
        rw [List.replicate_succ']; simp
      rw [this]
      exact lastSeg_append '/' _ name hs
  · simp only [hacc, if_false]
    have hr : List.replicate n '/' ++ (intercalate ['/'] acc ++ '/' :: name) ≠ [] := by simp
    simp only [hr, if_false]
    rw [← List.append_assoc]
    exact lastSeg_append '/' _ name hs

/-- `normpath` keeps a non-trivial last component as the last component -/
theorem lastSeg_normpath (pre name : Path) (hs : '/' ∉ name) (h0 : name ≠ []) (h1 : name ≠ ['.'])
    (h2 : name ≠ ['.', '.']) : lastSeg '/' (normpath (pre ++ '/' :: name)) = name := by
  obtain ⟨n, hn⟩ := normpath_eq (pre ++ '/' :: name) (by simp)
  rw [hn]
  exact lastSeg_normBody n pre name hs h0 h1 h2

/-- how a full path determines its file component: the four branches of `parse_archived_filename`
    (no separator; `/` only; `\\` only; both kinds, which goes through `normpath` and splits at `/`) -/
inductive IsPathOf : Path → Path → Prop where
  | bare (name : Path) (h1 : '/' ∉ name) (h2 : '\\' ∉ name) : IsPathOf name name
  | posix (pre name : Path) (h1 : '\\' ∉ pre) (h2 : '/' ∉ name) (h3 : '\\' ∉ name) :
      IsPathOf (pre ++ '/' :: name) name
  | backslash (pre name : Path) (h1 : '/' ∉ pre) (h2 : '/' ∉ name) (h3 : '\\' ∉ name) :
      IsPathOf (pre ++ '\\' :: name) name
  | mixed (pre name : Path) (hm : '\\' ∈ pre ++ '/' :: name) (h2 : '/' ∉ name) (n0 : name ≠ [])
      (n1 : name ≠ ['.']) (n2 : name ≠ ['.', '.']) : IsPathOf (pre ++ '/' :: name) name

theorem splitDirFile_file (p name : Path) (h : IsPathOf p name) : (splitDirFile p).2 = name := by
  cases h with
  | bare _ h1 h2 =>
    have c1 : List.count '\\' p = 0 := List.count_eq_zero.mpr h2
    have c2 : List.count '/' p = 0 := List.count_eq_zero.mpr h1
    simp only [splitDirFile, c1, c2]
    simp
  | posix pre _ h1 h2 h3 =>
    have c1 : List.count '\\' (pre ++ '/' :: name) = 0 := by
      apply List.count_eq_zero.mpr
      simp only [List.mem_append, List.mem_cons, not_or]
      exact ⟨h1, by decide, h3⟩
    have c2 : List.count '/' (pre ++ '/' :: name) > 0 := List.count_pos_iff.mpr (by simp)
    simp only [splitDirFile, c1, c2, posixSplit, lastSeg_append '/' pre name h2]
    simp
  | backslash pre _ h1 h2 h3 =>
    have c1 : List.count '/' (pre ++ '\\' :: name) = 0 := by
      apply List.count_eq_zero.mpr
      simp only [List.mem_append, List.mem_cons, not_or]
      exact ⟨h1, by decide, h2⟩
    have c2 : List.count '\\' (pre ++ '\\' :: name) > 0 := List.count_pos_iff.mpr (by simp)
    simp only [splitDirFile, c1, c2, lastSeg_append '\\' pre name h3]
    simp
  | mixed pre _ hm h2 n0 n1 n2 =>
    have c1 : List.count '\\' (pre ++ '/' :: name) > 0 := List.count_pos_iff.mpr hm
    have c1' : List.count '\\' (pre ++ '/' :: name) ≠ 0 := by omega
    have c2 : List.count '/' (pre ++ '/' :: name) > 0 := List.count_pos_iff.mpr (by simp)
    have c2' : List.count '/' (pre ++ '/' :: name) ≠ 0 := by omega
    simp only [splitDirFile, c1, c1', c2, c2', posixSplit, lastSeg_normpath pre name h2 n0 n1 n2]
    simp

/-- for a path without backslashes the file component is what follows the last `/` -/
theorem splitDirFile_posix (p : Path) (h : '\\' ∉ p) : (splitDirFile p).2 = lastSeg '/' p := by
  have c1 : List.count '\\' p = 0 := List.count_eq_zero.mpr h
  by_cases hs : '/' ∈ p
  · have c2 : List.count '/' p > 0 := List.count_pos_iff.mpr hs
    simp only [splitDirFile, c1, c2, posixSplit]
    simp
  · have c2 : List.count '/' p = 0 := List.count_eq_zero.mpr hs
    simp only [splitDirFile, c1, c2, lastSeg_no_sep '/' p hs]
    simp

/-- single extension: `stem.e` where `.e` is not one of the compression suffixes of the double rule -/
theorem extOfFile_single (stem e : Path) (hs : ∃ c ∈ stem, c ≠ '.') (h1 : '/' ∉ stem) (h2 : '/' ∉ e)
    (h3 : '.' ∉ e) (hd : doubleExtsL.contains ('.' :: e) = false) :
    extOfFile (stem ++ '.' :: e) = '.' :: e := by
  unfold extOfFile
  rw [splitext_name stem e hs h1 h2 h3]
  simp only [hd]
  simp

/-- double extension: `stem.tar.gz` -/
theorem extOfFile_double (stem e : Path) (hs : ∃ c ∈ stem, c ≠ '.') (h1 : '/' ∉ stem) (h2 : '/' ∉ e)
    (h3 : '.' ∉ e) (hb : '/' ∉ doubleBaseSuffix.toList) (hd : doubleExtsL.contains ('.' :: e) = true) :
    extOfFile ((stem ++ doubleBaseSuffix.toList) ++ '.' :: e) = doublePrefix.toList ++ '.' :: e := by
  have hs' : ∃ c ∈ stem ++ doubleBaseSuffix.toList, c ≠ '.' := by
    obtain ⟨c, hc, hne⟩ := hs
    exact ⟨c, by simp [hc], hne⟩
  have h1' : '/' ∉ stem ++ doubleBaseSuffix.toList := by
    simp only [List.mem_append, not_or]; exact ⟨h1, hb⟩
  unfold extOfFile
  rw [splitext_name (stem ++ doubleBaseSuffix.toList) e hs' h1' h2 h3]
  simp only [hd, endsWith_append]
  simp

theorem IsPathOf.no_slash {p name : Path} (h : IsPathOf p name) : '/' ∉ name := by
  cases h with
  | bare _ h1 h2 => exact h1
  | posix pre _ h1 h2 h3 => exact h2
  | backslash pre _ h1 h2 h3 => exact h2
  | mixed pre _ hm h2 n0 n1 n2 => exact h2

theorem parseArchivedFilename_ext (p : Path) :
    (parseArchivedFilename p).ext = extOfFile (splitDirFile p).2 := rfl
theorem parseArchivedFilename_file (p : Path) :
    (parseArchivedFilename p).file = (splitDirFile p).2 := rfl

end Pagexml.C12
