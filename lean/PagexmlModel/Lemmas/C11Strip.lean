/-
`str.strip()` over `List Char` for an arbitrary character class, and how it interacts with
`split(sep)` / `sep.join`.
-/
import PagexmlModel.Model.C11
import PagexmlModel.Lemmas.Split

namespace Pagexml.C11
open Pagexml.C03 (splitOn intercalate splitOn_ne_nil splitOn_no_sep splitOn_append_sep splitOn_intercalate)

def AllSpace (cc : CharClass) (w : List Char) : Prop := ∀ c ∈ w, cc.isSpace c = true

/-- no whitespace at either end (what `strip()` leaves behind); `[]` qualifies -/
def NoEdgeSpace (cc : CharClass) (s : List Char) : Prop :=
  (∀ c, s.head? = some c → cc.isSpace c = false) ∧ (∀ c, s.getLast? = some c → cc.isSpace c = false)

theorem allSpace_nil (cc : CharClass) : AllSpace cc [] := by intro c hc; simp at hc

theorem allSpace_append {cc : CharClass} {a b : List Char} (ha : AllSpace cc a) (hb : AllSpace cc b) :
    AllSpace cc (a ++ b) := by
  intro c hc
  rcases List.mem_append.mp hc with h | h
  · exact ha c h
  · exact hb c h

theorem allSpace_reverse {cc : CharClass} {a : List Char} (ha : AllSpace cc a) : AllSpace cc a.reverse := by
  intro c hc; exact ha c (List.mem_reverse.mp hc)

theorem noEdgeSpace_nil (cc : CharClass) : NoEdgeSpace cc [] := by
  constructor <;> intro c hc <;> simp at hc

/-! ### stripLeft -/

theorem stripLeft_allSpace {cc : CharClass} {w : List Char} (h : AllSpace cc w) : stripLeft cc w = [] := by
  induction w with
  | nil => rfl
  | cons c w ih =>
    have hc : cc.isSpace c = true := h c (by simp)
    simp only [stripLeft, hc, if_true]
    exact ih (fun d hd => h d (by simp [hd]))

theorem stripLeft_allSpace_append {cc : CharClass} {w : List Char} (h : AllSpace cc w) (r : List Char) :
    stripLeft cc (w ++ r) = stripLeft cc r := by
  induction w with
  | nil => rfl
  | cons c w ih =>
    have hc : cc.isSpace c = true := h c (by simp)
    simp only [List.cons_append, stripLeft, hc, if_true]
    exact ih (fun d hd => h d (by simp [hd]))

theorem stripLeft_cons_nonspace {cc : CharClass} {c : Char} (h : cc.isSpace c = false) (r : List Char) :
    stripLeft cc (c :: r) = c :: r := by simp [stripLeft, h]

/-- left-stripping stops at the first non-space character, wherever it is -/
theorem stripLeft_append_nonspace {cc : CharClass} (f : List Char) {c : Char} (h : cc.isSpace c = false)
    (r : List Char) : stripLeft cc (f ++ c :: r) = stripLeft cc f ++ c :: r := by
  induction f with
  | nil => simp [stripLeft, h]
  | cons d f ih =>
    simp only [List.cons_append, stripLeft]
    split
    · exact ih
    · rfl

theorem stripLeft_head {cc : CharClass} {s r : List Char} {c : Char} (h : stripLeft cc s = c :: r) :
    cc.isSpace c = false := by
  induction s with
  | nil => simp [stripLeft] at h
  | cons d s ih =>
    simp only [stripLeft] at h
    split at h
    · exact ih h
    · rename_i hd
      simp at h
      rw [← h.1]; simpa using hd

/-- `s = w ++ stripLeft s` with `w` whitespace -/
theorem stripLeft_decomp (cc : CharClass) (s : List Char) :
    ∃ w, AllSpace cc w ∧ s = w ++ stripLeft cc s := by
  induction s with
  | nil => exact ⟨[], allSpace_nil cc, rfl⟩
  | cons d s ih =>
    simp only [stripLeft]
    split
    · rename_i hd
      obtain ⟨w, hw, e⟩ := ih
      refine ⟨d :: w, ?_, by rw [List.cons_append, ← e]⟩
      intro c hc
      rcases List.mem_cons.mp hc with rfl | hc
      · exact hd
      · exact hw c hc
    · exact ⟨[], allSpace_nil cc, rfl⟩

theorem mem_stripLeft {cc : CharClass} {s : List Char} {c : Char} (h : c ∈ stripLeft cc s) : c ∈ s := by
  obtain ⟨w, _, e⟩ := stripLeft_decomp cc s
  rw [e]; exact List.mem_append_right _ h

/-! ### stripRight -/

theorem stripRight_allSpace {cc : CharClass} {w : List Char} (h : AllSpace cc w) : stripRight cc w = [] := by
  simp [stripRight, stripLeft_allSpace (allSpace_reverse h)]

theorem stripRight_append_allSpace {cc : CharClass} (r : List Char) {w : List Char} (h : AllSpace cc w) :
    stripRight cc (r ++ w) = stripRight cc r := by
  simp [stripRight, stripLeft_allSpace_append (allSpace_reverse h)]

/-- right-stripping stops at the last non-space character, wherever it is -/
theorem stripRight_append_nonspace {cc : CharClass} (x : List Char) {c : Char} (h : cc.isSpace c = false)
    (r : List Char) : stripRight cc (x ++ c :: r) = x ++ c :: stripRight cc r := by
  unfold stripRight
  have e : (x ++ c :: r).reverse = r.reverse ++ c :: x.reverse := by simp
  rw [e, stripLeft_append_nonspace _ h]
  simp

theorem stripRight_snoc_nonspace {cc : CharClass} (x : List Char) {c : Char} (h : cc.isSpace c = false) :
    stripRight cc (x ++ [c]) = x ++ [c] := by
  have := stripRight_append_nonspace x h []
  simpa [stripRight, stripLeft] using this

theorem stripRight_decomp (cc : CharClass) (s : List Char) :
    ∃ w, AllSpace cc w ∧ s = stripRight cc s ++ w := by
  obtain ⟨w, hw, e⟩ := stripLeft_decomp cc s.reverse
  refine ⟨w.reverse, allSpace_reverse hw, ?_⟩
  have := congrArg List.reverse e
  simpa [stripRight] using this

theorem mem_stripRight {cc : CharClass} {s : List Char} {c : Char} (h : c ∈ stripRight cc s) : c ∈ s := by
  obtain ⟨w, _, e⟩ := stripRight_decomp cc s
  rw [e]; exact List.mem_append_left _ h

theorem stripRight_last {cc : CharClass} {s : List Char} {c : Char}
    (h : (stripRight cc s).getLast? = some c) : cc.isSpace c = false := by
  unfold stripRight at h
  rw [List.getLast?_reverse] at h
  cases hs : stripLeft cc s.reverse with
  | nil => rw [hs] at h; simp at h
  | cons d r =>
    rw [hs] at h
    simp at h
    rw [← h]; exact stripLeft_head hs

/-! ### strip -/

theorem mem_strip {cc : CharClass} {s : List Char} {c : Char} (h : c ∈ strip cc s) : c ∈ s :=
  mem_stripLeft (mem_stripRight h)

theorem strip_allSpace {cc : CharClass} {w : List Char} (h : AllSpace cc w) : strip cc w = [] := by
  simp [strip, stripLeft_allSpace h, stripRight, stripLeft]

/-- what `strip()` returns has no whitespace at its ends -/
theorem noEdgeSpace_strip (cc : CharClass) (s : List Char) : NoEdgeSpace cc (strip cc s) := by
  constructor
  · intro c hc
    unfold strip at hc
    obtain ⟨w, _, e⟩ := stripRight_decomp cc (stripLeft cc s)
    cases hr : stripRight cc (stripLeft cc s) with
    | nil => rw [hr] at hc; simp at hc
    | cons d r =>
      rw [hr] at hc e
      simp at hc
      rw [← hc]
      exact stripLeft_head e
  · intro c hc
    exact stripRight_last hc

/-- `strip (a ++ m ++ b) = m` when `a`, `b` are whitespace and `m` has none at its ends -/
theorem strip_sandwich {cc : CharClass} {a m b : List Char} (ha : AllSpace cc a) (hb : AllSpace cc b)
    (hm : NoEdgeSpace cc m) : strip cc (a ++ m ++ b) = m := by
  unfold strip
  rw [List.append_assoc, stripLeft_allSpace_append ha]
  cases m with
  | nil => simp [stripLeft_allSpace hb, stripRight, stripLeft]
  | cons c m' =>
    have hc : cc.isSpace c = false := hm.1 c rfl
    rw [List.cons_append, stripLeft_cons_nonspace hc, ← List.cons_append, stripRight_append_allSpace _ hb]
    -- the last character of c :: m' is not a space
    have hne : (c :: m') ≠ [] := by simp
    obtain ⟨x, l, e⟩ : ∃ x l, c :: m' = x ++ [l] := ⟨(c :: m').dropLast, (c :: m').getLast hne,
      (List.dropLast_concat_getLast hne).symm⟩
    have hl : cc.isSpace l = false := hm.2 l (by rw [e]; simp)
    rw [e]; exact stripRight_snoc_nonspace x hl

theorem strip_noEdgeSpace {cc : CharClass} {m : List Char} (hm : NoEdgeSpace cc m) : strip cc m = m := by
  have := strip_sandwich (allSpace_nil cc) (allSpace_nil cc) hm
  simpa using this

/-! ### strip and `sep.join` -/

def mapHead {α} (g : α → α) : List α → List α
  | [] => []
  | x :: xs => g x :: xs

def mapLast {α} (g : α → α) : List α → List α
  | [] => []
  | [x] => [g x]
  | x :: y :: xs => x :: mapLast g (y :: xs)

theorem mapLast_ne_nil {α} (g : α → α) {l : List α} (h : l ≠ []) : mapLast g l ≠ [] := by
  cases l with
  | nil => exact absurd rfl h
  | cons x xs => cases xs <;> simp [mapLast]

theorem mapLast_append_singleton {α} (g : α → α) (l : List α) (x : α) :
    mapLast g (l ++ [x]) = l ++ [g x] := by
  induction l with
  | nil => rfl
  | cons y l ih =>
    cases l with
    | nil => rfl
    | cons z l => simp only [List.cons_append, mapLast] at ih ⊢; rw [ih]

theorem mem_mapLast {α} {g : α → α} {l : List α} {y : α} (h : y ∈ mapLast g l) :
    y ∈ l ∨ ∃ x ∈ l, y = g x := by
  induction l with
  | nil => simp [mapLast] at h
  | cons a l ih =>
    cases l with
    | nil => simp [mapLast] at h; exact Or.inr ⟨a, by simp, h⟩
    | cons b l =>
      simp only [mapLast, List.mem_cons] at h
      rcases h with rfl | h
      · exact Or.inl (by simp)
      · rcases ih (by simpa [List.mem_cons] using h) with h' | ⟨x, hx, e⟩
        · exact Or.inl (List.mem_cons_of_mem _ h')
        · exact Or.inr ⟨x, List.mem_cons_of_mem _ hx, e⟩

theorem intercalate_cons_cons (sep : List Char) (a b : List Char) (rest : List (List Char)) :
    intercalate sep (a :: b :: rest) = a ++ sep ++ intercalate sep (b :: rest) := rfl

theorem stripLeft_intercalate {cc : CharClass} {sep : Char} (hsep : cc.isSpace sep = false)
    (F : List (List Char)) : stripLeft cc (intercalate [sep] F) = intercalate [sep] (mapHead (stripLeft cc) F) := by
  cases F with
  | nil => rfl
  | cons f F =>
    cases F with
    | nil => rfl
    | cons g rest =>
      simp only [mapHead, intercalate_cons_cons, List.append_assoc, List.singleton_append]
      exact stripLeft_append_nonspace f hsep _

theorem stripRight_intercalate {cc : CharClass} {sep : Char} (hsep : cc.isSpace sep = false)
    (F : List (List Char)) : stripRight cc (intercalate [sep] F) = intercalate [sep] (mapLast (stripRight cc) F) := by
  induction F with
  | nil => rfl
  | cons f F ih =>
    cases F with
    | nil => rfl
    | cons g rest =>
      have hml : mapLast (stripRight cc) (f :: g :: rest) = f :: mapLast (stripRight cc) (g :: rest) := rfl
      obtain ⟨g', rest', e⟩ : ∃ g' rest', mapLast (stripRight cc) (g :: rest) = g' :: rest' := by
        cases hm : mapLast (stripRight cc) (g :: rest) with
        | nil => exact absurd hm (mapLast_ne_nil _ (by simp))
        | cons g' rest' => exact ⟨g', rest', rfl⟩
      rw [hml, e, intercalate_cons_cons, intercalate_cons_cons, ← e, ← ih]
      simp only [List.append_assoc, List.singleton_append]
      exact stripRight_append_nonspace f hsep _

/-- the fields of `strip(sep.join(F)).split(sep)`: only the first and the last field change -/
theorem splitOn_strip_intercalate {cc : CharClass} {sep : Char} (hsep : cc.isSpace sep = false)
    (F : List (List Char)) (hne : F ≠ []) (h : ∀ f ∈ F, sep ∉ f) :
    splitOn sep (strip cc (intercalate [sep] F)) = mapLast (stripRight cc) (mapHead (stripLeft cc) F) := by
  unfold strip
  rw [stripLeft_intercalate hsep, stripRight_intercalate hsep]
  apply splitOn_intercalate
  · apply mapLast_ne_nil
    cases F with
    | nil => exact absurd rfl hne
    | cons f F => simp [mapHead]
  · intro t ht hmem
    have hin : ∀ u ∈ mapHead (stripLeft cc) F, sep ∉ u := by
      intro u hu
      cases F with
      | nil => simp [mapHead] at hu
      | cons f F =>
        simp only [mapHead, List.mem_cons] at hu
        rcases hu with rfl | hu
        · intro hm; exact h f (by simp) (mem_stripLeft hm)
        · exact h u (by simp [hu])
    rcases mem_mapLast ht with h' | ⟨x, hx, rfl⟩
    · exact hin t h' hmem
    · exact hin x hx (mem_stripRight hmem)

end Pagexml.C11
