/-
The column check `cfgOk` holds for every list of boundary points and every `max_word_length` that
is a positive multiple of the bin size 5 (C20).
-/
import PagexmlModel.Lemmas.C20Tables

set_option linter.unusedSectionVars false
set_option linter.unusedSimpArgs false

namespace Pagexml.C20

/-! ### the labels of the word-length bins -/

def binLabels (k : Nat) : List Nat := (List.range k).map (fun i => 5 * (i + 1))

theorem binLabels_succ (k : Nat) : binLabels (k + 1) = binLabels k ++ [5 * (k + 1)] := by
  simp [binLabels, List.range_succ]

/-- number of bins after the lengths `1 … n` -/
def binsAfter (n : Nat) : Nat := if n = 0 then 1 else (n + 4) / 5

/-- invariant of the bin loop after the lengths `1 … n`: the current bin is `5·(k+1)` with
    `k + 1 = binsAfter n`, the earlier ones are `5, 10, …, 5·k` -/
def BinInv (n : Nat) (st : List (Nat × Nat)) : Prop :=
  ∃ k c r, st = (5 * (k + 1), c) :: r ∧ r.map (·.1) = (binLabels k).reverse ∧ k + 1 = binsAfter n ∧ n ≤ 5 * (k + 1)

theorem binInv_step (f : Nat → Nat) (n : Nat) (st : List (Nat × Nat)) (h : BinInv n st) :
    BinInv (n + 1) (binStep 5 f st (1 + n)) := by
  obtain ⟨k, c, r, rfl, hr, hk, hn⟩ := h
  simp only [binStep]
  by_cases hgt : 1 + n > 5 * (k + 1)
  · simp only [hgt, if_true]
    refine ⟨k + 1, f (1 + n), (5 * (k + 1), c) :: r, by simp; omega, ?_, ?_, ?_⟩
    · simp [binLabels_succ, hr]
    · simp only [binsAfter] at hk ⊢
      split at hk <;> simp <;> omega
    · omega
  · simp only [hgt, if_false]
    refine ⟨k, c + f (1 + n), r, rfl, hr, ?_, ?_⟩
    · simp only [binsAfter] at hk ⊢
      split at hk <;> simp <;> omega
    · omega

theorem binInv_fold (f : Nat → Nat) (n : Nat) : BinInv n ((List.range' 1 n).foldl (binStep 5 f) [(5, 0)]) := by
  induction n with
  | zero => exact ⟨0, 0, [], rfl, rfl, by simp [binsAfter], by omega⟩
  | succ m ih =>
    rw [List.range'_concat, List.foldl_append]
    simp only [List.foldl_cons, List.foldl_nil, Nat.one_mul]
    exact binInv_step f m _ ih

/-- for `max_word_length = 5·(k+1)` the bins are `5, 10, …, 5·(k+1)` — exactly the
    `num_words_length_*` columns `_init_doc_stats` creates -/
theorem lengthBins_labels_eq (f : Nat → Nat) (k : Nat) :
    (lengthBins 5 (5 * (k + 1)) f).map (·.1) = binLabels (k + 1) := by
  obtain ⟨j, c, r, hst, hr, hj, _⟩ := binInv_fold f (5 * (k + 1))
  have hjk : j = k := by
    simp only [binsAfter] at hj
    split at hj <;> omega
  subst hjk
  simp only [lengthBins, hst, List.reverse_cons, List.map_append, List.map_reverse, hr, List.reverse_reverse,
    List.map_cons, List.map_nil, binLabels_succ]

/-! ### nodup helpers -/

theorem nodup_map_of_inj {β γ : Type} (f : β → γ) (hf : ∀ a b, f a = f b → a = b) (l : List β) (h : l.Nodup) :
    (l.map f).Nodup :=
  List.Pairwise.map f (fun a b hab e => hab (hf a b e)) h

theorem nodup_binLabels (k : Nat) : (binLabels k).Nodup :=
  nodup_map_of_inj _ (fun a b e => by omega) _ List.nodup_range

/-! ### the check -/

def fixedCols : List Col :=
  [Col.docId, .docNum, .docWidth, .docHeight] ++ (List.range numElems).map Col.elem ++
  [.numWords, .numAlpha, .numNumber, .numTitle, .numNonTitle, .numStop, .numPunct, .numOversized]

def wplLabels : List String := Generated.C20.wplCats.map (fun c => c.1)

/-- kind of a column: 0 fixed, 1 word length, 2 words per line, 3 alpha words per line, 4 line width -/
def colKind : Col → Nat
  | .wordLen _ => 1
  | .wpl _ => 2
  | .awpl _ => 3
  | .lineWidth _ => 4
  | _ => 0

theorem kind_fixed : ∀ c ∈ fixedCols, colKind c = 0 := by decide

theorem nodup_fixed : fixedCols.Nodup := by decide

theorem nodup_append_of_kinds (xs ys : List Col) (hx : xs.Nodup) (hy : ys.Nodup) (k : Nat)
    (hxk : ∀ c ∈ xs, colKind c < k) (hyk : ∀ c ∈ ys, colKind c = k) : (xs ++ ys).Nodup := by
  refine List.nodup_append.mpr ⟨hx, hy, ?_⟩
  intro a ha b hb e
  subst e
  have := hxk a ha
  have := hyk a hb
  omega

theorem cfgOk_of_multiple (bps : List Int) (useStop : Bool) (k : Nat) :
    cfgOk { bps := bps, useStop := useStop, maxLen := 5 * (k + 1) } = true := by
  obtain ⟨_, hnR, hmemR⟩ := lineWidthInit_spec bps
  -- the five groups of row columns
  have eB : (lengthBins 5 (5 * (k + 1)) (fun _ => 0)).map (fun b => Col.wordLen b.1) = (binLabels (k + 1)).map Col.wordLen := by
    have := congrArg (List.map Col.wordLen) (lengthBins_labels_eq (fun _ => 0) k)
    simpa only [List.map_map, Function.comp_def] using this
  have eRow : rowKeysCfg { bps := bps, useStop := useStop, maxLen := 5 * (k + 1) } =
      fixedCols ++ (binLabels (k + 1)).map Col.wordLen ++ wplLabels.map Col.wpl ++ wplLabels.map Col.awpl ++
      (ckeys (lineWidthInit bps)).map Col.lineWidth := by
    simp only [rowKeysCfg, eB, fixedCols, wplLabels]
  have eInit : tkeys (initDocStats { bps := bps, useStop := useStop, maxLen := 5 * (k + 1) }) =
      dedupKeep (fixedCols ++ wplLabels.map Col.wpl ++ wplLabels.map Col.awpl ++ (binLabels (k + 1)).map Col.wordLen ++
        (boundaryWidthRanges bps).map Col.lineWidth) := by
    have hk : 5 * (k + 1) / 5 = k + 1 := by omega
    simp only [initDocStats, tkeys, List.map_map, Function.comp_def, List.map_id', hk, fixedCols, wplLabels, binLabels]
  have hmem : ∀ c, c ∈ rowKeysCfg { bps := bps, useStop := useStop, maxLen := 5 * (k + 1) } ↔
      c ∈ tkeys (initDocStats { bps := bps, useStop := useStop, maxLen := 5 * (k + 1) }) := by
    intro c
    rw [eRow, eInit, mem_dedupKeep]
    simp only [List.mem_append, List.mem_map, hmemR]
    constructor
    · rintro ((((h | h) | h) | h) | h)
      · exact Or.inl (Or.inl (Or.inl (Or.inl h)))
      · exact Or.inl (Or.inr h)
      · exact Or.inl (Or.inl (Or.inl (Or.inr h)))
      · exact Or.inl (Or.inl (Or.inr h))
      · exact Or.inr h
    · rintro ((((h | h) | h) | h) | h)
      · exact Or.inl (Or.inl (Or.inl (Or.inl h)))
      · exact Or.inl (Or.inl (Or.inr h))
      · exact Or.inl (Or.inr h)
      · exact Or.inl (Or.inl (Or.inl (Or.inr h)))
      · exact Or.inr h
  have hnd : (rowKeysCfg { bps := bps, useStop := useStop, maxLen := 5 * (k + 1) }).Nodup := by
    rw [eRow]
    have n1 : (fixedCols ++ (binLabels (k + 1)).map Col.wordLen).Nodup :=
      nodup_append_of_kinds _ _ nodup_fixed
        (nodup_map_of_inj _ (fun a b e => by injection e) _ (nodup_binLabels _)) 1
        (fun c hc => by rw [kind_fixed c hc]; omega)
        (fun c hc => by obtain ⟨_, _, rfl⟩ := List.mem_map.mp hc; rfl)
    have k1 : ∀ c ∈ fixedCols ++ (binLabels (k + 1)).map Col.wordLen, colKind c < 2 := by
      intro c hc
      rcases List.mem_append.mp hc with h | h
      · rw [kind_fixed c h]; omega
      · obtain ⟨_, _, rfl⟩ := List.mem_map.mp h; simp [colKind]
    have n2 := nodup_append_of_kinds _ (wplLabels.map Col.wpl) n1
      (nodup_map_of_inj _ (fun a b e => by injection e) _ wpl_labels_nodup) 2 k1
      (fun c hc => by obtain ⟨_, _, rfl⟩ := List.mem_map.mp hc; rfl)
    have k2 : ∀ c ∈ fixedCols ++ (binLabels (k + 1)).map Col.wordLen ++ wplLabels.map Col.wpl, colKind c < 3 := by
      intro c hc
      rcases List.mem_append.mp hc with h | h
      · have := k1 c h; omega
      · obtain ⟨_, _, rfl⟩ := List.mem_map.mp h; simp [colKind]
    have n3 := nodup_append_of_kinds _ (wplLabels.map Col.awpl) n2
      (nodup_map_of_inj _ (fun a b e => by injection e) _ wpl_labels_nodup) 3 k2
      (fun c hc => by obtain ⟨_, _, rfl⟩ := List.mem_map.mp hc; rfl)
    have k3 : ∀ c ∈ fixedCols ++ (binLabels (k + 1)).map Col.wordLen ++ wplLabels.map Col.wpl ++ wplLabels.map Col.awpl,
        colKind c < 4 := by
      intro c hc
      rcases List.mem_append.mp hc with h | h
      · have := k2 c h; omega
      · obtain ⟨_, _, rfl⟩ := List.mem_map.mp h; simp [colKind]
    exact nodup_append_of_kinds _ ((ckeys (lineWidthInit bps)).map Col.lineWidth) n3
      (nodup_map_of_inj _ (fun a b e => by injection e) _ hnR) 4 k3
      (fun c hc => by obtain ⟨_, _, rfl⟩ := List.mem_map.mp hc; rfl)
  simp only [cfgOk, Bool.and_eq_true, List.all_eq_true, decide_eq_true_eq]
  exact ⟨⟨hnd, fun c hc => (hmem c).mp hc⟩, fun c hc => (hmem c).mpr hc⟩

end Pagexml.C20
