/-
The column check `cfgOk` holds for every list of boundary points, every bin size `s > 0` (the same for
`_init_doc_stats` and `get_word_cat_stats`) and every `max_word_length` that is a positive multiple of `s`
(C20).  Nothing here looks at the regenerated values.
-/
import PagexmlModel.Lemmas.C20Tables

set_option linter.unusedSectionVars false
set_option linter.unusedSimpArgs false

namespace Pagexml.C20

/-! ### the labels of the word-length bins (any bin size `s`) -/

def binLabels (s k : Nat) : List Nat := (List.range k).map (fun i => s * (i + 1))

theorem binLabels_succ (s k : Nat) : binLabels s (k + 1) = binLabels s k ++ [s * (k + 1)] := by
  simp [binLabels, List.range_succ]

/-- invariant of the bin loop after the lengths `1 … n`: the current bin is `s·(k+1)`, the earlier ones are
    `s, 2s, …, s·k`; the current bin covers `n`, and it was opened because `n` exceeded the one before -/
def BinInv (s n : Nat) (st : List (Nat × Nat)) : Prop :=
  ∃ k c r, st = (s * (k + 1), c) :: r ∧ r.map (·.1) = (binLabels s k).reverse ∧ n ≤ s * (k + 1) ∧
    (k = 0 ∨ s * k < n)

theorem binInv_step (s : Nat) (hs : 0 < s) (f : Nat → Nat) (n : Nat) (st : List (Nat × Nat)) (h : BinInv s n st) :
    BinInv s (n + 1) (binStep s f st (1 + n)) := by
  obtain ⟨k, c, r, rfl, hr, hn, hk⟩ := h
  have hs' : ¬ s = 0 := by omega
  have e1 : s * (k + 1) = s * k + s := Nat.mul_succ s k
  have e2 : s * (k + 1 + 1) = s * k + s + s := by rw [Nat.mul_succ, e1]
  simp only [binStep, hs', if_false]
  by_cases hgt : 1 + n > s * (k + 1)
  · simp only [hgt, if_true]
    refine ⟨k + 1, f (1 + n), (s * (k + 1), c) :: r, ?_, ?_, ?_, ?_⟩
    · rw [e2, e1]
    · simp [binLabels_succ, hr]
    · omega
    · right; omega
  · simp only [hgt, if_false]
    refine ⟨k, c + f (1 + n), r, rfl, hr, ?_, ?_⟩
    · omega
    · rcases hk with hk | hk
      · exact Or.inl hk
      · right; omega

theorem binInv_fold (s : Nat) (hs : 0 < s) (f : Nat → Nat) (n : Nat) :
    BinInv s n ((List.range' 1 n).foldl (binStep s f) [(s, 0)]) := by
  induction n with
  | zero => exact ⟨0, 0, [], by simp, rfl, by omega, Or.inl rfl⟩
  | succ m ih =>
    rw [List.range'_concat, List.foldl_append]
    simp only [List.foldl_cons, List.foldl_nil, Nat.one_mul]
    exact binInv_step s hs f m _ ih

/-- for every bin size `s > 0` and `max_word_length = s·(k+1)` the bins `get_word_cat_stats` produces are
    `s, 2s, …, s·(k+1)` — exactly the `num_words_length_*` columns `_init_doc_stats` creates for the same
    bin size -/
theorem lengthBins_labels_eq (s : Nat) (hs : 0 < s) (f : Nat → Nat) (k : Nat) :
    (lengthBins s (s * (k + 1)) f).map (·.1) = binLabels s (k + 1) := by
  obtain ⟨j, c, r, hst, hr, hle, hlt⟩ := binInv_fold s hs f (s * (k + 1))
  have hjk : j = k := by
    have h1 : k + 1 ≤ j + 1 := Nat.le_of_mul_le_mul_left hle hs
    rcases hlt with h0 | hlt
    · omega
    · have h2 : j < k + 1 := Nat.lt_of_mul_lt_mul_left hlt
      omega
  subst hjk
  simp only [lengthBins, hst, List.reverse_cons, List.map_append, List.map_reverse, hr, List.reverse_reverse,
    List.map_cons, List.map_nil, binLabels_succ]

/-! ### nodup helpers -/

theorem nodup_map_of_inj {β γ : Type} (f : β → γ) (hf : ∀ a b, f a = f b → a = b) (l : List β) (h : l.Nodup) :
    (l.map f).Nodup :=
  List.Pairwise.map f (fun a b hab e => hab (hf a b e)) h

theorem nodup_binLabels (s : Nat) (hs : 0 < s) (k : Nat) : (binLabels s k).Nodup :=
  nodup_map_of_inj _ (fun a b e => by have := Nat.eq_of_mul_eq_mul_left hs e; omega) _ List.nodup_range

/-! ### the check -/

def wplLabels : List String := Generated.C20.wplCats.map (fun c => c.1)

/-- kind of a column: 0 fixed, 1 word length, 2 words per line, 3 alpha words per line, 4 line width -/
def colKind : Col → Nat
  | .wordLen _ => 1
  | .wpl _ => 2
  | .awpl _ => 3
  | .lineWidth _ => 4
  | _ => 0

theorem kind_fixed : ∀ c ∈ fixedCols, colKind c = 0 := by
  intro c hc
  simp only [fixedCols, List.mem_append, List.mem_map, List.mem_cons, List.not_mem_nil, or_false] at hc
  rcases hc with (hc | ⟨_, _, rfl⟩) | hc
  · rcases hc with rfl | rfl | rfl | rfl <;> rfl
  · rfl
  · rcases hc with rfl | rfl | rfl | rfl | rfl | rfl | rfl | rfl <;> rfl

/-- `elem` column or not -/
def isElem : Col → Bool
  | .elem _ => true
  | _ => false

/-- the fixed columns are distinct, however many entries DEFAULT_ELEMENTS has -/
theorem nodup_fixed : fixedCols.Nodup := by
  unfold fixedCols
  have hA : ∀ c ∈ [Col.docId, .docNum, .docWidth, .docHeight], isElem c = false := by decide
  have hB : ∀ c ∈ [Col.numWords, .numAlpha, .numNumber, .numTitle, .numNonTitle, .numStop, .numPunct, .numOversized],
      isElem c = false := by decide
  have hAB : ∀ a ∈ [Col.docId, .docNum, .docWidth, .docHeight],
      ∀ b ∈ [Col.numWords, .numAlpha, .numNumber, .numTitle, .numNonTitle, .numStop, .numPunct, .numOversized], a ≠ b := by
    decide
  have hM : ∀ c ∈ (List.range numElems).map Col.elem, isElem c = true := by
    intro c hc
    obtain ⟨_, _, rfl⟩ := List.mem_map.mp hc
    rfl
  have nM : ((List.range numElems).map Col.elem).Nodup :=
    nodup_map_of_inj _ (fun a b e => by injection e) _ List.nodup_range
  refine List.nodup_append.mpr ⟨List.nodup_append.mpr ⟨by decide, nM, ?_⟩, by decide, ?_⟩
  · intro a ha b hb e
    subst e
    have h1 := hA a ha
    have h2 := hM a hb
    simp [h1] at h2
  · intro a ha b hb e
    subst e
    rcases List.mem_append.mp ha with ha | ha
    · exact hAB a ha a hb rfl
    · have h1 := hM a ha
      have h2 := hB a hb
      simp [h1] at h2

theorem nodup_append_of_kinds (xs ys : List Col) (hx : xs.Nodup) (hy : ys.Nodup) (k : Nat)
    (hxk : ∀ c ∈ xs, colKind c < k) (hyk : ∀ c ∈ ys, colKind c = k) : (xs ++ ys).Nodup := by
  refine List.nodup_append.mpr ⟨hx, hy, ?_⟩
  intro a ha b hb e
  subst e
  have := hxk a ha
  have := hyk a hb
  omega

theorem cfgOk_of_multiple (bps : List Int) (useStop : Bool) (s : Nat) (hs : 0 < s) (k : Nat) :
    cfgOk { bps := bps, useStop := useStop, maxLen := s * (k + 1), initSize := s, wordSize := s } = true := by
  obtain ⟨_, hnR, hmemR⟩ := lineWidthInit_spec bps
  -- the five groups of row columns
  have eB : (lengthBins s (s * (k + 1)) (fun _ => 0)).map (fun b => Col.wordLen b.1) = (binLabels s (k + 1)).map Col.wordLen := by
    have := congrArg (List.map Col.wordLen) (lengthBins_labels_eq s hs (fun _ => 0) k)
    simpa only [List.map_map, Function.comp_def] using this
  have eRow : rowKeysCfg { bps := bps, useStop := useStop, maxLen := s * (k + 1), initSize := s, wordSize := s } =
      fixedCols ++ (binLabels s (k + 1)).map Col.wordLen ++ wplLabels.map Col.wpl ++ wplLabels.map Col.awpl ++
      (ckeys (lineWidthInit bps)).map Col.lineWidth := by
    simp only [rowKeysCfg, eB, fixedCols, wplLabels]
  have eInit : tkeys (initDocStats { bps := bps, useStop := useStop, maxLen := s * (k + 1), initSize := s, wordSize := s }) =
      dedupKeep (fixedCols ++ wplLabels.map Col.wpl ++ wplLabels.map Col.awpl ++ (binLabels s (k + 1)).map Col.wordLen ++
        (boundaryWidthRanges bps).map Col.lineWidth) := by
    have hk : s * (k + 1) / s = k + 1 := Nat.mul_div_cancel_left (k + 1) hs
    simp only [initDocStats, tkeys, List.map_map, Function.comp_def, List.map_id', hk, fixedCols, wplLabels, binLabels]
  have hmem : ∀ c, c ∈ rowKeysCfg { bps := bps, useStop := useStop, maxLen := s * (k + 1), initSize := s, wordSize := s } ↔
      c ∈ tkeys (initDocStats { bps := bps, useStop := useStop, maxLen := s * (k + 1), initSize := s, wordSize := s }) := by
    intro c
    rw [eRow, eInit, mem_dedupKeep]
    simp only [List.mem_append, List.mem_map, hmemR]
    constructor
    · rintro ((((h | h) | h) | h) | h)
      · exact Or.inl (Or.inl (Or.inl (Or.inl h)))
      · exact Or.inl (Or.inr h)
      · exact Or.inl (Or.inl (Or.inl (Or.inr h)))
      · exact Or.inl (Or.inl (Or.inr h))
      · exact Or.inr h
    · rintro ((((h | h) | h) | h) | h)
      · exact Or.inl (Or.inl (Or.inl (Or.inl h)))
      · exact Or.inl (Or.inl (Or.inr h))
      · exact Or.inl (Or.inr h)
      · exact Or.inl (Or.inl (Or.inl (Or.inr h)))
      · exact Or.inr h
  have hnd : (rowKeysCfg { bps := bps, useStop := useStop, maxLen := s * (k + 1), initSize := s, wordSize := s }).Nodup := by
    rw [eRow]
    have n1 : (fixedCols ++ (binLabels s (k + 1)).map Col.wordLen).Nodup :=
      nodup_append_of_kinds _ _ nodup_fixed
        (nodup_map_of_inj _ (fun a b e => by injection e) _ (nodup_binLabels s hs _)) 1
        (fun c hc => by rw [kind_fixed c hc]; omega)
        (fun c hc => by obtain ⟨_, _, rfl⟩ := List.mem_map.mp hc; rfl)
    have k1 : ∀ c ∈ fixedCols ++ (binLabels s (k + 1)).map Col.wordLen, colKind c < 2 := by
      intro c hc
      rcases List.mem_append.mp hc with h | h
      · rw [kind_fixed c h]; omega
      · obtain ⟨_, _, rfl⟩ := List.mem_map.mp h; simp [colKind]
    have n2 := nodup_append_of_kinds _ (wplLabels.map Col.wpl) n1
      (nodup_map_of_inj _ (fun a b e => by injection e) _ wpl_labels_nodup) 2 k1
      (fun c hc => by obtain ⟨_, _, rfl⟩ := List.mem_map.mp hc; rfl)
    have k2 : ∀ c ∈ fixedCols ++ (binLabels s (k + 1)).map Col.wordLen ++ wplLabels.map Col.wpl, colKind c < 3 := by
      intro c hc
      rcases List.mem_append.mp hc with h | h
      · have := k1 c h; omega
      · obtain ⟨_, _, rfl⟩ := List.mem_map.mp h; simp [colKind]
    have n3 := nodup_append_of_kinds _ (wplLabels.map Col.awpl) n2
      (nodup_map_of_inj _ (fun a b e => by injection e) _ wpl_labels_nodup) 3 k2
      (fun c hc => by obtain ⟨_, _, rfl⟩ := List.mem_map.mp hc; rfl)
    have k3 : ∀ c ∈ fixedCols ++ (binLabels s (k + 1)).map Col.wordLen ++ wplLabels.map Col.wpl ++ wplLabels.map Col.awpl,
        colKind c < 4 := by
      intro c hc
      rcases List.mem_append.mp hc with h | h
      · have := k2 c h; omega
      · obtain ⟨_, _, rfl⟩ := List.mem_map.mp h; simp [colKind]
    exact nodup_append_of_kinds _ ((ckeys (lineWidthInit bps)).map Col.lineWidth) n3
      (nodup_map_of_inj _ (fun a b e => by injection e) _ hnR) 4 k3
      (fun c hc => by obtain ⟨_, _, rfl⟩ := List.mem_map.mp hc; rfl)
  simp only [cfgOk, Bool.and_eq_true, List.all_eq_true, decide_eq_true_eq]
  exact ⟨⟨⟨hs, hnd⟩, fun c hc => (hmem c).mp hc⟩, fun c hc => (hmem c).mpr hc⟩

end Pagexml.C20
