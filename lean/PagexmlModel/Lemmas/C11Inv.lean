/-
What holds for everything `parse_custom_attributes` returns (on any input), and the shape of
`make_custom_string` on such entries: it is a rendered grammar string in a canonical layout.
-/
import PagexmlModel.Lemmas.C11Master
import PagexmlModel.Lemmas.PyInt

namespace Pagexml.C11
open Pagexml.C03 (splitOn intercalate splitOn_ne_nil)

/-! ### fields of `split` -/

theorem mem_splitOn {sep : Char} : ∀ (s : List Char) (f : List Char), f ∈ splitOn sep s →
    sep ∉ f ∧ ∀ c ∈ f, c ∈ s := by
  intro s
  induction s with
  | nil => intro f hf; simp [splitOn] at hf; subst hf; simp
  | cons d s ih =>
    intro f hf
    unfold splitOn at hf
    cases hs : splitOn sep s with
    | nil => exact absurd hs (splitOn_ne_nil sep s)
    | cons g gs =>
      rw [hs] at hf
      simp only at hf
      have ihg := ih g (by rw [hs]; simp)
      split at hf
      · rename_i hd
        simp only [List.mem_cons] at hf
        rcases hf with rfl | rfl | hf
        · simp
        · exact ⟨ihg.1, fun c hc => List.mem_cons_of_mem _ (ihg.2 c hc)⟩
        · have := ih f (by rw [hs]; simp [hf])
          exact ⟨this.1, fun c hc => List.mem_cons_of_mem _ (this.2 c hc)⟩
      · rename_i hd
        simp only [List.mem_cons] at hf
        rcases hf with rfl | hf
        · refine ⟨?_, ?_⟩
          · intro hm
            rcases List.mem_cons.mp hm with e | e
            · exact hd e.symm
            · exact ihg.1 e
          · intro c hc
            rcases List.mem_cons.mp hc with e | e
            · simp [e]
            · exact List.mem_cons_of_mem _ (ihg.2 c e)
        · have := ih f (by rw [hs]; simp [hf])
          exact ⟨this.1, fun c hc => List.mem_cons_of_mem _ (this.2 c hc)⟩

/-! ### the invariant of parsed dicts -/

def ValOK (cc : CharClass) (k : Key) : Val → Prop
  | .str s => k ∉ Gen.intKeys ∧ Clean s ∧ NoEdgeSpace cc s
  | .int _ => k ∈ Gen.intKeys

structure PairOK (cc : CharClass) (kv : Key × Val) : Prop where
  key_clean : Clean kv.1
  key_edges : NoEdgeSpace cc kv.1
  val : ValOK cc kv.1 kv.2

def DictOK (cc : CharClass) (d : Dict) : Prop := (d.map Prod.fst).Nodup ∧ ∀ kv ∈ d, PairOK cc kv

theorem mem_dictSet {d : Dict} {k : Key} {v : Val} {kv : Key × Val} (h : kv ∈ dictSet d k v) :
    kv = (k, v) ∨ kv ∈ d := by
  induction d with
  | nil => simp [dictSet] at h; exact Or.inl h
  | cons x d ih =>
    obtain ⟨k', v'⟩ := x
    simp only [dictSet] at h
    split at h
    · rename_i e
      simp only [List.mem_cons] at h
      rcases h with h | h
      · left; rw [h, e]
      · right; simp [h]
    · simp only [List.mem_cons] at h
      rcases h with h | h
      · right; simp [h]
      · rcases ih h with h' | h'
        · exact Or.inl h'
        · right; simp [h']

theorem dictOK_set {cc : CharClass} {d : Dict} (hd : DictOK cc d) {k : Key} {v : Val}
    (hkv : PairOK cc (k, v)) : DictOK cc (dictSet d k v) := by
  constructor
  · rw [dictSet_keys]
    split
    · exact hd.1
    · rename_i hk
      rw [List.nodup_append]
      refine ⟨hd.1, by simp, ?_⟩
      intro a ha b hb
      simp at hb; subst hb
      intro e; subst e; exact hk ha
  · intro kv h
    rcases mem_dictSet h with rfl | h'
    · exact hkv
    · exact hd.2 kv h'

theorem dictOK_nil (cc : CharClass) : DictOK cc [] := ⟨by simp, by intro kv h; simp at h⟩

theorem convertValue_ok {cc : CharClass} {k v : List Char} {val : Val} (h : convertValue k v = .ok val)
    (hc : Clean v) (he : NoEdgeSpace cc v) : ValOK cc k val := by
  unfold convertValue at h
  split at h
  · rename_i hk
    cases hp : pyInt? v with
    | none => rw [hp] at h; simp at h
    | some i =>
      rw [hp] at h
      simp at h; subst h
      exact hk
  · rename_i hk
    simp at h; subst h
    exact ⟨hk, hc, he⟩

/-- characters allowed inside a match of `(.*?)}` once split at ';' -/
def FieldChars (p : List Char) : Prop := ∀ c ∈ p, c ≠ ';' ∧ c ≠ '}' ∧ c ≠ '\n'

theorem parsePartsAux_ok {cc : CharClass} : ∀ (ps : List (List Char)) (d d' : Dict),
    (∀ p ∈ ps, FieldChars p) → DictOK cc d → parsePartsAux cc ps d = .ok d' → DictOK cc d' := by
  intro ps
  induction ps with
  | nil => intro d d' _ hd h; simp [parsePartsAux] at h; subst h; exact hd
  | cons p ps ih =>
    intro d d' hps hd h
    have hp : FieldChars p := hps p (by simp)
    have hps' : ∀ q ∈ ps, FieldChars q := fun q hq => hps q (by simp [hq])
    rw [parsePartsAux] at h
    split at h
    · exact ih d d' hps' hd h
    · split at h
      · rename_i f v hs
        have hf := mem_splitOn p f (by rw [hs]; simp)
        have hv := mem_splitOn p v (by rw [hs]; simp)
        have clean : ∀ (x : List Char), (':' ∉ x ∧ ∀ c ∈ x, c ∈ p) → Clean (strip cc x) := by
          intro x hx c hc
          have hcx : c ∈ x := mem_strip hc
          have hcp := hp c (hx.2 c hcx)
          exact ⟨hcp.1, fun e => hx.1 (e ▸ hcx), hcp.2.1, hcp.2.2⟩
        cases hcv : convertValue (strip cc f) (strip cc v) with
        | error e => rw [hcv] at h; simp at h
        | ok val =>
          rw [hcv] at h
          simp only at h
          have hpair : PairOK cc (strip cc f, val) :=
            { key_clean := clean f hf
              key_edges := noEdgeSpace_strip cc f
              val := convertValue_ok hcv (clean v hv) (noEdgeSpace_strip cc v) }
          exact ih _ d' hps' (dictOK_set hd hpair) h
      · simp at h

theorem parseParts_ok {cc : CharClass} {body : List Char} {d : Dict} (h1 : '}' ∉ body) (h2 : '\n' ∉ body)
    (h : parseParts cc body = .ok d) : DictOK cc d := by
  unfold parseParts at h
  refine parsePartsAux_ok _ [] d ?_ (dictOK_nil cc) h
  intro p hp c hc
  have hm := mem_splitOn (strip cc body) p hp
  have hcb : c ∈ body := mem_strip (hm.2 c hc)
  refine ⟨fun e => hm.1 (e ▸ hc), fun e => h1 (e ▸ hcb), fun e => h2 (e ▸ hcb)⟩

structure EntryOK (cc : CharClass) (e : Entry) : Prop where
  name_ne : e.name ≠ []
  name_word : AllWord cc e.name
  dict : DictOK cc e.attrs
  no_tag_name : tagNameKey ∉ e.attrs.map Prod.fst

theorem mkEntry_ok {cc : CharClass} {name : List Char} {d : Dict} (hne : name ≠ []) (hw : AllWord cc name)
    (hd : DictOK cc d) : EntryOK cc (mkEntry name d) := by
  refine ⟨hne, hw, ⟨?_, ?_⟩, ?_⟩
  · unfold mkEntry
    simp only
    have hsub : ((d.filter (fun kv => kv.1 ≠ tagNameKey)).map Prod.fst).Sublist (d.map Prod.fst) :=
      List.Sublist.map _ List.filter_sublist
    exact hsub.nodup hd.1
  · intro kv hkv
    unfold mkEntry at hkv
    exact hd.2 kv (List.mem_filter.mp hkv).1
  · unfold mkEntry
    simp only [List.mem_map, List.mem_filter, not_exists, not_and]
    intro kv hkv e
    simp [e] at hkv

theorem parseMatches_ok {cc : CharClass} : ∀ (ms : List (List Char × List Char)) (es : List Entry),
    (∀ m ∈ ms, m.1 ≠ [] ∧ AllWord cc m.1 ∧ '}' ∉ m.2 ∧ '\n' ∉ m.2) →
    parseMatches cc ms = .ok es → ∀ e ∈ es, EntryOK cc e := by
  intro ms
  induction ms with
  | nil => intro es _ h e he; simp [parseMatches] at h; subst h; simp at he
  | cons m ms ih =>
    intro es hms h e he
    obtain ⟨h1, h2, h3, h4⟩ := hms m (by simp)
    rw [parseMatches] at h
    cases hp : parseParts cc m.2 with
    | error x => rw [hp] at h; simp at h
    | ok d =>
      rw [hp] at h
      simp only at h
      cases hr : parseMatches cc ms with
      | error x => rw [hr] at h; simp at h
      | ok es' =>
        rw [hr] at h
        simp at h; subst h
        rcases List.mem_cons.mp he with rfl | he'
        · exact mkEntry_ok h1 h2 (parseParts_ok h3 h4 hp)
        · exact ih es' (fun x hx => hms x (by simp [hx])) hr e he'

/-- **every parsed entry is well formed**, whatever the input string was -/
theorem parse_ok {cc : CharClass} {s : List Char} {es : List Entry}
    (h : parseCustomAttributes cc s = .ok es) : ∀ e ∈ es, EntryOK cc e :=
  parseMatches_ok _ es (scan_spec cc _ _ s 0 false) h

/-! ### `make_custom_string` writes a canonical layout -/

def canonAttr (first : Bool) (kv : Key × Val) : LAttr :=
  { pre := if first then [] else [' '], key := kv.1, postKey := [], preVal := [], value := showVal kv.2,
    postVal := [] }

def canonAttrs : Bool → List (Key × Val) → List LAttr
  | _, [] => []
  | b, kv :: kvs => canonAttr b kv :: canonAttrs false kvs

def canonTag (first : Bool) (e : Entry) : LTag :=
  { sep := if first then [] else [' ', ' '], name := e.name, attrs := canonAttrs true e.attrs,
    trailing := true, close := [] }

def canonTags : Bool → List Entry → List LTag
  | _, [] => []
  | b, e :: es => canonTag b e :: canonTags false es

theorem canon_body_aux : ∀ (kvs : List (Key × Val)) (b : Bool),
    intercalate [';'] ((canonAttrs b kvs).map LAttr.render ++ [[]]) =
      (if b || kvs.isEmpty then [] else [' ']) ++ intercalate [' '] (kvs.map fieldString) := by
  intro kvs
  induction kvs with
  | nil => intro b; simp [canonAttrs, intercalate]
  | cons kv kvs ih =>
    intro b
    have hne : ∃ g rest, (canonAttrs false kvs).map LAttr.render ++ [[]] = g :: rest := by
      cases h : (canonAttrs false kvs).map LAttr.render ++ [[]] with
      | nil => simp at h
      | cons g rest => exact ⟨g, rest, rfl⟩
    obtain ⟨g, rest, e⟩ := hne
    have ih' := ih false
    rw [e] at ih'
    simp only [canonAttrs, List.map_cons, List.cons_append, e, intercalate_cons_cons, ih']
    cases kvs with
    | nil =>
      cases b <;> simp [canonAttr, LAttr.render, fieldString, intercalate]
    | cons kv2 kvs2 =>
      simp only [List.map_cons, intercalate_cons_cons]
      cases b <;> simp [canonAttr, LAttr.render, fieldString]

theorem canon_body (b : Bool) (e : Entry) :
    (canonTag b e).body = intercalate [' '] (e.attrs.map fieldString) := by
  unfold LTag.body LTag.fields canonTag
  simp only [Bool.or_true, if_true]
  have := canon_body_aux e.attrs true
  simpa using this

theorem canon_render (b : Bool) (e : Entry) :
    (canonTag b e).render ++ [' '] = (if b then [] else [' ', ' ']) ++ elementString e := by
  unfold LTag.render elementString
  rw [canon_body]
  cases b <;> simp [canonTag]

theorem make_eq_render : ∀ (es : List Entry),
    makeCustomString es = renderLaid (canonTags true es) (if es.isEmpty then [] else [' ']) := by
  have aux : ∀ (es : List Entry) (b : Bool) (e : Entry),
      renderLaid (canonTags b (e :: es)) [' '] =
        (if b then [] else [' ', ' ']) ++ intercalate [' '] ((e :: es).map elementString) := by
    intro es
    induction es with
    | nil =>
      intro b e
      simp only [canonTags, renderLaid, List.map_cons, List.map_nil, intercalate]
      exact canon_render b e
    | cons e2 es ih =>
      intro b e
      have h2 := ih false e2
      simp only [canonTags, renderLaid] at h2 ⊢
      rw [h2]
      simp only [List.map_cons, intercalate_cons_cons]
      have h1 := canon_render b e
      have : (canonTag b e).render ++ ([' ', ' '] ++ intercalate [' '] (elementString e2 :: es.map elementString))
          = ((canonTag b e).render ++ [' ']) ++ ([' '] ++ intercalate [' '] (elementString e2 :: es.map elementString)) := by
        simp
      simp only [if_false, Bool.false_eq_true]
      rw [this, h1]
      simp
  intro es
  cases es with
  | nil => rfl
  | cons e es =>
    have := (aux es true e).symm
    simpa [makeCustomString] using this

/-! ### the canonical layout satisfies the side conditions of the master lemma -/

theorem showInt_clean (i : Int) : Clean (showInt i) := by
  intro c hc
  rcases showInt_chars i c hc with h | h
  · unfold isAsciiDigit at h
    simp only [Bool.and_eq_true, decide_eq_true_eq] at h
    refine ⟨?_, ?_, ?_, ?_⟩ <;> rintro rfl <;> revert h <;> decide
  · subst h; decide

theorem showInt_edges {cc : CharClass} (hl : Lawful cc) (i : Int) : NoEdgeSpace cc (showInt i) := by
  have key : ∀ c ∈ showInt i, cc.isSpace c = false := by
    intro c hc
    rcases showInt_chars i c hc with h | h
    · exact hl.digit_not_space c h
    · subst h; exact hl.minus_not_space
  exact ⟨fun c hc => key c (List.mem_of_mem_head? hc), fun c hc => key c (List.mem_of_mem_getLast? hc)⟩

theorem blank_nil (cc : CharClass) : Blank cc [] := by intro c hc; simp at hc

theorem blank_space {cc : CharClass} (hl : Lawful cc) : Blank cc [' '] := by
  intro c hc; simp at hc; subst hc; exact ⟨hl.space_is_space, by decide⟩

theorem canonAttr_ok {cc : CharClass} (hl : Lawful cc) (b : Bool) {kv : Key × Val} (h : PairOK cc kv) :
    (canonAttr b kv).OK cc := by
  obtain ⟨k, v⟩ := kv
  refine { pre := ?_, postKey := blank_nil cc, preVal := blank_nil cc, postVal := blank_nil cc,
           key_clean := h.key_clean, key_edges := h.key_edges, value_clean := ?_, value_edges := ?_, typed := ?_ }
  · cases b
    · exact blank_space hl
    · exact blank_nil cc
  · cases v with
    | str s => exact h.val.2.1
    | int i => exact showInt_clean i
  · cases v with
    | str s => exact h.val.2.2
    | int i => exact showInt_edges hl i
  · intro hk
    cases v with
    | str s => exact absurd hk h.val.1
    | int i => exact ⟨i, pyInt_showInt i⟩

theorem canonAttrs_ok {cc : CharClass} (hl : Lawful cc) : ∀ (kvs : List (Key × Val)) (b : Bool),
    (∀ kv ∈ kvs, PairOK cc kv) → ∀ a ∈ canonAttrs b kvs, a.OK cc := by
  intro kvs
  induction kvs with
  | nil => intro b _ a ha; simp [canonAttrs] at ha
  | cons kv kvs ih =>
    intro b h a ha
    simp only [canonAttrs, List.mem_cons] at ha
    rcases ha with rfl | ha
    · exact canonAttr_ok hl b (h kv (by simp))
    · exact ih false (fun x hx => h x (by simp [hx])) a ha

theorem canonTag_ok {cc : CharClass} (hl : Lawful cc) (b : Bool) {e : Entry} (h : EntryOK cc e) :
    (canonTag b e).OK cc := by
  refine { sep := ?_, name_ne := h.name_ne, name_word := h.name_word,
           attrs := canonAttrs_ok hl e.attrs true h.dict.2, close := blank_nil cc }
  intro c hc
  cases b
  · simp [canonTag] at hc; subst hc; exact hl.space_not_word
  · simp [canonTag] at hc

theorem canonTags_ok {cc : CharClass} (hl : Lawful cc) : ∀ (es : List Entry) (b : Bool),
    (∀ e ∈ es, EntryOK cc e) → ∀ t ∈ canonTags b es, t.OK cc := by
  intro es
  induction es with
  | nil => intro b _ t ht; simp [canonTags] at ht
  | cons e es ih =>
    intro b h t ht
    simp only [canonTags, List.mem_cons] at ht
    rcases ht with rfl | ht
    · exact canonTag_ok hl b (h e (by simp))
    · exact ih false (fun x hx => h x (by simp [hx])) t ht

/-! ### … and parses back to the entry it was written from -/

theorem typedVal_showVal {cc : CharClass} {k : Key} {v : Val} (h : ValOK cc k v) : typedVal k (showVal v) = v := by
  unfold typedVal
  cases v with
  | str s => simp [showVal, h.1]
  | int i =>
    have hk : k ∈ Gen.intKeys := h
    simp [showVal, hk, pyInt_showInt]

theorem dictOfAttrs_canon {cc : CharClass} : ∀ (kvs : List (Key × Val)) (b : Bool) (d : Dict),
    (∀ kv ∈ kvs, PairOK cc kv) →
    dictOfAttrs (canonAttrs b kvs) d = kvs.foldl (fun d kv => dictSet d kv.1 kv.2) d := by
  intro kvs
  induction kvs with
  | nil => intro b d _; rfl
  | cons kv kvs ih =>
    intro b d h
    have hv := typedVal_showVal (h kv (by simp)).val
    unfold dictOfAttrs at ih ⊢
    simp only [canonAttrs, List.foldl_cons, canonAttr, hv]
    exact ih false _ (fun x hx => h x (by simp [hx]))

theorem entryOf_canon {cc : CharClass} (b : Bool) {e : Entry} (h : EntryOK cc e) : entryOf (canonTag b e) = e := by
  unfold entryOf
  have h1 : dictOfAttrs (canonTag b e).attrs [] = e.attrs := by
    show dictOfAttrs (canonAttrs true e.attrs) [] = e.attrs
    rw [dictOfAttrs_canon e.attrs true [] h.dict.2, foldl_dictSet_nodup _ _ (by simpa using h.dict.1)]
    simp
  rw [h1]
  unfold mkEntry
  have h2 : e.attrs.filter (fun kv => kv.1 ≠ tagNameKey) = e.attrs := by
    apply List.filter_eq_self.mpr
    intro kv hkv
    have : kv.1 ≠ tagNameKey := fun e' => h.no_tag_name (List.mem_map.mpr ⟨kv, hkv, e'⟩)
    simpa using this
  rw [h2]
  rfl

theorem map_entryOf_canon {cc : CharClass} : ∀ (es : List Entry) (b : Bool), (∀ e ∈ es, EntryOK cc e) →
    (canonTags b es).map entryOf = es := by
  intro es
  induction es with
  | nil => intro b _; rfl
  | cons e es ih =>
    intro b h
    simp only [canonTags, List.map_cons, entryOf_canon b (h e (by simp)),
      ih false (fun x hx => h x (by simp [hx]))]

end Pagexml.C11
