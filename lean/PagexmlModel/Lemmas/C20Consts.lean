/-
What the C20 theorems need to know about the defaults and literals regenerated from the source
(Generated/C20.lean: defaults of get_doc_stats / get_word_cat_stats / _init_doc_stats, DEFAULT_ELEMENTS,
`fields`, `prev_point = 0`, `_SMALL`, the factor of the score).  This is the ONLY place where their values
are looked at: every relation below is decided on the regenerated file, so an edit of the source that
breaks one of them breaks exactly that obligation (and what is built on it).  Every other proof of
Lemmas/C20*.lean and Props/C20.lean treats `initBinSize`, `wordBinSize`, `defaultMaxLen`, `lineBinWidth`,
`maxBin`, `catStart`, `rangesStart`, `numElems` as unknown numbers; the theorems about the document table
are stated for EVERY configuration (`DocCfg`: any boundary points, any `max_word_length`, any bin sizes).

The word-per-line tables (`wplCats`, `wplToCat`, `wplOverflow`) have their own obligations in
Lemmas/C20Tables.lean (`wpl_labels_nodup`, `wpl_label_mem`, `wpl_table_truthful`).
-/
import PagexmlModel.Model.C20

namespace Pagexml.C20

/-! ### relations the theorems need -/

/-- `get_doc_stats` reaches `_init_doc_stats` (which creates the `num_words_length_*` columns) and
    `get_word_cat_stats` (which fills them) with the same bin size — in the source these are the defaults of
    two different functions in two different files -/
theorem consts_bin_sizes_agree : initBinSize = wordBinSize := by decide

/-- the bin size is positive (`range(0, …, 0)` raises; a bin of size 0 never advances) -/
theorem consts_bin_size_pos : 0 < wordBinSize := by decide

/-- the default `max_word_length` of `get_doc_stats` is a positive multiple of the bin size: the default
    configuration is one of those in which every row names exactly the columns created -/
theorem consts_default_max_len_ok : 0 < defaultMaxLen ∧ defaultMaxLen % wordBinSize = 0 := by decide

/-- the default `line_bin_width` is not 0: `range(line_bin_width, max_bin, line_bin_width)` does not raise -/
theorem consts_line_bin_width_ne_zero : lineBinWidth ≠ 0 := by decide

/-- `categorise_line_width` and `get_boundary_width_ranges` start their first range at the same point, so
    that every category is one of the ranges -/
theorem consts_width_starts_agree : catStart = rangesStart := by decide

/-- `get_word_cat_stats` called with its own defaults: the bin size is positive (the partition theorem
    `C20_word_length_partition` applies) -/
theorem consts_word_cat_default_bin_size_pos : 0 < Generated.C20.wordCatDefaultBinSize := by decide

/-- the regularisation constant `_SMALL` is a positive number (`C20_score_finite` needs `s > 0`) -/
theorem consts_small_pos : 0 < Generated.C20.small.1 ∧ 0 < Generated.C20.small.2 := by decide

/-- the oracle's reading of "non-negative score" is `score ≥ −1e-9`; the proved bound is `−8·_SMALL`
    (`C20_score_nonneg`): the source's constant covers that reading, `8·_SMALL ≤ 1e-9` -/
theorem consts_small_covers_spec :
    8 * Generated.C20.small.1 * 1000000000 ≤ Generated.C20.small.2 := by decide

/-! ### literals the model keeps hand-written, tied to the source -/

/-- the bounds of the two binning loops are the ones the model hard-wires:
    `range(size, max_word_length + 1, size)` in `_init_doc_stats` (`maxLen / size` bins) and
    `for wl in range(1, max_word_length + 1)` in `get_word_cat_stats` (`List.range' 1 maxLen`) -/
theorem consts_loop_bounds :
    Generated.C20.initBinStopPlus = 1 ∧ Generated.C20.wordLoop = (1, 1) := by decide

/-- `fields` of `_init_doc_stats` is the model's list of fixed columns under the model's naming: the four
    document fields, one column per entry of DEFAULT_ELEMENTS (in its order), the eight word categories -/
theorem consts_init_fields : Generated.C20.initFields = fixedCols.map colName := by decide

/-- the fixed column names are distinct: the model's columns (constructors) and the code's (dict keys)
    correspond one to one -/
theorem consts_init_fields_nodup : Generated.C20.initFields.Nodup := by decide

/-- the keys of the dict `get_word_cat_stats` builds are the model's word-category columns under the model's
    naming (they are among `fields`: `get_doc_stats` appends `word_stats[k]` to the column `k`) -/
theorem consts_word_cat_keys : Generated.C20.wordCatKeys = wordCatCols.map colName := by decide

/-- the score is `2 * sum_likelihood` (the factor of `scoreL`) -/
theorem consts_score_factor : Generated.C20.scoreFactor = 2 := by decide

/-! ### generic facts (every value) -/

/-- a range with a non-zero step does not raise -/
theorem pyRange_ok (start stop step : Int) (h : step ≠ 0) :
    pyRange start stop step =
      .ok ((List.range (pyRangeLen start stop step)).map (fun (i : Nat) => start + step * (i : Int))) := by
  simp [pyRange, h]

theorem pyRange_zero_step (start stop : Int) : pyRange start stop 0 = .error .ValueError := rfl

/-- with a positive step the points of a range are strictly ascending -/
theorem pyRange_ascending (start stop step : Int) (h : 0 < step) (l : List Int)
    (hl : pyRange start stop step = .ok l) : l.Pairwise (· < ·) := by
  rw [pyRange_ok start stop step (by omega)] at hl
  injection hl with hl
  subst hl
  rw [List.pairwise_map]
  refine List.Pairwise.imp ?_ List.pairwise_lt_range
  intro a b hab
  have : (a : Int) < b := by exact_mod_cast hab
  have := Int.mul_lt_mul_of_pos_left this h
  omega

/-- the configuration of a call that passes boundary points, or whose `line_bin_width` is not 0 -/
theorem docCfgOf_ok (bps : Option (List Int)) (useStop : Bool) (maxLen : Option Nat) (lbw mb : Option Int)
    (h : bps.isSome ∨ lbw.getD lineBinWidth ≠ 0) :
    ∃ b, docCfgOf bps useStop maxLen lbw mb =
      .ok { bps := b, useStop := useStop, maxLen := maxLen.getD defaultMaxLen } := by
  cases bps with
  | some b => exact ⟨b, rfl⟩
  | none =>
    have h' : lbw.getD lineBinWidth ≠ 0 := by
      rcases h with h | h
      · cases h
      · exact h
    refine ⟨(List.range (pyRangeLen (lbw.getD lineBinWidth) (mb.getD maxBin) (lbw.getD lineBinWidth))).map
      (fun (i : Nat) => lbw.getD lineBinWidth + lbw.getD lineBinWidth * (i : Int)), ?_⟩
    simp only [docCfgOf, boundaryPointsOf, pyRange_ok _ _ _ h']

end Pagexml.C20
