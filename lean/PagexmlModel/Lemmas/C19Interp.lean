/-
Helper lemmas for C19: Python `range`, the insertion-ordered dict, interpolation of
baselines (grid membership, invariance under a vertical shift, unique keys).
-/
import PagexmlModel.Model.C19

namespace Pagexml.C19
open Pagexml.C03 (Pt)

/-! ### `range(a, b, s)` for a positive step -/

theorem mem_pyRange_pos {a b s x : Int} (hs : 0 < s) :
    x ∈ pyRange a b s ↔ a ≤ x ∧ x < b ∧ s ∣ (x - a) := by
  unfold pyRange
  simp only [hs, ↓reduceIte, List.mem_map, List.mem_range]
  constructor
  · rintro ⟨i, hi, rfl⟩
    have h1 : (i : Int) < (b - a + s - 1) / s := by
      have := Int.lt_toNat.mp hi
      exact this
    have h2 : ((i : Int) + 1) * s ≤ b - a + s - 1 :=
      (Int.le_ediv_iff_mul_le hs).mp (by omega)
    have h3 : ((i : Int) + 1) * s = s * (i : Int) + s := by
      rw [Int.add_mul, Int.one_mul, Int.mul_comm]
    have h4 : 0 ≤ s * (i : Int) := Int.mul_nonneg (by omega) (by omega)
    refine ⟨by omega, by omega, ⟨(i : Int), by omega⟩⟩
  · rintro ⟨h1, h2, c, hc⟩
    have hc0 : 0 ≤ c := by
      rcases (by omega : c < 0 ∨ 0 ≤ c) with h | h
      · have : s * c < 0 := Int.mul_neg_of_pos_of_neg hs h
        omega
      · exact h
    refine ⟨c.toNat, ?_, ?_⟩
    · apply Int.lt_toNat.mpr
      rw [Int.toNat_of_nonneg hc0]
      have h3 : (c + 1) * s ≤ b - a + s - 1 := by
        have : (c + 1) * s = s * c + s := by rw [Int.add_mul, Int.one_mul, Int.mul_comm]
        omega
      have := (Int.le_ediv_iff_mul_le hs).mpr h3
      omega
    · rw [Int.toNat_of_nonneg hc0]; omega

theorem pyRange_pairwise_lt {a b s : Int} (hs : 0 < s) :
    (pyRange a b s).Pairwise (· < ·) := by
  unfold pyRange
  simp only [hs, ↓reduceIte]
  refine List.Pairwise.map _ ?_ List.pairwise_lt_range
  intro i j hij
  have : s * (i : Int) < s * (j : Int) := Int.mul_lt_mul_of_pos_left (by omega) hs
  omega

theorem pyRange_nodup {a b s : Int} (hs : 0 < s) : (pyRange a b s).Nodup := by
  have := pyRange_pairwise_lt (a := a) (b := b) hs
  exact this.imp (fun h => by omega)

/-- for a negative step the sampled range of `interpolate_points` is empty -/
theorem pyRange_neg_empty {a b s : Int} (hs : s < 0) (hab : a < b) : pyRange a b s = [] := by
  unfold pyRange
  have h1 : ¬ (0 < s) := by omega
  simp only [h1, hs, ↓reduceIte]
  have : (a - b + -s - 1) / -s ≤ 0 := by
    have h2 : a - b + -s - 1 < (-s) := by omega
    have := Int.ediv_lt_iff_lt_mul (a := a - b + -s - 1) (b := 1) (c := -s) (by omega)
    have := this.mpr (by omega)
    omega
  have : ((a - b + -s - 1) / -s).toNat = 0 := by omega
  rw [this]; rfl

/-! ### floor-mod facts -/

theorem fmod_pos {a s : Int} (hs : 0 < s) : Int.fmod a s = a % s :=
  Int.fmod_eq_emod_of_nonneg a (by omega)

/-- `a + s - a % s` is the least multiple of `s` above `a` -/
theorem startX_facts {a s : Int} (hs : 0 < s) :
    s ∣ (a + s - a % s) ∧ a < a + s - a % s ∧ a + s - a % s ≤ a + s := by
  have h1 := Int.emod_nonneg a (b := s) (by omega)
  have h2 := Int.emod_lt_of_pos a hs
  refine ⟨⟨a / s + 1, ?_⟩, by omega, by omega⟩
  have := Int.emod_def a s
  rw [Int.mul_add, Int.mul_one]; omega

/-- `b - b % s` is the greatest multiple of `s` not above `b` -/
theorem endX_facts {b s : Int} (hs : 0 < s) : s ∣ (b - b % s) ∧ b - b % s ≤ b ∧ b < b - b % s + s := by
  have h1 := Int.emod_nonneg b (b := s) (by omega)
  have h2 := Int.emod_lt_of_pos b hs
  refine ⟨⟨b / s, ?_⟩, by omega, by omega⟩
  have := Int.emod_def b s
  omega

/-! ### the dict -/

def keys (d : Dict) : List Int := d.map (·.1)

theorem mem_dictSet {d : Dict} {k v : Int} {e : Int × Int} (h : e ∈ dictSet d k v) :
    e ∈ d ∨ e = (k, v) := by
  induction d with
  | nil => simp [dictSet] at h; exact Or.inr h
  | cons a r ih =>
    obtain ⟨k', v'⟩ := a
    simp only [dictSet] at h
    split at h
    · rcases List.mem_cons.mp h with h | h
      · exact Or.inr h
      · exact Or.inl (List.mem_cons_of_mem _ h)
    · rcases List.mem_cons.mp h with h | h
      · exact Or.inl (h ▸ List.mem_cons_self)
      · rcases ih h with h | h
        · exact Or.inl (List.mem_cons_of_mem _ h)
        · exact Or.inr h

theorem keys_dictSet (d : Dict) (k v : Int) :
    keys (dictSet d k v) = if k ∈ keys d then keys d else keys d ++ [k] := by
  induction d with
  | nil => simp [dictSet, keys]
  | cons a r ih =>
    obtain ⟨k', v'⟩ := a
    simp only [dictSet]
    by_cases h : k' = k
    · subst h; simp [keys]
    · simp only [h, ↓reduceIte]
      have ih' : List.map (·.1) (dictSet r k v) = if k ∈ List.map (·.1) r then List.map (·.1) r else List.map (·.1) r ++ [k] := ih
      simp only [keys, List.map_cons, ih', List.mem_cons]
      have h' : ¬ k = k' := fun e => h e.symm
      by_cases hm : k ∈ List.map (·.1) r
      · simp [hm]
      · simp [hm, h']

theorem nodup_keys_dictSet {d : Dict} (h : (keys d).Nodup) (k v : Int) : (keys (dictSet d k v)).Nodup := by
  rw [keys_dictSet]
  split
  · exact h
  · rename_i hk
    refine List.nodup_append.mpr ⟨h, by simp, ?_⟩
    intro a ha b hb
    simp at hb; subst hb
    intro e; subst e; exact hk ha

theorem nodup_keys_dictSetAll {d : Dict} (h : (keys d).Nodup) (kvs : List Pt) :
    (keys (dictSetAll d kvs)).Nodup := by
  induction kvs generalizing d with
  | nil => exact h
  | cons a r ih => exact ih (nodup_keys_dictSet h a.1 a.2)

theorem mem_dictSetAll {d : Dict} {kvs : List Pt} {e : Int × Int} (h : e ∈ dictSetAll d kvs) :
    e ∈ d ∨ e ∈ kvs := by
  induction kvs generalizing d with
  | nil => exact Or.inl h
  | cons a r ih =>
    rcases ih (d := dictSet d a.1 a.2) h with h | h
    · rcases mem_dictSet h with h | h
      · exact Or.inl h
      · exact Or.inr (by simp [h])
    · exact Or.inr (List.mem_cons_of_mem _ h)

theorem dictGet?_of_mem {d : Dict} (hn : (keys d).Nodup) {x y : Int} (h : (x, y) ∈ d) :
    dictGet? d x = some y := by
  induction d with
  | nil => cases h
  | cons a r ih =>
    obtain ⟨k', v'⟩ := a
    simp only [keys, List.map_cons, List.nodup_cons] at hn
    simp only [dictGet?]
    rcases List.mem_cons.mp h with h | h
    · cases h; simp
    · have : k' ≠ x := by
        intro e; subst e
        exact hn.1 (List.mem_map.mpr ⟨(k', y), h, rfl⟩)
      simp only [this, ↓reduceIte]
      exact ih hn.2 h

theorem dictGet?_isSome_iff (d : Dict) (x : Int) : (dictGet? d x).isSome ↔ x ∈ keys d := by
  induction d with
  | nil => simp [dictGet?, keys]
  | cons a r ih =>
    obtain ⟨k', v'⟩ := a
    simp only [dictGet?, keys, List.map_cons, List.mem_cons]
    by_cases h : k' = x
    · simp [h]
    · have h' : ¬ x = k' := fun e => h e.symm
      simp only [h, ↓reduceIte, h', false_or]
      exact ih

theorem mem_of_dictGet? {d : Dict} {x y : Int} (h : dictGet? d x = some y) : (x, y) ∈ d := by
  induction d with
  | nil => simp [dictGet?] at h
  | cons a r ih =>
    obtain ⟨k', v'⟩ := a
    simp only [dictGet?] at h
    split at h
    · rename_i hk; cases h; subst hk; exact List.mem_cons_self
    · exact List.mem_cons_of_mem _ (ih h)

/-- shifting every value of a dict -/
def dshift (c : Int) (d : Dict) : Dict := d.map (fun xy => (xy.1, xy.2 + c))

theorem dictSet_dshift (c : Int) (d : Dict) (k v : Int) :
    dictSet (dshift c d) k (v + c) = dshift c (dictSet d k v) := by
  induction d with
  | nil => rfl
  | cons a r ih =>
    obtain ⟨k', v'⟩ := a
    simp only [dshift, List.map_cons, dictSet]
    by_cases h : k' = k
    · simp [h]
    · simp only [h, ↓reduceIte, List.map_cons]
      congr 1

theorem dictSetAll_dshift (c : Int) (d : Dict) (kvs : List Pt) :
    dictSetAll (dshift c d) (kvs.map (fun xy => (xy.1, xy.2 + c))) = dshift c (dictSetAll d kvs) := by
  induction kvs generalizing d with
  | nil => rfl
  | cons a r ih =>
    simp only [dictSetAll, List.map_cons, List.foldl_cons] at ih ⊢
    rw [dictSet_dshift]
    exact ih (dictSet d a.1 a.2)

theorem dictGet?_dshift (c : Int) (d : Dict) (x : Int) :
    dictGet? (dshift c d) x = (dictGet? d x).map (· + c) := by
  induction d with
  | nil => rfl
  | cons a r ih =>
    obtain ⟨k', v'⟩ := a
    simp only [dshift, List.map_cons, dictGet?]
    by_cases h : k' = x
    · simp [h]
    · simp only [h, ↓reduceIte]; exact ih

theorem keys_dshift (c : Int) (d : Dict) : keys (dshift c d) = keys d := by
  simp [keys, dshift, List.map_map, Function.comp_def]

/-! ### interpolation -/

/-- a point list moved down by `c` pixels -/
def shiftDown (c : Int) (ps : List Pt) : List Pt := ps.map (fun p => (p.1, p.2 + c))

theorem interpSegPure_shift (mdt : MulDivTrunc) (p q : Pt) (step c : Int) :
    interpSegPure mdt (p.1, p.2 + c) (q.1, q.2 + c) step =
      (interpSegPure mdt p q step).map (fun xy => (xy.1, xy.2 + c)) := by
  unfold interpSegPure
  by_cases h : p.1 > q.1
  · simp only [h, ↓reduceIte]
    split
    · rfl
    · simp only [List.map_map]
      apply List.map_congr_left
      intro x _
      have : q.2 + c - (p.2 + c) = q.2 - p.2 := by omega
      simp only [Function.comp, this]
      congr 1; omega
  · simp only [h, ↓reduceIte]
    split
    · rfl
    · simp only [List.map_map]
      apply List.map_congr_left
      intro x _
      have : p.2 + c - (q.2 + c) = p.2 - q.2 := by omega
      simp only [Function.comp, this]
      congr 1; omega

theorem pairs_map {α β : Type} (f : α → β) (l : List α) :
    pairs (l.map f) = (pairs l).map (fun pq => (f pq.1, f pq.2)) := by
  induction l with
  | nil => rfl
  | cons a r ih =>
    cases r with
    | nil => rfl
    | cons b r' =>
      simp only [List.map_cons, pairs] at ih ⊢
      rw [ih]

theorem interpStep_shift (mdt : MulDivTrunc) (step c : Int) (d : Dict) (pq : Pt × Pt) :
    interpStep mdt step (dshift c d) ((pq.1.1, pq.1.2 + c), (pq.2.1, pq.2.2 + c)) =
      dshift c (interpStep mdt step d pq) := by
  unfold interpStep
  split
  · rfl
  · rw [interpSegPure_shift, dictSetAll_dshift]

/-- interpolating a shifted baseline = shifting the interpolated baseline, whatever `mdt` is -/
theorem interpBaselinePure_shift (mdt : MulDivTrunc) (pts : List Pt) (step c : Int) :
    interpBaselinePure mdt (shiftDown c pts) step = dshift c (interpBaselinePure mdt pts step) := by
  unfold interpBaselinePure shiftDown
  rw [pairs_map]
  have gen : ∀ (l : List (Pt × Pt)) (d : Dict),
      (l.map (fun pq => ((pq.1.1, pq.1.2 + c), (pq.2.1, pq.2.2 + c)))).foldl (interpStep mdt step) (dshift c d)
        = dshift c (l.foldl (interpStep mdt step) d) := by
    intro l
    induction l with
    | nil => intro d; rfl
    | cons a r ih =>
      intro d
      simp only [List.map_cons, List.foldl_cons]
      rw [interpStep_shift]
      exact ih _
  exact gen (pairs pts) []

theorem hasNonVertical_shift (c : Int) (pts : List Pt) :
    hasNonVertical (shiftDown c pts) = hasNonVertical pts := by
  unfold hasNonVertical shiftDown
  rw [pairs_map]
  simp [List.any_map, Function.comp_def]

theorem nodup_keys_interpStep (mdt : MulDivTrunc) (step : Int) {d : Dict} (h : (keys d).Nodup) (pq : Pt × Pt) :
    (keys (interpStep mdt step d pq)).Nodup := by
  unfold interpStep
  split
  · exact h
  · exact nodup_keys_dictSetAll h _

/-- the interpolated baseline is a dict: no x occurs twice -/
theorem nodup_keys_interpBaselinePure (mdt : MulDivTrunc) (pts : List Pt) (step : Int) :
    (keys (interpBaselinePure mdt pts step)).Nodup := by
  unfold interpBaselinePure
  have gen : ∀ (l : List (Pt × Pt)) (d : Dict), (keys d).Nodup →
      (keys (l.foldl (interpStep mdt step) d)).Nodup := by
    intro l
    induction l with
    | nil => intro d h; exact h
    | cons a r ih => intro d h; exact ih _ (nodup_keys_interpStep mdt step h a)
  exact gen _ [] (by simp [keys])

/-- every entry of the interpolated baseline was produced by some non-vertical segment -/
theorem mem_interpBaselinePure {mdt : MulDivTrunc} {pts : List Pt} {step : Int} {e : Int × Int}
    (h : e ∈ interpBaselinePure mdt pts step) :
    ∃ pq ∈ pairs pts, pq.2.1 ≠ pq.1.1 ∧ e ∈ interpSegPure mdt pq.1 pq.2 step := by
  unfold interpBaselinePure at h
  have gen : ∀ (l : List (Pt × Pt)) (d : Dict), e ∈ l.foldl (interpStep mdt step) d →
      e ∈ d ∨ ∃ pq ∈ l, pq.2.1 ≠ pq.1.1 ∧ e ∈ interpSegPure mdt pq.1 pq.2 step := by
    intro l
    induction l with
    | nil => intro d h; exact Or.inl h
    | cons a r ih =>
      intro d h
      simp only [List.foldl_cons] at h
      rcases ih _ h with h | ⟨pq, hpq, h1, h2⟩
      · unfold interpStep at h
        split at h
        · exact Or.inl h
        · rename_i hne
          rcases mem_dictSetAll h with h | h
          · exact Or.inl h
          · exact Or.inr ⟨a, List.mem_cons_self, hne, h⟩
      · exact Or.inr ⟨pq, List.mem_cons_of_mem _ hpq, h1, h2⟩
  rcases gen _ _ h with h | h
  · cases h
  · exact h

end Pagexml.C19
