/-
C19: exact description of what one segment contributes to the interpolation, and the
laws assumed of the float expression.
-/
import PagexmlModel.Lemmas.C19Interp

namespace Pagexml.C19
open Pagexml.C03 (Pt)

/-- what the proofs need to know about `k, a, b ↦ int(k * (a / b))` for `0 ≤ k ≤ b`
    (being a function is implicit).  IEEE doubles are trusted to satisfy this; the exact
    rational truncation `exactMdt` provably does. -/
structure MulDivTruncLaws (mdt : MulDivTrunc) : Prop where
  zero : ∀ a b, mdt 0 a b = 0
  abs_le : ∀ k a b, 0 ≤ k → k ≤ b → iabs (mdt k a b) ≤ iabs a
  nonneg : ∀ k a b, 0 ≤ k → 0 < b → 0 ≤ a → 0 ≤ mdt k a b
  nonpos : ∀ k a b, 0 ≤ k → 0 < b → a ≤ 0 → mdt k a b ≤ 0

/-- exact rational instance: `trunc (k·a / b)` -/
def exactMdt : MulDivTrunc := fun k a b => Int.tdiv (k * a) b

theorem exactMdt_laws : MulDivTruncLaws exactMdt := by
  refine ⟨?_, ?_, ?_, ?_⟩
  · intro a b; simp [exactMdt]
  · intro k a b hk hkb
    unfold exactMdt iabs
    rcases (by omega : 0 ≤ a ∨ a < 0) with ha | ha
    · have h0 : 0 ≤ k * a := Int.mul_nonneg hk ha
      rw [Int.tdiv_eq_ediv_of_nonneg h0]
      rcases (by omega : b = 0 ∨ 0 < b) with hb | hb
      · subst hb; simp
      · have h1 : k * a ≤ b * a := Int.mul_le_mul_of_nonneg_right hkb ha
        have h2 : k * a / b ≤ a := by
          have := Int.ediv_le_ediv hb h1
          rwa [Int.mul_ediv_cancel_left _ (by omega : b ≠ 0)] at this
        have h3 : 0 ≤ k * a / b := Int.ediv_nonneg h0 (by omega)
        omega
    · have hna : 0 ≤ -a := by omega
      have h0 : 0 ≤ k * (-a) := Int.mul_nonneg hk hna
      have e : k * a = -(k * (-a)) := by rw [Int.mul_neg, Int.neg_neg]
      rw [e, Int.neg_tdiv, Int.tdiv_eq_ediv_of_nonneg h0]
      rcases (by omega : b = 0 ∨ 0 < b) with hb | hb
      · subst hb; simp
      · have h1 : k * (-a) ≤ b * (-a) := Int.mul_le_mul_of_nonneg_right hkb hna
        have h2 : k * (-a) / b ≤ -a := by
          have := Int.ediv_le_ediv hb h1
          rwa [Int.mul_ediv_cancel_left _ (by omega : b ≠ 0)] at this
        have h3 : 0 ≤ k * (-a) / b := Int.ediv_nonneg h0 (by omega)
        omega
  · intro k a b hk hb ha
    unfold exactMdt
    have h0 : 0 ≤ k * a := Int.mul_nonneg hk ha
    rw [Int.tdiv_eq_ediv_of_nonneg h0]
    exact Int.ediv_nonneg h0 (by omega)
  · intro k a b hk hb ha
    unfold exactMdt
    have hna : 0 ≤ -a := by omega
    have h0 : 0 ≤ k * (-a) := Int.mul_nonneg hk hna
    have e : k * a = -(k * (-a)) := by rw [Int.mul_neg, Int.neg_neg]
    rw [e, Int.neg_tdiv, Int.tdiv_eq_ediv_of_nonneg h0]
    have := Int.ediv_nonneg h0 (by omega : 0 ≤ b)
    omega

theorem dvd_small {s d : Int} (h : s ∣ d) (h0 : 0 < d) (h1 : d < s) : False := by
  have := Int.le_of_dvd h0 h
  omega

/-- the x values sampled between `a < b`: the multiples of the step in `(a, b]` -/
theorem mem_sample_range {a b s x : Int} (hs : 0 < s) :
    x ∈ pyRange (a + s - Int.fmod a s) (b - Int.fmod b s + 1) s ↔ s ∣ x ∧ a < x ∧ x ≤ b := by
  rw [mem_pyRange_pos hs, fmod_pos hs, fmod_pos hs]
  obtain ⟨hd1, hl1, hu1⟩ := startX_facts (a := a) hs
  obtain ⟨hd2, hl2, hu2⟩ := endX_facts (b := b) hs
  constructor
  · rintro ⟨h1, h2, h3⟩
    have : s ∣ x := by
      have := Int.dvd_add h3 hd1
      rwa [Int.sub_add_cancel] at this
    exact ⟨this, by omega, by omega⟩
  · rintro ⟨h1, h2, h3⟩
    refine ⟨?_, ?_, Int.dvd_sub h1 hd1⟩
    · rcases (by omega : a + s - a % s ≤ x ∨ x < a + s - a % s) with h | h
      · exact h
      · exact (dvd_small (Int.dvd_sub hd1 h1) (by omega) (by omega)).elim
    · rcases (by omega : x < b - b % s + 1 ∨ b - b % s < x) with h | h
      · exact h
      · exact (dvd_small (Int.dvd_sub h1 hd2) (by omega) (by omega)).elim

/-- `interpolate_points` for a positive step: exactly the multiples of the step in
    `(left x, right x]`, with `y = y_left − mdt (x − x_left) (y_left − y_right) (x_right − x_left)` -/
theorem mem_interpSegPure {mdt : MulDivTrunc} {p q : Pt} {step : Int} (hs : 0 < step) (hne : q.1 ≠ p.1)
    {x y : Int} :
    (x, y) ∈ interpSegPure mdt p q step ↔
      step ∣ x ∧ min p.1 q.1 < x ∧ x ≤ max p.1 q.1 ∧
        y = (if p.1 > q.1 then q.2 - mdt (x - q.1) (q.2 - p.2) (p.1 - q.1)
             else p.2 - mdt (x - p.1) (p.2 - q.2) (q.1 - p.1)) := by
  unfold interpSegPure
  by_cases h : p.1 > q.1
  · have hne' : ¬ p.1 = q.1 := by omega
    simp only [h, ↓reduceIte, hne', List.mem_map, Prod.mk.injEq]
    constructor
    · rintro ⟨x', hx', rfl, rfl⟩
      have := (mem_sample_range hs).mp hx'
      exact ⟨this.1, by omega, by omega, rfl⟩
    · rintro ⟨h1, h2, h3, h4⟩
      exact ⟨x, (mem_sample_range hs).mpr ⟨h1, by omega, by omega⟩, rfl, h4.symm⟩
  · simp only [h, ↓reduceIte, hne, List.mem_map, Prod.mk.injEq]
    constructor
    · rintro ⟨x', hx', rfl, rfl⟩
      have := (mem_sample_range hs).mp hx'
      exact ⟨this.1, by omega, by omega, rfl⟩
    · rintro ⟨h1, h2, h3, h4⟩
      exact ⟨x, (mem_sample_range hs).mpr ⟨h1, by omega, by omega⟩, rfl, h4.symm⟩

/-- under the laws, `y₁ − mdt k (y₁ − y₂) b` lies between `y₁` and `y₂` -/
theorem between_of_laws {mdt : MulDivTrunc} (laws : MulDivTruncLaws mdt) {k b y1 y2 : Int}
    (hk : 0 ≤ k) (hkb : k ≤ b) (hb : 0 < b) :
    min y1 y2 ≤ y1 - mdt k (y1 - y2) b ∧ y1 - mdt k (y1 - y2) b ≤ max y1 y2 := by
  have h1 := laws.abs_le k (y1 - y2) b hk hkb
  unfold iabs at h1
  rcases (by omega : 0 ≤ y1 - y2 ∨ y1 - y2 ≤ 0) with h | h
  · have := laws.nonneg k (y1 - y2) b hk hb h
    omega
  · have := laws.nonpos k (y1 - y2) b hk hb h
    omega

end Pagexml.C19
