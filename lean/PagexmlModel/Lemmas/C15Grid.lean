/-
Clean grids: an r × c arrangement of cells, some missing, in columns separated by clear gaps.
From a clean grid: its rows are `CleanRows`, each of its columns is a `CleanColumn`.
-/
import PagexmlModel.Lemmas.C15Rows
import PagexmlModel.Lemmas.C15Sorted

namespace Pagexml.C15

open List

/-- rows top to bottom; each row lists its cells column by column, `none` for a missing cell -/
abbrev Grid := List (List (Option Line))

def rowCells (row : List (Option Line)) : List Line := row.filterMap id
/-- the non-empty rows -/
def gridRows (g : Grid) : List (List Line) := (g.map rowCells).filter (fun r => !r.isEmpty)
/-- all cells, row-major -/
def gridCells (g : Grid) : List Line := (g.map rowCells).flatten
/-- the cells of column `j`, top to bottom -/
def gridCol (g : Grid) (j : Nat) : List Line := g.filterMap (fun row => (row[j]?).join)

/-- two cells of one row: vertically overlapping boxes, baselines within the tolerance `rowTol` of `is_next_to` -/
def SameBand (a b : Line) : Prop :=
  max a.box.top b.box.top ≤ min a.box.bottom b.box.bottom ∧
  match a.bl, b.bl with
  | some x, some y => x.top ≤ y.bottom + rowTol ∧ y.top ≤ x.bottom + rowTol
  | _, _ => False

instance (a b : Line) : Decidable (SameBand a b) := by
  unfold SameBand
  cases a.bl <;> cases b.bl <;> infer_instance

def CellFits (c : Int × Int) : Option Line → Prop
  | none => True
  | some l => c.1 ≤ l.box.left ∧ l.box.right ≤ c.2

instance (c : Int × Int) (o : Option Line) : Decidable (CellFits c o) := by
  cases o <;> unfold CellFits <;> infer_instance

/-- a row has one (possibly missing) cell per column, each inside its column's x-interval -/
def RowFits : List (Int × Int) → List (Option Line) → Prop
  | [], [] => True
  | c :: cs, cell :: row => CellFits c cell ∧ RowFits cs row
  | _, _ => False

def decRowFits : ∀ (cs : List (Int × Int)) (row : List (Option Line)), Decidable (RowFits cs row)
  | [], [] => isTrue trivial
  | c :: cs, cell :: row => by
    unfold RowFits
    have := decRowFits cs row
    infer_instance
  | [], _ :: _ => isFalse (by simp [RowFits])
  | _ :: _, [] => isFalse (by simp [RowFits])

instance (cs : List (Int × Int)) (row : List (Option Line)) : Decidable (RowFits cs row) := decRowFits cs row

/-- `colX` are the x-intervals of the columns, left to right with a gap between neighbours;
    every row fits the columns, its cells are clean lines of one band; every cell of a row
    lies completely above every cell of each later row; the cells are distinct objects -/
def CleanGrid (colX : List (Int × Int)) (g : Grid) : Prop :=
  colX.Pairwise (fun c1 c2 => c1.2 < c2.1) ∧
  (∀ row ∈ g, RowFits colX row ∧ (∀ l ∈ rowCells row, CleanLine l) ∧ (rowCells row).Pairwise SameBand) ∧
  g.Pairwise (fun r1 r2 => ∀ a ∈ rowCells r1, ∀ b ∈ rowCells r2, Above a b) ∧
  (gridCells g).Pairwise (fun a b => a.id ≠ b.id)

instance (colX : List (Int × Int)) (g : Grid) : Decidable (CleanGrid colX g) := by
  unfold CleanGrid; infer_instance

theorem gridRows_flatten (g : Grid) : (gridRows g).flatten = gridCells g := by
  simp only [gridRows, gridCells]
  generalize g.map rowCells = rs
  induction rs with
  | nil => rfl
  | cons r rs ih =>
    cases r with
    | nil => simpa [filter_cons] using ih
    | cons a r => simp [ih]

theorem rowFits_mem : ∀ (cs : List (Int × Int)) (row : List (Option Line)), RowFits cs row →
    ∀ b ∈ rowCells row, ∃ c ∈ cs, c.1 ≤ b.box.left ∧ b.box.right ≤ c.2 := by
  intro cs
  induction cs with
  | nil =>
    intro row h b hb
    cases row with
    | nil => simp [rowCells] at hb
    | cons _ _ => simp [RowFits] at h
  | cons c cs ih =>
    intro row h b hb
    cases row with
    | nil => simp [rowCells] at hb
    | cons cell row =>
      obtain ⟨h1, h2⟩ := h
      cases cell with
      | none =>
        have hb' : b ∈ rowCells row := by simpa [rowCells] using hb
        obtain ⟨c', hc', hh⟩ := ih row h2 b hb'
        exact ⟨c', mem_cons_of_mem _ hc', hh⟩
      | some a =>
        have hb' : b = a ∨ b ∈ rowCells row := by simpa [rowCells] using hb
        rcases hb' with rfl | hb'
        · exact ⟨c, by simp, h1⟩
        · obtain ⟨c', hc', hh⟩ := ih row h2 b hb'
          exact ⟨c', mem_cons_of_mem _ hc', hh⟩

theorem rowFits_disjoint : ∀ (cs : List (Int × Int)) (row : List (Option Line)),
    cs.Pairwise (fun c1 c2 => c1.2 < c2.1) → RowFits cs row →
    (rowCells row).Pairwise (fun a b => a.box.right < b.box.left) := by
  intro cs
  induction cs with
  | nil =>
    intro row _ h
    cases row with
    | nil => simp [rowCells]
    | cons _ _ => simp [RowFits] at h
  | cons c cs ih =>
    intro row hp h
    cases row with
    | nil => simp [rowCells]
    | cons cell row =>
      obtain ⟨h1, h2⟩ := h
      obtain ⟨hc, hcs⟩ := pairwise_cons.mp hp
      have hrec := ih row hcs h2
      cases cell with
      | none => simpa [rowCells] using hrec
      | some a =>
        have e : rowCells (some a :: row) = a :: rowCells row := by simp [rowCells]
        rw [e]
        refine pairwise_cons.mpr ⟨?_, hrec⟩
        intro b hb
        obtain ⟨c', hc', l1, _⟩ := rowFits_mem cs row h2 b hb
        have := hc c' hc'
        have := h1.2
        omega

theorem cleanGrid_rows {colX : List (Int × Int)} {g : Grid} (h : CleanGrid colX g) : CleanRows (gridRows g) := by
  obtain ⟨hx, hrow, habove, _⟩ := h
  constructor
  · intro r hr
    obtain ⟨hr1, hr2⟩ := mem_filter.mp hr
    obtain ⟨row, hrow', rfl⟩ := mem_map.mp hr1
    obtain ⟨hf, hcl, hband⟩ := hrow row hrow'
    refine ⟨by intro e; simp [e] at hr2, hcl, ?_⟩
    exact ((rowFits_disjoint colX row hx hf).and hband).imp (fun h => ⟨h.1, h.2.1, h.2.2⟩)
  · have : (g.map rowCells).Pairwise (fun r1 r2 => ∀ a ∈ r1, ∀ b ∈ r2, Above a b) := pairwise_map.mpr habove
    exact this.filter _

theorem mem_rowCells_of_get {row : List (Option Line)} {j : Nat} {l : Line} (h : (row[j]?).join = some l) :
    l ∈ rowCells row := by
  cases e : row[j]? with
  | none => simp [e] at h
  | some o =>
    simp only [e, Option.join] at h
    subst h
    exact mem_filterMap.mpr ⟨some l, mem_of_getElem? e, rfl⟩

theorem cleanGrid_col {colX : List (Int × Int)} {g : Grid} (h : CleanGrid colX g) (j : Nat) :
    CleanColumn (gridCol g j) := by
  obtain ⟨_, hrow, habove, hid⟩ := h
  constructor
  · intro l hl
    obtain ⟨row, hrow', e⟩ := mem_filterMap.mp hl
    exact (hrow row hrow').2.1 l (mem_rowCells_of_get e)
  · have hid' : g.Pairwise (fun r1 r2 => ∀ a ∈ rowCells r1, ∀ b ∈ rowCells r2, a.id ≠ b.id) :=
      pairwise_map.mp (pairwise_flatten.mp hid).2
    refine (habove.and hid').filterMap _ ?_
    intro r1 r2 hr a ha b hb
    exact ⟨hr.1 a (mem_rowCells_of_get ha) b (mem_rowCells_of_get hb),
      hr.2 a (mem_rowCells_of_get ha) b (mem_rowCells_of_get hb)⟩

/-! ### the column regions of a grid: one (possibly missing) region per column interval -/

def RegFits (c : Int × Int) : Option Reg → Prop
  | none => True
  | some r => c.1 ≤ r.box.left ∧ r.box.left < r.box.right ∧ r.box.right ≤ c.2

instance (c : Int × Int) (o : Option Reg) : Decidable (RegFits c o) := by
  cases o <;> unfold RegFits <;> infer_instance

def RegsFit : List (Int × Int) → List (Option Reg) → Prop
  | [], [] => True
  | c :: cs, r :: rs => RegFits c r ∧ RegsFit cs rs
  | _, _ => False

def decRegsFit : ∀ (cs : List (Int × Int)) (rs : List (Option Reg)), Decidable (RegsFit cs rs)
  | [], [] => isTrue trivial
  | c :: cs, r :: rs => by
    unfold RegsFit
    have := decRegsFit cs rs
    infer_instance
  | [], _ :: _ => isFalse (by simp [RegsFit])
  | _ :: _, [] => isFalse (by simp [RegsFit])

instance (cs : List (Int × Int)) (rs : List (Option Reg)) : Decidable (RegsFit cs rs) := decRegsFit cs rs

theorem regsFit_mem : ∀ (cs : List (Int × Int)) (rs : List (Option Reg)), RegsFit cs rs →
    ∀ b ∈ rs.filterMap id, ∃ c ∈ cs, c.1 ≤ b.box.left ∧ b.box.left < b.box.right ∧ b.box.right ≤ c.2 := by
  intro cs
  induction cs with
  | nil =>
    intro rs h b hb
    cases rs with
    | nil => simp at hb
    | cons _ _ => simp [RegsFit] at h
  | cons c cs ih =>
    intro rs h b hb
    cases rs with
    | nil => simp at hb
    | cons r rs =>
      obtain ⟨h1, h2⟩ := h
      cases r with
      | none =>
        have hb' : b ∈ rs.filterMap id := by simpa using hb
        obtain ⟨c', hc', hh⟩ := ih rs h2 b hb'
        exact ⟨c', mem_cons_of_mem _ hc', hh⟩
      | some a =>
        have hb' : b = a ∨ b ∈ rs.filterMap id := by simpa using hb
        rcases hb' with rfl | hb'
        · exact ⟨c, by simp, h1⟩
        · obtain ⟨c', hc', hh⟩ := ih rs h2 b hb'
          exact ⟨c', mem_cons_of_mem _ hc', hh⟩

theorem regsFit_disjoint : ∀ (cs : List (Int × Int)) (rs : List (Option Reg)),
    cs.Pairwise (fun c1 c2 => c1.2 < c2.1) → RegsFit cs rs →
    (rs.filterMap id).Pairwise (fun a b => a.box.right < b.box.left) := by
  intro cs
  induction cs with
  | nil =>
    intro rs _ h
    cases rs with
    | nil => simp
    | cons _ _ => simp [RegsFit] at h
  | cons c cs ih =>
    intro rs hp h
    cases rs with
    | nil => simp
    | cons r rs =>
      obtain ⟨h1, h2⟩ := h
      obtain ⟨hc, hcs⟩ := pairwise_cons.mp hp
      have hrec := ih rs hcs h2
      cases r with
      | none => simpa using hrec
      | some a =>
        have e : (some a :: rs).filterMap id = a :: rs.filterMap id := by simp
        rw [e]
        refine pairwise_cons.mpr ⟨?_, hrec⟩
        intro b hb
        obtain ⟨c', hc', l1, _⟩ := regsFit_mem cs rs h2 b hb
        have := hc c' hc'
        have := h1.2.2
        omega

/-- column regions lying inside the column intervals of a grid are `CleanColumns` -/
theorem cleanColumns_of_fit {colX : List (Int × Int)} {rs : List (Option Reg)}
    (hx : colX.Pairwise (fun c1 c2 => c1.2 < c2.1)) (hf : RegsFit colX rs)
    (hid : (rs.filterMap id).Pairwise (fun a b => a.id ≠ b.id)) : CleanColumns (rs.filterMap id) := by
  constructor
  · intro c hc
    obtain ⟨_, _, _, h, _⟩ := regsFit_mem colX rs hf c hc
    exact h
  · exact ((regsFit_disjoint colX rs hx hf).and hid).imp (fun h => ⟨h.1, h.2⟩)

end Pagexml.C15
