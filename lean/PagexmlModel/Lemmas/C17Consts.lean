/-
What the C17 theorems need to know about the literals regenerated from the source (Generated/C17.lean).

Almost nothing: the factors with which the predicates of `determine_word_break` are reached, the `> 0` /
`== 0` thresholds, the `'-'` literals of `has_non_merge_word`, `has_word_break_symbol` and
`end_start_are_hyphenated_compound` and the default break characters are treated as unknown values by every
proof of Lemmas/{Words,WordLoop,Reduce,Determine}.lean and Props/C17.lean (the theorems hold for every
value: totality, conservation, the hyphen rule, the detector range, "punctuation never merges" do not
depend on the tuning).  `remove_hyphen` has two obligations about its character set, and the two blanks
of `get_line_words`, which the model writes by hand, are tied to the source; each is decided on the
regenerated table: an edit of the source that breaks one of them breaks exactly that obligation (and the
theorem built on it).
-/
import PagexmlModel.Model.C17

namespace Pagexml.C17

/-- the statement's reading of "hyphens" for `remove_hyphen`: `-`, `=`, `:` (the oracle of
    harness/props/c17.py judges the real function against the same three characters) -/
def specHyphens : List Char := ['-', '=', ':']

/-- `remove_hyphen` strips the doubled hyphen `S` (`word[-2:] == S`) as a whole when the word ends with it —
    a test that is reached only when the last character is in the character set.  If `S` can match at all
    (two characters, the last one in the set), its first character has to be in the set too: else the
    function would remove a character that is not one of its hyphens. -/
theorem consts_double_hyphen_in_set :
    Generated.C17.doubleHyphen.length = 2 → Generated.C17.doubleHyphen.getLast?.all hyphenSet = true →
      ∀ c ∈ Generated.C17.doubleHyphen, hyphenSet c = true := by decide

/-- the character set of `remove_hyphen` stays within the statement's hyphens -/
theorem consts_hyphen_set_within_spec : ∀ c ∈ Generated.C17.hyphenChars, c ∈ specHyphens := by decide

/-- `get_line_words` drops the character before a trailing break character when it is `S` (`line[-2] == S`);
    the model writes the blank U+0020 — the one character every lawful classification knows to be
    whitespace, which conservation needs of a dropped character -/
theorem consts_norm_blank_is_blank : Generated.C17.normBlank = [' '] := by decide

/-- `get_line_words` skips a term equal to `S` (`term == S`); the model writes `[' ']` (same reason) -/
theorem consts_skip_term_is_blank : Generated.C17.skipTerm = [' '] := by decide

/-! ### generic, for every value -/

theorem hyphenSet_iff (c : Char) : hyphenSet c = true ↔ c ∈ Generated.C17.hyphenChars := by
  unfold hyphenSet
  exact List.contains_iff_mem

theorem hyphenSet_spec (c : Char) (h : hyphenSet c = true) : c = '-' ∨ c = '=' ∨ c = ':' := by
  have := consts_hyphen_set_within_spec c ((hyphenSet_iff c).mp h)
  simpa [specHyphens] using this

end Pagexml.C17
