/-
Translation invariance of every relation the ordering code uses, and commutation of the
grouping / ordering functions with a map that preserves the relations and the sort keys.
-/
import PagexmlModel.Lemmas.C15Group
import PagexmlModel.Lemmas.C15Baseline

namespace Pagexml.C15

open List

/-! ### relations -/

theorem overlapLen_shift (l r d : Int) : overlapLen (l + d) (r + d) = overlapLen l r := by
  simp only [overlapLen]; split <;> split <;> omega

theorem overlapLen_shift4 (a b c e d : Int) :
    overlapLen (max (a + d) (b + d)) (min (c + d) (e + d)) = overlapLen (max a b) (min c e) := by
  simp only [overlapLen]; split <;> split <;> omega

theorem hOverlap_shift (dx dy : Int) (a b : Line) : hOverlap (a.shift dx dy) (b.shift dx dy) = hOverlap a b := by
  simp only [hOverlap, Line.shift, Box.shift]
  cases a.bl <;> cases b.bl <;>
    simp only [Option.map, Baseline.shift_left, Baseline.shift_right, overlapLen_shift4]

theorem vOverlap_shift (dx dy : Int) (a b : Line) : vOverlap (a.shift dx dy) (b.shift dx dy) = vOverlap a b := by
  simp only [vOverlap, Line.shift, Box.shift, overlapLen_shift4]

theorem isBelow_shift (dx dy : Int) (a b : Line) : isBelow (a.shift dx dy) (b.shift dx dy) = isBelow a b := by
  simp only [isBelow, hOverlap_shift]
  simp only [Line.shift]
  cases a.bl <;> cases b.bl <;>
    simp only [Option.map, Baseline.shift_top, Baseline.shift_bottom, Baseline.shift_points, baselineIsBelow_shift]
  rename_i x y
  have : (x.bottom + dy < y.top + dy) ↔ (x.bottom < y.top) := by omega
  simp only [this]

theorem isNextTo_shift (dx dy : Int) (a b : Line) : isNextTo (a.shift dx dy) (b.shift dx dy) = isNextTo a b := by
  simp only [isNextTo, hOverlap_shift, vOverlap_shift]
  simp only [Line.shift]
  cases a.bl <;> cases b.bl <;>
    simp only [Option.map, Baseline.shift_top, Baseline.shift_bottom]
  rename_i x y
  have e1 : (x.top + dy > y.bottom + dy + Generated.C15.nextToTolTop) ↔ (x.top > y.bottom + Generated.C15.nextToTolTop) := by
    omega
  have e2 : (x.bottom + dy < y.top + dy - Generated.C15.nextToTolBottom) ↔ (x.bottom < y.top - Generated.C15.nextToTolBottom) := by
    omega
  simp only [e1, e2]

theorem hDiff_shift (dx dy : Int) (a b : Line) : hDiff (a.shift dx dy) (b.shift dx dy) = hDiff a b := by
  simp only [hDiff, Line.shift, Box.shift]
  cases a.bl <;> cases b.bl <;> simp only [Option.map, Baseline.shift_left] <;> congr 2 <;> omega

theorem vDiff_shift (dx dy : Int) (a b : Line) : vDiff (a.shift dx dy) (b.shift dx dy) = vDiff a b := by
  simp only [vDiff, Line.shift, Box.shift]
  cases a.bl <;> cases b.bl <;> simp only [Option.map, Baseline.shift_top] <;> congr 2 <;> omega

theorem sortLines_shift (dx dy : Int) (a b : Line) (c : Bool) :
    sortLines (a.shift dx dy) (b.shift dx dy) c = sortLines a b c := by
  simp only [sortLines, hOverlap_shift, vOverlap_shift, hDiff_shift, vDiff_shift, isBelow_shift]
  simp only [Line.shift, Box.shift]
  have e1 : max (a.box.right + dx) (b.box.right + dx) - min (a.box.left + dx) (b.box.left + dx)
      = max a.box.right b.box.right - min a.box.left b.box.left := by omega
  have e2 : max (a.box.bottom + dy) (b.box.bottom + dy) - min (a.box.top + dy) (b.box.top + dy)
      = max a.box.bottom b.box.bottom - min a.box.top b.box.top := by omega
  have e3 : (a.box.left + dx < b.box.left + dx) ↔ (a.box.left < b.box.left) := by omega
  have e4 : (a.box.top + dy < b.box.top + dy) ↔ (a.box.top < b.box.top) := by omega
  simp only [e1, e2, e3, e4]

theorem lineLt_shift (dx dy : Int) (a b : Line) : lineLt (a.shift dx dy) (b.shift dx dy) = lineLt a b := by
  simp only [lineLt, sortLines_shift]
  rfl

theorem isHOverlapping_shift (dx dy : Int) (a b : Box) :
    isHOverlapping (a.shift dx dy) (b.shift dx dy) = isHOverlapping a b := by
  have e0 := overlapLen_shift4 a.left b.left a.right b.right dx
  have e1 : a.right + dx - (a.left + dx) = a.right - a.left := by omega
  have e2 : b.right + dx - (b.left + dx) = b.right - b.left := by omega
  have e3 : (b.left + dx ≤ a.left + dx) ↔ (b.left ≤ a.left) := by omega
  have e4 : (a.left + dx ≤ b.right + dx) ↔ (a.left ≤ b.right) := by omega
  have e5 : (a.left + dx ≤ b.left + dx) ↔ (a.left ≤ b.left) := by omega
  have e6 : (b.left + dx ≤ a.right + dx) ↔ (b.left ≤ a.right) := by omega
  by_cases h1 : a.right - a.left = 0 <;> by_cases h2 : b.right - b.left = 0 <;>
    simp [isHOverlapping, Box.shift, Box.width, overlapLen_shift, e1, e2, e3, e4, e5, e6, h1, h2]

theorem regionLt_shift (dx dy : Int) (a b : Reg) : regionLt (a.shift dx dy) (b.shift dx dy) = regionLt a b := by
  simp only [regionLt, Reg.shift, isHOverlapping_shift]
  simp only [Box.shift]
  have e3 : (a.box.left + dx < b.box.left + dx) ↔ (a.box.left < b.box.left) := by omega
  have e4 : (a.box.top + dy < b.box.top + dy) ↔ (a.box.top < b.box.top) := by omega
  simp only [e3, e4]

theorem byTop_shift (dx dy : Int) (a b : Line) : byTop (a.shift dx dy) (b.shift dx dy) = byTop a b := by
  simp only [byTop, Line.shift, Box.shift]
  have : (a.box.top + dy ≤ b.box.top + dy) ↔ (a.box.top ≤ b.box.top) := by omega
  simp only [this]
theorem byLeft_shift (dx dy : Int) (a b : Line) : byLeft (a.shift dx dy) (b.shift dx dy) = byLeft a b := by
  simp only [byLeft, Line.shift, Box.shift]
  have : (a.box.left + dx ≤ b.box.left + dx) ↔ (a.box.left ≤ b.box.left) := by omega
  simp only [this]
theorem byRightDesc_shift (dx dy : Int) (a b : Line) :
    byRightDesc (a.shift dx dy) (b.shift dx dy) = byRightDesc a b := by
  simp only [byRightDesc, Line.shift, Box.shift]
  have : (b.box.right + dx ≤ a.box.right + dx) ↔ (b.box.right ≤ a.box.right) := by omega
  simp only [this]

/-! ### the grouping and ordering functions commute with such a map -/

/-- what a map of lines has to preserve -/
structure Preserves (below nextTo : Line → Line → Res Bool) (s : Line → Line) : Prop where
  below : ∀ a b, below (s a) (s b) = below a b
  nextTo : ∀ a b, nextTo (s a) (s b) = nextTo a b
  top : ∀ a b, byTop (s a) (s b) = byTop a b
  left : ∀ a b, byLeft (s a) (s b) = byLeft a b
  right : ∀ a b, byRightDesc (s a) (s b) = byRightDesc a b
  text : ∀ a, (s a).hasText = a.hasText

theorem groupLines_map {below nextTo : Line → Line → Res Bool} {s : Line → Line}
    (P : Preserves below nextTo s) (ls : List Line) :
    groupLines below nextTo (ls.map s) = (groupLines below nextTo ls).map (fun gs => gs.map (fun g => g.map s)) := by
  have e1 : (ls.map s).mergeSort byTop = (ls.mergeSort byTop).map s :=
    (map_mergeSort (fun a _ b _ => (P.top a b).symm)).symm
  have e2 : ((ls.mergeSort byTop).map s).filter (·.hasText) = ((ls.mergeSort byTop).filter (·.hasText)).map s := by
    rw [filter_map]
    congr 1
    apply filter_congr
    intro a _
    simp [P.text]
  simp only [groupLines, e1, e2]
  cases (ls.mergeSort byTop).filter (·.hasText) with
  | nil => rfl
  | cons v rest =>
    have e3 := groupGo_map below nextTo s P.below P.nextTo rest v []
    simp only [map_nil] at e3
    simp only [map_cons, e3]
    cases groupGo below nextTo v [] rest with
    | error e => rfl
    | ok gs =>
      simp only [Except.map, Except.ok.injEq, map_map]
      apply map_congr_left
      intro g _
      exact (map_mergeSort (fun a _ b _ => (P.left a b).symm)).symm

theorem orderGroups_map {s : Line → Line} (hl : ∀ a b, byLeft (s a) (s b) = byLeft a b)
    (hr : ∀ a b, byRightDesc (s a) (s b) = byRightDesc a b) (dir : Dir) :
    ∀ gs : List (List Line), orderGroups dir (gs.map (fun g => g.map s)) = (orderGroups dir gs).map (fun o => o.map s) := by
  intro gs
  induction gs with
  | nil => rfl
  | cons g gs ih =>
    simp only [map_cons, orderGroups, ih]
    have eo : orderGroup dir (g.map s) = (orderGroup dir g).map (fun o => o.map s) := by
      cases dir with
      | ltr => simp only [orderGroup, Except.map, Except.ok.injEq]
               exact (map_mergeSort (fun a _ b _ => (hl a b).symm)).symm
      | rtl => simp only [orderGroup, Except.map, Except.ok.injEq]
               exact (map_mergeSort (fun a _ b _ => (hr a b).symm)).symm
      | other => rfl
    rw [eo]
    cases orderGroup dir g with
    | error e => rfl
    | ok o =>
      cases orderGroups dir gs with
      | error e => rfl
      | ok r => simp [Except.map]

theorem readingDirection_map {below nextTo : Line → Line → Res Bool} {s : Line → Line}
    (P : Preserves below nextTo s) (dir : Dir) (ls : List Line) :
    readingDirection below nextTo dir (ls.map s) = (readingDirection below nextTo dir ls).map (fun o => o.map s) := by
  simp only [readingDirection, groupLines_map P]
  cases groupLines below nextTo ls with
  | error e => rfl
  | ok gs => simp only [Except.map]; exact orderGroups_map P.left P.right dir gs

theorem shift_preserves (dx dy : Int) : Preserves isBelow isNextTo (Line.shift dx dy) where
  below := isBelow_shift dx dy
  nextTo := isNextTo_shift dx dy
  top := byTop_shift dx dy
  left := byLeft_shift dx dy
  right := byRightDesc_shift dx dy
  text := fun _ => rfl

end Pagexml.C15
