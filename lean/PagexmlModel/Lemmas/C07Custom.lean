/-
C07 / C11: the custom attribute string the export writes parses back to the custom attributes.

`C07.customString` models `make_custom_string` over the Python values of the JSON view (any dict),
`C11.makeCustomString` over typed entries (`C11.Entry`, strings as `List Char`).  On the dicts the
parser produces — the pairs of the tag in order, then `tag_name` (`entryVal`) — the two are the same
function (`customString_entries`), so the C11 round trip (`parse (make es) = es` for well-formed
entries) applies to what C07 exports.
-/
import PagexmlModel.Model.C07Parse
import PagexmlModel.Lemmas.C06
import PagexmlModel.Lemmas.C11Inv

set_option linter.unusedSimpArgs false
set_option linter.unusedVariables false

namespace Pagexml.C07
open Pagexml.C06

def valOf : C11.Val → PyVal
  | .str s => .str (String.ofList s)
  | .int i => .int i

/-- one parsed custom attribute as the Python dict `{**pairs, 'tag_name': name}` -/
def entryVal (e : C11.Entry) : PyVal :=
  .dict (e.attrs.map (fun kv => (Key.s (String.ofList kv.1), valOf kv.2)) ++ [(.s "tag_name", .str (String.ofList e.name))])

theorem joinWith_ofList (ls : List (List Char)) :
    joinWith " " (ls.map String.ofList) = String.ofList (C03.intercalate [' '] ls) := by
  induction ls with
  | nil => rfl
  | cons a ls ih =>
    cases ls with
    | nil => simp [joinWith, C03.intercalate]
    | cons b rest =>
      simp only [List.map_cons, joinWith, C03.intercalate] at ih ⊢
      rw [ih]
      simp [String.ofList_append, String.append_assoc]

theorem pyStr_valOf (v : C11.Val) : pyStr (valOf v) = .ok (String.ofList (C11.showVal v)) := by
  cases v <;> simp [valOf, pyStr, C11.showVal, strOfInt]

theorem key_ne_tag_name (k : List Char) (h : k ≠ C11.tagNameKey) : Key.s (String.ofList k) ≠ Key.s "tag_name" := by
  intro e
  injection e with e
  apply h
  have : String.ofList k = String.ofList C11.tagNameKey := by rw [e]; rfl
  exact String.ofList_injective this

theorem mapM_map_ok' {α β γ : Type} (f : β → Res γ) (g : α → β) (h : α → γ) (l : List α)
    (hl : ∀ x ∈ l, f (g x) = .ok (h x)) : (l.map g).mapM f = .ok (l.map h) := by
  induction l with
  | nil => rfl
  | cons x xs ih =>
    simp only [List.map_cons, List.mapM_cons, hl x (by simp), ih (fun y hy => hl y (by simp [hy]))]
    rfl

theorem customElementString_entryVal (e : C11.Entry) (hnt : C11.tagNameKey ∉ e.attrs.map Prod.fst) :
    customElementString (entryVal e) = .ok (String.ofList (C11.elementString e)) := by
  obtain ⟨name, attrs⟩ := e
  simp only at hnt
  have hk : ∀ kv ∈ attrs, Key.s (String.ofList kv.1) ≠ Key.s "tag_name" := by
    intro kv hkv
    apply key_ne_tag_name
    intro e
    exact hnt (List.mem_map.mpr ⟨kv, hkv, e⟩)
  have hfilter : (attrs.map (fun kv => (Key.s (String.ofList kv.1), valOf kv.2)) ++ [(Key.s "tag_name", PyVal.str (String.ofList name))]).filter
      (fun kv => kv.1 != Key.s "tag_name") = attrs.map (fun kv => (Key.s (String.ofList kv.1), valOf kv.2)) := by
    rw [List.filter_append]
    have h1 : (attrs.map (fun kv => (Key.s (String.ofList kv.1), valOf kv.2))).filter (fun kv => kv.1 != Key.s "tag_name")
        = attrs.map (fun kv => (Key.s (String.ofList kv.1), valOf kv.2)) := by
      apply List.filter_eq_self.mpr
      intro x hx
      obtain ⟨kv, hkv, rfl⟩ := List.mem_map.mp hx
      simpa using hk kv hkv
    rw [h1]
    simp
  have hlook : alookup (.s "tag_name") (attrs.map (fun kv => (Key.s (String.ofList kv.1), valOf kv.2))
      ++ [(Key.s "tag_name", PyVal.str (String.ofList name))]) = some (.str (String.ofList name)) := by
    rw [alookup_append]
    have : alookup (.s "tag_name") (attrs.map (fun kv => (Key.s (String.ofList kv.1), valOf kv.2))) = none := by
      clear hfilter hnt
      induction attrs with
      | nil => rfl
      | cons kv attrs ih =>
        simp only [List.map_cons, alookup_cons, hk kv (by simp), if_false]
        exact ih (fun x hx => hk x (by simp [hx]))
    simp [this]
  unfold customElementString entryVal
  simp only [hfilter, hlook]
  rw [mapM_map_ok' _ _ (fun kv => String.ofList (C11.fieldString kv)) attrs (fun kv _ => by
    simp [pyStr_valOf, C11.fieldString, String.ofList_append, String.append_assoc])]
  have hj : joinWith " " (attrs.map (fun kv => String.ofList (C11.fieldString kv)))
      = String.ofList (C03.intercalate [' '] (attrs.map C11.fieldString)) := by
    rw [← joinWith_ofList]; simp [List.map_map, Function.comp_def]
  simp only [ok_bind, needStr, pure_eq_ok, hj, C11.elementString]
  simp [String.ofList_append, String.append_assoc]
  rw [show (" {" : String) = " " ++ "{" from by decide, String.append_assoc]

theorem customString_entries (es : List C11.Entry) (h : ∀ e ∈ es, C11.tagNameKey ∉ e.attrs.map Prod.fst) :
    customString (.list (es.map entryVal)) = .ok (some (String.ofList (C11.makeCustomString es))) := by
  have hm : (es.map entryVal).mapM customElementString = .ok ((es.map C11.elementString).map String.ofList) := by
    induction es with
    | nil => rfl
    | cons e es ih =>
      simp only [List.map_cons, List.mapM_cons, customElementString_entryVal e (h e (by simp)),
        ih (fun x hx => h x (by simp [hx]))]
      rfl
  simp only [customString, hm, ok_bind, pure_eq_ok, joinWith_ofList, C11.makeCustomString]

/-- parse ∘ serialise on well-formed entries (the general form of `C11_reserialise_stable`) -/
theorem parse_make (cc : C11.CharClass) (hcc : C11.Lawful cc) (es : List C11.Entry) (hok : ∀ e ∈ es, C11.EntryOK cc e) :
    C11.parseCustomAttributes cc (C11.makeCustomString es) = .ok es := by
  rw [C11.make_eq_render]
  have htail : C11.NoWord cc (if es.isEmpty then [] else [' ']) := by
    intro c hc
    split at hc
    · simp at hc
    · simp at hc; subst hc; exact hcc.space_not_word
  rw [C11.parse_renderLaid hcc _ _ (C11.canonTags_ok hcc es true hok) htail, C11.map_entryOf_canon es true hok]

/-- the custom attribute string written for an element whose `custom_attributes` are the
    well-formed entries `es` parses back to `es` -/
theorem custom_roundtrip (cc : C11.CharClass) (hcc : C11.Lawful cc) (md : Meta) (es : List C11.Entry)
    (hmd : customOf md = .list (es.map entryVal)) (hok : ∀ e ∈ es, C11.EntryOK cc e) :
    ∃ c, customStr md = some c ∧ C11.parseCustomAttributes cc c.toList = .ok es := by
  refine ⟨String.ofList (C11.makeCustomString es), ?_, ?_⟩
  · simp [customStr, hmd, customString_entries es (fun e he => (hok e he).no_tag_name)]
  · rw [String.toList_ofList]; exact parse_make cc hcc es hok

end Pagexml.C07
