/-
C19: regular stacks of lines (n copies of one baseline shape, leading Δ, common text
length) and the region-level averages on them.
-/
import PagexmlModel.Lemmas.C19Sort
import PagexmlModel.Lemmas.C19Consts
import Mathlib.Tactic.Ring

namespace Pagexml.C19
open Pagexml.C03 (Pt Coords mkCoords)

/-- line `i` of a regular stack: the baseline shape moved down by `i·Δ`; any polygon -/
def stackLine (shape : List Pt) (coordsOf : Nat → List Pt) (m sp : Nat) (Δ : Int) (i : Nat) : Line :=
  { coords := coordsOf i, baseline := some (shiftDown ((i : Int) * Δ) shape), text := some (m, sp) }

/-- lines `i, i+1, …, i+n-1` of the stack -/
def stackFrom (shape : List Pt) (coordsOf : Nat → List Pt) (m sp : Nat) (Δ : Int) : Nat → Nat → List Line
  | _, 0 => []
  | i, n + 1 => stackLine shape coordsOf m sp Δ i :: stackFrom shape coordsOf m sp Δ (i + 1) n

/-- a text region without sub-regions holding the `n` lines of the stack -/
def stackRegion (rc : List Pt) (sid cid : Option Int) (shape : List Pt) (coordsOf : Nat → List Pt)
    (m sp : Nat) (Δ : Int) (n : Nat) : Region :=
  .mk rc sid cid (stackFrom shape coordsOf m sp Δ 0 n) []

theorem stackFrom_length (shape : List Pt) (coordsOf : Nat → List Pt) (m sp : Nat) (Δ : Int) (i n : Nat) :
    (stackFrom shape coordsOf m sp Δ i n).length = n := by
  induction n generalizing i with
  | zero => rfl
  | succ n ih => simp [stackFrom, ih]

theorem shiftDown_shiftDown (a b : Int) (ps : List Pt) : shiftDown a (shiftDown b ps) = shiftDown (b + a) ps := by
  simp only [shiftDown, List.map_map]
  apply List.map_congr_left
  intro p _
  simp only [Function.comp]
  congr 1; omega

theorem interp_length_shift (mdt : MulDivTrunc) (ps : List Pt) (step c : Int) :
    (interpBaselinePure mdt (shiftDown c ps) step).length = (interpBaselinePure mdt ps step).length := by
  rw [interpBaselinePure_shift]; simp [dshift]

/-- the distance between consecutive lines of a stack whose shape is sampled at least once -/
theorem lineDist_stack (mdt : MulDivTrunc) (shape : List Pt) (coordsOf : Nat → List Pt) (m sp : Nat)
    (Δ : Int) (hΔ : 0 ≤ Δ) (hk : interpBaselinePure mdt shape lineStep ≠ []) (i : Nat) :
    lineDist mdt (stackLine shape coordsOf m sp Δ i) (stackLine shape coordsOf m sp Δ (i + 1)) lineStep =
      .ok (List.replicate (interpBaselinePure mdt shape lineStep).length Δ) := by
  simp only [lineDist, stackLine]
  have e : shiftDown (((i + 1 : Nat) : Int) * Δ) shape = shiftDown Δ (shiftDown ((i : Int) * Δ) shape) := by
    rw [shiftDown_shiftDown]
    congr 1
    rw [Int.natCast_add, Int.add_mul]; simp
  rw [e, baselineDistances_shift mdt _ lineStep Δ hΔ consts_line_step_nonzero, interp_length_shift]
  intro h
  apply hk
  have := interp_length_shift mdt shape lineStep ((i : Int) * Δ)
  rw [h] at this
  exact List.eq_nil_of_length_eq_zero this.symm

/-- the same for a stack too narrow to be sampled: the single fallback distance is `Δ` when some
    segment of the shape is not vertical and the shape lies at non-negative y -/
theorem lineDist_stack_narrow (mdt : MulDivTrunc) (shape : List Pt) (coordsOf : Nat → List Pt) (m sp : Nat)
    (Δ : Int) (hΔ : 0 ≤ Δ) (hk : interpBaselinePure mdt shape lineStep = [])
    (hy : ∀ p ∈ shape, 0 ≤ p.2) (hnv : hasNonVertical shape = true) (i : Nat) :
    lineDist mdt (stackLine shape coordsOf m sp Δ i) (stackLine shape coordsOf m sp Δ (i + 1)) lineStep =
      .ok (List.replicate 1 Δ) := by
  simp only [lineDist, stackLine]
  have e : shiftDown (((i + 1 : Nat) : Int) * Δ) shape = shiftDown Δ (shiftDown ((i : Int) * Δ) shape) := by
    rw [shiftDown_shiftDown]
    congr 1
    rw [Int.natCast_add, Int.add_mul]; simp
  have hiΔ : 0 ≤ (i : Int) * Δ := Int.mul_nonneg (by omega) hΔ
  rw [e]
  refine baselineDistances_shift_fallback mdt _ lineStep Δ hΔ consts_line_step_nonzero ?_ ?_ ?_
  · have := interp_length_shift mdt shape lineStep ((i : Int) * Δ)
    rw [hk] at this
    exact List.eq_nil_of_length_eq_zero this
  · intro p hp
    obtain ⟨q, hq, rfl⟩ := List.mem_map.mp hp
    have := hy q hq
    show 0 ≤ q.2 + (i : Int) * Δ
    omega
  · rw [hasNonVertical_shift]; exact hnv

/-- all line distances of a stack, given the distance between consecutive lines -/
theorem lineDistsIn_stack (mdt : MulDivTrunc) (shape : List Pt) (coordsOf : Nat → List Pt) (m sp : Nat)
    (Δ : Int) (ds : List Int)
    (hd : ∀ i, lineDist mdt (stackLine shape coordsOf m sp Δ i) (stackLine shape coordsOf m sp Δ (i + 1)) lineStep = .ok ds)
    (i n : Nat) :
    lineDistsIn mdt (stackFrom shape coordsOf m sp Δ i (n + 1)) none = .ok (List.replicate n ds) := by
  induction n generalizing i with
  | zero => simp [stackFrom, lineDistsIn]
  | succ n ih =>
    have := ih (i + 1)
    simp only [stackFrom] at this ⊢
    simp only [lineDistsIn, hd i, this, bind, Except.bind, pure, Except.pure, List.replicate_succ]

theorem innerRegions_leaf (rc : List Pt) (sid cid : Option Int) (lines : List Line) :
    innerRegions (.mk rc sid cid lines []) = if lines.isEmpty then [] else [.mk rc sid cid lines []] := by
  simp only [innerRegions, innerRegionsL, List.isEmpty_nil, Bool.true_and, List.nil_append]
  cases lines <;> simp

theorem regionLineDistances_stack (mdt : MulDivTrunc) (rc : List Pt) (sid cid : Option Int) (shape : List Pt)
    (coordsOf : Nat → List Pt) (m sp : Nat) (Δ : Int) (ds : List Int)
    (hd : ∀ i, lineDist mdt (stackLine shape coordsOf m sp Δ i) (stackLine shape coordsOf m sp Δ (i + 1)) lineStep = .ok ds)
    (n : Nat) :
    regionLineDistances mdt (stackRegion rc sid cid shape coordsOf m sp Δ (n + 1)) = .ok (List.replicate n ds) := by
  unfold regionLineDistances stackRegion
  rw [innerRegions_leaf]
  simp only [stackFrom, List.isEmpty_cons, Bool.false_eq_true, ↓reduceIte, regionsLineDistances, Region.lines]
  exact lineDistsIn_stack mdt shape coordsOf m sp Δ ds hd 0 n

/-! ### medians and means of constant lists -/

theorem nth_replicate {α : Type} {n i : Nat} (c : α) (h : i < n) : nth (List.replicate n c) i = .ok c := by
  simp [nth, h]

/-- the median of `m > 0` copies of the rational `c` is (a representation of) `c` -/
theorem medianQ_replicate (m : Nat) (hm : 0 < m) (c : Q) :
    ∃ q, medianQ (List.replicate m c) = .ok q ∧ q.1 * c.2 = c.1 * q.2 ∧ (0 < c.2 → 0 < q.2) := by
  unfold medianQ
  simp only [isort_replicate, List.length_replicate]
  have h0 : ¬ m = 0 := by omega
  simp only [h0, ↓reduceIte, bind, Except.bind]
  by_cases hodd : m % 2 = 1
  · simp only [hodd, ↓reduceIte]
    rw [nth_replicate c (by omega)]
    exact ⟨c, rfl, rfl, fun h => h⟩
  · simp only [hodd, ↓reduceIte]
    rw [nth_replicate c (by omega), nth_replicate c (by omega)]
    refine ⟨_, rfl, ?_, ?_⟩
    · simp only; ring
    · intro h
      simp only
      have : 0 < c.2 * c.2 := Int.mul_pos h h
      rw [Int.mul_assoc]; omega

theorem sum_replicate_int (k : Nat) (d : Int) : (List.replicate k d).sum = (k : Int) * d := by
  induction k with
  | zero => simp
  | succ k ih =>
    rw [List.replicate_succ, List.sum_cons, ih, Int.natCast_add, Int.add_mul]; simp; omega

theorem mapM_replicate_ok {α β : Type} (f : α → Res β) (a : α) (b : β) (h : f a = .ok b) (n : Nat) :
    (List.replicate n a).mapM f = .ok (List.replicate n b) := by
  induction n with
  | zero => rfl
  | succ n ih =>
    rw [List.replicate_succ, List.mapM_cons, h, ih]
    rfl

/-- both averages of `n ≥ 1` distance arrays, each `k ≥ 1` copies of `Δ`, are `Δ` -/
theorem avg_of_constant (mdt : MulDivTrunc) (r : Region) (n k : Nat) (hn : 0 < n) (hk : 0 < k) (Δ : Int)
    (h : regionLineDistances mdt r = .ok (List.replicate n (List.replicate k Δ)))
    (t : AvgType) (ht : t = .macro ∨ t = .micro) :
    ∃ q, avgLineDistance mdt r t = .ok q ∧ 0 < q.2 ∧ q.1 = Δ * q.2 := by
  unfold avgLineDistance
  have hne : (List.replicate n (List.replicate k Δ)).isEmpty = false := by
    rw [List.isEmpty_replicate]; simp; omega
  rcases ht with rfl | rfl
  · simp only [reduceCtorEq, ↓reduceIte, h, bind, Except.bind, hne, Bool.false_eq_true, pure, Except.pure]
    have hm : meanQ (List.replicate k Δ) = .ok ((k : Int) * Δ, (k : Int)) := by
      unfold meanQ
      rw [List.isEmpty_replicate, sum_replicate_int, List.length_replicate]
      have : ¬ k = 0 := by omega
      simp [this]
    rw [mapM_replicate_ok meanQ _ _ hm n]
    obtain ⟨q, hq, h1, h2⟩ := medianQ_replicate n hn ((k : Int) * Δ, (k : Int))
    refine ⟨q, hq, h2 (by simp; omega), ?_⟩
    simp only at h1
    have hk' : (0 : Int) < k := by omega
    have : (q.1 - Δ * q.2) * (k : Int) = 0 := by
      have : (q.1 - Δ * q.2) * (k : Int) = q.1 * (k : Int) - (k : Int) * Δ * q.2 := by ring
      rw [this, h1]; omega
    rcases Int.mul_eq_zero.mp this with h | h
    · omega
    · omega
  · simp only [reduceCtorEq, ↓reduceIte, h, bind, Except.bind, hne, Bool.false_eq_true, pure, Except.pure]
    rw [List.flatten_replicate_replicate]
    unfold ofInts
    rw [List.map_replicate]
    obtain ⟨q, hq, h1, h2⟩ := medianQ_replicate (n * k) (Nat.mul_pos hn hk) (Δ, 1)
    refine ⟨q, hq, h2 (by simp), ?_⟩
    simp only at h1
    omega

/-! ### widths -/

theorem mkCoords_shift_width {ps : List Pt} {cs : Coords} (h : mkCoords ps = .ok cs) (c : Int) :
    ∃ cs', mkCoords (shiftDown c ps) = .ok cs' ∧ cs'.width = cs.width := by
  have hxs : (shiftDown c ps).map (·.1) = ps.map (·.1) := by
    simp [shiftDown, List.map_map, Function.comp_def]
  unfold mkCoords at h ⊢
  obtain ⟨x, hx, h⟩ := bind_ok.mp h
  obtain ⟨y, hy, h⟩ := bind_ok.mp h
  obtain ⟨mx, hmx, h⟩ := bind_ok.mp h
  obtain ⟨my, hmy, h⟩ := bind_ok.mp h
  simp only [pure, Except.pure, Except.ok.injEq] at h
  subst h
  rw [hxs, hx, hmx]
  cases hp : ps with
  | nil => subst hp; simp [C03.minL] at hx
  | cons a r =>
    simp only [shiftDown, List.map_cons, C03.minL, C03.maxL, bind, Except.bind, pure, Except.pure]
    exact ⟨_, rfl, rfl⟩

theorem measureWidth_stackLine (shape : List Pt) (coordsOf : Nat → List Pt) (m sp : Nat) (Δ : Int) (i : Nat)
    {cs : Coords} (h : mkCoords shape = .ok cs) :
    (stackLine shape coordsOf m sp Δ i).measureWidth = .ok cs.width := by
  obtain ⟨cs', h1, h2⟩ := mkCoords_shift_width h ((i : Int) * Δ)
  simp only [Line.measureWidth, stackLine, h1, bind, Except.bind, pure, Except.pure, h2]

theorem mem_stackFrom {shape : List Pt} {coordsOf : Nat → List Pt} {m sp : Nat} {Δ : Int} {i n : Nat} {l : Line}
    (h : l ∈ stackFrom shape coordsOf m sp Δ i n) : ∃ j, l = stackLine shape coordsOf m sp Δ j := by
  induction n generalizing i with
  | zero => simp [stackFrom] at h
  | succ n ih =>
    simp only [stackFrom, List.mem_cons] at h
    rcases h with h | h
    · exact ⟨i, h⟩
    · exact ih h

theorem allLines_stack (rc : List Pt) (sid cid : Option Int) (shape : List Pt) (coordsOf : Nat → List Pt)
    (m sp : Nat) (Δ : Int) (n : Nat) :
    allLines (stackRegion rc sid cid shape coordsOf m sp Δ n) = stackFrom shape coordsOf m sp Δ 0 n := by
  unfold allLines stackRegion
  rw [innerRegions_leaf]
  cases n with
  | zero => simp [stackFrom]
  | succ n => simp [stackFrom, Region.lines]

/-- folding the (width, count) accumulator over lines that all have text and width `w` -/
theorem foldlM_const (ls : List Line) (w c : Int)
    (f : Int × Int → Line → Res (Int × Int))
    (hf : ∀ acc, ∀ l ∈ ls, f acc l = .ok (acc.1 + w, acc.2 + c)) (acc : Int × Int) :
    ls.foldlM f acc = .ok (acc.1 + (ls.length : Int) * w, acc.2 + (ls.length : Int) * c) := by
  induction ls generalizing acc with
  | nil => simp [List.foldlM, pure, Except.pure]
  | cons a r ih =>
    rw [List.foldlM_cons, hf acc a List.mem_cons_self]
    simp only [bind, Except.bind]
    rw [ih (fun acc l hl => hf acc l (List.mem_cons_of_mem _ hl))]
    simp only [List.length_cons, Int.natCast_add, Int.natCast_one, Except.ok.injEq, Prod.mk.injEq]
    constructor <;> ring

end Pagexml.C19
