/-
C02: every operation that meets the precondition preserves the invariant (the case analysis
behind `C02_step_preserves`).
-/
import PagexmlModel.Lemmas.C02Ops
import PagexmlModel.Lemmas.C02Fuel

namespace Pagexml.C02

/-! ### every operation preserves the invariant -/

theorem refs_all {σ : Store} {l : List Nat} (h : l.all σ.has = true) : ∀ c ∈ l, σ.has c = true :=
  fun c hc => List.all_eq_true.mp h c hc

theorem freeKids_of_pre {σ : Store} {l : List Nat} (hr : ∀ c ∈ l, σ.has c = true)
    (hp : l.all (fun c => σ.free c && σ.notScan c) = true) : ∀ c ∈ l, FreeKid σ c := by
  intro c hc
  have := List.all_eq_true.mp hp c hc
  simp only [Bool.and_eq_true] at this
  exact freeKid_of (hr c hc) this.1 this.2

theorem attachables_of_pre {σ : Store} {p : Nat} {l : List Nat} (hr : ∀ c ∈ l, σ.has c = true)
    (hp : l.all (fun c => σ.onlyBy c p && σ.notScan c) = true) : ∀ c ∈ l, Attachable σ p c := by
  intro c hc
  have := List.all_eq_true.mp hp c hc
  simp only [Bool.and_eq_true] at this
  exact attachable_of (hr c hc) this.1 this.2

/-- an operation that meets the precondition keeps the invariant, whatever it returns -/
theorem step_preserves {σ σ' : Store} {op : Op} {o : Out}
    (hpre : Pre σ op = true) (hinv : Inv σ) (hstep : step σ op = .ok (σ', o)) : Inv σ' := by
  unfold Pre at hpre
  rw [Bool.and_eq_true] at hpre
  obtain ⟨hrefs, hpre⟩ := hpre
  unfold step at hstep
  rw [hrefs] at hstep
  simp only [Bool.not_true, Bool.false_eq_true, if_false] at hstep
  have hr := refs_all hrefs
  cases op with
  | mkWord a =>
    simp only [Except.ok.injEq] at hstep
    rw [show σ' = (mkWord σ a).1 from by rw [hstep]]; exact inv_mkWord a hinv
  | mkLine a ws =>
    simp only [Except.ok.injEq] at hstep
    rw [show σ' = (mkLine σ a ws).1 from by rw [hstep]]; exact inv_mkLine a ws hinv (freeKids_of_pre hr hpre)
  | mkRegion col a ls rs ts =>
    simp only [Except.ok.injEq] at hstep
    rw [show σ' = (mkRegion σ col a ls rs ts).1 from by rw [hstep]]; exact inv_mkRegion col a ls rs ts hinv (freeKids_of_pre hr hpre)
  | mkPage a ls rs ts cols ex =>
    simp only [Except.ok.injEq] at hstep
    rw [show σ' = (mkPage σ a ls rs ts cols ex).1 from by rw [hstep]]; exact inv_mkPage a ls rs ts cols ex hinv (freeKids_of_pre hr hpre)
  | mkScan a ls rs ts cols pages =>
    exact inv_mkScan a ls rs ts cols pages hinv (freeKids_of_pre hr hpre) hstep
  | mkCell a ls =>
    simp only [Except.ok.injEq] at hstep
    rw [show σ' = (mkCell σ a ls).1 from by rw [hstep]]; exact inv_mkCell a ls hinv (freeKids_of_pre hr hpre)
  | mkRow a cs =>
    simp only [Except.ok.injEq] at hstep
    rw [show σ' = (mkRow σ a cs).1 from by rw [hstep]]; exact inv_mkRow a cs hinv (freeKids_of_pre hr hpre)
  | mkTable a rs =>
    simp only [Except.ok.injEq] at hstep
    rw [show σ' = (mkTable σ a rs).1 from by rw [hstep]]; exact inv_mkTable a rs hinv (freeKids_of_pre hr hpre)
  | addChild p c asExtra =>
    simp only [Bool.and_eq_true] at hpre
    replace hpre := hpre.1
    have hc : FreeKid σ c := freeKid_of (hr c (by simp [Op.refs])) hpre.1 hpre.2
    obtain ⟨pn, gp⟩ := get?_of_lt (has_iff.mp (hr p (by simp [Op.refs])))
    obtain ⟨cn, gc⟩ := get?_of_lt (has_iff.mp (hr c (by simp [Op.refs])))
    simp only [clsOf, gp, gc, Option.map_some] at hstep
    cases hcl : pn.cls <;> simp only [hcl] at hstep
    case region => exact inv_addChildRegion cn.cls hinv gp (Or.inl hcl) hc hstep
    case column => exact inv_addChildRegion cn.cls hinv gp (Or.inr hcl) hc hstep
    case page => exact inv_addChildPage cn.cls asExtra hinv gp hcl hc hstep
    case scan => exact inv_addChildScan cn.cls hinv gp hcl hc hstep
    all_goals
      simp only [Except.ok.injEq, Prod.mk.injEq] at hstep
      rw [← hstep.1]; exact hinv
  | setParent c p =>
    simp only [Bool.and_eq_true] at hpre
    simp only [Except.ok.injEq, Prod.mk.injEq] at hstep
    rw [← hstep.1]
    exact inv_setParent1 hinv (has_iff.mp (hr p (by simp [Op.refs])))
      (attachable_of (hr c (by simp [Op.refs])) hpre.1 hpre.2)
  | setAsParent p cs =>
    simp only [Except.ok.injEq, Prod.mk.injEq] at hstep
    rw [← hstep.1]
    exact (inv_setAsParent cs hinv (has_iff.mp (hr p (by simp [Op.refs])))
      (attachables_of_pre (fun c hc => hr c (by simp [Op.refs, hc])) hpre)).1
  | attachLines p cs =>
    simp only [Bool.and_eq_true] at hpre
    replace hpre := hpre.1
    simp only [Except.ok.injEq, Prod.mk.injEq] at hstep
    rw [← hstep.1]
    obtain ⟨pn, gp⟩ := get?_of_lt (has_iff.mp (hr p (by simp [Op.refs])))
    refine inv_attach (f := fun nd => { nd with lines := cs }) hinv gp ?_
      (attachables_of_pre (fun c hc => hr c (by simp [Op.refs, hc])) hpre.2)
      (free_iff.mp hpre.1.1) (notScan_iff.mp hpre.1.2 pn gp) (fun x hx => by simp [Node.allKids, hx])
    refine ⟨rfl, rfl, rfl, rfl, rfl, rfl, ?_, ?_⟩
    · intro x hx
      simp only [Node.allKids, List.mem_append] at hx ⊢
      grind
    · intro x hx
      unfold Node.kids at hx ⊢
      cases hc : pn.cls <;> simp only [hc, List.mem_append, List.not_mem_nil] at hx ⊢ <;> grind
  | attachRegions p cs =>
    simp only [Bool.and_eq_true] at hpre
    replace hpre := hpre.1
    simp only [Except.ok.injEq, Prod.mk.injEq] at hstep
    rw [← hstep.1]
    obtain ⟨pn, gp⟩ := get?_of_lt (has_iff.mp (hr p (by simp [Op.refs])))
    refine inv_attach (f := fun nd => { nd with regions := cs }) hinv gp ?_
      (attachables_of_pre (fun c hc => hr c (by simp [Op.refs, hc])) hpre.2)
      (free_iff.mp hpre.1.1) (notScan_iff.mp hpre.1.2 pn gp) (fun x hx => by simp [Node.allKids, hx])
    refine ⟨rfl, rfl, rfl, rfl, rfl, rfl, ?_, ?_⟩
    · intro x hx
      simp only [Node.allKids, List.mem_append] at hx ⊢
      grind
    · intro x hx
      unfold Node.kids at hx ⊢
      cases hc : pn.cls <;> simp only [hc, List.mem_append, List.not_mem_nil] at hx ⊢ <;> grind
  | attachRows p cs =>
    simp only [Bool.and_eq_true] at hpre
    replace hpre := hpre.1
    simp only [Except.ok.injEq, Prod.mk.injEq] at hstep
    rw [← hstep.1]
    obtain ⟨pn, gp⟩ := get?_of_lt (has_iff.mp (hr p (by simp [Op.refs])))
    refine inv_attach (f := fun nd => { nd with rows := cs }) hinv gp ?_
      (attachables_of_pre (fun c hc => hr c (by simp [Op.refs, hc])) hpre.2)
      (free_iff.mp hpre.1.1) (notScan_iff.mp hpre.1.2 pn gp) (fun x hx => by simp [Node.allKids, hx])
    refine ⟨rfl, rfl, rfl, rfl, rfl, rfl, ?_, ?_⟩
    · intro x hx
      simp only [Node.allKids, List.mem_append] at hx ⊢
      grind
    · intro x hx
      unfold Node.kids at hx ⊢
      cases hc : pn.cls <;> simp only [hc, List.mem_append, List.not_mem_nil] at hx ⊢ <;> grind
  | setParentage p =>
    simp only [] at hstep
    cases hsp : setParentage (σ.size + 1) σ p with
    | error e => rw [hsp] at hstep; cases hstep
    | ok σ₁ =>
      rw [hsp] at hstep
      simp only [bind, Except.bind, pure, Except.pure, Except.ok.injEq, Prod.mk.injEq] at hstep
      rw [← hstep.1]
      exact (inv_setParentage _ _ _ _ hinv hsp).1
  | addType n ts =>
    simp only [Except.ok.injEq, Prod.mk.injEq] at hstep
    rw [← hstep.1]
    exact inv_upd_local (localChange_addType ts) (fun nd _ ht => typedNode_addType ts ht) hinv
  | removeType n ts =>
    simp only [Except.ok.injEq, Prod.mk.injEq] at hstep
    rw [← hstep.1]
    refine inv_upd_local (localChange_removeType ts) (fun nd g ht => typedNode_removeType ts ht ?_) hinv
    simp only [clsOf, g, Option.map_some] at hpre
    intro t ht hmem
    have := List.all_eq_true.mp hpre t ht
    simp [hmem] at this
  | hasType n t =>
    simp only [] at hstep
    cases hg : σ.get? n with
    | none => rw [hg] at hstep; cases hstep
    | some nd =>
      rw [hg] at hstep
      simp only [Except.ok.injEq, Prod.mk.injEq] at hstep
      rw [← hstep.1]; exact hinv
  | types n =>
    simp only [] at hstep
    cases hg : σ.get? n with
    | none => rw [hg] at hstep; cases hstep
    | some nd =>
      rw [hg] at hstep
      simp only [Except.ok.injEq, Prod.mk.injEq] at hstep
      rw [← hstep.1]; exact hinv
  | setFilename n v =>
    simp only [Except.ok.injEq, Prod.mk.injEq] at hstep
    rw [← hstep.1]
    exact inv_setMeta_other "filename" (.str v) hinv (by decide) (by decide) (by decide)
      (fun c => by cases c <;> decide)

end Pagexml.C02
