/-
String-level lemmas for the line format: universal newlines, `for line in fh`,
`strip`, tab split / join, and the row loop of `LineReader._iter_from_line_file`.
-/
import PagexmlModel.Model.C14
import PagexmlModel.Lemmas.Split
import PagexmlModel.Lemmas.PyInt

namespace Pagexml.C14
open Pagexml.C03 (splitOn intercalate splitOn_intercalate)

/-- free of tab, carriage return and newline -/
def CleanStr (s : Str) : Prop := '\t' ∉ s ∧ '\n' ∉ s ∧ '\r' ∉ s

theorem cleanStr_nil : CleanStr [] := by simp [CleanStr]

/-! ### universal newlines, line iteration -/

theorem univNl_of_noCR (s : Str) (h : '\r' ∉ s) : univNl s = s := by
  unfold univNl
  induction s with
  | nil => rfl
  | cons c cs ih =>
    have hc : c ≠ '\r' := fun e => h (by simp [e])
    have hcs : '\r' ∉ cs := fun e => h (by simp [e])
    simp [univNlAux, hc, ih hcs]

theorem splitLines_line (body rest : Str) (h : '\n' ∉ body) :
    splitLines (body ++ '\n' :: rest) = (body ++ ['\n']) :: splitLines rest := by
  induction body with
  | nil => simp [splitLines]
  | cons c cs ih =>
    have hc : c ≠ '\n' := fun e => h (by simp [e])
    have hcs : '\n' ∉ cs := fun e => h (by simp [e])
    show splitLines (c :: (cs ++ '\n' :: rest)) = _
    rw [splitLines, ih hcs]
    simp [hc]

theorem splitLines_bodies (bodies : List Str) (h : ∀ b ∈ bodies, '\n' ∉ b) :
    splitLines (bodies.flatMap (fun b => b ++ ['\n'])) = bodies.map (fun b => b ++ ['\n']) := by
  induction bodies with
  | nil => simp [splitLines]
  | cons b bs ih =>
    have e : (b :: bs).flatMap (fun b => b ++ ['\n']) = b ++ '\n' :: bs.flatMap (fun b => b ++ ['\n']) := by
      simp
    rw [e, splitLines_line b _ (h b (by simp)), ih (fun x hx => h x (by simp [hx]))]
    simp

/-! ### membership in a joined string -/

theorem mem_intercalate (sep : Str) (toks : List Str) (c : Char) (h : c ∈ intercalate sep toks) :
    c ∈ sep ∨ ∃ t ∈ toks, c ∈ t := by
  induction toks with
  | nil => simp [intercalate] at h
  | cons t ts ih =>
    cases ts with
    | nil => simp only [intercalate] at h; exact Or.inr ⟨t, by simp, h⟩
    | cons u us =>
      simp only [intercalate, List.mem_append] at h
      rcases h with (h | h) | h
      · exact Or.inr ⟨t, by simp, h⟩
      · exact Or.inl h
      · rcases ih h with h | ⟨x, hx, hc⟩
        · exact Or.inl h
        · exact Or.inr ⟨x, by simp [hx], hc⟩

theorem intercalate_tab_noNL (row : List Str) (h : ∀ f ∈ row, CleanStr f) :
    '\n' ∉ intercalate ['\t'] row ∧ '\r' ∉ intercalate ['\t'] row := by
  constructor
  · intro hm
    rcases mem_intercalate _ _ _ hm with hm | ⟨t, ht, hc⟩
    · revert hm; decide
    · exact (h t ht).2.1 hc
  · intro hm
    rcases mem_intercalate _ _ _ hm with hm | ⟨t, ht, hc⟩
    · revert hm; decide
    · exact (h t ht).2.2 hc

theorem intercalate_head? (sep : Str) (t : Str) (ts : List Str) (ht : t ≠ []) :
    (intercalate sep (t :: ts)).head? = t.head? := by
  cases t with
  | nil => exact absurd rfl ht
  | cons a t' => cases ts <;> simp [intercalate]

theorem intercalate_getLast? (sep : Str) (toks : List Str) (hne : toks ≠ [])
    (hlast : ∀ t, toks.getLast? = some t → t ≠ []) :
    ∃ t, toks.getLast? = some t ∧ (intercalate sep toks).getLast? = t.getLast? := by
  induction toks with
  | nil => exact absurd rfl hne
  | cons t ts ih =>
    cases ts with
    | nil => exact ⟨t, rfl, by simp [intercalate]⟩
    | cons u us =>
      have hl : ∀ x, (u :: us).getLast? = some x → x ≠ [] := by
        intro x hx; apply hlast; simpa [List.getLast?_cons_cons] using hx
      obtain ⟨x, hx1, hx2⟩ := ih (by simp) hl
      refine ⟨x, by simpa [List.getLast?_cons_cons] using hx1, ?_⟩
      have hxne : x ≠ [] := hl x hx1
      simp only [intercalate]
      rw [List.getLast?_append, hx2]
      cases x with
      | nil => exact absurd rfl hxne
      | cons a x' =>
        rw [List.getLast?_eq_some_getLast (l := a :: x') (by simp)]
        rfl

/-! ### strip -/

theorem dropWhile_of_head (p : Char → Bool) (l : Str) (h : ∀ c, l.head? = some c → p c = false) :
    l.dropWhile p = l := by
  cases l with
  | nil => rfl
  | cons a as => simp [List.dropWhile, h a rfl]

/-- stripping a line `body ++ [n]` whose terminator is stripped and whose body starts and ends
    with characters that are not -/
theorem stripChars_body (p : Char → Bool) (body : Str) (n : Char) (hn : p n = true)
    (hhead : ∀ c, body.head? = some c → p c = false)
    (hlast : ∀ c, body.getLast? = some c → p c = false) :
    stripChars p (body ++ [n]) = body := by
  unfold stripChars
  cases body with
  | nil => simp [List.dropWhile, hn]
  | cons a as =>
    have h1 : ((a :: as) ++ [n]).dropWhile p = (a :: as) ++ [n] :=
      dropWhile_of_head p _ (by intro c hc; simp at hc; subst hc; exact hhead a rfl)
    rw [h1]
    have h2 : ((a :: as) ++ [n]).reverse = n :: (a :: as).reverse := by simp
    rw [h2]
    have h3 : (n :: (a :: as).reverse).dropWhile p = ((a :: as).reverse).dropWhile p := by
      simp [List.dropWhile, hn]
    rw [h3, dropWhile_of_head p _ (by
      intro c hc
      rw [List.head?_reverse] at hc
      exact hlast c hc)]
    simp

theorem stripCRLF_line (body : Str) (hn : '\n' ∉ body) (hr : '\r' ∉ body) :
    stripChars isCRLF (body ++ ['\n']) = body := by
  apply stripChars_body _ _ _ (by decide)
  · intro c hc
    have hm : c ∈ body := List.mem_of_mem_head? hc
    simp only [isCRLF, Bool.or_eq_false_iff, decide_eq_false_iff_not]
    exact ⟨fun e => hr (e ▸ hm), fun e => hn (e ▸ hm)⟩
  · intro c hc
    have hm : c ∈ body := List.mem_of_mem_getLast? hc
    simp only [isCRLF, Bool.or_eq_false_iff, decide_eq_false_iff_not]
    exact ⟨fun e => hr (e ▸ hm), fun e => hn (e ▸ hm)⟩

/-! ### rows -/

theorem zipCols_zip (hs row : List Str) (h : hs.length ≤ row.length) :
    zipCols hs row = .ok (hs.zip row) := by
  induction hs generalizing row with
  | nil => cases row <;> rfl
  | cons a as ih =>
    cases row with
    | nil => simp at h
    | cons c cs =>
      simp only [zipCols, ih cs (by simpa using h)]
      rfl

theorem collect_ok {α} (l : List α) : collect (l.map (.ok : α → Res α)) = .ok l := by
  unfold collect
  induction l with
  | nil => rfl
  | cons a as ih => simp only [List.map_cons, List.mapM_cons, ih]; rfl

/-- a data row: fields free of tab / CR / LF, at least as many as there are headers -/
def RowOK (hs : List Str) (row : List Str) : Prop :=
  row ≠ [] ∧ hs.length ≤ row.length ∧ ∀ f ∈ row, CleanStr f

/-- decoding one written line gives its fields back -/
theorem decode_tsvLine (row : List Str) (hne : row ≠ []) (hc : ∀ f ∈ row, CleanStr f) :
    splitOn '\t' (stripChars isCRLF (tsvLine row)) = row := by
  unfold tsvLine
  obtain ⟨h1, h2⟩ := intercalate_tab_noNL row hc
  rw [stripCRLF_line _ h1 h2]
  exact splitOn_intercalate '\t' row hne (fun t ht => (hc t ht).1)

theorem rowsOf_encoded (hs : List Str) (rows : List (List Str)) (rest : LStream Str)
    (h : ∀ row ∈ rows, RowOK hs row) :
    rowsOf hs ((rows.map tsvLine).map .ok ++ rest) =
      (rows.map (fun row => hs.zip row)).map .ok ++ rowsOf hs rest := by
  induction rows with
  | nil => simp
  | cons row rows ih =>
    obtain ⟨hne, hlen, hc⟩ := h row (by simp)
    simp only [List.map_cons, List.cons_append, rowsOf]
    rw [decode_tsvLine row hne hc, zipCols_zip hs row hlen]
    simp only []
    rw [ih (fun r hr => h r (by simp [hr]))]

theorem rowsOf_encoded' (hs : List Str) (rows : List (List Str))
    (h : ∀ row ∈ rows, RowOK hs row) :
    rowsOf hs ((rows.map tsvLine).map .ok) = (rows.map (fun row => hs.zip row)).map .ok := by
  have := rowsOf_encoded hs rows [] h
  simpa [rowsOf] using this

/-! ### the lines of written files -/

theorem tsvLine_eq (row : List Str) : tsvLine row = intercalate ['\t'] row ++ ['\n'] := rfl

theorem encodeRows_eq (rows : List (List Str)) :
    encodeRows rows = (rows.map (intercalate ['\t'])).flatMap (fun b => b ++ ['\n']) := by
  unfold encodeRows
  induction rows with
  | nil => rfl
  | cons r rs ih => simp [tsvLine_eq, List.flatMap_cons, ih]

theorem encodeRows_lines (rows : List (List Str)) (h : ∀ row ∈ rows, ∀ f ∈ row, CleanStr f) :
    splitLines (univNl (encodeRows rows)) = rows.map tsvLine := by
  have e := encodeRows_eq rows
  have hnoCR : '\r' ∉ encodeRows rows := by
    rw [e]
    intro hm
    rw [List.mem_flatMap] at hm
    obtain ⟨b, hb, hm⟩ := hm
    obtain ⟨row, hrow, rfl⟩ := List.mem_map.mp hb
    rcases List.mem_append.mp hm with hm | hm
    · exact (intercalate_tab_noNL row (h row hrow)).2 hm
    · revert hm; decide
  rw [univNl_of_noCR _ hnoCR, e, splitLines_bodies]
  · simp [tsvLine_eq, List.map_map]
  · intro b hb
    obtain ⟨row, hrow, rfl⟩ := List.mem_map.mp hb
    exact (intercalate_tab_noNL row (h row hrow)).1

theorem encodeTsv_lines (hs : List Str) (rows : List (List Str)) (hh : ∀ f ∈ hs, CleanStr f)
    (h : ∀ row ∈ rows, ∀ f ∈ row, CleanStr f) :
    splitLines (univNl (encodeTsv (some hs) rows)) = tsvLine hs :: rows.map tsvLine := by
  have e : encodeTsv (some hs) rows = encodeRows (hs :: rows) := by
    simp [encodeTsv, encodeRows]
  rw [e, encodeRows_lines (hs :: rows) (by
    intro row hrow
    rcases List.mem_cons.mp hrow with rfl | hrow
    · exact hh
    · exact h row hrow)]
  rfl

/-- header mode "in the file": the lines of the files after the first, their header lines skipped -/
theorem readLines_later_files (hs : List Str) (files : List (List (List Str)))
    (hh : ∀ f ∈ hs, CleanStr f) (h : ∀ rows ∈ files, ∀ row ∈ rows, ∀ f ∈ row, CleanStr f) :
    readLinesAux true false (files.map (fun rows => encodeTsv (some hs) rows)) =
      (files.flatten.map tsvLine).map .ok := by
  induction files with
  | nil => rfl
  | cons rows files ih =>
    simp only [List.map_cons, readLinesAux]
    rw [encodeTsv_lines hs rows hh (h rows (by simp)), ih (fun r hr => h r (by simp [hr]))]
    simp

/-- headerless files: all their lines, whatever the position of the file -/
theorem readLines_headerless (files : List (List (List Str))) (first : Bool)
    (h : ∀ rows ∈ files, ∀ row ∈ rows, ∀ f ∈ row, CleanStr f) :
    readLinesAux false first (files.map (fun rows => encodeTsv none rows)) =
      (files.flatten.map tsvLine).map .ok := by
  induction files generalizing first with
  | nil => rfl
  | cons rows files ih =>
    simp only [List.map_cons, readLinesAux]
    have e : encodeTsv none rows = encodeRows rows := by simp [encodeTsv]
    rw [e, encodeRows_lines rows (h rows (by simp)), ih false (fun r hr => h r (by simp [hr]))]
    simp

/-! ### the header line -/

/-- header names: non-empty, no whitespace (as Python's `strip()` sees it), no tab/CR/LF -/
def HeaderOK (isSpace : Char → Bool) (hs : List Str) : Prop :=
  hs ≠ [] ∧ ∀ h ∈ hs, h ≠ [] ∧ CleanStr h ∧ ∀ c ∈ h, isSpace c = false

theorem decode_header (isSpace : Char → Bool) (hnl : isSpace '\n' = true) (hs : List Str)
    (h : HeaderOK isSpace hs) :
    splitOn '\t' (stripChars isSpace (tsvLine hs)) = hs := by
  obtain ⟨hne, hall⟩ := h
  unfold tsvLine
  have hstrip : stripChars isSpace (intercalate ['\t'] hs ++ ['\n']) = intercalate ['\t'] hs := by
    apply stripChars_body _ _ _ hnl
    · intro c hc
      cases hs with
      | nil => exact absurd rfl hne
      | cons t ts =>
        obtain ⟨htne, _, hsp⟩ := hall t (by simp)
        rw [intercalate_head? _ t ts htne] at hc
        exact hsp c (List.mem_of_mem_head? hc)
    · intro c hc
      obtain ⟨t, ht, e⟩ := intercalate_getLast? ['\t'] hs hne
        (fun t ht => (hall t (List.mem_of_mem_getLast? ht)).1)
      rw [e] at hc
      exact (hall t (List.mem_of_mem_getLast? ht)).2.2 c (List.mem_of_mem_getLast? hc)
  rw [hstrip]
  exact splitOn_intercalate '\t' hs hne (fun t ht => (hall t ht).2.1.1)

/-! ### `LineReader._iter_from_line_file` on written files -/

theorem rowOK_clean {hs : List Str} {files : List (List (List Str))}
    (h : ∀ rows ∈ files, ∀ row ∈ rows, RowOK hs row) :
    ∀ rows ∈ files, ∀ row ∈ rows, ∀ f ∈ row, CleanStr f :=
  fun rows hr row hrow => (h rows hr row hrow).2.2

theorem rowOK_flatten {hs : List Str} {files : List (List (List Str))}
    (h : ∀ rows ∈ files, ∀ row ∈ rows, RowOK hs row) : ∀ row ∈ files.flatten, RowOK hs row := by
  intro row hrow
  obtain ⟨rows, hr, hrow⟩ := List.mem_flatten.mp hrow
  exact h rows hr row hrow

/-- header read from the files: one header line per file, that of the later files skipped -/
theorem iter_header_in_file (isSpace : Char → Bool) (hnl : isSpace '\n' = true) (hs : List Str)
    (hok : HeaderOK isSpace hs) (files : List (List (List Str))) (hne : files ≠ [])
    (hrows : ∀ rows ∈ files, ∀ row ∈ rows, RowOK hs row) (bbox : Bool) :
    iterFromLineFile isSpace (files.map (fun rows => encodeTsv (some hs) rows)) true none bbox =
      (files.flatten.map (fun row => hs.zip row)).map .ok := by
  have hh : ∀ f ∈ hs, CleanStr f := fun f hf => (hok.2 f hf).2.1
  cases files with
  | nil => exact absurd rfl hne
  | cons rows files =>
    unfold iterFromLineFile readLinesFromLineFiles
    simp only [Option.isSome_none, Bool.false_eq_true, if_false, List.map_cons, readLinesAux,
      Bool.not_true, Bool.and_false, if_true]
    rw [encodeTsv_lines hs rows hh (rowOK_clean hrows rows (by simp)),
      readLines_later_files hs files hh (fun r hr => rowOK_clean hrows r (by simp [hr]))]
    simp only [List.map_cons, List.cons_append]
    rw [decode_header isSpace hnl hs hok, ← List.map_append, ← List.map_append]
    rw [rowsOf_encoded' hs _ (by
      intro row hrow
      rcases List.mem_append.mp hrow with hrow | hrow
      · exact hrows rows (by simp) row hrow
      · exact rowOK_flatten (fun r hr => hrows r (by simp [hr])) row hrow)]
    simp

/-- headerless files read with explicitly supplied headers (`has_headers` is then ignored) -/
theorem iter_supplied (isSpace : Char → Bool) (hs : List Str) (files : List (List (List Str)))
    (hrows : ∀ rows ∈ files, ∀ row ∈ rows, RowOK hs row) (hasHeaders bbox : Bool) :
    iterFromLineFile isSpace (files.map (fun rows => encodeTsv none rows)) hasHeaders (some hs) bbox =
      (files.flatten.map (fun row => hs.zip row)).map .ok := by
  unfold iterFromLineFile readLinesFromLineFiles
  simp only [Option.isSome_some, if_true, Bool.false_eq_true, if_false]
  rw [readLines_headerless files true (rowOK_clean hrows)]
  exact rowsOf_encoded' hs _ (rowOK_flatten hrows)

/-- headerless files read with the default header list -/
theorem iter_default (isSpace : Char → Bool) (files : List (List (List Str))) (bbox : Bool)
    (hrows : ∀ rows ∈ files, ∀ row ∈ rows, RowOK (defaultHeaders bbox) row) :
    iterFromLineFile isSpace (files.map (fun rows => encodeTsv none rows)) false none bbox =
      (files.flatten.map (fun row => (defaultHeaders bbox).zip row)).map .ok := by
  unfold iterFromLineFile readLinesFromLineFiles
  simp only [Option.isSome_none, Bool.false_eq_true, if_false]
  rw [readLines_headerless files true (rowOK_clean hrows)]
  exact rowsOf_encoded' _ _ (rowOK_flatten hrows)

end Pagexml.C14
