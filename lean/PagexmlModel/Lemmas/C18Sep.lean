/-
C18 helper lemmas, part 6: the shape of the result for lines of positive width
(range columns of the input, then range columns of the left-over lines), and what one level
does to groups of lines.
-/
import PagexmlModel.Lemmas.C18Pos

namespace Pagexml.C18

theorem columnRanges_all {thr mcw : Int} (lines : List Line) (hm : mcw ≤ 0) :
    columnRanges thr mcw lines = gapIntervals thr (pixels lines) := by
  unfold columnRanges
  apply List.filter_eq_self.mpr
  intro ρ hρ
  have := gapIntervals_wf thr (pixels_sorted lines) ρ hρ
  simp only [decide_eq_true_eq]
  omega

/-- without a minimum width every line of positive width lands in the column of its interval -/
theorem extra_nil_of_mcw {thr mcw : Int} {lines : List Line} (hpos : PosW lines) (hm : mcw ≤ 0) :
    extraLines lines (columnRanges thr mcw lines) = [] := by
  apply List.filter_eq_nil_iff.mpr
  intro l hl
  obtain ⟨ρ, hρ, hs⟩ := span_in_interval thr hl (Int.le_of_lt (hpos l hl))
  have hh := (hit_iff_spanIn thr hl (hpos l hl) hρ).mpr hs
  rw [columnRanges_all lines hm]
  have hany : (gapIntervals thr (pixels lines)).any (hit l) = true := List.any_eq_true.mpr ⟨ρ, hρ, hh⟩
  simp [hany]

theorem reId_nil (g : RegInfo) : reId g [] = [] := by
  unfold reId; cases g.parent <;> rfl

theorem mem_reId {g : RegInfo} {cs : List Col} {c : Col} (h : c ∈ reId g cs) :
    ∃ c0 ∈ cs, c.lines = c0.lines := by
  unfold reId at h
  cases hp : g.parent with
  | none => rw [hp] at h; exact ⟨c, h, rfl⟩
  | some p =>
    rw [hp] at h
    obtain ⟨c0, hc0, rfl⟩ := List.mem_map.mp h
    exact ⟨c0, hc0, rfl⟩

theorem mem_reId' {g : RegInfo} {cs : List Col} {c0 : Col} (h : c0 ∈ cs) :
    ∃ c ∈ reId g cs, c.lines = c0.lines := by
  unfold reId
  cases g.parent with
  | none => exact ⟨c0, h, rfl⟩
  | some p => exact ⟨_, List.mem_map_of_mem h, rfl⟩

theorem levelOK_nil (ranges : List (Int × Int)) : LevelOK [] ranges [] := by
  constructor
  · intro c hc; cases hc
  · intro ρ _ hne; exact absurd rfl hne

theorem split_pos_inner (n : Nat) (thr : Int) {mcw : Int} (hm : mcw ≤ 0) (g : RegInfo)
    (lines : List Line) (hpos : PosW lines) :
    ∃ cols1, split (n + 1) thr mcw g lines = .ok cols1 ∧
      LevelOK lines (gapIntervals thr (pixels lines)) cols1 := by
  obtain ⟨cols0, cols1, h0, h1, hlev, hpa⟩ := level_pos g thr mcw lines hpos
  refine ⟨cols1, ?_, by rw [← columnRanges_all lines hm]; exact hlev⟩
  rw [split_succ]
  simp only [h0, h1, bind, Except.bind]
  rw [handleExtra_eq, hpa]
  simp [extra_nil_of_mcw hpos hm]

/-- the result for lines of positive width: the range columns of the input followed by the range
    columns of the left-over lines (those in intervals narrower than the minimum width) -/
theorem split_pos (n : Nat) (thr mcw : Int) (g : RegInfo) (lines : List Line) (hpos : PosW lines) :
    ∃ cols1 cols2, split (n + 2) thr mcw g lines = .ok (cols1 ++ reId g cols2) ∧
      LevelOK lines (columnRanges thr mcw lines) cols1 ∧
      LevelOK (extraLines lines (columnRanges thr mcw lines))
        (gapIntervals thr (pixels (extraLines lines (columnRanges thr mcw lines)))) cols2 := by
  obtain ⟨cols0, cols1, h0, h1, hlev, hpa⟩ := level_pos g thr mcw lines hpos
  have hstart : split (n + 2) thr mcw g lines =
      handleExtra (split (n + 1) thr recMcw) g cols1 (extraLines lines (columnRanges thr mcw lines)) mcw := by
    show split ((n + 1) + 1) thr mcw g lines = _
    rw [split_succ]
    simp only [h0, h1, bind, Except.bind]
  rw [hstart, handleExtra_eq, hpa]
  cases hex : extraLines lines (columnRanges thr mcw lines) with
  | nil =>
    refine ⟨cols1, [], by simp [reId_nil], ?_, levelOK_nil _⟩
    exact hlev
  | cons e es =>
    have hm0 : mcw > 0 := by
      apply Classical.byContradiction
      intro hm
      have := extra_nil_of_mcw (thr := thr) hpos (by omega : mcw ≤ 0)
      rw [hex] at this
      cases this
    have hm : mcw > recGuard := by have := consts_recursion_stops.2; omega
    have hposE : PosW (e :: es) := by
      intro l hl
      rw [← hex] at hl
      exact hpos l (mem_extraLines.mp hl).1
    obtain ⟨cols2, h2, hlev2⟩ := split_pos_inner n thr (mcw := recMcw) (by have := consts_recursion_stops; omega) (extraReg g (bbox e es)) (e :: es) hposE
    refine ⟨cols1, cols2, ?_, hlev, hlev2⟩
    simp [hullBox, hm, h2]

/-! ### groups of lines at one level -/

/-- no hole of `max thr gapMin` pixels between any two lines of the group: the group's own pixels
    follow each other at distances below the (effective) gap threshold -/
def GapConnected (thr : Int) (G : List Line) : Prop :=
  ∀ a ∈ G, ∀ b ∈ G, ∀ x, a.box.l ≤ x → x < b.box.r →
    ∃ m ∈ G, ∃ y, m.box.l ≤ y ∧ y ≤ m.box.r ∧ x < y ∧ y < x + max thr gapMin

/-- two lines on different sides of a clean gap are never within the same gap interval -/
theorem sep_in_level {thr : Int} {L : List Line} (hpos : PosW L) {cut : Int}
    (hnb : ∀ l ∈ L, l.box.r ≤ cut ∨ cut + max thr gapMin ≤ l.box.l)
    {ρ : Int × Int} (hρ : ρ ∈ gapIntervals thr (pixels L)) {a b : Line} (ha : a ∈ L) (hb : b ∈ L)
    (hita : hit a ρ = true) (hitb : hit b ρ = true) (hac : a.box.r ≤ cut)
    (hbc : cut + max thr gapMin ≤ b.box.l) : False := by
  have sa := (hit_iff_spanIn thr ha (hpos a ha) hρ).mp hita
  have sb := (hit_iff_spanIn thr hb (hpos b hb) hρ).mp hitb
  unfold spanIn at sa sb
  have pa := hpos a ha
  have pb := hpos b hb
  have hN := consts_min_gap_ge_two
  obtain ⟨y, hy, h1, h2, _⟩ := gapIntervals_dense thr (pixels_sorted L) ρ hρ cut (by omega) (by omega)
  obtain ⟨m, hm, m1, m2⟩ := mem_pixels.mp hy
  rcases hnb m hm with h | h <;> omega

/-- a gap-connected group lies inside one gap interval -/
theorem together_in_level {thr : Int} {L : List Line} (hpos : PosW L) {G : List Line}
    (hG : ∀ x ∈ G, x ∈ L) (hconn : GapConnected thr G) {a0 : Line} (ha0 : a0 ∈ G) :
    ∃ ρ ∈ gapIntervals thr (pixels L), ∀ x ∈ G, hit x ρ = true := by
  have hs := pixels_sorted L
  obtain ⟨ρ, hρ, s0⟩ := span_in_interval thr (hG a0 ha0) (Int.le_of_lt (hpos a0 (hG a0 ha0)))
  refine ⟨ρ, hρ, ?_⟩
  intro b hb
  have hbL := hG b hb
  apply (hit_iff_spanIn thr hbL (hpos b hbL) hρ).mpr
  obtain ⟨ρb, hρb, sb⟩ := span_in_interval thr hbL (Int.le_of_lt (hpos b hbL))
  unfold spanIn at s0 sb
  have p0 := hpos a0 (hG a0 ha0)
  have pb := hpos b hbL
  have hN := consts_min_gap_ge_two
  -- chain from a0 to the right end of b inside ρ
  have c1 : b.box.r ≤ ρ.2 := by
    apply chain_in_interval thr hs hρ (a := a0.box.l) (by omega)
    intro x hx1 hx2
    obtain ⟨m, hm, y, y1, y2, y3, y4⟩ := hconn a0 ha0 b hb x hx1 hx2
    exact ⟨y, mem_pixels.mpr ⟨m, hG m hm, y1, y2⟩, y3, y4⟩
  -- chain from b to the right end of a0 inside ρb
  have c2 : a0.box.r ≤ ρb.2 := by
    apply chain_in_interval thr hs hρb (a := b.box.l) (by omega)
    intro x hx1 hx2
    obtain ⟨m, hm, y, y1, y2, y3, y4⟩ := hconn b hb a0 ha0 x hx1 hx2
    exact ⟨y, mem_pixels.mpr ⟨m, hG m hm, y1, y2⟩, y3, y4⟩
  rcases gapIntervals_apart thr hs hρ hρb with h | h | h
  · subst h; exact sb
  · omega
  · omega

end Pagexml.C18
