/-
Helper lemmas for the soundness of the hull certificate checker (Props/C09).
-/
import PagexmlModel.Model.C09
import Mathlib.Tactic.Ring
import Mathlib.Tactic.Linarith

namespace Pagexml.C09
open Pagexml.C03 (Pt)

/-! ### cyclic edges and corners of a vertex list -/

theorem mem_rot1 {α} (l : List α) (x : α) : x ∈ rot1 l ↔ x ∈ l := by
  cases l with
  | nil => simp [rot1]
  | cons a l => simp [rot1, or_comm]

theorem length_rot1 {α} (l : List α) : (rot1 l).length = l.length := by
  cases l <;> simp [rot1]

/-- every element of the middle list is the middle of some zipped triple -/
theorem exists_triple_of_mem_mid {α β γ} (xs : List α) (ys : List β) (zs : List γ) (y : β)
    (hx : xs.length = ys.length) (hz : zs.length = ys.length) (hy : y ∈ ys) :
    ∃ x z, (x, y, z) ∈ xs.zip (ys.zip zs) := by
  induction ys generalizing xs zs with
  | nil => cases hy
  | cons b ys ih =>
    cases xs with
    | nil => simp at hx
    | cons a xs =>
      cases zs with
      | nil => simp at hz
      | cons c zs =>
        rcases List.mem_cons.mp hy with rfl | hy
        · exact ⟨a, c, by simp⟩
        · obtain ⟨x, z, h⟩ := ih xs zs (by simpa using hx) (by simpa using hz) hy
          exact ⟨x, z, by simp [h]⟩

theorem zip3_mem {α β γ} (xs : List α) (ys : List β) (zs : List γ) (x : α) (y : β) (z : γ)
    (h : (x, y, z) ∈ xs.zip (ys.zip zs)) : (x, y) ∈ xs.zip ys ∧ (y, z) ∈ ys.zip zs ∧ (x, z) ∈ xs.zip zs := by
  induction xs generalizing ys zs with
  | nil => simp at h
  | cons a xs ih =>
    cases ys with
    | nil => simp at h
    | cons b ys =>
      cases zs with
      | nil => simp at h
      | cons c zs =>
        simp only [List.zip_cons_cons, List.mem_cons, Prod.mk.injEq] at h ⊢
        rcases h with ⟨rfl, rfl, rfl⟩ | h
        · simp
        · obtain ⟨h1, h2, h3⟩ := ih ys zs h
          exact ⟨Or.inr h1, Or.inr h2, Or.inr h3⟩

theorem zip_rot1 {α β} (l : List α) (m : List β) (h : l.length = m.length) :
    (rot1 l).zip (rot1 m) = rot1 (l.zip m) := by
  cases l with
  | nil => cases m <;> simp [rot1] at h ⊢
  | cons a l =>
    cases m with
    | nil => simp at h
    | cons b m =>
      simp only [rot1, List.zip_cons_cons]
      rw [List.zip_append (by simpa using h)]
      simp

/-- every vertex is the corner of a cyclic triple whose two edges are cyclic edges -/
theorem corner_of_mem (vs : List Pt) (v : Pt) (hv : v ∈ vs) :
    ∃ a b, (a, v, b) ∈ ctriples vs ∧ (a, v) ∈ cedges vs ∧ (v, b) ∈ cedges vs ∧ a ∈ vs ∧ b ∈ vs := by
  obtain ⟨a, b, h⟩ := exists_triple_of_mem_mid vs (rot1 vs) (rot1 (rot1 vs)) v
    (length_rot1 vs).symm (length_rot1 _) ((mem_rot1 vs v).mpr hv)
  obtain ⟨h1, h2, _⟩ := zip3_mem _ _ _ _ _ _ h
  refine ⟨a, b, h, h1, ?_, (List.of_mem_zip h1).1, ?_⟩
  · rw [zip_rot1 vs (rot1 vs) (length_rot1 vs).symm] at h2
    exact (mem_rot1 _ _).mp h2
  · have := (List.of_mem_zip h2).2
    exact (mem_rot1 _ _).mp ((mem_rot1 _ _).mp this)

theorem mem_of_mem_cedges (vs : List Pt) (a b : Pt) (h : (a, b) ∈ cedges vs) : a ∈ vs ∧ b ∈ vs :=
  ⟨(List.of_mem_zip h).1, (mem_rot1 _ _).mp (List.of_mem_zip h).2⟩

theorem nodupB_iff (l : List Pt) : nodupB l = true ↔ l.Nodup := by
  induction l with
  | nil => simp [nodupB]
  | cons a l ih => simp [nodupB, ih]

/-! ### the arithmetic core -/

/-- a linear functional on points -/
def lin (α β : Int) (p : Pt) : Int := α * p.1 + β * p.2

/-- Cramer's rule at a strict corner `a, v, b`: a point `p` on the inner side of both edges at `v`
    is at least as far as `v` in every direction in which both neighbours are -/
theorem corner_support (s α β : Int) (a v b p : Pt)
    (hturn : 0 < s * cross a v b) (h1 : 0 ≤ s * cross a v p) (h2 : 0 ≤ s * cross v b p)
    (ha : lin α β v ≤ lin α β a) (hb : lin α β v ≤ lin α β b) : lin α β v ≤ lin α β p := by
  have key : (lin α β p - lin α β v) * (s * cross a v b) =
      (lin α β a - lin α β v) * (s * cross v b p) + (lin α β b - lin α β v) * (s * cross a v p) := by
    simp only [lin, cross]; ring
  have hr : 0 ≤ (lin α β p - lin α β v) * (s * cross a v b) := by
    rw [key]
    have := mul_nonneg (sub_nonneg.mpr ha) h2
    have := mul_nonneg (sub_nonneg.mpr hb) h1
    linarith
  by_contra hlt
  have hneg : lin α β p - lin α β v < 0 := by linarith
  have := mul_neg_of_neg_of_pos hneg hturn
  linarith

/-! ### what the certificate establishes, as propositions -/

/-- `vs` is a strictly convex polygon with orientation `s` whose vertices are points of `pts`, and every
    point of `pts` is on the inner side of (or on) each of its edges -/
structure ConvexCycle (s : Int) (pts vs : List Pt) : Prop where
  sign : s = 1 ∨ s = -1
  len : 3 ≤ vs.length
  sub : ∀ v ∈ vs, v ∈ pts
  nodup : vs.Nodup
  turn : ∀ t ∈ ctriples vs, 0 < s * cross t.1 t.2.1 t.2.2
  inside : ∀ p ∈ pts, ∀ ed ∈ cedges vs, 0 ≤ s * cross ed.1 ed.2 p

theorem certDir_iff (s : Int) (pts vs : List Pt) :
    certDir s pts vs = true ↔
      (∀ t ∈ ctriples vs, 0 < s * cross t.1 t.2.1 t.2.2) ∧
      (∀ p ∈ pts, ∀ ed ∈ cedges vs, 0 ≤ s * cross ed.1 ed.2 p) := by
  simp [certDir, List.all_eq_true]

theorem hullCert_iff (pts vs : List Pt) : HullCert pts vs = true ↔ ∃ s, ConvexCycle s pts vs := by
  constructor
  · intro h
    simp only [HullCert, Bool.and_eq_true, decide_eq_true_eq, List.all_eq_true, Bool.or_eq_true,
      List.contains_iff_mem, nodupB_iff, certDir_iff] at h
    obtain ⟨⟨⟨hl, hs⟩, hn⟩, hd⟩ := h
    rcases hd with ⟨ht, hi⟩ | ⟨ht, hi⟩
    · exact ⟨1, Or.inl rfl, hl, hs, hn, ht, hi⟩
    · exact ⟨-1, Or.inr rfl, hl, hs, hn, ht, hi⟩
  · rintro ⟨s, hs, hl, hsub, hn, ht, hi⟩
    simp only [HullCert, Bool.and_eq_true, decide_eq_true_eq, List.all_eq_true, Bool.or_eq_true,
      List.contains_iff_mem, nodupB_iff, certDir_iff]
    refine ⟨⟨⟨hl, hsub⟩, hn⟩, ?_⟩
    rcases hs with rfl | rfl
    · exact Or.inl ⟨ht, hi⟩
    · exact Or.inr ⟨ht, hi⟩

theorem exists_min_on (f : Pt → Int) (l : List Pt) (hne : l ≠ []) : ∃ v ∈ l, ∀ w ∈ l, f v ≤ f w := by
  induction l with
  | nil => exact absurd rfl hne
  | cons a l ih =>
    by_cases hl : l = []
    · subst hl; exact ⟨a, by simp, by simp⟩
    · obtain ⟨v, hv, hmin⟩ := ih hl
      by_cases h : f a ≤ f v
      · refine ⟨a, by simp, ?_⟩
        intro w hw
        rcases List.mem_cons.mp hw with rfl | hw
        · exact le_refl _
        · exact le_trans h (hmin w hw)
      · refine ⟨v, by simp [hv], ?_⟩
        intro w hw
        rcases List.mem_cons.mp hw with rfl | hw
        · omega
        · exact hmin w hw

/-- supporting-line lemma: in every direction the vertex list reaches at least as far as the point set -/
theorem ConvexCycle.support {s : Int} {pts vs : List Pt} (h : ConvexCycle s pts vs) (α β : Int)
    (p : Pt) (hp : p ∈ pts) : ∃ v ∈ vs, lin α β v ≤ lin α β p := by
  have hne : vs ≠ [] := by
    intro e; have := h.len; simp [e] at this
  obtain ⟨v, hv, hmin⟩ := exists_min_on (lin α β) vs hne
  obtain ⟨a, b, ht, hav, hvb, ha, hb⟩ := corner_of_mem vs v hv
  exact ⟨v, hv, corner_support s α β a v b p (h.turn _ ht) (h.inside p hp _ hav) (h.inside p hp _ hvb)
    (hmin a ha) (hmin b hb)⟩

end Pagexml.C09
