/-
What the C19 theorems need to know about the literals and defaults regenerated from the source
(Generated/C19.lean): two relations, each decided on the regenerated table.  Everything else in
Lemmas/C19*.lean and Props/C19.lean treats `lineStep`, `bboxStep`, `fallbackStep` and the thresholds as
unknown numbers (the interpolation / distance / height theorems are stated for EVERY step anyway).
-/
import PagexmlModel.Model.C19

namespace Pagexml.C19

/-- the step that reaches compute_baseline_distances from the line-distance functions is not 0
    (a step of 0 is a ZeroDivisionError in interpolate_points) -/
theorem consts_line_step_nonzero : lineStep ≠ 0 := by decide

/-- the fall-back step of get_text_heights for narrow lines is positive -/
theorem consts_fallback_step_pos : 0 < fallbackStep := by decide

end Pagexml.C19
