/-
The parser on a rendered grammar string (laid-out form), for an arbitrary accepted-name
predicate: the matches are exactly the accepted tags, in order, each with its pairs.
-/
import PagexmlModel.Lemmas.C11Scan
import PagexmlModel.Lemmas.C11Parts

namespace Pagexml.C11
open Pagexml.C03 (splitOn intercalate)

/-- `finditer` on a rendered string finds exactly the tags whose name is accepted -/
theorem scan_renderLaid {cc : CharClass} (hl : Lawful cc) (gap : Bool) (acc : List Char → Bool) :
    ∀ (ts : List LTag) (tail : List Char), (∀ t ∈ ts, t.OK cc) → NoWord cc tail →
      (∀ t ∈ ts, acc t.name = false → '{' ∉ t.body) →
      scan cc gap acc 0 false (renderLaid ts tail) =
        (ts.filter (fun t => acc t.name)).map (fun t => (t.name, t.body)) := by
  intro ts
  induction ts with
  | nil =>
    intro tail _ htail _
    have := scan_noWord cc gap acc htail false []
    simp only [List.append_nil] at this
    simp only [renderLaid, List.filter_nil, List.map_nil, this]
    cases lastWord cc false tail <;> rfl
  | cons t ts ih =>
    intro tail hts htail hlb
    have ht : t.OK cc := hts t (by simp)
    obtain ⟨hb1, hb2⟩ := body_chars hl t ht.attrs ht.close
    have e : renderLaid (t :: ts) tail =
        t.sep ++ (t.name ++ ' ' :: '{' :: (t.body ++ '}' :: renderLaid ts tail)) := by
      simp [renderLaid, LTag.render]
    rw [e, scan_noWord cc gap acc ht.sep, lastWord_noWord cc ht.sep]
    by_cases ha : acc t.name = true
    · rw [scan_tag cc gap acc ht.name_ne ht.name_word hl.space_not_word hl.rbrace_not_word hl.space_is_space
        hl.lbrace_not_space hb1 hb2 ha]
      rw [ih tail (fun x hx => hts x (by simp [hx])) htail (fun x hx => hlb x (by simp [hx]))]
      simp [ha]
    · have ha' : acc t.name = false := by simpa using ha
      rw [scan_tag_rejected cc gap acc ht.name_word hl.space_not_word hl.rbrace_not_word hl.lbrace_not_word
        hl.rbrace_not_space (hlb t (by simp) ha') ha']
      rw [ih tail (fun x hx => hts x (by simp [hx])) htail (fun x hx => hlb x (by simp [hx]))]
      simp [ha']

theorem parseMatches_laid {cc : CharClass} (hl : Lawful cc) :
    ∀ (ts : List LTag), (∀ t ∈ ts, t.OK cc) →
      parseMatches cc (ts.map (fun t => (t.name, t.body))) = .ok (ts.map entryOf) := by
  intro ts
  induction ts with
  | nil => intro _; rfl
  | cons t ts ih =>
    intro hts
    have ht : t.OK cc := hts t (by simp)
    simp only [List.map_cons, parseMatches, parseParts_body hl t ht.attrs ht.close,
      ih (fun x hx => hts x (by simp [hx]))]
    rfl

/-- **master lemma**: a rendered string parses to one entry per tag, in order -/
theorem parse_renderLaid {cc : CharClass} (hl : Lawful cc) (ts : List LTag) (tail : List Char)
    (hts : ∀ t ∈ ts, t.OK cc) (htail : NoWord cc tail) :
    parseCustomAttributes cc (renderLaid ts tail) = .ok (ts.map entryOf) := by
  unfold parseCustomAttributes findAll
  rw [scan_renderLaid hl _ _ ts tail hts htail (fun _ _ h => by simp at h)]
  have hf : ts.filter (fun _ => true) = ts := by simp
  rw [hf]
  exact parseMatches_laid hl ts hts

/-! ### dictionaries with distinct keys -/

theorem dictSet_new (d : Dict) (k : Key) (v : Val) (h : k ∉ d.map Prod.fst) : dictSet d k v = d ++ [(k, v)] := by
  induction d with
  | nil => rfl
  | cons kv d ih =>
    have h1 : kv.1 ≠ k := fun e => h (by simp [e])
    have h2 : k ∉ d.map Prod.fst := fun e => h (by simp [e])
    obtain ⟨k', v'⟩ := kv
    simp only [dictSet]
    simp only at h1
    simp [h1, ih h2]

theorem dictSet_keys (d : Dict) (k : Key) (v : Val) :
    (dictSet d k v).map Prod.fst = if k ∈ d.map Prod.fst then d.map Prod.fst else d.map Prod.fst ++ [k] := by
  induction d with
  | nil => simp [dictSet]
  | cons kv d ih =>
    obtain ⟨k', v'⟩ := kv
    simp only [dictSet]
    by_cases e : k' = k
    · subst e; simp
    · have e' : ¬ k = k' := fun h => e h.symm
      simp only [e, if_false, List.map_cons, ih, List.mem_cons, e', false_or]
      split <;> simp

theorem foldl_dictSet_nodup (kvs : List (Key × Val)) (d : Dict)
    (h : (d.map Prod.fst ++ kvs.map Prod.fst).Nodup) :
    kvs.foldl (fun d kv => dictSet d kv.1 kv.2) d = d ++ kvs := by
  induction kvs generalizing d with
  | nil => simp
  | cons kv kvs ih =>
    have hk : kv.1 ∉ d.map Prod.fst := by
      intro hm
      rw [List.nodup_append] at h
      exact h.2.2 _ hm _ (by simp) rfl
    simp only [List.foldl_cons]
    rw [dictSet_new d kv.1 kv.2 hk, ih]
    · simp
    · simpa [List.map_append] using h

end Pagexml.C11
