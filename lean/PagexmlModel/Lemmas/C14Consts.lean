/-
What the C14 theorems need to know about the string tables regenerated from the source
(Generated/C14.lean): this is the ONLY file that looks at them.  Every other proof of
Lemmas/C14*.lean and Props/C14.lean treats the default header lists of writer and reader
(`allHeaders`, `defaultHeaders`) as unknown lists (it goes through for every list), except for the
RELATIONS stated here, each decided on the regenerated tables: an edit of the source that breaks
one of them breaks exactly that obligation (and what is built on it).

Two kinds of obligations:
  * vocabulary — the seven column names of the model (`sDocId` … `sLineBox`, the words of the
    statement) are the keys the source puts into a record / looks up when rebuilding documents;
  * defaults   — what the theorems need of the default header lists the model takes from the source.
-/
import PagexmlModel.Lemmas.C14Tsv

namespace Pagexml.C14

instance (s : Str) : Decidable (CleanStr s) := by unfold CleanStr; infer_instance

/-! ### vocabulary: the model's column names are the source's keys -/

/-- the record of `get_line_format_json` has the keys document id, region id, line id, text, and
    with `add_bounding_box` the three boxes — in this insertion order -/
theorem consts_record_keys :
    Generated.C14.recordKeys = baseHeaders ∧ Generated.C14.recordBoxKeys = boxHeaders := by decide

/-- `read_pagexml_docs_from_line_file` looks up exactly these keys in a record: the four ids / text
    always, the three boxes under `add_bounding_box` -/
theorem consts_rebuild_keys :
    Generated.C14.rebuildKeys = [sDocId, sRegionId, sLineId, sText] ∧
    Generated.C14.rebuildBoxKeys = [sDocBox, sRegionBox, sLineBox] := by decide

/-- the column names are non-empty and free of tab, CR and LF (they survive the header line) -/
theorem consts_column_names_clean : ∀ h ∈ columnNames, h ≠ [] ∧ CleanStr h := by decide

/-- … and free of the ASCII whitespace that `str.strip()` removes (so `SpaceOK` can be met) -/
theorem consts_column_names_no_ascii_space :
    ∀ h ∈ columnNames, ∀ c ∈ h, c ∉ [' ', '\t', '\n', '\r', Char.ofNat 11, Char.ofNat 12] := by decide

/-- the seven column names are pairwise different -/
theorem consts_column_names_nodup : columnNames.Nodup := by decide

/-! ### defaults: the header lists the source uses when none are given -/

/-- the reader's default columns are exactly the keys of a record (in any order), without and with
    bounding boxes: a headerless file written with these columns reads back as the in-memory
    records -/
theorem consts_reader_default_perm : ∀ bbox : Bool, (defaultHeaders bbox).Perm (recKeys bbox) := by decide

/-- the writer's default columns are keys of a record with bounding boxes (no KeyError in
    `get_line_format_tsv`) and there is at least one -/
theorem consts_writer_default_sub : allHeaders ≠ [] ∧ ∀ h ∈ allHeaders, h ∈ recKeys true := by decide

/-- every key `read_pagexml_docs_from_line_file` looks up (with bounding boxes) is a column of a
    file written with the writer's default columns -/
theorem consts_rebuild_keys_in_writer_default :
    ∀ k ∈ Generated.C14.rebuildKeys ++ Generated.C14.rebuildBoxKeys, k ∈ allHeaders := by decide

/-- the writer's default columns are the reader's default columns with bounding boxes, in the same
    order: what the writer writes by default reads back by default once the header line is dropped -/
theorem consts_writer_default_eq_reader_default : allHeaders = defaultHeaders true := by decide

/-- no default header list names a column twice (`{header: cols[hi] …}` would keep the last one,
    the model's `zipCols` assumes there is none) -/
theorem consts_default_headers_nodup :
    allHeaders.Nodup ∧ ∀ bbox : Bool, (defaultHeaders bbox).Nodup := by decide

/-- the older three-column format separates its fields by a tab and ends a record by a newline:
    what `read_line_format_file` splits on -/
theorem consts_legacy_separators :
    Generated.C14.legacySepAfterDocId = ['\t'] ∧ Generated.C14.legacySepAfterLineId = ['\t'] ∧
    Generated.C14.legacyLineEnd = ['\n'] := by decide

/-! ### consequences, in the model's terms -/

theorem mem_columnNames :
    sDocId ∈ columnNames ∧ sRegionId ∈ columnNames ∧ sLineId ∈ columnNames ∧ sText ∈ columnNames ∧
    sDocBox ∈ columnNames ∧ sRegionBox ∈ columnNames ∧ sLineBox ∈ columnNames := by
  simp [columnNames, baseHeaders, boxHeaders]

theorem recKeys_sub_columnNames (bbox : Bool) : ∀ h ∈ recKeys bbox, h ∈ columnNames := by
  intro h hh
  cases bbox <;> simp only [recKeys, columnNames, List.mem_append, if_true, Bool.false_eq_true, if_false,
    List.not_mem_nil, or_false] at hh ⊢
  · exact Or.inl hh
  · exact hh

theorem recKeys_true : recKeys true = columnNames := rfl

/-- the seven keys of the rebuilding loop are columns of the writer's default -/
theorem columnNames_sub_allHeaders : ∀ k ∈ columnNames, k ∈ allHeaders := by
  intro k hk
  apply consts_rebuild_keys_in_writer_default
  rw [consts_rebuild_keys.1, consts_rebuild_keys.2]
  simpa [columnNames, baseHeaders, boxHeaders] using hk

theorem defaultHeaders_sub (bbox : Bool) : ∀ h ∈ defaultHeaders bbox, h ∈ recKeys bbox :=
  fun _ hh => (consts_reader_default_perm bbox).mem_iff.mp hh

/-- the writer's default columns start with the reader's default columns without boxes: a file
    written by default, read without the box columns, is read by its leading columns -/
theorem consts_writer_default_extends_reader_default :
    ∃ ex, allHeaders = defaultHeaders false ++ ex := ⟨Generated.C14.readerBoxHeaders, by decide⟩

theorem defaultHeaders_ne_nil (bbox : Bool) : defaultHeaders bbox ≠ [] := by
  intro e
  have h := consts_reader_default_perm bbox
  rw [e] at h
  have := h.length_eq
  cases bbox <;> simp [recKeys, baseHeaders, boxHeaders] at this

end Pagexml.C14
