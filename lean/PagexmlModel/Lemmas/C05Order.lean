/-
C05: laws of the reading-order model (`assocSet` / `assocGet` dicts, `dedup`, the lookup
map built from the regions, `inReadingOrder`).
-/
import PagexmlModel.Model.C05
import Mathlib.Data.List.Nodup

set_option linter.unusedSimpArgs false

namespace Pagexml.C05
open Pagexml.X Pagexml.C01

variable {κ ν α : Type} [DecidableEq κ]

/-! ### association lists -/

theorem assocSet_not_mem (k : κ) (v : ν) (l : List (κ × ν)) (h : k ∉ l.map (·.1)) :
    assocSet k v l = l ++ [(k, v)] := by
  induction l with
  | nil => rfl
  | cons kv l ih =>
    obtain ⟨k', v'⟩ := kv
    have h1 : k' ≠ k := fun e => h (by simp [e])
    have h2 : k ∉ l.map (·.1) := fun e => h (by simp [e])
    simp [assocSet, h1, ih h2]

theorem keys_assocSet (k : κ) (v : ν) (l : List (κ × ν)) (x : κ) :
    x ∈ (assocSet k v l).map (·.1) ↔ x = k ∨ x ∈ l.map (·.1) := by
  induction l with
  | nil => simp [assocSet]
  | cons kv l ih =>
    obtain ⟨k', v'⟩ := kv
    simp only [assocSet]
    split
    · next h => subst h; simp
    · simp only [List.map_cons, List.mem_cons, ih]
      constructor
      · rintro (h | h | h) <;> simp [h]
      · rintro (h | h | h) <;> simp [h]

theorem assocGet_isSome (k : κ) (l : List (κ × ν)) : (assocGet k l).isSome ↔ k ∈ l.map (·.1) := by
  induction l with
  | nil => simp [assocGet]
  | cons kv l ih =>
    obtain ⟨k', v'⟩ := kv
    simp only [assocGet]
    split
    · next h => subst h; simp
    · next h =>
      simp only [ih, List.map_cons, List.mem_cons]
      constructor
      · exact Or.inr
      · rintro (e | e)
        · exact absurd e.symm h
        · exact e

theorem assocGet_append (k : κ) (a b : List (κ × ν)) :
    assocGet k (a ++ b) = (assocGet k a).or (assocGet k b) := by
  induction a with
  | nil => simp [assocGet]
  | cons kv a ih =>
    obtain ⟨k', v'⟩ := kv
    simp only [List.cons_append, assocGet]
    split
    · rfl
    · exact ih

theorem assocGet_map (f : α → κ) (rs : List α) (k : κ) :
    assocGet k (rs.map (fun r => (f r, r))) = rs.find? (fun r => f r = k) := by
  induction rs with
  | nil => rfl
  | cons r rs ih =>
    simp only [List.map_cons, assocGet, List.find?_cons]
    by_cases h : f r = k
    · simp [h]
    · simp [h, ih]

/-- the lookup map built from regions with pairwise different ids -/
theorem foldl_assocSet (f : α → κ) (rs : List α) (m0 : List (κ × α)) (hnd : (rs.map f).Nodup)
    (hdis : ∀ r ∈ rs, f r ∉ m0.map (·.1)) :
    rs.foldl (fun m r => assocSet (f r) r m) m0 = m0 ++ rs.map (fun r => (f r, r)) := by
  induction rs generalizing m0 with
  | nil => simp
  | cons r rs ih =>
    have hnd' : f r ∉ rs.map f ∧ (rs.map f).Nodup := by
      rw [List.map_cons] at hnd; exact List.nodup_cons.mp hnd
    simp only [List.foldl_cons, List.map_cons]
    rw [assocSet_not_mem _ _ _ (hdis r (by simp))]
    rw [ih _ hnd'.2 (by
      intro x hx hm
      simp only [List.map_append, List.map_cons, List.map_nil, List.mem_append, List.mem_cons, List.not_mem_nil,
        or_false] at hm
      rcases hm with hm | hm
      · exact hdis x (by simp [hx]) hm
      · exact hnd'.1 (by rw [← hm]; exact List.mem_map_of_mem hx))]
    simp

/-- keys of a dict built by repeated assignment -/
theorem keys_foldl_assocSet {β : Type} (kf : β → κ) (vf : β → ν) (es : List β) (m0 : List (κ × ν)) (x : κ) :
    x ∈ (es.foldl (fun m e => assocSet (kf e) (vf e) m) m0).map (·.1) ↔ x ∈ m0.map (·.1) ∨ x ∈ es.map kf := by
  induction es generalizing m0 with
  | nil => simp
  | cons e es ih =>
    simp only [List.foldl_cons, ih, keys_assocSet, List.map_cons, List.mem_cons]
    constructor
    · rintro ((h | h) | h) <;> simp [h]
    · rintro (h | h | h) <;> simp [h]

/-! ### dedup -/

theorem mem_dedup (l : List String) (x : String) : x ∈ dedup l ↔ x ∈ l := by
  induction l with
  | nil => simp [dedup]
  | cons a l ih =>
    simp only [dedup, List.mem_cons, List.mem_filter, ih, decide_eq_true_eq]
    constructor
    · rintro (h | ⟨h, _⟩) <;> simp [h]
    · rintro (h | h)
      · exact Or.inl h
      · by_cases e : x = a
        · exact Or.inl e
        · exact Or.inr ⟨h, e⟩

theorem nodup_dedup (l : List String) : (dedup l).Nodup := by
  induction l with
  | nil => simp [dedup]
  | cons a l ih =>
    simp only [dedup, List.nodup_cons, List.mem_filter, decide_eq_true_eq]
    exact ⟨fun h => h.2 rfl, ih.filter _⟩

theorem dedup_of_nodup (l : List String) (h : l.Nodup) : dedup l = l := by
  induction l with
  | nil => rfl
  | cons a l ih =>
    have h' := List.nodup_cons.mp h
    simp only [dedup, ih h'.2]
    congr 1
    apply List.filter_eq_self.mpr
    intro x hx
    simp only [decide_eq_true_eq]
    rintro rfl
    exact h'.1 hx

/-! ### the reading-order functions -/

theorem roOfEntries_nodup (es : List (Int × String)) (h : (es.map (·.1)).Nodup) : roOfEntries es = es := by
  have : ∀ (m0 : RO), (∀ e ∈ es, e.1 ∉ m0.map (·.1)) →
      es.foldl (fun ro e => roInsert ro e.1 e.2) m0 = m0 ++ es := by
    induction es with
    | nil => simp
    | cons e es ih =>
      intro m0 hd
      have h' : e.1 ∉ es.map (·.1) ∧ (es.map (·.1)).Nodup := by
        rw [List.map_cons] at h; exact List.nodup_cons.mp h
      simp only [List.foldl_cons]
      have e1 : roInsert m0 e.1 e.2 = m0 ++ [(e.1, e.2)] := assocSet_not_mem _ _ _ (hd e (by simp))
      rw [e1]
      rw [ih h'.2 _ (by
        intro x hx hm
        simp only [List.map_append, List.map_cons, List.map_nil, List.mem_append, List.mem_cons, List.not_mem_nil,
          or_false] at hm
        rcases hm with hm | hm
        · exact hd x (by simp [hx]) hm
        · exact h'.1 (by rw [← hm]; exact List.mem_map_of_mem hx))]
      simp
  simpa [roOfEntries] using this [] (by simp)

theorem roNumber_isSome (ro : RO) (i : String) : (assocGet i (roNumber ro)).isSome ↔ i ∈ ro.map (·.2) := by
  rw [assocGet_isSome]
  unfold roNumber
  rw [keys_foldl_assocSet (fun e : Int × String => e.2) (fun e => e.1)]
  simp

theorem covered_iff (idOf : α → Option String) (ro : RO) (rs : List α) :
    covered idOf ro rs = true ↔ ∀ r ∈ rs, ∃ i, idOf r = some i ∧ i ∈ ro.map (·.2) := by
  simp only [covered, List.all_eq_true]
  constructor
  · intro h r hr
    have := h r hr
    cases hi : idOf r with
    | none => rw [hi] at this; simp at this
    | some i => rw [hi] at this; exact ⟨i, rfl, (roNumber_isSome ro i).mp this⟩
  · intro h r hr
    obtain ⟨i, hi, hm⟩ := h r hr
    rw [hi]
    exact (roNumber_isSome ro i).mpr hm

/-- with pairwise different region ids, the lookup map finds the region with a given id -/
theorem inReadingOrder_eq (idOf : α → Option String) (ro : RO) (rs : List α) (hnd : (rs.map idOf).Nodup) :
    inReadingOrder idOf ro rs
      = (dedup ((sortedItems ro).map (·.2))).filterMap (fun i => rs.find? (fun r => idOf r = some i)) := by
  unfold inReadingOrder
  rw [foldl_assocSet idOf rs [] hnd (by simp)]
  simp only [List.nil_append, assocGet_map]

theorem find_id (idOf : α → Option String) (rs : List α) (hnd : (rs.map idOf).Nodup) (r : α) (hr : r ∈ rs)
    (i : String) (hi : idOf r = some i) : rs.find? (fun x => idOf x = some i) = some r := by
  induction rs with
  | nil => simp at hr
  | cons x xs ih =>
    have h' : idOf x ∉ xs.map idOf ∧ (xs.map idOf).Nodup := by
      rw [List.map_cons] at hnd; exact List.nodup_cons.mp hnd
    simp only [List.find?_cons]
    rcases List.mem_cons.mp hr with rfl | hr
    · simp [hi]
    · have hx : idOf x ≠ some i := by
        intro e
        apply h'.1
        rw [e, ← hi]
        exact List.mem_map_of_mem hr
      simp [hx, ih h'.2 hr]

end Pagexml.C05
