/-
C06: encodability of the JSON views and the effect of `json.loads ∘ json.dumps` (`PyVal.norm`)
on them.
-/
import PagexmlModel.Lemmas.C06
import PagexmlModel.Model.C06JV

set_option linter.unusedSimpArgs false
set_option linter.unusedVariables false

namespace Pagexml.C06

/-! ### values -/

mutual
theorem stable_norm : ∀ v : PyVal, v.stable = true → v.norm = v
  | .list xs, h => by
    simp only [PyVal.stable] at h; simp only [PyVal.norm, stableList_norm xs h]
  | .dict kvs, h => by
    simp only [PyVal.stable] at h; simp only [PyVal.norm, stableKvs_norm kvs h]
  | .none, _ => by simp [PyVal.norm]
  | .bool _, _ => by simp [PyVal.norm]
  | .int _, _ => by simp [PyVal.norm]
  | .num _, _ => by simp [PyVal.norm]
  | .str _, _ => by simp [PyVal.norm]
  | .obj _, _ => by simp [PyVal.norm]
theorem stableList_norm : ∀ xs : List PyVal, PyVal.stableList xs = true → PyVal.normList xs = xs
  | [], _ => rfl
  | x :: xs, h => by
    simp only [PyVal.stableList, Bool.and_eq_true] at h
    simp only [PyVal.normList, stable_norm x h.1, stableList_norm xs h.2]
theorem stableKvs_norm : ∀ m : List (Key × PyVal), PyVal.stableKvs m = true → PyVal.normKvs m = m
  | [], _ => rfl
  | (.s k, v) :: m, h => by
    simp only [PyVal.stableKvs, Bool.and_eq_true] at h
    simp only [PyVal.normKvs, normKey, stable_norm v h.1, stableKvs_norm m h.2]
  | (.i _, _) :: _, h => by simp [PyVal.stableKvs] at h
end

mutual
theorem stable_enc : ∀ v : PyVal, v.stable = true → v.encodable = true
  | .list xs, h => by
    simp only [PyVal.stable] at h; simp only [PyVal.encodable, stableList_enc xs h]
  | .dict kvs, h => by
    simp only [PyVal.stable] at h; simp only [PyVal.encodable, stableKvs_enc kvs h]
  | .none, _ => by simp [PyVal.encodable]
  | .bool _, _ => by simp [PyVal.encodable]
  | .int _, _ => by simp [PyVal.encodable]
  | .num _, _ => by simp [PyVal.encodable]
  | .str _, _ => by simp [PyVal.encodable]
  | .obj _, h => by simp [PyVal.stable] at h
theorem stableList_enc : ∀ xs : List PyVal, PyVal.stableList xs = true → PyVal.encodableList xs = true
  | [], _ => rfl
  | x :: xs, h => by
    simp only [PyVal.stableList, Bool.and_eq_true] at h
    simp only [PyVal.encodableList, stable_enc x h.1, stableList_enc xs h.2, Bool.and_self]
theorem stableKvs_enc : ∀ m : List (Key × PyVal), PyVal.stableKvs m = true → PyVal.encodableKvs m = true
  | [], _ => rfl
  | (.s k, v) :: m, h => by
    simp only [PyVal.stableKvs, Bool.and_eq_true] at h
    simp only [PyVal.encodableKvs, stable_enc v h.1, stableKvs_enc m h.2, Bool.and_self]
  | (.i _, _) :: _, h => by simp [PyVal.stableKvs] at h
end

/-- the converse: what `norm` leaves alone and the encoder accepts is stable -/
theorem normKey_idem (k : Key) : normKey (normKey k) = normKey k := by cases k <;> rfl

mutual
theorem norm_stable : ∀ v : PyVal, v.encodable = true → v.norm.stable = true
  | .list xs, h => by
    simp only [PyVal.encodable] at h; simp only [PyVal.norm, PyVal.stable, normList_stable xs h]
  | .dict kvs, h => by
    simp only [PyVal.encodable] at h; simp only [PyVal.norm, PyVal.stable, normKvs_stable kvs h]
  | .none, _ => by simp [PyVal.norm, PyVal.stable]
  | .bool _, _ => by simp [PyVal.norm, PyVal.stable]
  | .int _, _ => by simp [PyVal.norm, PyVal.stable]
  | .num _, _ => by simp [PyVal.norm, PyVal.stable]
  | .str _, _ => by simp [PyVal.norm, PyVal.stable]
  | .obj _, h => by simp [PyVal.encodable] at h
theorem normList_stable : ∀ xs : List PyVal, PyVal.encodableList xs = true → PyVal.stableList (PyVal.normList xs) = true
  | [], _ => rfl
  | x :: xs, h => by
    simp only [PyVal.encodableList, Bool.and_eq_true] at h
    simp only [PyVal.normList, PyVal.stableList, norm_stable x h.1, normList_stable xs h.2, Bool.and_self]
theorem normKvs_stable : ∀ m : List (Key × PyVal), PyVal.encodableKvs m = true → PyVal.stableKvs (PyVal.normKvs m) = true
  | [], _ => rfl
  | (.s k, v) :: m, h => by
    simp only [PyVal.encodableKvs, Bool.and_eq_true] at h
    simp only [PyVal.normKvs, normKey, PyVal.stableKvs, norm_stable v h.1, normKvs_stable m h.2, Bool.and_self]
  | (.i n, v) :: m, h => by
    simp only [PyVal.encodableKvs, Bool.and_eq_true] at h
    simp only [PyVal.normKvs, normKey, PyVal.stableKvs, norm_stable v h.1, normKvs_stable m h.2, Bool.and_self]
end

/-! ### lists of key/value pairs -/

@[simp] theorem encKvs_nil : PyVal.encodableKvs [] = true := rfl
@[simp] theorem encKvs_cons (k : Key) (v : PyVal) (m : List (Key × PyVal)) :
    PyVal.encodableKvs ((k, v) :: m) = (v.encodable && PyVal.encodableKvs m) := by
  simp [PyVal.encodableKvs]
@[simp] theorem encKvs_append (a b : List (Key × PyVal)) :
    PyVal.encodableKvs (a ++ b) = (PyVal.encodableKvs a && PyVal.encodableKvs b) := by
  induction a with
  | nil => simp
  | cons x a ih => obtain ⟨k, v⟩ := x; simp [ih, Bool.and_assoc]
@[simp] theorem encKvs_opt (k : String) (p : Bool) (v : PyVal) :
    PyVal.encodableKvs (opt k p v) = (!p || v.encodable) := by
  cases p <;> simp [opt]
@[simp] theorem encList_nil : PyVal.encodableList [] = true := rfl
@[simp] theorem encList_cons (x : PyVal) (xs : List PyVal) :
    PyVal.encodableList (x :: xs) = (x.encodable && PyVal.encodableList xs) := by
  simp [PyVal.encodableList]
theorem encList_map {α} (f : α → PyVal) (xs : List α) :
    PyVal.encodableList (xs.map f) = xs.all (fun x => (f x).encodable) := by
  induction xs with
  | nil => rfl
  | cons x xs ih => simp [ih]
@[simp] theorem enc_list (xs : List PyVal) : (PyVal.list xs).encodable = PyVal.encodableList xs := by
  simp [PyVal.encodable]
@[simp] theorem enc_dict (m : List (Key × PyVal)) : (PyVal.dict m).encodable = PyVal.encodableKvs m := by
  simp [PyVal.encodable]
@[simp] theorem enc_int (i : Int) : (PyVal.int i).encodable = true := by simp [PyVal.encodable]
@[simp] theorem enc_str (s : String) : (PyVal.str s).encodable = true := by simp [PyVal.encodable]
@[simp] theorem enc_none : PyVal.none.encodable = true := by simp [PyVal.encodable]

@[simp] theorem enc_ptsVal (ps : Pts) : (ptsVal ps).encodable = true := by
  simp [ptsVal, encList_map]
@[simp] theorem enc_typesVal (ts : List String) : (typesVal ts).encodable = true := by
  simp [typesVal, encList_map]
@[simp] theorem enc_optStr (t : Option String) : (optStr t).encodable = true := by cases t <;> simp [optStr]
@[simp] theorem enc_optIntVal (t : Option Int) : (optIntVal t).encodable = true := by cases t <;> simp [optIntVal]
@[simp] theorem enc_natVal (n : Nat) : (natVal n).encodable = true := by simp [natVal]
@[simp] theorem enc_statsVal (kvs : List (String × Nat)) : (statsVal kvs).encodable = true := by
  simp only [statsVal, enc_dict]
  induction kvs with
  | nil => rfl
  | cons x xs ih => simp [ih]
@[simp] theorem encKvs_optPts (k : String) (c : Option Pts) : PyVal.encodableKvs (optPts k c) = true := by
  cases c <;> simp [optPts]
@[simp] theorem encKvs_optTxt (k : String) (c : Option String) : PyVal.encodableKvs (optTxt k c) = true := by
  cases c <;> simp [optTxt]
theorem enc_roVal (kf : Int → Key) (ro : RO) (h : roJv ro = true) : (roVal kf ro).encodable = true := by
  simp only [roVal, enc_dict]
  induction ro with
  | nil => rfl
  | cons e ro ih =>
    simp only [roJv, List.all_cons, Bool.and_eq_true] at h
    simp [stable_enc _ h.1, ih (by simpa [roJv] using h.2)]

/-! ### `norm` on the pieces of a JSON view -/

@[simp] theorem norm_list (xs : List PyVal) : (PyVal.list xs).norm = .list (PyVal.normList xs) := by simp [PyVal.norm]
@[simp] theorem norm_dict (m : List (Key × PyVal)) : (PyVal.dict m).norm = .dict (PyVal.normKvs m) := by simp [PyVal.norm]
@[simp] theorem norm_int (i : Int) : (PyVal.int i).norm = .int i := by simp [PyVal.norm]
@[simp] theorem norm_str (s : String) : (PyVal.str s).norm = .str s := by simp [PyVal.norm]
@[simp] theorem norm_none : PyVal.none.norm = .none := by simp [PyVal.norm]
@[simp] theorem normKvs_nil : PyVal.normKvs [] = [] := rfl
@[simp] theorem normKvs_cons (k : Key) (v : PyVal) (m : List (Key × PyVal)) :
    PyVal.normKvs ((k, v) :: m) = (normKey k, v.norm) :: PyVal.normKvs m := by simp [PyVal.normKvs]
@[simp] theorem normKey_s (k : String) : normKey (.s k) = .s k := rfl
@[simp] theorem normKvs_append (a b : List (Key × PyVal)) :
    PyVal.normKvs (a ++ b) = PyVal.normKvs a ++ PyVal.normKvs b := by
  induction a with
  | nil => simp
  | cons x a ih => obtain ⟨k, v⟩ := x; simp [ih]
@[simp] theorem normKvs_opt (k : String) (p : Bool) (v : PyVal) :
    PyVal.normKvs (opt k p v) = opt k p v.norm := by
  cases p <;> simp [opt]
@[simp] theorem normList_nil : PyVal.normList [] = [] := rfl
@[simp] theorem normList_cons (x : PyVal) (xs : List PyVal) :
    PyVal.normList (x :: xs) = x.norm :: PyVal.normList xs := by simp [PyVal.normList]
theorem normList_map {α} (f : α → PyVal) (xs : List α) :
    PyVal.normList (xs.map f) = xs.map (fun x => (f x).norm) := by
  induction xs with
  | nil => rfl
  | cons x xs ih => simp [ih]
theorem normList_map_of {α} (f g : α → PyVal) (xs : List α) (h : ∀ x ∈ xs, (f x).norm = g x) :
    PyVal.normList (xs.map f) = xs.map g := by
  rw [normList_map]
  exact List.map_congr_left h

@[simp] theorem norm_ptsVal (ps : Pts) : (ptsVal ps).norm = ptsVal ps := by
  simp [ptsVal, normList_map]
@[simp] theorem norm_typesVal (ts : List String) : (typesVal ts).norm = typesVal ts := by
  simp [typesVal, normList_map]
@[simp] theorem norm_optStr (t : Option String) : (optStr t).norm = optStr t := by cases t <;> simp [optStr]
@[simp] theorem norm_optIntVal (t : Option Int) : (optIntVal t).norm = optIntVal t := by cases t <;> simp [optIntVal]
@[simp] theorem norm_natVal (n : Nat) : (natVal n).norm = natVal n := by simp [natVal]
@[simp] theorem norm_statsVal (kvs : List (String × Nat)) : (statsVal kvs).norm = statsVal kvs := by
  simp only [statsVal, norm_dict]
  congr 1
  induction kvs with
  | nil => rfl
  | cons x xs ih => simp [ih]
@[simp] theorem normKvs_optPts (k : String) (c : Option Pts) : PyVal.normKvs (optPts k c) = optPts k c := by
  cases c <;> simp [optPts]
@[simp] theorem normKvs_optTxt (k : String) (c : Option String) : PyVal.normKvs (optTxt k c) = optTxt k c := by
  cases c <;> simp [optTxt]
/-- the reading-order dict: int keys become their decimal strings -/
theorem norm_roVal (ro : RO) (h : roJv ro = true) : (roVal Key.i ro).norm = roVal strKey ro := by
  simp only [roVal, norm_dict]
  congr 1
  induction ro with
  | nil => rfl
  | cons e ro ih =>
    simp only [roJv, List.all_cons, Bool.and_eq_true] at h
    simp [stable_norm _ h.1, ih (by simpa [roJv] using h.2), normKey, strKey]

/-! ### the inherited fields -/

theorem enc_baseFields (kf : Int → Key) (mt : String) (h : Hdr) (ro : RO) (roa : PyVal)
    (hh : h.jv = true) (hro : roJv ro = true) (hroa : roa.stable = true) :
    PyVal.encodableKvs (baseFields kf mt h ro roa) = true := by
  simp only [Hdr.jv, Bool.and_eq_true] at hh
  simp [baseFields, stable_enc _ hh.1, stableKvs_enc _ hh.2, enc_roVal kf ro hro, stable_enc _ hroa]

theorem norm_baseFields (mt : String) (h : Hdr) (ro : RO) (roa : PyVal)
    (hh : h.jv = true) (hro : roJv ro = true) (hroa : roa.stable = true) :
    PyVal.normKvs (baseFields Key.i mt h ro roa) = baseFields strKey mt h ro roa := by
  simp only [Hdr.jv, Bool.and_eq_true] at hh
  simp [baseFields, stable_norm _ hh.1, stableKvs_norm _ hh.2, norm_roVal ro hro, stable_norm _ hroa]

theorem roJv_nil : roJv [] = true := rfl
theorem stable_none : PyVal.none.stable = true := by simp [PyVal.stable]

/-! ### words, lines, cells, rows, tables -/

theorem Word.enc (kf : Int → Key) (w : Word) (h : w.jv = true) : (w.toJson kf).encodable = true := by
  simp only [Word.jv, Bool.and_eq_true] at h
  simp [Word.toJson, Word.fields, enc_baseFields kf "word" w.h [] .none h.1 roJv_nil stable_none, stable_enc _ h.2]

theorem Word.norm_toJson (w : Word) (h : w.jv = true) : (w.toJson Key.i).norm = w.toJson strKey := by
  simp only [Word.jv, Bool.and_eq_true] at h
  simp [Word.toJson, Word.fields, norm_baseFields "word" w.h [] .none h.1 roJv_nil stable_none, stable_norm _ h.2]

theorem Line.enc (kf : Int → Key) (l : Line) (h : l.jv = true) : (l.toJson kf).encodable = true := by
  simp only [Line.jv, Bool.and_eq_true, List.all_eq_true] at h
  obtain ⟨⟨⟨⟨⟨hh, hc⟩, hx⟩, hro⟩, hroa⟩, hws⟩ := h
  have hw : l.words.all (fun w => (Word.toJson kf w).encodable) = true := by
    rw [List.all_eq_true]; exact fun w hw => Word.enc kf w (hws w hw)
  simp [Line.toJson, Line.fields, enc_baseFields kf "line" l.h l.ro l.roa hh hro hroa, stable_enc _ hc,
    stable_enc _ hx, encList_map, hw]

theorem Line.norm_toJson (l : Line) (h : l.jv = true) : (l.toJson Key.i).norm = l.toJson strKey := by
  simp only [Line.jv, Bool.and_eq_true, List.all_eq_true] at h
  obtain ⟨⟨⟨⟨⟨hh, hc⟩, hx⟩, hro⟩, hroa⟩, hws⟩ := h
  have hw := normList_map_of (Word.toJson Key.i) (Word.toJson strKey) l.words (fun w hw => Word.norm_toJson w (hws w hw))
  simp [Line.toJson, Line.fields, norm_baseFields "line" l.h l.ro l.roa hh hro hroa, stable_norm _ hc,
    stable_norm _ hx, hw]

theorem Cell.enc (kf : Int → Key) (c : Cell) (h : c.jv = true) : (c.toJson kf).encodable = true := by
  simp only [Cell.jv, Bool.and_eq_true, List.all_eq_true] at h
  obtain ⟨⟨⟨⟨⟨⟨⟨hh, h1⟩, h2⟩, h3⟩, h4⟩, h5⟩, h6⟩, hls⟩ := h
  have hl : c.lines.all (fun l => (Line.toJson kf l).encodable) = true := by
    rw [List.all_eq_true]; exact fun l hl => Line.enc kf l (hls l hl)
  simp [Cell.toJson, Cell.fields, enc_baseFields kf "table_cell" c.h [] .none hh roJv_nil stable_none,
    stable_enc _ h1, stable_enc _ h2, stable_enc _ h3, stable_enc _ h4, stable_enc _ h5, stable_enc _ h6,
    encList_map, hl]

theorem Cell.norm_toJson (c : Cell) (h : c.jv = true) : (c.toJson Key.i).norm = c.toJson strKey := by
  simp only [Cell.jv, Bool.and_eq_true, List.all_eq_true] at h
  obtain ⟨⟨⟨⟨⟨⟨⟨hh, h1⟩, h2⟩, h3⟩, h4⟩, h5⟩, h6⟩, hls⟩ := h
  have hl := normList_map_of (Line.toJson Key.i) (Line.toJson strKey) c.lines (fun l hl => Line.norm_toJson l (hls l hl))
  simp [Cell.toJson, Cell.fields, norm_baseFields "table_cell" c.h [] .none hh roJv_nil stable_none,
    stable_norm _ h1, stable_norm _ h2, stable_norm _ h3, stable_norm _ h4, stable_norm _ h5, stable_norm _ h6, hl]

theorem Row.enc (kf : Int → Key) (r : Row) (h : r.jv = true) : (r.toJson kf).encodable = true := by
  simp only [Row.jv, Bool.and_eq_true, List.all_eq_true] at h
  obtain ⟨⟨hh, h1⟩, hcs⟩ := h
  have hc : r.cells.all (fun c => (Cell.toJson kf c).encodable) = true := by
    rw [List.all_eq_true]; exact fun c hc => Cell.enc kf c (hcs c hc)
  simp [Row.toJson, Row.fields, enc_baseFields kf "table_row" r.h [] .none hh roJv_nil stable_none,
    stable_enc _ h1, encList_map, hc]

theorem Row.norm_toJson (r : Row) (h : r.jv = true) : (r.toJson Key.i).norm = r.toJson strKey := by
  simp only [Row.jv, Bool.and_eq_true, List.all_eq_true] at h
  obtain ⟨⟨hh, h1⟩, hcs⟩ := h
  have hc := normList_map_of (Cell.toJson Key.i) (Cell.toJson strKey) r.cells (fun c hc => Cell.norm_toJson c (hcs c hc))
  simp [Row.toJson, Row.fields, norm_baseFields "table_row" r.h [] .none hh roJv_nil stable_none,
    stable_norm _ h1, hc]

theorem Table.enc (kf : Int → Key) (t : Table) (h : t.jv = true) : (t.toJson kf).encodable = true := by
  simp only [Table.jv, Bool.and_eq_true, List.all_eq_true] at h
  obtain ⟨⟨hh, h1⟩, hrs⟩ := h
  have hr : t.rows.all (fun r => (Row.toJson kf r).encodable) = true := by
    rw [List.all_eq_true]; exact fun r hr => Row.enc kf r (hrs r hr)
  simp [Table.toJson, Table.fields, enc_baseFields kf "table_region" t.h [] .none hh roJv_nil stable_none,
    stable_enc _ h1, encList_map, hr]

theorem Table.norm_toJson (t : Table) (h : t.jv = true) : (t.toJson Key.i).norm = t.toJson strKey := by
  simp only [Table.jv, Bool.and_eq_true, List.all_eq_true] at h
  obtain ⟨⟨hh, h1⟩, hrs⟩ := h
  have hr := normList_map_of (Row.toJson Key.i) (Row.toJson strKey) t.rows (fun r hr => Row.norm_toJson r (hrs r hr))
  simp [Table.toJson, Table.fields, norm_baseFields "table_region" t.h [] .none hh roJv_nil stable_none,
    stable_norm _ h1, hr]

/-! ### the region-like classes -/

theorem enc_regionFields (L R T : List PyVal) (text : Option String) (o : PyVal)
    (hL : PyVal.encodableList L = true) (hR : PyVal.encodableList R = true) (hT : PyVal.encodableList T = true)
    (ho : o.stable = true) : PyVal.encodableKvs (regionFields L R T text o) = true := by
  simp [regionFields, hL, hR, hT, stable_enc _ ho]

theorem norm_regionFields (L R T : List PyVal) (text : Option String) (o : PyVal) (ho : o.stable = true) :
    PyVal.normKvs (regionFields L R T text o)
      = regionFields (PyVal.normList L) (PyVal.normList R) (PyVal.normList T) text o := by
  have e : ∀ xs : List PyVal, (PyVal.normList xs).isEmpty = xs.isEmpty := by
    intro xs; cases xs <;> simp
  simp [regionFields, stable_norm _ ho, e]

theorem lines_enc (kf : Int → Key) (ls : List Line) (h : ls.all Line.jv = true) :
    PyVal.encodableList (ls.map (Line.toJson kf)) = true := by
  rw [encList_map, List.all_eq_true]
  rw [List.all_eq_true] at h
  exact fun l hl => Line.enc kf l (h l hl)

theorem tables_enc (kf : Int → Key) (ts : List Table) (h : ts.all Table.jv = true) :
    PyVal.encodableList (ts.map (Table.toJson kf)) = true := by
  rw [encList_map, List.all_eq_true]
  rw [List.all_eq_true] at h
  exact fun t ht => Table.enc kf t (h t ht)

theorem lines_norm (ls : List Line) (h : ls.all Line.jv = true) :
    PyVal.normList (ls.map (Line.toJson Key.i)) = ls.map (Line.toJson strKey) := by
  rw [List.all_eq_true] at h
  exact normList_map_of _ _ ls (fun l hl => Line.norm_toJson l (h l hl))

theorem tables_norm (ts : List Table) (h : ts.all Table.jv = true) :
    PyVal.normList (ts.map (Table.toJson Key.i)) = ts.map (Table.toJson strKey) := by
  rw [List.all_eq_true] at h
  exact normList_map_of _ _ ts (fun t ht => Table.norm_toJson t (h t ht))

mutual
theorem Region.enc (kf : Int → Key) : ∀ r : Region, r.jv = true → (r.toJson kf).encodable = true
  | ⟨h, text, orientation, ro, roa, lines, regions, tables⟩, hj => by
    simp only [Region.jv, Bool.and_eq_true] at hj
    obtain ⟨⟨⟨⟨⟨⟨hh, ho⟩, hro⟩, hroa⟩, hls⟩, hrs⟩, hts⟩ := hj
    simp only [Region.toJson, enc_dict, encKvs_append, enc_baseFields kf _ h ro roa hh hro hroa,
      enc_regionFields _ _ _ text orientation (lines_enc kf lines hls) (Region.encL kf regions hrs)
        (tables_enc kf tables hts) ho, encKvs_cons, enc_statsVal, encKvs_nil, Bool.and_self]
theorem Region.encL (kf : Int → Key) : ∀ rs : List Region, Region.jvL rs = true →
    PyVal.encodableList (Region.toJsonL kf rs) = true
  | [], _ => rfl
  | r :: rs, hj => by
    simp only [Region.jvL, Bool.and_eq_true] at hj
    simp only [Region.toJsonL, encList_cons, Region.enc kf r hj.1, Region.encL kf rs hj.2, Bool.and_self]
end

mutual
theorem Region.norm_toJson : ∀ r : Region, r.jv = true → (r.toJson Key.i).norm = r.toJson strKey
  | ⟨h, text, orientation, ro, roa, lines, regions, tables⟩, hj => by
    simp only [Region.jv, Bool.and_eq_true] at hj
    obtain ⟨⟨⟨⟨⟨⟨hh, ho⟩, hro⟩, hroa⟩, hls⟩, hrs⟩, hts⟩ := hj
    simp only [Region.toJson, norm_dict, normKvs_append, norm_baseFields _ h ro roa hh hro hroa,
      norm_regionFields _ _ _ text orientation ho, lines_norm lines hls, Region.normL regions hrs,
      tables_norm tables hts, normKvs_cons, normKey_s, norm_statsVal, normKvs_nil]
theorem Region.normL : ∀ rs : List Region, Region.jvL rs = true →
    PyVal.normList (Region.toJsonL Key.i rs) = Region.toJsonL strKey rs
  | [], _ => rfl
  | r :: rs, hj => by
    simp only [Region.jvL, Bool.and_eq_true] at hj
    simp only [Region.toJsonL, normList_cons, Region.norm_toJson r hj.1, Region.normL rs hj.2]
end

theorem Column.enc (kf : Int → Key) (c : Column) (hj : c.jv = true) : (c.toJson kf).encodable = true := by
  simp only [Column.jv, Bool.and_eq_true] at hj
  obtain ⟨⟨⟨⟨⟨⟨hh, ho⟩, hro⟩, hroa⟩, hls⟩, hrs⟩, hts⟩ := hj
  simp only [Column.toJson, enc_dict, encKvs_append, enc_baseFields kf _ c.h c.ro c.roa hh hro hroa,
    enc_regionFields _ _ _ none c.orientation (lines_enc kf c.lines hls) (Region.encL kf c.regions hrs)
      (tables_enc kf c.tables hts) ho, encKvs_cons, enc_statsVal, encKvs_nil, Bool.and_self]

theorem Column.norm_toJson (c : Column) (hj : c.jv = true) : (c.toJson Key.i).norm = c.toJson strKey := by
  simp only [Column.jv, Bool.and_eq_true] at hj
  obtain ⟨⟨⟨⟨⟨⟨hh, ho⟩, hro⟩, hroa⟩, hls⟩, hrs⟩, hts⟩ := hj
  simp only [Column.toJson, norm_dict, normKvs_append, norm_baseFields _ c.h c.ro c.roa hh hro hroa,
    norm_regionFields _ _ _ none c.orientation ho, lines_norm c.lines hls, Region.normL c.regions hrs,
    tables_norm c.tables hts, normKvs_cons, normKey_s, norm_statsVal, normKvs_nil]

theorem columns_enc (kf : Int → Key) (cs : List Column) (h : cs.all Column.jv = true) :
    PyVal.encodableList (cs.map (Column.toJson kf)) = true := by
  rw [encList_map, List.all_eq_true]
  rw [List.all_eq_true] at h
  exact fun c hc => Column.enc kf c (h c hc)

theorem columns_norm (cs : List Column) (h : cs.all Column.jv = true) :
    PyVal.normList (cs.map (Column.toJson Key.i)) = cs.map (Column.toJson strKey) := by
  rw [List.all_eq_true] at h
  exact normList_map_of _ _ cs (fun c hc => Column.norm_toJson c (h c hc))

theorem Page.enc (kf : Int → Key) (p : Page) (hj : p.jv = true) : (p.toJson kf).encodable = true := by
  simp only [Page.jv, Bool.and_eq_true] at hj
  obtain ⟨⟨⟨⟨⟨⟨⟨hh, ho⟩, hro⟩, hroa⟩, hcs⟩, hrs⟩, hts⟩, hex⟩ := hj
  simp only [Page.toJson, enc_dict, encKvs_append, enc_baseFields kf _ p.h p.ro p.roa hh hro hroa,
    enc_regionFields [] _ _ none p.orientation encList_nil (Region.encL kf p.regions hrs)
      (tables_enc kf p.tables hts) ho, encKvs_cons, enc_statsVal, encKvs_nil, Bool.and_self, encKvs_opt,
    enc_list, columns_enc kf p.columns hcs, Region.encL kf p.extra hex, Bool.or_true]

theorem Page.norm_toJson (p : Page) (hj : p.jv = true) : (p.toJson Key.i).norm = p.toJson strKey := by
  simp only [Page.jv, Bool.and_eq_true] at hj
  obtain ⟨⟨⟨⟨⟨⟨⟨hh, ho⟩, hro⟩, hroa⟩, hcs⟩, hrs⟩, hts⟩, hex⟩ := hj
  simp only [Page.toJson, norm_dict, normKvs_append, norm_baseFields _ p.h p.ro p.roa hh hro hroa,
    norm_regionFields _ _ _ none p.orientation ho, Region.normL p.regions hrs, normList_nil,
    tables_norm p.tables hts, normKvs_cons, normKey_s, norm_statsVal, normKvs_nil, normKvs_opt, norm_list,
    columns_norm p.columns hcs, Region.normL p.extra hex]

theorem pages_enc (kf : Int → Key) (ps : List Page) (h : ps.all Page.jv = true) :
    PyVal.encodableList (ps.map (Page.toJson kf)) = true := by
  rw [encList_map, List.all_eq_true]
  rw [List.all_eq_true] at h
  exact fun p hp => Page.enc kf p (h p hp)

theorem pages_norm (ps : List Page) (h : ps.all Page.jv = true) :
    PyVal.normList (ps.map (Page.toJson Key.i)) = ps.map (Page.toJson strKey) := by
  rw [List.all_eq_true] at h
  exact normList_map_of _ _ ps (fun p hp => Page.norm_toJson p (h p hp))

theorem Scan.enc (kf : Int → Key) (s : Scan) (hj : s.jv = true) : (s.toJson kf).encodable = true := by
  simp only [Scan.jv, Bool.and_eq_true] at hj
  obtain ⟨⟨⟨⟨⟨⟨⟨⟨hh, ho⟩, hro⟩, hroa⟩, hps⟩, hcs⟩, hrs⟩, hts⟩, hls⟩ := hj
  simp only [Scan.toJson, enc_dict, encKvs_append, enc_baseFields kf _ s.h s.ro s.roa hh hro hroa,
    enc_regionFields _ _ _ none s.orientation (lines_enc kf s.lines hls) (Region.encL kf s.regions hrs)
      (tables_enc kf s.tables hts) ho, encKvs_cons, enc_statsVal, encKvs_nil, Bool.and_self, encKvs_opt,
    enc_list, columns_enc kf s.columns hcs, pages_enc kf s.pages hps, Bool.or_true]

theorem Scan.norm_toJson (s : Scan) (hj : s.jv = true) : (s.toJson Key.i).norm = s.toJson strKey := by
  simp only [Scan.jv, Bool.and_eq_true] at hj
  obtain ⟨⟨⟨⟨⟨⟨⟨⟨hh, ho⟩, hro⟩, hroa⟩, hps⟩, hcs⟩, hrs⟩, hts⟩, hls⟩ := hj
  simp only [Scan.toJson, norm_dict, normKvs_append, norm_baseFields _ s.h s.ro s.roa hh hro hroa,
    norm_regionFields _ _ _ none s.orientation ho, lines_norm s.lines hls, Region.normL s.regions hrs,
    tables_norm s.tables hts, normKvs_cons, normKey_s, norm_statsVal, normKvs_nil, normKvs_opt, norm_list,
    columns_norm s.columns hcs, pages_norm s.pages hps]

theorem Doc.enc (kf : Int → Key) (d : Doc) (hj : d.jv = true) : (d.toJson kf).encodable = true := by
  cases d with
  | word w => exact Word.enc kf w hj
  | line l => exact Line.enc kf l hj
  | region r => exact Region.enc kf r hj
  | column c => exact Column.enc kf c hj
  | page p => exact Page.enc kf p hj
  | scan s => exact Scan.enc kf s hj

theorem Doc.norm_toJson (d : Doc) (hj : d.jv = true) : (d.toJson Key.i).norm = d.toJson strKey := by
  cases d with
  | word w => exact Word.norm_toJson w hj
  | line l => exact Line.norm_toJson l hj
  | region r => exact Region.norm_toJson r hj
  | column c => exact Column.norm_toJson c hj
  | page p => exact Page.norm_toJson p hj
  | scan s => exact Scan.norm_toJson s hj

end Pagexml.C06
