/-
C02: the XML parser's history (Model/C02Hist.lean, `PScan.hist`) is disciplined and total.
-/
import PagexmlModel.Lemmas.C02Trees

set_option linter.unusedSimpArgs false
set_option linter.unusedVariables false

namespace Pagexml.C02

/-- the state while a region / table `n` (constructed empty in a store of `n` objects) is filled -/
structure Filling (σ τ : Store) (n : Nat) (C : Cls) : Prop where
  good : Good τ
  hn : n = σ.size
  size : n < τ.size
  cls : clsOf τ n = some C
  free : FreeKid τ n
  frame : Frame σ τ
  keep : ∀ k, k < σ.size → clsOf τ k = clsOf σ k

/-- one of the parser's attach statements -/
structure IsAttach (mk : Nat → List Nat → Op) : Prop where
  refs : ∀ n cs, (mk n cs).refs = n :: cs
  src : ∀ σ n cs, (mk n cs).source σ = n
  tg : ∀ n cs, (mk n cs).targets = cs
  pre : ∀ σ n cs, Pre σ (mk n cs) = ((mk n cs).refs.all σ.has &&
    (σ.free n && σ.notScan n && cs.all (fun c => σ.onlyBy c n && σ.notScan c) && cs.all (fun c => c != n)))
  size : ∀ σ σ' o n cs, step σ (mk n cs) = .ok (σ', o) → σ'.size = σ.size

theorem isAttach_lines : IsAttach Op.attachLines :=
  ⟨fun _ _ => rfl, fun _ _ _ => rfl, fun _ _ => rfl, fun _ _ _ => rfl,
   fun _ _ _ _ _ h => size_step_simple (Or.inr (Or.inl ⟨_, _, rfl⟩)) h⟩
theorem isAttach_regions : IsAttach Op.attachRegions :=
  ⟨fun _ _ => rfl, fun _ _ _ => rfl, fun _ _ => rfl, fun _ _ _ => rfl,
   fun _ _ _ _ _ h => size_step_simple (Or.inr (Or.inr (Or.inl ⟨_, _, rfl⟩))) h⟩
theorem isAttach_rows : IsAttach Op.attachRows :=
  ⟨fun _ _ => rfl, fun _ _ _ => rfl, fun _ _ => rfl, fun _ _ _ => rfl,
   fun _ _ _ _ _ h => size_step_simple (Or.inr (Or.inr (Or.inr (Or.inl ⟨_, _, rfl⟩)))) h⟩

/-- attaching freshly built, still free children to the region / table being filled -/
theorem attach_step {mk : Nat → List Nat → Op} (hmk : IsAttach mk) {σ τ : Store} {n : Nat} {C : Cls} (hC : C ≠ .scan)
    (F : Filling σ τ n C) {cs : List Nat} (hcs : ∀ c ∈ cs, FreeKid τ c ∧ n < c) :
    ∃ τ', Runs τ [mk n cs] τ' ∧ Filling σ τ' n C ∧ τ'.size = τ.size := by
  have hp : Pre τ (mk n cs) = true := by
    rw [hmk.pre, hmk.refs]
    simp only [List.all_cons, Bool.and_eq_true, List.all_eq_true, bne_iff_ne, ne_eq]
    refine ⟨⟨has_iff.mpr F.size, fun c hc => (hcs c hc).1.bools.1⟩,
      ⟨⟨⟨F.free.bools.2.1, F.free.bools.2.2⟩, fun c hc => ⟨?_, (hcs c hc).1.bools.2.2⟩⟩, fun c hc => ?_⟩⟩
    · exact onlyBy_iff.mpr (fun q qn gq hm => absurd hm ((hcs c hc).1.2 q qn gq))
    · have := (hcs c hc).2; omega
  obtain ⟨τ', o, hs, g', A⟩ := good_step F.good hp
  rw [hmk.src, hmk.tg] at A
  have hsz := hmk.size τ τ' o n cs hs
  refine ⟨τ', Runs.cons hs hp (Runs.nil _), ⟨g', F.hn, by rw [hsz]; exact F.size, ?_, ?_, ?_, ?_⟩, hsz⟩
  · rw [A.cls n F.size]; exact F.cls
  · exact freeKid_adds A F.free (fun hm => by have := (hcs n hm).2; omega)
  · intro c h
    refine freeKid_adds A (F.frame c h) (fun hm => ?_)
    have := (hcs c hm).2; have := h.lt; have := F.hn; omega
  · intro k hk
    rw [A.cls k (by have := F.size; have := F.hn; omega)]; exact F.keep k hk

theorem pre_noKids {σ : Store} {op : Op} (hop : (∃ n ts, op = .addType n ts) ∨ (∃ n v, op = .setFilename n v))
    (hr : ∀ x ∈ op.refs, x < σ.size) : Pre σ op = true := by
  rcases hop with ⟨n, ts, rfl⟩ | ⟨n, v, rfl⟩ <;>
    simp [Pre, Op.refs, Op.newKids, has_iff.mpr (hr n (by simp [Op.refs]))]

/-- `add_type(metadata['type'])` on the region / table being filled -/
theorem addType_step {σ τ : Store} {n : Nat} {C : Cls} (F : Filling σ τ n C) (ts : List String) :
    ∃ τ', Runs τ (addTypeOp n ts) τ' ∧ Filling σ τ' n C ∧ τ'.size = τ.size := by
  unfold addTypeOp
  split
  · exact ⟨τ, Runs.nil τ, F, rfl⟩
  · have hp : Pre τ (.addType n ts) = true :=
      pre_noKids (Or.inl ⟨_, _, rfl⟩) (fun x hx => by simp [Op.refs] at hx; subst hx; exact F.size)
    obtain ⟨τ', R, g', S⟩ := post_same F.good hp rfl
      (fun σ' o h => size_step_simple (Or.inr (Or.inr (Or.inr (Or.inr (Or.inl ⟨_, _, rfl⟩))))) h)
    refine ⟨τ', R, ⟨g', F.hn, by rw [S.size]; exact F.size, ?_, S.frame _ F.free, F.frame.trans S.frame, ?_⟩, S.size⟩
    · rw [S.cls n F.size]; exact F.cls
    · intro k hk
      rw [S.cls k (by have := F.size; have := F.hn; omega)]; exact F.keep k hk

/-- the empty constructor call that starts a region / table -/
theorem start_filling (kind : Cls) (hk : kind ≠ .scan) (hrow : kind ≠ .row) (a : Args) {σ : Store} (g : Good σ) :
    ∃ τ, Runs σ [mkOp kind a []] τ ∧ Filling σ τ σ.size kind ∧ τ.size = σ.size + 1 := by
  have L : ListOut σ σ [] σ.size :=
    ⟨g, rfl, Nat.le_refl _, Frame.rfl' σ, fun _ _ => rfl, fun _ h => by cases h⟩
  obtain ⟨τ, R, N⟩ := node_step false kind a L (fun e => absurd e hrow)
  have hpost : postOps false kind σ.size [] = [] := by
    simp [postOps, hrow]
  rw [hpost, List.append_nil] at R
  exact ⟨τ, R, ⟨N.good, rfl, by rw [N.size]; omega, N.cls, N.free hk, N.frame, N.keep⟩, N.size⟩

/-- building a list of subtrees bottom-up while `n` is being filled, then attaching them -/
theorem fill_trees {mk : Nat → List Nat → Op} (hmk : IsAttach mk) (C D : Cls) (hC : C ≠ .scan) (hD : D ≠ .scan)
    {σ τ : Store} {n : Nat} (F : Filling σ τ n C) (trees : List JTree) (hv : JTree.validL trees = true) (skip : Bool) :
    ∃ τ', Runs τ ((JTree.histL false trees τ.size).1 ++
        (if skip then [] else [mk n (slot (JTree.histL false trees τ.size).2.1 (isCls D))])) τ'
      ∧ Filling σ τ' n C ∧ τ'.size = (JTree.histL false trees τ.size).2.2 := by
  obtain ⟨τ₁, R₁, L⟩ := jtreeL_spec false trees τ F.good hv
  generalize JTree.histL false trees τ.size = x at R₁ L ⊢
  obtain ⟨ops, ks, next⟩ := x
  simp only at R₁ L ⊢
  have F₁ : Filling σ τ₁ n C :=
    ⟨L.good, F.hn, by have := L.ge; have := L.size; have := F.size; omega,
     by rw [L.keep n F.size]; exact F.cls, L.frame _ F.free, F.frame.trans L.frame,
     fun k hk => by rw [L.keep k (by have := F.size; have := F.hn; omega)]; exact F.keep k hk⟩
  cases skip with
  | true => exact ⟨τ₁, by simpa using R₁, F₁, L.size⟩
  | false =>
    simp only [Bool.false_eq_true, if_false]
    obtain ⟨τ₂, R₂, F₂, hs⟩ := attach_step hmk hC F₁ (cs := slot ks (isCls D)) (fun c hc => by
      obtain ⟨k, hk, e, hp⟩ := mem_slot hc
      have hkd : k.1 = D := by simpa [isCls] using hp
      obtain ⟨h1, _, h3⟩ := L.kids k hk
      exact ⟨e ▸ h3 (by rw [hkd]; exact hD), by have := F.size; omega⟩)
    exact ⟨τ₂, R₁.append R₂, F₂, by rw [hs]; exact L.size⟩

/-- what parsing a list of text regions leaves behind -/
structure RListOut (σ σ' : Store) (ns : List Nat) (next : Nat) (C : Cls) : Prop where
  good : Good σ'
  size : σ'.size = next
  ge : σ.size ≤ next
  frame : Frame σ σ'
  keep : ∀ k, k < σ.size → clsOf σ' k = clsOf σ k
  kids : ∀ m ∈ ns, σ.size ≤ m ∧ clsOf σ' m = some C ∧ FreeKid σ' m

theorem Filling.out {σ τ : Store} {n : Nat} {C : Cls} (F : Filling σ τ n C) :
    Good τ ∧ σ.size ≤ τ.size ∧ Frame σ τ ∧ (∀ k, k < σ.size → clsOf τ k = clsOf σ k) ∧ clsOf τ n = some C ∧ FreeKid τ n :=
  ⟨F.good, by have := F.size; have := F.hn; omega, F.frame, F.keep, F.cls, F.free⟩

mutual
theorem pregion_spec : ∀ (r : PRegion) (σ : Store), Good σ → r.valid = true →
    ∃ σ', Runs σ (r.hist σ.size).1 σ' ∧ Filling σ σ' (r.hist σ.size).2.1 .region ∧ σ'.size = (r.hist σ.size).2.2
  | .mk a addT lf lines regions, σ, g, hv => by
    simp only [PRegion.valid, Bool.and_eq_true] at hv
    obtain ⟨τ₀, R₀, F₀, hs₀⟩ := start_filling .region (by decide) (by decide) a g
    obtain ⟨τ₁, R₁, F₁, hs₁⟩ := addType_step F₀ addT
    have hb : τ₁.size = σ.size + 1 := by rw [hs₁, hs₀]
    have e0 : mkOp .region a [] = Op.mkRegion false a [] [] [] := rfl
    rw [e0] at R₀
    cases lf with
    | true =>
      obtain ⟨τ₂, R₂, F₂, hs₂⟩ := fill_trees isAttach_lines .region .line (by decide) (by decide) F₁ lines hv.1 lines.isEmpty
      obtain ⟨τ₃, R₃, L₃⟩ := pregionL_spec regions τ₂ F₂.good hv.2
      rw [hb] at R₂ hs₂
      rw [hs₂] at R₃ L₃
      simp only [PRegion.hist, if_true]
      generalize JTree.histL false lines (σ.size + 1) = x at R₂ hs₂ R₃ L₃ ⊢
      obtain ⟨lo, lks, b1⟩ := x
      simp only at R₂ hs₂ R₃ L₃ ⊢
      generalize PRegion.histL regions b1 = y at R₃ L₃ ⊢
      obtain ⟨ro, rids, b2⟩ := y
      simp only at R₃ L₃ ⊢
      have F₃ : Filling σ τ₃ σ.size .region :=
        ⟨L₃.good, rfl, by have := L₃.ge; have := L₃.size; have := F₂.size; omega,
         by rw [L₃.keep _ F₂.size]; exact F₂.cls, L₃.frame _ F₂.free, F₂.frame.trans L₃.frame,
         fun k hk => by rw [L₃.keep k (by have := F₂.size; omega)]; exact F₂.keep k hk⟩
      have hattL : attachL σ.size lines lks = (if lines.isEmpty then [] else [Op.attachLines σ.size (slot lks (isCls .line))]) := rfl
      by_cases hre : regions.isEmpty = true
      · simp only [hre, if_true, List.append_nil]
        refine ⟨τ₃, ?_, F₃, L₃.size⟩
        have := ((R₀.append R₁).append R₂).append R₃
        simpa [hattL, List.append_assoc] using this
      · simp only [hre, Bool.false_eq_true, if_false]
        obtain ⟨τ₄, R₄, F₄, hs₄⟩ := attach_step isAttach_regions (by decide) F₃ (cs := rids) (fun c hc => by
          obtain ⟨h1, _, h3⟩ := L₃.kids c hc
          exact ⟨h3, by have := F₂.size; omega⟩)
        refine ⟨τ₄, ?_, F₄, by rw [hs₄]; exact L₃.size⟩
        have := (((R₀.append R₁).append R₂).append R₃).append R₄
        simpa [hattL, List.append_assoc] using this
    | false =>
      obtain ⟨τ₂, R₂, L₂⟩ := pregionL_spec regions τ₁ F₁.good hv.2
      rw [hb] at R₂ L₂
      simp only [PRegion.hist, Bool.false_eq_true, if_false]
      generalize PRegion.histL regions (σ.size + 1) = y at R₂ L₂ ⊢
      obtain ⟨ro, rids, b1⟩ := y
      simp only at R₂ L₂ ⊢
      have F₂ : Filling σ τ₂ σ.size .region :=
        ⟨L₂.good, rfl, by have := L₂.ge; have := L₂.size; have := F₁.size; omega,
         by rw [L₂.keep _ F₁.size]; exact F₁.cls, L₂.frame _ F₁.free, F₁.frame.trans L₂.frame,
         fun k hk => by rw [L₂.keep k (by have := F₁.size; omega)]; exact F₁.keep k hk⟩
      have step3 : ∃ τ₃, Runs τ₂ (if regions.isEmpty then [] else [Op.attachRegions σ.size rids]) τ₃ ∧
          Filling σ τ₃ σ.size .region ∧ τ₃.size = b1 := by
        by_cases hre : regions.isEmpty = true
        · simp only [hre, if_true]; exact ⟨τ₂, Runs.nil _, F₂, L₂.size⟩
        · simp only [hre, Bool.false_eq_true, if_false]
          obtain ⟨τ₃, R₃, F₃, hs₃⟩ := attach_step isAttach_regions (by decide) F₂ (cs := rids) (fun c hc => by
            obtain ⟨h1, _, h3⟩ := L₂.kids c hc
            exact ⟨h3, by have := F₁.size; omega⟩)
          exact ⟨τ₃, R₃, F₃, by rw [hs₃]; exact L₂.size⟩
      obtain ⟨τ₃, R₃, F₃, hs₃⟩ := step3
      obtain ⟨τ₄, R₄, F₄, hs₄⟩ := fill_trees isAttach_lines .region .line (by decide) (by decide) F₃ lines hv.1 lines.isEmpty
      rw [hs₃] at R₄ hs₄
      generalize JTree.histL false lines b1 = x at R₄ hs₄ ⊢
      obtain ⟨lo, lks, b2⟩ := x
      simp only at R₄ hs₄ ⊢
      have hattL : attachL σ.size lines lks = (if lines.isEmpty then [] else [Op.attachLines σ.size (slot lks (isCls .line))]) := rfl
      refine ⟨τ₄, ?_, F₄, hs₄⟩
      have := (((R₀.append R₁).append R₂).append R₃).append R₄
      simpa [hattL, List.append_assoc] using this
theorem pregionL_spec : ∀ (rs : List PRegion) (σ : Store), Good σ → PRegion.validL rs = true →
    ∃ σ', Runs σ (PRegion.histL rs σ.size).1 σ' ∧
      RListOut σ σ' (PRegion.histL rs σ.size).2.1 (PRegion.histL rs σ.size).2.2 .region
  | [], σ, g, _ => ⟨σ, Runs.nil σ, g, rfl, Nat.le_refl _, Frame.rfl' σ, fun _ _ => rfl, fun _ h => by cases h⟩
  | r :: rs, σ, g, hv => by
    simp only [PRegion.validL, Bool.and_eq_true] at hv
    obtain ⟨σ₁, R₁, F, hs₁⟩ := pregion_spec r σ g hv.1
    obtain ⟨σ₂, R₂, L⟩ := pregionL_spec rs σ₁ F.good hv.2
    rw [hs₁] at R₂ L
    simp only [PRegion.histL]
    generalize r.hist σ.size = y at R₁ F hs₁ R₂ L ⊢
    obtain ⟨o1, n, b1⟩ := y
    simp only at R₁ F hs₁ R₂ L ⊢
    generalize PRegion.histL rs b1 = x at R₂ L ⊢
    obtain ⟨o2, ns, b2⟩ := x
    simp only at R₂ L ⊢
    have h1 := F.size
    have h2 := F.hn
    have h3 := L.ge
    refine ⟨σ₂, R₁.append R₂, L.good, L.size, by omega, F.frame.trans L.frame,
      fun k hk => (L.keep k (by omega)).trans (F.keep k hk), ?_⟩
    intro m hm
    rcases List.mem_cons.mp hm with rfl | hm
    · exact ⟨by omega, by rw [L.keep m h1]; exact F.cls, L.frame _ F.free⟩
    · obtain ⟨a1, a2, a3⟩ := L.kids m hm
      exact ⟨by omega, a2, a3⟩
end

theorem ptable_spec (t : PTable) (σ : Store) (g : Good σ) (hv : JTree.validL t.rows = true) :
    ∃ σ', Runs σ (t.hist σ.size).1 σ' ∧ Filling σ σ' (t.hist σ.size).2.1 .table ∧ σ'.size = (t.hist σ.size).2.2 := by
  obtain ⟨τ₀, R₀, F₀, hs₀⟩ := start_filling .table (by decide) (by decide) t.a g
  obtain ⟨τ₁, R₁, F₁, hs₁⟩ := addType_step F₀ t.addT
  have hb : τ₁.size = σ.size + 1 := by rw [hs₁, hs₀]
  have e0 : mkOp .table t.a [] = Op.mkTable t.a [] := rfl
  rw [e0] at R₀
  obtain ⟨τ₂, R₂, F₂, hs₂⟩ := fill_trees isAttach_rows .table .row (by decide) (by decide) F₁ t.rows hv false
  rw [hb] at R₂ hs₂
  simp only [PTable.hist]
  generalize JTree.histL false t.rows (σ.size + 1) = x at R₂ hs₂ ⊢
  obtain ⟨ro, rks, b1⟩ := x
  simp only [Bool.false_eq_true, if_false] at R₂ hs₂ ⊢
  refine ⟨τ₂, ?_, F₂, hs₂⟩
  have := (R₀.append R₁).append R₂
  simpa [List.append_assoc] using this

theorem ptableL_spec : ∀ (ts : List PTable) (σ : Store), Good σ → ts.all (fun t => JTree.validL t.rows) = true →
    ∃ σ', Runs σ (PTable.histL ts σ.size).1 σ' ∧
      RListOut σ σ' (PTable.histL ts σ.size).2.1 (PTable.histL ts σ.size).2.2 .table
  | [], σ, g, _ => ⟨σ, Runs.nil σ, g, rfl, Nat.le_refl _, Frame.rfl' σ, fun _ _ => rfl, fun _ h => by cases h⟩
  | t :: ts, σ, g, hv => by
    simp only [List.all_cons, Bool.and_eq_true] at hv
    obtain ⟨σ₁, R₁, F, hs₁⟩ := ptable_spec t σ g hv.1
    obtain ⟨σ₂, R₂, L⟩ := ptableL_spec ts σ₁ F.good hv.2
    rw [hs₁] at R₂ L
    simp only [PTable.histL]
    generalize t.hist σ.size = y at R₁ F hs₁ R₂ L ⊢
    obtain ⟨o1, n, b1⟩ := y
    simp only at R₁ F hs₁ R₂ L ⊢
    generalize PTable.histL ts b1 = x at R₂ L ⊢
    obtain ⟨o2, ns, b2⟩ := x
    simp only at R₂ L ⊢
    have h1 := F.size
    have h2 := F.hn
    have h3 := L.ge
    refine ⟨σ₂, R₁.append R₂, L.good, L.size, by omega, F.frame.trans L.frame,
      fun k hk => (L.keep k (by omega)).trans (F.keep k hk), ?_⟩
    intro m hm
    rcases List.mem_cons.mp hm with rfl | hm
    · exact ⟨by omega, by rw [L.keep m h1]; exact F.cls, L.frame _ F.free⟩
    · obtain ⟨a1, a2, a3⟩ := L.kids m hm
      exact ⟨by omega, a2, a3⟩

/-- **parse_pagexml_json**: the whole parser history is disciplined and total; it ends in a store
    satisfying the invariants, with the scan as its last object -/
theorem pscan_spec (s : PScan) (σ : Store) (g : Good σ) (hv : s.valid = true) :
    ∃ σ', Runs σ (s.hist σ.size).1 σ' ∧ Good σ' ∧ clsOf σ' (s.hist σ.size).2 = some .scan
      ∧ σ'.size = (s.hist σ.size).2 + 1 := by
  simp only [PScan.valid, Bool.and_eq_true] at hv
  obtain ⟨σ₁, R₁, L₁⟩ := pregionL_spec s.regions σ g hv.1
  obtain ⟨σ₂, R₂, L₂⟩ := ptableL_spec s.tables σ₁ L₁.good hv.2
  rw [L₁.size] at R₂ L₂
  simp only [PScan.hist]
  generalize PRegion.histL s.regions σ.size = y at R₁ L₁ R₂ L₂ ⊢
  obtain ⟨ro, rids, b1⟩ := y
  simp only at R₁ L₁ R₂ L₂ ⊢
  generalize PTable.histL s.tables b1 = x at R₂ L₂ ⊢
  obtain ⟨to, tids, b2⟩ := x
  simp only at R₂ L₂ ⊢
  -- the scan constructor
  have hfree : ∀ c ∈ (Op.mkScan s.a [] rids tids [] []).newKids, FreeKid σ₂ c := by
    intro c hc
    simp only [Op.newKids, List.nil_append, List.append_nil, List.mem_append] at hc
    rcases hc with hc | hc
    · exact L₂.frame _ (L₁.kids c hc).2.2
    · exact (L₂.kids c hc).2.2
  have hpre : Pre σ₂ (.mkScan s.a [] rids tids [] []) = true := by
    simp only [Pre, Op.refs, Bool.and_eq_true, List.all_eq_true]
    refine ⟨fun c hc => (hfree c (by simpa [Op.newKids] using hc)).bools.1, fun c hc => ?_⟩
    exact ⟨(hfree c hc).bools.2.1, (hfree c hc).bools.2.2⟩
  obtain ⟨σ₃, o, hs, g₃, A⟩ := good_step L₂.good hpre
  have F := fresh_mkScan s.a [] rids tids [] [] (by
    have hrefs := step_refs hs
    unfold step at hs
    rw [hrefs] at hs
    simpa using hs)
  have hF1 : σ₃.size = b2 + 1 := by rw [F.size, L₂.size]
  have hF2 : clsOf σ₃ b2 = some .scan := by rw [← L₂.size]; exact F.cls
  have hp2 : Pre σ₃ (.setFilename b2 s.file) = true :=
    pre_noKids (Or.inr ⟨_, _, rfl⟩) (fun x hx => by
      simp [Op.refs] at hx; subst hx; rw [hF1]; omega)
  obtain ⟨σ₄, R₄, g₄, S⟩ := post_same g₃ hp2 rfl
    (fun σ' o h => size_step_simple (Or.inr (Or.inr (Or.inr (Or.inr (Or.inr ⟨_, _, rfl⟩))))) h)
  refine ⟨σ₄, ?_, g₄, ?_, by rw [S.size]; exact hF1⟩
  · have R₃ : Runs σ₂ [Op.mkScan s.a [] rids tids [] []] σ₃ := Runs.cons hs hpre (Runs.nil _)
    have := ((R₁.append R₂).append R₃).append R₄
    simpa [List.append_assoc] using this
  · rw [S.cls b2 (by rw [hF1]; omega)]; exact hF2

end Pagexml.C02
