/-
Traversals of the nested region tree: for documents in which every region holds either
lines or sub-regions, the written regions list every line of the document exactly once, in
document order — so line and word counts of the rebuilt document equal the original ones.
-/
import PagexmlModel.Lemmas.C14Routes

namespace Pagexml.C14

mutual
/-- every region of the tree holds lines or sub-regions, not both -/
def Region.eitherOr : Region → Bool
  | .mk _ _ lines subs => (lines.isEmpty || subs.isEmpty) && eitherOrL subs
def eitherOrL : List Region → Bool
  | [] => true
  | r :: rs => r.eitherOr && eitherOrL rs
end

theorem allLinesL_eq (rs : List Region) : allLinesL rs = rs.flatMap Region.allLines := by
  induction rs with
  | nil => rfl
  | cons r rs ih => simp [allLinesL, ih]

mutual
theorem inner_lines : ∀ (r : Region), r.eitherOr = true → r.inner.flatMap Region.allLines = r.allLines
  | .mk i b lines subs, h => by
    simp only [Region.eitherOr, Bool.and_eq_true, Bool.or_eq_true] at h
    have hsub := innerL_lines subs h.2
    simp only [Region.inner, Region.allLines, List.flatMap_append, hsub]
    congr 1
    cases subs with
    | nil => cases lines <;> simp [Region.allLines, allLinesL]
    | cons s ss =>
      rcases h.1 with hl | hs
      · simp [List.isEmpty_iff.mp hl]
      · simp at hs
theorem innerL_lines : ∀ (rs : List Region), eitherOrL rs = true →
    (innerL rs).flatMap Region.allLines = allLinesL rs
  | [], _ => rfl
  | r :: rs, h => by
    simp only [eitherOrL, Bool.and_eq_true] at h
    have h1 := inner_lines r h.1
    have h2 := innerL_lines rs h.2
    simp only [innerL, allLinesL, List.flatMap_append, h2]
    congr 1
    cases r with
    | mk i b lines subs =>
      cases subs with
      | cons s ss => simpa [Region.subs] using h1
      | nil => cases lines <;> simp [Region.subs, Region.lines, Region.allLines, allLinesL]
end

theorem writtenRegions_lines (outer : Bool) (d : Region) (h : d.eitherOr = true) :
    (writtenRegions outer d).flatMap Region.allLines = d.allLines := by
  unfold writtenRegions
  split
  · simp
  · rename_i hc
    cases outer with
    | false => simpa using inner_lines d h
    | true =>
      simp only [if_true]
      cases d with
      | mk i b lines subs =>
        simp only [Region.subs, Region.allLines, ← allLinesL_eq]
        simp only [Region.eitherOr, Bool.and_eq_true, Bool.or_eq_true] at h
        cases subs with
        | cons s ss =>
          rcases h.1 with hl | hs
          · simp [List.isEmpty_iff.mp hl]
          · simp at hs
        | nil =>
          simp only [Region.subs, Region.allLines, allLinesL, List.length_nil, List.nil_append] at hc
          have : lines = [] := by
            cases lines with
            | nil => rfl
            | cons l ls => simp at hc
          simp [this, allLinesL]

theorem lineRegions_lines (outer : Bool) (d : Region) (h : d.eitherOr = true) :
    (lineRegions outer d).flatMap Region.allLines = d.allLines := by
  unfold lineRegions
  rw [flatMap_filter_nonempty (writtenRegions outer d) Region.allLines]
  exact writtenRegions_lines outer d h

theorem sum_map_flatMap {α β} (l : List α) (f : α → List β) (g : β → Nat) :
    ((l.flatMap f).map g).sum = (l.map (fun a => ((f a).map g).sum)).sum := by
  induction l with
  | nil => rfl
  | cons a as ih => simp [List.flatMap_cons, ih]

theorem length_flatMap' {α β} (l : List α) (f : α → List β) :
    (l.flatMap f).length = (l.map (fun a => (f a).length)).sum := by
  induction l with
  | nil => rfl
  | cons a as ih => simp [List.flatMap_cons, ih]

/-- the rebuilt document has as many lines and words as the records written for it … -/
theorem expDoc_counts (outer : Bool) (d : Region) :
    (expDoc (planDoc outer d)).numLines = ((lineRegions outer d).flatMap Region.allLines).length ∧
    (expDoc (planDoc outer d)).numWords =
      (((lineRegions outer d).flatMap Region.allLines).map (fun l => wordCount (l.text.getD []))).sum := by
  constructor
  · rw [length_flatMap']
    simp [RDoc.numLines, expDoc, planDoc, expRegion, toRItem, List.map_map, Function.comp_def]
  · rw [sum_map_flatMap]
    simp [RDoc.numWords, expDoc, planDoc, expRegion, toRItem, expLine, toLItem, List.map_map, Function.comp_def]

/-! ### cleanliness of a whole document tree -/

def Line.strings (l : Line) : List Str := l.id :: l.text.toList

mutual
/-- every id and text below (and including) a region -/
def Region.allStrings : Region → List Str
  | .mk i _ lines subs => i :: lines.flatMap Line.strings ++ allStringsL subs
def allStringsL : List Region → List Str
  | [] => []
  | r :: rs => r.allStrings ++ allStringsL rs
end

theorem id_mem_allStrings (r : Region) : r.id ∈ r.allStrings := by
  cases r; simp [Region.id, Region.allStrings]

theorem allStringsL_mem {rs : List Region} {r : Region} (h : r ∈ rs) :
    ∀ s ∈ r.allStrings, s ∈ allStringsL rs := by
  induction rs with
  | nil => simp at h
  | cons a as ih =>
    intro s hs
    simp only [allStringsL, List.mem_append]
    rcases List.mem_cons.mp h with rfl | h
    · exact Or.inl hs
    · exact Or.inr (ih h s hs)

mutual
theorem allLines_strings : ∀ (r : Region) (l : Line), l ∈ r.allLines → ∀ s ∈ l.strings, s ∈ r.allStrings
  | .mk i b lines subs, l, hl, s, hs => by
    simp only [Region.allLines, List.mem_append] at hl
    simp only [Region.allStrings, List.mem_cons, List.mem_append, List.mem_flatMap]
    rcases hl with hl | hl
    · exact Or.inr (allLinesL_strings subs l hl s hs)
    · exact Or.inl (Or.inr ⟨l, hl, hs⟩)
theorem allLinesL_strings : ∀ (rs : List Region) (l : Line), l ∈ allLinesL rs → ∀ s ∈ l.strings, s ∈ allStringsL rs
  | [], l, hl, s, hs => by simp [allLinesL] at hl
  | r :: rs, l, hl, s, hs => by
    simp only [allLinesL, List.mem_append] at hl
    simp only [allStringsL, List.mem_append]
    rcases hl with hl | hl
    · exact Or.inl (allLines_strings r l hl s hs)
    · exact Or.inr (allLinesL_strings rs l hl s hs)
end

mutual
theorem inner_strings : ∀ (r tr : Region), tr ∈ r.inner → ∀ s ∈ tr.allStrings, s ∈ r.allStrings
  | .mk i b lines subs, tr, htr, s, hs => by
    simp only [Region.inner, List.mem_append] at htr
    rcases htr with htr | htr
    · have := innerL_strings subs tr htr s hs
      simp only [Region.allStrings, List.mem_cons, List.mem_append]
      exact Or.inr this
    · split at htr
      · simp only [List.mem_cons, List.not_mem_nil, or_false] at htr
        subst htr; exact hs
      · simp at htr
theorem innerL_strings : ∀ (rs : List Region) (tr : Region), tr ∈ innerL rs → ∀ s ∈ tr.allStrings, s ∈ allStringsL rs
  | [], tr, htr, s, hs => by simp [innerL] at htr
  | r :: rs, tr, htr, s, hs => by
    simp only [innerL, List.mem_append] at htr
    simp only [allStringsL, List.mem_append]
    rcases htr with htr | htr
    · left
      split at htr
      · exact inner_strings r tr htr s hs
      · split at htr
        · simp only [List.mem_cons, List.not_mem_nil, or_false] at htr
          subst htr; exact hs
        · simp at htr
    · exact Or.inr (innerL_strings rs tr htr s hs)
end

/-- all ids and texts of the document tree are free of tab, CR and LF -/
def Region.AllClean (d : Region) : Prop := ∀ s ∈ d.allStrings, CleanStr s

theorem writtenRegions_strings (outer : Bool) (d tr : Region) (h : tr ∈ writtenRegions outer d) :
    ∀ s ∈ tr.allStrings, s ∈ d.allStrings := by
  unfold writtenRegions at h
  split at h
  · simp only [List.mem_cons, List.not_mem_nil, or_false] at h; subst h; exact fun s hs => hs
  · cases outer with
    | false => exact inner_strings d tr (by simpa using h)
    | true =>
      simp only [if_true] at h
      cases d with
      | mk i b lines subs =>
        intro s hs
        simp only [Region.allStrings, List.mem_cons, List.mem_append]
        exact Or.inr (allStringsL_mem h s hs)

theorem cleanDoc_of_allClean (outer : Bool) (d : Region) (h : d.AllClean) : CleanDoc outer d := by
  refine ⟨h _ (id_mem_allStrings d), fun tr htr => ?_⟩
  have hsub := writtenRegions_strings outer d tr htr
  refine ⟨h _ (hsub _ (id_mem_allStrings tr)), fun l hl => ?_⟩
  have hl' := allLines_strings tr l hl
  refine ⟨h _ (hsub _ (hl' _ (by simp [Line.strings]))), fun t ht => ?_⟩
  exact h _ (hsub _ (hl' _ (by simp [Line.strings, ht])))

end Pagexml.C14
