/-
Helper lemmas for the walk over the hull's edge dict (`edges_to_hull_points`).
-/
import PagexmlModel.Model.C09
import PagexmlModel.Lemmas.C09Cert

namespace Pagexml.C09
open Pagexml.C03 (Pt)

/-- `c`'s neighbours are `p` and `x`, in either insertion order -/
def Nb (e : Edges) (p c x : Pt) : Prop := nbrs e c = [p, x] ∨ nbrs e c = [x, p]

/-- coming from `p`, standing at `c`, the rest of the route is `rem`: every node on the route has
    exactly its predecessor and its successor as neighbours -/
inductive Path (e : Edges) : Pt → Pt → List Pt → Prop
  | nil (p c : Pt) : Path e p c []
  | cons (p c x : Pt) (rest : List Pt) : Nb e p c x → Path e c x rest → Path e p c (x :: rest)

theorem firstNew_pair (e : Edges) (p c x : Pt) (vis : List Pt) (h : Nb e p c x)
    (hp : p ∈ vis) (hx : x ∉ vis) : firstNew (nbrs e c) vis = some x := by
  rcases h with h | h <;> simp [firstNew, h, List.find?, hp, hx]

theorem walk_done (e : Edges) (n fuel : Nat) (vis : List Pt) (c : Pt) (h : n ≤ vis.length) :
    walk e n fuel vis c = .ok vis := by
  cases fuel <;> simp [walk, h]

theorem walk_path (e : Edges) (n : Nat) (rem : List Pt) :
    ∀ (vis : List Pt) (p c : Pt) (fuel : Nat), Path e p c rem → p ∈ vis → c ∈ vis →
      (vis ++ rem).Nodup → (vis ++ rem).length = n → rem.length ≤ fuel →
      walk e n fuel vis c = .ok (vis ++ rem) := by
  induction rem with
  | nil =>
    intro vis p c fuel _ _ _ _ hl _
    simp only [List.append_nil] at hl ⊢
    exact walk_done e n fuel vis c (by omega)
  | cons x rest ih =>
    intro vis p c fuel hpath hp hc hnd hl hf
    cases hpath with
    | cons _ _ _ _ hnb hrest =>
      have hx : x ∉ vis := by
        intro hx
        have := List.nodup_append.mp hnd
        exact this.2.2 x hx x (by simp) rfl
      have hlt : ¬ n ≤ vis.length := by
        simp only [List.length_append, List.length_cons] at hl; omega
      cases fuel with
      | zero => simp at hf
      | succ f =>
        have hfn := firstNew_pair e p c x vis hnb hp hx
        simp only [walk, hlt, if_false, hfn]
        have := ih (vis ++ [x]) c x f hrest (by simp [hc]) (by simp)
          (by simpa using hnd) (by simpa using hl) (by simpa using hf)
        simpa using this

/-! ### from the cyclic-triple check to a path -/

/-- consecutive triples of an open chain -/
def ltriples : List Pt → List (Pt × Pt × Pt)
  | a :: b :: c :: r => (a, b, c) :: ltriples (b :: c :: r)
  | _ => []

theorem ltriples_sub (d s1 s2 : List Pt) :
    ∀ t ∈ ltriples d, t ∈ d.zip ((d.tail ++ s1).zip (d.tail.tail ++ s2)) := by
  induction d with
  | nil => intro t h; simp [ltriples] at h
  | cons a d ih =>
    cases d with
    | nil => intro t h; simp [ltriples] at h
    | cons b d =>
      cases d with
      | nil => intro t h; simp [ltriples] at h
      | cons c r =>
        intro t h
        simp only [ltriples, List.mem_cons] at h
        rcases h with rfl | h
        · simp
        · have := ih t h
          simp only [List.tail_cons, List.cons_append, List.zip_cons_cons, List.mem_cons] at this ⊢
          exact Or.inr this

theorem ltriples_sub_ctriples (a b : Pt) (r : List Pt) :
    ∀ t ∈ ltriples (a :: b :: r), t ∈ ctriples (a :: b :: r) := by
  intro t h
  have := ltriples_sub (a :: b :: r) [a] [a, b] t h
  simpa [ctriples, rot1] using this

theorem path_of_ltriples (e : Edges) (r : List Pt) :
    ∀ (a b : Pt), (∀ t ∈ ltriples (a :: b :: r), Nb e t.1 t.2.1 t.2.2) → Path e a b r := by
  induction r with
  | nil => intro a b _; exact Path.nil a b
  | cons c r ih =>
    intro a b h
    refine Path.cons a b c r (h (a, b, c) (by simp [ltriples])) (ih b c ?_)
    intro t ht
    exact h t (by simp only [ltriples, List.mem_cons]; exact Or.inr ht)

/-! ### the smallest key -/

theorem ptLt_irrefl (a : Pt) : ptLt a a = false := by simp [ptLt]

theorem ptLt_total (a b : Pt) (h1 : ptLt a b = false) (h2 : ptLt b a = false) : a = b := by
  simp only [ptLt, Bool.or_eq_false_iff, Bool.and_eq_false_iff, decide_eq_false_iff_not, decide_eq_true_eq] at h1 h2
  have : a.1 = b.1 := by omega
  have : a.2 = b.2 := by omega
  exact Prod.ext ‹_› ‹_›

theorem ptLt_trans (a b c : Pt) (h1 : ptLt a b = true) (h2 : ptLt b c = true) : ptLt a c = true := by
  simp only [ptLt, Bool.or_eq_true, Bool.and_eq_true, decide_eq_true_eq] at h1 h2 ⊢
  omega

theorem minPt_spec (k : Pt) (ks : List Pt) :
    minPt k ks ∈ k :: ks ∧ ∀ q ∈ k :: ks, ptLt q (minPt k ks) = false := by
  unfold minPt
  induction ks generalizing k with
  | nil => simp [ptLt_irrefl]
  | cons a ks ih =>
    simp only [List.foldl_cons]
    by_cases h : ptLt a k = true
    · simp only [h, if_true]
      obtain ⟨h1, h2⟩ := ih a
      refine ⟨by simp only [List.mem_cons] at h1 ⊢; tauto, ?_⟩
      intro q hq
      simp only [List.mem_cons] at hq
      rcases hq with rfl | rfl | hq
      · -- q = k: if k < min then a < k < min contradicts a ≥ min
        by_contra hc
        have hc' : ptLt q (List.foldl (fun m p => if ptLt p m = true then p else m) a ks) = true := by
          simpa using hc
        have := ptLt_trans _ _ _ h hc'
        rw [h2 a (by simp)] at this
        cases this
      · exact h2 q (by simp)
      · exact h2 q (by simp [hq])
    · simp only [h]
      obtain ⟨h1, h2⟩ := ih k
      refine ⟨by simp only [List.mem_cons] at h1 ⊢; tauto, ?_⟩
      intro q hq
      simp only [List.mem_cons] at hq
      rcases hq with rfl | rfl | hq
      · exact h2 q (by simp)
      · -- q = a, not a < k
        by_contra hc
        have hc' : ptLt q (List.foldl (fun m p => if ptLt p m = true then p else m) k ks) = true := by
          simpa using hc
        -- min ≤ k, so a < min ≤ k gives a < k or a < k
        have hk := h2 k (by simp)
        by_cases hmk : ptLt (List.foldl (fun m p => if ptLt p m = true then p else m) k ks) k = true
        · exact h (ptLt_trans _ _ _ hc' hmk)
        · have : List.foldl (fun m p => if ptLt p m = true then p else m) k ks = k :=
            ptLt_total _ _ (by simpa using hmk) hk
          rw [this] at hc'
          exact h hc'
      · exact h2 q (by simp [hq])

theorem minPt_unique (k : Pt) (ks : List Pt) (m : Pt) (hm : m ∈ k :: ks)
    (hmin : ∀ q ∈ k :: ks, ptLt q m = false) : minPt k ks = m := by
  obtain ⟨h1, h2⟩ := minPt_spec k ks
  exact ptLt_total _ _ (hmin _ h1) (h2 _ hm)

end Pagexml.C09

namespace Pagexml.C09
open Pagexml.C03 (Pt)

/-! ### the cycle in the other direction -/

theorem ctriples_rot1 (l : List Pt) : ctriples (rot1 l) = rot1 (ctriples l) := by
  unfold ctriples
  rw [zip_rot1 (rot1 l) (rot1 (rot1 l)) (by simp [length_rot1]),
    zip_rot1 l _ (by simp [List.length_zip, length_rot1])]

theorem mem_ctriples_rot1 (l : List Pt) (t : Pt × Pt × Pt) : t ∈ ctriples (rot1 l) ↔ t ∈ ctriples l := by
  rw [ctriples_rot1, mem_rot1]

theorem ltriples_append_singleton (l : List Pt) (a b c : Pt) :
    ltriples (l ++ [a, b, c]) = ltriples (l ++ [a, b]) ++ [(a, b, c)] := by
  induction l with
  | nil => simp [ltriples]
  | cons x l ih =>
    cases l with
    | nil => simp [ltriples]
    | cons y l =>
      cases l with
      | nil => simp [ltriples]
      | cons z l =>
        simp only [List.cons_append, ltriples] at ih ⊢
        rw [ih]

theorem ltriples_reverse (l : List Pt) :
    ∀ t ∈ ltriples l.reverse, (t.2.2, t.2.1, t.1) ∈ ltriples l := by
  induction l with
  | nil => intro t h; simp [ltriples] at h
  | cons a l ih =>
    cases l with
    | nil => intro t h; simp [ltriples] at h
    | cons b l =>
      cases l with
      | nil => intro t h; simp [ltriples] at h
      | cons c l =>
        intro t h
        have e : (a :: b :: c :: l).reverse = l.reverse ++ [c, b, a] := by simp
        rw [e, ltriples_append_singleton] at h
        rcases List.mem_append.mp h with h | h
        · have e2 : l.reverse ++ [c, b] = (b :: c :: l).reverse := by simp
          rw [e2] at h
          have := ih t h
          simp only [ltriples, List.mem_cons]
          exact Or.inr this
        · simp only [List.mem_singleton] at h
          subst h
          simp [ltriples]

theorem zip3_last {α β γ} (A : List α) (a : α) (B : List β) (b : β) (C : List γ) (c : γ)
    (hAB : A.length = B.length) (hBC : B.length = C.length) :
    (a, b, c) ∈ (A ++ [a]).zip ((B ++ [b]).zip (C ++ [c])) := by
  rw [List.zip_append hBC, List.zip_append (by simp [List.length_zip, hAB, hBC])]
  simp

/-- the corner at the first vertex: (last, first, second) -/
theorem last_corner_mem (m x : Pt) (rest : List Pt) :
    (((x :: rest).getLast (by simp)), m, x) ∈ ctriples (m :: x :: rest) := by
  have e : (m :: (x :: rest).dropLast) ++ [(x :: rest).getLast (by simp)] = m :: x :: rest := by
    rw [List.cons_append, List.dropLast_concat_getLast]
  have key := zip3_last (m :: (x :: rest).dropLast) ((x :: rest).getLast (by simp)) (x :: rest) m
    (rest ++ [m]) x (by simp) (by simp)
  rw [e] at key
  exact key

end Pagexml.C09
