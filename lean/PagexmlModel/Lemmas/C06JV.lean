/-
C06: the region-like constructors keep documents JSON-valued (`jv`).
-/
import PagexmlModel.Lemmas.C06Scan

set_option linter.unusedSimpArgs false
set_option linter.unusedVariables false
set_option linter.unusedSectionVars false

namespace Pagexml.C06

theorem Region.jvL_of_mem : ∀ rs : List Region, (∀ r ∈ rs, r.jv = true) → Region.jvL rs = true
  | [], _ => rfl
  | r :: rs, h => by
    simp only [Region.jvL, Bool.and_eq_true]
    exact ⟨h r (by simp), Region.jvL_of_mem rs (fun x hx => h x (by simp [hx]))⟩

theorem Region.jvL_mem : ∀ rs : List Region, Region.jvL rs = true → ∀ r ∈ rs, r.jv = true
  | [], _ => by simp
  | r :: rs, h => by
    simp only [Region.jvL, Bool.and_eq_true] at h
    intro x hx
    rcases List.mem_cons.mp hx with rfl | hx
    · exact h.1
    · exact Region.jvL_mem rs h.2 x hx

theorem Region.jv_h (r : Region) (h : r.jv = true) : r.h.jv = true := by
  obtain ⟨hd, text, orientation, ro, roa, lines, regions, tables⟩ := r
  simp only [Region.jv, Bool.and_eq_true] at h
  exact h.1.1.1.1.1.1

theorem Region.jv_setParent (t : String) (i : PyVal) (r : Region) (hi : i.stable = true) (hr : r.jv = true) :
    (r.setParent t i).jv = true := by
  obtain ⟨h, text, orientation, ro, roa, lines, regions, tables⟩ := r
  simp only [Region.setParent, Region.jv, Bool.and_eq_true] at hr ⊢
  obtain ⟨⟨⟨⟨⟨⟨h1, h2⟩, h3⟩, h4⟩, h5⟩, h6⟩, h7⟩ := hr
  exact ⟨⟨⟨⟨⟨⟨Hdr.jv_setParent t i h hi h1, h2⟩, h3⟩, h4⟩, h5⟩, h6⟩, h7⟩

theorem Column.jv_setParent (t : String) (i : PyVal) (c : Column) (hi : i.stable = true) (hc : c.jv = true) :
    (c.setParent t i).jv = true := by
  simp only [Column.setParent, Column.jv, Bool.and_eq_true] at hc ⊢
  obtain ⟨⟨⟨⟨⟨⟨h1, h2⟩, h3⟩, h4⟩, h5⟩, h6⟩, h7⟩ := hc
  exact ⟨⟨⟨⟨⟨⟨Hdr.jv_setParent t i c.h hi h1, h2⟩, h3⟩, h4⟩, h5⟩, h6⟩, h7⟩

theorem Page.jv_setParent (t : String) (i : PyVal) (p : Page) (hi : i.stable = true) (hp : p.jv = true) :
    (p.setParent t i).jv = true := by
  simp only [Page.setParent, Page.jv, Bool.and_eq_true] at hp ⊢
  obtain ⟨⟨⟨⟨⟨⟨⟨h1, h2⟩, h3⟩, h4⟩, h5⟩, h6⟩, h7⟩, h8⟩ := hp
  exact ⟨⟨⟨⟨⟨⟨⟨Hdr.jv_setParent t i p.h hi h1, h2⟩, h3⟩, h4⟩, h5⟩, h6⟩, h7⟩, h8⟩

theorem lines_jv_parentage (t : String) (i : PyVal) (hi : i.stable = true) (ls : List Line)
    (h : ls.all Line.jv = true) :
    (ls.map (fun l => (l.setParent t i).setParentage)).all Line.jv = true := by
  simp only [List.all_map, List.all_eq_true, Function.comp] at h ⊢
  exact fun l hl => Line.jv_setParentage _ (Line.jv_setParent t i l hi (h l hl))

mutual
theorem Region.jv_setParentage : ∀ r : Region, r.jv = true → r.setParentage.jv = true
  | ⟨h, text, orientation, ro, roa, lines, regions, tables⟩, hr => by
    simp only [Region.jv, Bool.and_eq_true] at hr
    obtain ⟨⟨⟨⟨⟨⟨h1, h2⟩, h3⟩, h4⟩, h5⟩, h6⟩, h7⟩ := hr
    have hid : h.id.stable = true := by simp only [Hdr.jv, Bool.and_eq_true] at h1; exact h1.1
    simp only [Region.setParentage, Region.jv, Bool.and_eq_true]
    exact ⟨⟨⟨⟨⟨⟨h1, h2⟩, h3⟩, h4⟩, lines_jv_parentage _ _ hid lines h5⟩,
      Region.jvL_setParentage "text_region" h.id hid regions h6⟩, h7⟩
theorem Region.jvL_setParentage (t : String) (i : PyVal) (hi : i.stable = true) :
    ∀ rs : List Region, Region.jvL rs = true → Region.jvL (Region.setParentageL t i rs) = true
  | [], _ => rfl
  | r :: rs, h => by
    simp only [Region.jvL, Bool.and_eq_true] at h
    simp only [Region.setParentageL, Region.jvL, Bool.and_eq_true]
    exact ⟨Region.jv_setParent t i _ hi (Region.jv_setParentage r h.1), Region.jvL_setParentage t i hi rs h.2⟩
end

theorem Column.jv_setParentage (c : Column) (hc : c.jv = true) : c.setParentage.jv = true := by
  simp only [Column.jv, Bool.and_eq_true] at hc
  obtain ⟨⟨⟨⟨⟨⟨h1, h2⟩, h3⟩, h4⟩, h5⟩, h6⟩, h7⟩ := hc
  have hid : c.h.id.stable = true := by simp only [Hdr.jv, Bool.and_eq_true] at h1; exact h1.1
  simp only [Column.setParentage, Column.jv, Bool.and_eq_true]
  exact ⟨⟨⟨⟨⟨⟨h1, h2⟩, h3⟩, h4⟩, lines_jv_parentage _ _ hid c.lines h5⟩,
    Region.jvL_setParentage "column" c.h.id hid c.regions h6⟩, h7⟩

theorem Page.jv_setParentage (p : Page) (hp : p.jv = true) : p.setParentage.jv = true := by
  simp only [Page.jv, Bool.and_eq_true] at hp
  obtain ⟨⟨⟨⟨⟨⟨⟨h1, h2⟩, h3⟩, h4⟩, h5⟩, h6⟩, h7⟩, h8⟩ := hp
  have hid : p.h.id.stable = true := by simp only [Hdr.jv, Bool.and_eq_true] at h1; exact h1.1
  simp only [Page.setParentage, Page.jv, Bool.and_eq_true]
  refine ⟨⟨⟨⟨⟨⟨⟨h1, h2⟩, h3⟩, h4⟩, ?_⟩, Region.jvL_setParentage "page" p.h.id hid p.regions h6⟩, h7⟩, h8⟩
  simp only [List.all_map, List.all_eq_true, Function.comp] at h5 ⊢
  exact fun c hc => Column.jv_setParentage _ (Column.jv_setParent _ _ c hid (h5 c hc))

theorem Scan.jv_setParentage (s : Scan) (hs : s.jv = true) : s.setParentage.jv = true := by
  simp only [Scan.jv, Bool.and_eq_true] at hs
  obtain ⟨⟨⟨⟨⟨⟨⟨⟨h1, h2⟩, h3⟩, h4⟩, h5⟩, h6⟩, h7⟩, h8⟩, h9⟩ := hs
  have hid : s.h.id.stable = true := by simp only [Hdr.jv, Bool.and_eq_true] at h1; exact h1.1
  simp only [Scan.setParentage, Scan.jv, Bool.and_eq_true]
  refine ⟨⟨⟨⟨⟨⟨⟨⟨h1, h2⟩, h3⟩, h4⟩, ?_⟩, ?_⟩, Region.jvL_setParentage "scan" s.h.id hid s.regions h7⟩, h8⟩,
    lines_jv_parentage _ _ hid s.lines h9⟩
  · simp only [List.all_map, List.all_eq_true, Function.comp] at h5 ⊢
    exact fun p hp => Page.jv_setParentage _ (Page.jv_setParent _ _ p hid (h5 p hp))
  · simp only [List.all_map, List.all_eq_true, Function.comp] at h6 ⊢
    exact fun c hc => Column.jv_setParentage _ (Column.jv_setParent _ _ c hid (h6 c hc))

/-! ### `set_scan_id` -/

section mapAllJv
variable (f : Hdr → Hdr) (hf : ∀ h, h.jv = true → (f h).jv = true)
include hf

theorem Word.jv_mapAll (w : Word) (h : w.jv = true) : (w.mapAll f).jv = true := by
  simp only [Word.jv, Word.mapAll, Bool.and_eq_true] at h ⊢
  exact ⟨hf _ h.1, h.2⟩
theorem Line.jv_mapAll (l : Line) (h : l.jv = true) : (l.mapAll f).jv = true := by
  simp only [Line.jv, Line.mapAll, Bool.and_eq_true, List.all_map, List.all_eq_true, Function.comp] at h ⊢
  obtain ⟨⟨⟨⟨⟨h1, h2⟩, h3⟩, h4⟩, h5⟩, h6⟩ := h
  exact ⟨⟨⟨⟨⟨hf _ h1, h2⟩, h3⟩, h4⟩, h5⟩, fun w hw => Word.jv_mapAll f hf w (h6 w hw)⟩
theorem Cell.jv_mapAll (c : Cell) (h : c.jv = true) : (c.mapAll f).jv = true := by
  simp only [Cell.jv, Cell.mapAll, Bool.and_eq_true, List.all_map, List.all_eq_true, Function.comp] at h ⊢
  obtain ⟨⟨⟨⟨⟨⟨⟨h1, h2⟩, h3⟩, h4⟩, h5⟩, h6⟩, h7⟩, h8⟩ := h
  exact ⟨⟨⟨⟨⟨⟨⟨hf _ h1, h2⟩, h3⟩, h4⟩, h5⟩, h6⟩, h7⟩, fun l hl => Line.jv_mapAll f hf l (h8 l hl)⟩
theorem Row.jv_mapAll (r : Row) (h : r.jv = true) : (r.mapAll f).jv = true := by
  simp only [Row.jv, Row.mapAll, Bool.and_eq_true, List.all_map, List.all_eq_true, Function.comp] at h ⊢
  exact ⟨⟨hf _ h.1.1, h.1.2⟩, fun c hc => Cell.jv_mapAll f hf c (h.2 c hc)⟩
theorem Table.jv_mapAll (t : Table) (h : t.jv = true) : (t.mapAll f).jv = true := by
  simp only [Table.jv, Table.mapAll, Bool.and_eq_true, List.all_map, List.all_eq_true, Function.comp] at h ⊢
  exact ⟨⟨hf _ h.1.1, h.1.2⟩, fun r hr => Row.jv_mapAll f hf r (h.2 r hr)⟩
theorem lines_jv_mapAll (ls : List Line) (h : ls.all Line.jv = true) : (ls.map (Line.mapAll f)).all Line.jv = true := by
  simp only [List.all_map, List.all_eq_true, Function.comp] at h ⊢
  exact fun l hl => Line.jv_mapAll f hf l (h l hl)
theorem tables_jv_mapAll (ts : List Table) (h : ts.all Table.jv = true) : (ts.map (Table.mapAll f)).all Table.jv = true := by
  simp only [List.all_map, List.all_eq_true, Function.comp] at h ⊢
  exact fun t ht => Table.jv_mapAll f hf t (h t ht)
mutual
theorem Region.jv_mapAll : ∀ r : Region, r.jv = true → (r.mapAll f).jv = true
  | ⟨h, text, orientation, ro, roa, lines, regions, tables⟩, hr => by
    simp only [Region.jv, Region.mapAll, Bool.and_eq_true] at hr ⊢
    obtain ⟨⟨⟨⟨⟨⟨h1, h2⟩, h3⟩, h4⟩, h5⟩, h6⟩, h7⟩ := hr
    exact ⟨⟨⟨⟨⟨⟨hf _ h1, h2⟩, h3⟩, h4⟩, lines_jv_mapAll f hf lines h5⟩, Region.jvL_mapAll regions h6⟩,
      tables_jv_mapAll f hf tables h7⟩
theorem Region.jvL_mapAll : ∀ rs : List Region, Region.jvL rs = true → Region.jvL (Region.mapAllL f rs) = true
  | [], _ => rfl
  | r :: rs, h => by
    simp only [Region.jvL, Region.mapAllL, Bool.and_eq_true] at h ⊢
    exact ⟨Region.jv_mapAll r h.1, Region.jvL_mapAll rs h.2⟩
end
theorem Column.jv_mapAll (c : Column) (h : c.jv = true) : (c.mapAll f).jv = true := by
  simp only [Column.jv, Column.mapAll, Bool.and_eq_true] at h ⊢
  obtain ⟨⟨⟨⟨⟨⟨h1, h2⟩, h3⟩, h4⟩, h5⟩, h6⟩, h7⟩ := h
  exact ⟨⟨⟨⟨⟨⟨hf _ h1, h2⟩, h3⟩, h4⟩, lines_jv_mapAll f hf _ h5⟩, Region.jvL_mapAll f hf _ h6⟩,
    tables_jv_mapAll f hf _ h7⟩
theorem Page.jv_mapAll (p : Page) (h : p.jv = true) : (p.mapAll f).jv = true := by
  simp only [Page.jv, Page.mapAll, Bool.and_eq_true] at h ⊢
  obtain ⟨⟨⟨⟨⟨⟨⟨h1, h2⟩, h3⟩, h4⟩, h5⟩, h6⟩, h7⟩, h8⟩ := h
  refine ⟨⟨⟨⟨⟨⟨⟨hf _ h1, h2⟩, h3⟩, h4⟩, ?_⟩, Region.jvL_mapAll f hf _ h6⟩, tables_jv_mapAll f hf _ h7⟩,
    Region.jvL_mapAll f hf _ h8⟩
  simp only [List.all_map, List.all_eq_true, Function.comp] at h5 ⊢
  exact fun c hc => Column.jv_mapAll f hf c (h5 c hc)
theorem Scan.jv_mapAll (s : Scan) (h : s.jv = true) : (s.mapAll f).jv = true := by
  simp only [Scan.jv, Scan.mapAll, Bool.and_eq_true] at h ⊢
  obtain ⟨⟨⟨⟨⟨⟨⟨⟨h1, h2⟩, h3⟩, h4⟩, h5⟩, h6⟩, h7⟩, h8⟩, h9⟩ := h
  refine ⟨⟨⟨⟨⟨⟨⟨⟨hf _ h1, h2⟩, h3⟩, h4⟩, ?_⟩, ?_⟩, Region.jvL_mapAll f hf _ h7⟩, tables_jv_mapAll f hf _ h8⟩,
    lines_jv_mapAll f hf _ h9⟩
  · simp only [List.all_map, List.all_eq_true, Function.comp] at h5 ⊢
    exact fun p hp => Page.jv_mapAll f hf p (h5 p hp)
  · simp only [List.all_map, List.all_eq_true, Function.comp] at h6 ⊢
    exact fun c hc => Column.jv_mapAll f hf c (h6 c hc)
end mapAllJv

/-! ### the constructors -/

theorem regionInit_jv (mt : String) (id : PyVal) (ro : RO) (lines : List Line) (regions : List Region)
    (tables : List Table) (hid : id.stable = true) (hro : roJv ro = true)
    (hl : ∀ l ∈ lines, l.jv = true) (hr : ∀ r ∈ regions, r.jv = true) (htb : ∀ t ∈ tables, t.jv = true) :
    (regionInit mt id ro lines regions tables).lines.all Line.jv = true
    ∧ Region.jvL (regionInit mt id ro lines regions tables).regions = true
    ∧ (regionInit mt id ro lines regions tables).tables.all Table.jv = true
    ∧ roJv (regionInit mt id ro lines regions tables).ro = true := by
  rw [regionInit_eq]
  obtain ⟨_, a2, a3⟩ := applyReadingOrder_ok (mt != "page") ro (regions.map (Region.setParent mt id))
  refine ⟨?_, ?_, ?_, ?_⟩
  · simp only [List.all_map, List.all_eq_true, Function.comp]
    exact fun l h => Line.jv_setParent _ _ _ hid (Line.jv_setParent _ _ _ hid (hl l h))
  · apply Region.jvL_of_mem
    intro r hr'
    have := a2 r hr'
    simp only [List.mem_map] at this
    obtain ⟨r0, hr0, rfl⟩ := this
    exact Region.jv_setParent _ _ _ hid (hr r0 hr0)
  · simp only [List.all_map, List.all_eq_true, Function.comp]
    exact fun t h => Table.pad_jv t (htb t h)
  · rcases a3 with e | e <;> rw [e]
    · exact hro
    · rfl

theorem Region.build_jv (id : PyVal) (ts : List String) (m : Meta) (coords : Option Pts) (text : Option String)
    (orientation : PyVal) (ro : RO) (roa : PyVal) (lines : List Line) (regions : List Region) (tables : List Table)
    (hid : id.stable = true) (hm : PyVal.stableKvs m = true) (ho : orientation.stable = true)
    (hro : roJv ro = true) (hroa : roa.stable = true)
    (hl : ∀ l ∈ lines, l.jv = true) (hr : ∀ r ∈ regions, r.jv = true) (htb : ∀ t ∈ tables, t.jv = true) :
    (Region.build id ts m coords text orientation ro roa lines regions tables).jv = true := by
  obtain ⟨b1, b2, b3, b4⟩ := regionInit_jv "text_region" id ro lines regions tables hid hro hl hr htb
  apply Region.jv_setParentage
  simp only [Region.jv, Hdr.jv, Bool.and_eq_true]
  exact ⟨⟨⟨⟨⟨⟨⟨hid, hm⟩, ho⟩, b4⟩, hroa⟩, b1⟩, b2⟩, b3⟩

theorem Column.build_jv (id : PyVal) (ts : List String) (m : Meta) (coords : Option Pts)
    (orientation : PyVal) (ro : RO) (roa : PyVal) (lines : List Line) (regions : List Region) (tables : List Table)
    (hid : id.stable = true) (hm : PyVal.stableKvs m = true) (ho : orientation.stable = true)
    (hro : roJv ro = true) (hroa : roa.stable = true)
    (hl : ∀ l ∈ lines, l.jv = true) (hr : ∀ r ∈ regions, r.jv = true) (htb : ∀ t ∈ tables, t.jv = true) :
    (Column.build id ts m coords orientation ro roa lines regions tables).jv = true := by
  obtain ⟨b1, b2, b3, b4⟩ := regionInit_jv "column" id ro lines regions tables hid hro hl hr htb
  apply Column.jv_setParentage
  simp only [Column.jv, Hdr.jv, Bool.and_eq_true]
  exact ⟨⟨⟨⟨⟨⟨⟨hid, hm⟩, ho⟩, b4⟩, hroa⟩, b1⟩, b2⟩, b3⟩

theorem Page.build_jv (id : PyVal) (ts : List String) (m : Meta) (coords : Option Pts)
    (orientation : PyVal) (ro : RO) (roa : PyVal) (columns : List Column) (regions : List Region)
    (tables : List Table) (extra : List Region)
    (hid : id.stable = true) (hm : PyVal.stableKvs m = true) (ho : orientation.stable = true)
    (hro : roJv ro = true) (hroa : roa.stable = true)
    (hcs : ∀ c ∈ columns, c.jv = true) (hr : ∀ r ∈ regions, r.jv = true) (htb : ∀ t ∈ tables, t.jv = true)
    (hex : ∀ r ∈ extra, r.jv = true) :
    (Page.build id ts m coords orientation ro roa columns regions tables extra).jv = true := by
  obtain ⟨_, b2, b3, b4⟩ := regionInit_jv "page" id ro [] regions tables hid hro (by simp) hr htb
  apply Page.jv_setParentage
  simp only [Page.jv, Hdr.jv, Bool.and_eq_true]
  refine ⟨⟨⟨⟨⟨⟨⟨⟨hid, hm⟩, ho⟩, b4⟩, hroa⟩, ?_⟩, b2⟩, b3⟩, ?_⟩
  · simp only [List.all_map, List.all_eq_true, Function.comp]
    exact fun c hc => Column.jv_setParent _ _ c hid (hcs c hc)
  · apply Region.jvL_of_mem
    intro r hr'
    simp only [List.mem_map] at hr'
    obtain ⟨r0, hr0, rfl⟩ := hr'
    exact Region.jv_setParent _ _ _ hid (hex r0 hr0)

theorem Scan.ctor_jv (id : PyVal) (ts : List String) (m : Meta) (coords : Option Pts)
    (orientation : PyVal) (ro : RO) (roa : PyVal) (pages : List Page) (columns : List Column)
    (lines : List Line) (regions : List Region) (tables : List Table)
    (hid : id.stable = true) (hm : PyVal.stableKvs m = true) (ho : orientation.stable = true)
    (hro : roJv ro = true) (hroa : roa.stable = true)
    (hps : ∀ p ∈ pages, p.jv = true) (hcs : ∀ c ∈ columns, c.jv = true)
    (hl : ∀ l ∈ lines, l.jv = true) (hr : ∀ r ∈ regions, r.jv = true) (htb : ∀ t ∈ tables, t.jv = true) :
    (Scan.ctor id ts m coords orientation ro roa pages columns lines regions tables).jv = true := by
  obtain ⟨b1, b2, b3, b4⟩ := regionInit_jv "scan" id ro lines regions tables hid hro hl hr htb
  apply Scan.jv_mapAll _ (fun h hh => Hdr.jv_setMeta "scan_id" id h hid hh)
  simp only [Scan.jv, Hdr.jv, Bool.and_eq_true]
  refine ⟨⟨⟨⟨⟨⟨⟨⟨⟨hid, hm⟩, ho⟩, b4⟩, hroa⟩, ?_⟩, ?_⟩, b2⟩, b3⟩, b1⟩
  · simp only [List.all_map, List.all_eq_true, Function.comp]
    exact fun p hp => Page.jv_setParent _ _ p hid (hps p hp)
  · simp only [List.all_map, List.all_eq_true, Function.comp]
    exact fun c hc => Column.jv_setParent _ _ c hid (hcs c hc)

theorem Scan.build_jv (id : PyVal) (ts : List String) (m : Meta) (coords : Option Pts)
    (orientation : PyVal) (ro : RO) (roa : PyVal) (pages : List Page) (columns : List Column)
    (lines : List Line) (regions : List Region) (tables : List Table)
    (hid : id.stable = true) (hm : PyVal.stableKvs m = true) (ho : orientation.stable = true)
    (hro : roJv ro = true) (hroa : roa.stable = true)
    (hps : ∀ p ∈ pages, p.jv = true) (hcs : ∀ c ∈ columns, c.jv = true)
    (hl : ∀ l ∈ lines, l.jv = true) (hr : ∀ r ∈ regions, r.jv = true) (htb : ∀ t ∈ tables, t.jv = true) :
    (Scan.build id ts m coords orientation ro roa pages columns lines regions tables).jv = true :=
  Scan.jv_setParentage _ (Scan.ctor_jv id ts m coords orientation ro roa pages columns lines regions tables
    hid hm ho hro hroa hps hcs hl hr htb)

end Pagexml.C06
