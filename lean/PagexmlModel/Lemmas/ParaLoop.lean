/-
The loop of `make_text_region_text`: the chain of iterations (`Seg`), the cumulative offsets, the
loop invariant and the specification of `makeText`.
-/
import PagexmlModel.Lemmas.Para

namespace Pagexml.C16
open Pagexml.C17

/-- the chain of iterations over consecutive lines: every line but the last of the list contributes -/
inductive Seg (cc : CharClass) (B : BreakSet) (decide : Decide) : Bool → List Line → List Str → Bool → Prop where
  | single (f : Bool) (l : Line) : Seg cc B decide f [l] [] f
  | cons (f f' f'' : Bool) (l next : Line) (rest : List Line) (c : Str) (cs : List Str) :
      StepRel cc B decide f l next c f' → Seg cc B decide f' (next :: rest) cs f'' →
      Seg cc B decide f (l :: next :: rest) (c :: cs) f''

theorem Seg.snoc {cc : CharClass} {B : BreakSet} {decide : Decide} :
    ∀ (xs : List Line) (f f' f'' : Bool) (l next : Line) (cs : List Str) (c : Str),
      Seg cc B decide f (xs ++ [l]) cs f' → StepRel cc B decide f' l next c f'' →
      Seg cc B decide f (xs ++ [l, next]) (cs ++ [c]) f'' := by
  intro xs
  induction xs with
  | nil =>
    intro f f' f'' l next cs c h hs
    cases h with
    | single _ _ => exact Seg.cons f f'' f'' l next [] c [] hs (Seg.single f'' next)
  | cons a xs ih =>
    intro f f' f'' l next cs c h hs
    cases xs with
    | nil =>
      cases h with
      | cons _ f1 _ _ _ _ c0 cs0 h0 hrest =>
        have := ih f1 f' f'' l next cs0 c hrest hs
        exact Seg.cons f f1 f'' a l [next] c0 (cs0 ++ [c]) h0 this
    | cons b xs' =>
      cases h with
      | cons _ f1 _ _ _ _ c0 cs0 h0 hrest =>
        have := ih f1 f' f'' l next cs0 c hrest hs
        exact Seg.cons f f1 f'' a b (xs' ++ [l, next]) c0 (cs0 ++ [c]) h0 this

theorem Seg.length {cc : CharClass} {B : BreakSet} {decide : Decide} {f f' : Bool} {ls : List Line} {cs : List Str}
    (h : Seg cc B decide f ls cs f') : ls.length = cs.length + 1 := by
  induction h with
  | single _ _ => rfl
  | cons _ _ _ _ _ _ _ _ _ _ ih => simp at ih ⊢; omega

/-- per-line conservation along the chain -/
theorem Seg.conserve {cc : CharClass} {B : BreakSet} {decide : Decide} (hsp : cc.isSpace ' ' = true)
    {f f' : Bool} {ls : List Line} {cs : List Str} (h : Seg cc B decide f ls cs f')
    (hf : f = true → B lowQuote = true) :
    ∀ (i : Nat) (c : Str), cs[i]? = some c → ∃ (l : Line) (t : Str), ls[i]? = some l ∧ l.text = some t ∧ c.filter (keep cc B) = t.filter (keep cc B) := by
  induction h with
  | single _ _ => intro i c hc; simp at hc
  | cons f f1 f2 l next rest c0 cs0 h0 _ ih =>
    obtain ⟨⟨t, ht, hk⟩, hf1⟩ := h0.conserve hsp hf
    intro i c hc
    cases i with
    | zero =>
      simp at hc; subst hc
      exact ⟨l, t, by simp, ht, hk⟩
    | succ i =>
      simp at hc
      obtain ⟨l', t', h1, h2, h3⟩ := ih hf1 i c hc
      exact ⟨l', t', by simpa using h1, h2, h3⟩

/-! ### cumulative offsets -/

/-- `make_line_range` applied along the paragraph: line `i` gets the range of its contribution -/
def offsets : Nat → List Line → List Str → List Range
  | n, l :: ls, c :: cs => ⟨n, n + c.length, l.id, l.parent⟩ :: offsets (n + c.length) ls cs
  | _, _, _ => []

theorem offsets_snoc (n : Nat) (ls : List Line) (cs : List Str) (l : Line) (c : Str) (h : ls.length = cs.length) :
    offsets n (ls ++ [l]) (cs ++ [c]) =
      offsets n ls cs ++ [⟨n + cs.flatten.length, n + cs.flatten.length + c.length, l.id, l.parent⟩] := by
  induction ls generalizing n cs with
  | nil =>
    cases cs with
    | nil => simp [offsets]
    | cons _ _ => simp at h
  | cons a ls ih =>
    cases cs with
    | nil => simp at h
    | cons d cs =>
      simp only [List.length_cons, Nat.add_right_cancel_iff] at h
      simp only [List.cons_append, offsets, ih _ cs h, List.flatten_cons, List.length_append]
      simp [Nat.add_assoc]

/-- the `i`-th range: starts after the first `i` contributions, is as long as the `i`-th one, and
    carries the `i`-th line's labels -/
theorem offsets_get (n : Nat) (ls : List Line) (cs : List Str) (h : ls.length = cs.length) (i : Nat) (l : Line)
    (c : Str) (hl : ls[i]? = some l) (hc : cs[i]? = some c) :
    (offsets n ls cs)[i]? =
      some ⟨n + (cs.take i).flatten.length, n + (cs.take i).flatten.length + c.length, l.id, l.parent⟩ := by
  induction ls generalizing n cs i with
  | nil => simp at hl
  | cons a ls ih =>
    cases cs with
    | nil => simp at h
    | cons d cs =>
      simp only [List.length_cons, Nat.add_right_cancel_iff] at h
      cases i with
      | zero => simp at hl hc; subst hl; subst hc; simp [offsets]
      | succ i =>
        simp at hl hc
        simp only [offsets, List.getElem?_cons_succ, ih _ cs h i hl hc, List.take_succ_cons, List.flatten_cons,
          List.length_append]
        simp [Nat.add_assoc]

theorem offsets_length (n : Nat) (ls : List Line) (cs : List Str) (h : ls.length = cs.length) :
    (offsets n ls cs).length = ls.length := by
  induction ls generalizing n cs with
  | nil => cases cs <;> simp [offsets]
  | cons a ls ih =>
    cases cs with
    | nil => simp at h
    | cons d cs =>
      simp only [List.length_cons, Nat.add_right_cancel_iff] at h
      simp [offsets, ih _ cs h]

/-- the slice of the text cut out by the `i`-th range is the `i`-th contribution -/
theorem offsets_slice (ls : List Line) (cs : List Str) (h : ls.length = cs.length) (i : Nat) (r : Range)
    (hr : (offsets 0 ls cs)[i]? = some r) :
    ∃ (l : Line) (c : Str), ls[i]? = some l ∧ cs[i]? = some c ∧
      r = ⟨(cs.take i).flatten.length, (cs.take i).flatten.length + c.length, l.id, l.parent⟩ ∧
      (cs.flatten.drop r.start).take (r.stop - r.start) = c := by
  have hi : i < ls.length := by
    have : i < (offsets 0 ls cs).length := by
      rcases Nat.lt_or_ge i (offsets 0 ls cs).length with h' | h'
      · exact h'
      · rw [List.getElem?_eq_none h'] at hr; cases hr
    rw [offsets_length 0 _ _ h] at this; exact this
  have hi2 : i < cs.length := by omega
  have hl : ls[i]? = some ls[i] := List.getElem?_eq_getElem hi
  have hc : cs[i]? = some cs[i] := List.getElem?_eq_getElem hi2
  have := offsets_get 0 _ _ h i _ _ hl hc
  rw [hr] at this
  have hr' : r = ⟨(cs.take i).flatten.length, (cs.take i).flatten.length + cs[i].length, ls[i].id, ls[i].parent⟩ := by
    simpa using this
  refine ⟨_, _, hl, hc, hr', ?_⟩
  have hsplit : cs.flatten = (cs.take i).flatten ++ cs[i] ++ (cs.drop (i + 1)).flatten := by
    have := List.take_append_drop i cs
    have hd : cs.drop i = cs[i] :: cs.drop (i + 1) := List.drop_eq_getElem_cons hi2
    rw [hd] at this
    have h2 := congrArg List.flatten this
    simp only [List.flatten_append, List.flatten_cons] at h2
    rw [← h2]; simp
  rw [hr']
  simp only [Nat.add_sub_cancel_left]
  rw [hsplit, List.append_assoc, List.drop_left' rfl, List.take_left' rfl]

/-! ### the loop -/

theorem runLoop_spec (cc : CharClass) (hsp : cc.isSpace ' ' = true) (B : BreakSet) (decide : Decide)
    (hdec : DecideOK cc B decide) :
    ∀ (rest : List Line) (st : LoopState) (done : List Line) (cs : List Str),
      st.text = cs.flatten → st.ranges = offsets 0 done cs → done.length = cs.length →
      Seg cc B decide false (done ++ [st.prevLine]) cs st.removePrefix →
      (∃ t, st.prevLine.text = some t ∧ t ≠ [] ∧ lineWords cc B (some t) = .ok st.prevWords) →
      (∀ l ∈ rest, ∃ nt, l.text = some nt ∧ nt ≠ []) →
      ∃ st' done' cs', runLoop cc B decide st rest = .ok st' ∧ st'.text = cs'.flatten ∧
        st'.ranges = offsets 0 done' cs' ∧ done'.length = cs'.length ∧
        Seg cc B decide false (done' ++ [st'.prevLine]) cs' st'.removePrefix ∧
        done' ++ [st'.prevLine] = done ++ [st.prevLine] ++ rest ∧
        (∃ t, st'.prevLine.text = some t ∧ t ≠ []) := by
  intro rest
  induction rest with
  | nil =>
    intro st done cs h1 h2 h3 h4 h5 _
    obtain ⟨t, ht, htn, _⟩ := h5
    exact ⟨st, done, cs, rfl, h1, h2, h3, h4, by simp, t, ht, htn⟩
  | cons l rest ih =>
    intro st done cs h1 h2 h3 h4 h5 h6
    obtain ⟨t, ht, htn, hpw⟩ := h5
    obtain ⟨nt, hnt, hntn⟩ := h6 l (by simp)
    obtain ⟨c, flag', cw, hstep, hcw, hrel⟩ := loopStep_spec cc hsp B decide hdec st l t nt ht htn hnt hntn hpw
    have hseg := Seg.snoc done false st.removePrefix flag' st.prevLine l cs c h4 hrel
    obtain ⟨st', done', cs', hr, g1, g2, g3, g4, g5, g6⟩ :=
      ih { text := st.text ++ c,
           ranges := st.ranges ++ [⟨st.text.length, st.text.length + c.length, st.prevLine.id, st.prevLine.parent⟩],
           prevLine := l, prevWords := cw, removePrefix := flag' }
        (done ++ [st.prevLine]) (cs ++ [c])
        (by simp [h1])
        (by rw [offsets_snoc 0 done cs st.prevLine c h3, h2, h1]; simp)
        (by simp [h3])
        (by simpa using hseg)
        ⟨nt, hnt, hntn, hcw⟩
        (fun l' hl' => h6 l' (List.mem_cons_of_mem _ hl'))
    refine ⟨st', done', cs', ?_, g1, g2, g3, g4, ?_, g6⟩
    · simp only [runLoop, hstep, bind, Except.bind]; exact hr
    · rw [g5]; simp

/-- what `make_text_region_text` returns for a non-empty list of non-empty lines `ls`:
    contributions `cs ++ [last text]`, the text is their concatenation, the ranges their offsets -/
def ParaSpec (cc : CharClass) (B : BreakSet) (decide : Decide) (ls : List Line) (contribs : List Str) : Prop :=
  ∃ cs f init lastL lastT, ls = init ++ [lastL] ∧ lastL.text = some lastT ∧ contribs = cs ++ [lastT] ∧
    Seg cc B decide false ls cs f ∧ init.length = cs.length

theorem truthy_iff (o : Option Str) : truthy o = true ↔ ∃ t, o = some t ∧ t ≠ [] := by
  cases o with
  | none => simp [truthy]
  | some t => cases t <;> simp [truthy]

theorem makeText_spec (cc : CharClass) (hsp : cc.isSpace ' ' = true) (B : BreakSet) (decide : Decide)
    (hdec : DecideOK cc B decide) (lines : List Line) :
    (lines.filter (fun l => truthy l.text) = [] ∧ makeText cc B decide lines = .ok (none, [])) ∨
    (∃ contribs, ParaSpec cc B decide (lines.filter (fun l => truthy l.text)) contribs ∧
      makeText cc B decide lines =
        .ok (some contribs.flatten, offsets 0 (lines.filter (fun l => truthy l.text)) contribs)) := by
  unfold makeText
  cases hls : lines.filter (fun l => truthy l.text) with
  | nil => left; exact ⟨rfl, rfl⟩
  | cons first rest =>
    right
    have hall : ∀ l ∈ first :: rest, ∃ t, l.text = some t ∧ t ≠ [] := by
      intro l hl
      have : l ∈ lines.filter (fun l => truthy l.text) := by rw [hls]; exact hl
      have := (List.mem_filter.mp this).2
      exact (truthy_iff l.text).mp this
    obtain ⟨t, ht, htn⟩ := hall first (by simp)
    obtain ⟨pw, hpw⟩ := C17.lineWords_total cc B (some t)
    have htr : truthy (some t) = true := (truthy_iff _).mpr ⟨t, rfl, htn⟩
    obtain ⟨st', done', cs', hr, g1, g2, g3, g4, g5, tl, htl, _⟩ :=
      runLoop_spec cc hsp B decide hdec rest
        { text := [], ranges := [], prevLine := first, prevWords := pw, removePrefix := false } [] []
        rfl rfl rfl (Seg.single false first) ⟨t, ht, htn, hpw⟩
        (fun l hl => hall l (List.mem_cons_of_mem _ hl))
    simp only [List.nil_append, List.singleton_append] at g5
    refine ⟨cs' ++ [tl], ⟨cs', st'.removePrefix, done', st'.prevLine, tl, g5.symm, htl, rfl, ?_, g3⟩, ?_⟩
    · rw [← g5]; exact g4
    · simp only [ht, htr, if_true, hpw, hr, bind, Except.bind, pure, Except.pure, htl, makeLineRange]
      rw [← g5, offsets_snoc 0 done' cs' st'.prevLine tl g3, g1, g2]
      simp


/-! ### consequences of `ParaSpec` -/

theorem ParaSpec.length {cc : CharClass} {B : BreakSet} {decide : Decide} {ls : List Line} {contribs : List Str}
    (h : ParaSpec cc B decide ls contribs) : contribs.length = ls.length := by
  obtain ⟨cs, f, init, lastL, lastT, h1, _, h3, _, h5⟩ := h
  subst h1; subst h3; simp [h5]

/-- every contribution keeps exactly the non-whitespace non-break characters of its line -/
theorem ParaSpec.pointwise {cc : CharClass} {B : BreakSet} {decide : Decide} (hsp : cc.isSpace ' ' = true)
    {ls : List Line} {contribs : List Str} (h : ParaSpec cc B decide ls contribs) :
    ∀ (i : Nat) (c : Str), contribs[i]? = some c →
      ∃ (l : Line) (t : Str), ls[i]? = some l ∧ l.text = some t ∧ c.filter (keep cc B) = t.filter (keep cc B) := by
  obtain ⟨cs, f, init, lastL, lastT, h1, h2, h3, h4, h5⟩ := h
  intro i c hc
  subst h3
  by_cases hi : i < cs.length
  · rw [List.getElem?_append_left hi] at hc
    exact h4.conserve hsp (by simp) i c hc
  · have hi' : cs.length ≤ i := Nat.le_of_not_lt hi
    rw [List.getElem?_append_right hi'] at hc
    have : i - cs.length = 0 := by
      cases hk : i - cs.length with
      | zero => rfl
      | succ k => rw [hk] at hc; simp at hc
    rw [this] at hc
    simp at hc; subst hc
    refine ⟨lastL, _, ?_, h2, rfl⟩
    subst h1
    have hi2 : init.length ≤ i := by omega
    rw [List.getElem?_append_right hi2]
    have : i - init.length = 0 := by omega
    rw [this]; rfl

/-- the last contribution is the last line, verbatim -/
theorem ParaSpec.last {cc : CharClass} {B : BreakSet} {decide : Decide} {ls : List Line} {contribs : List Str}
    (h : ParaSpec cc B decide ls contribs) :
    ∃ pre lastT lastL, contribs = pre ++ [lastT] ∧ ls.getLast? = some lastL ∧ lastL.text = some lastT := by
  obtain ⟨cs, f, init, lastL, lastT, h1, h2, h3, _, _⟩ := h
  exact ⟨cs, lastT, lastL, h3, by subst h1; simp, h2⟩

theorem flatten_split {α} (cs : List (List α)) (i : Nat) (c : List α) (h : cs[i]? = some c) :
    cs.flatten = (cs.take i).flatten ++ c ++ (cs.drop (i + 1)).flatten ∧
    (cs.take (i + 1)).flatten = (cs.take i).flatten ++ c := by
  induction cs generalizing i with
  | nil => simp at h
  | cons d cs ih =>
    cases i with
    | zero => simp at h; subst h; simp
    | succ i =>
      simp at h
      obtain ⟨h1, h2⟩ := ih i h
      constructor
      · simp only [List.take_succ_cons, List.drop_succ_cons, List.flatten_cons]
        rw [h1]; simp
      · simp only [List.take_succ_cons, List.flatten_cons]
        rw [h2]; simp

/-- pointwise conservation sums up to conservation of the whole paragraph -/
theorem flatten_filter_of_pointwise (k : Char → Bool) :
    ∀ (ls : List Line) (cs : List Str), cs.length = ls.length →
      (∀ (i : Nat) (c : Str), cs[i]? = some c →
        ∃ (l : Line) (t : Str), ls[i]? = some l ∧ l.text = some t ∧ c.filter k = t.filter k) →
      cs.flatten.filter k = (ls.flatMap (fun l => l.text.getD [])).filter k := by
  intro ls
  induction ls with
  | nil => intro cs h _; cases cs with
    | nil => rfl
    | cons _ _ => simp at h
  | cons l ls ih =>
    intro cs h hp
    cases cs with
    | nil => simp at h
    | cons c cs =>
      simp only [List.length_cons, Nat.add_right_cancel_iff] at h
      obtain ⟨l', t, h1, h2, h3⟩ := hp 0 c (by simp)
      simp at h1; subst h1
      have := ih cs h (fun i c' hc' => by
        obtain ⟨l'', t', g1, g2, g3⟩ := hp (i + 1) c' (by simpa using hc')
        exact ⟨l'', t', by simpa using g1, g2, g3⟩)
      simp only [List.flatten_cons, List.filter_append, List.flatMap_cons, this, h3, h2, Option.getD_some]

/-- lines without text contribute no characters -/
theorem flatMap_filter_truthy (lines : List Line) :
    (lines.filter (fun l => truthy l.text)).flatMap (fun l => l.text.getD []) =
      lines.flatMap (fun l => l.text.getD []) := by
  induction lines with
  | nil => rfl
  | cons l ls ih =>
    rw [List.filter_cons]
    cases hl : l.text with
    | none =>
      have ht : truthy (none : Option Str) = false := rfl
      simp only [ht, List.flatMap_cons, hl, Option.getD_none, List.nil_append, Bool.false_eq_true, if_false]
      exact ih
    | some t =>
      cases t with
      | nil =>
        have ht : truthy (some ([] : Str)) = false := rfl
        simp only [ht, List.flatMap_cons, hl, Option.getD_some, List.nil_append, Bool.false_eq_true, if_false]
        exact ih
      | cons a r =>
        have ht : truthy (some (a :: r)) = true := rfl
        simp only [ht, if_true, List.flatMap_cons, hl, Option.getD_some, ih]

end Pagexml.C16
