/-
C19: lemmas on distances between interpolated baselines (shift, symmetry), on the
Except monad plumbing, and on the average baseline height.
-/
import PagexmlModel.Lemmas.C19Seg

namespace Pagexml.C19
open Pagexml.C03 (Pt)

theorem bind_ok {α β : Type} {x : Res α} {f : α → Res β} {b : β} :
    (x >>= f) = .ok b ↔ ∃ a, x = .ok a ∧ f a = .ok b := by
  cases x with
  | error e => simp [bind, Except.bind]
  | ok a => simp [bind, Except.bind]

theorem interpBaseline_ok {mdt : MulDivTrunc} {pts : List Pt} {step : Int} {d : Dict}
    (h : interpBaseline mdt pts step = .ok d) : d = interpBaselinePure mdt pts step := by
  unfold interpBaseline at h
  split at h
  · cases h
  · cases h; rfl

theorem interpBaseline_of_ne {mdt : MulDivTrunc} {pts : List Pt} {step : Int} (hs : step ≠ 0) :
    interpBaseline mdt pts step = .ok (interpBaselinePure mdt pts step) := by
  unfold interpBaseline
  simp [hs]

theorem interpBaseline_shift (mdt : MulDivTrunc) (pts : List Pt) (step c : Int) :
    interpBaseline mdt (shiftDown c pts) step = (interpBaseline mdt pts step).map (dshift c) := by
  unfold interpBaseline
  rw [hasNonVertical_shift, interpBaselinePure_shift]
  split <;> rfl

theorem pointsDistances_ok {mdt : MulDivTrunc} {a b : List Pt} {step : Int} {ds : List Int}
    (h : pointsDistances mdt a b step = .ok ds) :
    interpBaseline mdt a step = .ok (interpBaselinePure mdt a step) ∧
    interpBaseline mdt b step = .ok (interpBaselinePure mdt b step) ∧
    ds = distOf (interpBaselinePure mdt a step) (interpBaselinePure mdt b step) := by
  unfold pointsDistances at h
  obtain ⟨b1, h1, h⟩ := bind_ok.mp h
  obtain ⟨b2, h2, h⟩ := bind_ok.mp h
  have e1 := interpBaseline_ok h1
  have e2 := interpBaseline_ok h2
  subst e1 e2
  simp only [pure, Except.pure, Except.ok.injEq] at h
  exact ⟨h1, h2, h.symm⟩

theorem pointsDistances_of_ok {mdt : MulDivTrunc} {a b : List Pt} {step : Int}
    (h1 : interpBaseline mdt a step = .ok (interpBaselinePure mdt a step))
    (h2 : interpBaseline mdt b step = .ok (interpBaselinePure mdt b step)) :
    pointsDistances mdt a b step =
      .ok (distOf (interpBaselinePure mdt a step) (interpBaselinePure mdt b step)) := by
  unfold pointsDistances
  rw [h1, h2]; rfl

/-! ### shift -/

theorem filterMap_const {α β : Type} {f : α → Option β} {l : List α} {c : β}
    (h : ∀ e ∈ l, f e = some c) : l.filterMap f = List.replicate l.length c := by
  induction l with
  | nil => rfl
  | cons a r ih =>
    rw [List.filterMap_cons, h a List.mem_cons_self]
    simp only [List.length_cons, List.replicate_succ]
    rw [ih (fun e he => h e (List.mem_cons_of_mem _ he))]

theorem distOf_dshift {b : Dict} (hn : (keys b).Nodup) {d : Int} (hd : 0 ≤ d) :
    distOf b (dshift d b) = List.replicate b.length d := by
  unfold distOf
  apply filterMap_const
  intro e he
  obtain ⟨x, y⟩ := e
  rw [dictGet?_dshift, dictGet?_of_mem hn he]
  simp only [Option.map_some, Option.some.injEq]
  unfold iabs; omega

theorem pointsDistances_shift (mdt : MulDivTrunc) (pts : List Pt) (step d : Int) (hd : 0 ≤ d) :
    pointsDistances mdt pts (shiftDown d pts) step =
      if step = 0 && hasNonVertical pts then .error .ZeroDivisionError
      else .ok (List.replicate (interpBaselinePure mdt pts step).length d) := by
  unfold pointsDistances
  rw [interpBaseline_shift]
  unfold interpBaseline
  split
  · rfl
  · simp only [bind, Except.bind, Except.map, pure, Except.pure]
    rw [distOf_dshift (nodup_keys_interpBaselinePure mdt pts step) hd]

theorem baselineDistances_shift (mdt : MulDivTrunc) (pts : List Pt) (step d : Int) (hd : 0 ≤ d) (hs : step ≠ 0)
    (hne : interpBaselinePure mdt pts step ≠ []) :
    baselineDistances mdt pts (shiftDown d pts) step =
      .ok (List.replicate (interpBaselinePure mdt pts step).length d) := by
  unfold baselineDistances
  rw [pointsDistances_shift mdt pts step d hd]
  simp only [hs, decide_false, Bool.false_and, Bool.false_eq_true, ↓reduceIte, bind, Except.bind]
  have : (List.replicate (interpBaselinePure mdt pts step).length d).isEmpty = false := by
    cases h : interpBaselinePure mdt pts step with
    | nil => exact absurd h hne
    | cons a r => simp
  simp [this, pure, Except.pure]

/-! ### symmetry -/

def val (d : Dict) (x : Int) : Int := (dictGet? d x).getD 0

theorem distOf_eq_keys {b1 b2 : Dict} (hn : (keys b1).Nodup) :
    distOf b1 b2 = ((keys b1).filter (fun x => (dictGet? b2 x).isSome)).map
      (fun x => iabs (val b2 x - val b1 x)) := by
  have gen : ∀ l : Dict, (∀ e ∈ l, dictGet? b1 e.1 = some e.2) →
      l.filterMap (fun xy => (dictGet? b2 xy.1).map (fun y2 => iabs (y2 - xy.2))) =
        ((l.map (·.1)).filter (fun x => (dictGet? b2 x).isSome)).map
          (fun x => iabs (val b2 x - val b1 x)) := by
    intro l
    induction l with
    | nil => intro _; rfl
    | cons a r ih =>
      intro h
      have ha := h a List.mem_cons_self
      have ih' := ih (fun e he => h e (List.mem_cons_of_mem _ he))
      rw [List.filterMap_cons, List.map_cons, List.filter_cons]
      cases hb : dictGet? b2 a.1 with
      | none => simpa using ih'
      | some y2 =>
        simp only [Option.map_some, Option.isSome_some, ↓reduceIte, List.map_cons, ih']
        congr 1
        simp [val, hb, ha]
  unfold distOf
  exact gen b1 (fun e he => dictGet?_of_mem hn he)

theorem distOf_perm {b1 b2 : Dict} (h1 : (keys b1).Nodup) (h2 : (keys b2).Nodup) :
    (distOf b1 b2).Perm (distOf b2 b1) := by
  rw [distOf_eq_keys h1, distOf_eq_keys h2]
  have hp : ((keys b1).filter (fun x => (dictGet? b2 x).isSome)).Perm
      ((keys b2).filter (fun x => (dictGet? b1 x).isSome)) := by
    apply (List.perm_ext_iff_of_nodup (List.Pairwise.filter _ h1) (List.Pairwise.filter _ h2)).mpr
    intro x
    simp only [List.mem_filter, dictGet?_isSome_iff]
    constructor <;> (intro h; exact ⟨h.2, h.1⟩)
  refine (hp.map _).trans (List.Perm.of_eq ?_)
  apply List.map_congr_left
  intro x _
  unfold iabs; omega

theorem distOf_nonneg {b1 b2 : Dict} {x : Int} (h : x ∈ distOf b1 b2) : 0 ≤ x := by
  unfold distOf at h
  obtain ⟨e, _, he⟩ := List.mem_filterMap.mp h
  cases hb : dictGet? b2 e.1 with
  | none => simp [hb] at he
  | some y2 =>
    simp only [hb, Option.map_some, Option.some.injEq] at he
    subst he; unfold iabs; omega

/-! ### consecutive pairs -/

theorem mem_of_mem_pairs {α : Type} {l : List α} {p q : α} (h : (p, q) ∈ pairs l) : p ∈ l ∧ q ∈ l := by
  induction l with
  | nil => simp [pairs] at h
  | cons a r ih =>
    cases r with
    | nil => simp [pairs] at h
    | cons b r' =>
      simp only [pairs, List.mem_cons] at h
      rcases h with h | h
      · cases h; exact ⟨List.mem_cons_self, List.mem_cons_of_mem _ List.mem_cons_self⟩
      · have := ih h
        exact ⟨List.mem_cons_of_mem _ this.1, List.mem_cons_of_mem _ this.2⟩

/-! ### average baseline height -/

theorem twiceTotal_shift (pts : List Pt) (c : Int) :
    twiceTotal (shiftDown c pts) = twiceTotal pts + 2 * c * pathWidth pts := by
  unfold twiceTotal pathWidth shiftDown
  rw [pairs_map]
  generalize pairs pts = l
  induction l with
  | nil => simp
  | cons a r ih =>
    simp only [List.map_cons, List.sum_cons, List.map_map] at ih ⊢
    rw [ih]
    generalize iabs (a.2.1 - a.1.1) = w
    generalize (List.map (fun pq => iabs (pq.2.1 - pq.1.1)) r).sum = s
    have : (a.1.2 + c + (a.2.2 + c)) * w = (a.1.2 + a.2.2) * w + 2 * c * w := by
      rw [show a.1.2 + c + (a.2.2 + c) = (a.1.2 + a.2.2) + 2 * c by omega, Int.add_mul]
    rw [this, Int.mul_add]
    omega

theorem twiceTotal_nonneg {pts : List Pt} (h : ∀ p ∈ pts, 0 ≤ p.2) : 0 ≤ twiceTotal pts := by
  unfold twiceTotal
  have : ∀ pq ∈ pairs pts, 0 ≤ (pq.1.2 + pq.2.2) * iabs (pq.2.1 - pq.1.1) := by
    intro pq hpq
    obtain ⟨h1, h2⟩ := mem_of_mem_pairs (p := pq.1) (q := pq.2) hpq
    exact Int.mul_nonneg (by have := h _ h1; have := h _ h2; omega) (by unfold iabs; omega)
  generalize pairs pts = l at this
  induction l with
  | nil => simp
  | cons a r ih =>
    simp only [List.map_cons, List.sum_cons]
    have h1 := this a List.mem_cons_self
    have h2 := ih (fun pq hpq => this pq (List.mem_cons_of_mem _ hpq))
    omega

theorem avgHeight_of_width {pts : List Pt} (h : pathWidth pts ≠ 0) :
    avgHeight pts = .ok (Int.tdiv (twiceTotal pts) (2 * pathWidth pts)) := by
  simp [avgHeight, h]

/-- some segment is not vertical ⇒ the summed segment widths are positive -/
theorem pathWidth_pos_of_hasNonVertical {pts : List Pt} (h : hasNonVertical pts = true) : 0 < pathWidth pts := by
  unfold hasNonVertical at h
  unfold pathWidth
  generalize pairs pts = l at h
  induction l with
  | nil => simp at h
  | cons a r ih =>
    simp only [List.map_cons, List.sum_cons]
    have hn : 0 ≤ (r.map (fun pq : Pt × Pt => iabs (pq.2.1 - pq.1.1))).sum := by
      clear ih h
      induction r with
      | nil => simp
      | cons b t ih' =>
        simp only [List.map_cons, List.sum_cons]
        have : 0 ≤ iabs (b.2.1 - b.1.1) := by unfold iabs; omega
        omega
    simp only [List.any_cons, Bool.or_eq_true, bne_iff_ne, ne_eq] at h
    rcases h with h | h
    · have : 0 < iabs (a.2.1 - a.1.1) := by unfold iabs; omega
      omega
    · have := ih h
      have : 0 ≤ iabs (a.2.1 - a.1.1) := by unfold iabs; omega
      omega

theorem pathWidth_shift (pts : List Pt) (c : Int) : pathWidth (shiftDown c pts) = pathWidth pts := by
  unfold pathWidth shiftDown
  rw [pairs_map]
  simp [List.map_map, Function.comp_def]

/-- Without any sample the single fallback distance of the shifted copy is `d` again, provided
    some segment is not vertical and the baseline lies at non-negative y (truncation towards zero). -/
theorem baselineDistances_shift_fallback (mdt : MulDivTrunc) (pts : List Pt) (step d : Int) (hd : 0 ≤ d) (hs : step ≠ 0)
    (hempty : interpBaselinePure mdt pts step = [])
    (hy : ∀ p ∈ pts, 0 ≤ p.2) (hnv : hasNonVertical pts = true) :
    baselineDistances mdt pts (shiftDown d pts) step = .ok [d] := by
  unfold baselineDistances
  rw [pointsDistances_shift mdt pts step d hd]
  simp only [hs, decide_false, Bool.false_and, Bool.false_eq_true, ↓reduceIte, bind, Except.bind, hempty,
    List.length_nil, List.replicate_zero, List.isEmpty_nil]
  have hP := pathWidth_pos_of_hasNonVertical hnv
  have hP0 : pathWidth pts ≠ 0 := by omega
  have avg1 : avgHeight pts = .ok (twiceTotal pts / (2 * pathWidth pts)) := by
    rw [avgHeight_of_width hP0, Int.tdiv_eq_ediv_of_nonneg (twiceTotal_nonneg hy)]
  have hy' : ∀ p ∈ shiftDown d pts, 0 ≤ p.2 := by
    intro p hp
    obtain ⟨q, hq, rfl⟩ := List.mem_map.mp hp
    have := hy q hq
    show 0 ≤ q.2 + d
    omega
  have avg2 : avgHeight (shiftDown d pts) = .ok (twiceTotal pts / (2 * pathWidth pts) + d) := by
    rw [avgHeight_of_width (by rw [pathWidth_shift]; exact hP0), pathWidth_shift,
      Int.tdiv_eq_ediv_of_nonneg (twiceTotal_nonneg hy'), twiceTotal_shift]
    have e : 2 * d * pathWidth pts = d * (2 * pathWidth pts) := by
      rw [Int.mul_comm 2 d, Int.mul_assoc]
    rw [e, Int.add_mul_ediv_right _ _ (by omega : 2 * pathWidth pts ≠ 0)]
  rw [avg1, avg2]
  simp only [pure, Except.pure, Except.ok.injEq, List.cons.injEq, and_true]
  unfold iabs; omega

end Pagexml.C19
