/-
Helper definitions and lemmas for C04: the independent reading of a tree (all lines, all
regions), well-formedness, and the permutation lemma for `sorted(self.columns)`.
-/
import PagexmlModel.Model.C04

namespace Pagexml.C04
open Pagexml.C02

/-! ### the independent reading of the tree -/

mutual
/-- every line of the tree in document order: own lines, sub-regions, table cells, columns, extra -/
def allLines : Region → List Line
  | .mk _ _ _ lines subs tables columns extra _ _ =>
    lines ++ allLinesL subs ++ tables.flatMap tableLines ++ allLinesL columns ++ allLinesL extra
def allLinesL : List Region → List Line
  | [] => []
  | r :: rs => allLines r ++ allLinesL rs
end

mutual
/-- the regions of the closure (through sub-regions; for a page through columns, sub-regions
    and extra, the page itself excluded), children first -/
def allRegions : Region → List Region
  | .mk nid cls t lines subs tb columns extra pg o =>
    if cls = .page then allRegionsL columns ++ allRegionsL subs ++ allRegionsL extra
    else allRegionsL subs ++ [.mk nid cls t lines subs tb columns extra pg o]
def allRegionsL : List Region → List Region
  | [] => []
  | r :: rs => allRegions r ++ allRegionsL rs
end

/-- a region that has lines and no sub-regions -/
def isLeaf (r : Region) : Bool := r.subs.isEmpty && !r.lines.isEmpty

mutual
/-- the trees the traversal claims are about: a page has no direct lines (the code's own
    precondition) and its column order is a permutation; only pages have columns / extra -/
def WF : Region → Prop
  | .mk _ cls _ lines subs _ columns extra _ colOrder =>
    (cls = .page → lines = [] ∧ colOrder.Perm (List.range columns.length)) ∧
    (cls ≠ .page → columns = [] ∧ extra = []) ∧ WFL subs ∧ WFL columns ∧ WFL extra
def WFL : List Region → Prop
  | [] => True
  | r :: rs => WF r ∧ WFL rs
end

/-! ### `sorted` as a permutation -/

theorem flatMap_range'_getD {α} (pre per : List (List α)) :
    (List.range' pre.length per.length).flatMap (fun i => (pre ++ per).getD i []) = per.flatten := by
  induction per generalizing pre with
  | nil => simp
  | cons x xs ih =>
    have h := ih (pre ++ [x])
    simp only [List.length_append, List.length_cons, List.length_nil, List.append_assoc, List.cons_append,
      List.nil_append] at h
    simp only [List.length_cons, List.range'_succ, List.flatMap_cons, List.flatten_cons]
    rw [h]
    congr 1
    simp [List.getD_eq_getElem?_getD]

theorem permute_perm {α} (order : List Nat) (per : List (List α)) (h : order.Perm (List.range per.length)) :
    (permute order per).Perm per.flatten := by
  unfold permute
  have := flatMap_range'_getD [] per
  simp only [List.length_nil, List.nil_append] at this
  rw [← this, ← List.range_eq_range']
  exact List.Perm.flatMap_right _ h

end Pagexml.C04
