/-
Documents: `sort_regions_in_reading_order` unfolded (sorting the children first and then
recursing, as the Python does, is what the structurally recursive model computes), its
translation invariance, and the column / row reading orders.
-/
import PagexmlModel.Lemmas.C15Shift
import PagexmlModel.Lemmas.C15Rows

namespace Pagexml.C15

open List

def regLe (a b : Region) : Bool := regKeyLe a.box b.box

theorem leavesKids_eq_map (ks : List Region) : leavesKids ks = ks.map (fun k => (k.box, leaves k)) := by
  induction ks with
  | nil => rfl
  | cons k ks ih => simp [leavesKids, ih]

/-- the Python statement order: sort the children by `(top, left)`, then recurse into each -/
theorem leaves_unfold (id : Nat) (box : Box) (k : Region) (ks : List Region) (lines : List Line) :
    leaves (.mk id box (k :: ks) lines) = ((k :: ks).mergeSort regLe).flatMap leaves := by
  simp only [leaves, leavesKids_eq_map]
  have e : ((k :: ks).map (fun k => (k.box, leaves k))).mergeSort (fun a b => regKeyLe a.1 b.1)
      = ((k :: ks).mergeSort regLe).map (fun k => (k.box, leaves k)) :=
    (map_mergeSort (f := fun k : Region => (k.box, leaves k)) (r := regLe)
      (s := fun a b => regKeyLe a.1 b.1) (fun a _ b _ => rfl)).symm
  rw [e, flatMap_map]

theorem leaves_leaf (id : Nat) (box : Box) (lines : List Line) :
    leaves (.mk id box [] lines) = [.mk id box [] lines] := by
  simp [leaves]

theorem regKeyLe_trans (a b c : Box) : regKeyLe a b → regKeyLe b c → regKeyLe a c := by
  simp only [regKeyLe, Bool.or_eq_true, Bool.and_eq_true, decide_eq_true_eq]; omega
theorem regKeyLe_total (a b : Box) : (regKeyLe a b || regKeyLe b a) = true := by
  simp only [regKeyLe, Bool.or_eq_true, Bool.and_eq_true, decide_eq_true_eq]; omega

/-! ### translation -/

theorem regKeyLe_shift (dx dy : Int) (a b : Box) : regKeyLe (a.shift dx dy) (b.shift dx dy) = regKeyLe a b := by
  simp only [regKeyLe, Box.shift]
  have e1 : (a.top + dy < b.top + dy) ↔ (a.top < b.top) := by omega
  have e2 : (a.top + dy = b.top + dy) ↔ (a.top = b.top) := by omega
  have e3 : (a.left + dx ≤ b.left + dx) ↔ (a.left ≤ b.left) := by omega
  simp only [e1, e2, e3]

theorem Region.shift_box (dx dy : Int) (r : Region) : (r.shift dx dy).box = r.box.shift dx dy := by
  cases r; rfl
theorem Region.shift_lines (dx dy : Int) (r : Region) : (r.shift dx dy).lines = r.lines.map (Line.shift dx dy) := by
  cases r; rfl
theorem Region.shift_id (dx dy : Int) (r : Region) : (r.shift dx dy).id = r.id := by
  cases r; rfl

mutual
theorem leaves_shift (dx dy : Int) : ∀ r : Region, leaves (r.shift dx dy) = (leaves r).map (Region.shift dx dy)
  | .mk id box kids lines => by
    cases kids with
    | nil => simp [Region.shift, Region.shiftKids, leaves]
    | cons k ks =>
      have e := leavesKids_shift dx dy (k :: ks)
      simp only [Region.shiftKids] at e
      simp only [Region.shift, Region.shiftKids, leaves, e]
      have e2 : ((leavesKids (k :: ks)).map
            (fun p => (p.1.shift dx dy, p.2.map (Region.shift dx dy)))).mergeSort (fun a b => regKeyLe a.1 b.1)
          = ((leavesKids (k :: ks)).mergeSort (fun a b => regKeyLe a.1 b.1)).map
            (fun p => (p.1.shift dx dy, p.2.map (Region.shift dx dy))) :=
        (map_mergeSort (fun a _ b _ => (regKeyLe_shift dx dy a.1 b.1).symm)).symm
      rw [e2, flatMap_map, map_flatMap]
theorem leavesKids_shift (dx dy : Int) : ∀ ks : List Region,
    leavesKids (Region.shiftKids dx dy ks)
      = (leavesKids ks).map (fun p => (p.1.shift dx dy, p.2.map (Region.shift dx dy)))
  | [] => rfl
  | k :: ks => by
    simp only [Region.shiftKids, leavesKids, map_cons, leaves_shift dx dy k, leavesKids_shift dx dy ks,
      Region.shift_box]
end

mutual
theorem getLines_shift (dx dy : Int) : ∀ r : Region, getLines (r.shift dx dy) = (getLines r).map (Line.shift dx dy)
  | .mk id box kids lines => by
    simp only [Region.shift, getLines, getLinesKids_shift dx dy kids, map_append]
theorem getLinesKids_shift (dx dy : Int) : ∀ ks : List Region,
    getLinesKids (Region.shiftKids dx dy ks) = (getLinesKids ks).map (Line.shift dx dy)
  | [] => rfl
  | k :: ks => by
    simp only [Region.shiftKids, getLinesKids, getLines_shift dx dy k, getLinesKids_shift dx dy ks, map_append]
end

theorem columnOrderGo_shift (dx dy : Int) (dir : Dir) : ∀ rs : List Region,
    columnOrderGo dir (rs.map (Region.shift dx dy)) = (columnOrderGo dir rs).map (fun o => o.map (Line.shift dx dy)) := by
  intro rs
  induction rs with
  | nil => rfl
  | cons r rs ih =>
    simp only [map_cons, columnOrderGo, Region.shift_lines, sortLinesInReadingDirection,
      readingDirection_map (shift_preserves dx dy), ih]
    cases readingDirection isBelow isNextTo dir r.lines with
    | error e => rfl
    | ok o =>
      cases columnOrderGo dir rs with
      | error e => rfl
      | ok t => simp [Except.map]

/-! ### column reading order of a document whose children are leaf regions with clean rows -/

/-- strict order on the key `(top, left)` -/
def KeyLt (a b : Region) : Prop := a.box.top < b.box.top ∨ (a.box.top = b.box.top ∧ a.box.left < b.box.left)

instance (a b : Region) : Decidable (KeyLt a b) := by unfold KeyLt; infer_instance

theorem sort_kids {es kids : List Region} (hk : es.Pairwise KeyLt) (hp : kids ~ es) : kids.mergeSort regLe = es := by
  refine mergeSort_eq_of_strict regLe (fun a b c => regKeyLe_trans a.box b.box c.box)
    (fun a b => regKeyLe_total a.box b.box) ?_ hp
  refine hk.imp ?_
  intro a b h
  simp only [regLe, regKeyLe, KeyLt, Bool.or_eq_true, Bool.and_eq_true, decide_eq_true_eq] at *
  omega

theorem flatMap_leaves_of_leaf : ∀ es : List Region, (∀ e ∈ es, e.kids = []) → es.flatMap leaves = es := by
  intro es
  induction es with
  | nil => intro _; rfl
  | cons e es ih =>
    intro h
    have he : leaves e = [e] := by
      cases e with
      | mk id box kids lines =>
        have : kids = [] := h (.mk id box kids lines) (by simp)
        subst this
        exact leaves_leaf id box lines
    simp only [flatMap_cons, he, ih (fun e' he' => h e' (mem_cons_of_mem _ he'))]
    rfl

theorem columnOrderGo_clean (dir : Dir) (f : List (List Line) → List Line)
    (hf : ∀ rows ls, CleanRows rows → ls.filter (·.hasText) ~ rows.flatten →
      sortLinesInReadingDirection dir ls = .ok (f rows)) :
    ∀ (es : List (Region × List (List Line))),
      (∀ e ∈ es, CleanRows e.2 ∧ e.1.lines.filter (·.hasText) ~ e.2.flatten) →
      columnOrderGo dir (es.map (·.1)) = .ok (es.flatMap (fun e => f e.2)) := by
  intro es
  induction es with
  | nil => intro _; rfl
  | cons e es ih =>
    intro h
    obtain ⟨hc, hp⟩ := h e (by simp)
    simp only [map_cons, columnOrderGo, hf e.2 e.1.lines hc hp, ih (fun e' he' => h e' (mem_cons_of_mem _ he')),
      flatMap_cons]

/-! ### nested documents: the expected visiting order, level by level -/

/-- `Visits doc out`: `out` lists the leaf regions of `doc`, at every level the children taken
    by top edge, then left edge (keys pairwise different, so the order is determined) -/
inductive Visits : Region → List Region → Prop
  | leaf (id : Nat) (box : Box) (lines : List Line) : Visits (.mk id box [] lines) [.mk id box [] lines]
  | node (id : Nat) (box : Box) (lines : List Line) (kids : List Region) (es : List (Region × List Region)) :
      kids ≠ [] → kids ~ es.map (·.1) → (es.map (·.1)).Pairwise KeyLt → (∀ e ∈ es, Visits e.1 e.2) →
      Visits (.mk id box kids lines) (es.flatMap (·.2))

theorem leaves_of_visits {doc : Region} {out : List Region} (h : Visits doc out) : leaves doc = out := by
  induction h with
  | leaf id box lines => exact leaves_leaf id box lines
  | node id box lines kids es hne hp hkey _ ih =>
    cases kids with
    | nil => exact absurd rfl hne
    | cons k ks =>
      rw [leaves_unfold, sort_kids hkey hp, flatMap_map]
      have : ∀ l : List (Region × List Region), (∀ e ∈ l, leaves e.1 = e.2) →
          l.flatMap (fun e => leaves e.1) = l.flatMap (·.2) := by
        intro l
        induction l with
        | nil => intro _; rfl
        | cons e l ihl =>
          intro h
          simp only [flatMap_cons, h e (by simp), ihl (fun e' he' => h e' (mem_cons_of_mem _ he'))]
      exact this es ih

end Pagexml.C15
