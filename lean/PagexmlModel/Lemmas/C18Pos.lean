/-
C18 helper lemmas, part 5: lines of positive width.  One level of split_lines_on_column_gaps
makes exactly one column per (kept) gap interval; no exception is possible; the left-over lines
(those of intervals narrower than the minimum width) overlap no column.
-/
import PagexmlModel.Lemmas.C18Cons

namespace Pagexml.C18

/-- every line has positive width -/
def PosW (ls : List Line) : Prop := ∀ l ∈ ls, l.box.l < l.box.r

theorem PosW.wf {ls : List Line} (h : PosW ls) : WF ls := fun l hl => Int.le_of_lt (h l hl)

/-- the lines sorted into the column of range `ρ` -/
def colFor (lines : List Line) (ρ : Int × Int) : List Line := lines.filter (fun l => hit l ρ)

/-- `cols` are exactly the non-empty range columns of `lines` over `ranges` -/
def LevelOK (lines : List Line) (ranges : List (Int × Int)) (cols : List Col) : Prop :=
  (∀ c ∈ cols, ∃ ρ ∈ ranges, c.lines = colFor lines ρ ∧ c.lines ≠ []) ∧
  (∀ ρ ∈ ranges, colFor lines ρ ≠ [] → ∃ c ∈ cols, c.lines = colFor lines ρ)

theorem columnRanges_sub {thr mcw : Int} {lines : List Line} {ρ : Int × Int}
    (h : ρ ∈ columnRanges thr mcw lines) : ρ ∈ gapIntervals thr (pixels lines) :=
  (List.mem_filter.mp h).1

theorem columnRanges_pairwise (thr mcw : Int) (lines : List Line) :
    (columnRanges thr mcw lines).Pairwise (fun a b => a.2 + max thr gapMin ≤ b.1) :=
  List.Pairwise.sublist List.filter_sublist (gapIntervals_pairwise thr (pixels_sorted lines))

/-! ### make_column_range_columns never fails -/

theorem makeRangeCols_total (g : RegInfo) (cl : List (List Line)) : ∃ cols, makeRangeCols g cl = .ok cols := by
  induction cl with
  | nil => exact ⟨[], rfl⟩
  | cons ls rest ih =>
    obtain ⟨cs, hcs⟩ := ih
    simp only [makeRangeCols]
    split
    · exact ⟨cs, hcs⟩
    · cases ls with
      | nil => simp at *
      | cons a as =>
        exact ⟨⟨a :: as, bbox a as, .derived g.base "column" (bbox a as)⟩ :: cs,
          by simp [hullBox, hcs, bind, Except.bind, pure, Except.pure]⟩

theorem cols0_assoc {g : RegInfo} {lines : List Line} {ranges : List (Int × Int)} {cols0 : List Col}
    (h0 : makeRangeCols g (colLines lines ranges) = .ok cols0) : LevelOK lines ranges cols0 := by
  have hm := (makeRangeCols_spec g h0).1
  constructor
  · intro c hc
    have : c.lines ∈ cols0.map Col.lines := List.mem_map_of_mem hc
    rw [hm] at this
    obtain ⟨h1, h2⟩ := List.mem_filter.mp this
    simp only [colLines, List.mem_map] at h1
    obtain ⟨ρ, hρ, e⟩ := h1
    refine ⟨ρ, hρ, e.symm, ?_⟩
    intro hn; simp [hn] at h2
  · intro ρ hρ hne
    have : colFor lines ρ ∈ (colLines lines ranges).filter (fun ls => !ls.isEmpty) := by
      refine List.mem_filter.mpr ⟨?_, ?_⟩
      · simp only [colLines, List.mem_map]; exact ⟨ρ, hρ, rfl⟩
      · cases h : colFor lines ρ with
        | nil => exact absurd h hne
        | cons a as => rfl
    rw [← hm] at this
    obtain ⟨c, hc, e⟩ := List.mem_map.mp this
    exact ⟨c, hc, e⟩

/-! ### the box of a range column lies inside its range -/

theorem mem_colFor {lines : List Line} {ρ : Int × Int} {x : Line} :
    x ∈ colFor lines ρ ↔ x ∈ lines ∧ hit x ρ = true := by
  simp [colFor, List.mem_filter]

theorem col_box_in_range {thr : Int} {lines : List Line} (hpos : PosW lines) {ρ : Int × Int}
    (hρ : ρ ∈ gapIntervals thr (pixels lines)) {c : Col} (hc : c.lines = colFor lines ρ)
    (hb : hullBox c.lines = .ok c.box) :
    ρ.1 ≤ c.box.l ∧ c.box.r ≤ ρ.2 ∧ c.box.l < c.box.r := by
  obtain ⟨a, rest, e, hbox⟩ := hullBox_ok hb
  have hall : ∀ x ∈ a :: rest, ρ.1 ≤ x.box.l ∧ x.box.r ≤ ρ.2 ∧ x.box.l < x.box.r := by
    intro x hx
    rw [← e, hc] at hx
    obtain ⟨hx1, hx2⟩ := mem_colFor.mp hx
    have := (hit_iff_spanIn thr hx1 (hpos x hx1) hρ).mp hx2
    exact ⟨this.1, this.2, hpos x hx1⟩
  have ha := hall a (List.mem_cons_self ..)
  have hr : ∀ x ∈ rest, ρ.1 ≤ x.box.l ∧ x.box.r ≤ ρ.2 ∧ x.box.l < x.box.r :=
    fun x hx => hall x (List.mem_cons_of_mem _ hx)
  rw [hbox]
  simp only [bbox]
  refine ⟨minLeft_ge _ _ _ ha.1 (fun x hx => (hr x hx).1), maxRight_le _ _ _ ha.2.1 (fun x hx => (hr x hx).2.1), ?_⟩
  have := minLeft_le_init a.box.l rest
  have := maxRight_ge_init a.box.r rest
  omega

/-! ### horizontally disjoint boxes do not overlap -/

theorem hOverlap_apart {a b : Box} (h : a.r < b.l) : hOverlap a b = 0 ∧ hOverlap b a = 0 := by
  simp only [hOverlap]
  constructor <;> (split <;> omega)

theorem not_overlapping_apart {a b : Box} (ha : a.l < a.r) (hb : b.l < b.r) (h : a.r < b.l) :
    isHOverlapping a b = false ∧ isHOverlapping b a = false := by
  obtain ⟨h1, h2⟩ := hOverlap_apart h
  have wa : ¬ a.width = 0 := by simp [Box.width]; omega
  have wb : ¬ b.width = 0 := by simp [Box.width]; omega
  have wab : ¬ (a.width = 0 ∧ b.width = 0) := fun h => wa h.1
  have wba : ¬ (b.width = 0 ∧ a.width = 0) := fun h => wa h.2
  simp only [isHOverlapping, if_neg wa, if_neg wb, if_neg wab, if_neg wba, h1, h2]
  -- the one fact about the regenerated threshold that is used: it is not negative
  have hp := consts_col_overlap_threshold_nonneg.1
  have m1 : 0 ≤ min a.width b.width := by simp only [Box.width]; omega
  have m2 : 0 ≤ min b.width a.width := by simp only [Box.width]; omega
  exact ⟨ratioGt_zero hp m1, ratioGt_zero hp m2⟩

def Sep (a b : Col) : Prop := isHOverlapping a.box b.box = false ∧ isHOverlapping b.box a.box = false

theorem anyAdjOverlap_false {s : List Col} (h : s.Pairwise Sep) : anyAdjOverlap s = false := by
  induction s with
  | nil => rfl
  | cons a t ih =>
    cases t with
    | nil => rfl
    | cons b rest =>
      have hx := List.pairwise_cons.mp h
      simp only [anyAdjOverlap, Bool.or_eq_false_iff]
      exact ⟨(hx.1 b (List.mem_cons_self ..)).1, ih hx.2⟩

theorem mergeOverlapping_total {cols0 : List Col} (h : cols0.Pairwise Sep) :
    ∃ cols1, mergeOverlapping cols0 = .ok cols1 ∧ cols1.Perm cols0 := by
  have hp := sortCols_perm cols0
  have hs : (sortCols cols0).Pairwise Sep :=
    (hp.pairwise_iff (fun {x y} (hxy : Sep x y) => (⟨hxy.2, hxy.1⟩ : Sep y x))).mpr h
  refine ⟨sortCols cols0, ?_, hp⟩
  simp [mergeOverlapping, anyAdjOverlap_false hs]

/-! ### left-over lines that overlap no column stay left over -/

theorem pickBest_none {lb : Box} {cols : List Col} (h : ∀ c ∈ cols, hOverlap lb c.box ≤ 0) (i : Nat) :
    pickBest lb cols i none 0 = none := by
  induction cols generalizing i with
  | nil => rfl
  | cons c cs ih =>
    have hc := h c (List.mem_cons_self ..)
    simp only [pickBest]
    rw [if_neg (by omega)]
    exact ih (fun x hx => h x (List.mem_cons_of_mem _ hx)) (i + 1)

theorem placeAll_none {g : RegInfo} {extra : List Line} {cols : List Col} (nc : List Line)
    (h : ∀ e ∈ extra, ∀ c ∈ cols, hOverlap e.box c.box ≤ 0) :
    placeAll g extra cols nc = .ok (cols, nc ++ extra) := by
  induction extra generalizing nc with
  | nil => simp [placeAll]
  | cons e es ih =>
    have hpl : placeLine g e cols = .ok none := by
      simp [placeLine, pickBest_none (h e (List.mem_cons_self ..)) 0]
    simp only [placeAll, hpl, bind, Except.bind]
    rw [ih (nc ++ [e]) (fun x hx => h x (List.mem_cons_of_mem _ hx))]
    simp

/-! ### one level -/

theorem mem_extraLines {lines : List Line} {ranges : List (Int × Int)} {e : Line} :
    e ∈ extraLines lines ranges ↔ e ∈ lines ∧ ∀ ρ ∈ ranges, hit e ρ = false := by
  simp [extraLines, List.mem_filter]

theorem level_pos (g : RegInfo) (thr mcw : Int) (lines : List Line) (hpos : PosW lines) :
    ∃ cols0 cols1, makeRangeCols g (colLines lines (columnRanges thr mcw lines)) = .ok cols0 ∧
      mergeOverlapping cols0 = .ok cols1 ∧
      LevelOK lines (columnRanges thr mcw lines) cols1 ∧
      placeAll g (extraLines lines (columnRanges thr mcw lines)) cols1 [] =
        .ok (cols1, extraLines lines (columnRanges thr mcw lines)) := by
  obtain ⟨cols0, h0⟩ := makeRangeCols_total g (colLines lines (columnRanges thr mcw lines))
  have hlev := cols0_assoc h0
  have hspec := makeRangeCols_spec g h0
  -- every column box lies inside its range
  have hbox : ∀ c ∈ cols0, ∃ ρ ∈ columnRanges thr mcw lines, c.lines = colFor lines ρ ∧
      ρ.1 ≤ c.box.l ∧ c.box.r ≤ ρ.2 ∧ c.box.l < c.box.r := by
    intro c hc
    obtain ⟨ρ, hρ, e, hne⟩ := hlev.1 c hc
    exact ⟨ρ, hρ, e, col_box_in_range hpos (columnRanges_sub hρ) e (hspec.2 c hc).1⟩
  -- the columns are in the order of their ranges, each strictly left of the next ones
  have hord : cols0.Pairwise (fun c c' => c.box.r < c'.box.l) := by
    have h1 : (columnRanges thr mcw lines).Pairwise
        (fun ρ ρ' => ∀ x ∈ colFor lines ρ, ∀ y ∈ colFor lines ρ', x.box.r < y.box.l) := by
      refine List.Pairwise.imp_of_mem ?_ (columnRanges_pairwise thr mcw lines)
      intro ρ ρ' hρ hρ' hgap x hx y hy
      obtain ⟨hx1, hx2⟩ := mem_colFor.mp hx
      obtain ⟨hy1, hy2⟩ := mem_colFor.mp hy
      have sx := (hit_iff_spanIn thr hx1 (hpos x hx1) (columnRanges_sub hρ)).mp hx2
      have sy := (hit_iff_spanIn thr hy1 (hpos y hy1) (columnRanges_sub hρ')).mp hy2
      unfold spanIn at sx sy
      have hN := consts_min_gap_ge_two
      omega
    have h2 : (colLines lines (columnRanges thr mcw lines)).Pairwise
        (fun l1 l2 => ∀ x ∈ l1, ∀ y ∈ l2, x.box.r < y.box.l) := by
      simp only [colLines]
      exact List.pairwise_map.mpr h1
    have h3 := List.Pairwise.sublist (List.filter_sublist (p := fun ls => !ls.isEmpty)) h2
    rw [← hspec.1] at h3
    have h4 := List.pairwise_map.mp h3
    refine List.Pairwise.imp_of_mem ?_ h4
    intro c c' hc hc' hr
    obtain ⟨a, rest, e, hb⟩ := hullBox_ok (hspec.2 c hc).1
    obtain ⟨a', rest', e', hb'⟩ := hullBox_ok (hspec.2 c' hc').1
    rw [hb, hb']
    simp only [bbox]
    have hk : ∀ x ∈ c.lines, x.box.r ≤ minLeft a'.box.l rest' - 1 := by
      intro x hx
      have : x.box.r + 1 ≤ minLeft a'.box.l rest' := by
        refine minLeft_ge _ _ _ ?_ ?_
        · have := hr x hx a' (by rw [e']; exact List.mem_cons_self ..); omega
        · intro y hy
          have := hr x hx y (by rw [e']; exact List.mem_cons_of_mem _ hy); omega
      omega
    have : maxRight a.box.r rest ≤ minLeft a'.box.l rest' - 1 := by
      refine maxRight_le _ _ _ (hk a (by rw [e]; exact List.mem_cons_self ..)) ?_
      intro x hx
      exact hk x (by rw [e]; exact List.mem_cons_of_mem _ hx)
    omega
  have hsep : cols0.Pairwise Sep := by
    refine List.Pairwise.imp_of_mem ?_ hord
    intro c c' hc hc' h
    obtain ⟨_, _, _, _, _, w⟩ := hbox c hc
    obtain ⟨_, _, _, _, _, w'⟩ := hbox c' hc'
    exact not_overlapping_apart w w' h
  obtain ⟨cols1, h1, hperm⟩ := mergeOverlapping_total hsep
  refine ⟨cols0, cols1, h0, h1, ?_, ?_⟩
  · constructor
    · intro c hc; exact hlev.1 c (hperm.mem_iff.mp hc)
    · intro ρ hρ hne
      obtain ⟨c, hc, e⟩ := hlev.2 ρ hρ hne
      exact ⟨c, hperm.mem_iff.mpr hc, e⟩
  · have := placeAll_none (g := g) (extra := extraLines lines (columnRanges thr mcw lines))
      (cols := cols1) [] ?_
    · simpa using this
    · intro e he c hc
      obtain ⟨he1, he2⟩ := mem_extraLines.mp he
      obtain ⟨ρ, hρ, _, b1, b2, b3⟩ := hbox c (hperm.mem_iff.mp hc)
      obtain ⟨ρe, hρe, se⟩ := span_in_interval thr he1 (Int.le_of_lt (hpos e he1))
      have hne : ρe ≠ ρ := by
        intro heq
        subst heq
        have := (hit_iff_spanIn thr he1 (hpos e he1) hρe).mpr se
        rw [he2 ρe hρ] at this
        cases this
      unfold spanIn at se
      have hN := consts_min_gap_ge_two
      rcases gapIntervals_apart thr (pixels_sorted lines) hρe (columnRanges_sub hρ) with h | h | h
      · exact absurd h hne
      · have := (hOverlap_apart (a := e.box) (b := c.box) (by omega)).1; omega
      · have := (hOverlap_apart (a := c.box) (b := e.box) (by omega)).2; omega

end Pagexml.C18
