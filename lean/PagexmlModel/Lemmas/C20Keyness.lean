/-
Keyness (C20): the direction test over the integers; the log-likelihood score over the reals
(Mathlib's `Real.log`), with the `_SMALL` regularisation of the code kept as a parameter `s`.
-/
import PagexmlModel.Lemmas.C20Counter
import Mathlib.Tactic.Linarith
import Mathlib.Tactic.Ring
import Mathlib.Tactic.FieldSimp
import Mathlib.Tactic.Positivity
import Mathlib.Analysis.SpecialFunctions.Log.Basic

set_option linter.unusedSectionVars false
set_option linter.unusedSimpArgs false

namespace Pagexml.C20

/-! ### direction -/

theorem table_more_iff (t : Table) : t.more = true ↔ t.a * t.d > t.b * t.c := by
  have h : t.a * t.n - (t.a + t.b) * (t.a + t.c) = t.a * t.d - t.b * t.c := by
    unfold Table.n; ring
  simp only [Table.more, decide_eq_true_eq]
  constructor <;> intro g <;> linarith

/-- `a·d > b·c` is "relative frequency in the target exceeds that in the reference",
    cross-multiplied: `a/(a+c) > b/(b+d)` -/
theorem cross_iff (a b c d : Int) : a * (b + d) > b * (a + c) ↔ a * d > b * c := by
  constructor <;> intro g <;> nlinarith

variable {α : Type} [DecidableEq α]

theorem observed_cells (tok : α) (target : Counter α) (tt : Nat) (ref : Counter α) (rt : Nat) :
    (observed tok target tt ref rt).a = cget target tok ∧ (observed tok target tt ref rt).b = cget ref tok ∧
    (observed tok target tt ref rt).a + (observed tok target tt ref rt).c = tt ∧
    (observed tok target tt ref rt).b + (observed tok target tt ref rt).d = rt := by
  have h1 : (if chas target tok = true then (cget target tok : Int) else 0) = cget target tok := by
    split
    · rfl
    · next h =>
      have : tok ∉ ckeys target := fun hm => h ((chas_iff target tok).mpr hm)
      simp [cget_eq_zero_of_not_mem target tok this]
  have h2 : (if chas ref tok = true then (cget ref tok : Int) else 0) = cget ref tok := by
    split
    · rfl
    · next h =>
      have : tok ∉ ckeys ref := fun hm => h ((chas_iff ref tok).mpr hm)
      simp [cget_eq_zero_of_not_mem ref tok this]
  simp only [observed, h1, h2]
  refine ⟨trivial, trivial, ?_, ?_⟩ <;> omega

/-! ### the score over the reals -/

/-- one cell of the sum: `observed[i,j] * log((observed[i,j] + s) / (expected[i,j] + s))`,
    for an arbitrary function `lg` in the place of `np.log` -/
noncomputable def cellL (lg : ℝ → ℝ) (s o e : ℝ) : ℝ := o * lg ((o + s) / (e + s))

/-- the score `2 * sum_likelihood` of `compute_log_likelihood`, cells added in the order of the
    two loops, expected values as `compute_expected` computes them -/
noncomputable def scoreL (lg : ℝ → ℝ) (s a b c d : ℝ) : ℝ :=
  let n := a + b + c + d
  2 * ((((0 + cellL lg s a ((a + b) * (a + c) / n)) + cellL lg s b ((a + b) * (b + d) / n)) +
        cellL lg s c ((c + d) * (a + c) / n)) + cellL lg s d ((c + d) * (b + d) / n))

/-- swapping target and reference permutes the four cells: the score is the same real number,
    whatever function stands for the logarithm and whatever the regularisation constant -/
theorem scoreL_swap (lg : ℝ → ℝ) (s a b c d : ℝ) : scoreL lg s b a d c = scoreL lg s a b c d := by
  have hn : b + a + d + c = a + b + c + d := by ring
  have hn' : a + b + d + c = a + b + c + d := by ring
  have h1 : b + a = a + b := by ring
  have h2 : d + c = c + d := by ring
  simp only [scoreL, hn, h1, h2, hn']
  ring

/-- the score with the real logarithm -/
noncomputable def score (s a b c d : ℝ) : ℝ := scoreL Real.log s a b c d

/-- one cell is bounded below: `o·log((o+s)/(e+s)) ≥ o − e − s` -/
theorem cell_lower (s o e : ℝ) (hs : 0 ≤ s) (ho : 0 ≤ o) (he : 0 ≤ e) (hpos : 0 < o → 0 < e + s) :
    o - e - s ≤ cellL Real.log s o e := by
  unfold cellL
  rcases eq_or_lt_of_le ho with h0 | h0
  · subst h0; simp; linarith
  · have hos : 0 < o + s := by linarith
    have hes : 0 < e + s := hpos h0
    have hx : 0 < (o + s) / (e + s) := div_pos hos hes
    have hlog := Real.one_sub_inv_le_log_of_pos hx
    have hinv : ((o + s) / (e + s))⁻¹ = (e + s) / (o + s) := by rw [inv_div]
    rw [hinv] at hlog
    have hmul : o * (1 - (e + s) / (o + s)) ≤ o * Real.log ((o + s) / (e + s)) :=
      mul_le_mul_of_nonneg_left hlog ho
    have key : o * (1 - (e + s) / (o + s)) = o - e - s + s * (e + s) / (o + s) := by
      field_simp
      ring
    have hextra : 0 ≤ s * (e + s) / (o + s) := by positivity
    linarith

/-- the expected values add up to `N`, like the observed ones -/
theorem expected_sum (a b c d : ℝ) (hn : a + b + c + d ≠ 0) :
    (a + b) * (a + c) / (a + b + c + d) + (a + b) * (b + d) / (a + b + c + d) +
    (c + d) * (a + c) / (a + b + c + d) + (c + d) * (b + d) / (a + b + c + d) = a + b + c + d := by
  field_simp
  ring

/-- lower bound of the score for a table of non-negative cells: `−8·s`
    (`s = 0`: Gibbs' inequality, the score is non-negative) -/
theorem score_lower (s a b c d : ℝ) (hs : 0 ≤ s) (ha : 0 ≤ a) (hb : 0 ≤ b) (hc : 0 ≤ c) (hd : 0 ≤ d)
    (hn : 0 < a + b + c + d) : -(8 * s) ≤ score s a b c d := by
  have hn' : a + b + c + d ≠ 0 := ne_of_gt hn
  have e1 : 0 ≤ (a + b) * (a + c) / (a + b + c + d) := by positivity
  have e2 : 0 ≤ (a + b) * (b + d) / (a + b + c + d) := by positivity
  have e3 : 0 ≤ (c + d) * (a + c) / (a + b + c + d) := by positivity
  have e4 : 0 ≤ (c + d) * (b + d) / (a + b + c + d) := by positivity
  have p1 : 0 < a → 0 < (a + b) * (a + c) / (a + b + c + d) + s := by
    intro h
    have : 0 < (a + b) * (a + c) / (a + b + c + d) := div_pos (mul_pos (by linarith) (by linarith)) hn
    linarith
  have p2 : 0 < b → 0 < (a + b) * (b + d) / (a + b + c + d) + s := by
    intro h
    have : 0 < (a + b) * (b + d) / (a + b + c + d) := div_pos (mul_pos (by linarith) (by linarith)) hn
    linarith
  have p3 : 0 < c → 0 < (c + d) * (a + c) / (a + b + c + d) + s := by
    intro h
    have : 0 < (c + d) * (a + c) / (a + b + c + d) := div_pos (mul_pos (by linarith) (by linarith)) hn
    linarith
  have p4 : 0 < d → 0 < (c + d) * (b + d) / (a + b + c + d) + s := by
    intro h
    have : 0 < (c + d) * (b + d) / (a + b + c + d) := div_pos (mul_pos (by linarith) (by linarith)) hn
    linarith
  have c1 := cell_lower s a _ hs ha e1 p1
  have c2 := cell_lower s b _ hs hb e2 p2
  have c3 := cell_lower s c _ hs hc e3 p3
  have c4 := cell_lower s d _ hs hd e4 p4
  have hsum := expected_sum a b c d hn'
  simp only [score, scoreL]
  linarith

/-- every logarithm in the score is taken of a positive real and no denominator vanishes:
    the real-valued score is a finite number (no `log 0`, no division by zero) -/
theorem score_args_pos (s o e : ℝ) (hs : 0 < s) (ho : 0 ≤ o) (he : 0 ≤ e) :
    e + s ≠ 0 ∧ 0 < (o + s) / (e + s) := by
  have h1 : 0 < e + s := by linarith
  exact ⟨ne_of_gt h1, div_pos (by linarith) h1⟩

end Pagexml.C20
