/-
Lemmas about the grouping loop of `horizontal_group_lines` (parametric in the two predicates)
and about key sorts: conservation, totality, commutation with a map that preserves the
predicates and the keys.
-/
import PagexmlModel.Model.C15

namespace Pagexml.C15

open List

/-! ### key sorts -/

theorem byTop_trans (a b c : Line) : byTop a b → byTop b c → byTop a c := by
  simp only [byTop, decide_eq_true_eq]; omega
theorem byTop_total (a b : Line) : (byTop a b || byTop b a) = true := by
  simp only [byTop, Bool.or_eq_true, decide_eq_true_eq]; omega
theorem byLeft_trans (a b c : Line) : byLeft a b → byLeft b c → byLeft a c := by
  simp only [byLeft, decide_eq_true_eq]; omega
theorem byLeft_total (a b : Line) : (byLeft a b || byLeft b a) = true := by
  simp only [byLeft, Bool.or_eq_true, decide_eq_true_eq]; omega
theorem byRightDesc_trans (a b c : Line) : byRightDesc a b → byRightDesc b c → byRightDesc a c := by
  simp only [byRightDesc, decide_eq_true_eq]; omega
theorem byRightDesc_total (a b : Line) : (byRightDesc a b || byRightDesc b a) = true := by
  simp only [byRightDesc, Bool.or_eq_true, decide_eq_true_eq]; omega

theorem sorted_byTop (l : List Line) : (l.mergeSort byTop).Pairwise (fun a b => a.box.top ≤ b.box.top) := by
  have h := pairwise_mergeSort byTop_trans byTop_total l
  exact h.imp (by intro a b; simp [byTop])

theorem sorted_byLeft (l : List Line) : (l.mergeSort byLeft).Pairwise (fun a b => a.box.left ≤ b.box.left) := by
  have h := pairwise_mergeSort byLeft_trans byLeft_total l
  exact h.imp (by intro a b; simp [byLeft])

theorem sorted_byRightDesc (l : List Line) :
    (l.mergeSort byRightDesc).Pairwise (fun a b => b.box.right ≤ a.box.right) := by
  have h := pairwise_mergeSort byRightDesc_trans byRightDesc_total l
  exact h.imp (by intro a b; simp [byRightDesc])

theorem flatten_map_mergeSort_perm (le : Line → Line → Bool) (gs : List (List Line)) :
    (gs.map (·.mergeSort le)).flatten ~ gs.flatten := by
  induction gs with
  | nil => exact Perm.refl _
  | cons g gs ih =>
    simp only [map_cons, flatten_cons]
    exact (mergeSort_perm g le).append ih

/-! ### the grouping loop keeps every line once -/

theorem groupGo_perm (below nextTo : Line → Line → Res Bool) :
    ∀ (rest : List Line) (prev : Line) (cur : List Line) (gs : List (List Line)),
      groupGo below nextTo prev cur rest = .ok gs →
      gs.flatten ~ cur.reverse ++ prev :: rest ∧ (∀ g ∈ gs, g ≠ []) := by
  intro rest
  induction rest with
  | nil =>
    intro prev cur gs h
    simp only [groupGo, Except.ok.injEq] at h
    subst h
    simp
  | cons c rest ih =>
    intro prev cur gs h
    have hnew : ∀ gs', groupGo below nextTo c [] rest = .ok gs' → gs = (prev :: cur).reverse :: gs' →
        gs.flatten ~ cur.reverse ++ prev :: c :: rest ∧ (∀ g ∈ gs, g ≠ []) := by
      intro gs' hg e
      obtain ⟨p, ne⟩ := ih c [] gs' hg
      subst e
      refine ⟨?_, ?_⟩
      · simp only [flatten_cons, reverse_cons, append_assoc, singleton_append]
        refine Perm.append_left _ (Perm.cons _ ?_)
        simpa using p
      · intro g hg
        rcases mem_cons.mp hg with rfl | hg
        · simp
        · exact ne g hg
    simp only [groupGo] at h
    split at h
    · cases h
    · split at h
      · cases h
      · rename_i gs' hg
        simp only [Except.ok.injEq] at h
        exact hnew gs' hg h.symm
    · split at h
      · cases h
      · obtain ⟨p, ne⟩ := ih c (prev :: cur) gs h
        refine ⟨?_, ne⟩
        simpa using p
      · split at h
        · cases h
        · rename_i gs' hg
          simp only [Except.ok.injEq] at h
          exact hnew gs' hg h.symm

/-- the loop raises only if one of the predicates raises on lines of the input -/
theorem groupGo_total (below nextTo : Line → Line → Res Bool) :
    ∀ (rest : List Line) (prev : Line) (cur : List Line),
      (∀ a ∈ prev :: rest, ∀ b ∈ prev :: rest, ∃ v, below a b = .ok v) →
      (∀ a ∈ prev :: rest, ∀ b ∈ prev :: rest, ∃ v, nextTo a b = .ok v) →
      ∃ gs, groupGo below nextTo prev cur rest = .ok gs := by
  intro rest
  induction rest with
  | nil => intro prev cur _ _; exact ⟨_, rfl⟩
  | cons c rest ih =>
    intro prev cur hb hn
    have hb' : ∀ a ∈ c :: rest, ∀ b ∈ c :: rest, ∃ v, below a b = .ok v :=
      fun a ha b hb2 => hb a (mem_cons_of_mem _ ha) b (mem_cons_of_mem _ hb2)
    have hn' : ∀ a ∈ c :: rest, ∀ b ∈ c :: rest, ∃ v, nextTo a b = .ok v :=
      fun a ha b hb2 => hn a (mem_cons_of_mem _ ha) b (mem_cons_of_mem _ hb2)
    obtain ⟨v, hv⟩ := hb c (by simp) prev (by simp)
    obtain ⟨w, hw⟩ := hn c (by simp) prev (by simp)
    obtain ⟨g1, hg1⟩ := ih c [] hb' hn'
    obtain ⟨g2, hg2⟩ := ih c (prev :: cur) hb' hn'
    simp only [groupGo, hv, hw]
    cases v <;> cases w <;> simp [hg1, hg2]

/-! ### commutation with a map preserving predicates -/

theorem groupGo_map (below nextTo : Line → Line → Res Bool) (s : Line → Line)
    (hb : ∀ a b, below (s a) (s b) = below a b) (hn : ∀ a b, nextTo (s a) (s b) = nextTo a b) :
    ∀ (rest : List Line) (prev : Line) (cur : List Line),
      groupGo below nextTo (s prev) (cur.map s) (rest.map s)
        = (groupGo below nextTo prev cur rest).map (fun gs => gs.map (fun g => g.map s)) := by
  intro rest
  induction rest with
  | nil => intro prev cur; simp [groupGo, Except.map]
  | cons c rest ih =>
    intro prev cur
    have e1 := ih c []
    have e2 := ih c (prev :: cur)
    simp only [map_nil, map_cons] at e1 e2
    simp only [map_cons, groupGo, hb, hn]
    cases hbv : below c prev with
    | error e => simp [Except.map]
    | ok v =>
      cases v with
      | true =>
        simp only [e1]
        cases groupGo below nextTo c [] rest <;> simp [Except.map]
      | false =>
        cases hnv : nextTo c prev with
        | error e => simp [Except.map]
        | ok w =>
          cases w with
          | true => simp only [e2]
          | false =>
            simp only [e1]
            cases groupGo below nextTo c [] rest <;> simp [Except.map]

end Pagexml.C15
