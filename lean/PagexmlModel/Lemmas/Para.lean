/-
The paragraph builder (`make_text_region_text`): one loop iteration as a relation (`StepRel`),
the chain of iterations (`Seg`), and the loop invariant that ties the `Res`-valued model to them.
-/
import PagexmlModel.Model.C16
import PagexmlModel.Lemmas.C16Consts
import PagexmlModel.Lemmas.Words
import PagexmlModel.Lemmas.WordLoop

namespace Pagexml.C16
open Pagexml.C17

/-- the characters the paragraph must preserve: neither whitespace nor break character -/
def keep (cc : CharClass) (B : BreakSet) (c : Char) : Bool := !cc.isSpace c && !B c

theorem pyLast2_ok_of_len {α} {s : List α} (h : 2 ≤ s.length) : ∃ a, pyLast2 s = .ok a := by
  obtain ⟨p, a, b, rfl⟩ := exists_concat2 h
  exact ⟨a, pyLast2_concat2 p a b⟩

theorem filter_keep_concat_break (cc : CharClass) (B : BreakSet) (q : Str) (b : Char) (hb : B b = true) :
    (q ++ [b]).filter (keep cc B) = q.filter (keep cc B) := by
  simp [keep, hb]

theorem filter_keep_concat_blank (cc : CharClass) (B : BreakSet) (hsp : cc.isSpace ' ' = true) (q : Str) :
    (q ++ [' ']).filter (keep cc B) = q.filter (keep cc B) := by
  simp [keep, hsp]

theorem doubledBreak_spec (B : BreakSet) (q : Str) (b : Char) :
    ∃ dv : Bool, doubledBreak B (q ++ [b]) = .ok dv ∧ (dv = true → B b = true ∧ q ≠ []) ∧
      (B b = false → dv = false) := by
  unfold doubledBreak
  by_cases h2 : (q ++ [b]).length ≥ 2
  · obtain ⟨a, ha⟩ := pyLast2_ok_of_len h2
    have hq : q ≠ [] := by intro e; simp [e] at h2
    rw [if_pos h2]
    by_cases hb : B b = true
    · exact ⟨B a, by simp only [pyLast_concat, ha, hb, bind, Except.bind, pure, Except.pure, if_true],
        fun _ => ⟨hb, hq⟩, by simp [hb]⟩
    · exact ⟨false, by simp only [pyLast_concat, hb, bind, Except.bind, pure, Except.pure]; simp, by simp, by simp⟩
  · rw [if_neg h2]
    exact ⟨false, rfl, by simp, by simp⟩

/-- `make_line_text` never raises on a non-empty text when a merge carries a word, and its result
    differs from the text only in whitespace and break characters -/
theorem makeLineText_spec (cc : CharClass) (hsp : cc.isSpace ' ' = true) (B : BreakSet) (text : Str)
    (doMerge : Bool) (endWord : Str) (mergeWord : Option Str) (ht : text ≠ [])
    (hm : doMerge = true → mergeWord.isSome = true) :
    ∃ x, makeLineText B text doMerge endWord mergeWord = .ok x ∧
      x.filter (keep cc B) = text.filter (keep cc B) := by
  obtain ⟨q, b, rfl⟩ := exists_concat ht
  obtain ⟨dv, hdv, hdvB, _⟩ := doubledBreak_spec B q b
  unfold makeLineText
  simp only [hdv, bind, Except.bind]
  -- `lineText` and its last character
  have hlt : ∃ q' l, (if dv = true then (q ++ [b]).dropLast else q ++ [b]) = q' ++ [l] ∧
      (q' ++ [l]).filter (keep cc B) = (q ++ [b]).filter (keep cc B) := by
    cases dv with
    | true =>
      obtain ⟨hb, hq⟩ := hdvB rfl
      obtain ⟨q', l, rfl⟩ := exists_concat hq
      exact ⟨q', l, by simp, by rw [filter_keep_concat_break cc B (q' ++ [l]) b hb]⟩
    | false => exact ⟨q, b, by simp, rfl⟩
  obtain ⟨q', l, hlt, hkeep⟩ := hlt
  rw [hlt]
  simp only [pyLast_concat, List.dropLast_concat]
  cases doMerge with
  | true =>
    simp only [if_true, mergeStripTest]
    by_cases hl : B l = true
    · obtain ⟨mw, rfl⟩ : ∃ mw, mergeWord = some mw := by
        have := hm rfl
        cases mergeWord with
        | none => simp at this
        | some mw => exact ⟨mw, rfl⟩
      simp only [hl, if_true, pure, Except.pure]
      by_cases hp : (!(endWord.isPrefixOf mw)) = true
      · simp only [hp, if_true]
        exact ⟨_, rfl, by rw [← hkeep, filter_keep_concat_break cc B q' l hl]⟩
      · simp only [hp]
        exact ⟨_, rfl, rfl⟩
    · simp only [hl, pure, Except.pure]
      exact ⟨_, rfl, rfl⟩
  | false =>
    simp only [Bool.false_eq_true, if_false, detachTest]
    by_cases hc : (B l && decide ((q' ++ [l]).length ≥ 2)) = true
    · have h2 : (q' ++ [l]).length ≥ 2 := by
        simp only [Bool.and_eq_true, decide_eq_true_eq] at hc; exact hc.2
      have hl : B l = true := by
        simp only [Bool.and_eq_true] at hc; exact hc.1
      obtain ⟨a, ha⟩ := pyLast2_ok_of_len h2
      simp only [hc, if_true, ha, pure, Except.pure, bind, Except.bind]
      by_cases hsp2 : ([a] != Generated.C16.detachBlank) = true
      · simp only [hsp2, if_true]
        refine ⟨_, rfl, ?_⟩
        rw [← hkeep]
        simp [keep, hsp, hl]
      · simp only [hsp2]
        refine ⟨_, rfl, ?_⟩
        rw [← hkeep, filter_keep_concat_blank cc B hsp]
    · simp only [hc, pure, Except.pure, bind, Except.bind, Bool.false_eq_true, if_false]
      refine ⟨_, rfl, ?_⟩
      rw [← hkeep]
      rw [filter_keep_concat_blank cc B hsp]


/-! ### one iteration of the loop -/

/-- the detector interface the builder relies on: on the words of any two lines the decision is
    total, and a merge carries a word (C17 proves this of `determine` for every detector record) -/
def DecideOK (cc : CharClass) (B : BreakSet) (decide : Decide) : Prop :=
  ∀ l1 l2 pw cw, lineWords cc B l1 = .ok pw → lineWords cc B l2 = .ok cw →
    ∃ d, decide pw cw = .ok d ∧ (d.1 = true → d.2.isSome = true)

/-- `prev_line_text[1:]` when the prefix flag is set and the text starts with „ -/
def dropPrefixIf (flag : Bool) (x : Str) : Str :=
  if flag && [lowQuote].isPrefixOf x then x.tail else x

/-- the prefix flag for the next iteration -/
def nextFlag (B : BreakSet) (endWord nt : Str) : Bool :=
  B Generated.C16.quoteTested && [Generated.C16.quoteEnd].isSuffixOf endWord && [Generated.C16.quoteStart].isPrefixOf nt

/-- `prev_words[-1] if len(prev_words) > 0 else ''` -/
def endWordOf (pw : List Str) : Str := pw.getLast?.getD []

/-- one iteration: line `l` (followed by the non-empty line `next`) contributes `c` -/
def StepRel (cc : CharClass) (B : BreakSet) (decide : Decide) (flag : Bool) (l next : Line) (c : Str)
    (flag' : Bool) : Prop :=
  ∃ t nt pw cw d x, l.text = some t ∧ t ≠ [] ∧ next.text = some nt ∧ nt ≠ [] ∧
    lineWords cc B (some t) = .ok pw ∧ lineWords cc B (some nt) = .ok cw ∧
    decide pw cw = .ok d ∧ (d.1 = true → d.2.isSome = true) ∧
    makeLineText B t d.1 (endWordOf pw) d.2 = .ok x ∧
    c = dropPrefixIf flag x ∧ flag' = nextFlag B (endWordOf pw) nt

theorem endWord_eq (pw : List Str) : endWordPy pw = .ok (endWordOf pw) := by
  unfold endWordPy
  by_cases h : pw = []
  · subst h; rfl
  · obtain ⟨p, a, rfl⟩ := exists_concat h
    have : (p ++ [a]).length > 0 := by simp
    rw [if_pos this, pyLast_concat]
    simp [endWordOf]

theorem filter_keep_dropPrefixIf (cc : CharClass) (B : BreakSet) (flag : Bool) (x : Str)
    (hf : flag = true → B lowQuote = true) :
    (dropPrefixIf flag x).filter (keep cc B) = x.filter (keep cc B) := by
  unfold dropPrefixIf
  by_cases h : (flag && [lowQuote].isPrefixOf x) = true
  · simp only [h, if_true]
    simp only [Bool.and_eq_true] at h
    cases x with
    | nil => rfl
    | cons a r =>
      have ha : a = lowQuote := by
        have := h.2
        simp at this
        exact this.symm
      subst ha
      simp [keep, hf h.1]
  · simp only [h]; rfl

theorem StepRel.conserve {cc : CharClass} {B : BreakSet} {decide : Decide} {flag flag' : Bool} {l next : Line}
    {c : Str} (hsp : cc.isSpace ' ' = true) (h : StepRel cc B decide flag l next c flag')
    (hf : flag = true → B lowQuote = true) :
    (∃ t, l.text = some t ∧ c.filter (keep cc B) = t.filter (keep cc B)) ∧ (flag' = true → B lowQuote = true) := by
  obtain ⟨t, nt, pw, cw, d, x, h1, h2, _, _, _, _, _, hd, hx, hc, hf'⟩ := h
  constructor
  · obtain ⟨x', hx', hk⟩ := makeLineText_spec cc hsp B t d.1 (endWordOf pw) d.2 h2 hd
    rw [hx] at hx'; cases hx'
    exact ⟨t, h1, by rw [hc, filter_keep_dropPrefixIf cc B flag x hf, hk]⟩
  · intro h
    rw [hf'] at h
    simp only [nextFlag, Bool.and_eq_true] at h
    rw [← consts_quote_tested_is_stripped]
    exact h.1.1

theorem loopStep_spec (cc : CharClass) (hsp : cc.isSpace ' ' = true) (B : BreakSet) (decide : Decide)
    (hdec : DecideOK cc B decide) (st : LoopState) (curr : Line) (t nt : Str)
    (h1 : st.prevLine.text = some t) (ht : t ≠ []) (h2 : curr.text = some nt) (hnt : nt ≠ [])
    (hpw : lineWords cc B (some t) = .ok st.prevWords) :
    ∃ c flag' cw, loopStep cc B decide st curr = .ok
        { text := st.text ++ c,
          ranges := st.ranges ++ [⟨st.text.length, st.text.length + c.length, st.prevLine.id, st.prevLine.parent⟩],
          prevLine := curr, prevWords := cw, removePrefix := flag' } ∧
      lineWords cc B (some nt) = .ok cw ∧
      StepRel cc B decide st.removePrefix st.prevLine curr c flag' := by
  obtain ⟨cw, hcw⟩ := C17.lineWords_total cc B (some nt)
  obtain ⟨d, hd, hdm⟩ := hdec (some t) (some nt) st.prevWords cw hpw hcw
  obtain ⟨x, hx, _⟩ := makeLineText_spec cc hsp B t d.1 (endWordOf st.prevWords) d.2 ht hdm
  obtain ⟨n0, nr, rfl⟩ : ∃ a r, nt = a :: r := by
    cases nt with
    | nil => exact absurd rfl hnt
    | cons a r => exact ⟨a, r, rfl⟩
  refine ⟨dropPrefixIf st.removePrefix x, nextFlag B (endWordOf st.prevWords) (n0 :: nr), cw, ?_, hcw,
    ⟨t, n0 :: nr, st.prevWords, cw, d, x, h1, ht, h2, hnt, hpw, hcw, hd, hdm, hx, rfl, rfl⟩⟩
  unfold loopStep
  simp only [h2, h1, hcw, hd, endWord_eq, hx, bind, Except.bind, pure, Except.pure, makeLineRange]
  simp [dropPrefixIf, nextFlag]

end Pagexml.C16
