/-
Laws of the `Counter` model (C20): lookups after `+=`, `update`, `__add__`; totals; positivity
and key-uniqueness invariants.
-/
import PagexmlModel.Model.C20

set_option linter.unusedSectionVars false
set_option linter.unusedSimpArgs false

namespace Pagexml.C20

variable {α : Type} [DecidableEq α]

/-! ### lookups -/

@[simp] theorem cget_nil (t : α) : cget ([] : Counter α) t = 0 := rfl

theorem cget_cons (k : α) (n : Nat) (r : Counter α) (t : α) :
    cget ((k, n) :: r) t = (if k = t then n else 0) + cget r t := rfl

theorem cget_append (a b : Counter α) (t : α) : cget (a ++ b) t = cget a t + cget b t := by
  induction a with
  | nil => simp
  | cons p r ih =>
    obtain ⟨k, n⟩ := p
    simp only [List.cons_append, cget_cons, ih]
    omega

theorem cget_cinc (c : Counter α) (t : α) (n : Nat) (u : α) :
    cget (cinc c t n) u = cget c u + (if t = u then n else 0) := by
  induction c with
  | nil => simp [cinc, cget_cons]
  | cons p r ih =>
    obtain ⟨k, m⟩ := p
    unfold cinc
    by_cases h : k = t
    · subst h
      simp only [if_true, cget_cons]
      split <;> omega
    · simp only [h, if_false, cget_cons, ih]
      omega

theorem cget_cupdate (c : Counter α) (toks : List α) (u : α) :
    cget (cupdate c toks) u = cget c u + toks.count u := by
  unfold cupdate
  induction toks generalizing c with
  | nil => simp
  | cons x xs ih =>
    simp only [List.foldl_cons, ih, cget_cinc, List.count_cons]
    by_cases h : x = u
    · simp [h]; omega
    · simp [h]

theorem cget_filter_pos (c : Counter α) (u : α) :
    cget (c.filter (fun p => 0 < p.2)) u = cget c u := by
  induction c with
  | nil => rfl
  | cons p r ih =>
    obtain ⟨k, n⟩ := p
    by_cases h : 0 < n
    · simp only [List.filter_cons, h, decide_true, if_true, cget_cons, ih]
    · have hn : n = 0 := by omega
      subst hn
      simp [List.filter_cons, cget_cons, ih]

theorem cget_foldl_cinc (a b : Counter α) (u : α) :
    cget (b.foldl (fun acc p => cinc acc p.1 p.2) a) u = cget a u + cget b u := by
  induction b generalizing a with
  | nil => simp
  | cons p r ih =>
    obtain ⟨k, n⟩ := p
    simp only [List.foldl_cons, ih, cget_cinc, cget_cons]
    omega

/-- `(a + b)[t] = a[t] + b[t]` -/
theorem cget_cadd (a b : Counter α) (u : α) : cget (cadd a b) u = cget a u + cget b u := by
  unfold cadd
  rw [cget_filter_pos, cget_foldl_cinc]

/-! ### totals -/

@[simp] theorem ctotal_nil : ctotal ([] : Counter α) = 0 := rfl

theorem ctotal_cons (p : α × Nat) (r : Counter α) : ctotal (p :: r) = p.2 + ctotal r := by
  simp [ctotal]

theorem ctotal_cinc (c : Counter α) (t : α) (n : Nat) : ctotal (cinc c t n) = ctotal c + n := by
  induction c with
  | nil => simp [cinc, ctotal]
  | cons p r ih =>
    obtain ⟨k, m⟩ := p
    unfold cinc
    by_cases h : k = t
    · simp only [h, if_true, ctotal_cons]; omega
    · simp only [h, if_false, ctotal_cons, ih]; omega

theorem ctotal_cupdate (c : Counter α) (toks : List α) :
    ctotal (cupdate c toks) = ctotal c + toks.length := by
  unfold cupdate
  induction toks generalizing c with
  | nil => simp
  | cons x xs ih => simp only [List.foldl_cons, ih, ctotal_cinc, List.length_cons]; omega

theorem ctotal_filter_pos (c : Counter α) : ctotal (c.filter (fun p => 0 < p.2)) = ctotal c := by
  induction c with
  | nil => rfl
  | cons p r ih =>
    obtain ⟨k, n⟩ := p
    by_cases h : 0 < n
    · simp only [List.filter_cons, h, decide_true, if_true, ctotal_cons, ih]
    · have hn : n = 0 := by omega
      subst hn
      simp [List.filter_cons, ctotal_cons, ih]

theorem ctotal_foldl_cinc (a b : Counter α) :
    ctotal (b.foldl (fun acc p => cinc acc p.1 p.2) a) = ctotal a + ctotal b := by
  induction b generalizing a with
  | nil => simp
  | cons p r ih =>
    simp only [List.foldl_cons, ih, ctotal_cinc, ctotal_cons]
    omega

/-- `sum((a + b).values()) = sum(a.values()) + sum(b.values())` -/
theorem ctotal_cadd (a b : Counter α) : ctotal (cadd a b) = ctotal a + ctotal b := by
  unfold cadd
  rw [ctotal_filter_pos, ctotal_foldl_cinc]

/-! ### keys, membership -/

theorem chas_iff (c : Counter α) (t : α) : chas c t = true ↔ t ∈ ckeys c := by
  simp [chas]

theorem cget_eq_zero_of_not_mem (c : Counter α) (t : α) (h : t ∉ ckeys c) : cget c t = 0 := by
  induction c with
  | nil => rfl
  | cons p r ih =>
    obtain ⟨k, n⟩ := p
    simp only [ckeys, List.map_cons, List.mem_cons, not_or] at h
    have hk : ¬ k = t := fun e => h.1 e.symm
    simp only [cget_cons, hk, if_false]
    simpa using ih (by simpa [ckeys] using h.2)

theorem ckeys_cinc (c : Counter α) (t : α) (n : Nat) :
    ckeys (cinc c t n) = if t ∈ ckeys c then ckeys c else ckeys c ++ [t] := by
  induction c with
  | nil => simp [cinc, ckeys]
  | cons p r ih =>
    obtain ⟨k, m⟩ := p
    unfold cinc
    by_cases h : k = t
    · subst h; simp [ckeys]
    · have h' : ¬ t = k := fun e => h e.symm
      simp only [h, if_false]
      simp only [ckeys, List.map_cons, List.mem_cons, h', false_or] at ih ⊢
      rw [ih]
      split <;> simp [*]

theorem nodup_ckeys_cinc (c : Counter α) (t : α) (n : Nat) (h : (ckeys c).Nodup) :
    (ckeys (cinc c t n)).Nodup := by
  rw [ckeys_cinc]
  split
  · exact h
  · rename_i hn
    exact List.nodup_append.mpr ⟨h, by simp, by
      intro a ha b hb
      simp only [List.mem_singleton] at hb
      subst hb
      intro e; subst e; exact hn ha⟩

theorem nodup_ckeys_cupdate (c : Counter α) (toks : List α) (h : (ckeys c).Nodup) :
    (ckeys (cupdate c toks)).Nodup := by
  unfold cupdate
  induction toks generalizing c with
  | nil => simpa using h
  | cons x xs ih => exact ih _ (nodup_ckeys_cinc c x 1 h)

/-! ### positivity: every stored count is positive -/

def CPos (c : Counter α) : Prop := ∀ p ∈ c, 0 < p.2

theorem cpos_nil : CPos ([] : Counter α) := by intro p hp; cases hp

theorem cpos_cinc (c : Counter α) (t : α) (n : Nat) (h : CPos c) (hn : 0 < n) : CPos (cinc c t n) := by
  induction c with
  | nil =>
    intro p hp
    simp only [cinc, List.mem_singleton] at hp
    subst hp; exact hn
  | cons q r ih =>
    obtain ⟨k, m⟩ := q
    have hr : CPos r := fun p hp => h p (List.mem_cons_of_mem _ hp)
    have hm : 0 < m := h (k, m) (by simp)
    unfold cinc
    by_cases hk : k = t
    · simp only [hk, if_true]
      intro p hp
      rcases List.mem_cons.mp hp with e | hp
      · subst e; show 0 < m + n; omega
      · exact hr p hp
    · simp only [hk, if_false]
      intro p hp
      rcases List.mem_cons.mp hp with e | hp
      · subst e; exact hm
      · exact ih hr p hp

theorem cpos_cupdate (c : Counter α) (toks : List α) (h : CPos c) : CPos (cupdate c toks) := by
  unfold cupdate
  induction toks generalizing c with
  | nil => simpa using h
  | cons x xs ih => exact ih _ (cpos_cinc c x 1 h (by omega))

theorem cpos_cadd (a b : Counter α) : CPos (cadd a b) := by
  intro p hp
  unfold cadd at hp
  have := (List.mem_filter.mp hp).2
  simpa using this

theorem cget_pos_of_mem (c : Counter α) (h : CPos c) (t : α) (ht : t ∈ ckeys c) : 0 < cget c t := by
  induction c with
  | nil => cases ht
  | cons p r ih =>
    obtain ⟨k, n⟩ := p
    have hn : 0 < n := h (k, n) (by simp)
    simp only [cget_cons]
    by_cases hk : k = t
    · simp only [hk, if_true]; omega
    · simp only [ckeys, List.map_cons, List.mem_cons] at ht
      rcases ht with e | ht
      · exact absurd e.symm hk
      · have := ih (fun p hp => h p (List.mem_cons_of_mem _ hp)) (by simpa [ckeys] using ht)
        omega

theorem cget_le_ctotal (c : Counter α) (t : α) : cget c t ≤ ctotal c := by
  induction c with
  | nil => simp
  | cons p r ih =>
    obtain ⟨k, n⟩ := p
    simp only [cget_cons, ctotal_cons]
    split <;> omega

/-! ### duplicates -/

theorem mem_dedupKeep {β : Type} [DecidableEq β] (l : List β) (y : β) : y ∈ dedupKeep l ↔ y ∈ l := by
  induction l with
  | nil => simp [dedupKeep]
  | cons x r ih =>
    simp only [dedupKeep, List.mem_cons, List.mem_filter, ih, decide_eq_true_eq]
    by_cases h : y = x
    · simp [h]
    · simp [h]

theorem nodup_dedupKeep {β : Type} [DecidableEq β] (l : List β) : (dedupKeep l).Nodup := by
  induction l with
  | nil => simp [dedupKeep]
  | cons x r ih =>
    simp only [dedupKeep, List.nodup_cons, List.mem_filter, decide_eq_true_eq]
    exact ⟨fun h => h.2 rfl, List.Pairwise.filter _ ih⟩

theorem count_eq_one_of_nodup_mem {β : Type} [DecidableEq β] (ks : List β) (hn : ks.Nodup) (t : β) (ht : t ∈ ks) :
    ks.count t = 1 := by
  induction ks with
  | nil => cases ht
  | cons a r ih =>
    have hnr := (List.nodup_cons.mp hn)
    by_cases e : a = t
    · subst e
      have : r.count a = 0 := List.count_eq_zero.mpr hnr.1
      simp [List.count_cons, this]
    · have htr : t ∈ r := by
        rcases List.mem_cons.mp ht with e' | h'
        · exact absurd e'.symm e
        · exact h'
      simp [List.count_cons, e, ih hnr.2 htr]

end Pagexml.C20
