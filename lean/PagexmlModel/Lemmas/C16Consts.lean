/-
What the C16 theorems need to know about the literals regenerated from the source (Generated/C16.lean).
Every other proof of Lemmas/Para*.lean, MergeLines.lean and Props/C16.lean treats the regenerated values
as unknown (the defaults, the `„` literals, the blank of the detach test, the hyphen and the PMI threshold
of `line_ends_with_word_break`): the theorems hold for every value of them.  The RELATIONS needed are
stated here, each decided on the regenerated table: an edit of the source that breaks one of them breaks
exactly that obligation (and what is built on it).
-/
import PagexmlModel.Model.C16

namespace Pagexml.C16
open Pagexml.C17

/-- the prefix that `make_text_region_text` cuts off a line (`prev_line_text.startswith(S)` … `[1:]`) is the
    character it tested to be a break character (`S in word_break_chars`) when it set the flag: only a
    break character is ever removed (conservation) -/
theorem consts_quote_tested_is_stripped : Generated.C16.quoteTested = lowQuote := by decide

/-- what `make_line_text` appends to a line that is not merged is exactly one blank — the statement's
    "followed by exactly one space"; the model writes `lineText ++ [' ']` -/
theorem consts_line_pad_is_one_blank : Generated.C16.linePad = [' '] := by decide

/-- a detached trailing break character is set between single blanks (`f' {line_text[-1]} '`); the model
    writes `lineText.dropLast ++ [' ', l, ' ']`.  Conservation needs them to be whitespace only. -/
theorem consts_detach_pads_are_blanks :
    Generated.C16.detachPadBefore = [' '] ∧ Generated.C16.detachPadAfter = [' '] := by decide

end Pagexml.C16
