/-
Lemmas about the string model of C17 / C16: partial list operations, `strip`, the `\b` split,
the trailing-break normalisation and the token loop of `get_line_words`.
-/
import PagexmlModel.Model.C17

namespace Pagexml.C17

/-- the laws of CPython's character classes that the theorems use (they hold for every code point
    of the running CPython; the harness re-checks them on every character it sends) -/
structure CharClass.Lawful (cc : CharClass) : Prop where
  alpha_word : ∀ c, cc.isAlpha c = true → cc.isWord c = true
  space_not_word : ∀ c, cc.isSpace c = true → cc.isWord c = false
  blank_space : cc.isSpace ' ' = true

/-! ### partial operations -/

theorem pyLast_concat {α} (p : List α) (a : α) : pyLast (p ++ [a]) = .ok a := by
  induction p with
  | nil => rfl
  | cons b p ih =>
    cases p with
    | nil => rfl
    | cons c p => simpa [pyLast] using ih

theorem pyLast2_concat2 {α} (p : List α) (a b : α) : pyLast2 (p ++ [a, b]) = .ok a := by
  induction p with
  | nil => rfl
  | cons c p ih =>
    cases p with
    | nil => rfl
    | cons d p =>
      cases hq : p ++ [a, b] with
      | nil => simp at hq
      | cons e q =>
        have : (c :: d :: p) ++ [a, b] = c :: d :: e :: q := by simp [← hq]
        rw [this]
        simp only [pyLast2]
        have ih' : pyLast2 (d :: (p ++ [a, b])) = .ok a := by simpa using ih
        rw [hq] at ih'; exact ih'

theorem exists_concat {α} {s : List α} (h : s ≠ []) : ∃ p a, s = p ++ [a] := by
  refine ⟨s.dropLast, s.getLast h, ?_⟩
  exact (List.dropLast_concat_getLast h).symm

theorem exists_concat2 {α} {s : List α} (h : 2 ≤ s.length) : ∃ p a b, s = p ++ [a, b] := by
  have h1 : s ≠ [] := by intro e; simp [e] at h
  obtain ⟨q, b, rfl⟩ := exists_concat h1
  have h2 : q ≠ [] := by intro e; simp [e] at h
  obtain ⟨p, a, rfl⟩ := exists_concat h2
  exact ⟨p, a, b, by simp⟩

theorem pyLast_ok_of_ne_nil {α} {s : List α} (h : s ≠ []) : ∃ a, pyLast s = .ok a := by
  obtain ⟨p, a, rfl⟩ := exists_concat h
  exact ⟨a, pyLast_concat p a⟩

theorem pyLast_eq_ok {α} {s : List α} {a : α} (h : pyLast s = .ok a) : ∃ p, s = p ++ [a] := by
  by_cases hs : s = []
  · subst hs; simp [pyLast] at h
  · obtain ⟨p, b, rfl⟩ := exists_concat hs
    rw [pyLast_concat] at h
    cases h
    exact ⟨p, rfl⟩

theorem pyHead_cons {α} (a : α) (s : List α) : pyHead (a :: s) = .ok a := rfl

/-! ### strip -/

def notSpace (cc : CharClass) (c : Char) : Bool := !cc.isSpace c

theorem filter_dropWhile_space (cc : CharClass) (s : Str) :
    (s.dropWhile cc.isSpace).filter (notSpace cc) = s.filter (notSpace cc) := by
  induction s with
  | nil => rfl
  | cons c s ih =>
    by_cases h : cc.isSpace c = true
    · simp [h, notSpace, ih]
    · simp [h]

theorem lstrip_filter (cc : CharClass) (s : Str) :
    (lstrip cc s).filter (notSpace cc) = s.filter (notSpace cc) := filter_dropWhile_space cc s

theorem rstrip_filter (cc : CharClass) (s : Str) :
    (rstrip cc s).filter (notSpace cc) = s.filter (notSpace cc) := by
  unfold rstrip
  rw [List.filter_reverse, filter_dropWhile_space, List.filter_reverse, List.reverse_reverse]

theorem strip_filter (cc : CharClass) (s : Str) :
    (strip cc s).filter (notSpace cc) = s.filter (notSpace cc) := by
  unfold strip
  rw [rstrip_filter, lstrip_filter]

theorem dropWhile_head_not (cc : CharClass) (s : Str) (c : Char) (r : Str)
    (h : s.dropWhile cc.isSpace = c :: r) : cc.isSpace c = false := by
  induction s with
  | nil => simp at h
  | cons d s ih =>
    by_cases hd : cc.isSpace d = true
    · simp [hd] at h; exact ih h
    · simp [hd] at h
      obtain ⟨rfl, _⟩ := h
      simpa using hd

theorem mem_takeWhile_imp' {α} {p : α → Bool} {l : List α} {x : α} (hx : x ∈ l.takeWhile p) : p x = true := by
  induction l with
  | nil => simp at hx
  | cons a l ih =>
    by_cases ha : p a = true
    · simp [ha] at hx
      rcases hx with rfl | hx
      · exact ha
      · exact ih hx
    · simp [ha] at hx

/-- `rstrip` removes a (possibly empty) suffix of whitespace; what is left does not end in whitespace -/
theorem rstrip_spec (cc : CharClass) (s : Str) :
    ∃ t, s = rstrip cc s ++ t ∧ (∀ c ∈ t, cc.isSpace c = true) ∧
      (∀ p a, rstrip cc s = p ++ [a] → cc.isSpace a = false) := by
  unfold rstrip
  refine ⟨(s.reverse.takeWhile cc.isSpace).reverse, ?_, ?_, ?_⟩
  · have := List.takeWhile_append_dropWhile (p := cc.isSpace) (l := s.reverse)
    have h2 := congrArg List.reverse this
    simp only [List.reverse_append, List.reverse_reverse] at h2
    exact h2.symm
  · intro c hc
    have hc' : c ∈ s.reverse.takeWhile cc.isSpace := by simpa using hc
    exact mem_takeWhile_imp' hc'
  · intro p a h
    have h2 := congrArg List.reverse h
    simp only [List.reverse_reverse, List.reverse_append, List.reverse_cons, List.reverse_nil,
      List.nil_append, List.singleton_append] at h2
    exact dropWhile_head_not cc _ _ _ h2

theorem lstrip_spec (cc : CharClass) (s : Str) :
    ∃ t, s = t ++ lstrip cc s ∧ (∀ c ∈ t, cc.isSpace c = true) ∧
      (∀ a r, lstrip cc s = a :: r → cc.isSpace a = false) := by
  unfold lstrip
  refine ⟨s.takeWhile cc.isSpace, (List.takeWhile_append_dropWhile).symm, ?_, ?_⟩
  · intro c hc; exact mem_takeWhile_imp' hc
  · intro a r h; exact dropWhile_head_not cc _ _ _ h

/-- `strip`: whitespace removed at both ends only, and a non-empty result starts and ends with
    a non-whitespace character -/
theorem strip_spec (cc : CharClass) (s : Str) :
    ∃ t u, s = t ++ strip cc s ++ u ∧ (∀ c ∈ t, cc.isSpace c = true) ∧ (∀ c ∈ u, cc.isSpace c = true) ∧
      (∀ a r, strip cc s = a :: r → cc.isSpace a = false) ∧
      (∀ p a, strip cc s = p ++ [a] → cc.isSpace a = false) := by
  obtain ⟨t, ht, hts, hth⟩ := lstrip_spec cc s
  obtain ⟨u, hu, hus, hul⟩ := rstrip_spec cc (lstrip cc s)
  refine ⟨t, u, ?_, hts, hus, ?_, hul⟩
  · unfold strip
    rw [List.append_assoc, ← hu]; exact ht
  · intro a r h
    unfold strip at h
    rw [h] at hu
    exact hth a (r ++ u) (by rw [hu]; simp)

theorem strip_nonblank (cc : CharClass) (s : Str) (h : strip cc s ≠ []) :
    ∃ c ∈ strip cc s, cc.isSpace c = false := by
  obtain ⟨_, _, _, _, _, hh, _⟩ := strip_spec cc s
  cases hs : strip cc s with
  | nil => exact absurd hs h
  | cons a r => exact ⟨a, by simp, hh a r hs⟩

/-! ### re.split(r'\b') -/

/-- every character of the run is of the same `\w` class as its first character -/
def Homog (cc : CharClass) (t : Str) : Prop :=
  ∀ c ∈ t, ∀ d ∈ t, cc.isWord c = cc.isWord d

theorem splitRuns_spec (cc : CharClass) (s : Str) :
    (splitRuns cc s).flatten = s ∧ (∀ t ∈ splitRuns cc s, t ≠ []) ∧ (∀ t ∈ splitRuns cc s, Homog cc t) ∧
    (s ≠ [] → splitRuns cc s ≠ []) := by
  induction s with
  | nil => simp [splitRuns]
  | cons c cs ih =>
    obtain ⟨h1, h2, h3, h4⟩ := ih
    unfold splitRuns
    cases hr : splitRuns cc cs with
    | nil =>
      have : cs = [] := by
        by_cases hcs : cs = []
        · exact hcs
        · exact absurd hr (h4 hcs)
      subst this
      simp [Homog]
    | cons r rs =>
      rw [hr] at h1 h2 h3
      cases r with
      | nil => exact absurd rfl (h2 [] (by simp))
      | cons d r =>
        by_cases hw : cc.isWord c = cc.isWord d
        · simp only [hw, if_true]
          refine ⟨?_, ?_, ?_, by simp⟩
          · simpa using congrArg (List.cons c) h1
          · intro t ht
            rcases List.mem_cons.mp ht with rfl | ht
            · simp
            · exact h2 t (List.mem_cons_of_mem _ ht)
          · intro t ht
            rcases List.mem_cons.mp ht with rfl | ht
            · have hd := h3 (d :: r) (by simp)
              intro x hx y hy
              have ex : cc.isWord x = cc.isWord d := by
                rcases List.mem_cons.mp hx with rfl | hx
                · exact hw
                · exact hd x hx d (by simp)
              have ey : cc.isWord y = cc.isWord d := by
                rcases List.mem_cons.mp hy with rfl | hy
                · exact hw
                · exact hd y hy d (by simp)
              rw [ex, ey]
            · exact h3 t (List.mem_cons_of_mem _ ht)
        · simp only [hw, if_false]
          refine ⟨?_, ?_, ?_, by simp⟩
          · simpa using congrArg (List.cons c) h1
          · intro t ht
            rcases List.mem_cons.mp ht with rfl | ht
            · simp
            · exact h2 t ht
          · intro t ht
            rcases List.mem_cons.mp ht with rfl | ht
            · intro x hx y hy
              simp at hx hy
              rw [hx, hy]
            · exact h3 t ht

/-- dropping the empty pieces of `re.split(r'\b', s)` leaves the runs -/
theorem reSplitB_filter (cc : CharClass) (s : Str) :
    (reSplitB cc s).filter (fun t => t ≠ []) = splitRuns cc s := by
  obtain ⟨_, h2, _, _⟩ := splitRuns_spec cc s
  have hf : (splitRuns cc s).filter (fun t => decide (t ≠ [])) = splitRuns cc s := by
    apply List.filter_eq_self.mpr
    intro t ht; simpa using h2 t ht
  have he : ∀ b, (edge b).filter (fun t => decide (t ≠ [])) = [] := by
    intro b; cases b <;> simp [edge]
  cases s with
  | nil => simp [reSplitB, splitRuns]
  | cons c cs => simp only [reSplitB, List.filter_append, hf, he]; simp

/-! ### the trailing-break normalisation -/

/-- the statement's normalisation: one of a doubled trailing break character is dropped, and so is a
    blank before a trailing break character -/
def normTrail (B : BreakSet) : Str → Str
  | [] => []
  | [a] => [a]
  | [p, b] => if B b then (if B p then [p] else if p = ' ' then [b] else [p, b]) else [p, b]
  | a :: b :: c :: r => a :: normTrail B (b :: c :: r)

theorem normTrail_concat2 (B : BreakSet) (p : Str) (a b : Char) :
    normTrail B (p ++ [a, b]) = p ++ normTrail B [a, b] := by
  induction p with
  | nil => rfl
  | cons c p ih =>
    cases p with
    | nil => simp [normTrail]
    | cons d p =>
      have : (c :: d :: p) ++ [a, b] = c :: d :: (p ++ [a, b]) := rfl
      rw [this]
      cases hp : p ++ [a, b] with
      | nil => simp at hp
      | cons e q =>
        simp only [normTrail]
        rw [← hp]
        have ih' : normTrail B (d :: (p ++ [a, b])) = d :: p ++ normTrail B [a, b] := by simpa using ih
        rw [ih']; rfl

theorem normLine_eq (B : BreakSet) (s : Str) (h : s ≠ []) : normLine B s = .ok (normTrail B s) := by
  by_cases h2 : 2 ≤ s.length
  · obtain ⟨p, a, b, rfl⟩ := exists_concat2 h2
    have hl : pyLast (p ++ [a, b]) = .ok b := by
      have := pyLast_concat (p ++ [a]) b
      simpa using this
    have hd1 : (p ++ [a, b]).dropLast = p ++ [a] := by
      have : p ++ [a, b] = (p ++ [a]) ++ [b] := by simp
      rw [this, List.dropLast_concat]
    have hd2 : (p ++ [a]).dropLast = p := List.dropLast_concat
    rw [normTrail_concat2]
    unfold normLine
    simp only [hl, pyLast2_concat2, hd1, hd2]
    by_cases hb : B b = true <;> by_cases ha : B a = true <;> by_cases hsp : a = ' ' <;>
      simp [normTrail, hb, ha, hsp, bind, Except.bind, pure, Except.pure] <;> (split <;> rfl)
  · have : ∃ a, s = [a] := by
      cases s with
      | nil => exact absurd rfl h
      | cons a r =>
        cases r with
        | nil => exact ⟨a, rfl⟩
        | cons b r => simp at h2
    obtain ⟨a, rfl⟩ := this
    unfold normLine
    simp [pyLast, normTrail, bind, Except.bind, pure, Except.pure]

theorem normTrail_ne_nil (B : BreakSet) (s : Str) (h : s ≠ []) : normTrail B s ≠ [] := by
  by_cases h2 : 2 ≤ s.length
  · obtain ⟨p, a, b, rfl⟩ := exists_concat2 h2
    rw [normTrail_concat2]
    have : normTrail B [a, b] ≠ [] := by
      simp only [normTrail]; split <;> (try split) <;> (try split) <;> simp
    simp [this]
  · cases s with
    | nil => exact absurd rfl h
    | cons a r =>
      cases r with
      | nil => simp [normTrail]
      | cons b r => simp at h2

end Pagexml.C17
