/-
Algebra of analysers (C20): counters that agree token by token have the same totals;
`__add__` and `merge_analysers` add the counts of their arguments.
-/
import PagexmlModel.Lemmas.C20Analyser

set_option linter.unusedSectionVars false
set_option linter.unusedSimpArgs false

namespace Pagexml.C20

variable {L α : Type} [DecidableEq α]

/-! ### totals depend on the counts only -/

/-- all entries of key `k` removed -/
def cerase : Counter α → α → Counter α
  | [], _ => []
  | (j, n) :: r, k => if j = k then cerase r k else (j, n) :: cerase r k

theorem length_cerase_le (c : Counter α) (k : α) : (cerase c k).length ≤ c.length := by
  induction c with
  | nil => simp [cerase]
  | cons p r ih =>
    obtain ⟨j, n⟩ := p
    unfold cerase
    split
    · simp; omega
    · simp; omega

theorem ctotal_split (c : Counter α) (k : α) : ctotal c = cget c k + ctotal (cerase c k) := by
  induction c with
  | nil => rfl
  | cons p r ih =>
    obtain ⟨j, n⟩ := p
    unfold cerase
    by_cases h : j = k
    · simp only [h, if_true, ctotal_cons, cget_cons]; omega
    · simp only [h, if_false, ctotal_cons, cget_cons]; omega

theorem cget_erase (c : Counter α) (k t : α) : cget (cerase c k) t = if t = k then 0 else cget c t := by
  induction c with
  | nil => simp [cerase]
  | cons p r ih =>
    obtain ⟨j, n⟩ := p
    unfold cerase
    by_cases h : j = k
    · simp only [h, if_true, ih, cget_cons]
      by_cases ht : t = k
      · simp [ht]
      · have : ¬ k = t := fun e => ht e.symm
        simp [ht, this]
    · simp only [h, if_false, cget_cons, ih]
      by_cases ht : t = k
      · subst ht; simp [h]
      · simp [ht]

theorem ctotal_zero_of_cget_zero (y : Counter α) (h : ∀ t, cget y t = 0) : ctotal y = 0 := by
  induction y with
  | nil => rfl
  | cons p r ih =>
    obtain ⟨k, n⟩ := p
    have hk := h k
    simp only [cget_cons, if_true] at hk
    have hr : ∀ t, cget r t = 0 := by
      intro t
      have := h t
      simp only [cget_cons] at this
      omega
    simp only [ctotal_cons, ih hr]
    omega

/-- two counters with the same count for every token have the same `sum(values())` -/
theorem ctotal_congr (x y : Counter α) (h : ∀ t, cget x t = cget y t) : ctotal x = ctotal y := by
  generalize hn : x.length = n
  induction n using Nat.strongRecOn generalizing x y with
  | _ n ih =>
    cases x with
    | nil =>
      rw [ctotal_zero_of_cget_zero y (fun t => by rw [← h t]; rfl)]; rfl
    | cons p r =>
      obtain ⟨k, m⟩ := p
      rw [ctotal_split ((k, m) :: r) k, ctotal_split y k, h k]
      congr 1
      apply ih ((cerase ((k, m) :: r) k).length) _ _ _ _ rfl
      · subst hn
        have := length_cerase_le r k
        simp only [cerase, if_true, List.length_cons]
        omega
      · intro t
        rw [cget_erase, cget_erase, h t]

/-! ### analysers that agree token by token -/

/-- equality of analysers as Python sees it: `Counter.__eq__` compares counts (a missing key
    counts 0), `num_lines` is a number -/
structure AEquiv (x y : Analyser α) : Prop where
  all : ∀ t, cget x.all t = cget y.all t
  start : ∀ t, cget x.start t = cget y.start t
  mid : ∀ t, cget x.mid t = cget y.mid t
  end_ : ∀ t, cget x.end_ t = cget y.end_ t
  numLines : x.numLines = y.numLines

theorem AEquiv.refl (x : Analyser α) : AEquiv x x := ⟨fun _ => rfl, fun _ => rfl, fun _ => rfl, fun _ => rfl, rfl⟩

theorem AEquiv.symm {x y : Analyser α} (h : AEquiv x y) : AEquiv y x :=
  ⟨fun t => (h.all t).symm, fun t => (h.start t).symm, fun t => (h.mid t).symm, fun t => (h.end_ t).symm,
   h.numLines.symm⟩

theorem AEquiv.trans {x y z : Analyser α} (h : AEquiv x y) (g : AEquiv y z) : AEquiv x z :=
  ⟨fun t => (h.all t).trans (g.all t), fun t => (h.start t).trans (g.start t),
   fun t => (h.mid t).trans (g.mid t), fun t => (h.end_ t).trans (g.end_ t), h.numLines.trans g.numLines⟩

/-- the `stats` dict of an analyser -/
def statsOf (a : Analyser α) : Stats :=
  { totalAll := ctotal a.all, totalMid := ctotal a.mid, totalEnd := ctotal a.end_,
    totalStart := ctotal a.start, totalLines := a.numLines }

theorem statsOf_congr {x y : Analyser α} (h : AEquiv x y) : statsOf x = statsOf y := by
  simp only [statsOf, ctotal_congr _ _ h.all, ctotal_congr _ _ h.start, ctotal_congr _ _ h.mid,
    ctotal_congr _ _ h.end_, h.numLines]

theorem cpos_total_pos (c : Counter α) (h : CPos c) (hne : c ≠ []) : 0 < ctotal c := by
  cases c with
  | nil => exact absurd rfl hne
  | cons p r =>
    have := h p (by simp)
    rw [ctotal_cons]; omega

/-- `set_stats` does not raise when the stored counts of `all` are positive, and stores the
    four totals and the line count -/
theorem setStats_ok (a : Analyser α) (h : CPos a.all) :
    ∃ rows, setStats a = .ok (statsOf a, rows) ∧
      rows = (ckeys a.all).map (fun t => (t, (cget a.all t, ctotal a.all), guardedFrac (cget a.start t) (ctotal a.start),
              guardedFrac (cget a.mid t) (ctotal a.mid), guardedFrac (cget a.end_ t) (ctotal a.end_))) := by
  by_cases h0 : a.all = []
  · refine ⟨[], ?_, by simp [h0, ckeys]⟩
    simp [setStats, h0, ckeys, statsOf, bind, Except.bind, pure, Except.pure]
  · have hp : ctotal a.all ≠ 0 := by have := cpos_total_pos a.all h h0; omega
    refine ⟨_, ?_, rfl⟩
    simp only [setStats, hp, if_false, mapM_ok, bind, Except.bind, pure, Except.pure, statsOf]

theorem withStats_ok (a : Analyser α) (h : CPos a.all) : withStats a = .ok (a, statsOf a) := by
  obtain ⟨rows, hs, _⟩ := setStats_ok a h
  simp [withStats, hs]

theorem relFrac_ok (f fa : Frac) (h : ¬ fa.1 = 0) : ∃ r, relFrac f fa = .ok r := by
  unfold relFrac
  simp only [h, if_false]
  split <;> exact ⟨_, rfl⟩

/-- `get_stats` does not raise either -/
theorem getStats_ok (a : Analyser α) (h : CPos a.all) :
    ∃ rows, getStats a = .ok rows ∧ rows.length = (ckeys a.all).length := by
  obtain ⟨rows, hs, hr⟩ := setStats_ok a h
  simp only [getStats, hs, bind, Except.bind]
  subst hr
  obtain ⟨ys, hys, hl⟩ := mapM_ok_of_forall (statRow a)
    ((ckeys a.all).map (fun t => (t, (cget a.all t, ctotal a.all), guardedFrac (cget a.start t) (ctotal a.start),
              guardedFrac (cget a.mid t) (ctotal a.mid), guardedFrac (cget a.end_ t) (ctotal a.end_)))) (by
      intro x hx
      obtain ⟨t, ht, rfl⟩ := List.mem_map.mp hx
      have hpos := cget_pos_of_mem a.all h t ht
      have hne : ¬ cget a.all t = 0 := by omega
      obtain ⟨r1, h1⟩ := relFrac_ok (guardedFrac (cget a.start t) (ctotal a.start)) (cget a.all t, ctotal a.all) hne
      obtain ⟨r2, h2⟩ := relFrac_ok (guardedFrac (cget a.mid t) (ctotal a.mid)) (cget a.all t, ctotal a.all) hne
      obtain ⟨r3, h3⟩ := relFrac_ok (guardedFrac (cget a.end_ t) (ctotal a.end_)) (cget a.all t, ctotal a.all) hne
      simp only [statRow, h1, h2, h3, bind, Except.bind, pure, Except.pure]
      exact ⟨_, rfl⟩)
  exact ⟨ys, hys, by simpa using hl⟩

/-! ### `__add__` -/

theorem addCore_spec (a b : Analyser α) :
    (∀ t, cget (addCore a b).all t = cget a.all t + cget b.all t) ∧
    (∀ t, cget (addCore a b).start t = cget a.start t + cget b.start t) ∧
    (∀ t, cget (addCore a b).mid t = cget a.mid t + cget b.mid t) ∧
    (∀ t, cget (addCore a b).end_ t = cget a.end_ t + cget b.end_ t) ∧
    (addCore a b).numLines = a.numLines + b.numLines ∧ CPos (addCore a b).all :=
  ⟨fun t => cget_cadd _ _ t, fun t => cget_cadd _ _ t, fun t => cget_cadd _ _ t, fun t => cget_cadd _ _ t, rfl,
   cpos_cadd _ _⟩

/-! ### `merge_analysers` -/

/-- the loop of `mergeOne` over a part `l` of the entries of `a.all` -/
def mergeFold (a : Analyser α) (l : Counter α) (m : Analyser α) : Analyser α :=
  l.foldl (fun m p =>
    { m with
      all := cinc m.all p.1 p.2,
      start := if chas a.start p.1 then cinc m.start p.1 (cget a.start p.1) else m.start,
      mid := if chas a.mid p.1 then cinc m.mid p.1 (cget a.mid p.1) else m.mid,
      end_ := if chas a.end_ p.1 then cinc m.end_ p.1 (cget a.end_ p.1) else m.end_ }) m

theorem mergeOne_eq (m a : Analyser α) : mergeOne m a = mergeFold a a.all m := rfl

/-- adding `c[k]` when `k in c`, nothing otherwise, adds `c[k]` in both cases -/
theorem cget_guarded_cinc (c x : Counter α) (k t : α) :
    cget (if chas c k then cinc x k (cget c k) else x) t = cget x t + (if k = t then cget c k else 0) := by
  by_cases h : chas c k = true
  · simp only [h, if_true, cget_cinc]
  · have hk : k ∉ ckeys c := fun hm => h ((chas_iff c k).mpr hm)
    simp [h, cget_eq_zero_of_not_mem c k hk]

theorem mergeFold_spec (a : Analyser α) (l : Counter α) (m : Analyser α) (t : α) :
    cget (mergeFold a l m).all t = cget m.all t + cget l t ∧
    cget (mergeFold a l m).start t = cget m.start t + (ckeys l).count t * cget a.start t ∧
    cget (mergeFold a l m).mid t = cget m.mid t + (ckeys l).count t * cget a.mid t ∧
    cget (mergeFold a l m).end_ t = cget m.end_ t + (ckeys l).count t * cget a.end_ t ∧
    (mergeFold a l m).numLines = m.numLines := by
  induction l generalizing m with
  | nil => simp [mergeFold, ckeys]
  | cons p r ih =>
    obtain ⟨k, n⟩ := p
    have := ih { m with
      all := cinc m.all k n,
      start := if chas a.start k then cinc m.start k (cget a.start k) else m.start,
      mid := if chas a.mid k then cinc m.mid k (cget a.mid k) else m.mid,
      end_ := if chas a.end_ k then cinc m.end_ k (cget a.end_ k) else m.end_ }
    obtain ⟨h1, h2, h3, h4, h5⟩ := this
    simp only [mergeFold, List.foldl_cons] at h1 h2 h3 h4 h5 ⊢
    refine ⟨?_, ?_, ?_, ?_, h5⟩
    · rw [h1, cget_cinc, cget_cons]; omega
    · rw [h2, cget_guarded_cinc]
      simp only [ckeys, List.map_cons, List.count_cons]
      by_cases hk : k = t
      · subst hk; simp [Nat.add_mul]; omega
      · simp [hk]
    · rw [h3, cget_guarded_cinc]
      simp only [ckeys, List.map_cons, List.count_cons]
      by_cases hk : k = t
      · subst hk; simp [Nat.add_mul]; omega
      · simp [hk]
    · rw [h4, cget_guarded_cinc]
      simp only [ckeys, List.map_cons, List.count_cons]
      by_cases hk : k = t
      · subst hk; simp [Nat.add_mul]; omega
      · simp [hk]

/-- what `merge_analysers` silently relies on: the keys of `all` are unique (a dict) and
    every token counted at the start, middle or end is a key of `all` -/
structure AWF (a : Analyser α) : Prop where
  nodup : (ckeys a.all).Nodup
  start : ∀ t, t ∉ ckeys a.all → cget a.start t = 0
  mid : ∀ t, t ∉ ckeys a.all → cget a.mid t = 0
  end_ : ∀ t, t ∉ ckeys a.all → cget a.end_ t = 0

theorem count_mul_of_wf (ks : List α) (hn : ks.Nodup) (t : α) (v : Nat) (h0 : t ∉ ks → v = 0) :
    ks.count t * v = v := by
  by_cases ht : t ∈ ks
  · have : ks.count t = 1 := by
      induction ks with
      | nil => cases ht
      | cons a r ih =>
        have hnr := (List.nodup_cons.mp hn)
        by_cases e : a = t
        · subst e
          have : r.count a = 0 := List.count_eq_zero.mpr hnr.1
          simp [List.count_cons, this]
        · have htr : t ∈ r := by
            rcases List.mem_cons.mp ht with e' | h'
            · exact absurd e'.symm e
            · exact h'
          simp [List.count_cons, e, ih hnr.2 (fun h => absurd htr h) htr]
    rw [this]; omega
  · rw [h0 ht]; simp

theorem mergeOne_spec (m a : Analyser α) (h : AWF a) (t : α) :
    cget (mergeOne m a).all t = cget m.all t + cget a.all t ∧
    cget (mergeOne m a).start t = cget m.start t + cget a.start t ∧
    cget (mergeOne m a).mid t = cget m.mid t + cget a.mid t ∧
    cget (mergeOne m a).end_ t = cget m.end_ t + cget a.end_ t ∧
    (mergeOne m a).numLines = m.numLines := by
  obtain ⟨h1, h2, h3, h4, h5⟩ := mergeFold_spec a a.all m t
  rw [mergeOne_eq]
  refine ⟨h1, ?_, ?_, ?_, h5⟩
  · rw [h2, count_mul_of_wf _ h.nodup t _ (h.start t)]
  · rw [h3, count_mul_of_wf _ h.nodup t _ (h.mid t)]
  · rw [h4, count_mul_of_wf _ h.nodup t _ (h.end_ t)]

theorem foldl_mergeOne_spec (as : List (Analyser α)) (m : Analyser α) (h : ∀ a ∈ as, AWF a) (t : α) :
    cget (as.foldl mergeOne m).all t = cget m.all t + (as.map (fun a => cget a.all t)).sum ∧
    cget (as.foldl mergeOne m).start t = cget m.start t + (as.map (fun a => cget a.start t)).sum ∧
    cget (as.foldl mergeOne m).mid t = cget m.mid t + (as.map (fun a => cget a.mid t)).sum ∧
    cget (as.foldl mergeOne m).end_ t = cget m.end_ t + (as.map (fun a => cget a.end_ t)).sum := by
  induction as generalizing m with
  | nil => simp
  | cons a r ih =>
    obtain ⟨h1, h2, h3, h4, _⟩ := mergeOne_spec m a (h a (by simp)) t
    obtain ⟨g1, g2, g3, g4⟩ := ih (mergeOne m a) (fun b hb => h b (List.mem_cons_of_mem _ hb))
    simp only [List.foldl_cons, List.map_cons, List.sum_cons]
    refine ⟨?_, ?_, ?_, ?_⟩ <;> omega

/-- positivity of the merged `all` counter -/
theorem cpos_mergeFold (a : Analyser α) (l : Counter α) (m : Analyser α) (hm : CPos m.all) (hl : CPos l) :
    CPos (mergeFold a l m).all := by
  induction l generalizing m with
  | nil => simpa [mergeFold] using hm
  | cons p r ih =>
    simp only [mergeFold, List.foldl_cons]
    apply ih
    · exact cpos_cinc _ _ _ hm (hl p (by simp))
    · exact fun q hq => hl q (List.mem_cons_of_mem _ hq)

theorem cpos_foldl_mergeOne (as : List (Analyser α)) (m : Analyser α) (hm : CPos m.all)
    (h : ∀ a ∈ as, CPos a.all) : CPos (as.foldl mergeOne m).all := by
  induction as generalizing m with
  | nil => simpa using hm
  | cons a r ih =>
    simp only [List.foldl_cons]
    apply ih
    · rw [mergeOne_eq]; exact cpos_mergeFold a a.all m hm (h a (by simp))
    · exact fun b hb => h b (List.mem_cons_of_mem _ hb)

/-! ### analysed corpora satisfy the invariants -/

/-- the end-token picker returns tokens of the line -/
def SubPick (e : List α → List α) : Prop := ∀ ws t, (e ws).count t ≤ ws.count t

theorem subPick_endW : SubPick (endW : List α → List α) := by
  intro ws t
  cases ws with
  | nil => simp [endW]
  | cons w r =>
    apply List.Sublist.count_le
    simp only [endW, List.singleton_sublist]
    exact List.getLast_mem _

theorem subPick_endC : SubPick (endC : List α → List α) := by
  intro ws t
  unfold endC
  split
  · exact subPick_endW ws t
  · simp

theorem count_startOf_le (ws : List α) (t : α) : (startOf ws).count t ≤ ws.count t :=
  List.Sublist.count_le t (List.take_sublist 1 ws)

theorem count_midOf_le (ws : List α) (t : α) : (midOf ws).count t ≤ ws.count t :=
  List.Sublist.count_le t ((List.dropLast_sublist _).trans (List.drop_sublist 1 ws))

theorem count_flatMap_le (f : List α → List α) (h : ∀ ws t, (f ws).count t ≤ ws.count t) (tls : List (List α)) (t : α) :
    (tls.flatMap f).count t ≤ tls.flatten.count t := by
  induction tls with
  | nil => simp
  | cons ws r ih =>
    simp only [List.flatMap_cons, List.flatten_cons, List.count_append]
    have := h ws t
    omega

/-- the analyser of a list of token lists (from the empty analyser) -/
def analysed (e : List α → List α) (k : Nat) (tls : List (List α)) : Analyser α := tls.foldl (stepG e k) {}

theorem analysed_eq (e : List α → List α) (k : Nat) (tls : List (List α)) :
    analysed e k tls =
      { all := cupdate [] tls.flatten, start := cupdate [] (tls.flatMap startOf),
        mid := cupdate [] (tls.flatMap midOf), end_ := cupdate [] (tls.flatMap e),
        numLines := k * tls.length } := by
  simp [analysed, foldG_eq]

theorem analysed_cget (e : List α → List α) (k : Nat) (tls : List (List α)) (t : α) :
    cget (analysed e k tls).all t = tls.flatten.count t ∧
    cget (analysed e k tls).start t = (tls.flatMap startOf).count t ∧
    cget (analysed e k tls).mid t = (tls.flatMap midOf).count t ∧
    cget (analysed e k tls).end_ t = (tls.flatMap e).count t := by
  rw [analysed_eq]
  simp [cget_cupdate]

theorem analysed_cpos (e : List α → List α) (k : Nat) (tls : List (List α)) : CPos (analysed e k tls).all := by
  rw [analysed_eq]; exact cpos_cupdate _ _ cpos_nil

theorem analysed_wf (e : List α → List α) (he : SubPick e) (k : Nat) (tls : List (List α)) :
    AWF (analysed e k tls) := by
  have key : ∀ t, t ∉ ckeys (analysed e k tls).all → tls.flatten.count t = 0 := by
    intro t ht
    rw [← (analysed_cget e k tls t).1]
    exact cget_eq_zero_of_not_mem _ _ ht
  refine ⟨?_, ?_, ?_, ?_⟩
  · rw [analysed_eq]; exact nodup_ckeys_cupdate _ _ (by simp [ckeys])
  · intro t ht
    rw [(analysed_cget e k tls t).2.1]
    have := count_flatMap_le startOf count_startOf_le tls t
    have := key t ht
    omega
  · intro t ht
    rw [(analysed_cget e k tls t).2.2.1]
    have := count_flatMap_le midOf count_midOf_le tls t
    have := key t ht
    omega
  · intro t ht
    rw [(analysed_cget e k tls t).2.2.2]
    have := count_flatMap_le e he tls t
    have := key t ht
    omega

/-- adding two analysed corpora = analysing the concatenation -/
theorem add_analysed (e : List α → List α) (k : Nat) (xs ys : List (List α)) :
    AEquiv (addCore (analysed e k xs) (analysed e k ys)) (analysed e k (xs ++ ys)) := by
  obtain ⟨a1, a2, a3, a4, a5, _⟩ := addCore_spec (analysed e k xs) (analysed e k ys)
  refine ⟨?_, ?_, ?_, ?_, ?_⟩
  · intro t; rw [a1, (analysed_cget e k xs t).1, (analysed_cget e k ys t).1, (analysed_cget e k _ t).1]; simp
  · intro t; rw [a2, (analysed_cget e k xs t).2.1, (analysed_cget e k ys t).2.1, (analysed_cget e k _ t).2.1]; simp
  · intro t; rw [a3, (analysed_cget e k xs t).2.2.1, (analysed_cget e k ys t).2.2.1, (analysed_cget e k _ t).2.2.1]; simp
  · intro t; rw [a4, (analysed_cget e k xs t).2.2.2, (analysed_cget e k ys t).2.2.2, (analysed_cget e k _ t).2.2.2]; simp
  · rw [a5]; simp [analysed_eq, Nat.mul_add]

theorem sum_map_count_flatMap (f : List α → List α) (xss : List (List (List α))) (t : α) :
    (xss.map (fun xs => (xs.flatMap f).count t)).sum = (xss.flatten.flatMap f).count t := by
  induction xss with
  | nil => rfl
  | cons xs r ih => simp [List.flatMap_append, List.count_append, ih]

theorem sum_map_count_flatten (xss : List (List (List α))) (t : α) :
    (xss.map (fun xs => xs.flatten.count t)).sum = xss.flatten.flatten.count t := by
  induction xss with
  | nil => rfl
  | cons xs r ih => simp only [List.map_cons, List.sum_cons, List.flatten_cons, List.flatten_append, List.count_append, ih]

theorem sum_mul_length {β : Type} (k : Nat) (xss : List (List β)) :
    (xss.map (fun xs => k * xs.length)).sum = k * xss.flatten.length := by
  induction xss with
  | nil => simp
  | cons xs r ih => simp only [List.map_cons, List.sum_cons, List.flatten_cons, List.length_append, Nat.mul_add, ih]

/-- merging analysed corpora = analysing the concatenation -/
theorem merge_analysed (e : List α → List α) (he : SubPick e) (k : Nat) (xss : List (List (List α))) :
    AEquiv (mergeCore (xss.map (analysed e k))) (analysed e k xss.flatten) := by
  have hwf : ∀ a ∈ xss.map (analysed e k), AWF a := by
    intro a ha
    obtain ⟨xs, _, rfl⟩ := List.mem_map.mp ha
    exact analysed_wf e he k xs
  refine ⟨?_, ?_, ?_, ?_, ?_⟩
  · intro t
    have := (foldl_mergeOne_spec (xss.map (analysed e k)) {} hwf t).1
    simp only [mergeCore]
    rw [this, (analysed_cget e k _ t).1, List.map_map]
    have h2 : ((fun a : Analyser α => cget a.all t) ∘ analysed e k) = fun xs => xs.flatten.count t := by
      funext xs; simp [(analysed_cget e k xs t).1]
    rw [h2, sum_map_count_flatten]; simp
  · intro t
    have := (foldl_mergeOne_spec (xss.map (analysed e k)) {} hwf t).2.1
    simp only [mergeCore]
    rw [this, (analysed_cget e k _ t).2.1, List.map_map]
    have h2 : ((fun a : Analyser α => cget a.start t) ∘ analysed e k) = fun xs => (xs.flatMap startOf).count t := by
      funext xs; simp [(analysed_cget e k xs t).2.1]
    rw [h2, sum_map_count_flatMap]; simp
  · intro t
    have := (foldl_mergeOne_spec (xss.map (analysed e k)) {} hwf t).2.2.1
    simp only [mergeCore]
    rw [this, (analysed_cget e k _ t).2.2.1, List.map_map]
    have h2 : ((fun a : Analyser α => cget a.mid t) ∘ analysed e k) = fun xs => (xs.flatMap midOf).count t := by
      funext xs; simp [(analysed_cget e k xs t).2.2.1]
    rw [h2, sum_map_count_flatMap]; simp
  · intro t
    have := (foldl_mergeOne_spec (xss.map (analysed e k)) {} hwf t).2.2.2
    simp only [mergeCore]
    rw [this, (analysed_cget e k _ t).2.2.2, List.map_map]
    have h2 : ((fun a : Analyser α => cget a.end_ t) ∘ analysed e k) = fun xs => (xs.flatMap e).count t := by
      funext xs; simp [(analysed_cget e k xs t).2.2.2]
    rw [h2, sum_map_count_flatMap]; simp
  · simp only [mergeCore, List.map_map]
    have : ((fun a : Analyser α => a.numLines) ∘ analysed e k) = fun xs => k * xs.length := by
      funext xs; simp [analysed_eq]
    rw [this]
    simp only [analysed_eq]
    rw [sum_mul_length]

theorem merge_cpos (e : List α → List α) (k : Nat) (xss : List (List (List α))) :
    CPos (mergeCore (xss.map (analysed e k))).all := by
  simp only [mergeCore]
  apply cpos_foldl_mergeOne
  · exact cpos_nil
  · intro a ha
    obtain ⟨xs, _, rfl⟩ := List.mem_map.mp ha
    exact analysed_cpos e k xs

end Pagexml.C20
