/-
C18 helper lemmas, part 7: every step of the column splitting commutes with a translation
of all lines by (dx, dy).
-/
import PagexmlModel.Lemmas.C18Cons

namespace Pagexml.C18

variable (dx dy : Int)

def trR (dx : Int) (ρ : Int × Int) : Int × Int := (ρ.1 + dx, ρ.2 + dx)

abbrev trL (dx dy : Int) (ls : List Line) : List Line := ls.map (Line.tr dx dy)
abbrev trC (dx dy : Int) (cs : List Col) : List Col := cs.map (Col.tr dx dy)

/-! ### shifting the arguments of the overlap computations -/

theorem half_shift (l r s e dx : Int) :
    (if min (r + dx) (e + dx) > max (l + dx) (s + dx) then min (r + dx) (e + dx) - max (l + dx) (s + dx) else 0) =
    (if min r e > max l s then min r e - max l s else 0) := by
  split <;> split <;> omega

theorem overlap_shift (al ar bl br dx : Int) :
    (if min (ar + dx) (br + dx) ≥ max (al + dx) (bl + dx) then min (ar + dx) (br + dx) - max (al + dx) (bl + dx) + 1 else 0) =
    (if min ar br ≥ max al bl then min ar br - max al bl + 1 else 0) := by
  split <;> split <;> omega

/-! ### folds and pixels -/

theorem minLeft_tr (a : Int) (ls : List Line) : minLeft (a + dx) (trL dx dy ls) = minLeft a ls + dx := by
  induction ls with
  | nil => rfl
  | cons l ls ih => simp only [trL, List.map_cons, minLeft] at *; rw [ih]; simp [Line.tr, Box.tr]

theorem maxRight_tr (a : Int) (ls : List Line) : maxRight (a + dx) (trL dx dy ls) = maxRight a ls + dx := by
  induction ls with
  | nil => rfl
  | cons l ls ih => simp only [trL, List.map_cons, maxRight] at *; rw [ih]; simp [Line.tr, Box.tr]

theorem minTop_tr (a : Int) (ls : List Line) : minTop (a + dy) (trL dx dy ls) = minTop a ls + dy := by
  induction ls with
  | nil => rfl
  | cons l ls ih => simp only [trL, List.map_cons, minTop] at *; rw [ih]; simp [Line.tr, Box.tr]

theorem maxBottom_tr (a : Int) (ls : List Line) : maxBottom (a + dy) (trL dx dy ls) = maxBottom a ls + dy := by
  induction ls with
  | nil => rfl
  | cons l ls ih => simp only [trL, List.map_cons, maxBottom] at *; rw [ih]; simp [Line.tr, Box.tr]

theorem covered_tr (ls : List Line) (p : Int) : covered (trL dx dy ls) (p + dx) = covered ls p := by
  simp only [covered, trL, List.any_map]
  congr 1
  funext l
  simp only [Function.comp, covers, Line.tr, Box.tr]
  rw [Bool.eq_iff_iff]
  simp

theorem intRange_tr (lo : Int) (n : Nat) : intRange (lo + dx) n = (intRange lo n).map (· + dx) := by
  simp only [intRange, List.map_map]
  apply List.map_congr_left
  intro i _
  simp only [Function.comp]
  omega

theorem pixels_tr (ls : List Line) : pixels (trL dx dy ls) = (pixels ls).map (· + dx) := by
  cases ls with
  | nil => rfl
  | cons a as =>
    have e1 : minLeft (a.box.l + dx) (trL dx dy as) = minLeft a.box.l as + dx := minLeft_tr dx dy _ _
    have e2 : maxRight (a.box.r + dx) (trL dx dy as) = maxRight a.box.r as + dx := maxRight_tr dx dy _ _
    simp only [trL, List.map_cons, pixels]
    simp only [trL] at e1 e2
    simp only [Line.tr, Box.tr] at e1 e2 ⊢
    rw [e1, e2]
    have e3 : (maxRight a.box.r as + dx - (minLeft a.box.l as + dx) + 1) =
        (maxRight a.box.r as - minLeft a.box.l as + 1) := by omega
    rw [e3, intRange_tr, List.filter_map]
    congr 1
    apply List.filter_congr
    intro p _
    have := covered_tr dx dy (a :: as) p
    simp only [trL, List.map_cons, Line.tr, Box.tr] at this
    simpa [Function.comp] using this

/-! ### gap intervals and ranges -/

theorem gapGo_tr (thr s e : Int) (xs : List Int) :
    gapGo thr (s + dx) (e + dx) (xs.map (· + dx)) = (gapGo thr s e xs).map (trR dx) := by
  induction xs generalizing s e with
  | nil => rfl
  | cons p ps ih =>
    simp only [List.map_cons, gapGo]
    have : (p + dx - (e + dx) < max thr gapMin) ↔ (p - e < max thr gapMin) := by omega
    by_cases h : p - e < max thr gapMin
    · rw [if_pos h, if_pos (this.mpr h)]; exact ih s p
    · rw [if_neg h, if_neg (fun h' => h (this.mp h'))]
      simp only [List.map_cons]
      rw [ih p p]; rfl

theorem gapIntervals_tr (thr : Int) (xs : List Int) :
    gapIntervals thr (xs.map (· + dx)) = (gapIntervals thr xs).map (trR dx) := by
  cases xs with
  | nil => rfl
  | cons p ps => exact gapGo_tr dx thr p p ps

theorem columnRanges_tr (thr mcw : Int) (ls : List Line) :
    columnRanges thr mcw (trL dx dy ls) = (columnRanges thr mcw ls).map (trR dx) := by
  simp only [columnRanges, pixels_tr, gapIntervals_tr, List.filter_map]
  congr 1
  apply List.filter_congr
  intro ρ _
  simp only [Function.comp, trR]
  rw [Bool.eq_iff_iff]
  simp <;> omega

/-! ### within_column, sorting into ranges -/

theorem hit_tr (l : Line) (ρ : Int × Int) : hit (l.tr dx dy) (trR dx ρ) = hit l ρ := by
  rw [Bool.eq_iff_iff, hit_iff, hit_iff]
  have h : ovl (l.tr dx dy) (trR dx ρ) = ovl l ρ := half_shift l.box.l l.box.r ρ.1 ρ.2 dx
  have hw : (l.tr dx dy).box.r - (l.tr dx dy).box.l = l.box.r - l.box.l := by
    simp only [Line.tr, Box.tr]; omega
  rw [h, hw]

theorem colLines_tr (ls : List Line) (rs : List (Int × Int)) :
    colLines (trL dx dy ls) (rs.map (trR dx)) = (colLines ls rs).map (trL dx dy) := by
  simp only [colLines, List.map_map]
  apply List.map_congr_left
  intro ρ _
  simp only [Function.comp, trL, List.filter_map]
  congr 1
  apply List.filter_congr
  intro l _
  simp only [Function.comp]
  exact hit_tr dx dy l ρ

theorem extraLines_tr (ls : List Line) (rs : List (Int × Int)) :
    extraLines (trL dx dy ls) (rs.map (trR dx)) = trL dx dy (extraLines ls rs) := by
  simp only [extraLines, trL, List.filter_map]
  congr 1
  apply List.filter_congr
  intro l _
  simp only [Function.comp, List.any_map]
  congr 2
  funext ρ
  exact hit_tr dx dy l ρ

/-! ### boxes, ids -/

theorem hullBox_tr (ls : List Line) :
    hullBox (trL dx dy ls) = (hullBox ls).map (Box.tr dx dy) := by
  cases ls with
  | nil => rfl
  | cons a as =>
    have e1 := minLeft_tr dx dy a.box.l as
    have e2 := maxRight_tr dx dy a.box.r as
    have e3 := minTop_tr dx dy a.box.t as
    have e4 := maxBottom_tr dx dy a.box.b as
    simp only [trL] at e1 e2 e3 e4
    simp only [trL, List.map_cons, hullBox, Except.map, bbox, Box.tr, Line.tr]
    rw [e1, e2, e3, e4]

theorem truthy_tr (p : PyId) : (p.tr dx dy).truthy = p.truthy := by
  cases p <;> rfl

theorem base_tr (g : RegInfo) : (g.tr dx dy).base = g.base.tr dx dy := by
  obtain ⟨i, par⟩ := g
  cases par with
  | none => rfl
  | some p =>
    show (if (p.tr dx dy).truthy then p.tr dx dy else i.tr dx dy) = PyId.tr dx dy (if p.truthy then p else i)
    rw [truthy_tr]
    split <;> rfl

theorem parentHasId_tr (g : RegInfo) : (g.tr dx dy).parentHasId = g.parentHasId := by
  obtain ⟨i, par⟩ := g
  cases par with
  | none => rfl
  | some p => simp [RegInfo.parentHasId, RegInfo.tr, truthy_tr]

theorem width_tr (b : Box) : (b.tr dx dy).width = b.width := by
  simp only [Box.tr, Box.width]; omega

theorem hOverlap_tr (a b : Box) : hOverlap (a.tr dx dy) (b.tr dx dy) = hOverlap a b :=
  overlap_shift a.l a.r b.l b.r dx

theorem isHOverlapping_tr (a b : Box) :
    isHOverlapping (a.tr dx dy) (b.tr dx dy) = isHOverlapping a b := by
  simp only [isHOverlapping, width_tr, hOverlap_tr]
  simp only [Box.tr]
  by_cases c1 : a.width = 0 ∧ b.width = 0
  · simp only [if_pos c1]
  · simp only [if_neg c1]
    by_cases c2 : a.width = 0
    · simp only [if_pos c2]; rw [Bool.eq_iff_iff]; simp
    · simp only [if_neg c2]
      by_cases c3 : b.width = 0
      · simp only [if_pos c3]; rw [Bool.eq_iff_iff]; simp
      · simp only [if_neg c3]

theorem colLt_tr (a b : Col) : colLt (a.tr dx dy) (b.tr dx dy) = colLt a b := by
  simp only [colLt, Col.tr, isHOverlapping_tr]
  simp only [Box.tr]
  split
  · rw [Bool.eq_iff_iff]; simp
  · rw [Bool.eq_iff_iff]; simp

/-! ### make_column_range_columns, sort, merge -/

theorem makeRangeCols_tr (g : RegInfo) (cl : List (List Line)) :
    makeRangeCols (g.tr dx dy) (cl.map (trL dx dy)) = (makeRangeCols g cl).map (trC dx dy) := by
  induction cl with
  | nil => rfl
  | cons ls rest ih =>
    simp only [List.map_cons, makeRangeCols]
    have he : (trL dx dy ls).isEmpty = ls.isEmpty := by cases ls <;> rfl
    rw [he]
    split
    · exact ih
    · rw [hullBox_tr, ih]
      cases hullBox ls with
      | error e => rfl
      | ok b =>
        cases makeRangeCols g rest with
        | error e => rfl
        | ok cs =>
          simp only [Except.map, bind, Except.bind, pure, Except.pure, trC, List.map_cons, Col.tr, base_tr, PyId.tr]

theorem insertCol_tr (x : Col) (ys : List Col) :
    insertCol (x.tr dx dy) (trC dx dy ys) = trC dx dy (insertCol x ys) := by
  simp only [trC]
  induction ys with
  | nil => rfl
  | cons y ys ih =>
    simp only [List.map_cons, insertCol, colLt_tr]
    split
    · rfl
    · simp only [List.map_cons]; rw [ih]

theorem sortCols_tr (cs : List Col) : sortCols (trC dx dy cs) = trC dx dy (sortCols cs) := by
  simp only [trC]
  induction cs with
  | nil => rfl
  | cons c cs ih =>
    simp only [List.map_cons, sortCols]
    rw [ih]
    exact insertCol_tr dx dy c (sortCols cs)

theorem anyAdjOverlap_tr (cs : List Col) : anyAdjOverlap (trC dx dy cs) = anyAdjOverlap cs := by
  induction cs with
  | nil => rfl
  | cons a t ih =>
    cases t with
    | nil => rfl
    | cons b rest =>
      simp only [trC, List.map_cons, anyAdjOverlap] at ih ⊢
      rw [ih]
      simp only [Col.tr, isHOverlapping_tr]

theorem mergeOverlapping_tr (cs : List Col) :
    mergeOverlapping (trC dx dy cs) = (mergeOverlapping cs).map (trC dx dy) := by
  simp only [mergeOverlapping, sortCols_tr, anyAdjOverlap_tr]
  split <;> rfl

end Pagexml.C18
