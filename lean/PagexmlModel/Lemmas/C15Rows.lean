/-
Clean rows: the grouping loop run on any shuffle of a clean arrangement of rows returns the
rows, top to bottom, each left to right.
-/
import PagexmlModel.Lemmas.C15Clean

namespace Pagexml.C15

open List

/-- rows of a clean layout, listed top to bottom, each row left to right (missing cells are
    simply absent): no row empty, every line clean, neighbours in a row side by side, every
    line of a row completely above every line of each later row -/
def CleanRows (rows : List (List Line)) : Prop :=
  (∀ r ∈ rows, r ≠ [] ∧ (∀ l ∈ r, CleanLine l) ∧ r.Pairwise SideBySide) ∧
  rows.Pairwise (fun r1 r2 => ∀ a ∈ r1, ∀ b ∈ r2, Above a b)

instance (rows : List (List Line)) : Decidable (CleanRows rows) := by
  unfold CleanRows; infer_instance

theorem CleanRows.tail {r : List Line} {rows : List (List Line)} (h : CleanRows (r :: rows)) : CleanRows rows :=
  ⟨fun r' hr' => h.1 r' (mem_cons_of_mem _ hr'), (pairwise_cons.mp h.2).2⟩

theorem CleanRows.clean_flatten {rows : List (List Line)} (h : CleanRows rows) :
    ∀ l ∈ rows.flatten, CleanLine l := by
  intro l hl
  obtain ⟨r, hr, hlr⟩ := mem_flatten.mp hl
  exact (h.1 r hr).2.1 l hlr

/-- row by row a permutation -/
inductive PermRows : List (List Line) → List (List Line) → Prop
  | nil : PermRows [] []
  | cons {x r : List Line} {xs rs : List (List Line)} : x ~ r → PermRows xs rs → PermRows (x :: xs) (r :: rs)

def SideSym (a b : Line) : Prop := SideBySide a b ∨ SideBySide b a

theorem sideSym_rel {a b : Line} (ha : CleanLine a) (hb : CleanLine b) (h : SideSym a b) :
    isBelow a b = .ok false ∧ isNextTo a b = .ok true := by
  rcases h with h | h
  · obtain ⟨h1, _, h3, _⟩ := sideBySide_rel ha hb h
    exact ⟨h1, h3⟩
  · obtain ⟨_, h2, _, h4⟩ := sideBySide_rel hb ha h
    exact ⟨h2, h4⟩

/-- the loop swallows a run of lines of the current row -/
theorem groupGo_absorb (more : List Line) :
    ∀ (run : List Line) (prev : Line) (cur : List Line),
      (prev :: run).Pairwise SideSym → (∀ l ∈ prev :: run, CleanLine l) →
      ∃ p' c', p' :: c' = run.reverse ++ prev :: cur ∧ p' ∈ prev :: run ∧
        groupGo isBelow isNextTo prev cur (run ++ more) = groupGo isBelow isNextTo p' c' more := by
  intro run
  induction run with
  | nil => intro prev cur _ _; exact ⟨prev, cur, rfl, by simp, rfl⟩
  | cons c run ih =>
    intro prev cur hp hc
    obtain ⟨hpc, hrest⟩ := pairwise_cons.mp hp
    have hcl : ∀ l ∈ c :: run, CleanLine l := fun l hl => hc l (mem_cons_of_mem _ hl)
    obtain ⟨p', c', e, hm, eg⟩ := ih c (prev :: cur) hrest hcl
    have hs : SideSym c prev := (hpc c (by simp)).symm
    obtain ⟨hb, hn⟩ := sideSym_rel (hc c (by simp)) (hc prev (by simp)) hs
    refine ⟨p', c', by rw [e]; simp, mem_cons_of_mem _ hm, ?_⟩
    rw [← eg]
    simp only [cons_append, groupGo, hb, hn]

/-- the loop closes the group when the next line belongs to a lower row -/
theorem groupGo_break {p' d : Line} (hp : CleanLine p') (hd : CleanLine d) (h : Above p' d)
    (c' more : List Line) :
    groupGo isBelow isNextTo p' c' (d :: more) =
      match groupGo isBelow isNextTo d [] more with
      | .error e => .error e
      | .ok gs => .ok ((p' :: c').reverse :: gs) := by
  obtain ⟨v, hv⟩ := isBelow_total hd hp
  have hn := (above_not_nextTo h).1
  simp only [groupGo, hv, hn]
  cases v <;> rfl

theorem flatten_eq_nil_of_nonempty {rows : List (List Line)} (hne : ∀ r ∈ rows, r ≠ [])
    (h : rows.flatten = []) : rows = [] := by
  cases rows with
  | nil => rfl
  | cons r rows =>
    have : r = [] := by
      have := congrArg length h
      simp only [flatten_cons, length_append, length_nil] at this
      exact length_eq_zero_iff.mp (by omega)
    exact absurd this (hne r (by simp))

/-- on a top-sorted shuffle of clean rows the loop returns, row by row, a permutation of each row -/
theorem groupGo_cleanRows :
    ∀ (rows : List (List Line)), CleanRows rows →
      ∀ (v : Line) (rest : List Line), (v :: rest).Pairwise (fun a b => a.box.top ≤ b.box.top) →
        (v :: rest) ~ rows.flatten →
        ∃ rows', PermRows rows' rows ∧ groupGo isBelow isNextTo v [] rest = .ok rows' := by
  intro rows
  induction rows with
  | nil => intro _ v rest _ hp; exact absurd hp.length_eq (by simp)
  | cons r rows ih =>
    intro hc v rest hs hp
    obtain ⟨hne, hcl, hside⟩ := hc.1 r (by simp)
    have habove := (pairwise_cons.mp hc.2).1
    have hlt : ∀ a ∈ r, ∀ b ∈ rows.flatten, a.box.top < b.box.top := by
      intro a ha b hb
      obtain ⟨r2, hr2, hb2⟩ := mem_flatten.mp hb
      have h1 : Above a b := habove r2 hr2 a ha b hb2
      have h2 := (hcl a ha).2.1
      simp only [Above] at h1
      omega
    obtain ⟨xr, xrest, exs, pr, prest⟩ := sorted_block_split r rows.flatten (v :: rest) hs (by simpa using hp) hlt
    -- the first block is not empty and starts with v
    cases xr with
    | nil => exact absurd pr.symm.eq_nil hne
    | cons v' run =>
      simp only [cons_append, cons.injEq] at exs
      obtain ⟨rfl, erest⟩ := exs
      have hsym : (v :: run).Pairwise SideSym := by
        have h1 : r.Pairwise SideSym := hside.imp (fun h => Or.inl h)
        exact (pr.pairwise_iff (fun {a b} (h : SideSym a b) => (Or.symm h : SideSym b a))).mpr h1
      have hclx : ∀ l ∈ v :: run, CleanLine l := fun l hl => hcl l (pr.subset hl)
      obtain ⟨p', c', e, hm, eg⟩ := groupGo_absorb xrest run v [] hsym hclx
      have erev : (p' :: c').reverse = v :: run := by rw [e]; simp
      rw [erest, eg]
      cases xrest with
      | nil =>
        have : rows = [] :=
          flatten_eq_nil_of_nonempty (fun r' hr' => (hc.1 r' (mem_cons_of_mem _ hr')).1) prest.symm.eq_nil
        subst this
        exact ⟨[v :: run], PermRows.cons pr PermRows.nil, by simp [groupGo, erev]⟩
      | cons d more =>
        have hs' : (d :: more).Pairwise (fun a b => a.box.top ≤ b.box.top) := by
          rw [erest] at hs
          exact (pairwise_append.mp (pairwise_cons.mp hs).2).2.1
        obtain ⟨rows', hf, hg⟩ := ih hc.tail d more hs' prest
        have hdmem : d ∈ rows.flatten := prest.subset (by simp)
        obtain ⟨r2, hr2, hd2⟩ := mem_flatten.mp hdmem
        have hab : Above p' d := habove r2 hr2 p' (pr.subset hm) d hd2
        rw [groupGo_break (hcl p' (pr.subset hm)) (hc.tail.clean_flatten d hdmem) hab, hg, erev]
        exact ⟨(v :: run) :: rows', PermRows.cons pr hf, rfl⟩

/-! ### sorting a permutation of a row -/

theorem row_sort_left {r x : List Line} (hcl : ∀ l ∈ r, CleanLine l) (hside : r.Pairwise SideBySide)
    (hp : x ~ r) : x.mergeSort byLeft = r := by
  refine mergeSort_eq_of_strict byLeft byLeft_trans byLeft_total ?_ hp
  refine hside.imp_of_mem ?_
  intro a b ha _ h
  have := (hcl a ha).1
  have := h.1
  simp only [byLeft, decide_eq_true_eq]
  omega

theorem row_sort_right {r x : List Line} (hcl : ∀ l ∈ r, CleanLine l) (hside : r.Pairwise SideBySide)
    (hp : x ~ r) : x.mergeSort byRightDesc = r.reverse := by
  refine mergeSort_eq_of_strict byRightDesc byRightDesc_trans byRightDesc_total ?_ (hp.trans (reverse_perm r).symm)
  rw [pairwise_reverse]
  refine hside.imp_of_mem ?_
  intro a b _ hb h
  have := (hcl b hb).1
  have := h.1
  simp only [byRightDesc, decide_eq_true_eq]
  omega

theorem orderGroups_ltr (gs : List (List Line)) :
    orderGroups .ltr gs = .ok (gs.map (·.mergeSort byLeft)).flatten := by
  induction gs with
  | nil => rfl
  | cons g gs ih => simp [orderGroups, orderGroup, ih]

theorem orderGroups_rtl (gs : List (List Line)) :
    orderGroups .rtl gs = .ok (gs.map (·.mergeSort byRightDesc)).flatten := by
  induction gs with
  | nil => rfl
  | cons g gs ih => simp [orderGroups, orderGroup, ih]

theorem map_sort_rows {rows rows' : List (List Line)} (hc : CleanRows rows) (hf : PermRows rows' rows) :
    rows'.map (·.mergeSort byLeft) = rows := by
  induction hf with
  | nil => rfl
  | @cons x r xs rs hp _ ih =>
    obtain ⟨_, hcl, hside⟩ := hc.1 r (by simp)
    simp only [map_cons, row_sort_left hcl hside hp, ih hc.tail]

/-- `horizontal_group_lines` on any shuffle of clean rows (plus lines without text) -/
theorem groupLines_cleanRows {rows : List (List Line)} (hc : CleanRows rows) {ls : List Line}
    (hp : ls.filter (·.hasText) ~ rows.flatten) : horizontalGroupLines ls = .ok rows := by
  have hs : ((ls.mergeSort byTop).filter (·.hasText)).Pairwise (fun a b => a.box.top ≤ b.box.top) :=
    (sorted_byTop ls).filter _
  have hp' : (ls.mergeSort byTop).filter (·.hasText) ~ rows.flatten :=
    ((mergeSort_perm ls byTop).filter _).trans hp
  simp only [horizontalGroupLines, groupLines]
  cases hv : (ls.mergeSort byTop).filter (·.hasText) with
  | nil =>
    rw [hv] at hp'
    have : rows = [] := flatten_eq_nil_of_nonempty (fun r hr => (hc.1 r hr).1) hp'.symm.eq_nil
    simp [this]
  | cons v rest =>
    rw [hv] at hs hp'
    obtain ⟨rows', hf, hg⟩ := groupGo_cleanRows rows hc v rest hs hp'
    simp only [hg, map_sort_rows hc hf]

end Pagexml.C15
