/-
Helper lemmas for the collinear branch (`collinear_extremes`) and for bounding boxes (Props/C09).
-/
import PagexmlModel.Model.C09
import PagexmlModel.Lemmas.C09Walk
import PagexmlModel.Props.C03
import Mathlib.Tactic.Ring
import Mathlib.Tactic.Linarith

namespace Pagexml.C09
open Pagexml.C03 (Pt Coords mkCoords ExactBox C03_exact_box)

/-! ### the largest point -/

theorem maxPt_spec (k : Pt) (ks : List Pt) :
    maxPt k ks ∈ k :: ks ∧ ∀ q ∈ k :: ks, ptLt (maxPt k ks) q = false := by
  unfold maxPt
  induction ks generalizing k with
  | nil => simp [ptLt_irrefl]
  | cons a ks ih =>
    simp only [List.foldl_cons]
    by_cases h : ptLt k a = true
    · simp only [h, if_true]
      obtain ⟨h1, h2⟩ := ih a
      refine ⟨by simp only [List.mem_cons] at h1 ⊢; tauto, ?_⟩
      intro q hq
      simp only [List.mem_cons] at hq
      rcases hq with rfl | rfl | hq
      · by_contra hc
        have hc' : ptLt (List.foldl (fun m p => if ptLt m p = true then p else m) a ks) q = true := by
          simpa using hc
        have := ptLt_trans _ _ _ hc' h
        rw [h2 a (by simp)] at this
        cases this
      · exact h2 q (by simp)
      · exact h2 q (by simp [hq])
    · simp only [h]
      obtain ⟨h1, h2⟩ := ih k
      refine ⟨by simp only [List.mem_cons] at h1 ⊢; tauto, ?_⟩
      intro q hq
      simp only [List.mem_cons] at hq
      rcases hq with rfl | rfl | hq
      · exact h2 q (by simp)
      · by_contra hc
        have hc' : ptLt (List.foldl (fun m p => if ptLt m p = true then p else m) k ks) q = true := by
          simpa using hc
        have hk := h2 k (by simp)
        by_cases hmk : ptLt k (List.foldl (fun m p => if ptLt m p = true then p else m) k ks) = true
        · exact h (ptLt_trans _ _ _ hmk hc')
        · have : k = List.foldl (fun m p => if ptLt m p = true then p else m) k ks :=
            ptLt_total _ _ (by simpa using hmk) hk
          rw [← this] at hc'
          exact h hc'
      · exact h2 q (by simp [hq])

theorem not_ptLt_iff (a b : Pt) : ptLt a b = false ↔ (b.1 < a.1 ∨ (b.1 = a.1 ∧ b.2 ≤ a.2)) := by
  simp only [ptLt, Bool.or_eq_false_iff, Bool.and_eq_false_iff, decide_eq_false_iff_not]
  omega

/-! ### bounding boxes -/

/-- if the vertex list consists of input points and reaches at least as far as every input point to the
    left, right, top and bottom, the two bounding boxes are equal -/
theorem box_eq_of_support (pts vs : List Pt) (hne : vs ≠ []) (sub : ∀ v ∈ vs, v ∈ pts)
    (sup : ∀ p ∈ pts, (∃ v ∈ vs, v.1 ≤ p.1) ∧ (∃ v ∈ vs, p.1 ≤ v.1) ∧ (∃ v ∈ vs, v.2 ≤ p.2) ∧ (∃ v ∈ vs, p.2 ≤ v.2)) :
    ∃ cv cp, mkCoords vs = .ok cv ∧ mkCoords pts = .ok cp ∧ cv.box = cp.box ∧ ExactBox vs cv ∧ ExactBox pts cp := by
  have hnp : pts ≠ [] := by
    obtain ⟨v, hv⟩ := List.exists_mem_of_ne_nil vs hne
    exact List.ne_nil_of_mem (sub v hv)
  obtain ⟨cv, hcv, bv⟩ := C03_exact_box vs hne
  obtain ⟨cp, hcp, bp⟩ := C03_exact_box pts hnp
  refine ⟨cv, cp, hcv, hcp, ?_, bv, bp⟩
  have hl : cv.left = cp.left := by
    apply le_antisymm
    · obtain ⟨p, hp, e⟩ := bp.left_attained
      obtain ⟨v, hv, hle⟩ := (sup p hp).1
      have := bv.left_le v hv; omega
    · obtain ⟨v, hv, e⟩ := bv.left_attained
      have := bp.left_le v (sub v hv); omega
  have hr : cv.right = cp.right := by
    apply le_antisymm
    · obtain ⟨v, hv, e⟩ := bv.right_attained
      have := bp.right_ge v (sub v hv); omega
    · obtain ⟨p, hp, e⟩ := bp.right_attained
      obtain ⟨v, hv, hle⟩ := (sup p hp).2.1
      have := bv.right_ge v hv; omega
  have ht : cv.top = cp.top := by
    apply le_antisymm
    · obtain ⟨p, hp, e⟩ := bp.top_attained
      obtain ⟨v, hv, hle⟩ := (sup p hp).2.2.1
      have := bv.top_le v hv; omega
    · obtain ⟨v, hv, e⟩ := bv.top_attained
      have := bp.top_le v (sub v hv); omega
  have hb : cv.bottom = cp.bottom := by
    apply le_antisymm
    · obtain ⟨v, hv, e⟩ := bv.bottom_attained
      have := bp.bottom_ge v (sub v hv); omega
    · obtain ⟨p, hp, e⟩ := bp.bottom_attained
      obtain ⟨v, hv, hle⟩ := (sup p hp).2.2.2
      have := bv.bottom_ge v hv; omega
  rw [bv.box_eq, bp.box_eq, hl, hr, ht, hb]

/-! ### points on the line through the lexicographic extremes lie between them -/

theorem between_of_onLine (f l p : Pt) (hf : ptLt p f = false) (hl : ptLt l p = false)
    (hon : onLine f l p = true) :
    f.1 ≤ p.1 ∧ p.1 ≤ l.1 ∧ ((f.2 ≤ p.2 ∧ p.2 ≤ l.2) ∨ (l.2 ≤ p.2 ∧ p.2 ≤ f.2)) := by
  rw [not_ptLt_iff] at hf hl
  simp only [onLine, beq_iff_eq] at hon
  refine ⟨by omega, by omega, ?_⟩
  by_cases hD : l.1 = f.1
  · -- vertical line (or a single point): the lexicographic order compares y
    left; omega
  · have hDpos : 0 < l.1 - f.1 := by omega
    have ht0 : 0 ≤ p.1 - f.1 := by omega
    have ht1 : 0 ≤ l.1 - p.1 := by omega
    by_cases hE : 0 ≤ l.2 - f.2
    · left
      constructor
      · by_contra hc
        have hu : p.2 - f.2 < 0 := by omega
        have h1 := mul_neg_of_pos_of_neg hDpos hu
        have h2 := mul_nonneg hE ht0
        linarith
      · by_contra hc
        have hu : 0 < p.2 - l.2 := by omega
        have h1 := mul_pos hDpos hu
        have h2 := mul_nonneg hE ht1
        nlinarith
    · right
      have hE' : 0 ≤ f.2 - l.2 := by omega
      constructor
      · by_contra hc
        have hu : 0 < l.2 - p.2 := by omega
        have h1 := mul_pos hDpos hu
        have h2 := mul_nonneg hE' ht1
        nlinarith
      · by_contra hc
        have hu : 0 < p.2 - f.2 := by omega
        have h1 := mul_pos hDpos hu
        have h2 := mul_nonneg hE' ht0
        nlinarith

end Pagexml.C09
