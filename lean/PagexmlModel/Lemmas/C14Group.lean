/-
Grouping into consecutive runs (`LineReader.__iter__` with `groupby`): the groups
concatenate to the input and are maximal runs of equal keys — and conversely, a list of
maximal runs is what grouping its concatenation returns.
-/
import PagexmlModel.Model.C14

namespace Pagexml.C14

/-- a list of groups is a decomposition into maximal runs: every group is non-empty and
    constant under `key`, and consecutive groups have different keys -/
def RunsOK {α κ} (key : α → κ) : List (List α) → Prop
  | [] => True
  | g :: rest =>
    g ≠ [] ∧ (∀ a ∈ g, ∀ b ∈ g, key a = key b) ∧
    (match rest with | [] => True | g' :: _ => ∀ a ∈ g, ∀ b ∈ g', key a ≠ key b) ∧
    RunsOK key rest

variable {α κ : Type} [DecidableEq κ]

theorem groupAux_flatten (key : α → κ) (cur : List α) (prev : κ) (xs : List α) :
    (groupAux key cur prev xs).flatten = cur ++ xs := by
  induction xs generalizing cur prev with
  | nil => cases cur <;> simp [groupAux]
  | cons x xs ih =>
    unfold groupAux
    split
    · cases cur <;> simp [ih]
    · simp [ih]

theorem groupAux_nil_cons (key : α → κ) (prev : κ) (x : α) (xs : List α) :
    groupAux key [] prev (x :: xs) = groupAux key [x] (key x) xs := by
  rw [groupAux]
  split <;> simp

/-- with a non-empty accumulator that is a run with key `prev`, the result starts with a
    group of key `prev` and is a maximal-run decomposition -/
theorem groupAux_runs (key : α → κ) (cur : List α) (prev : κ) (xs : List α)
    (hne : cur ≠ []) (hcur : ∀ a ∈ cur, key a = prev) :
    ∃ g rest, groupAux key cur prev xs = g :: rest ∧ (∀ a ∈ g, key a = prev) ∧
      RunsOK key (g :: rest) := by
  induction xs generalizing cur prev with
  | nil =>
    refine ⟨cur, [], ?_, hcur, hne, ?_, trivial, trivial⟩
    · cases cur with
      | nil => exact absurd rfl hne
      | cons c cs => simp [groupAux]
    · intro a ha b hb; rw [hcur a ha, hcur b hb]
  | cons x xs ih =>
    by_cases hk : key x = prev
    · have e : groupAux key cur prev (x :: xs) = groupAux key (cur ++ [x]) (key x) xs := by
        rw [groupAux]; simp [hk]
      rw [e]
      have h' : ∀ a ∈ cur ++ [x], key a = key x := by
        intro a ha
        rcases List.mem_append.mp ha with ha | ha
        · rw [hcur a ha, hk]
        · simp at ha; rw [ha]
      obtain ⟨g, rest, h1, h2, h3⟩ := ih (cur ++ [x]) (key x) (by simp) h'
      exact ⟨g, rest, h1, fun a ha => by rw [h2 a ha, hk], h3⟩
    · obtain ⟨g, rest, h1, h2, h3⟩ := ih [x] (key x) (by simp) (by intro a ha; simp at ha; rw [ha])
      have e : groupAux key cur prev (x :: xs) = cur :: g :: rest := by
        rw [groupAux]
        cases cur with
        | nil => exact absurd rfl hne
        | cons c cs => simp [hk, h1]
      refine ⟨cur, g :: rest, e, hcur, hne, ?_, ?_, h3⟩
      · intro a ha b hb; rw [hcur a ha, hcur b hb]
      · intro a ha b hb
        rw [hcur a ha, h2 b hb]
        exact fun h => hk h.symm

theorem groupRuns_runsOK (key : α → κ) (init : κ) (xs : List α) :
    RunsOK key (groupRuns key init xs) := by
  unfold groupRuns
  cases xs with
  | nil => simp [groupAux, RunsOK]
  | cons x xs =>
    rw [groupAux_nil_cons]
    obtain ⟨g, rest, h1, _, h3⟩ := groupAux_runs key [x] (key x) xs (by simp)
      (by intro a ha; simp at ha; rw [ha])
    rw [h1]; exact h3

/-- the accumulator absorbs a stretch of elements with the current key -/
theorem groupAux_absorb (key : α → κ) (acc g tail : List α) (k : κ)
    (hg : ∀ a ∈ g, key a = k) :
    groupAux key acc k (g ++ tail) = groupAux key (acc ++ g) k tail := by
  induction g generalizing acc with
  | nil => simp
  | cons z g ih =>
    have hz : key z = k := hg z (by simp)
    show groupAux key acc k (z :: (g ++ tail)) = _
    rw [groupAux]
    simp only [hz, ne_eq, not_true_eq_false, if_false]
    rw [ih (acc ++ [z]) (fun a ha => hg a (by simp [ha]))]
    simp

/-- an element with another key flushes a non-empty accumulator -/
theorem groupAux_flush (key : α → κ) (acc tail : List α) (k : κ) (y : α)
    (hne : acc ≠ []) (hy : key y ≠ k) :
    groupAux key acc k (y :: tail) = acc :: groupAux key [y] (key y) tail := by
  rw [groupAux]
  cases acc with
  | nil => exact absurd rfl hne
  | cons c cs => simp [hy]

theorem groupAux_of_runs (key : α → κ) (rest : List (List α)) (hrest : RunsOK key rest)
    (acc : List α) (k : κ) (hne : acc ≠ [])
    (hadj : match rest with | [] => True | g' :: _ => ∀ b ∈ g', key b ≠ k) :
    groupAux key acc k rest.flatten = acc :: rest := by
  induction rest generalizing acc k with
  | nil =>
    cases acc with
    | nil => exact absurd rfl hne
    | cons c cs => simp [groupAux]
  | cons g' rest' ih =>
    obtain ⟨hg'ne, hg'c, hadj', hrest'⟩ := hrest
    cases g' with
    | nil => exact absurd rfl hg'ne
    | cons y g' =>
      have hy : key y ≠ k := hadj y (by simp)
      show groupAux key acc k (y :: (g' ++ rest'.flatten)) = _
      rw [groupAux_flush key acc _ k y hne hy,
        groupAux_absorb key [y] g' _ (key y) (fun a ha => hg'c a (by simp [ha]) y (by simp))]
      rw [ih hrest' ([y] ++ g') (key y) (by simp) (by
        cases rest' with
        | nil => trivial
        | cons g'' r'' =>
          intro b hb
          have := hadj' y (by simp) b hb
          exact fun h => this h.symm)]
      simp

/-- conversely: grouping the concatenation of a maximal-run decomposition gives it back
    (the decomposition into maximal runs is unique) -/
theorem groupRuns_of_runs (key : α → κ) (init : κ) (runs : List (List α)) (h : RunsOK key runs) :
    groupRuns key init runs.flatten = runs := by
  unfold groupRuns
  cases runs with
  | nil => simp [groupAux]
  | cons g rest =>
    obtain ⟨hne, hc, hadj, hrest⟩ := h
    cases g with
    | nil => exact absurd rfl hne
    | cons x g =>
      show groupAux key [] init (x :: (g ++ rest.flatten)) = _
      rw [groupAux_nil_cons,
        groupAux_absorb key [x] g _ (key x) (fun a ha => hc a (by simp [ha]) x (by simp))]
      rw [groupAux_of_runs key rest hrest ([x] ++ g) (key x) (by simp) (by
        cases rest with
        | nil => trivial
        | cons g' r' =>
          intro b hb
          have := hadj x (by simp) b hb
          exact fun h => this h.symm)]
      simp

end Pagexml.C14
