/-
C08: the dict of a rendered TableCell / TableRegion and what `parse_table_cell`,
`make_rows_from_cells`, `parse_tableregion` make of it.
-/
import PagexmlModel.Lemmas.C08Table
import PagexmlModel.Lemmas.ScanParse
set_option linter.unusedSimpArgs false
namespace Pagexml.C08
open Pagexml.X Pagexml.C01 Pagexml.Scan
open Pagexml.C03 (Pt Coords)
open Pagexml.C05 (assocSet assocGet)

/-! ### TableCell: dict and parse -/

def cellEntries (c : SrcCell) : Entries :=
  attrEntries ([("id", c.id), ("row", natStr c.row), ("col", natStr c.col)]
      ++ optAttr "rowSpan" (c.rowSpan.map natStr) ++ optAttr "cellSpan" (c.colSpan.map natStr)
      ++ optAttr "header" c.header ++ optAttr "orientation" c.orientation ++ optAttr "custom" c.custom)
    ++ groupEntry "Coords" [ptsDict c.coords]
    ++ groupEntry "TextLine" (lineVals c.lines)
    ++ groupEntry "CornerPts" ((c.corner.map textVal).toList)

theorem tag_renderCell (c : SrcCell) : (renderCell c).tag = "TableCell" := rfl

theorem toDict_renderCell (c : SrcCell) : toDict (renderCell c) = .dict (cellEntries c) := by
  have e : renderCell c = .elem "TableCell"
      ([("id", c.id), ("row", natStr c.row), ("col", natStr c.col)]
        ++ optAttr "rowSpan" (c.rowSpan.map natStr) ++ optAttr "cellSpan" (c.colSpan.map natStr)
        ++ optAttr "header" c.header ++ optAttr "orientation" c.orientation ++ optAttr "custom" c.custom) ""
      ([("Coords", [renderPoints "Coords" c.coords]), ("TextLine", c.lines.map renderLine),
        ("CornerPts", (c.corner.map (textElem "CornerPts")).toList)].flatMap (·.2)) := by
    simp [renderCell]
  rw [e, toDict_groups]
  · have : attrEntries ([("id", c.id), ("row", natStr c.row), ("col", natStr c.col)]
          ++ optAttr "rowSpan" (c.rowSpan.map natStr) ++ optAttr "cellSpan" (c.colSpan.map natStr)
          ++ optAttr "header" c.header ++ optAttr "orientation" c.orientation ++ optAttr "custom" c.custom) ++
        groupsEntries (List.map (fun g => (g.1, List.map toDict g.2))
          [("Coords", [renderPoints "Coords" c.coords]), ("TextLine", c.lines.map renderLine),
            ("CornerPts", (c.corner.map (textElem "CornerPts")).toList)]) = cellEntries c := by
      simp only [groupsEntries, List.map_cons, List.map_nil, List.flatMap_cons, List.flatMap_nil, List.append_nil,
        cellEntries, toDict_renderPoints, ptsDict, lineVals, List.map_map, Function.comp_def, List.append_assoc]
      cases c.corner <;> simp [toDict_textElem]
    rw [this]
    simp [cellEntries, attrEntries]
  · intro g hg x hx
    simp at hg
    rcases hg with rfl | rfl | rfl
    · simp at hx; subst hx; rfl
    · simp at hx; obtain ⟨w, _, rfl⟩ := hx; rfl
    · cases h : c.corner <;> simp [h] at hx; subst hx; rfl
  · simp
  · intro g hg
    simp at hg
    rcases hg with rfl | rfl | rfl <;> simp


theorem parseCorner_str (s : String) : parseCorner (.str s) = .ok (cornerOfText s) := by
  unfold parseCorner cornerOfText
  simp only [bind, Except.bind, pure, Except.pure]
  split
  · next a b c d _ =>
    by_cases h : (allAsciiDigits a && allAsciiDigits b && allAsciiDigits c && allAsciiDigits d) = true
    · simp only [h, if_true]
      simp only [Bool.and_eq_true] at h
      obtain ⟨⟨⟨ha, hb⟩, hc⟩, hd⟩ := h
      obtain ⟨ia, hia⟩ := pyInt_of_allAsciiDigits a ha
      obtain ⟨ib, hib⟩ := pyInt_of_allAsciiDigits b hb
      obtain ⟨ic, hic⟩ := pyInt_of_allAsciiDigits c hc
      obtain ⟨id, hid⟩ := pyInt_of_allAsciiDigits d hd
      simp [hia, hib, hic, hid]
    · simp [h]
  · rfl

/-- conformance of a table cell: non-empty polygon, conformant lines (with or without text),
    parsable orientation, CornerPts with some text -/
def cellOk (c : SrcCell) : Bool :=
  !c.coords.isEmpty
  && c.lines.all lineOk
  && (match c.orientation with
      | none => true
      | some o => isFloatLit o)
  && (match c.corner with
      | none => true
      | some t => X.strip t != "")

theorem mapM_ok_of_forall {α β : Type} (F : α → Res β) (g : α → β) (l : List α)
    (h : ∀ x ∈ l, F x = .ok (g x)) : l.mapM F = .ok (l.map g) := by
  induction l with
  | nil => rfl
  | cons x xs ih =>
    simp only [List.mapM_cons, h x (by simp), ih (fun y hy => h y (by simp [hy])), List.map_cons]
    rfl

theorem lineTextRes_mirror (l : SrcLine) : lineTextRes (mirrorLine l) = .ok (lineTextOpt (mirrorLine l)) := by
  have h := goodLine_mirror l
  unfold lineTextRes lineTextOpt
  cases ht : (mirrorLine l).text with
  | none => rfl
  | str s => rfl
  | other => exact absurd ht h

/-- the value of a cell: the space-joined texts of those of its lines that have a text -/
theorem cellValue_mirror (ls : List SrcLine) :
    cellValue (ls.map mirrorLine) = .ok (joinSp ((ls.map mirrorLine).filterMap lineTextOpt)) := by
  unfold cellValue
  rw [mapM_ok_of_forall _ lineTextOpt (ls.map mirrorLine) (by
    intro x hx
    obtain ⟨l, _, rfl⟩ := List.mem_map.mp hx
    exact lineTextRes_mirror l)]
  simp [bind, Except.bind, pure, Except.pure, List.filterMap_map, Function.comp_def]

theorem lookup_cell_attr (c : SrcCell) (k : String) (hk : k.toList.head? = some '@') :
    lookup k (cellEntries c) = lookup k (attrEntries ([("id", c.id), ("row", natStr c.row), ("col", natStr c.col)]
      ++ optAttr "rowSpan" (c.rowSpan.map natStr) ++ optAttr "cellSpan" (c.colSpan.map natStr)
      ++ optAttr "header" c.header ++ optAttr "orientation" c.orientation ++ optAttr "custom" c.custom)) := by
  have h1 : k ≠ "Coords" := by rintro rfl; revert hk; decide
  have h2 : k ≠ "TextLine" := by rintro rfl; revert hk; decide
  have h3 : k ≠ "CornerPts" := by rintro rfl; revert hk; decide
  simp [cellEntries, lookup_append_or, lookup_groupEntry, h1.symm, h2.symm, h3.symm]

theorem parseCell_render (c : SrcCell) (h : cellOk c = true) :
    parseCell (toDict (renderCell c)) = .ok (mirrorCell c) := by
  rw [toDict_renderCell]
  simp only [cellOk, Bool.and_eq_true, Bool.not_eq_true', List.all_eq_true] at h
  obtain ⟨⟨⟨hco, hls⟩, hor⟩, hcn⟩ := h
  have hco' : c.coords ≠ [] := by intro e; rw [e] at hco; simp at hco
  have hlok : ∀ l ∈ c.lines, lineOk l = true := hls
  have hA : ∀ k, k.toList.head? ≠ some '@' → lookup k (attrEntries ([("id", c.id), ("row", natStr c.row), ("col", natStr c.col)]
      ++ optAttr "rowSpan" (c.rowSpan.map natStr) ++ optAttr "cellSpan" (c.colSpan.map natStr)
      ++ optAttr "header" c.header ++ optAttr "orientation" c.orientation ++ optAttr "custom" c.custom)) = none :=
    fun k hk => lookup_none_of_not_mem _ _ (not_mem_attr_keys _ _ hk)
  have hTL : lookup "TextLine" (cellEntries c) = if c.lines = [] then none else some (collapse (lineVals c.lines)) := by
    simp only [cellEntries, lookup_append_or, hA "TextLine" (by decide), lookup_groupEntry]
    simp [lineVals]
  have hCo : lookup "Coords" (cellEntries c) = some (ptsDict c.coords) := by
    simp only [cellEntries, lookup_append_or, hA "Coords" (by decide), lookup_groupEntry]
    simp [collapse]
  have hCp : lookup "CornerPts" (cellEntries c) = c.corner.map textVal := by
    simp only [cellEntries, lookup_append_or, hA "CornerPts" (by decide), lookup_groupEntry]
    cases c.corner <;> simp [collapse]
  have hattr : ∀ k, lookup k (attrEntries ([("id", c.id), ("row", natStr c.row), ("col", natStr c.col)]
      ++ optAttr "rowSpan" (c.rowSpan.map natStr) ++ optAttr "cellSpan" (c.colSpan.map natStr)
      ++ optAttr "header" c.header ++ optAttr "orientation" c.orientation ++ optAttr "custom" c.custom))
      = if k = "@id" then some (.str c.id) else if k = "@row" then some (.str (natStr c.row))
        else if k = "@col" then some (.str (natStr c.col))
        else if k = "@rowSpan" then (c.rowSpan.map natStr).map PyVal.str
        else if k = "@cellSpan" then (c.colSpan.map natStr).map PyVal.str
        else if k = "@header" then c.header.map PyVal.str
        else if k = "@orientation" then c.orientation.map PyVal.str
        else if k = "@custom" then c.custom.map PyVal.str else none := by
    intro k
    have hnil : lookup k (attrEntries []) = none := rfl
    simp only [attrEntries_append, lookup_append_or, lookup_optAttr, lookup_attr_cons, hnil]
    by_cases h1 : k = "@id"
    · subst h1; simp
    by_cases h2 : k = "@row"
    · subst h2; simp
    by_cases h3 : k = "@col"
    · subst h3; simp
    by_cases h4 : k = "@rowSpan"
    · subst h4; simp
    by_cases h5 : k = "@cellSpan"
    · subst h5; simp
    by_cases h6 : k = "@header"
    · subst h6; simp
    by_cases h7 : k = "@orientation"
    · subst h7; simp
    by_cases h8 : k = "@custom"
    · subst h8; simp
    simp [h1, h2, h3, h4, h5, h6, h7, h8, eq_comm]
  have hget : ∀ k, k.toList.head? = some '@' → lookup k (cellEntries c) = _ :=
    fun k hk => (lookup_cell_attr c k hk).trans (hattr k)
  have optInt : ∀ k (o : Option Nat), lookup k (cellEntries c) = (o.map natStr).map PyVal.str →
      optIntAttr k (cellEntries c) = .ok (o.map Int.ofNat) := by
    intro k o hk
    unfold optIntAttr
    rw [hk]
    cases o <;> simp [strOf, pyIntStr_natStr, bind, Except.bind, Functor.map, Except.map]
  have hrow : optIntAttr "@row" (cellEntries c) = .ok (some (c.row : Int)) :=
    optInt "@row" (some c.row) (by rw [hget _ (by decide)]; simp)
  have hcol : optIntAttr "@col" (cellEntries c) = .ok (some (c.col : Int)) :=
    optInt "@col" (some c.col) (by rw [hget _ (by decide)]; simp)
  have hrsp : optIntAttr "@rowSpan" (cellEntries c) = .ok (c.rowSpan.map Int.ofNat) :=
    optInt "@rowSpan" c.rowSpan (by rw [hget _ (by decide)]; simp)
  have hcsp : optIntAttr "@cellSpan" (cellEntries c) = .ok (c.colSpan.map Int.ofNat) :=
    optInt "@cellSpan" c.colSpan (by rw [hget _ (by decide)]; simp)
  have hhd : optStrAttr "@header" (cellEntries c) = .ok c.header :=
    optStrAttr_of_lookup _ _ _ (by rw [hget _ (by decide)]; simp)
  have hidl : lookup "@id" (cellEntries c) = some (.str c.id) := by rw [hget _ (by decide)]; simp
  have horl : lookup "@orientation" (cellEntries c) = c.orientation.map PyVal.str := by
    rw [hget _ (by decide)]; simp
  have hpl : ∀ hl : c.lines ≠ [], parseLineList (collapse (lineVals c.lines)) = .ok (c.lines.map mirrorLine) :=
    fun hl => parseLineList_render c.lines hl hlok
  have hcv := cellValue_mirror c.lines
  have hpc := parseCoords_points c.coords hco'
  unfold parseCell
  simp only [hTL, pyGet, hidl, hrow, hcol, hrsp, hcsp, hhd, horl, hCo, hCp, ptsDict]
  have hlines : (if c.lines = [] then (pure [] : Res (List Line))
      else parseLineList (collapse (lineVals c.lines))) = .ok (c.lines.map mirrorLine) := by
    by_cases hl : c.lines = []
    · simp [hl]; rfl
    · simp [hl, hpl hl]
  have hfo : ∀ o, c.orientation = some o → pyFloat o = .ok o := by
    intro o ho
    rw [ho] at hor
    simp only at hor
    simp [pyFloat, hor]
  have hct : ∀ t, c.corner = some t → textVal t = .str (X.strip t) := by
    intro t ht
    rw [ht] at hcn
    simp only [bne_iff_ne, ne_eq] at hcn
    simp [textVal, hcn]
  clear hattr hget hA optInt hTL hCo hCp hrow hcol hrsp hcsp hhd hidl horl hls hcn hor hlok hpl
  by_cases hl : c.lines = []
  · simp only [hl, if_true, List.map_nil] at hcv hlines ⊢
    cases ho : c.orientation with
    | none =>
      cases hc : c.corner with
      | none => simp [strOf, hpc, hcv, mirrorCell, ho, hc, hl, bind, Except.bind, pure, Except.pure]
      | some t =>
        simp [strOf, hpc, hcv, mirrorCell, ho, hc, hl, hct t hc, parseCorner_str, bind, Except.bind, pure,
          Except.pure, Functor.map, Except.map]
    | some o =>
      cases hc : c.corner with
      | none =>
        simp [strOf, hpc, hcv, mirrorCell, ho, hc, hl, hfo o ho, bind, Except.bind, pure, Except.pure,
          Functor.map, Except.map]
      | some t =>
        simp [strOf, hpc, hcv, mirrorCell, ho, hc, hl, hfo o ho, hct t hc, parseCorner_str, bind, Except.bind,
          pure, Except.pure, Functor.map, Except.map]
  · simp only [hl, if_false] at hlines ⊢
    rw [hlines]
    cases ho : c.orientation with
    | none =>
      cases hc : c.corner with
      | none => simp [strOf, hpc, hcv, mirrorCell, ho, hc, bind, Except.bind, pure, Except.pure]
      | some t =>
        simp [strOf, hpc, hcv, mirrorCell, ho, hc, hct t hc, parseCorner_str, bind, Except.bind, pure,
          Except.pure, Functor.map, Except.map]
    | some o =>
      cases hc : c.corner with
      | none =>
        simp [strOf, hpc, hcv, mirrorCell, ho, hc, hfo o ho, bind, Except.bind, pure, Except.pure,
          Functor.map, Except.map]
      | some t =>
        simp [strOf, hpc, hcv, mirrorCell, ho, hc, hfo o ho, hct t hc, parseCorner_str, bind, Except.bind,
          pure, Except.pure, Functor.map, Except.map]


/-! ### rows -/

theorem derive_ok (hull : List Pt → Res (List Pt)) (hullT : List Pt → List Pt) (cs : List (Option Coords))
    (hsome : ∀ c ∈ cs, c.isSome = true) (hp : ptsOk hull hullT (childPts cs) = true) :
    derive hull cs = .ok (derived hullT cs) := by
  unfold derive
  rw [mapM_ok_of_forall _ (fun c => match c with | none => [] | some c => c.points) cs (by
    intro c hc
    cases c with
    | none => have := hsome none hc; simp at this
    | some x => rfl)]
  simp only [bind, Except.bind]
  have hpts : (cs.map (fun c => match c with | none => [] | some c => c.points)).flatten = childPts cs := by
    unfold childPts
    clear hp
    induction cs with
    | nil => rfl
    | cons c cs ih =>
      cases c with
      | none => have := hsome none (by simp); simp at this
      | some x => simp [ih (fun y hy => hsome y (by simp [hy]))]
  rw [hpts]
  simp only [ptsOk, Bool.and_eq_true, Bool.or_eq_true, Bool.not_eq_true', decide_eq_true_eq] at hp
  obtain ⟨hne, hp⟩ := hp
  have hne' : childPts cs ≠ [] := by intro e; rw [e] at hne; simp at hne
  unfold derived
  by_cases hle : (childPts cs).length ≤ 2
  · simp [hle, coordsOfPts, mkCoords_boxOf _ hne', hne]
  · have hp' : hull (childPts cs) = .ok (hullT (childPts cs)) ∧ (hullT (childPts cs)).isEmpty = false := by
      rcases hp with hp | hp
      · exact absurd hp hle
      · exact hp
    have hne2 : hullT (childPts cs) ≠ [] := by intro e; rw [e] at hp'; simp at hp'
    simp [hle, hp'.1, coordsOfPts, hp'.2, mkCoords_boxOf _ hne2]

theorem columnStep_mirror (acc : List (Option Cell)) (c : Cell) (n : Nat) (hc : c.col = some (n : Int)) :
    columnStep acc c = .ok (colStep colN acc c) := by
  have hn : colN c = n := by simp [colN, hc]
  unfold columnStep colStep
  simp only [hc, hn]
  by_cases h : n > acc.length
  · have h' : (n : Int) > (acc.length : Int) := by omega
    simp [h, h']
  · have h' : ¬ ((n : Int) > (acc.length : Int)) := by omega
    simp [h, h']

theorem foldlM_columnStep (cs : List Cell) (acc : List (Option Cell))
    (h : ∀ c ∈ cs, ∃ n : Nat, c.col = some (n : Int)) :
    cs.foldlM columnStep acc = .ok (cs.foldl (colStep colN) acc) := by
  induction cs generalizing acc with
  | nil => rfl
  | cons c cs ih =>
    obtain ⟨n, hn⟩ := h c (by simp)
    simp only [List.foldlM_cons, columnStep_mirror acc c n hn, List.foldl_cons, bind, Except.bind]
    exact ih _ (fun x hx => h x (by simp [hx]))

/-- conformance of a table: at least one cell, conformant cells, non-empty Coords if given,
    parsable orientation, and the hull contract for the coordinates of every row -/
def tableOk (hull : List Pt → Res (List Pt)) (hullT : List Pt → List Pt) (t : SrcTable) : Bool :=
  !t.cells.isEmpty && t.cells.all cellOk && t.coords != some []
  && (match t.orientation with
      | none => true
      | some o => isFloatLit o)
  && (groupByRow (t.cells.map mirrorCell)).all
      (fun g => ptsOk hull hullT (childPts (g.2.map (·.coords))))

theorem mkRow_mirror (hull : List Pt → Res (List Pt)) (hullT : List Pt → List Pt) (t : SrcTable)
    (g : Option Int × List Cell) (hg : g ∈ groupByRow (t.cells.map mirrorCell))
    (hp : ptsOk hull hullT (childPts (g.2.map (·.coords))) = true) :
    mkRow hull g.1 g.2 = .ok (mirrorRow hullT g) := by
  obtain ⟨k, hk, hcs, hne⟩ := groups_of_table t g hg
  have hcoords : ∀ c ∈ g.2.map (·.coords), c.isSome = true := by
    intro c hc
    obtain ⟨x, hx, rfl⟩ := List.mem_map.mp hc
    rw [hcs] at hx
    obtain ⟨y, _, rfl⟩ := List.mem_map.mp hx
    rfl
  have hcols : ∀ c ∈ g.2, ∃ n : Nat, c.col = some (n : Int) := by
    intro c hc
    rw [hcs] at hc
    obtain ⟨y, _, rfl⟩ := List.mem_map.mp hc
    exact ⟨y.col, rfl⟩
  unfold mkRow
  rw [derive_ok hull hullT _ hcoords hp, foldlM_columnStep g.2 [] hcols]
  cases hc : g.2 with
  | nil => exact absurd hc hne
  | cons c cs => simp [mirrorRow, hc, columnCellsOf_eq, bind, Except.bind, pure, Except.pure]

theorem rowsFromCells_mirror (hull : List Pt → Res (List Pt)) (hullT : List Pt → List Pt) (t : SrcTable)
    (h : (groupByRow (t.cells.map mirrorCell)).all
      (fun g => ptsOk hull hullT (childPts (g.2.map (·.coords)))) = true) :
    rowsFromCells hull (t.cells.map mirrorCell) = .ok ((groupByRow (t.cells.map mirrorCell)).map (mirrorRow hullT)) := by
  unfold rowsFromCells
  exact mapM_ok_of_forall _ _ _ (fun g hg => mkRow_mirror hull hullT t g hg (List.all_eq_true.mp h g hg))


/-! ### TableRegion -/

def cellVals (cs : List SrcCell) : List PyVal := cs.map (fun c => toDict (renderCell c))

def tableEntries (t : SrcTable) : Entries :=
  attrEntries (optAttr "id" t.id ++ optAttr "orientation" t.orientation ++ optAttr "custom" t.custom)
    ++ groupEntry "Coords" ((t.coords.map ptsDict).toList)
    ++ groupEntry "TableCell" (cellVals t.cells)

theorem toDict_renderTable (t : SrcTable) (hne : t.cells ≠ []) :
    toDict (renderTable t) = .dict (tableEntries t) := by
  have e : renderTable t = .elem "TableRegion"
      (optAttr "id" t.id ++ optAttr "orientation" t.orientation ++ optAttr "custom" t.custom) ""
      ([("Coords", (t.coords.map (renderPoints "Coords")).toList),
        ("TableCell", t.cells.map renderCell)].flatMap (·.2)) := by
    simp [renderTable]
  rw [e, toDict_groups]
  · have : attrEntries (optAttr "id" t.id ++ optAttr "orientation" t.orientation ++ optAttr "custom" t.custom) ++
        groupsEntries (List.map (fun g => (g.1, List.map toDict g.2))
          [("Coords", (t.coords.map (renderPoints "Coords")).toList), ("TableCell", t.cells.map renderCell)])
        = tableEntries t := by
      simp only [groupsEntries, List.map_cons, List.map_nil, List.flatMap_cons, List.flatMap_nil, List.append_nil,
        tableEntries, cellVals, List.map_map, Function.comp_def, List.append_assoc]
      cases t.coords <;> simp [toDict_renderPoints, ptsDict]
    rw [this]
    have : (tableEntries t).isEmpty = false := by
      cases hc : t.cells with
      | nil => exact absurd hc hne
      | cons c cs => simp [tableEntries, cellVals, hc, groupEntry]
    simp [this]
  · intro g hg x hx
    simp at hg
    rcases hg with rfl | rfl
    · cases h : t.coords <;> simp [h] at hx; subst hx; rfl
    · simp at hx; obtain ⟨w, _, rfl⟩ := hx; rfl
  · simp
  · intro g hg
    simp at hg
    rcases hg with rfl | rfl <;> simp

/-- **a table parses to the mirrored table** — with one cell (xmltodict hands over a dict)
    as well as with several (a list) -/
theorem parseTable_render (hull : List Pt → Res (List Pt)) (hullT : List Pt → List Pt) (t : SrcTable)
    (h : tableOk hull hullT t = true) :
    parseTable hull (toDict (renderTable t)) = .ok (mirrorTable hullT t) := by
  simp only [tableOk, Bool.and_eq_true, Bool.not_eq_true', List.all_eq_true, bne_iff_ne, ne_eq] at h
  obtain ⟨⟨⟨⟨hne, hcells⟩, hco⟩, hor⟩, hrows⟩ := h
  have hne' : t.cells ≠ [] := by intro e; rw [e] at hne; simp at hne
  rw [toDict_renderTable t hne']
  have hA : ∀ k, k.toList.head? ≠ some '@' →
      lookup k (attrEntries (optAttr "id" t.id ++ optAttr "orientation" t.orientation ++ optAttr "custom" t.custom)) = none :=
    fun k hk => lookup_none_of_not_mem _ _ (not_mem_attr_keys _ _ hk)
  have hid : optStrAttr "@id" (tableEntries t) = .ok t.id :=
    optStrAttr_of_lookup _ _ _ (by
      simp [tableEntries, attrEntries_append, lookup_append_or, lookup_optAttr, lookup_groupEntry])
  have hol : lookup "@orientation" (tableEntries t) = t.orientation.map PyVal.str := by
    simp [tableEntries, attrEntries_append, lookup_append_or, lookup_optAttr, lookup_groupEntry]
  have hcl : lookup "Coords" (tableEntries t) = t.coords.map ptsDict := by
    simp only [tableEntries, lookup_append_or, hA "Coords" (by decide), lookup_groupEntry]
    cases t.coords <;> simp [collapse]
  have htc : lookup "TableCell" (tableEntries t) = some (collapse (cellVals t.cells)) := by
    simp only [tableEntries, lookup_append_or, hA "TableCell" (by decide), lookup_groupEntry]
    simp [cellVals, hne']
  have hpc : ∀ c ∈ t.cells, parseCell (toDict (renderCell c)) = .ok (mirrorCell c) :=
    fun c hc => parseCell_render c (hcells c hc)
  have hrfc := rowsFromCells_mirror hull hullT t (List.all_eq_true.mpr hrows)
  unfold parseTable
  simp only [hid, hol, hcl, htc]
  have hfo : ∀ o, t.orientation = some o → pyFloat o = .ok o := by
    intro o ho
    rw [ho] at hor
    simp only at hor
    simp [pyFloat, hor]
  have hcp : ∀ ps, t.coords = some ps → parseCoords (ptsDict ps) = .ok (some (boxOf ps)) := by
    intro ps hps
    apply parseCoords_points
    intro e; apply hco; rw [hps, e]
  clear hA hid hol hcl htc hrows hcells hor hco
  -- the cells: one (a dict) or several (a list)
  match hcs : t.cells, hne' with
  | [c], _ =>
    have h1 := hpc c (by rw [hcs]; simp)
    rw [toDict_renderCell] at h1
    rw [hcs] at hrfc
    simp only [List.map_cons, List.map_nil] at hrfc
    cases ho : t.orientation <;> cases hc : t.coords <;>
      simp [cellVals, collapse, toDict_renderCell, h1, hrfc, mirrorTable, hcs, ho, hc, strOf, hfo, hcp,
        bind, Except.bind, pure, Except.pure, Functor.map, Except.map]
  | c1 :: c2 :: rest, _ =>
    have h2 := mapM_map_ok parseCell (fun c => toDict (renderCell c)) mirrorCell (c1 :: c2 :: rest)
      (fun c hc => hpc c (by rw [hcs]; exact hc))
    simp only [List.map_cons] at h2
    rw [hcs] at hrfc
    simp only [List.map_cons] at hrfc
    cases ho : t.orientation <;> cases hc : t.coords <;>
      simp [cellVals, collapse, h2, hrfc, mirrorTable, hcs, ho, hc, strOf, hfo, hcp,
        bind, Except.bind, pure, Except.pure, Functor.map, Except.map]


/-! ### the tables of a page -/

theorem tableVal_render (hull : List Pt → Res (List Pt)) (hullT : List Pt → List Pt) (ts : List SrcTable)
    (hne : ts ≠ []) (h : ∀ t ∈ ts, tableOk hull hullT t = true) :
    tableVal hull (collapse (tableVals ts)) = .ok (ts.map (mirrorTable hullT)) := by
  match ts, hne, h with
  | [t], _, h =>
    have ht := h t (by simp)
    have hne' : t.cells ≠ [] := by
      simp only [tableOk, Bool.and_eq_true, Bool.not_eq_true'] at ht
      intro e; have := ht.1.1.1.1; rw [e] at this; simp at this
    have := parseTable_render hull hullT t ht
    rw [toDict_renderTable t hne'] at this
    simp [tableVals, collapse, tableVal, toDict_renderTable t hne', this, bind, Except.bind, pure, Except.pure]
  | t1 :: t2 :: rest, _, h =>
    have := mapM_map_ok (parseTable hull) (fun t => toDict (renderTable t)) (mirrorTable hullT) (t1 :: t2 :: rest)
      (fun t ht => parseTable_render hull hullT t (h t ht))
    simpa [tableVals, collapse, tableVal] using this

theorem scanTables_ok (hull : List Pt → Res (List Pt)) (hullT : List Pt → List Pt) (p : SrcPage)
    (h : ∀ t ∈ p.tables, tableOk hull hullT t = true) :
    scanTables hull (.dict (pageEntries p)) = .ok (p.tables.map (mirrorTable hullT)) := by
  unfold scanTables
  simp only [pyIn, pyGet, (lookup_page_group p).2.1]
  by_cases ht : p.tables = []
  · simp [ht, bind, Except.bind, pure, Except.pure]
  · simp [ht, tableVal_render hull hullT p.tables ht h, bind, Except.bind, pure, Except.pure]

end Pagexml.C08
