/-
Uniqueness of the certified hull: helper lemmas (Props/C09, `C09_cert_unique`, `C09_area_reorder`).
-/
import PagexmlModel.Model.C09
import PagexmlModel.Lemmas.C09Area
import PagexmlModel.Lemmas.C09Cert
import Mathlib.Tactic.Ring
import Mathlib.Tactic.Linarith
import Mathlib.Tactic.LinearCombination
import Mathlib.Data.List.Nodup
import Batteries.Data.List.Perm

namespace Pagexml.C09
open Pagexml.C03 (Pt)

/-! ### arithmetic -/

def dot (o a b : Pt) : Int := (a.1 - o.1) * (b.1 - o.1) + (a.2 - o.2) * (b.2 - o.2)

theorem dot_self_pos (a b : Pt) (h : a ≠ b) : 0 < dot a b b := by
  simp only [dot]
  by_contra hc
  have h1 : (b.1 - a.1) * (b.1 - a.1) = 0 := by nlinarith [mul_self_nonneg (b.1 - a.1), mul_self_nonneg (b.2 - a.2)]
  have h2 : (b.2 - a.2) * (b.2 - a.2) = 0 := by nlinarith [mul_self_nonneg (b.1 - a.1), mul_self_nonneg (b.2 - a.2)]
  have e1 : b.1 - a.1 = 0 := by simpa using mul_self_eq_zero.mp h1
  have e2 : b.2 - a.2 = 0 := by simpa using mul_self_eq_zero.mp h2
  exact h (Prod.ext (by omega) (by omega))

/-- of three distinct points on one line, one lies strictly between the other two -/
theorem exists_middle (p q r : Pt) (hpq : p ≠ q) (hpr : p ≠ r) (hqr : q ≠ r) (hcol : cross p q r = 0) :
    dot p q r < 0 ∨ dot q p r < 0 ∨ dot r p q < 0 := by
  by_contra hc
  simp only [not_or, not_lt] at hc
  obtain ⟨h1, h2, h3⟩ := hc
  have hu := dot_self_pos p q hpq
  have hw := dot_self_pos p r hpr
  -- d = U·W, u = U·U, w = W·W with U = q − p, W = r − p
  have lag : dot p q r * dot p q r = dot p q q * dot p r r := by
    simp only [dot, cross] at hcol ⊢
    linear_combination (-((q.1 - p.1) * (r.2 - p.2) - (q.2 - p.2) * (r.1 - p.1))) * hcol
  have e2 : dot q p r = dot p q q - dot p q r := by simp only [dot]; ring
  have e3 : dot r p q = dot p r r - dot p q r := by simp only [dot]; ring
  rw [e2] at h2
  rw [e3] at h3
  have t1 : 0 ≤ (dot p q q - dot p q r) * dot p r r := mul_nonneg h2 (le_of_lt hw)
  have t2 : 0 ≤ dot p q r * (dot p r r - dot p q r) := mul_nonneg h1 h3
  have s0 : (dot p q q - dot p q r) * dot p r r + dot p q r * (dot p r r - dot p q r) = 0 := by
    linear_combination (-1 : Int) * lag
  have z1 : (dot p q q - dot p q r) * dot p r r = 0 := by linarith
  have z2 : dot p q r * (dot p r r - dot p q r) = 0 := by linarith
  have ud : dot p q q = dot p q r := by
    rcases mul_eq_zero.mp z1 with h | h
    · linarith
    · linarith
  have wd : dot p r r = dot p q r := by
    rcases mul_eq_zero.mp z2 with h | h
    · linarith
    · linarith
  -- |U − W|² = u − 2d + w = 0
  have hz : dot q r r = 0 := by
    have : dot q r r = dot p q q - 2 * dot p q r + dot p r r := by simp only [dot]; ring
    rw [this, ud, wd]; ring
  have := dot_self_pos q r hqr
  linarith

/-- a vertex `q` strictly between two points `p`, `r` that both lie in the closed wedge of its strict corner
    `A, q, B`: impossible -/
theorem middle_contra (s : Int) (A q B p r : Pt)
    (hturn : 0 < s * cross A q B)
    (hp1 : 0 ≤ s * cross A q p) (hr1 : 0 ≤ s * cross A q r)
    (hp2 : 0 ≤ s * cross q B p) (hr2 : 0 ≤ s * cross q B r)
    (hcol : cross q p r = 0) (hdot : dot q p r < 0) : False := by
  have hPP : 0 < dot q p p := by
    apply dot_self_pos
    rintro rfl
    simp [dot] at hdot
  -- (R×A')·|P|² = (P·R)·(P×A')
  have id1 : cross A q r * dot q p p = dot q p r * cross A q p := by
    simp only [cross, dot] at hcol ⊢
    linear_combination (-((p.1 - q.1) * (A.1 - q.1) + (p.2 - q.2) * (A.2 - q.2))) * hcol
  have id2 : cross q B r * dot q p p = dot q p r * cross q B p := by
    simp only [cross, dot] at hcol ⊢
    linear_combination ((p.1 - q.1) * (B.1 - q.1) + (p.2 - q.2) * (B.2 - q.2)) * hcol
  have zA : s * cross A q p = 0 := by
    have h1 : 0 ≤ (s * cross A q r) * dot q p p := mul_nonneg hr1 (le_of_lt hPP)
    have h2 : (s * cross A q r) * dot q p p = dot q p r * (s * cross A q p) := by
      linear_combination s * id1
    have h3 : dot q p r * (s * cross A q p) ≤ 0 := mul_nonpos_of_nonpos_of_nonneg (le_of_lt hdot) hp1
    have h4 : dot q p r * (s * cross A q p) = 0 := by linarith
    rcases mul_eq_zero.mp h4 with h | h
    · linarith
    · exact h
  have zB : s * cross q B p = 0 := by
    have h1 : 0 ≤ (s * cross q B r) * dot q p p := mul_nonneg hr2 (le_of_lt hPP)
    have h2 : (s * cross q B r) * dot q p p = dot q p r * (s * cross q B p) := by
      linear_combination s * id2
    have h3 : dot q p r * (s * cross q B p) ≤ 0 := mul_nonpos_of_nonpos_of_nonneg (le_of_lt hdot) hp2
    have h4 : dot q p r * (s * cross q B p) = 0 := by linarith
    rcases mul_eq_zero.mp h4 with h | h
    · linarith
    · exact h
  have id3 : cross A q B * dot q p p =
      ((p.1 - q.1) * (A.1 - q.1) + (p.2 - q.2) * (A.2 - q.2)) * cross q B p
      + ((p.1 - q.1) * (B.1 - q.1) + (p.2 - q.2) * (B.2 - q.2)) * cross A q p := by
    simp only [cross, dot]; ring
  have zT : (s * cross A q B) * dot q p p = 0 := by
    have : (s * cross A q B) * dot q p p =
        ((p.1 - q.1) * (A.1 - q.1) + (p.2 - q.2) * (A.2 - q.2)) * (s * cross q B p)
        + ((p.1 - q.1) * (B.1 - q.1) + (p.2 - q.2) * (B.2 - q.2)) * (s * cross A q p) := by
      linear_combination s * id3
    rw [this, zA, zB]; ring
  have := mul_pos hturn hPP
  linarith

/-- a point on both lines of a strict corner is the corner -/
theorem corner_unique (a w b v : Pt) (h1 : cross a w v = 0) (h2 : cross w b v = 0) (ht : cross a w b ≠ 0) :
    v = w := by
  have e1 : (v.1 - w.1) * cross a w b = 0 := by
    simp only [cross] at h1 h2 ⊢
    linear_combination (b.1 - w.1) * h1 + (a.1 - w.1) * h2
  have e2 : (v.2 - w.2) * cross a w b = 0 := by
    simp only [cross] at h1 h2 ⊢
    linear_combination (b.2 - w.2) * h1 + (a.2 - w.2) * h2
  have z1 := (mul_eq_zero.mp e1).resolve_right ht
  have z2 := (mul_eq_zero.mp e2).resolve_right ht
  exact Prod.ext (by omega) (by omega)

/-! ### list-level consequences for a certified vertex list -/

theorem sign_mul_eq_zero {s c : Int} (hs : s = 1 ∨ s = -1) (h : s * c = 0) : c = 0 := by
  rcases hs with rfl | rfl <;> omega

/-- no three distinct vertices of a certified hull lie on one line -/
theorem ConvexCycle.no_three_collinear {s : Int} {pts vs : List Pt} (h : ConvexCycle s pts vs)
    (p q r : Pt) (hp : p ∈ vs) (hq : q ∈ vs) (hr : r ∈ vs) (hpq : p ≠ q) (hpr : p ≠ r) (hqr : q ≠ r) :
    cross p q r ≠ 0 := by
  have mid : ∀ q p r : Pt, q ∈ vs → p ∈ vs → r ∈ vs → cross q p r = 0 → dot q p r < 0 → False := by
    intro q p r hq hp hr hcol hdot
    obtain ⟨A, B, ht, hAq, hqB, _, _⟩ := corner_of_mem vs q hq
    exact middle_contra s A q B p r (h.turn _ ht)
      (h.inside p (h.sub p hp) _ hAq) (h.inside r (h.sub r hr) _ hAq)
      (h.inside p (h.sub p hp) _ hqB) (h.inside r (h.sub r hr) _ hqB) hcol hdot
  intro hc
  rcases exists_middle p q r hpq hpr hqr hc with hd | hd | hd
  · exact mid p q r hp hq hr hc hd
  · exact mid q p r hq hp hr (by simp only [cross] at hc ⊢; linarith) hd
  · exact mid r p q hr hp hq (by simp only [cross] at hc ⊢; linarith) hd

/-- two certified vertex lists for the same points have the same vertices -/
theorem ConvexCycle.vertex_mem {s s' : Int} {pts vs ws : List Pt} (h : ConvexCycle s pts vs)
    (h' : ConvexCycle s' pts ws) (w : Pt) (hw : w ∈ ws) : w ∈ vs := by
  obtain ⟨a, b, ht, haw, hwb, _, _⟩ := corner_of_mem ws w hw
  obtain ⟨v, hv, hle⟩ := h.support (-(s' * (b.2 - a.2))) (s' * (b.1 - a.1)) w (h'.sub w hw)
  have hvp := h.sub v hv
  have k1 := h'.inside v hvp _ haw
  have k2 := h'.inside v hvp _ hwb
  have key : lin (-(s' * (b.2 - a.2))) (s' * (b.1 - a.1)) v - lin (-(s' * (b.2 - a.2))) (s' * (b.1 - a.1)) w
      = s' * cross a w v + s' * cross w b v := by
    simp only [lin, cross]; ring
  have z1 : s' * cross a w v = 0 := by simp only [] at k1 k2; linarith
  have z2 : s' * cross w b v = 0 := by simp only [] at k1 k2; linarith
  have hturn := h'.turn _ ht
  have hne : cross a w b ≠ 0 := by
    intro e; simp only [] at hturn; rw [e] at hturn; simp at hturn
  have := corner_unique a w b v (sign_mul_eq_zero h'.sign z1) (sign_mul_eq_zero h'.sign z2) hne
  exact this ▸ hv

theorem zip_left_unique {α β} (l : List α) (m : List β) (hn : l.Nodup) (a : α) (b b' : β)
    (h1 : (a, b) ∈ l.zip m) (h2 : (a, b') ∈ l.zip m) : b = b' := by
  induction l generalizing m with
  | nil => simp at h1
  | cons x l ih =>
    cases m with
    | nil => simp at h1
    | cons y m =>
      simp only [List.zip_cons_cons, List.mem_cons, Prod.mk.injEq] at h1 h2
      have hx : x ∉ l := (List.nodup_cons.mp hn).1
      rcases h1 with ⟨rfl, rfl⟩ | h1
      · rcases h2 with ⟨_, rfl⟩ | h2
        · rfl
        · exact absurd (List.of_mem_zip h2).1 hx
      · rcases h2 with ⟨rfl, rfl⟩ | h2
        · exact absurd (List.of_mem_zip h1).1 hx
        · exact ih m (List.nodup_cons.mp hn).2 h1 h2

theorem zip_right_unique {α β} (l : List α) (m : List β) (hn : m.Nodup) (a a' : α) (b : β)
    (h1 : (a, b) ∈ l.zip m) (h2 : (a', b) ∈ l.zip m) : a = a' := by
  induction l generalizing m with
  | nil => simp at h1
  | cons x l ih =>
    cases m with
    | nil => simp at h1
    | cons y m =>
      simp only [List.zip_cons_cons, List.mem_cons, Prod.mk.injEq] at h1 h2
      have hy : y ∉ m := (List.nodup_cons.mp hn).1
      rcases h1 with ⟨rfl, rfl⟩ | h1
      · rcases h2 with ⟨rfl, _⟩ | h2
        · rfl
        · exact absurd (List.of_mem_zip h2).2 hy
      · rcases h2 with ⟨rfl, rfl⟩ | h2
        · exact absurd (List.of_mem_zip h1).2 hy
        · exact ih m (List.nodup_cons.mp hn).2 h1 h2

theorem nodup_rot1 {α} (l : List α) (h : l.Nodup) : (rot1 l).Nodup := by
  cases l with
  | nil => simp [rot1]
  | cons a l =>
    simp only [rot1]
    have := List.nodup_cons.mp h
    rw [List.nodup_append]
    refine ⟨this.2, by simp, ?_⟩
    intro x hx y hy
    simp only [List.mem_singleton] at hy
    subst hy
    intro e; subst e; exact this.1 hx

/-- the two ends of an edge differ -/
theorem ConvexCycle.edge_ne {s : Int} {pts vs : List Pt} (h : ConvexCycle s pts vs) (a b : Pt)
    (hab : (a, b) ∈ cedges vs) : a ≠ b := by
  obtain ⟨x, b', ht, _, hab', _, _⟩ := corner_of_mem vs a (mem_of_mem_cedges vs a b hab).1
  have hb : b = b' := zip_left_unique vs (rot1 vs) h.nodup a b b' hab hab'
  subst hb
  have hturn := h.turn _ ht
  rintro rfl
  have e : cross x a a = 0 := by simp only [cross]; ring
  simp only [] at hturn
  rw [e] at hturn
  simp at hturn

/-- same orientation: every edge of one certified list is an edge of the other -/
theorem ConvexCycle.edge_mem_same {s : Int} {pts vs ws : List Pt} (h : ConvexCycle s pts vs)
    (h' : ConvexCycle s pts ws) (a b : Pt) (hab : (a, b) ∈ cedges ws) : (a, b) ∈ cedges vs := by
  obtain ⟨haw, hbw⟩ := mem_of_mem_cedges ws a b hab
  have hav := h.vertex_mem h' a haw
  have hbv := h.vertex_mem h' b hbw
  obtain ⟨_, u, _, _, hau, _, huv⟩ := corner_of_mem vs a hav
  by_cases hub : u = b
  · exact hub ▸ hau
  · exfalso
    have k1 := h.inside b (h.sub b hbv) _ hau
    have k2 := h'.inside u (h.sub u huv) _ hab
    have e : cross a u b = - cross a b u := by simp only [cross]; ring
    have z : s * cross a u b = 0 := by
      simp only [] at k1 k2
      rw [e] at k1 ⊢
      have : s * -cross a b u = -(s * cross a b u) := by ring
      rw [this] at k1 ⊢
      linarith
    exact h.no_three_collinear a u b hav huv hbv (h.edge_ne a u hau) (h'.edge_ne a b hab) hub
      (sign_mul_eq_zero h.sign z)

/-- opposite orientation: every edge of one certified list is a reversed edge of the other -/
theorem ConvexCycle.edge_mem_opp {s : Int} {pts vs ws : List Pt} (h : ConvexCycle s pts vs)
    (h' : ConvexCycle (-s) pts ws) (a b : Pt) (hab : (a, b) ∈ cedges ws) : (b, a) ∈ cedges vs := by
  obtain ⟨haw, hbw⟩ := mem_of_mem_cedges ws a b hab
  have hav := h.vertex_mem h' a haw
  have hbv := h.vertex_mem h' b hbw
  obtain ⟨u, _, _, hua, _, huv, _⟩ := corner_of_mem vs a hav
  by_cases hub : u = b
  · exact hub ▸ hua
  · exfalso
    have k1 := h.inside b (h.sub b hbv) _ hua
    have k2 := h'.inside u (h.sub u huv) _ hab
    have e : cross a b u = cross u a b := by simp only [cross]; ring
    have z : s * cross u a b = 0 := by
      simp only [] at k1 k2
      rw [e] at k2
      have : -s * cross u a b = -(s * cross u a b) := by ring
      rw [this] at k2
      linarith
    exact h.no_three_collinear u a b huv hav hbv (h.edge_ne u a hua) hub (h'.edge_ne a b hab)
      (sign_mul_eq_zero h.sign z)

/-! ### the shoelace sum as a sum over the cyclic edges -/

def segE (e : Pt × Pt) : Int := seg e.1 e.2

theorem shoe_eq_sum (l : List Pt) : ∀ a : Pt, shoe (a :: l) = (((a :: l).zip l).map segE).sum := by
  induction l with
  | nil => intro a; simp [shoe]
  | cons b r ih =>
    intro a
    rw [shoe_cons_cons, ih b]
    simp [segE]

theorem shoelace_eq_sum (vs : List Pt) : shoelace vs = ((cedges vs).map segE).sum := by
  cases vs with
  | nil => simp [shoelace, cedges, rot1]
  | cons p ps =>
    rw [shoelace_cons]
    show shoe (p :: (ps ++ [p])) = _
    rw [shoe_eq_sum]
    have : (p :: (ps ++ [p])).zip (ps ++ [p]) = (p :: ps).zip (ps ++ [p]) := by
      have h := List.zip_append (l₁ := p :: ps) (r₁ := [p]) (l₂ := ps ++ [p]) (r₂ := []) (by simp)
      simpa using h
    simp only [cedges, rot1]
    rw [← this]

theorem perm_sum_map {α} (f : α → Int) {l1 l2 : List α} (h : l1.Perm l2) : (l1.map f).sum = (l2.map f).sum := by
  induction h with
  | nil => rfl
  | cons x _ ih => simp [ih]
  | swap x y l => simp; ring
  | trans _ _ ih1 ih2 => rw [ih1, ih2]

theorem nodup_cedges (vs : List Pt) (h : vs.Nodup) : (cedges vs).Nodup := by
  apply List.Nodup.of_map Prod.fst
  rw [cedges, List.map_fst_zip (by simp [length_rot1])]
  exact h

theorem length_cedges (vs : List Pt) : (cedges vs).length = vs.length := by
  simp [cedges, List.length_zip, length_rot1]

/-- two certified vertex lists for the same points enclose the same area -/
theorem ConvexCycle.area_eq {s s' : Int} {pts vs ws : List Pt} (h : ConvexCycle s pts vs)
    (h' : ConvexCycle s' pts ws) : area2 ws = area2 vs := by
  have hlen : vs.length ≤ ws.length :=
    (List.subperm_of_subset h.nodup (fun v hv => h'.vertex_mem h v hv)).length_le
  have hss : s' = s ∨ s' = -s := by
    rcases h.sign with rfl | rfl <;> rcases h'.sign with rfl | rfl <;> simp
  rcases hss with rfl | rfl
  · have sub : cedges ws ⊆ cedges vs := fun e he => h.edge_mem_same h' e.1 e.2 he
    have perm : (cedges ws).Perm (cedges vs) :=
      (List.subperm_of_subset (nodup_cedges ws h'.nodup) sub).perm_of_length_le
        (by rw [length_cedges, length_cedges]; exact hlen)
    simp only [area2, shoelace_eq_sum, perm_sum_map segE perm]
  · have sub : (cedges ws).map Prod.swap ⊆ cedges vs := by
      intro e he
      obtain ⟨e', he', rfl⟩ := List.mem_map.mp he
      exact h.edge_mem_opp h' e'.1 e'.2 he'
    have nd : ((cedges ws).map Prod.swap).Nodup :=
      (nodup_cedges ws h'.nodup).map (fun a b hab => by
        have := congrArg Prod.swap hab; simpa using this)
    have perm : ((cedges ws).map Prod.swap).Perm (cedges vs) :=
      (List.subperm_of_subset nd sub).perm_of_length_le
        (by rw [List.length_map, length_cedges, length_cedges]; exact hlen)
    have hneg : (((cedges ws).map Prod.swap).map segE).sum = - ((cedges ws).map segE).sum := by
      generalize cedges ws = l
      induction l with
      | nil => simp
      | cons e l ih =>
        simp only [List.map_cons, List.sum_cons, ih]
        simp only [segE, seg, Prod.swap]; ring
    have := perm_sum_map segE perm
    rw [hneg] at this
    simp only [area2, shoelace_eq_sum]
    rw [← this]
    simp

end Pagexml.C09
