/-
The token loop of `get_line_words`: a pure specification (`loopP`), its equality with the
`Res`-valued model (`wordLoop`) on non-empty terms, and the invariants the property theorems use.
-/
import PagexmlModel.Lemmas.Words

namespace Pagexml.C17

/-- how one term changes `new_terms` -/
inductive StepShape (cc : CharClass) (acc : List Str) (term : Str) : List Str → Prop where
  | skip : (strip cc term = [] ∨ term = [' ']) → StepShape cc acc term acc
  | push : strip cc term ≠ [] → StepShape cc acc term (acc ++ [strip cc term])
  | glueStripped (init : List Str) (l : Str) : acc = init ++ [l] → strip cc term ≠ [] →
      StepShape cc acc term (init ++ [l ++ strip cc term])
  | glueRaw (init : List Str) (l : Str) (t0 : Char) (tr : Str) : acc = init ++ [l] → term = t0 :: tr →
      cc.isAlpha t0 = true → StepShape cc acc term (init ++ [l ++ term])

/-- the loop, as a relation between `new_terms` before and after: every step has one of the shapes -/
inductive Steps (cc : CharClass) : List Str → List Str → List Str → Prop where
  | nil (acc : List Str) : Steps cc acc [] acc
  | cons (acc acc' out : List Str) (term : Str) (rest : List Str) :
      StepShape cc acc term acc' → Steps cc acc' rest out → Steps cc acc (term :: rest) out

theorem appendToLast_concat (init : List Str) (l x : Str) :
    appendToLast (init ++ [l]) x = .ok (init ++ [l ++ x]) := by
  simp [appendToLast, pyLast_concat, bind, Except.bind, pure, Except.pure]

/-- totality of the loop and the shape of its steps: no subscript of the loop can fail when the
    terms are non-empty (which the `\b` split guarantees) -/
theorem wordLoop_steps (cc : CharClass) (B : BreakSet) (terms : List Str) :
    ∀ (prev : Option Str) (acc : List Str), (∀ t ∈ terms, t ≠ []) → (∀ p, prev = some p → p ≠ []) →
      ∃ out, wordLoop cc B prev acc terms = .ok out ∧ Steps cc acc terms out := by
  induction terms with
  | nil => intro prev acc _ _; exact ⟨acc, by simp [wordLoop], Steps.nil acc⟩
  | cons term rest ih =>
    intro prev acc hne hprev
    have hrest : ∀ t ∈ rest, t ≠ [] := fun t ht => hne t (List.mem_cons_of_mem _ ht)
    have hterm : term ≠ [] := hne term (by simp)
    have hnext : ∀ p, some term = some p → p ≠ [] := by
      intro p hp; cases hp; exact hterm
    -- every branch continues with `wordLoop (some term) acc' rest`
    have cont : ∀ acc0 acc', StepShape cc acc0 term acc' →
        ∃ out, wordLoop cc B (some term) acc' rest = .ok out ∧ Steps cc acc0 (term :: rest) out := by
      intro acc0 acc' hs
      obtain ⟨out, h1, h2⟩ := ih (some term) acc' hrest hnext
      exact ⟨out, h1, Steps.cons acc0 acc' out term rest hs h2⟩
    unfold wordLoop
    by_cases hblank : strip cc term = []
    · simp only [hblank, if_true]
      exact cont acc acc (StepShape.skip (Or.inl hblank))
    · simp only [hblank, if_false]
      cases prev with
      | none => exact cont _ _ (StepShape.push hblank)
      | some prevTerm =>
        cases acc with
        | nil => exact cont _ _ (StepShape.push hblank)
        | cons a0 arest =>
          have hp : prevTerm ≠ [] := hprev prevTerm rfl
          obtain ⟨t0, tr, rfl⟩ : ∃ t0 tr, term = t0 :: tr := by
            cases term with
            | nil => exact absurd rfl hterm
            | cons t0 tr => exact ⟨t0, tr, rfl⟩
          obtain ⟨p0, pr, rfl⟩ : ∃ p0 pr, prevTerm = p0 :: pr := by
            cases prevTerm with
            | nil => exact absurd rfl hp
            | cons p0 pr => exact ⟨p0, pr, rfl⟩
          obtain ⟨pl, hpl⟩ := pyLast_ok_of_ne_nil hp
          obtain ⟨init, l, hil⟩ := exists_concat (s := a0 :: arest) (by simp)
          simp only [pyHead_cons, bind, Except.bind, pure, Except.pure]
          rw [hil]
          by_cases h1 : (B t0 && cc.isAlpha p0) = true
          · simp only [h1, if_true, appendToLast_concat]
            exact cont _ _ (StepShape.glueStripped init l rfl hblank)
          · simp only [h1]
            by_cases ha : cc.isAlpha t0 = true
            · simp only [ha, if_true, hpl]
              by_cases hb : B pl = true
              · simp only [hb, if_true, appendToLast_concat]
                exact cont _ _ (StepShape.glueRaw init l t0 tr rfl rfl ha)
              · simp only [hb]
                by_cases hsp : t0 :: tr = [' ']
                · simp only [hsp, if_true]
                  have := cont (init ++ [l]) (init ++ [l]) (StepShape.skip (Or.inr hsp))
                  simpa [hsp] using this
                · simp only [hsp, if_false]
                  exact cont _ _ (StepShape.push hblank)
            · simp only [ha]
              by_cases hsp : t0 :: tr = [' ']
              · simp only [hsp, if_true]
                have := cont (init ++ [l]) (init ++ [l]) (StepShape.skip (Or.inr hsp))
                simpa [hsp] using this
              · simp only [hsp, if_false]
                exact cont _ _ (StepShape.push hblank)

/-! ### invariants of `Steps` -/

/-- a token with at least one non-whitespace character -/
def NonBlank (cc : CharClass) (w : Str) : Prop := ∃ c ∈ w, cc.isSpace c = false

theorem NonBlank.ne_nil {cc : CharClass} {w : Str} (h : NonBlank cc w) : w ≠ [] := by
  obtain ⟨c, hc, _⟩ := h
  intro e; simp [e] at hc

theorem Steps.nonblank {cc : CharClass} {acc terms out : List Str} (h : Steps cc acc terms out)
    (hacc : ∀ w ∈ acc, NonBlank cc w) : ∀ w ∈ out, NonBlank cc w := by
  induction h with
  | nil acc => exact hacc
  | cons acc acc' out term rest hs _ ih =>
    apply ih
    cases hs with
    | skip _ => exact hacc
    | push hne =>
      intro w hw
      rcases List.mem_append.mp hw with hw | hw
      · exact hacc w hw
      · simp at hw; subst hw; exact strip_nonblank cc term hne
    | glueStripped init l he hne =>
      intro w hw
      rcases List.mem_append.mp hw with hw | hw
      · exact hacc w (by rw [he]; exact List.mem_append_left _ hw)
      · simp at hw; subst hw
        obtain ⟨c, hc, hs⟩ := hacc l (by rw [he]; simp)
        exact ⟨c, List.mem_append_left _ hc, hs⟩
    | glueRaw init l t0 tr he ht ha =>
      intro w hw
      rcases List.mem_append.mp hw with hw | hw
      · exact hacc w (by rw [he]; exact List.mem_append_left _ hw)
      · simp at hw; subst hw
        obtain ⟨c, hc, hs⟩ := hacc l (by rw [he]; simp)
        exact ⟨c, List.mem_append_left _ hc, hs⟩

/-- conservation: the non-whitespace characters of the terms are appended to those of `new_terms`,
    in order (the dead `term == ' '` branch needs `' '` to be whitespace) -/
theorem Steps.conserve {cc : CharClass} (hlaw : cc.isSpace ' ' = true) {acc terms out : List Str}
    (h : Steps cc acc terms out) :
    out.flatten.filter (notSpace cc) = acc.flatten.filter (notSpace cc) ++ terms.flatten.filter (notSpace cc) := by
  induction h with
  | nil acc => simp
  | cons acc acc' out term rest hs _ ih =>
    rw [ih]
    have key : acc'.flatten.filter (notSpace cc) = acc.flatten.filter (notSpace cc) ++ term.filter (notSpace cc) := by
      cases hs with
      | skip hb =>
        have : term.filter (notSpace cc) = [] := by
          rcases hb with hb | hb
          · rw [← strip_filter, hb]; rfl
          · subst hb; simp [notSpace, hlaw]
        simp [this]
      | push _ => simp [strip_filter]
      | glueStripped init l he _ => subst he; simp [strip_filter]
      | glueRaw init l t0 tr he ht _ => subst he; simp
    rw [key]; simp

/-- tokens start and end with a non-whitespace character -/
def Trimmed (cc : CharClass) (w : Str) : Prop :=
  (∀ a r, w = a :: r → cc.isSpace a = false) ∧ (∀ p a, w = p ++ [a] → cc.isSpace a = false)

theorem strip_trimmed (cc : CharClass) (s : Str) : Trimmed cc (strip cc s) := by
  obtain ⟨_, _, _, _, _, h1, h2⟩ := strip_spec cc s
  exact ⟨h1, h2⟩

theorem trimmed_append {cc : CharClass} {l x : Str} (hl : Trimmed cc l) (hx : Trimmed cc x)
    (hln : l ≠ []) (hxn : x ≠ []) : Trimmed cc (l ++ x) := by
  constructor
  · intro a r h
    cases l with
    | nil => exact absurd rfl hln
    | cons b l' =>
      simp at h
      exact h.1 ▸ hl.1 b l' rfl
  · intro p a h
    obtain ⟨q, b, rfl⟩ := exists_concat hxn
    have : l ++ (q ++ [b]) = (l ++ q) ++ [b] := by simp
    rw [this] at h
    have h' := List.append_inj' h rfl
    have hb : b = a := by simpa using h'.2
    subst hb
    exact hx.2 q b rfl

/-- a word run (first character alphabetic, all characters of one `\w` class) contains no whitespace -/
theorem run_no_space {cc : CharClass} (law : cc.Lawful) {t0 : Char} {tr : Str}
    (hh : Homog cc (t0 :: tr)) (ha : cc.isAlpha t0 = true) : ∀ c ∈ t0 :: tr, cc.isSpace c = false := by
  intro c hc
  have hw : cc.isWord c = true := by
    rw [hh c hc t0 (by simp)]; exact law.alpha_word t0 ha
  cases hs : cc.isSpace c with
  | false => rfl
  | true => rw [law.space_not_word c hs] at hw; cases hw

theorem Steps.trimmed {cc : CharClass} (law : cc.Lawful) {acc terms out : List Str} (h : Steps cc acc terms out)
    (hterms : ∀ t ∈ terms, Homog cc t)
    (hacc : ∀ w ∈ acc, Trimmed cc w ∧ w ≠ []) : ∀ w ∈ out, Trimmed cc w ∧ w ≠ [] := by
  induction h with
  | nil acc => exact hacc
  | cons acc acc' out term rest hs _ ih =>
    apply ih (fun t ht => hterms t (List.mem_cons_of_mem _ ht))
    have hterm := hterms term (by simp)
    cases hs with
    | skip _ => exact hacc
    | push hne =>
      intro w hw
      rcases List.mem_append.mp hw with hw | hw
      · exact hacc w hw
      · simp at hw; subst hw; exact ⟨strip_trimmed cc term, hne⟩
    | glueStripped init l he hne =>
      intro w hw
      rcases List.mem_append.mp hw with hw | hw
      · exact hacc w (by rw [he]; exact List.mem_append_left _ hw)
      · simp at hw; subst hw
        obtain ⟨hl, hln⟩ := hacc l (by rw [he]; simp)
        exact ⟨trimmed_append hl (strip_trimmed cc term) hln hne, by simp [hln]⟩
    | glueRaw init l t0 tr he ht ha =>
      intro w hw
      rcases List.mem_append.mp hw with hw | hw
      · exact hacc w (by rw [he]; exact List.mem_append_left _ hw)
      · simp at hw; subst hw
        obtain ⟨hl, hln⟩ := hacc l (by rw [he]; simp)
        subst ht
        have hns := run_no_space law hterm ha
        have htrim : Trimmed cc (t0 :: tr) := by
          constructor
          · intro a r h; exact hns a (by rw [h]; simp)
          · intro p a h; exact hns a (by rw [h]; simp)
        exact ⟨trimmed_append hl htrim hln (by simp), by simp [hln]⟩

/-! ### `lineWords` through the loop -/

theorem lineWords_steps (cc : CharClass) (B : BreakSet) (s : Str) (hs : s ≠ []) :
    ∃ out, lineWords cc B (some s) = .ok out ∧ Steps cc [] (splitRuns cc (normTrail B s)) out := by
  obtain ⟨c, r, rfl⟩ : ∃ c r, s = c :: r := by
    cases s with
    | nil => exact absurd rfl hs
    | cons c r => exact ⟨c, r, rfl⟩
  obtain ⟨_, hne, _, _⟩ := splitRuns_spec cc (normTrail B (c :: r))
  obtain ⟨out, h1, h2⟩ := wordLoop_steps cc B (splitRuns cc (normTrail B (c :: r))) none [] hne (by simp)
  refine ⟨out, ?_, h2⟩
  simp only [lineWords, normLine_eq B (c :: r) (by simp), bind, Except.bind, reSplitB_filter]
  exact h1

theorem lineWords_total (cc : CharClass) (B : BreakSet) (line : Option Str) :
    ∃ ws, lineWords cc B line = .ok ws := by
  cases line with
  | none => exact ⟨[], rfl⟩
  | some s =>
    by_cases hs : s = []
    · subst hs; exact ⟨[], rfl⟩
    · obtain ⟨out, h, _⟩ := lineWords_steps cc B s hs
      exact ⟨out, h⟩

end Pagexml.C17
