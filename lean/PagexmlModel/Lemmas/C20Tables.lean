/-
Partition laws of the statistics tables (C20): word categories, word-length bins,
words-per-line categories, line-width ranges; the per-document table as a fold.
-/
import PagexmlModel.Lemmas.C20Counter
import PagexmlModel.Lemmas.C20Consts

set_option linter.unusedSectionVars false
set_option linter.unusedSimpArgs false

namespace Pagexml.C20

/-! ### counting with predicates -/

theorem countP_cons {W : Type} (p : W → Bool) (w : W) (ws : List W) :
    countP p (w :: ws) = (if p w then 1 else 0) + countP p ws := by
  simp only [countP, List.filter_cons]
  split <;> simp <;> omega

/-- two predicates that exclude each other and together make up a third -/
theorem countP_split {W : Type} (p q r : W → Bool) (ws : List W)
    (h : ∀ w ∈ ws, (p w = true → q w = false) ∧ r w = (p w || q w)) :
    countP p ws + countP q ws = countP r ws := by
  induction ws with
  | nil => rfl
  | cons w rest ih =>
    have hw := h w (by simp)
    have := ih (fun x hx => h x (List.mem_cons_of_mem _ hx))
    simp only [countP_cons]
    cases hp : p w <;> cases hq : q w <;> simp_all <;> omega

theorem countP_true {W : Type} (r : W → Bool) (ws : List W) (h : ∀ w ∈ ws, r w = true) :
    countP r ws = ws.length := by
  induction ws with
  | nil => rfl
  | cons w rest ih =>
    simp only [countP_cons, h w (by simp), if_true, List.length_cons,
      ih (fun x hx => h x (List.mem_cons_of_mem _ hx))]
    omega

/-- `title + non-title = all words` (any predicate and its negation) -/
theorem countP_compl {W : Type} (p : W → Bool) (ws : List W) :
    countP p ws + countP (fun w => !p w) ws = ws.length := by
  rw [countP_split p (fun w => !p w) (fun _ => true) ws (by intro w _; cases p w <;> simp)]
  exact countP_true _ _ (fun _ _ => rfl)

/-! ### word-length bins -/

def sumSnd (l : List (Nat × Nat)) : Nat := (l.map (·.2)).sum

theorem binStep_sum (size : Nat) (hs : 0 < size) (freq : Nat → Nat) (st : List (Nat × Nat)) (hne : st ≠ [])
    (wl : Nat) : sumSnd (binStep size freq st wl) = sumSnd st + freq wl ∧ binStep size freq st wl ≠ [] := by
  cases st with
  | nil => exact absurd rfl hne
  | cons p r =>
    obtain ⟨b, n⟩ := p
    have hs' : ¬ size = 0 := by omega
    simp only [binStep, hs', if_false]
    split
    · simp [sumSnd]; omega
    · simp [sumSnd]; omega

theorem foldl_binStep_sum (size : Nat) (hs : 0 < size) (freq : Nat → Nat) (l : List Nat) (st : List (Nat × Nat))
    (hne : st ≠ []) :
    sumSnd (l.foldl (binStep size freq) st) = sumSnd st + (l.map freq).sum ∧ l.foldl (binStep size freq) st ≠ [] := by
  induction l generalizing st with
  | nil => simp [hne]
  | cons wl r ih =>
    obtain ⟨h1, h2⟩ := binStep_sum size hs freq st hne wl
    obtain ⟨g1, g2⟩ := ih _ h2
    simp only [List.foldl_cons, List.map_cons, List.sum_cons]
    exact ⟨by rw [g1, h1]; omega, g2⟩

/-- the bins add up to the frequencies of the lengths `1 … max_word_length` -/
theorem lengthBins_sum (size : Nat) (hs : 0 < size) (maxLen : Nat) (freq : Nat → Nat) :
    sumSnd (lengthBins size maxLen freq) = ((List.range' 1 maxLen).map freq).sum := by
  have := (foldl_binStep_sum size hs freq (List.range' 1 maxLen) [(size, 0)] (by simp)).1
  simp only [lengthBins, sumSnd, List.map_reverse, List.sum_reverse] at this ⊢
  simpa [sumSnd] using this

/-- the labels of the bins do not depend on the frequencies (so every document produces the same
    word-length columns) -/
theorem binStep_labels (size : Nat) (f g : Nat → Nat) (st st' : List (Nat × Nat))
    (h : st.map (·.1) = st'.map (·.1)) (wl : Nat) :
    (binStep size f st wl).map (·.1) = (binStep size g st' wl).map (·.1) := by
  cases st with
  | nil =>
    cases st' with
    | nil => rfl
    | cons _ _ => simp at h
  | cons p r =>
    cases st' with
    | nil => simp at h
    | cons p' r' =>
      obtain ⟨b, n⟩ := p
      obtain ⟨b', n'⟩ := p'
      simp only [List.map_cons, List.cons.injEq] at h
      obtain ⟨hb, hr⟩ := h
      subst hb
      simp only [binStep]
      by_cases h1 : wl > b <;> by_cases h2 : size = 0 <;> simp [h1, h2, hr]

theorem lengthBins_labels (size maxLen : Nat) (f g : Nat → Nat) :
    (lengthBins size maxLen f).map (·.1) = (lengthBins size maxLen g).map (·.1) := by
  have : ∀ (l : List Nat) (st st' : List (Nat × Nat)), st.map (·.1) = st'.map (·.1) →
      (l.foldl (binStep size f) st).map (·.1) = (l.foldl (binStep size g) st').map (·.1) := by
    intro l
    induction l with
    | nil => intro st st' h; simpa using h
    | cons wl r ih => intro st st' h; exact ih _ _ (binStep_labels size f g st st' h wl)
  simp only [lengthBins, List.map_reverse]
  rw [this _ _ _ rfl]

/-- words of length `1 … n` (and at most `m`), summed length by length -/
theorem sum_range_countP {W : Type} (len : W → Nat) (m : Nat) (ws : List W) (n : Nat) :
    ((List.range' 1 n).map (fun wl => countP (fun w => decide (len w ≤ m) && decide (len w = wl)) ws)).sum =
      countP (fun w => decide (1 ≤ len w) && decide (len w ≤ n) && decide (len w ≤ m)) ws := by
  induction n with
  | zero =>
    simp only [List.range'_zero, List.map_nil, List.sum_nil]
    symm
    have : ∀ w ∈ ws, (decide (1 ≤ len w) && decide (len w ≤ 0) && decide (len w ≤ m)) = false := by
      intro w _; by_cases h : 1 ≤ len w <;> simp [h]; omega
    induction ws with
    | nil => rfl
    | cons w r ih =>
      simp only [countP_cons, this w (by simp), Bool.false_eq_true, if_false, Nat.zero_add]
      exact ih (fun x hx => this x (List.mem_cons_of_mem _ hx))
  | succ k ih =>
    rw [List.range'_concat, List.map_append, List.sum_append, ih]
    simp only [List.map_cons, List.map_nil, List.sum_cons, List.sum_nil, Nat.add_zero]
    apply countP_split
    intro w _
    constructor
    · intro hp
      simp only [Bool.and_eq_true, decide_eq_true_eq] at hp
      simp only [Bool.and_eq_false_iff, decide_eq_false_iff_not]
      omega
    · apply Bool.eq_iff_iff.mpr
      simp only [Bool.and_eq_true, Bool.or_eq_true, decide_eq_true_eq]
      omega

/-- **word lengths**: when no word is empty, the bins and the oversized words make up all words -/
theorem wordLength_partition {W : Type} (cls : WordClass W) (useStop : Bool) (maxLen size : Nat) (hs : 0 < size)
    (ws : List W) (hpos : ∀ w ∈ ws, 1 ≤ cls.len w) :
    sumSnd (wordCatStats cls useStop maxLen size ws).bins + (wordCatStats cls useStop maxLen size ws).numOversized
      = (wordCatStats cls useStop maxLen size ws).numWords := by
  simp only [wordCatStats]
  rw [lengthBins_sum size hs, sum_range_countP cls.len maxLen ws maxLen]
  rw [countP_split _ _ (fun _ => true) ws]
  · exact countP_true _ _ (fun _ _ => rfl)
  · intro w hw
    have := hpos w hw
    by_cases h : cls.len w ≤ maxLen <;> simp [h, this] <;> omega

/-! ### words per line -/

theorem sum_map_zero {β : Type} (ls : List β) : (ls.map (fun _ => 0)).sum = 0 := by
  induction ls with
  | nil => rfl
  | cons l ls ih => simp [ih]

theorem sum_count_cons {β : Type} [DecidableEq β] (x : β) (r ls : List β) :
    (ls.map (fun s => (x :: r).count s)).sum = (ls.map (fun s => r.count s)).sum + ls.count x := by
  induction ls with
  | nil => simp
  | cons l ls ihl =>
    simp only [List.map_cons, List.sum_cons, ihl]
    by_cases h : x = l
    · subst h; simp [List.count_cons]; omega
    · have h' : ¬ l = x := fun e => h e.symm
      simp [List.count_cons, h, h']; omega

theorem sum_count_eq_length {β : Type} [DecidableEq β] (labels : List β) (hn : labels.Nodup) (xs : List β)
    (hx : ∀ x ∈ xs, x ∈ labels) : (labels.map (fun s => xs.count s)).sum = xs.length := by
  induction xs with
  | nil => simp [sum_map_zero]
  | cons x r ih =>
    have h1 := ih (fun y hy => hx y (List.mem_cons_of_mem _ hy))
    have hmem := hx x (by simp)
    rw [sum_count_cons, h1, count_eq_one_of_nodup_mem labels hn x hmem]
    simp

theorem wpl_labels_nodup : (Generated.C20.wplCats.map (fun c => c.1)).Nodup := by decide

theorem wpl_label_mem (n : Nat) : wplLabel (wplCatIdx n) ∈ Generated.C20.wplCats.map (fun c => c.1) := by
  have h1 : ∀ i ∈ Generated.C20.wplToCat, wplLabel i ∈ Generated.C20.wplCats.map (fun c => c.1) := by decide
  have h2 : wplLabel Generated.C20.wplOverflow ∈ Generated.C20.wplCats.map (fun c => c.1) := by decide
  unfold wplCatIdx
  split
  · next i hi => exact h1 i (List.mem_of_getElem? hi)
  · exact h2

/-- the label of a line with `n ≤ 100` words is the range that contains `n`; the ranges are the
    consecutive intervals `wpl_cat_min … wpl_cat_max` covering 0 … 100 -/
theorem wpl_table_truthful :
    (∀ n < 101, ∃ c, Generated.C20.wplCats[wplCatIdx n]? = some c ∧ c.2.1 ≤ n ∧ n ≤ c.2.2) ∧
    Generated.C20.wplToCat.length = 101 := by decide

/-- **words per line**: the category counters of one document add up to its number of lines -/
theorem wpl_partition {W : Type} (cls : WordClass W) (alphaOnly : Bool) (lines : List (List W)) :
    ((Generated.C20.wplCats.map (fun c => c.1)).map (fun s => cget (wordsPerLine cls alphaOnly lines) s)).sum
      = lines.length := by
  simp only [wordsPerLine, cget_cupdate, cget_nil, Nat.zero_add]
  rw [sum_count_eq_length _ wpl_labels_nodup]
  · simp
  · intro x hx
    obtain ⟨ws, _, rfl⟩ := List.mem_map.mp hx
    exact wpl_label_mem _

/-! ### line widths -/

theorem categoriseFrom_mem (prev w : Int) (bps : List Int) : categoriseFrom prev w bps ∈ rangesFrom prev bps := by
  induction bps generalizing prev with
  | nil => simp [categoriseFrom, rangesFrom]
  | cons bp r ih =>
    simp only [categoriseFrom, rangesFrom]
    split
    · simp
    · exact List.mem_cons_of_mem _ (ih bp)

section cz
variable {α : Type} [DecidableEq α]

theorem ckeys_csetZero (c : Counter α) (t : α) :
    ckeys (csetZero c t) = if t ∈ ckeys c then ckeys c else ckeys c ++ [t] := by
  unfold csetZero
  by_cases h : chas c t = true
  · have hm := (chas_iff c t).mp h
    simp only [h, if_true, hm]
    simp only [ckeys, List.map_map]
    apply List.map_congr_left
    intro p _
    simp only [Function.comp]
    split <;> rfl
  · have hm : t ∉ ckeys c := fun hm => h ((chas_iff c t).mpr hm)
    have hm' : t ∉ List.map (fun x => x.fst) c := hm
    simp [h, hm', ckeys]

def AllZero (c : Counter α) : Prop := ∀ p ∈ c, p.2 = 0

theorem allZero_csetZero (c : Counter α) (t : α) (h : AllZero c) : AllZero (csetZero c t) := by
  unfold csetZero
  split
  · intro p hp
    obtain ⟨q, hq, rfl⟩ := List.mem_map.mp hp
    split
    · rfl
    · exact h q hq
  · intro p hp
    rcases List.mem_append.mp hp with hp | hp
    · exact h p hp
    · simp only [List.mem_singleton] at hp; subst hp; rfl

theorem ctotal_allZero (c : Counter α) (h : AllZero c) : ctotal c = 0 := by
  induction c with
  | nil => rfl
  | cons p r ih =>
    rw [ctotal_cons, h p (by simp), ih (fun q hq => h q (List.mem_cons_of_mem _ hq))]

theorem foldl_csetZero (ts : List α) (c : Counter α) (hz : AllZero c) (hn : (ckeys c).Nodup) :
    AllZero (ts.foldl csetZero c) ∧ (ckeys (ts.foldl csetZero c)).Nodup ∧
    (∀ t, t ∈ ckeys (ts.foldl csetZero c) ↔ t ∈ ckeys c ∨ t ∈ ts) := by
  induction ts generalizing c with
  | nil => simp [hz, hn]
  | cons x r ih =>
    have hn' : (ckeys (csetZero c x)).Nodup := by
      rw [ckeys_csetZero]
      split
      · exact hn
      · next hx =>
        exact List.nodup_append.mpr ⟨hn, by simp, by
          intro a ha b hb
          simp only [List.mem_singleton] at hb
          subst hb
          intro e; subst e; exact hx ha⟩
    obtain ⟨h1, h2, h3⟩ := ih (csetZero c x) (allZero_csetZero c x hz) hn'
    refine ⟨h1, h2, ?_⟩
    intro t
    simp only [List.foldl_cons, h3, ckeys_csetZero, List.mem_cons]
    split
    · next hx =>
      constructor
      · rintro (h | h)
        · exact Or.inl h
        · exact Or.inr (Or.inr h)
      · rintro (h | h | h)
        · exact Or.inl h
        · subst h; exact Or.inl hx
        · exact Or.inr h
    · simp only [List.mem_append, List.mem_singleton]
      constructor
      · rintro ((h | h) | h)
        · exact Or.inl h
        · exact Or.inr (Or.inl h)
        · exact Or.inr (Or.inr h)
      · rintro (h | h | h)
        · exact Or.inl (Or.inl h)
        · exact Or.inl (Or.inr h)
        · exact Or.inr h

theorem ckeys_cupdate_of_mem (c : Counter α) (xs : List α) (h : ∀ x ∈ xs, x ∈ ckeys c) :
    ckeys (cupdate c xs) = ckeys c := by
  unfold cupdate
  induction xs generalizing c with
  | nil => rfl
  | cons x r ih =>
    have hx := h x (by simp)
    have e : ckeys (cinc c x 1) = ckeys c := by rw [ckeys_cinc]; simp [hx]
    simp only [List.foldl_cons]
    rw [ih (cinc c x 1) (by intro y hy; rw [e]; exact h y (List.mem_cons_of_mem _ hy)), e]

end cz

/-- the counter `get_line_width_stats` starts from: one zero entry per range -/
def lineWidthInit (bps : List Int) : Counter WidthRange := (boundaryWidthRanges bps).foldl csetZero []

theorem lineWidthInit_spec (bps : List Int) :
    AllZero (lineWidthInit bps) ∧ (ckeys (lineWidthInit bps)).Nodup ∧
    ∀ r, r ∈ ckeys (lineWidthInit bps) ↔ r ∈ boundaryWidthRanges bps := by
  obtain ⟨h1, h2, h3⟩ := foldl_csetZero (boundaryWidthRanges bps) ([] : Counter WidthRange)
    (by intro p hp; cases hp) (by simp [ckeys])
  exact ⟨h1, h2, fun r => by rw [lineWidthInit, h3]; simp [ckeys]⟩

/-- **line widths**: the range counters add up to the number of lines; every line falls in one of
    the ranges of `get_boundary_width_ranges`; the set of ranges does not depend on the lines -/
theorem lineWidth_partition (widths : List Int) (bps : List Int) :
    ctotal (lineWidthStats widths bps) = widths.length ∧
    (∀ w, categoriseLineWidth w bps ∈ boundaryWidthRanges bps) ∧
    ckeys (lineWidthStats widths bps) = ckeys (lineWidthInit bps) := by
  obtain ⟨hz, _, hk⟩ := lineWidthInit_spec bps
  -- the only fact about the two regenerated starting points: they are equal
  have hmem : ∀ w, categoriseLineWidth w bps ∈ boundaryWidthRanges bps := by
    intro w
    unfold categoriseLineWidth boundaryWidthRanges
    rw [consts_width_starts_agree]
    exact categoriseFrom_mem _ w bps
  refine ⟨?_, hmem, ?_⟩
  · show ctotal (cupdate (lineWidthInit bps) _) = _
    rw [ctotal_cupdate, ctotal_allZero _ hz]; simp
  · show ckeys (cupdate (lineWidthInit bps) _) = _
    apply ckeys_cupdate_of_mem
    intro x hx
    obtain ⟨w, _, rfl⟩ := List.mem_map.mp hx
    exact (hk _).mpr (hmem w)

/-! ### the per-document table -/

def tkeys (t : DocTable) : List Col := t.map (·.1)

/-- `table[c]` (the first entry of that name; `[]` when absent) -/
def getCol : DocTable → Col → List Val
  | [], _ => []
  | (k, vs) :: r, c => if k = c then vs else getCol r c

/-- the values one row appends to column `c` -/
def rowVals (row : List (Col × Val)) (c : Col) : List Val := (row.filter (fun p => decide (p.1 = c))).map (·.2)

theorem appendCol_spec (t : DocTable) (c : Col) (v : Val) (h : c ∈ tkeys t) :
    ∃ t', appendCol t c v = .ok t' ∧ tkeys t' = tkeys t ∧
      ∀ c', getCol t' c' = getCol t c' ++ (if c = c' then [v] else []) := by
  induction t with
  | nil => cases h
  | cons p r ih =>
    obtain ⟨k, vs⟩ := p
    by_cases hk : k = c
    · subst hk
      refine ⟨(k, vs ++ [v]) :: r, by simp [appendCol], rfl, ?_⟩
      intro c'
      by_cases hc : k = c' <;> simp [getCol, hc]
    · have hr : c ∈ tkeys r := by
        simp only [tkeys, List.map_cons, List.mem_cons] at h
        rcases h with e | h
        · exact absurd e.symm hk
        · exact h
      obtain ⟨r', h1, h2, h3⟩ := ih hr
      refine ⟨(k, vs) :: r', by simp [appendCol, hk, h1], by simp [tkeys] at h2 ⊢; exact h2, ?_⟩
      intro c'
      by_cases hc : k = c'
      · have : ¬ c = c' := fun e => hk (hc.trans e.symm)
        simp [getCol, hc, this]
      · simp [getCol, hc, h3 c']

theorem appendRow_spec (row : List (Col × Val)) (t : DocTable) (h : ∀ p ∈ row, p.1 ∈ tkeys t) :
    ∃ t', appendRow t row = .ok t' ∧ tkeys t' = tkeys t ∧ ∀ c, getCol t' c = getCol t c ++ rowVals row c := by
  induction row generalizing t with
  | nil => exact ⟨t, rfl, rfl, by simp [rowVals]⟩
  | cons p r ih =>
    obtain ⟨t1, h1, h2, h3⟩ := appendCol_spec t p.1 p.2 (h p (by simp))
    obtain ⟨t2, g1, g2, g3⟩ := ih t1 (by intro q hq; rw [h2]; exact h q (List.mem_cons_of_mem _ hq))
    refine ⟨t2, ?_, g2.trans h2, ?_⟩
    · simp only [appendRow, List.foldlM_cons, h1, bind, Except.bind] at g1 ⊢
      exact g1
    · intro c
      rw [g3, h3]
      by_cases hc : p.1 = c <;> simp [rowVals, List.filter_cons, hc]

section docs
variable {T W : Type}

/-- the values the documents `ds` (numbered from `pi`) append to column `c` -/
def colVals (ops : TextOps T W) (cls : WordClass W) (cfg : DocCfg) (c : Col) : Nat → List (Doc T) → List Val
  | _, [] => []
  | pi, d :: r => rowVals (docRow ops cls cfg pi d) c ++ colVals ops cls cfg c (pi + 1) r

theorem docStatsFrom_spec (ops : TextOps T W) (cls : WordClass W) (cfg : DocCfg) (ds : List (Doc T)) (pi : Nat)
    (t : DocTable) (h : ∀ i d, ∀ p ∈ docRow ops cls cfg i d, p.1 ∈ tkeys t) :
    ∃ t', docStatsFrom ops cls cfg pi t ds = .ok t' ∧ tkeys t' = tkeys t ∧
      ∀ c, getCol t' c = getCol t c ++ colVals ops cls cfg c pi ds := by
  induction ds generalizing pi t with
  | nil => exact ⟨t, rfl, rfl, by simp [colVals]⟩
  | cons d r ih =>
    obtain ⟨t1, h1, h2, h3⟩ := appendRow_spec (docRow ops cls cfg pi d) t (h pi d)
    obtain ⟨t2, g1, g2, g3⟩ := ih (pi + 1) t1 (by intro i d' p hp; rw [h2]; exact h i d' p hp)
    refine ⟨t2, by simp [docStatsFrom, h1, g1], g2.trans h2, ?_⟩
    intro c
    rw [g3, h3, colVals, List.append_assoc]

theorem colVals_append (ops : TextOps T W) (cls : WordClass W) (cfg : DocCfg) (c : Col) (pi : Nat)
    (ds es : List (Doc T)) :
    colVals ops cls cfg c pi (ds ++ es) = colVals ops cls cfg c pi ds ++ colVals ops cls cfg c (pi + ds.length) es := by
  induction ds generalizing pi with
  | nil => simp [colVals]
  | cons d r ih =>
    simp only [List.cons_append, colVals, ih, List.append_assoc, List.length_cons]
    congr 3
    omega

theorem colVals_of_const (ops : TextOps T W) (cls : WordClass W) (cfg : DocCfg) (c : Col) (f : Doc T → Val)
    (h : ∀ i d, rowVals (docRow ops cls cfg i d) c = [f d]) (pi : Nat) (ds : List (Doc T)) :
    colVals ops cls cfg c pi ds = ds.map f := by
  induction ds generalizing pi with
  | nil => rfl
  | cons d r ih => simp [colVals, h, ih]

theorem colVals_shift (ops : TextOps T W) (cls : WordClass W) (cfg : DocCfg) (c : Col)
    (h : ∀ i j d, rowVals (docRow ops cls cfg i d) c = rowVals (docRow ops cls cfg j d) c) (pi pj : Nat)
    (ds : List (Doc T)) : colVals ops cls cfg c pi ds = colVals ops cls cfg c pj ds := by
  induction ds generalizing pi pj with
  | nil => rfl
  | cons d r ih => simp only [colVals]; rw [h pi pj d, ih (pi + 1) (pj + 1)]

theorem colVals_length (ops : TextOps T W) (cls : WordClass W) (cfg : DocCfg) (c : Col)
    (h : ∀ i d, (rowVals (docRow ops cls cfg i d) c).length = 1) (pi : Nat) (ds : List (Doc T)) :
    (colVals ops cls cfg c pi ds).length = ds.length := by
  induction ds generalizing pi with
  | nil => rfl
  | cons d r ih => simp [colVals, h, ih]; omega

theorem getCol_map_nil (l : List Col) (c : Col) : getCol (l.map (fun k => (k, ([] : List Val)))) c = [] := by
  induction l with
  | nil => rfl
  | cons k r ih => simp only [List.map_cons, getCol]; split <;> simp [ih]

theorem getCol_init (cfg : DocCfg) (c : Col) : getCol (initDocStats cfg) c = [] := by
  unfold initDocStats
  exact getCol_map_nil _ c

/-- the column names a configuration produces in every row (fixed fields, word-length bins,
    words-per-line categories twice, line-width ranges) -/
def rowKeysCfg (cfg : DocCfg) : List Col :=
  [Col.docId, .docNum, .docWidth, .docHeight] ++ (List.range numElems).map Col.elem ++
  [.numWords, .numAlpha, .numNumber, .numTitle, .numNonTitle, .numStop, .numPunct, .numOversized] ++
  (lengthBins cfg.wordSize cfg.maxLen (fun _ => 0)).map (fun b => Col.wordLen b.1) ++
  (Generated.C20.wplCats.map (fun c => c.1)).map Col.wpl ++
  (Generated.C20.wplCats.map (fun c => c.1)).map Col.awpl ++
  (ckeys (lineWidthInit cfg.bps)).map Col.lineWidth

theorem docRow_keys (ops : TextOps T W) (cls : WordClass W) (cfg : DocCfg) (pi : Nat) (d : Doc T) :
    (docRow ops cls cfg pi d).map (·.1) = rowKeysCfg cfg := by
  simp only [docRow, rowKeysCfg, List.map_append, List.map_map, List.map_cons, List.map_nil, Function.comp_def]
  have hb : ∀ f : Nat → Nat, (lengthBins cfg.wordSize cfg.maxLen f).map (fun x => Col.wordLen x.fst) =
      (lengthBins cfg.wordSize cfg.maxLen (fun _ => 0)).map (fun x => Col.wordLen x.fst) := by
    intro f
    have := congrArg (List.map Col.wordLen) (lengthBins_labels cfg.wordSize cfg.maxLen f (fun _ => 0))
    simpa only [List.map_map, Function.comp_def] using this
  have hl : ∀ ws : List Int, (lineWidthStats ws cfg.bps).map (fun x => Col.lineWidth x.fst) =
      (lineWidthInit cfg.bps).map (fun x => Col.lineWidth x.fst) := by
    intro ws
    have := congrArg (List.map Col.lineWidth) (lineWidth_partition ws cfg.bps).2.2
    simpa only [ckeys, List.map_map, Function.comp_def] using this
  simp only [wordCatStats, ckeys, List.map_map, Function.comp_def]
  rw [hb, hl]

/-- the computable check on a configuration: the bin range of `_init_doc_stats` does not raise (its step is
    not 0), every row column is a column of the initial table, and every column of the initial table occurs
    exactly once in a row -/
def cfgOk (cfg : DocCfg) : Bool :=
  decide (0 < cfg.initSize) && decide ((rowKeysCfg cfg).Nodup) &&
  (rowKeysCfg cfg).all (fun c => decide (c ∈ tkeys (initDocStats cfg))) &&
  (tkeys (initDocStats cfg)).all (fun c => decide (c ∈ rowKeysCfg cfg))

theorem rowVals_length (row : List (Col × Val)) (c : Col) :
    (rowVals row c).length = (row.map (·.1)).count c := by
  simp only [rowVals, List.length_map]
  induction row with
  | nil => rfl
  | cons p r ih =>
    simp only [List.filter_cons, List.map_cons, List.count_cons]
    by_cases h : p.1 = c
    · simp [h, ih]
    · simp [h, ih]

theorem rowVals_length_one (row : List (Col × Val)) (c : Col) (hn : (row.map (·.1)).Nodup) (hc : c ∈ row.map (·.1)) :
    (rowVals row c).length = 1 := by
  rw [rowVals_length]
  exact count_eq_one_of_nodup_mem _ hn c hc

theorem rowVals_shift (ops : TextOps T W) (cls : WordClass W) (cfg : DocCfg) (c : Col) (hc : c ≠ Col.docNum)
    (i j : Nat) (d : Doc T) : rowVals (docRow ops cls cfg i d) c = rowVals (docRow ops cls cfg j d) c := by
  have h : ¬ Col.docNum = c := fun e => hc e.symm
  simp only [docRow, rowVals, List.cons_append, List.filter_cons, h, decide_false]
  rfl

theorem rowVals_eq_of_mem_nodup (row : List (Col × Val)) (c : Col) (v : Val) (hn : (row.map (·.1)).Nodup)
    (h : (c, v) ∈ row) : rowVals row c = [v] := by
  induction row with
  | nil => cases h
  | cons p r ih =>
    have hn' : p.1 ∉ r.map (·.1) ∧ (r.map (·.1)).Nodup := List.nodup_cons.mp (by simpa only [List.map_cons] using hn)
    rcases List.mem_cons.mp h with e | h'
    · subst e
      have : rowVals r c = [] := by
        have hl := rowVals_length r c
        have : (r.map (·.1)).count c = 0 := List.count_eq_zero.mpr hn'.1
        rw [this] at hl
        exact List.length_eq_zero_iff.mp hl
      simp [rowVals, List.filter_cons] at this ⊢
      exact this
    · have hne : ¬ p.1 = c := by
        intro e
        apply hn'.1
        rw [e]
        exact List.mem_map.mpr ⟨(c, v), h', rfl⟩
      simp only [rowVals, List.filter_cons, hne, decide_false] at ih ⊢
      exact ih hn'.2 h'

theorem mem_docRow_elem (ops : TextOps T W) (cls : WordClass W) (cfg : DocCfg) (i : Nat) (d : Doc T) (j : Nat)
    (hj : j < numElems) : (Col.elem j, Val.int ((d.elems.getD j none).getD 0)) ∈ docRow ops cls cfg i d := by
  simp only [docRow, List.mem_append, List.mem_map, List.mem_range]
  left; left; left; left; left; right
  exact ⟨j, hj, rfl⟩

theorem mem_docRow_num (ops : TextOps T W) (cls : WordClass W) (cfg : DocCfg) (i : Nat) (d : Doc T) :
    (Col.docNum, Val.int (i + 1)) ∈ docRow ops cls cfg i d := by
  simp [docRow]

theorem cfgOk_spec (cfg : DocCfg) (h : cfgOk cfg = true) :
    (rowKeysCfg cfg).Nodup ∧ (∀ c ∈ rowKeysCfg cfg, c ∈ tkeys (initDocStats cfg)) ∧
    (∀ c ∈ tkeys (initDocStats cfg), c ∈ rowKeysCfg cfg) ∧ 0 < cfg.initSize := by
  simp only [cfgOk, Bool.and_eq_true, List.all_eq_true, decide_eq_true_eq] at h
  exact ⟨h.1.1.2, h.1.2, h.2, h.1.1.1⟩

end docs

end Pagexml.C20
