/-
Purity of the read accessors in the store model: every accessor leaves all existing objects
as they are up to the `_area` cache (`Ext`), and its answer only depends on what `Ext` preserves.
-/
import PagexmlModel.Model.C04
import PagexmlModel.Lemmas.C02Basic

namespace Pagexml.C04
open Pagexml.C02

/-- `σ'` extends `σ`: every object of `σ` is still there and equal to what it was except for the
    cached area, and the cache is either what it was or was filled with the area of the (unchanged)
    coordinates; objects may have been added (the dummy parents `to_pagexml` creates) -/
structure Ext (σ σ' : Store) : Prop where
  size : σ.size ≤ σ'.size
  node : ∀ n nd, σ.get? n = some nd → ∃ nd', σ'.get? n = some nd' ∧ { nd' with area := nd.area } = nd ∧
    (nd'.area = nd.area ∨ (nd.area = none ∧ nd'.area = some nd.coords))

/-- equality up to the area cache gives equality of every other field -/
theorem fields_of_eq {a b : Node} {x : Option (Option Nat)} (e : { a with area := x } = b) :
    a.cls = b.cls ∧ a.text = b.text ∧ a.coords = b.coords ∧ a.allKids = b.allKids ∧ a.lines = b.lines ∧
    a.regions = b.regions ∧ a.tables = b.tables ∧ a.columns = b.columns ∧ a.extra = b.extra ∧ a.pages = b.pages ∧
    a.rows = b.rows ∧ a.cells = b.cells ∧ a.words = b.words := by
  subst e
  exact ⟨rfl, rfl, rfl, rfl, rfl, rfl, rfl, rfl, rfl, rfl, rfl, rfl, rfl⟩

theorem fields_of_eq2 {a b : Node} {x : Option (Option Nat)} (e : { a with area := x } = b) :
    a.parent = b.parent ∧ a.md = b.md ∧ a.type = b.type ∧ a.mainType = b.mainType ∧ a.id = b.id := by
  subst e
  exact ⟨rfl, rfl, rfl, rfl, rfl⟩

theorem Ext.rfl' (σ : Store) : Ext σ σ := ⟨Nat.le_refl _, fun _ nd h => ⟨nd, h, rfl, Or.inl rfl⟩⟩

theorem Ext.trans {σ₁ σ₂ σ₃ : Store} (h₁ : Ext σ₁ σ₂) (h₂ : Ext σ₂ σ₃) : Ext σ₁ σ₃ := by
  refine ⟨Nat.le_trans h₁.size h₂.size, fun n nd g => ?_⟩
  obtain ⟨nd₂, g₂, e₂, a₂⟩ := h₁.node n nd g
  obtain ⟨nd₃, g₃, e₃, a₃⟩ := h₂.node n nd₂ g₂
  refine ⟨nd₃, g₃, ?_, ?_⟩
  · rw [← e₂]
    rw [← e₃]
  · have hc : nd₂.coords = nd.coords := (fields_of_eq e₂).2.2.1
    rcases a₂ with a₂ | ⟨a₂, b₂⟩ <;> rcases a₃ with a₃ | ⟨a₃, b₃⟩
    · exact Or.inl (a₃.trans a₂)
    · exact Or.inr ⟨a₂ ▸ a₃, hc ▸ b₃⟩
    · exact Or.inr ⟨a₂, a₃.trans b₂⟩
    · rw [b₂] at a₃; cases a₃

/-- allocating a node and then touching only that node extends the store -/
theorem ext_alloc_upd (σ : Store) (nd : Node) (f : Node → Node) : Ext σ ((σ.alloc nd).upd σ.size f) := by
  refine ⟨by simp, fun n x g => ⟨x, ?_, rfl, Or.inl rfl⟩⟩
  have hlt := get?_lt g
  rw [get?_upd, if_neg (Nat.ne_of_lt hlt), get?_alloc, if_neg (Nat.ne_of_lt hlt)]
  exact g

theorem ext_mkLine_nil (σ : Store) (a : Args) : Ext σ (mkLine σ a []).1 := ext_alloc_upd σ _ _

theorem ext_mkRegion_nil (σ : Store) (a : Args) : Ext σ (mkRegion σ false a [] [] []).1 := ext_alloc_upd σ _ _

theorem ext_area (σ : Store) (n : Nat) (nd : Node) (g : σ.get? n = some nd) (ha : nd.area = none) :
    Ext σ (σ.upd n (fun x => { x with area := some x.coords })) := by
  refine ⟨by simp, fun m x gm => ?_⟩
  by_cases hm : m = n
  · subst hm
    rw [g] at gm
    cases gm
    exact ⟨{ nd with area := some nd.coords }, by simp [g], rfl, Or.inr ⟨ha, rfl⟩⟩
  · exact ⟨x, by simp [hm, gm], rfl, Or.inl rfl⟩

/-! ### answers only read what `Ext` preserves -/

/-- every listed id is an object (part of the C02 invariant `Shape`) -/
def Closed (σ : Store) : Prop := ∀ p pn c, σ.get? p = some pn → c ∈ pn.allKids → c < σ.size

theorem flatMap_congr' {α β} {f g : α → List β} {l : List α} (h : ∀ x ∈ l, f x = g x) : l.flatMap f = l.flatMap g := by
  induction l with
  | nil => rfl
  | cons a l ih =>
    simp only [List.flatMap_cons]
    rw [h a (by simp), ih (fun x hx => h x (by simp [hx]))]

theorem optMapM_congr {α β} {f g : α → Option β} {l : List α} (h : ∀ x ∈ l, f x = g x) : optMapM f l = optMapM g l := by
  induction l with
  | nil => rfl
  | cons a l ih =>
    simp only [optMapM]
    rw [h a (by simp), ih (fun x hx => h x (by simp [hx]))]

section
variable {σ σ' : Store} (hc : Closed σ) (he : Ext σ σ')
include hc he

omit hc in
theorem toLine_ext {n : Nat} (hn : n < σ.size) : toLine σ' n = toLine σ n := by
  obtain ⟨nd, g⟩ := get?_of_lt hn
  obtain ⟨nd', g', e, _⟩ := he.node n nd g
  simp only [toLine, g, g']
  obtain ⟨h1, h2, _, _, _, _, _, _, _, _, _, _, h3⟩ := fields_of_eq e
  rw [h1, h2, h3]

theorem toCell_ext {n : Nat} (hn : n < σ.size) : toCell σ' n = toCell σ n := by
  obtain ⟨nd, g⟩ := get?_of_lt hn
  obtain ⟨nd', g', e, _⟩ := he.node n nd g
  simp only [toCell, g, g']
  have h1 : nd'.cls = nd.cls := (fields_of_eq e).1
  have h2 : nd'.lines = nd.lines := (fields_of_eq e).2.2.2.2.1
  rw [h1, h2, optMapM_congr (fun x hx => toLine_ext he (hc n nd x g (by simp [Node.allKids, hx])))]

theorem toRow_ext {n : Nat} (hn : n < σ.size) : toRow σ' n = toRow σ n := by
  obtain ⟨nd, g⟩ := get?_of_lt hn
  obtain ⟨nd', g', e, _⟩ := he.node n nd g
  simp only [toRow, g, g']
  have h1 : nd'.cls = nd.cls := (fields_of_eq e).1
  have h2 : nd'.cells = nd.cells := (fields_of_eq e).2.2.2.2.2.2.2.2.2.2.2.1
  rw [h1, h2, optMapM_congr (fun x hx => toCell_ext hc he (hc n nd x g (by simp [Node.allKids, hx])))]

theorem toTable_ext {n : Nat} (hn : n < σ.size) : toTable σ' n = toTable σ n := by
  obtain ⟨nd, g⟩ := get?_of_lt hn
  obtain ⟨nd', g', e, _⟩ := he.node n nd g
  simp only [toTable, g, g']
  have h1 : nd'.cls = nd.cls := (fields_of_eq e).1
  have h2 : nd'.rows = nd.rows := (fields_of_eq e).2.2.2.2.2.2.2.2.2.2.1
  rw [h1, h2, optMapM_congr (fun x hx => toRow_ext hc he (hc n nd x g (by simp [Node.allKids, hx])))]

theorem toRegion_ext (ord : Nat → List Nat) : ∀ (f n : Nat), n < σ.size → toRegion ord σ' f n = toRegion ord σ f n := by
  intro f
  induction f with
  | zero => intro n _; rfl
  | succ f ih =>
    intro n hn
    obtain ⟨nd, g⟩ := get?_of_lt hn
    obtain ⟨nd', g', e, _⟩ := he.node n nd g
    simp only [toRegion, g, g']
    have h1 : nd'.cls = nd.cls := (fields_of_eq e).1
    have h2 : nd'.lines = nd.lines := (fields_of_eq e).2.2.2.2.1
    have h3 : nd'.regions = nd.regions := (fields_of_eq e).2.2.2.2.2.1
    have h4 : nd'.tables = nd.tables := (fields_of_eq e).2.2.2.2.2.2.1
    have h5 : nd'.columns = nd.columns := (fields_of_eq e).2.2.2.2.2.2.2.1
    have h6 : nd'.extra = nd.extra := (fields_of_eq e).2.2.2.2.2.2.2.2.1
    have h7 : nd'.pages = nd.pages := (fields_of_eq e).2.2.2.2.2.2.2.2.2.1
    have h8 : nd'.text = nd.text := (fields_of_eq e).2.1
    rw [h1, h2, h3, h4, h5, h6, h7, h8]
    rw [optMapM_congr (fun x hx => toLine_ext he (hc n nd x g (by simp [Node.allKids, hx]))),
      optMapM_congr (l := nd.regions) (fun x hx => ih x (hc n nd x g (by simp [Node.allKids, hx]))),
      optMapM_congr (fun x hx => toTable_ext hc he (hc n nd x g (by simp [Node.allKids, hx]))),
      optMapM_congr (l := nd.columns) (fun x hx => ih x (hc n nd x g (by simp [Node.allKids, hx]))),
      optMapM_congr (l := nd.extra) (fun x hx => ih x (hc n nd x g (by simp [Node.allKids, hx]))),
      optMapM_congr (l := nd.pages) (fun x hx => ih x (hc n nd x g (by simp [Node.allKids, hx])))]

theorem reach_ext : ∀ (f n : Nat), n < σ.size → reach σ' f n = reach σ f n := by
  intro f
  induction f with
  | zero => intro n _; rfl
  | succ f ih =>
    intro n hn
    obtain ⟨nd, g⟩ := get?_of_lt hn
    obtain ⟨nd', g', e, _⟩ := he.node n nd g
    simp only [reach, g, g']
    have h1 : nd'.allKids = nd.allKids := (fields_of_eq e).2.2.2.1
    rw [h1]
    congr 1
    exact flatMap_congr' (fun x hx => ih x (hc n nd x g hx))

theorem answerOn_ext (ord : Nat → List Nat) {n : Nat} (hn : n < σ.size) (f1 : Region → AOut) (f2 : Line → Option AOut)
    (f3 : Table → Option AOut) (f4 : Row → Option AOut) (f5 : Cell → Option AOut) (w : Option AOut) :
    answerOn ord σ' n f1 f2 f3 f4 f5 w = answerOn ord σ n f1 f2 f3 f4 f5 w := by
  obtain ⟨nd, g⟩ := get?_of_lt hn
  obtain ⟨nd', g', e, _⟩ := he.node n nd g
  have h1 : nd'.cls = nd.cls := (fields_of_eq e).1
  simp only [answerOn, g, g', h1, toLine_ext he hn, toTable_ext hc he hn, toRow_ext hc he hn, toCell_ext hc he hn,
    toRegion_ext hc he ord depthLimit n hn]

end

end Pagexml.C04
