/-
Lemmas about `remove_word_break_chars` and `remove_hyphen`.
-/
import PagexmlModel.Lemmas.Words
import PagexmlModel.Lemmas.C17Consts

namespace Pagexml.C17

/-- the end word without its (at most two) trailing break characters: one is removed when the
    last character is a break character, a second one when the character before it is one too -/
def stripEnd (B : BreakSet) (e : Str) : Str :=
  match e.reverse with
  | b :: a :: r => if B b then (if B a then r.reverse else (a :: r).reverse) else e
  | [b] => if B b then [] else e
  | [] => []

/-- the start word without its (at most one) leading break character -/
def stripStart (B : BreakSet) : Str → Str
  | [] => []
  | c :: r => if B c then r else c :: r

/-- the two words joined with the break characters at the junction removed -/
def joinReduced (B : BreakSet) (e s : Str) : Str := stripEnd B e ++ stripStart B s

theorem stripEnd_concat2 (B : BreakSet) (p : Str) (a b : Char) :
    stripEnd B (p ++ [a, b]) = if B b then (if B a then p else p ++ [a]) else p ++ [a, b] := by
  simp [stripEnd]

theorem stripEnd_single (B : BreakSet) (b : Char) : stripEnd B [b] = if B b then [] else [b] := by
  simp [stripEnd]

theorem stripEnd_spec (B : BreakSet) (e : Str) :
    ∃ t, e = stripEnd B e ++ t ∧ t.length ≤ 2 ∧ (∀ c ∈ t, B c = true) ∧
      (t = [] ↔ ∀ p a, e = p ++ [a] → B a = false) := by
  by_cases h2 : 2 ≤ e.length
  · obtain ⟨p, a, b, rfl⟩ := exists_concat2 h2
    rw [stripEnd_concat2]
    have hlast : ∀ q x, p ++ [a, b] = q ++ [x] → x = b := by
      intro q x h
      have : (p ++ [a]) ++ [b] = q ++ [x] := by simpa using h
      have := List.append_inj' this rfl
      simpa using this.2.symm
    by_cases hb : B b = true
    · by_cases ha : B a = true
      · refine ⟨[a, b], by simp [hb, ha], by simp, by simp [hb, ha], ?_⟩
        constructor
        · intro h; simp at h
        · intro h; have := h (p ++ [a]) b (by simp); rw [hb] at this; cases this
      · refine ⟨[b], by simp [hb, ha], by simp, by simp [hb], ?_⟩
        constructor
        · intro h; simp at h
        · intro h; have := h (p ++ [a]) b (by simp); rw [hb] at this; cases this
    · refine ⟨[], by simp [hb], by simp, by simp, ?_⟩
      constructor
      · intro _ q x h; rw [hlast q x h]; simpa using hb
      · intro _; rfl
  · cases e with
    | nil => exact ⟨[], by simp [stripEnd], by simp, by simp, by simp⟩
    | cons b r =>
      cases r with
      | cons c r => simp at h2
      | nil =>
        rw [stripEnd_single]
        by_cases hb : B b = true
        · refine ⟨[b], by simp [hb], by simp, by simp [hb], ?_⟩
          constructor
          · intro h; simp at h
          · intro h; have := h [] b rfl; rw [hb] at this; cases this
        · refine ⟨[], by simp [hb], by simp, by simp, ?_⟩
          constructor
          · intro _ q x h
            have : q = [] ∧ x = b := by
              cases q with
              | nil => simp at h; exact ⟨rfl, h.symm⟩
              | cons y q => simp at h
            rw [this.2]; simpa using hb
          · intro _; rfl

theorem stripStart_spec (B : BreakSet) (s : Str) :
    ∃ t, s = t ++ stripStart B s ∧ t.length ≤ 1 ∧ (∀ c ∈ t, B c = true) := by
  cases s with
  | nil => exact ⟨[], by simp [stripStart], by simp, by simp⟩
  | cons c r =>
    by_cases hc : B c = true
    · exact ⟨[c], by simp [stripStart, hc], by simp, by simp [hc]⟩
    · exact ⟨[], by simp [stripStart, hc], by simp, by simp⟩

/-- `remove_word_break_chars` on non-empty words: total, and equal to the junction join -/
theorem removeWordBreakChars_eq (B : BreakSet) (e s : Str) (he : e ≠ []) (hs : s ≠ []) :
    removeWordBreakChars B e s = .ok (joinReduced B e s) := by
  obtain ⟨c, r, rfl⟩ : ∃ c r, s = c :: r := by
    cases s with
    | nil => exact absurd rfl hs
    | cons c r => exact ⟨c, r, rfl⟩
  unfold removeWordBreakChars joinReduced
  by_cases h2 : 2 ≤ e.length
  · obtain ⟨p, a, b, rfl⟩ := exists_concat2 h2
    have hl : pyLast (p ++ [a, b]) = .ok b := by
      have := pyLast_concat (p ++ [a]) b
      simpa using this
    have hd1 : (p ++ [a, b]).dropLast = p ++ [a] := by
      have : p ++ [a, b] = (p ++ [a]) ++ [b] := by simp
      rw [this, List.dropLast_concat]
    have hd2 : (p ++ [a]).dropLast = p := List.dropLast_concat
    have hlen : (p ++ [a, b]).length ≥ 2 := h2
    rw [stripEnd_concat2]
    simp only [hl, pyLast2_concat2, hd1, hd2, hlen, pyHead_cons, stripStart, bind, Except.bind, pure, Except.pure,
      if_true]
    by_cases hb : B b = true <;> by_cases ha : B a = true <;> by_cases hc : B c = true <;>
      simp [hb, ha, hc]
  · obtain ⟨b, rfl⟩ : ∃ b, e = [b] := by
      cases e with
      | nil => exact absurd rfl he
      | cons b r =>
        cases r with
        | nil => exact ⟨b, rfl⟩
        | cons c r => simp at h2
    rw [stripEnd_single]
    by_cases hb : B b = true <;> by_cases hc : B c = true <;>
      simp [pyLast, pyHead, stripStart, hb, hc, bind, Except.bind, pure, Except.pure]

theorem removeHyphen_spec (w : Str) (hw : w ≠ []) :
    ∃ r t, removeHyphen w = .ok r ∧ w = r ++ t ∧ t.length ≤ 2 ∧ (∀ c ∈ t, hyphenSet c = true) := by
  by_cases h2 : 2 ≤ w.length
  · obtain ⟨p, a, b, rfl⟩ := exists_concat2 h2
    have hl : pyLast (p ++ [a, b]) = .ok b := by
      have := pyLast_concat (p ++ [a]) b
      simpa using this
    have hd1 : (p ++ [a, b]).dropLast = p ++ [a] := by
      have : p ++ [a, b] = (p ++ [a]) ++ [b] := by simp
      rw [this, List.dropLast_concat]
    have hd2 : (p ++ [a]).dropLast = p := List.dropLast_concat
    have hdrop : (p ++ [a, b]).drop ((p ++ [a, b]).length - 2) = [a, b] := by simp
    unfold removeHyphen
    simp only [hl, hd1, hd2, hdrop, bind, Except.bind, pure, Except.pure]
    by_cases hb : hyphenSet b = true
    · by_cases hab : ([a, b] == Generated.C17.doubleHyphen) = true
      · have hab' : [a, b] = Generated.C17.doubleHyphen := by simpa using hab
        refine ⟨p, [a, b], ?_, by simp, by simp, ?_⟩
        · simp [hb, hab]
        · intro c hc
          rw [hab'] at hc
          refine consts_double_hyphen_in_set (by rw [← hab']; rfl) ?_ c hc
          rw [← hab']
          simpa using hb
      · refine ⟨p ++ [a], [b], ?_, by simp, by simp, by simp [hb]⟩
        simp [hb, hab]
    · exact ⟨p ++ [a, b], [], by simp [hb], by simp, by simp, by simp⟩
  · obtain ⟨b, rfl⟩ : ∃ b, w = [b] := by
      cases w with
      | nil => exact absurd rfl hw
      | cons b r =>
        cases r with
        | nil => exact ⟨b, rfl⟩
        | cons c r => simp at h2
    unfold removeHyphen
    by_cases hb : hyphenSet b = true
    · exact ⟨[], [b], by simp [pyLast, hb, bind, Except.bind, pure, Except.pure], by simp, by simp, by simp [hb]⟩
    · exact ⟨[b], [], by simp [pyLast, hb, bind, Except.bind, pure, Except.pure], by simp, by simp, by simp⟩

end Pagexml.C17
