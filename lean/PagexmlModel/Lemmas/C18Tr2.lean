/-
C18 helper lemmas, part 8: handle_extra_lines and split_lines_on_column_gaps commute with a
translation of all lines.
-/
import PagexmlModel.Lemmas.C18Tr

namespace Pagexml.C18

variable (dx dy : Int)

theorem pickBest_tr (lb : Box) (cols : List Col) (i : Nat) (best : Option (Nat × Int)) (bo : Int) :
    pickBest (lb.tr dx dy) (trC dx dy cols) i best bo = pickBest lb cols i best bo := by
  simp only [trC]
  induction cols generalizing i best bo with
  | nil => rfl
  | cons c cs ih =>
    simp only [List.map_cons, pickBest, Col.tr, hOverlap_tr, width_tr, ih]

theorem placeLine_tr (g : RegInfo) (l : Line) (cols : List Col) :
    placeLine (g.tr dx dy) (l.tr dx dy) (trC dx dy cols) =
      (placeLine g l cols).map (Option.map (trC dx dy)) := by
  unfold placeLine
  have hb : (l.tr dx dy).box = l.box.tr dx dy := rfl
  rw [hb, pickBest_tr]
  cases pickBest l.box cols 0 none 0 with
  | none => rfl
  | some iw =>
    obtain ⟨i, w⟩ := iw
    simp only [trC, List.getElem?_map]
    cases hc : cols[i]? with
    | none => rfl
    | some c =>
      simp only [Option.map_some]
      have hcb : (c.tr dx dy).box = c.box.tr dx dy := rfl
      rw [hcb, isHOverlapping_tr]
      split
      · have hl : (c.tr dx dy).lines ++ [l.tr dx dy] = trL dx dy (c.lines ++ [l]) := by
          simp [Col.tr, trL]
        rw [hl, hullBox_tr]
        cases hullBox (c.lines ++ [l]) with
        | error e => rfl
        | ok b =>
          obtain ⟨gi, gp⟩ := g
          cases gp with
          | none =>
            simp [Except.map, bind, Except.bind, pure, Except.pure, RegInfo.tr, Col.tr, trL, List.map_set]
          | some p =>
            simp [Except.map, bind, Except.bind, pure, Except.pure, RegInfo.tr, Col.tr, trL, List.map_set, PyId.tr]
      · rfl

theorem placeAll_tr (g : RegInfo) (extra : List Line) (cols : List Col) (nc : List Line) :
    placeAll (g.tr dx dy) (trL dx dy extra) (trC dx dy cols) (trL dx dy nc) =
      (placeAll g extra cols nc).map (fun r => (trC dx dy r.1, trL dx dy r.2)) := by
  induction extra generalizing cols nc with
  | nil => rfl
  | cons l ls ih =>
    simp only [trL, List.map_cons, placeAll]
    have := placeLine_tr dx dy g l cols
    simp only [trC] at this
    rw [this]
    cases placeLine g l cols with
    | error e => rfl
    | ok r =>
      cases r with
      | some c1 => exact ih c1 nc
      | none =>
        have := ih cols (nc ++ [l])
        simp only [trL, trC, List.map_append, List.map_cons, List.map_nil] at this
        exact this

theorem reId_tr (g : RegInfo) (cs : List Col) : reId (g.tr dx dy) (trC dx dy cs) = trC dx dy (reId g cs) := by
  obtain ⟨gi, gp⟩ := g
  cases gp with
  | none => rfl
  | some p => simp [reId, RegInfo.tr, trC, Col.tr, PyId.tr, List.map_map, Function.comp_def]

theorem extraReg_tr (g : RegInfo) (eb : Box) :
    extraReg (g.tr dx dy) (eb.tr dx dy) = (extraReg g eb).tr dx dy := by
  unfold extraReg
  rw [base_tr, parentHasId_tr]
  cases g.parentHasId <;> rfl

theorem handleExtra_tr {r r' : RegInfo → List Line → Res (List Col)}
    (hrec : ∀ g ls, r' (g.tr dx dy) (trL dx dy ls) = (r g ls).map (trC dx dy))
    (g : RegInfo) (cols : List Col) (extra : List Line) (mcw : Int) :
    handleExtra r' (g.tr dx dy) (trC dx dy cols) (trL dx dy extra) mcw =
      (handleExtra r g cols extra mcw).map (trC dx dy) := by
  rw [handleExtra_eq, handleExtra_eq]
  have hpa := placeAll_tr dx dy g extra cols []
  simp only [trL, List.map_nil] at hpa
  simp only [trL]
  rw [hpa]
  cases placeAll g extra cols [] with
  | error e => rfl
  | ok res =>
    obtain ⟨cols1, nc⟩ := res
    simp only [Except.map]
    have hemp : (List.map (Line.tr dx dy) nc).isEmpty = nc.isEmpty := by cases nc <;> rfl
    rw [hemp]
    split
    · rfl
    · have hh := hullBox_tr dx dy nc
      simp only [trL] at hh
      rw [hh]
      cases hullBox nc with
      | error e => rfl
      | ok eb =>
        simp only [Except.map, extraReg_tr]
        have hr := hrec (extraReg g eb) nc
        simp only [trL] at hr
        by_cases hm : mcw > recGuard
        · simp only [if_pos hm, hr]
          cases r (extraReg g eb) nc with
          | error e => rfl
          | ok ecs =>
            simp only [Except.map]
            rw [reId_tr]
            simp [trC]
        · simp only [if_neg hm]
          have : reId (g.tr dx dy) [⟨List.map (Line.tr dx dy) nc, eb.tr dx dy,
                .derived ((extraReg g eb).tr dx dy).id "column" (eb.tr dx dy)⟩] =
              List.map (Col.tr dx dy) (reId g [⟨nc, eb, .derived (extraReg g eb).id "column" eb⟩]) :=
            reId_tr dx dy g [⟨nc, eb, .derived (extraReg g eb).id "column" eb⟩]
          simp only [this, trC, List.map_append]

theorem split_tr (fuel : Nat) (thr mcw : Int) (g : RegInfo) (ls : List Line) :
    split fuel thr mcw (g.tr dx dy) (trL dx dy ls) = (split fuel thr mcw g ls).map (trC dx dy) := by
  induction fuel generalizing mcw g ls with
  | zero => rfl
  | succ n ih =>
    rw [split_succ, split_succ, columnRanges_tr, colLines_tr, extraLines_tr, makeRangeCols_tr]
    cases makeRangeCols g (colLines ls (columnRanges thr mcw ls)) with
    | error e => rfl
    | ok cols0 =>
      simp only [Except.map, bind, Except.bind]
      rw [mergeOverlapping_tr]
      cases mergeOverlapping cols0 with
      | error e => rfl
      | ok cols1 =>
        simp only [Except.map]
        exact handleExtra_tr dx dy (fun g' ls' => ih 0 g' ls') g cols1 _ mcw

end Pagexml.C18
