/-
C02: on a store reached by a disciplined history no operation that meets the precondition runs
out of fuel (or fails in any other way): `set_scan_id` and `set_parentage` are given fuel
`size + 1`, and no chain of child links is longer than `size`.
-/
import PagexmlModel.Lemmas.C02Acyclic

set_option linter.unusedSimpArgs false
set_option linter.unusedVariables false

namespace Pagexml.C02

@[simp] theorem size_setAsParent (σ : Store) (p : Nat) (cs : List Nat) : (setAsParent σ p cs).size = σ.size :=
  (kidsEq_setAsParent σ p cs).1

@[simp] theorem size_setParent1 (σ : Store) (c p : Nat) : (setParent1 σ c p).size = σ.size :=
  (kidsEq_setParent1 σ c p).1

theorem size_scanPre (σ : Store) (a : Args) (ls rs ts cols pages : List Nat) :
    (scanPre σ a ls rs ts cols pages).size = σ.size + 1 := by
  simp [scanPre, regionInit]

theorem setScanId_total {τ : Store} (hcl : Closed τ) (hac : Acyclic τ) {n : Nat} (hn : n < τ.size) (v : MVal) :
    ∃ τ', setScanId (τ.size + 1) τ n v = .ok τ' :=
  setScanId_ok _ τ n v ((height_of_acyclic hcl hac n hn).mono _ (by omega))

theorem finishAdd_total {τ : Store} (hcl : Closed τ) (hac : Acyclic τ) {p c : Nat} (hp : p < τ.size) (hc : c < τ.size)
    (d : Node → List Nat) : ∃ r, finishAdd τ p c d = .ok r := by
  obtain ⟨pn, gp⟩ := get?_of_lt hp
  have h1 : ∃ τ₂, propagateScanId τ p c = .ok τ₂ := by
    unfold propagateScanId
    rw [gp]
    simp only
    cases mget pn.md "scan_id" with
    | none => exact ⟨τ, rfl⟩
    | some v => exact setScanId_total hcl hac hc v
  obtain ⟨τ₂, h2⟩ := h1
  have hs : τ₂.size = τ.size := (kidsEq_propagateScanId h2).1
  obtain ⟨pn₂, gp₂⟩ := get?_of_lt (σ := τ₂) (n := p) (by omega)
  unfold finishAdd
  rw [h2]
  simp only [bind, Except.bind, gp₂, pure, Except.pure]
  exact ⟨_, rfl⟩

/-- **fuel suffices**: an operation that meets the precondition, applied to a store satisfying
    the invariants, never answers `.error` -/
theorem step_total {σ : Store} {op : Op} (hinv : Inv σ) (hac : Acyclic σ) (hpre : Pre σ op = true) :
    ∃ r, step σ op = .ok r := by
  have hcl := hinv.shape.closed'
  have hno := step_no_back hinv hac hpre
  have htl := targets_lt hpre
  have hrefs : op.refs.all σ.has = true := by
    unfold Pre at hpre; rw [Bool.and_eq_true] at hpre; exact hpre.1
  have hr : ∀ x ∈ op.refs, x < σ.size := fun x hx => has_iff.mp (List.all_eq_true.mp hrefs x hx)
  unfold step
  rw [hrefs]
  simp only [Bool.not_true, Bool.false_eq_true, if_false]
  cases op with
  | mkWord a => exact ⟨_, rfl⟩
  | mkLine a ws => exact ⟨_, rfl⟩
  | mkRegion col a ls rs ts => exact ⟨_, rfl⟩
  | mkPage a ls rs ts cols ex => exact ⟨_, rfl⟩
  | mkCell a ls => exact ⟨_, rfl⟩
  | mkRow a cs => exact ⟨_, rfl⟩
  | mkTable a rs => exact ⟨_, rfl⟩
  | setParent c p => exact ⟨_, rfl⟩
  | setAsParent p cs => exact ⟨_, rfl⟩
  | attachLines p cs => exact ⟨_, rfl⟩
  | attachRegions p cs => exact ⟨_, rfl⟩
  | attachRows p cs => exact ⟨_, rfl⟩
  | addType n ts => exact ⟨_, rfl⟩
  | removeType n ts => exact ⟨_, rfl⟩
  | setFilename n v => exact ⟨_, rfl⟩
  | hasType n t =>
    obtain ⟨nd, g⟩ := get?_of_lt (hr n (by simp [Op.refs]))
    simp only [g]; exact ⟨_, rfl⟩
  | types n =>
    obtain ⟨nd, g⟩ := get?_of_lt (hr n (by simp [Op.refs]))
    simp only [g]; exact ⟨_, rfl⟩
  | mkScan a ls rs ts cols pages =>
    simp only
    rw [mkScan_eq]
    have A := adds_scanPre σ a ls rs ts cols pages
    have hac' := acyclic_adds A hno hac
    have hcl' := closed_adds A hcl htl
    obtain ⟨τ', h⟩ := setScanId_total hcl' hac' (n := σ.size) (by rw [size_scanPre]; omega) a.id
    rw [h]; exact ⟨_, rfl⟩
  | setParentage p =>
    simp only
    obtain ⟨σ', h⟩ := setParentage_ok (σ.size + 1) σ p hinv
      ((height_of_acyclic hcl hac p (hr p (by simp [Op.refs]))).mono _ (by omega))
    rw [h]; exact ⟨_, rfl⟩
  | addChild p c asExtra =>
    have hp := hr p (by simp [Op.refs])
    have hc := hr c (by simp [Op.refs])
    obtain ⟨pn, gp⟩ := get?_of_lt hp
    obtain ⟨cn, gc⟩ := get?_of_lt hc
    simp only [clsOf, gp, gc, Option.map_some]
    have grown : ∀ τ, Adds σ τ p [c] → Closed τ ∧ Acyclic τ ∧ p < τ.size ∧ c < τ.size := fun τ A =>
      ⟨closed_adds A hcl htl, acyclic_adds A hno hac, Nat.lt_of_lt_of_le hp A.size_le, Nat.lt_of_lt_of_le hc A.size_le⟩
    cases hcl' : pn.cls <;> simp only []
    case region =>
      rw [addChildRegion_eq]
      split
      · obtain ⟨h1, h2, h3, h4⟩ := grown _ (adds_regionGrown σ p c cn.cls)
        exact finishAdd_total h1 h2 h3 h4 _
      · exact ⟨_, rfl⟩
    case column =>
      rw [addChildRegion_eq]
      split
      · obtain ⟨h1, h2, h3, h4⟩ := grown _ (adds_regionGrown σ p c cn.cls)
        exact finishAdd_total h1 h2 h3 h4 _
      · exact ⟨_, rfl⟩
    case page =>
      rw [addChildPage_eq]
      split
      · obtain ⟨h1, h2, h3, h4⟩ := grown _ (adds_pageGrown σ p c cn.cls asExtra)
        exact finishAdd_total h1 h2 h3 h4 _
      · exact ⟨_, rfl⟩
    case scan =>
      rw [addChildScan_eq]
      obtain ⟨h1, h2, h3, h4⟩ := grown _ (adds_scanGrown σ p c cn.cls)
      obtain ⟨pn', gp'⟩ := get?_of_lt h3
      simp only [gp']
      obtain ⟨τ', h⟩ := setScanId_total h1 h2 h4 pn'.id
      rw [h]; exact ⟨_, rfl⟩
    all_goals exact ⟨_, rfl⟩

end Pagexml.C02
