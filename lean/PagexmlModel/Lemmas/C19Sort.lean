/-
C19: the stable insertion sort is a permutation; the above/below split consumes every
coordinate point once; width ranges.
-/
import PagexmlModel.Lemmas.C19Dist

namespace Pagexml.C19
open Pagexml.C03 (Pt)

theorem insertBy_perm {α : Type} (le : α → α → Bool) (a : α) (l : List α) :
    (insertBy le a l).Perm (a :: l) := by
  induction l with
  | nil => exact List.Perm.refl _
  | cons b r ih =>
    simp only [insertBy]
    split
    · exact List.Perm.refl _
    · exact (List.Perm.cons b ih).trans (List.Perm.swap a b r)

theorem isort_perm {α : Type} (le : α → α → Bool) (l : List α) : (isort le l).Perm l := by
  induction l with
  | nil => exact List.Perm.refl _
  | cons a r ih =>
    simp only [isort, List.foldr_cons] at ih ⊢
    exact (insertBy_perm le a _).trans (List.Perm.cons a ih)

theorem isort_replicate {α : Type} (le : α → α → Bool) (n : Nat) (c : α) :
    isort le (List.replicate n c) = List.replicate n c :=
  List.perm_replicate.mp (isort_perm le _)

theorem isort_length {α : Type} (le : α → α → Bool) (l : List α) : (isort le l).length = l.length :=
  (isort_perm le l).length_eq

/-! ### above / below -/

theorem takeFor_count (curr : Pt) (next : Option Pt) (cs : List Pt) (p : Pt) :
    (takeFor curr next cs).1.count p + (takeFor curr next cs).2.1.count p + (takeFor curr next cs).2.2.count p
      = cs.count p := by
  induction cs with
  | nil => simp [takeFor]
  | cons c r ih =>
    simp only [takeFor]
    by_cases hcl : closerToNext curr next c = true
    · simp [hcl]
    · simp only [hcl, Bool.false_eq_true, ↓reduceIte]
      by_cases hy : c.2 < curr.2
      · simp only [hy, ↓reduceIte, List.count_cons]; omega
      · simp only [hy, ↓reduceIte, List.count_cons]; omega

theorem takeFor_none_rest (curr : Pt) (cs : List Pt) : (takeFor curr none cs).2.2 = [] := by
  induction cs with
  | nil => simp [takeFor]
  | cons c r ih =>
    simp only [takeFor, closerToNext, Bool.false_eq_true, ↓reduceIte]
    split <;> exact ih

/-- with at least one interpolated baseline point every coordinate point is classified once -/
theorem goAB_count {bs : List Pt} (hne : bs ≠ []) (cs : List Pt) (p : Pt) :
    (goAB bs cs).1.count p + (goAB bs cs).2.count p = cs.count p := by
  induction bs generalizing cs with
  | nil => exact absurd rfl hne
  | cons b r ih =>
    simp only [goAB]
    split
    · rename_i hem
      rw [List.isEmpty_iff] at hem; subst hem; simp
    · have ht := takeFor_count b r.head? cs p
      cases r with
      | nil =>
        have := takeFor_none_rest b cs
        simp only [List.head?_nil] at ht ⊢
        rw [this] at ht
        simp only [goAB, List.append_nil]
        simpa using ht
      | cons b' r' =>
        have := ih (by simp) (takeFor b (b' :: r').head? cs).2.2
        simp only [List.count_append]
        omega

theorem goAB_perm {bs : List Pt} (hne : bs ≠ []) (cs : List Pt) :
    ((goAB bs cs).1 ++ (goAB bs cs).2).Perm cs := by
  apply List.perm_iff_count.mpr
  intro p
  rw [List.count_append]
  exact goAB_count hne cs p

/-! ### width ranges -/

/-- does the range contain the width? `"lo-hi"` is `lo ≤ w < hi`, `"lo-"` is `lo ≤ w` -/
def WRange.contains (r : WRange) (w : Int) : Prop :=
  r.1 ≤ w ∧ match r.2 with | some hi => w < hi | none => True

theorem catFrom_mem (prev w : Int) (bps : List Int) : catFrom prev w bps ∈ rangesFrom prev bps := by
  induction bps generalizing prev with
  | nil => simp [catFrom, rangesFrom]
  | cons b r ih =>
    simp only [catFrom, rangesFrom]
    split
    · exact List.mem_cons_self
    · exact List.mem_cons_of_mem _ (ih b)

theorem rangesFrom_lo_ge {prev : Int} {bps : List Int} (hs : (prev :: bps).Pairwise (· < ·))
    {r : WRange} (h : r ∈ rangesFrom prev bps) : prev ≤ r.1 := by
  induction bps generalizing prev with
  | nil => simp [rangesFrom] at h; subst h; exact Int.le_refl _
  | cons b t ih =>
    simp only [rangesFrom, List.mem_cons] at h
    rcases h with h | h
    · subst h; exact Int.le_refl _
    · have hs' : (b :: t).Pairwise (· < ·) := (List.pairwise_cons.mp hs).2
      have := ih hs' h
      have : prev < b := (List.pairwise_cons.mp hs).1 b List.mem_cons_self
      omega

theorem catFrom_contains {prev w : Int} {bps : List Int} (hp : prev ≤ w) :
    (catFrom prev w bps).contains w := by
  induction bps generalizing prev with
  | nil => simp [catFrom, WRange.contains, hp]
  | cons b t ih =>
    simp only [catFrom]
    split
    · rename_i hb; simp only [WRange.contains]; exact ⟨hp, by omega⟩
    · exact ih (by omega)

theorem catFrom_unique {prev w : Int} {bps : List Int} (hs : bps.Pairwise (· < ·))
    {r : WRange} (hr : r ∈ rangesFrom prev bps) (hc : r.contains w) : r = catFrom prev w bps := by
  induction bps generalizing prev with
  | nil => simp [rangesFrom] at hr; simp [catFrom, hr]
  | cons b t ih =>
    simp only [rangesFrom, List.mem_cons] at hr
    simp only [catFrom]
    split
    · rename_i hb
      rcases hr with hr | hr
      · exact hr
      · have := rangesFrom_lo_ge hs hr
        have := hc.1
        omega
    · rename_i hb
      rcases hr with hr | hr
      · subst hr
        have := hc.2
        simp only at this
        omega
      · exact ih (List.pairwise_cons.mp hs).2 hr

/-! ### counting categories -/

theorem dedup_mem {α : Type} [DecidableEq α] (l : List α) (x : α) : x ∈ dedup l ↔ x ∈ l := by
  induction l with
  | nil => simp [dedup]
  | cons a r ih =>
    simp only [dedup, List.mem_cons, List.mem_filter, ih, decide_eq_true_eq]
    by_cases h : x = a
    · simp [h]
    · simp [h]

theorem dedup_nodup {α : Type} [DecidableEq α] (l : List α) : (dedup l).Nodup := by
  induction l with
  | nil => simp [dedup]
  | cons a r ih =>
    simp only [dedup, List.nodup_cons]
    refine ⟨?_, List.Pairwise.filter _ ih⟩
    simp [List.mem_filter]

theorem sum_map_add {α : Type} (D : List α) (f g : α → Nat) :
    (D.map (fun r => f r + g r)).sum = (D.map f).sum + (D.map g).sum := by
  induction D with
  | nil => rfl
  | cons a r ih => simp only [List.map_cons, List.sum_cons, ih]; omega

theorem sum_zero {α : Type} (D : List α) : (D.map (fun _ => (0 : Nat))).sum = 0 := by
  induction D with
  | nil => rfl
  | cons _ _ ih => simpa using ih

theorem sum_indicator {α : Type} [BEq α] [LawfulBEq α] {D : List α} (hn : D.Nodup) {a : α} (ha : a ∈ D) :
    (D.map (fun r => if a == r then 1 else 0)).sum = 1 := by
  induction D with
  | nil => cases ha
  | cons d r ih =>
    simp only [List.nodup_cons] at hn
    simp only [List.map_cons, List.sum_cons]
    by_cases h : a = d
    · subst h
      have hz : ∀ x ∈ r, (if a == x then 1 else 0) = (0 : Nat) := by
        intro x hx
        have : a ≠ x := fun e => hn.1 (e ▸ hx)
        simp [this]
      rw [List.map_congr_left hz, sum_zero]
      simp
    · have ha' : a ∈ r := by
        rcases List.mem_cons.mp ha with e | e
        · exact absurd e h
        · exact e
      simp [h, ih hn.2 ha']

/-- counting the elements of `l` per key over a duplicate-free key list that covers `l` -/
theorem sum_counts {α : Type} [BEq α] [LawfulBEq α] {D : List α} (hn : D.Nodup) (l : List α)
    (hc : ∀ a ∈ l, a ∈ D) : (D.map (fun r => l.count r)).sum = l.length := by
  induction l with
  | nil => simp only [List.count_nil, List.length_nil]; exact sum_zero D
  | cons a t ih =>
    have e : (fun r => (a :: t).count r) = (fun r => t.count r + (if a == r then 1 else 0)) := by
      funext r
      rw [List.count_cons]
    rw [e, sum_map_add, ih (fun x hx => hc x (List.mem_cons_of_mem _ hx)),
      sum_indicator hn (hc a List.mem_cons_self)]
    simp

end Pagexml.C19
