/-
The grammar of the C11 statement as data (definitions only, no theorems):
tags `name {key:value; ...}` together with every whitespace placement the statement allows.
-/
import PagexmlModel.Model.C11
import PagexmlModel.Model.C11Grammar
import PagexmlModel.Lemmas.C11Strip

namespace Pagexml.C11
open Pagexml.C03 (splitOn intercalate)

/-- what the theorems need to know about the character classes.  All hold for CPython's `\w` and
    `str.isspace`; the harness re-checks them against the running interpreter on every run. -/
structure Lawful (cc : CharClass) : Prop where
  space_not_word : cc.isWord ' ' = false
  rbrace_not_word : cc.isWord '}' = false
  lbrace_not_word : cc.isWord '{' = false
  space_is_space : cc.isSpace ' ' = true
  colon_not_space : cc.isSpace ':' = false
  semi_not_space : cc.isSpace ';' = false
  rbrace_not_space : cc.isSpace '}' = false
  lbrace_not_space : cc.isSpace '{' = false
  minus_not_space : cc.isSpace '-' = false
  digit_not_space : ∀ c, isAsciiDigit c = true → cc.isSpace c = false

def AllWord (cc : CharClass) (s : List Char) : Prop := ∀ c ∈ s, cc.isWord c = true
def NoWord (cc : CharClass) (s : List Char) : Prop := ∀ c ∈ s, cc.isWord c = false

/-- free of the characters that end a value, a pair or the tag (statement: "values free of
    semicolons, colons and braces"; the newline is excluded by the reading of DESIGN §9; the
    opening brace only matters for the dedicated fields: hypothesis `hbr` of
    `C11_dedicated_fields_partial`) -/
def Clean (s : List Char) : Prop := ∀ c ∈ s, c ≠ ';' ∧ c ≠ ':' ∧ c ≠ '}' ∧ c ≠ '\n'

/-- whitespace that may be placed inside the braces: any `isspace()` characters but the newline -/
def Blank (cc : CharClass) (w : List Char) : Prop := ∀ c ∈ w, cc.isSpace c = true ∧ c ≠ '\n'

/-- the value a key/value pair must be parsed to: `int` for the integer-typed keys -/
def typedVal (k v : List Char) : Val :=
  if k ∈ Gen.intKeys then
    match pyInt? v with
    | some i => .int i
    | none => .str v
  else .str v

structure LAttr.OK (cc : CharClass) (a : LAttr) : Prop where
  pre : Blank cc a.pre
  postKey : Blank cc a.postKey
  preVal : Blank cc a.preVal
  postVal : Blank cc a.postVal
  key_clean : Clean a.key
  key_edges : NoEdgeSpace cc a.key
  value_clean : Clean a.value
  value_edges : NoEdgeSpace cc a.value
  typed : a.key ∈ Gen.intKeys → ∃ i, pyInt? a.value = some i

structure LTag.OK (cc : CharClass) (t : LTag) : Prop where
  sep : NoWord cc t.sep
  name_ne : t.name ≠ []
  name_word : AllWord cc t.name
  attrs : ∀ a ∈ t.attrs, a.OK cc
  close : Blank cc t.close

/-- the dict Python builds from the pairs, in order (a repeated key keeps its first position
    and its last value) -/
def dictOfAttrs (as : List LAttr) (d : Dict) : Dict :=
  as.foldl (fun d a => dictSet d a.key (typedVal a.key a.value)) d

def entryOf (t : LTag) : Entry := mkEntry t.name (dictOfAttrs t.attrs [])

/-! ### the statement's own vocabulary: tags, and layouts chosen independently of them -/

/-- a tag of the statement: a name and its `key:value` pairs, as written -/
structure Tag where
  name : List Char
  attrs : List (List Char × List Char)

/-- the whitespace around one pair: `pre key postKey : preVal value postVal` -/
structure AttrLay where
  pre : List Char
  postKey : List Char
  preVal : List Char
  postVal : List Char

/-- the layout of one tag; `attr j` is used for the j-th pair.  Without a trailing semicolon the
    whitespace before the closing brace is the `postVal` of the last pair. -/
structure TagLay where
  sep : List Char
  attr : Nat → AttrLay
  trailing : Bool
  close : List Char

/-- a layout for a whole string: `tag i` is used for the i-th tag, `tail` follows the last one -/
structure Layout where
  tag : Nat → TagLay
  tail : List Char

def layAttrs : List (List Char × List Char) → (Nat → AttrLay) → Nat → List LAttr
  | [], _, _ => []
  | kv :: kvs, l, j =>
    { pre := (l j).pre, key := kv.1, postKey := (l j).postKey, preVal := (l j).preVal, value := kv.2,
      postVal := (l j).postVal } :: layAttrs kvs l (j + 1)

def layTag (t : Tag) (l : TagLay) : LTag :=
  { sep := l.sep, name := t.name, attrs := layAttrs t.attrs l.attr 0, trailing := l.trailing, close := l.close }

def layTags : List Tag → (Nat → TagLay) → Nat → List LTag
  | [], _, _ => []
  | t :: ts, l, i => layTag t (l i) :: layTags ts l (i + 1)

/-- **the custom attribute string** of `tags` written with layout `lay` -/
def renderCustom (tags : List Tag) (lay : Layout) : List Char := renderLaid (layTags tags lay.tag 0) lay.tail

/-- the entry the statement demands for a tag: its name and every pair, integers typed -/
def toEntry (t : Tag) : Entry :=
  { name := t.name, attrs := t.attrs.map (fun kv => (kv.1, typedVal kv.1 kv.2)) }

/-- side conditions of the statement on a tag (names are word characters; keys and values are
    free of the reserved characters and carry no whitespace at their ends; integer-typed keys
    have integer values; keys are distinct and none is the reserved `tag_name`, DESIGN §9) -/
structure Tag.WF (cc : CharClass) (t : Tag) : Prop where
  name_ne : t.name ≠ []
  name_word : AllWord cc t.name
  key_clean : ∀ kv ∈ t.attrs, Clean kv.1
  key_edges : ∀ kv ∈ t.attrs, NoEdgeSpace cc kv.1
  value_clean : ∀ kv ∈ t.attrs, Clean kv.2
  value_edges : ∀ kv ∈ t.attrs, NoEdgeSpace cc kv.2
  typed : ∀ kv ∈ t.attrs, kv.1 ∈ Gen.intKeys → ∃ i, pyInt? kv.2 = some i
  keys_distinct : (t.attrs.map Prod.fst).Nodup
  no_tag_name : tagNameKey ∉ t.attrs.map Prod.fst

structure AttrLay.OK (cc : CharClass) (l : AttrLay) : Prop where
  pre : Blank cc l.pre
  postKey : Blank cc l.postKey
  preVal : Blank cc l.preVal
  postVal : Blank cc l.postVal

structure TagLay.OK (cc : CharClass) (l : TagLay) : Prop where
  sep : NoWord cc l.sep
  attr : ∀ j, (l.attr j).OK cc
  close : Blank cc l.close

structure Layout.OK (cc : CharClass) (lay : Layout) : Prop where
  tag : ∀ i, (lay.tag i).OK cc
  tail : NoWord cc lay.tail

end Pagexml.C11
