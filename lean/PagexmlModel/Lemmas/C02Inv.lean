/-
Invariants of the store model (DESIGN §7 C02) and their preservation by the primitive
store transformations out of which every operation is composed.
-/
import PagexmlModel.Lemmas.C02Basic

namespace Pagexml.C02

/-! ### the invariants -/

/-- `c` refers to `p` as its parent and its metadata records `p`'s id and type -/
def LinkedAt (σ : Store) (p c : Nat) : Prop :=
  ∃ pn cn, σ.get? p = some pn ∧ σ.get? c = some cn ∧ cn.parent = some p ∧
    mget cn.md "parent_id" = some pn.id ∧ mget cn.md "parent_type" = some (.str pn.mainType) ∧
    mget cn.md (pn.mainType ++ "_id") = some pn.id

/-- every listed text-hierarchy child satisfying `ok` is linked to its container -/
def LinkedOn (σ : Store) (ok : Nat → Prop) : Prop :=
  ∀ p pn c, σ.get? p = some pn → c ∈ pn.kids → ok c → LinkedAt σ p c

def Linked (σ : Store) : Prop := LinkedOn σ (fun _ => True)

/-- the structure is a forest: one container per element, scans only at the top, no dangling ids -/
structure Shape (σ : Store) : Prop where
  uniq : ∀ p q pn qn c, σ.get? p = some pn → σ.get? q = some qn → c ∈ pn.allKids → c ∈ qn.allKids → p = q
  scanTop : ∀ p pn c cn, σ.get? p = some pn → c ∈ pn.allKids → σ.get? c = some cn → cn.cls ≠ .scan
  closed : ∀ p pn c, σ.get? p = some pn → c ∈ pn.allKids → c < σ.size

/-- main type of the class, duplicate-free tag list, main type and generic tags present -/
def TypedNode (nd : Node) : Prop :=
  nd.mainType = nd.cls.mainType ∧ nd.type.toList.Nodup ∧ ∀ t ∈ nd.cls.tags, t ∈ nd.type.toList

def Typed (σ : Store) : Prop := ∀ n nd, σ.get? n = some nd → TypedNode nd

/-- `m` is `r` or sits below `r` (through any child list, tables included) -/
inductive Below (σ : Store) : Nat → Nat → Prop
  | refl (n : Nat) : Below σ n n
  | step {m k r : Nat} {kn : Node} : Below σ k r → σ.get? k = some kn → m ∈ kn.allKids → Below σ m r

/-- below a scan (other than those in `X`) every element records the scan's id -/
def ScanTaggedEx (σ : Store) (X : Nat → Prop) : Prop :=
  ∀ s sn n nn, ¬ X s → σ.get? s = some sn → sn.cls = .scan → Below σ n s → σ.get? n = some nn →
    mget nn.md "scan_id" = some sn.id

def ScanTagged (σ : Store) : Prop := ScanTaggedEx σ (fun _ => False)

/-! ### kids and allKids -/

theorem mem_allKids_of_mem_kids {nd : Node} {c : Nat} (h : c ∈ nd.kids) : c ∈ nd.allKids := by
  unfold Node.kids at h
  unfold Node.allKids
  cases hc : nd.cls <;> simp only [hc, List.not_mem_nil] at h <;>
    (simp only [List.mem_append] at h ⊢; rcases h with ((((h | h) | h) | h) | h) | h <;> simp [h])

theorem kids_nil_of_not_truthy {nd : Node} (h : nd.truthy = false) : nd.kids = [] := by
  unfold Node.truthy at h
  unfold Node.kids
  cases hc : nd.cls <;> simp [hc] at h ⊢

/-! ### stores with the same shape -/

/-- same size; every node keeps class, child lists, id and main type -/
def ShapeEq (σ σ' : Store) : Prop :=
  σ'.size = σ.size ∧ ∀ n nd, σ.get? n = some nd →
    ∃ nd', σ'.get? n = some nd' ∧ nd'.cls = nd.cls ∧ nd'.allKids = nd.allKids ∧ nd'.kids = nd.kids ∧
      nd'.id = nd.id ∧ nd'.mainType = nd.mainType

theorem ShapeEq.rfl' (σ : Store) : ShapeEq σ σ := ⟨rfl, fun _ nd h => ⟨nd, h, rfl, rfl, rfl, rfl, rfl⟩⟩

theorem ShapeEq.trans {σ₁ σ₂ σ₃ : Store} (h₁ : ShapeEq σ₁ σ₂) (h₂ : ShapeEq σ₂ σ₃) : ShapeEq σ₁ σ₃ := by
  refine ⟨h₂.1.trans h₁.1, fun n nd h => ?_⟩
  obtain ⟨nd₂, g₂, a, b, c, d, e⟩ := h₁.2 n nd h
  obtain ⟨nd₃, g₃, a', b', c', d', e'⟩ := h₂.2 n nd₂ g₂
  exact ⟨nd₃, g₃, a'.trans a, b'.trans b, c'.trans c, d'.trans d, e'.trans e⟩

theorem ShapeEq.back {σ σ' : Store} (h : ShapeEq σ σ') {n : Nat} {nd' : Node} (g : σ'.get? n = some nd') :
    ∃ nd, σ.get? n = some nd ∧ nd'.cls = nd.cls ∧ nd'.allKids = nd.allKids ∧ nd'.kids = nd.kids ∧
      nd'.id = nd.id ∧ nd'.mainType = nd.mainType := by
  have hlt : n < σ.size := by rw [← h.1]; exact get?_lt g
  obtain ⟨nd, hnd⟩ := get?_of_lt hlt
  obtain ⟨nd'', g'', r⟩ := h.2 n nd hnd
  rw [g] at g''
  cases g''
  exact ⟨nd, hnd, r⟩

theorem ShapeEq.symm {σ σ' : Store} (h : ShapeEq σ σ') : ShapeEq σ' σ := by
  refine ⟨h.1.symm, fun n nd' g => ?_⟩
  obtain ⟨nd, hnd, a, b, c, d, e⟩ := h.back g
  exact ⟨nd, hnd, a.symm, b.symm, c.symm, d.symm, e.symm⟩

theorem ShapeEq.below_mp {σ σ' : Store} (h : ShapeEq σ σ') {m r : Nat} (b : Below σ m r) : Below σ' m r := by
  induction b with
  | refl n => exact .refl n
  | step _ hk hm ih =>
    obtain ⟨kn', g, _, hall, _⟩ := h.2 _ _ hk
    exact .step ih g (hall ▸ hm)

theorem ShapeEq.below_iff {σ σ' : Store} (h : ShapeEq σ σ') {m r : Nat} : Below σ m r ↔ Below σ' m r :=
  ⟨h.below_mp, h.symm.below_mp⟩

theorem ShapeEq.shape {σ σ' : Store} (h : ShapeEq σ σ') (s : Shape σ) : Shape σ' := by
  constructor
  · intro p q pn' qn' c hp hq hcp hcq
    obtain ⟨pn, gp, _, ap, _⟩ := h.back hp
    obtain ⟨qn, gq, _, aq, _⟩ := h.back hq
    exact s.uniq p q pn qn c gp gq (ap ▸ hcp) (aq ▸ hcq)
  · intro p pn' c cn' hp hc hcn
    obtain ⟨pn, gp, _, ap, _⟩ := h.back hp
    obtain ⟨cn, gc, cc, _⟩ := h.back hcn
    rw [cc]
    exact s.scanTop p pn c cn gp (ap ▸ hc) gc
  · intro p pn' c hp hc
    obtain ⟨pn, gp, _, ap, _⟩ := h.back hp
    rw [h.1]
    exact s.closed p pn c gp (ap ▸ hc)

/-! ### Below -/

theorem Below.trans {σ : Store} {a b c : Nat} (h₁ : Below σ a b) (h₂ : Below σ b c) : Below σ a c := by
  induction h₁ with
  | refl _ => exact h₂
  | step _ hk hm ih => exact .step (ih h₂) hk hm

/-- extend a path at its top -/
theorem Below.head {σ : Store} {m d r : Nat} {rn : Node} (hr : σ.get? r = some rn) (hd : d ∈ rn.allKids)
    (h : Below σ m d) : Below σ m r :=
  h.trans (.step (.refl r) hr hd)

/-- a path either is empty or starts with a child of its top -/
theorem Below.cases_head {σ : Store} {m r : Nat} (h : Below σ m r) :
    m = r ∨ ∃ rn d, σ.get? r = some rn ∧ d ∈ rn.allKids ∧ Below σ m d := by
  induction h with
  | refl _ => exact Or.inl rfl
  | @step m k r kn hb hk hm ih =>
    rcases ih with rfl | ⟨rn, d, hr, hd, hbd⟩
    · exact Or.inr ⟨kn, m, hk, hm, .refl m⟩
    · exact Or.inr ⟨rn, d, hr, hd, .step hbd hk hm⟩

/-- an element that no container lists is below itself only -/
theorem Below.eq_of_free {σ : Store} {c r : Nat} (hfree : ∀ q qn, σ.get? q = some qn → c ∉ qn.allKids)
    (h : Below σ c r) : c = r := by
  cases h with
  | refl _ => rfl
  | step _ hk hm => exact absurd hm (hfree _ _ hk)

/-- under a scan nothing is a scan -/
theorem Below.scan_top {σ : Store} (sh : Shape σ) {s r : Nat} {sn : Node} (hs : σ.get? s = some sn)
    (hscan : sn.cls = .scan) (h : Below σ s r) : s = r := by
  cases h with
  | refl _ => rfl
  | step _ hk hm => exact absurd hscan (sh.scanTop _ _ _ _ hk hm hs)

/-- an unlisted non-scan element shares no descendant with a scan -/
theorem Below.disjoint_free_scan {σ : Store} (sh : Shape σ) {c s m : Nat} {cn sn : Node}
    (hfree : ∀ q qn, σ.get? q = some qn → c ∉ qn.allKids)
    (hc : σ.get? c = some cn) (hcs : cn.cls ≠ .scan)
    (hs : σ.get? s = some sn) (hscan : sn.cls = .scan)
    (h₁ : Below σ m c) : ¬ Below σ m s := by
  induction h₁ with
  | refl _ =>
    intro h
    have := Below.eq_of_free hfree h
    subst this
    rw [hc] at hs
    cases hs
    exact hcs hscan
  | @step m k _ kn _ hk hm ih =>
    intro h
    cases h with
    | refl _ => exact sh.scanTop _ _ _ _ hk hm hs hscan
    | @step _ k' _ kn' hb' hk' hm' =>
      have : k' = k := sh.uniq _ _ _ _ _ hk' hk hm' hm
      subst this
      exact ih hfree hc hb'

/-! ### set_parent -/

/-- what `set_parent` does to the child's node -/
def linkUpd (pn : Node) (p : Nat) (nd : Node) : Node :=
  { nd with parent := some p, md := if pn.truthy then provenance pn nd.md else nd.md }

theorem setParent1_eq {σ : Store} {c p : Nat} {pn : Node} (hp : σ.get? p = some pn) :
    setParent1 σ c p = σ.upd c (linkUpd pn p) := by
  simp only [setParent1, hp]
  rfl

theorem setParent1_none {σ : Store} {c p : Nat} (hp : σ.get? p = none) : setParent1 σ c p = σ := by
  simp [setParent1, hp]

theorem provenance_spec (pn : Node) (m : Meta) (ht : pn.mainType = pn.cls.mainType) :
    mget (provenance pn m) "parent_id" = some pn.id ∧
    mget (provenance pn m) "parent_type" = some (.str pn.mainType) ∧
    mget (provenance pn m) (pn.mainType ++ "_id") = some pn.id ∧
    (pn.cls ≠ .scan → mget (provenance pn m) "scan_id" = mget m "scan_id") ∧
    (pn.cls = .scan → mget (provenance pn m) "scan_id" = some pn.id) := by
  unfold provenance
  rw [ht]
  cases pn.cls <;>
    simp [Cls.mainType, mget_mset_same, mget_mset_other]

theorem shapeEq_upd_link (σ : Store) (c : Nat) (f : Node → Node)
    (hf : ∀ nd, (f nd).cls = nd.cls ∧ (f nd).allKids = nd.allKids ∧ (f nd).kids = nd.kids ∧
      (f nd).id = nd.id ∧ (f nd).mainType = nd.mainType) : ShapeEq σ (σ.upd c f) := by
  refine ⟨by simp, fun n nd h => ?_⟩
  by_cases hn : n = c
  · subst hn
    exact ⟨f nd, by simp [h], hf nd⟩
  · exact ⟨nd, by simp [hn, h], rfl, rfl, rfl, rfl, rfl⟩

theorem linkUpd_fields (pn : Node) (p : Nat) (nd : Node) :
    (linkUpd pn p nd).cls = nd.cls ∧ (linkUpd pn p nd).allKids = nd.allKids ∧ (linkUpd pn p nd).kids = nd.kids ∧
      (linkUpd pn p nd).id = nd.id ∧ (linkUpd pn p nd).mainType = nd.mainType :=
  ⟨rfl, rfl, rfl, rfl, rfl⟩

theorem shapeEq_setParent1 (σ : Store) (c p : Nat) : ShapeEq σ (setParent1 σ c p) := by
  cases hp : σ.get? p with
  | none => rw [setParent1_none hp]; exact ShapeEq.rfl' σ
  | some pn => rw [setParent1_eq hp]; exact shapeEq_upd_link σ c _ (linkUpd_fields pn p)

theorem typed_setParent1 {σ : Store} {X : Nat → Prop} (c p : Nat)
    (h : ∀ n nd, ¬ X n → σ.get? n = some nd → TypedNode nd) :
    ∀ n nd, ¬ X n → (setParent1 σ c p).get? n = some nd → TypedNode nd := by
  cases hp : σ.get? p with
  | none => rw [setParent1_none hp]; exact h
  | some pn =>
    rw [setParent1_eq hp]
    intro n nd' hX g
    by_cases hn : n = c
    · subst hn
      simp only [get?_upd, if_true] at g
      cases hnd : σ.get? n with
      | none => simp [hnd] at g
      | some nd =>
        simp only [hnd, Option.map_some, Option.some.injEq] at g
        subst g
        exact h n nd hX hnd
    · simp only [get?_upd, hn, if_false] at g
      exact h n nd' hX g

/-- `set_parent(c, p)` links `c` to `p`, whoever lists it -/
theorem linkedAt_setParent1 {σ : Store} {c p : Nat} {pn cn : Node} (hp : σ.get? p = some pn) (hc : σ.get? c = some cn)
    (ht : pn.mainType = pn.cls.mainType) (htr : pn.truthy = true) : LinkedAt (setParent1 σ c p) p c := by
  rw [setParent1_eq hp]
  obtain ⟨h1, h2, h3, _, _⟩ := provenance_spec pn cn.md ht
  by_cases hpc : p = c
  · subst hpc
    rw [hp] at hc
    cases hc
    refine ⟨linkUpd pn p pn, linkUpd pn p pn, by simp [hp], by simp [hp], rfl, ?_, ?_, ?_⟩ <;>
      simp [linkUpd, htr, h1, h2, h3]
  · refine ⟨pn, linkUpd pn p cn, by simp [hpc, hp], by simp [hc], rfl, ?_, ?_, ?_⟩ <;>
      simp [linkUpd, htr, h1, h2, h3]

/-- a link survives any change that keeps the container's identity and the child's node -/
theorem LinkedAt.transfer {σ σ' : Store} {p c : Nat} (h : LinkedAt σ p c)
    (hp : ∀ pn, σ.get? p = some pn → ∃ pn', σ'.get? p = some pn' ∧ pn'.id = pn.id ∧ pn'.mainType = pn.mainType)
    (hc : ∀ cn, σ.get? c = some cn → ∃ cn', σ'.get? c = some cn' ∧ cn'.md = cn.md ∧ cn'.parent = cn.parent) :
    LinkedAt σ' p c := by
  obtain ⟨pn, cn, gp, gc, a, b, d, e⟩ := h
  obtain ⟨pn', gp', i1, i2⟩ := hp pn gp
  obtain ⟨cn', gc', j1, j2⟩ := hc cn gc
  exact ⟨pn', cn', gp', gc', j2 ▸ a, by rw [j1, i1]; exact b, by rw [j1, i2]; exact d, by rw [j1, i1, i2]; exact e⟩

theorem linkedOn_setParent1 {σ : Store} {ok : Nat → Prop} {c p : Nat} {pn : Node}
    (hp : σ.get? p = some pn) (hc : c < σ.size) (ht : pn.mainType = pn.cls.mainType)
    (hL : LinkedOn σ ok) (hon : ∀ q qn, σ.get? q = some qn → c ∈ qn.kids → q = p) :
    LinkedOn (setParent1 σ c p) (fun d => ok d ∨ d = c) := by
  intro q qn' d hq hd hok
  obtain ⟨qn, gq, _, _, hk, _, _⟩ := (shapeEq_setParent1 σ c p).back hq
  rw [hk] at hd
  by_cases hdc : d = c
  · subst hdc
    have hqp : q = p := hon q qn gq hd
    subst hqp
    rw [hp] at gq
    cases gq
    obtain ⟨cn, gc⟩ := get?_of_lt hc
    have htr : pn.truthy = true := by
      cases h : pn.truthy with
      | true => rfl
      | false => rw [kids_nil_of_not_truthy h] at hd; cases hd
    exact linkedAt_setParent1 hp gc ht htr
  · have hok' : ok d := hok.resolve_right hdc
    have := hL q qn d gq hd hok'
    rw [setParent1_eq hp]
    refine this.transfer ?_ ?_
    · intro qn₀ g
      by_cases hqc : q = c
      · subst hqc
        exact ⟨linkUpd pn p qn₀, by simp [g], rfl, rfl⟩
      · exact ⟨qn₀, by simp [hqc, g], rfl, rfl⟩
    · intro dn g
      exact ⟨dn, by simp [hdc, g], rfl, rfl⟩

theorem scanTagged_setParent1 {σ : Store} {X : Nat → Prop} {c p : Nat} {pn cn : Node}
    (hp : σ.get? p = some pn) (hc : σ.get? c = some cn) (ht : pn.mainType = pn.cls.mainType)
    (hcs : cn.cls ≠ .scan) (sh : Shape σ)
    (hon : ∀ q qn, σ.get? q = some qn → c ∈ qn.allKids → q = p)
    (hS : ScanTaggedEx σ X) : ScanTaggedEx (setParent1 σ c p) X := by
  have hse := shapeEq_setParent1 σ c p
  intro s sn' n nn' hX hs hscan hb hn
  obtain ⟨sn, gs, scls, _, _, sid, _⟩ := hse.back hs
  have hb₀ : Below σ n s := hse.below_iff.mpr hb
  rw [scls] at hscan
  rw [sid]
  rw [setParent1_eq hp] at hn
  by_cases hnc : n = c
  · subst hnc
    simp only [get?_upd, if_true, hc, Option.map_some, Option.some.injEq] at hn
    subst hn
    obtain ⟨_, _, _, h4, h5⟩ := provenance_spec pn cn.md ht
    have old := hS s sn n cn hX gs hscan hb₀ hc
    cases htr : pn.truthy with
    | false => simpa [linkUpd, htr] using old
    | true =>
      by_cases hps : pn.cls = .scan
      · -- the only scan `n` can be below is `p`
        have : s = p := by
          rcases hb₀ with _ | ⟨hbk, hk, hm⟩
          · rw [hc] at gs; cases gs; exact absurd hscan hcs
          · have := hon _ _ hk hm
            subst this
            exact (Below.scan_top sh hp hps hbk).symm
        subst this
        rw [hp] at gs
        cases gs
        simp [linkUpd, htr, h5 hps]
      · simpa [linkUpd, htr, h4 hps] using old
  · simp only [get?_upd, hnc, if_false] at hn
    exact hS s sn n nn' hX gs hscan hb₀ hn

/-! ### the invariant, with pending children and scans under construction -/

/-- `ok` excludes the children whose `set_parent` call is still to come, `X` the scans whose
    `set_scan_id` call is still to come -/
structure InvEx (σ : Store) (ok : Nat → Prop) (X : Nat → Prop) : Prop where
  linked : LinkedOn σ ok
  shape : Shape σ
  typed : ∀ n nd, ¬ X n → σ.get? n = some nd → TypedNode nd
  scan : ScanTaggedEx σ X

/-- the invariant of C02: links and provenance, forest shape, type tags, scan ids -/
def Inv (σ : Store) : Prop := InvEx σ (fun _ => True) (fun _ => False)

theorem LinkedOn.mono {σ : Store} {ok ok' : Nat → Prop} (h : LinkedOn σ ok) (hi : ∀ d, ok' d → ok d) :
    LinkedOn σ ok' := fun p pn c hp hc ho => h p pn c hp hc (hi c ho)

theorem ScanTaggedEx.mono {σ : Store} {X X' : Nat → Prop} (h : ScanTaggedEx σ X) (hi : ∀ s, X s → X' s) :
    ScanTaggedEx σ X' := fun s sn n nn hX => h s sn n nn (fun hx => hX (hi s hx))

theorem InvEx.mono {σ : Store} {ok ok' X X' : Nat → Prop} (h : InvEx σ ok X) (hi : ∀ d, ok' d → ok d)
    (hx : ∀ s, X s → X' s) : InvEx σ ok' X' :=
  ⟨h.linked.mono hi, h.shape, fun n nd hX g => h.typed n nd (fun x => hX (hx n x)) g, h.scan.mono hx⟩

/-- `c` exists, is not a scan, and no container other than `p` lists it -/
def Attachable (σ : Store) (p c : Nat) : Prop :=
  (∃ cn, σ.get? c = some cn ∧ cn.cls ≠ .scan) ∧ ∀ q qn, σ.get? q = some qn → c ∈ qn.allKids → q = p

theorem Attachable.transfer {σ σ' : Store} (h : ShapeEq σ σ') {p c : Nat} (a : Attachable σ p c) : Attachable σ' p c := by
  obtain ⟨⟨cn, gc, hcs⟩, hon⟩ := a
  obtain ⟨cn', gc', cc, _⟩ := h.2 c cn gc
  refine ⟨⟨cn', gc', cc ▸ hcs⟩, fun q qn' gq hq => ?_⟩
  obtain ⟨qn, g, _, ha, _⟩ := h.back gq
  exact hon q qn g (ha ▸ hq)

/-- the container exists and carries the main type of its class -/
def GoodParent (σ : Store) (p : Nat) : Prop := ∃ pn, σ.get? p = some pn ∧ pn.mainType = pn.cls.mainType

theorem GoodParent.transfer {σ σ' : Store} (h : ShapeEq σ σ') {p : Nat} (a : GoodParent σ p) : GoodParent σ' p := by
  obtain ⟨pn, g, ht⟩ := a
  obtain ⟨pn', g', cc, _, _, _, mm⟩ := h.2 p pn g
  exact ⟨pn', g', by rw [mm, cc]; exact ht⟩

theorem invEx_setParent1 {σ : Store} {ok X : Nat → Prop} {p c : Nat} (hp : GoodParent σ p) (hc : Attachable σ p c)
    (h : InvEx σ ok X) : InvEx (setParent1 σ c p) (fun d => ok d ∨ d = c) X := by
  obtain ⟨pn, gp, ht⟩ := hp
  obtain ⟨⟨cn, gc, hcs⟩, hon⟩ := hc
  exact ⟨linkedOn_setParent1 gp (get?_lt gc) ht h.linked (fun q qn g hq => hon q qn g (mem_allKids_of_mem_kids hq)),
    (shapeEq_setParent1 σ c p).shape h.shape, typed_setParent1 c p h.typed,
    scanTagged_setParent1 gp gc ht hcs h.shape hon h.scan⟩

theorem invEx_setAsParent {σ : Store} {ok X : Nat → Prop} {p : Nat} (cs : List Nat) (hp : GoodParent σ p)
    (hcs : ∀ c ∈ cs, Attachable σ p c) (h : InvEx σ ok X) :
    InvEx (setAsParent σ p cs) (fun d => ok d ∨ d ∈ cs) X ∧ ShapeEq σ (setAsParent σ p cs) := by
  induction cs generalizing σ ok with
  | nil =>
    exact ⟨h.mono (fun d hd => hd.elim id (fun x => by cases x)) (fun _ x => x), ShapeEq.rfl' σ⟩
  | cons c cs ih =>
    have se := shapeEq_setParent1 σ c p
    have h1 := invEx_setParent1 hp (hcs c (by simp)) h
    have := ih (hp.transfer se) (fun d hd => (hcs d (by simp [hd])).transfer se) h1
    refine ⟨?_, se.trans this.2⟩
    have e : setAsParent σ p (c :: cs) = setAsParent (setParent1 σ c p) p cs := rfl
    rw [e]
    refine this.1.mono (fun d hd => ?_) (fun _ x => x)
    rcases hd with hd | hd
    · exact Or.inl (Or.inl hd)
    · rcases List.mem_cons.mp hd with rfl | hd
      · exact Or.inl (Or.inr rfl)
      · exact Or.inr hd

/-- changes of a node that leave links, shape and metadata alone (type tags, coordinates, area, text) -/
def LocalChange (f : Node → Node) : Prop :=
  ∀ nd, (f nd).cls = nd.cls ∧ (f nd).allKids = nd.allKids ∧ (f nd).kids = nd.kids ∧ (f nd).id = nd.id ∧
    (f nd).mainType = nd.mainType ∧ (f nd).md = nd.md ∧ (f nd).parent = nd.parent

theorem scanTaggedEx_of_mdEq {σ σ' : Store} {X : Nat → Prop} (se : ShapeEq σ σ')
    (hmd : ∀ n nd nd', σ.get? n = some nd → σ'.get? n = some nd' → nd'.md = nd.md)
    (h : ScanTaggedEx σ X) : ScanTaggedEx σ' X := by
  intro s sn' n nn' hX hs hscan hb hn
  obtain ⟨sn, gs, scls, _, _, sid, _⟩ := se.back hs
  obtain ⟨nn, gn, _⟩ := se.back hn
  rw [sid, hmd n nn nn' gn hn]
  exact h s sn n nn hX gs (scls ▸ hscan) (se.below_iff.mpr hb) gn

theorem invEx_upd_local {σ : Store} {ok X : Nat → Prop} {n : Nat} {f : Node → Node} (hf : LocalChange f)
    (ht : ¬ X n → ∀ nd, σ.get? n = some nd → TypedNode nd → TypedNode (f nd)) (h : InvEx σ ok X) :
    InvEx (σ.upd n f) ok X ∧ ShapeEq σ (σ.upd n f) := by
  have se : ShapeEq σ (σ.upd n f) :=
    shapeEq_upd_link σ n f (fun nd => ⟨(hf nd).1, (hf nd).2.1, (hf nd).2.2.1, (hf nd).2.2.2.1, (hf nd).2.2.2.2.1⟩)
  refine ⟨⟨?_, se.shape h.shape, ?_, ?_⟩, se⟩
  · intro p pn' c hp hc hok
    obtain ⟨pn, gp, _, _, hk, _⟩ := se.back hp
    refine (h.linked p pn c gp (hk ▸ hc) hok).transfer ?_ ?_
    · intro pn₀ g
      by_cases hpn : p = n
      · subst hpn
        exact ⟨f pn₀, by simp [g], (hf pn₀).2.2.2.1, (hf pn₀).2.2.2.2.1⟩
      · exact ⟨pn₀, by simp [hpn, g], rfl, rfl⟩
    · intro cn g
      by_cases hcn : c = n
      · subst hcn
        exact ⟨f cn, by simp [g], (hf cn).2.2.2.2.2.1, (hf cn).2.2.2.2.2.2⟩
      · exact ⟨cn, by simp [hcn, g], rfl, rfl⟩
  · intro m nd' hX g
    by_cases hm : m = n
    · subst hm
      cases hnd : σ.get? m with
      | none => simp [hnd] at g
      | some nd =>
        simp only [get?_upd, if_true, hnd, Option.map_some, Option.some.injEq] at g
        subst g
        exact ht hX nd hnd (h.typed m nd hX hnd)
    · simp only [get?_upd, hm, if_false] at g
      exact h.typed m nd' hX g
  · refine scanTaggedEx_of_mdEq se ?_ h.scan
    intro m nd nd' g g'
    by_cases hm : m = n
    · subst hm
      simp only [get?_upd, if_true, g, Option.map_some, Option.some.injEq] at g'
      subst g'
      exact (hf nd).2.2.2.2.2.1
    · simp only [get?_upd, hm, if_false] at g'
      rw [g] at g'
      cases g'
      rfl

/-! ### allocation of a new node -/

/-- `c` exists, is not a scan, and no container lists it -/
def FreeKid (σ : Store) (c : Nat) : Prop :=
  (∃ cn, σ.get? c = some cn ∧ cn.cls ≠ .scan) ∧ ∀ q qn, σ.get? q = some qn → c ∉ qn.allKids

theorem below_alloc {σ : Store} {nd : Node} (sh : Shape σ) {m s : Nat} (hs : s ≠ σ.size)
    (h : Below (σ.alloc nd) m s) : Below σ m s := by
  induction h with
  | refl _ => exact .refl _
  | @step m k s kn _ hk hm ih =>
    have ih := ih hs
    have hk' : k ≠ σ.size := by
      intro e
      subst e
      cases ih with
      | refl _ => exact hs rfl
      | step _ hq hmq => exact absurd (sh.closed _ _ _ hq hmq) (Nat.lt_irrefl _)
    rw [get?_alloc, if_neg hk'] at hk
    exact .step ih hk hm

theorem below_lt {σ : Store} (sh : Shape σ) {m s : Nat} (h : Below σ m s) (hs : s < σ.size) : m < σ.size := by
  cases h with
  | refl _ => exact hs
  | step _ hq hmq => exact sh.closed _ _ _ hq hmq

theorem invEx_alloc {σ : Store} {nd : Node} (h : Inv σ) (hk : ∀ c ∈ nd.allKids, FreeKid σ c) :
    InvEx (σ.alloc nd) (fun c => c ∉ nd.kids) (fun s => s = σ.size) ∧
      (∀ c ∈ nd.allKids, Attachable (σ.alloc nd) σ.size c) := by
  have old : ∀ {m : Nat} {x : Node}, σ.get? m = some x → (σ.alloc nd).get? m = some x := by
    intro m x g
    rw [get?_alloc, if_neg (Nat.ne_of_lt (get?_lt g))]
    exact g
  refine ⟨⟨?_, ?_, ?_, ?_⟩, ?_⟩
  · intro q qn d hq hd hok
    rw [get?_alloc] at hq
    by_cases hqs : q = σ.size
    · rw [if_pos hqs] at hq
      cases hq
      exact absurd hd hok
    · rw [if_neg hqs] at hq
      refine (h.linked q qn d hq hd trivial).transfer ?_ ?_
      · intro pn g; exact ⟨pn, old g, rfl, rfl⟩
      · intro cn g; exact ⟨cn, old g, rfl, rfl⟩
  · constructor
    · intro p q pn qn c hp hq hcp hcq
      rw [get?_alloc] at hp hq
      by_cases hps : p = σ.size <;> by_cases hqs : q = σ.size
      · rw [hps, hqs]
      · rw [if_pos hps] at hp; rw [if_neg hqs] at hq; cases hp
        exact absurd hcq ((hk c hcp).2 q qn hq)
      · rw [if_neg hps] at hp; rw [if_pos hqs] at hq; cases hq
        exact absurd hcp ((hk c hcq).2 p pn hp)
      · rw [if_neg hps] at hp; rw [if_neg hqs] at hq
        exact h.shape.uniq p q pn qn c hp hq hcp hcq
    · intro p pn c cn hp hc hcn
      rw [get?_alloc] at hp
      by_cases hps : p = σ.size
      · rw [if_pos hps] at hp; cases hp
        obtain ⟨⟨cn₀, g₀, hns⟩, _⟩ := hk c hc
        rw [old g₀] at hcn; cases hcn
        exact hns
      · rw [if_neg hps] at hp
        have hlt := h.shape.closed p pn c hp hc
        rw [get?_alloc, if_neg (Nat.ne_of_lt hlt)] at hcn
        exact h.shape.scanTop p pn c cn hp hc hcn
    · intro p pn c hp hc
      rw [get?_alloc] at hp
      rw [size_alloc]
      by_cases hps : p = σ.size
      · rw [if_pos hps] at hp; cases hp
        obtain ⟨⟨cn₀, g₀, _⟩, _⟩ := hk c hc
        exact Nat.lt_succ_of_lt (get?_lt g₀)
      · rw [if_neg hps] at hp
        exact Nat.lt_succ_of_lt (h.shape.closed p pn c hp hc)
  · intro m x hX g
    rw [get?_alloc, if_neg hX] at g
    exact h.typed m x (fun f => f) g
  · intro s sn n nn hX hs hscan hb hn
    rw [get?_alloc, if_neg hX] at hs
    have hb₀ := below_alloc h.shape hX hb
    have hnlt := below_lt h.shape hb₀ (get?_lt hs)
    rw [get?_alloc, if_neg (Nat.ne_of_lt hnlt)] at hn
    exact h.scan s sn n nn (fun f => f) hs hscan hb₀ hn
  · intro c hc
    obtain ⟨⟨cn, g, hns⟩, hfree⟩ := hk c hc
    refine ⟨⟨cn, old g, hns⟩, fun q qn hq hcq => ?_⟩
    rw [get?_alloc] at hq
    by_cases hqs : q = σ.size
    · exact hqs
    · rw [if_neg hqs] at hq
      exact absurd hcq (hfree q qn hq)

/-! ### set_scan_id -/

theorem setMeta_idem (k : String) (v : MVal) (nd : Node) : setMeta k v (setMeta k v nd) = setMeta k v nd := by
  simp [setMeta, mset_mset_same]

/-- what a successful `set_scan_id(r, v)` does: exactly the nodes below `r` get `scan_id = v` -/
structure ScanSpec (σ σ' : Store) (r : Nat) (v : MVal) : Prop where
  size : σ'.size = σ.size
  hit : ∀ m, Below σ m r → σ'.get? m = (σ.get? m).map (setMeta "scan_id" v)
  miss : ∀ m, ¬ Below σ m r → σ'.get? m = σ.get? m

/-- every node is the old one, possibly with `scan_id` rewritten -/
def ScanRel (σ τ : Store) (v : MVal) : Prop :=
  τ.size = σ.size ∧ ∀ m, τ.get? m = σ.get? m ∨ τ.get? m = (σ.get? m).map (setMeta "scan_id" v)

theorem ScanRel.shapeEq {σ τ : Store} {v : MVal} (h : ScanRel σ τ v) : ShapeEq σ τ := by
  refine ⟨h.1, fun n nd g => ?_⟩
  rcases h.2 n with e | e
  · exact ⟨nd, by rw [e, g], rfl, rfl, rfl, rfl, rfl⟩
  · exact ⟨setMeta "scan_id" v nd, by rw [e, g]; rfl, rfl, rfl, rfl, rfl, rfl⟩

theorem ScanSpec.rel {σ σ' : Store} {r : Nat} {v : MVal} (h : ScanSpec σ σ' r v) : ScanRel σ σ' v := by
  refine ⟨h.size, fun m => ?_⟩
  by_cases hb : Below σ m r
  · exact Or.inr (h.hit m hb)
  · exact Or.inl (h.miss m hb)

theorem foldlM_ok_cons {α β : Type} {f : β → α → Res β} {a : α} {l : List α} {b b' : β}
    (h : (a :: l).foldlM f b = .ok b') : ∃ b₁, f b a = .ok b₁ ∧ l.foldlM f b₁ = .ok b' := by
  rw [List.foldlM_cons] at h
  cases hf : f b a with
  | error e => rw [hf] at h; cases h
  | ok b₁ => rw [hf] at h; exact ⟨b₁, rfl, h⟩

theorem setScanId_spec : ∀ (f : Nat) (σ : Store) (r : Nat) (v : MVal) (σ' : Store),
    setScanId f σ r v = .ok σ' → ScanSpec σ σ' r v := by
  intro f
  induction f with
  | zero => intro σ r v σ' h; simp [setScanId] at h
  | succ f ih =>
    intro σ r v σ' h
    simp only [setScanId] at h
    cases hr : σ.get? r with
    | none => simp [hr] at h
    | some rn =>
      simp only [hr] at h
      -- the accumulated effect after the children in `D` have been processed
      let P : Store → List Nat → Prop := fun τ D =>
        τ.size = σ.size ∧ ∀ m,
          ((m = r ∨ ∃ d ∈ D, Below σ m d) → τ.get? m = (σ.get? m).map (setMeta "scan_id" v)) ∧
          (¬ (m = r ∨ ∃ d ∈ D, Below σ m d) → τ.get? m = σ.get? m)
      have key : ∀ (L : List Nat) (D : List Nat) (τ τ' : Store),
          L.foldlM (fun s c => setScanId f s c v) τ = .ok τ' → P τ D → P τ' (D ++ L) := by
        intro L
        induction L with
        | nil =>
          intro D τ τ' hf hP
          simp only [List.foldlM_nil, pure, Except.pure, Except.ok.injEq] at hf
          subst hf
          simpa using hP
        | cons c L ihL =>
          intro D τ τ' hf hP
          obtain ⟨τ₁, h₁, h₂⟩ := foldlM_ok_cons hf
          have spec := ih τ c v τ₁ h₁
          have rel : ScanRel σ τ v := by
            refine ⟨hP.1, fun m => ?_⟩
            by_cases hm : m = r ∨ ∃ d ∈ D, Below σ m d
            · exact Or.inr ((hP.2 m).1 hm)
            · exact Or.inl ((hP.2 m).2 hm)
          have se := rel.shapeEq
          have hP₁ : P τ₁ (D ++ [c]) := by
            refine ⟨spec.size.trans hP.1, fun m => ⟨?_, ?_⟩⟩
            · intro hm
              by_cases hbc : Below σ m c
              · rw [spec.hit m (se.below_iff.mp hbc)]
                rcases rel.2 m with e | e
                · rw [e]
                · rw [e, Option.map_map]
                  congr 1
                  funext x
                  exact setMeta_idem _ _ x
              · rw [spec.miss m (fun hb => hbc (se.below_iff.mpr hb))]
                refine (hP.2 m).1 ?_
                rcases hm with hm | ⟨d, hd, hbd⟩
                · exact Or.inl hm
                · rcases List.mem_append.mp hd with hd | hd
                  · exact Or.inr ⟨d, hd, hbd⟩
                  · simp only [List.mem_singleton] at hd
                    subst hd
                    exact absurd hbd hbc
            · intro hm
              have hbc : ¬ Below σ m c := fun hb => hm (Or.inr ⟨c, by simp, hb⟩)
              rw [spec.miss m (fun hb => hbc (se.below_iff.mpr hb))]
              refine (hP.2 m).2 ?_
              rintro (h' | ⟨d, hd, hbd⟩)
              · exact hm (Or.inl h')
              · exact hm (Or.inr ⟨d, by simp [hd], hbd⟩)
          have := ihL (D ++ [c]) τ₁ τ' h₂ hP₁
          simpa [List.append_assoc] using this
      have hP₀ : P (σ.upd r (setMeta "scan_id" v)) [] := by
        refine ⟨by simp, fun m => ⟨?_, ?_⟩⟩
        · rintro (hm | ⟨d, hd, _⟩)
          · subst hm; simp
          · cases hd
        · intro hm
          have : m ≠ r := fun e => hm (Or.inl e)
          simp [this]
      have hfin := key rn.allKids [] _ σ' h hP₀
      simp only [List.nil_append] at hfin
      have cover : ∀ m, (m = r ∨ ∃ d ∈ rn.allKids, Below σ m d) ↔ Below σ m r := by
        intro m
        constructor
        · rintro (rfl | ⟨d, hd, hb⟩)
          · exact .refl _
          · exact hb.head hr hd
        · intro hb
          rcases hb.cases_head with rfl | ⟨rn', d, hr', hd, hbd⟩
          · exact Or.inl rfl
          · rw [hr] at hr'; cases hr'
            exact Or.inr ⟨d, hd, hbd⟩
      exact ⟨hfin.1, fun m hb => (hfin.2 m).1 ((cover m).mpr hb), fun m hb => (hfin.2 m).2 (fun h' => hb ((cover m).mp h'))⟩

/-- an element sits below at most one scan -/
theorem Below.scan_unique {σ : Store} (sh : Shape σ) {s r m : Nat} {sn rn : Node}
    (hs : σ.get? s = some sn) (hss : sn.cls = .scan) (hr : σ.get? r = some rn) (hrs : rn.cls = .scan)
    (h₁ : Below σ m r) (h₂ : Below σ m s) : s = r := by
  induction h₁ with
  | refl _ => exact (Below.scan_top sh hr hrs h₂).symm
  | @step m k _ kn _ hk hm ih =>
    cases h₂ with
    | refl _ => exact absurd hss (sh.scanTop _ _ _ _ hk hm hs)
    | @step _ k' _ kn' hb' hk' hm' =>
      have : k' = k := sh.uniq _ _ _ _ _ hk' hk hm' hm
      subst this
      exact ih hr hb'

theorem scanRel_node {σ σ' : Store} {v : MVal} (rel : ScanRel σ σ' v) {m : Nat} {nd' : Node}
    (g : σ'.get? m = some nd') : ∃ nd, σ.get? m = some nd ∧ (nd' = nd ∨ nd' = setMeta "scan_id" v nd) := by
  rcases rel.2 m with e | e
  · exact ⟨nd', by rw [← e]; exact g, Or.inl rfl⟩
  · rw [e] at g
    cases hm : σ.get? m with
    | none => rw [hm] at g; cases g
    | some nd =>
      rw [hm] at g
      simp only [Option.map_some, Option.some.injEq] at g
      exact ⟨nd, rfl, Or.inr g.symm⟩

/-- `set_scan_id(r, v)` keeps the invariant when `v` is the id of the scan above `r`
    (`hA`, `hC`); scans whose whole subtree is rewritten leave the pending set -/
theorem invEx_setScanId {σ σ' : Store} {ok X X' : Nat → Prop} {r : Nat} {v : MVal} (spec : ScanSpec σ σ' r v)
    (h : InvEx σ ok X)
    (hA : ∀ q qn d, σ.get? q = some qn → d ∈ qn.kids → Below σ d r →
      qn.mainType = qn.cls.mainType ∧ (qn.cls = .scan → v = qn.id))
    (hT : ∀ n nd, ¬ X' n → X n → σ.get? n = some nd → TypedNode nd)
    (hC : ∀ s sn n nn, ¬ X' s → σ.get? s = some sn → sn.cls = .scan → Below σ n s → σ.get? n = some nn →
      (Below σ n r → v = sn.id) ∧ (¬ Below σ n r → mget nn.md "scan_id" = some sn.id)) :
    InvEx σ' ok X' := by
  have rel := spec.rel
  have se := rel.shapeEq
  refine ⟨?_, se.shape h.shape, ?_, ?_⟩
  · intro q qn' d hq hd hok
    obtain ⟨qn, gq, _, _, hk, hid, hmt⟩ := se.back hq
    rw [hk] at hd
    obtain ⟨pn, cn, gp, gc, a, b, c, e⟩ := h.linked q qn d gq hd hok
    rw [gq] at gp
    cases gp
    by_cases hb : Below σ d r
    · obtain ⟨hmain, hv⟩ := hA q qn d gq hd hb
      refine ⟨qn', setMeta "scan_id" v cn, hq, by rw [spec.hit d hb, gc]; rfl, a, ?_, ?_, ?_⟩
      · rw [hid]
        show mget (mset cn.md "scan_id" v) "parent_id" = _
        rw [mget_mset_other _ _ _ _ (by decide)]
        exact b
      · rw [hmt]
        show mget (mset cn.md "scan_id" v) "parent_type" = _
        rw [mget_mset_other _ _ _ _ (by decide)]
        exact c
      · rw [hid, hmt]
        show mget (mset cn.md "scan_id" v) _ = _
        by_cases hsc : qn.cls = .scan
        · rw [hmain, hsc]
          have : Cls.scan.mainType ++ "_id" = "scan_id" := by decide
          rw [this, mget_mset_same, hv hsc]
        · rw [mget_mset_other]
          · exact e
          · rw [hmain]
            revert hsc
            cases qn.cls <;> simp [Cls.mainType]
    · exact ⟨qn', cn, hq, by rw [spec.miss d hb, gc], a, by rw [hid]; exact b, by rw [hmt]; exact c,
        by rw [hid, hmt]; exact e⟩
  · intro n nd' hX g
    obtain ⟨nd, g₀, hnd⟩ := scanRel_node rel g
    have ht : TypedNode nd := by
      by_cases hx : X n
      · exact hT n nd hX hx g₀
      · exact h.typed n nd hx g₀
    rcases hnd with rfl | rfl
    · exact ht
    · exact ht
  · intro s sn' n nn' hX hs hscan hb hn
    obtain ⟨sn, gs, scls, _, _, sid, _⟩ := se.back hs
    have hb₀ : Below σ n s := se.below_iff.mpr hb
    rw [scls] at hscan
    rw [sid]
    obtain ⟨nn, gn, _⟩ := se.back hn
    obtain ⟨h1, h2⟩ := hC s sn n nn hX gs hscan hb₀ gn
    by_cases hbr : Below σ n r
    · rw [spec.hit n hbr, gn] at hn
      simp only [Option.map_some, Option.some.injEq] at hn
      subst hn
      show mget (mset nn.md "scan_id" v) "scan_id" = _
      rw [mget_mset_same, h1 hbr]
    · rw [spec.miss n hbr, gn] at hn
      cases hn
      exact h2 hbr

/-- if `m` is below `c` and below the scan `s`, then `c` is below `s` -/
theorem Below.chain_scan {σ : Store} (sh : Shape σ) {s c m : Nat} {sn : Node}
    (hs : σ.get? s = some sn) (hss : sn.cls = .scan) (h₁ : Below σ m c) (h₂ : Below σ m s) : Below σ c s := by
  induction h₁ with
  | refl _ => exact h₂
  | @step m k _ kn _ hk hm ih =>
    cases h₂ with
    | refl _ => exact absurd hss (sh.scanTop _ _ _ _ hk hm hs)
    | @step _ k' _ kn' hb' hk' hm' =>
      have : k' = k := sh.uniq _ _ _ _ _ hk' hk hm' hm
      subst this
      exact ih hb'

end Pagexml.C02
