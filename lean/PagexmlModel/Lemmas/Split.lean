/-
`str.split(sep)` / `sep.join(...)` laws over `List Char` (one-character separator).
-/
import PagexmlModel.Model.C03

namespace Pagexml.C03

theorem splitOn_ne_nil (sep : Char) (cs : List Char) : splitOn sep cs ≠ [] := by
  induction cs with
  | nil => simp [splitOn]
  | cons c cs ih =>
    unfold splitOn
    split
    · simp
    · split <;> simp

theorem splitOn_no_sep (sep : Char) (cs : List Char) (h : sep ∉ cs) : splitOn sep cs = [cs] := by
  induction cs with
  | nil => simp [splitOn]
  | cons c cs ih =>
    have hc : c ≠ sep := fun e => h (by simp [e])
    have hcs : sep ∉ cs := fun e => h (by simp [e])
    unfold splitOn
    rw [ih hcs]
    simp [hc]

theorem splitOn_append_sep (sep : Char) (xs ys : List Char) (h : sep ∉ xs) :
    splitOn sep (xs ++ sep :: ys) = xs :: splitOn sep ys := by
  induction xs with
  | nil =>
    simp only [List.nil_append]
    rw [splitOn]
    cases hs : splitOn sep ys with
    | nil => exact absurd hs (splitOn_ne_nil sep ys)
    | cons f fs => simp
  | cons c cs ih =>
    have hc : c ≠ sep := fun e => h (by simp [e])
    have hcs : sep ∉ cs := fun e => h (by simp [e])
    simp only [List.cons_append]
    rw [splitOn, ih hcs]
    simp [hc]

/-- `sep.join(toks).split(sep) == toks` when no token contains the separator and there
    is at least one token -/
theorem splitOn_intercalate (sep : Char) (toks : List (List Char)) (hne : toks ≠ [])
    (h : ∀ t ∈ toks, sep ∉ t) : splitOn sep (intercalate [sep] toks) = toks := by
  induction toks with
  | nil => exact absurd rfl hne
  | cons t ts ih =>
    cases ts with
    | nil => simp [intercalate, splitOn_no_sep sep t (h t (by simp))]
    | cons u us =>
      have e : intercalate [sep] (t :: u :: us) = t ++ sep :: intercalate [sep] (u :: us) := by
        simp [intercalate]
      rw [e, splitOn_append_sep sep t _ (h t (by simp))]
      rw [ih (by simp) (fun x hx => h x (by simp [hx]))]

end Pagexml.C03
