/-
The hand-compiled regular expression `\b(NAME)GAP{(.*?)}` under `re.finditer` (GAP: one space, or `\s*`):
what it finds in a rendered grammar string, and what every match looks like.
-/
import PagexmlModel.Lemmas.C11Grammar

namespace Pagexml.C11

theorem wordRun_append (cc : CharClass) {name : List Char} (h : AllWord cc name) {c : Char}
    (hc : cc.isWord c = false) (r : List Char) : wordRun cc (name ++ c :: r) = (name, c :: r) := by
  induction name with
  | nil => simp [wordRun, hc]
  | cons d name ih =>
    have hd : cc.isWord d = true := h d (by simp)
    simp only [List.cons_append, wordRun, hd, if_true]
    rw [ih (fun x hx => h x (by simp [hx]))]

theorem lazyBody_append {body : List Char} (h1 : '}' ∉ body) (h2 : '\n' ∉ body) (r : List Char) :
    lazyBody (body ++ '}' :: r) = some body := by
  induction body with
  | nil => simp [lazyBody]
  | cons c body ih =>
    have hc1 : c ≠ '}' := fun e => h1 (by simp [e])
    have hc2 : c ≠ '\n' := fun e => h2 (by simp [e])
    simp only [List.cons_append, lazyBody, hc1, hc2, if_false]
    rw [ih (fun e => h1 (by simp [e])) (fun e => h2 (by simp [e]))]

/-- class of the last character passed (`p` if none) -/
def lastWord (cc : CharClass) (p : Bool) : List Char → Bool
  | [] => p
  | c :: cs => lastWord cc (cc.isWord c) cs

theorem lastWord_snoc (cc : CharClass) (p : Bool) (xs : List Char) (c : Char) :
    lastWord cc p (xs ++ [c]) = cc.isWord c := by
  induction xs generalizing p with
  | nil => rfl
  | cons d xs ih => simp only [List.cons_append, lastWord]; exact ih _

theorem lastWord_noWord (cc : CharClass) {xs : List Char} (h : NoWord cc xs) : lastWord cc false xs = false := by
  induction xs with
  | nil => rfl
  | cons d xs ih =>
    simp only [lastWord, h d (by simp)]
    exact ih (fun x hx => h x (by simp [hx]))

theorem scan_skip (cc : CharClass) (gap : Bool) (acc : List Char → Bool) (xs : List Char) (p : Bool) (rest : List Char) :
    scan cc gap acc xs.length p (xs ++ rest) = scan cc gap acc 0 (lastWord cc p xs) rest := by
  induction xs generalizing p with
  | nil => rfl
  | cons c xs ih =>
    simp only [List.length_cons, List.cons_append, scan, lastWord]
    exact ih _

theorem matchAt_nonword (cc : CharClass) (gap : Bool) (acc : List Char → Bool) (p : Bool) {c : Char}
    (hc : cc.isWord c = false) (r : List Char) : matchAt cc gap acc p (c :: r) = none := by
  simp [matchAt, hc]

theorem matchAt_prev (cc : CharClass) (gap : Bool) (acc : List Char → Bool) (s : List Char) : matchAt cc gap acc true s = none := by
  cases s <;> simp [matchAt]

theorem scan_noWord (cc : CharClass) (gap : Bool) (acc : List Char → Bool) {sep : List Char} (h : NoWord cc sep)
    (p : Bool) (rest : List Char) : scan cc gap acc 0 p (sep ++ rest) = scan cc gap acc 0 (lastWord cc p sep) rest := by
  induction sep generalizing p with
  | nil => rfl
  | cons c sep ih =>
    have hc : cc.isWord c = false := h c (by simp)
    simp only [List.cons_append, scan, matchAt_nonword cc gap acc p hc, lastWord]
    exact ih (fun x hx => h x (by simp [hx])) _

/-! ### the gap between the name and the brace (one space, or `\s*`) -/

/-- the one space the grammar of the statement writes is accepted by either form of the gap -/
theorem gapBrace_space_brace (cc : CharClass) (gap : Bool) (hss : cc.isSpace ' ' = true)
    (hlbs : cc.isSpace '{' = false) (r : List Char) : gapBrace cc gap (' ' :: '{' :: r) = some (2, r) := by
  cases gap
  · simp [gapBrace]
  · simp [gapBrace, stripLeft, hss, hlbs]
    omega

theorem stripLeft_no_lbrace (cc : CharClass) (hrbs : cc.isSpace '}' = false) (rest : List Char) :
    ∀ b : List Char, '{' ∉ b → ∃ b', stripLeft cc (b ++ '}' :: rest) = b' ++ '}' :: rest ∧ '{' ∉ b' := by
  intro b
  induction b with
  | nil => intro _; exact ⟨[], by simp [stripLeft, hrbs], by simp⟩
  | cons d b ih =>
    intro hb
    by_cases hd : cc.isSpace d = true
    · obtain ⟨b', e, hb'⟩ := ih (fun e => hb (by simp [e]))
      exact ⟨b', by simp [stripLeft, hd, e], hb'⟩
    · exact ⟨d :: b, by simp [stripLeft, hd], hb⟩

/-- a stretch without an opening brace that ends with `}` does not start with the gap and a brace -/
theorem gapBrace_no_lbrace (cc : CharClass) (gap : Bool) (hrbs : cc.isSpace '}' = false) {b : List Char}
    (hb : '{' ∉ b) (rest : List Char) : gapBrace cc gap (b ++ '}' :: rest) = none := by
  cases gap
  · unfold gapBrace
    simp only [Bool.false_eq_true, if_false]
    split
    · rename_i r heq
      exfalso
      cases b with
      | nil => simp at heq
      | cons c b1 =>
        cases b1 with
        | nil => simp at heq
        | cons d b2 =>
          simp only [List.cons_append, List.cons.injEq] at heq
          exact hb (by simp [heq.2.1])
    · rfl
  · obtain ⟨b', e, hb'⟩ := stripLeft_no_lbrace cc hrbs rest b hb
    unfold gapBrace
    simp only [if_true, e]
    split
    · rename_i r heq
      exfalso
      cases b' with
      | nil => simp at heq
      | cons c b1 =>
        simp only [List.cons_append, List.cons.injEq] at heq
        exact hb' (by simp [heq.1])
    · rfl

theorem matchAt_tag (cc : CharClass) (gap : Bool) (acc : List Char → Bool) {name body : List Char} (hne : name ≠ [])
    (hw : AllWord cc name) (hsp : cc.isWord ' ' = false) (hss : cc.isSpace ' ' = true)
    (hlbs : cc.isSpace '{' = false) (h1 : '}' ∉ body) (h2 : '\n' ∉ body)
    (hacc : acc name = true) (rest : List Char) :
    matchAt cc gap acc false (name ++ ' ' :: '{' :: (body ++ '}' :: rest)) = some (name, body) := by
  cases name with
  | nil => exact absurd rfl hne
  | cons c n =>
    have hc : cc.isWord c = true := hw c (by simp)
    have hr : wordRun cc (c :: n ++ ' ' :: '{' :: (body ++ '}' :: rest)) = (c :: n, ' ' :: '{' :: (body ++ '}' :: rest)) :=
      wordRun_append cc hw hsp _
    simp only [List.cons_append] at hr
    simp only [matchAt, List.cons_append, hc, hr, hacc, gapBrace_space_brace cc gap hss hlbs, lazyBody_append h1 h2]
    simp

theorem matchAt_rejected (cc : CharClass) (gap : Bool) (acc : List Char → Bool) {name : List Char}
    (hw : AllWord cc name) {c : Char} (hc : cc.isWord c = false) (hacc : acc name = false) (p : Bool)
    (rest : List Char) : matchAt cc gap acc p (name ++ c :: rest) = none := by
  cases name with
  | nil => exact matchAt_nonword cc gap acc p hc rest
  | cons d n =>
    have hd : cc.isWord d = true := hw d (by simp)
    have hr : wordRun cc (d :: n ++ c :: rest) = (d :: n, c :: rest) := wordRun_append cc hw hc _
    simp only [List.cons_append] at hr
    cases p <;> simp [matchAt, hd, hr, hacc]

/-- an accepted tag is found, and the search continues right behind its closing brace -/
theorem scan_tag (cc : CharClass) (gap : Bool) (acc : List Char → Bool) {name body : List Char} (hne : name ≠ [])
    (hw : AllWord cc name) (hsp : cc.isWord ' ' = false) (hrb : cc.isWord '}' = false)
    (hss : cc.isSpace ' ' = true) (hlbs : cc.isSpace '{' = false)
    (h1 : '}' ∉ body) (h2 : '\n' ∉ body) (hacc : acc name = true) (rest : List Char) :
    scan cc gap acc 0 false (name ++ ' ' :: '{' :: (body ++ '}' :: rest)) = (name, body) :: scan cc gap acc 0 false rest := by
  have hm := matchAt_tag cc gap acc hne hw hsp hss hlbs h1 h2 hacc rest
  cases name with
  | nil => exact absurd rfl hne
  | cons c n =>
    have hd : (c :: (n ++ ' ' :: '{' :: (body ++ '}' :: rest))).drop (c :: n).length =
        ' ' :: '{' :: (body ++ '}' :: rest) := by
      simp
    simp only [List.cons_append] at hm ⊢
    rw [scan, hm]
    simp only
    rw [hd]
    have hg : gapWidth cc gap (' ' :: '{' :: (body ++ '}' :: rest)) = 2 := by
      simp [gapWidth, gapBrace_space_brace cc gap hss hlbs]
    have e : n ++ ' ' :: '{' :: (body ++ '}' :: rest) = (n ++ ' ' :: '{' :: body ++ ['}']) ++ rest := by simp
    have hl : (c :: n).length + 2 + body.length = (n ++ ' ' :: '{' :: body ++ ['}']).length := by
      simp; omega
    rw [hg, e, hl, scan_skip, lastWord_snoc, hrb]

/-- positions inside a run of word characters never start a match (`\b` fails) -/
theorem scan_inside_word (cc : CharClass) (gap : Bool) (acc : List Char → Bool) {n : List Char} (hw : AllWord cc n)
    (rest : List Char) : scan cc gap acc 0 true (n ++ rest) = scan cc gap acc 0 (lastWord cc true n) rest := by
  induction n with
  | nil => rfl
  | cons d n ih =>
    have hd : cc.isWord d = true := hw d (by simp)
    simp only [List.cons_append, scan, matchAt_prev, lastWord, hd]
    exact ih (fun x hx => hw x (by simp [hx]))

theorem lastWord_allWord (cc : CharClass) {n : List Char} (hw : AllWord cc n) : lastWord cc true n = true := by
  induction n with
  | nil => rfl
  | cons d n ih =>
    simp only [lastWord, hw d (by simp)]
    exact ih (fun x hx => hw x (by simp [hx]))

/-- inside a brace-free stretch that ends with `}` nothing matches: a name would have to be
    followed by the gap and `{` -/
theorem matchAt_no_lbrace (cc : CharClass) (gap : Bool) (acc : List Char → Bool) (hrb : cc.isWord '}' = false)
    (hrbs : cc.isSpace '}' = false)
    (p : Bool) {b : List Char} (hb : '{' ∉ b) (rest : List Char) : matchAt cc gap acc p (b ++ '}' :: rest) = none := by
  cases b with
  | nil => exact matchAt_nonword cc gap acc p hrb rest
  | cons c b' =>
    -- split b at the end of its leading word run
    have key : ∀ (b : List Char), '{' ∉ b → ∃ r t, wordRun cc (b ++ '}' :: rest) = (r, t) ∧
        ∃ b2, t = b2 ++ '}' :: rest ∧ '{' ∉ b2 := by
      intro b
      induction b with
      | nil => intro _; exact ⟨[], '}' :: rest, by simp [wordRun, hrb], [], by simp, by simp⟩
      | cons d b ih =>
        intro hb
        have hb' : '{' ∉ b := fun e => hb (by simp [e])
        obtain ⟨r, t, e, hn⟩ := ih hb'
        by_cases hw : cc.isWord d = true
        · exact ⟨d :: r, t, by simp [wordRun, hw, e], hn⟩
        · exact ⟨[], d :: (b ++ '}' :: rest), by simp [wordRun, hw], d :: b, by simp, hb⟩
    obtain ⟨r, t, e, b2, rfl, hb2⟩ := key (c :: b') hb
    simp only [List.cons_append] at e
    unfold matchAt
    simp only [List.cons_append, e, gapBrace_no_lbrace cc gap hrbs hb2]
    split
    · rfl
    · split <;> rfl

theorem scan_no_lbrace (cc : CharClass) (gap : Bool) (acc : List Char → Bool) (hrb : cc.isWord '}' = false)
    (hrbs : cc.isSpace '}' = false)
    {b : List Char} (hb : '{' ∉ b) (p : Bool) (rest : List Char) :
    scan cc gap acc 0 p (b ++ '}' :: rest) = scan cc gap acc 0 false rest := by
  induction b generalizing p with
  | nil =>
    simp only [List.nil_append, scan, matchAt_nonword cc gap acc p hrb, hrb]
  | cons c b ih =>
    have hm := matchAt_no_lbrace cc gap acc hrb hrbs p hb rest
    simp only [List.cons_append] at hm
    simp only [List.cons_append, scan, hm]
    exact ih (fun e => hb (by simp [e])) _

/-- a tag whose name is not accepted is passed over entirely -/
theorem scan_tag_rejected (cc : CharClass) (gap : Bool) (acc : List Char → Bool) {name body : List Char}
    (hw : AllWord cc name) (hsp : cc.isWord ' ' = false) (hrb : cc.isWord '}' = false)
    (hlb : cc.isWord '{' = false) (hrbs : cc.isSpace '}' = false)
    (hb : '{' ∉ body) (hacc : acc name = false) (rest : List Char) :
    scan cc gap acc 0 false (name ++ ' ' :: '{' :: (body ++ '}' :: rest)) = scan cc gap acc 0 false rest := by
  cases name with
  | nil =>
    simp only [List.nil_append, scan, matchAt_nonword cc gap acc _ hsp, matchAt_nonword cc gap acc _ hlb, hsp, hlb]
    exact scan_no_lbrace cc gap acc hrb hrbs hb _ rest
  | cons c n =>
    have hm := matchAt_rejected cc gap acc hw hsp hacc false ('{' :: (body ++ '}' :: rest))
    have hc : cc.isWord c = true := hw c (by simp)
    simp only [List.cons_append] at hm ⊢
    rw [scan, hm]
    simp only [hc]
    rw [scan_inside_word cc gap acc (fun x hx => hw x (by simp [hx]))]
    simp only [scan, matchAt_nonword cc gap acc _ hsp, matchAt_nonword cc gap acc _ hlb, hsp, hlb]
    exact scan_no_lbrace cc gap acc hrb hrbs hb _ rest

/-! ### what a match looks like, on any input -/

theorem wordRun_spec (cc : CharClass) (s : List Char) :
    AllWord cc (wordRun cc s).1 ∧ s = (wordRun cc s).1 ++ (wordRun cc s).2 := by
  induction s with
  | nil => exact ⟨by intro c hc; simp [wordRun] at hc, rfl⟩
  | cons d s ih =>
    by_cases hd : cc.isWord d = true
    · simp only [wordRun, hd, if_true]
      refine ⟨?_, by rw [List.cons_append, ← ih.2]⟩
      intro c hc
      rcases List.mem_cons.mp hc with rfl | hc
      · exact hd
      · exact ih.1 c hc
    · simp only [wordRun, hd]
      exact ⟨by intro c hc; simp at hc, rfl⟩

theorem lazyBody_spec {s b : List Char} (h : lazyBody s = some b) : '}' ∉ b ∧ '\n' ∉ b ∧ ∃ r, s = b ++ '}' :: r := by
  induction s generalizing b with
  | nil => simp [lazyBody] at h
  | cons c s ih =>
    simp only [lazyBody] at h
    split at h
    · rename_i hc
      simp at h; subst h; subst hc
      exact ⟨by simp, by simp, s, rfl⟩
    · rename_i hc
      split at h
      · simp at h
      · rename_i hc2
        cases hl : lazyBody s with
        | none => rw [hl] at h; simp at h
        | some b' =>
          rw [hl] at h; simp at h; subst h
          obtain ⟨h1, h2, r, e⟩ := ih hl
          refine ⟨?_, ?_, r, by rw [e]; rfl⟩
          · intro hm; rcases List.mem_cons.mp hm with e1 | e1
            · exact hc e1.symm
            · exact h1 e1
          · intro hm; rcases List.mem_cons.mp hm with e1 | e1
            · exact hc2 e1.symm
            · exact h2 e1

theorem matchAt_spec {cc : CharClass} {gap : Bool} {acc : List Char → Bool} {p : Bool} {s : List Char} {m : List Char × List Char}
    (h : matchAt cc gap acc p s = some m) :
    m.1 ≠ [] ∧ AllWord cc m.1 ∧ '}' ∉ m.2 ∧ '\n' ∉ m.2 := by
  cases s with
  | nil => simp [matchAt] at h
  | cons c r =>
    unfold matchAt at h
    simp only at h
    split at h
    · simp at h
    · rename_i hpc
      split at h
      · simp at h
      · split at h
        · rename_i g heq
          cases hl : lazyBody g.2 with
          | none => rw [hl] at h; simp at h
          | some b =>
            rw [hl] at h
            simp at h; subst h
            obtain ⟨h1, h2, _⟩ := lazyBody_spec hl
            refine ⟨?_, (wordRun_spec cc (c :: r)).1, h1, h2⟩
            have hc : cc.isWord c = true := by
              simp only [Bool.or_eq_true, Bool.not_eq_true', not_or] at hpc
              simpa using hpc.2
            simp [wordRun, hc]
        · simp at h

theorem scan_spec (cc : CharClass) (gap : Bool) (acc : List Char → Bool) (s : List Char) (k : Nat) (p : Bool) :
    ∀ m ∈ scan cc gap acc k p s, m.1 ≠ [] ∧ AllWord cc m.1 ∧ '}' ∉ m.2 ∧ '\n' ∉ m.2 := by
  induction s generalizing k p with
  | nil => intro m hm; simp [scan] at hm
  | cons c s ih =>
    intro m hm
    cases k with
    | succ k => simp only [scan] at hm; exact ih _ _ m hm
    | zero =>
      simp only [scan] at hm
      cases hma : matchAt cc gap acc p (c :: s) with
      | none => rw [hma] at hm; exact ih _ _ m hm
      | some m' =>
        rw [hma] at hm
        simp only [List.mem_cons] at hm
        rcases hm with rfl | hm
        · exact matchAt_spec hma
        · exact ih _ _ m hm

end Pagexml.C11
