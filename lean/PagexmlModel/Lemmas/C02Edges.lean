/-
C02: how one operation changes the child lists of the store (its "edges"): nothing but the
lists of the node it constructs / grows; everything else of an operation is metadata.
-/
import PagexmlModel.Lemmas.C02Ops
import PagexmlModel.Lemmas.C02Fuel

set_option linter.unusedSimpArgs false
set_option linter.unusedVariables false

namespace Pagexml.C02

/-! ### stores with the same child lists -/

/-- same size, every node keeps its class and its child lists -/
def KidsEq (σ σ' : Store) : Prop :=
  σ'.size = σ.size ∧ ∀ k, σ'.kidsOf k = σ.kidsOf k ∧ clsOf σ' k = clsOf σ k

theorem KidsEq.rfl' (σ : Store) : KidsEq σ σ := ⟨rfl, fun _ => ⟨rfl, rfl⟩⟩

theorem KidsEq.trans {σ₁ σ₂ σ₃ : Store} (h₁ : KidsEq σ₁ σ₂) (h₂ : KidsEq σ₂ σ₃) : KidsEq σ₁ σ₃ :=
  ⟨h₂.1.trans h₁.1, fun k => ⟨(h₂.2 k).1.trans (h₁.2 k).1, (h₂.2 k).2.trans (h₁.2 k).2⟩⟩

theorem get?_none_of_ge {σ : Store} {k : Nat} (h : σ.size ≤ k) : σ.get? k = none := by
  cases g : σ.get? k with
  | none => rfl
  | some nd => have := get?_lt g; omega

theorem ShapeEq.kidsEq {σ σ' : Store} (h : ShapeEq σ σ') : KidsEq σ σ' := by
  refine ⟨h.1, fun k => ?_⟩
  cases g : σ.get? k with
  | some nd =>
    obtain ⟨nd', g', hc, hk, _⟩ := h.2 k nd g
    simp [Store.kidsOf, clsOf, g, g', hc, hk]
  | none =>
    have hk : σ.size ≤ k := Nat.le_of_not_lt (fun hlt => by
      obtain ⟨nd, e⟩ := get?_of_lt (σ := σ) (n := k) hlt
      rw [g] at e; cases e)
    have g' : σ'.get? k = none := get?_none_of_ge (by rw [h.1]; exact hk)
    simp [Store.kidsOf, clsOf, g, g']

theorem kidsEq_upd (σ : Store) (n : Nat) (f : Node → Node)
    (hf : ∀ nd, (f nd).cls = nd.cls ∧ (f nd).allKids = nd.allKids) : KidsEq σ (σ.upd n f) := by
  refine ⟨by simp, fun k => ?_⟩
  by_cases hk : k = n
  · subst hk
    cases g : σ.get? k with
    | none => simp [Store.kidsOf, clsOf, g]
    | some nd => simp [Store.kidsOf, clsOf, g, (hf nd).1, (hf nd).2]
  · simp [Store.kidsOf, clsOf, hk]

theorem kidsEq_setParent1 (σ : Store) (c p : Nat) : KidsEq σ (setParent1 σ c p) :=
  (shapeEq_setParent1 σ c p).kidsEq

theorem kidsEq_setAsParent (σ : Store) (p : Nat) (cs : List Nat) : KidsEq σ (setAsParent σ p cs) := by
  induction cs generalizing σ with
  | nil => exact KidsEq.rfl' σ
  | cons c cs ih =>
    have e : setAsParent σ p (c :: cs) = setAsParent (setParent1 σ c p) p cs := rfl
    rw [e]
    exact (kidsEq_setParent1 σ c p).trans (ih _)

theorem kidsEq_setScanId {f : Nat} {σ σ' : Store} {n : Nat} {v : MVal} (h : setScanId f σ n v = .ok σ') :
    KidsEq σ σ' := (setScanId_spec f σ n v σ' h).rel.shapeEq.kidsEq

theorem kidsEq_tick (σ : Store) (t : Nat) : KidsEq σ { σ with tick := t } := ⟨rfl, fun _ => ⟨rfl, rfl⟩⟩

theorem kidsEq_deriveCoords (σ : Store) (p : Nat) (docs : List Nat) : KidsEq σ (deriveCoords σ p docs).1 := by
  unfold deriveCoords
  split
  · exact KidsEq.rfl' σ
  · exact (kidsEq_upd σ p (fun nd => { nd with coords := some σ.tick, area := none }) (fun nd => ⟨rfl, rfl⟩)).trans
      (kidsEq_tick _ _)

theorem addTypeIf_fields (ts : List String) (nd : Node) :
    (nd.addTypeIf ts).cls = nd.cls ∧ (nd.addTypeIf ts).allKids = nd.allKids := by
  unfold Node.addTypeIf
  split <;> exact ⟨rfl, rfl⟩

/-! ### edges -/

/-- `σ'` has the nodes of `σ` (classes kept) plus at most one new one, and every child-list entry
    of `σ'` is one of `σ` or leads from `p` to a member of `cs` -/
structure Adds (σ σ' : Store) (p : Nat) (cs : List Nat) : Prop where
  size_le : σ.size ≤ σ'.size
  size_ub : σ'.size ≤ σ.size + 1
  edge : ∀ k m, m ∈ σ'.kidsOf k → m ∈ σ.kidsOf k ∨ (k = p ∧ m ∈ cs)
  cls : ∀ k, k < σ.size → clsOf σ' k = clsOf σ k

theorem KidsEq.adds {σ σ' : Store} (h : KidsEq σ σ') (p : Nat) (cs : List Nat) : Adds σ σ' p cs :=
  ⟨by rw [h.1]; exact Nat.le_refl _, by rw [h.1]; omega, fun k m hm => Or.inl ((h.2 k).1 ▸ hm), fun k _ => (h.2 k).2⟩

theorem Adds.then_eq {σ σ₁ σ₂ : Store} {p : Nat} {cs : List Nat} (a : Adds σ σ₁ p cs) (e : KidsEq σ₁ σ₂) :
    Adds σ σ₂ p cs :=
  ⟨by rw [e.1]; exact a.size_le, by rw [e.1]; exact a.size_ub,
   fun k m hm => a.edge k m ((e.2 k).1 ▸ hm), fun k hk => ((e.2 k).2).trans (a.cls k hk)⟩

theorem Adds.after_eq {σ σ₁ σ₂ : Store} {p : Nat} {cs : List Nat} (e : KidsEq σ σ₁) (a : Adds σ₁ σ₂ p cs) :
    Adds σ σ₂ p cs :=
  ⟨by rw [← e.1]; exact a.size_le, by rw [← e.1]; exact a.size_ub,
   fun k m hm => (a.edge k m hm).imp (fun h => (e.2 k).1 ▸ h) id,
   fun k hk => (a.cls k (by rw [e.1]; exact hk)).trans (e.2 k).2⟩

theorem adds_alloc (σ : Store) (nd : Node) : Adds σ (σ.alloc nd) σ.size nd.allKids := by
  refine ⟨by simp, by simp, ?_, ?_⟩
  · intro k m hm
    simp only [Store.kidsOf, get?_alloc] at hm
    by_cases hk : k = σ.size
    · simp only [hk, if_true] at hm; exact Or.inr ⟨hk, hm⟩
    · simp only [hk, if_false] at hm; exact Or.inl hm
  · intro k hk
    simp only [clsOf, get?_alloc]
    have : k ≠ σ.size := by omega
    simp [this]

/-- growing one child list of `p`: the new list holds what the old one held and `cs` -/
theorem adds_upd (σ : Store) (p : Nat) (f : Node → Node) (cs : List Nat)
    (hf : ∀ nd, (f nd).cls = nd.cls ∧ ∀ m ∈ (f nd).allKids, m ∈ nd.allKids ∨ m ∈ cs) : Adds σ (σ.upd p f) p cs := by
  refine ⟨by simp, by simp, ?_, ?_⟩
  · intro k m hm
    by_cases hk : k = p
    · subst hk
      cases g : σ.get? k with
      | none => simp [Store.kidsOf, g] at hm
      | some nd =>
        simp only [Store.kidsOf, get?_upd, if_true, g, Option.map_some] at hm
        rcases (hf nd).2 m hm with h | h
        · exact Or.inl (by simp [Store.kidsOf, g, h])
        · exact Or.inr ⟨rfl, h⟩
    · simp only [Store.kidsOf, get?_upd, hk, if_false] at hm
      exact Or.inl hm
  · intro k _
    by_cases hk : k = p
    · subst hk
      cases g : σ.get? k with
      | none => simp [clsOf, g]
      | some nd => simp [clsOf, g, (hf nd).1]
    · simp [clsOf, hk]

theorem mem_allKids {nd : Node} {m : Nat} :
    m ∈ nd.allKids ↔ m ∈ nd.pages ∨ m ∈ nd.columns ∨ m ∈ nd.extra ∨ m ∈ nd.regions ∨ m ∈ nd.tables ∨ m ∈ nd.rows
      ∨ m ∈ nd.cells ∨ m ∈ nd.lines ∨ m ∈ nd.words := by
  simp only [Node.allKids, List.mem_append]
  grind

/-! ### the constructors -/

theorem adds_alloc' (σ : Store) (nd : Node) (cs : List Nat) (h : nd.allKids = cs) : Adds σ (σ.alloc nd) σ.size cs :=
  h ▸ adds_alloc σ nd

theorem addTypeIf_allKids (ts : List String) (nd : Node) : (nd.addTypeIf ts).allKids = nd.allKids :=
  (addTypeIf_fields ts nd).2

theorem adds_mkWord (σ : Store) (a : Args) : Adds σ (mkWord σ a).1 σ.size [] := by
  unfold mkWord
  refine adds_alloc' σ _ _ ?_
  rw [addTypeIf_allKids]
  simp [Node.allKids, docInit, physInit, structInit, Node.addType]

theorem adds_mkLine (σ : Store) (a : Args) (ws : List Nat) : Adds σ (mkLine σ a ws).1 σ.size ws := by
  unfold mkLine
  simp only
  refine Adds.then_eq ?_ (kidsEq_upd _ _ _ (addTypeIf_fields _))
  refine Adds.then_eq ?_ (kidsEq_setAsParent _ _ _)
  refine adds_alloc' σ _ _ ?_
  simp [setMeta, Node.allKids, docInit, physInit, structInit, Node.addType]

theorem adds_mkRow (σ : Store) (a : Args) (cs : List Nat) : Adds σ (mkRow σ a cs).1 σ.size cs := by
  unfold mkRow
  split
  · exact (KidsEq.rfl' σ).adds _ _
  · refine adds_alloc' σ _ _ ?_
    rw [addTypeIf_allKids]
    simp [Node.allKids, docInit, physInit, structInit, Node.addType]

theorem adds_mkTable (σ : Store) (a : Args) (rs : List Nat) : Adds σ (mkTable σ a rs).1 σ.size rs := by
  unfold mkTable
  refine adds_alloc' σ _ _ ?_
  rw [addTypeIf_allKids]
  simp [Node.allKids, docInit, physInit, structInit, Node.addType]

theorem adds_mkCell (σ : Store) (a : Args) (ls : List Nat) : Adds σ (mkCell σ a ls).1 σ.size ls := by
  unfold mkCell
  simp only
  have h1 : Adds σ (setAsParent (σ.alloc { docInit .cell a "table_cell" with mainType := "table_cell", lines := ls }) σ.size ls)
      σ.size ls := by
    refine Adds.then_eq ?_ (kidsEq_setAsParent _ _ _)
    refine adds_alloc' σ _ _ ?_
    simp [Node.allKids, docInit, physInit, structInit, Node.addType]
  exact h1.then_eq (kidsEq_upd _ _ _ (addTypeIf_fields _))

theorem adds_regionInit (σ : Store) (cls : Cls) (a : Args) (dt : List String) (nd0 : Node) :
    Adds σ (regionInit σ cls a dt nd0) σ.size
      (nd0.pages ++ nd0.columns ++ nd0.extra ++ nd0.regions ++ nd0.tables ++ nd0.lines) := by
  unfold regionInit
  simp only
  refine Adds.then_eq ?_ (kidsEq_upd _ _ _ (addTypeIf_fields _))
  refine Adds.then_eq ?_ (kidsEq_setAsParent _ _ _)
  refine Adds.then_eq ?_ (kidsEq_setAsParent _ _ _)
  refine Adds.then_eq ?_ (kidsEq_setAsParent _ _ _)
  refine adds_alloc' σ _ _ ?_
  simp [Node.allKids, docInit, physInit, structInit, Node.addType]

theorem Adds.weaken {σ σ' : Store} {p : Nat} {cs cs' : List Nat} (a : Adds σ σ' p cs) (h : ∀ m ∈ cs, m ∈ cs') :
    Adds σ σ' p cs' :=
  ⟨a.size_le, a.size_ub, fun k m hm => (a.edge k m hm).imp id (fun ⟨e, hm⟩ => ⟨e, h m hm⟩), a.cls⟩

theorem adds_mkRegion (σ : Store) (col : Bool) (a : Args) (ls rs ts : List Nat) :
    Adds σ (mkRegion σ col a ls rs ts).1 σ.size (ls ++ rs ++ ts) := by
  unfold mkRegion
  cases col with
  | true =>
    simp only [if_true]
    refine Adds.then_eq ?_ (kidsEq_upd _ _ _ (addTypeIf_fields _))
    refine Adds.then_eq ?_ (kidsEq_upd _ _ _ (fun nd => ⟨rfl, rfl⟩))
    refine (adds_regionInit σ .column a ["column"] (kidsRec ls rs ts [] [] [])).weaken ?_
    intro m hm; simp [kidsRec] at hm ⊢; grind
  | false =>
    simp only [Bool.false_eq_true, if_false]
    refine (adds_regionInit σ .region a a.dtype (kidsRec ls rs ts [] [] [] a.text)).weaken ?_
    intro m hm; simp [kidsRec] at hm ⊢; grind

theorem adds_mkPage (σ : Store) (a : Args) (ls rs ts cols ex : List Nat) :
    Adds σ (mkPage σ a ls rs ts cols ex).1 σ.size (ls ++ rs ++ ts ++ cols ++ ex) := by
  unfold mkPage
  simp only
  refine Adds.then_eq ?_ (kidsEq_upd _ _ _ (addTypeIf_fields _))
  refine Adds.then_eq ?_ (kidsEq_setAsParent _ _ _)
  refine Adds.then_eq ?_ (kidsEq_setAsParent _ _ _)
  refine Adds.then_eq ?_ (kidsEq_upd _ _ _ (fun nd => ⟨rfl, rfl⟩))
  refine (adds_regionInit σ .page a ["page"] (kidsRec ls rs ts cols ex [])).weaken ?_
  intro m hm; simp [kidsRec] at hm ⊢; grind

/-- the store `PageXMLScan(...)` has built when it calls `set_scan_id` -/
def scanPre (σ : Store) (a : Args) (ls rs ts cols pages : List Nat) : Store :=
  (setAsParent (setAsParent ((regionInit σ .scan a ["scan"] (kidsRec ls rs ts cols [] pages)).upd σ.size
    (fun nd => { nd with mainType := "scan" })) σ.size pages) σ.size cols).upd σ.size (·.addTypeIf a.dtype)

theorem adds_scanPre (σ : Store) (a : Args) (ls rs ts cols pages : List Nat) :
    Adds σ (scanPre σ a ls rs ts cols pages) σ.size (ls ++ rs ++ ts ++ cols ++ pages) := by
  unfold scanPre
  refine Adds.then_eq ?_ (kidsEq_upd _ _ _ (addTypeIf_fields _))
  refine Adds.then_eq ?_ (kidsEq_setAsParent _ _ _)
  refine Adds.then_eq ?_ (kidsEq_setAsParent _ _ _)
  refine Adds.then_eq ?_ (kidsEq_upd _ _ _ (fun nd => ⟨rfl, rfl⟩))
  refine (adds_regionInit σ .scan a ["scan"] (kidsRec ls rs ts cols [] pages)).weaken ?_
  intro m hm; simp [kidsRec] at hm ⊢; grind

theorem mkScan_eq (σ : Store) (a : Args) (ls rs ts cols pages : List Nat) :
    mkScan σ a ls rs ts cols pages
      = (setScanId ((scanPre σ a ls rs ts cols pages).size + 1) (scanPre σ a ls rs ts cols pages) σ.size a.id).map
          (fun τ => (τ, Out.node σ.size)) := by
  unfold mkScan scanPre
  simp only [bind, Except.bind, pure, Except.pure, Except.map]

theorem adds_mkScan {σ σ' : Store} {o : Out} (a : Args) (ls rs ts cols pages : List Nat)
    (h : mkScan σ a ls rs ts cols pages = .ok (σ', o)) :
    Adds σ σ' σ.size (ls ++ rs ++ ts ++ cols ++ pages) := by
  rw [mkScan_eq] at h
  cases hs : setScanId ((scanPre σ a ls rs ts cols pages).size + 1) (scanPre σ a ls rs ts cols pages) σ.size a.id with
  | error e => rw [hs] at h; simp [Except.map] at h
  | ok τ =>
    rw [hs] at h
    simp only [Except.map, Except.ok.injEq, Prod.mk.injEq] at h
    rw [← h.1]
    exact (adds_scanPre σ a ls rs ts cols pages).then_eq (kidsEq_setScanId hs)


/-! ### add_child, the parser's attach statements -/

theorem kidsEq_propagateScanId {σ σ' : Store} {p c : Nat} (h : propagateScanId σ p c = .ok σ') : KidsEq σ σ' := by
  unfold propagateScanId at h
  split at h
  · cases h
  · split at h
    · cases h; exact KidsEq.rfl' σ
    · exact kidsEq_setScanId h

theorem kidsEq_finishAdd {σ σ' : Store} {o : Out} {p c : Nat} {d : Node → List Nat}
    (h : finishAdd σ p c d = .ok (σ', o)) : KidsEq σ σ' := by
  unfold finishAdd at h
  cases hp : propagateScanId σ p c with
  | error e => rw [hp] at h; cases h
  | ok τ =>
    rw [hp] at h
    simp only [bind, Except.bind] at h
    split at h
    · cases h
    · rename_i pn _
      simp only [pure, Except.pure, Except.ok.injEq] at h
      have e : σ' = (deriveCoords τ p (d pn)).1 := by rw [h]
      rw [e]
      exact (kidsEq_propagateScanId hp).trans (kidsEq_deriveCoords _ _ _)

theorem adds_lines (σ : Store) (p c : Nat) : Adds σ (σ.upd p (fun nd => { nd with lines := nd.lines ++ [c] })) p [c] :=
  adds_upd σ p _ [c] (fun nd => ⟨rfl, fun m hm => by simp only [mem_allKids, List.mem_append, List.mem_singleton] at hm ⊢; grind⟩)
theorem adds_regions (σ : Store) (p c : Nat) : Adds σ (σ.upd p (fun nd => { nd with regions := nd.regions ++ [c] })) p [c] :=
  adds_upd σ p _ [c] (fun nd => ⟨rfl, fun m hm => by simp only [mem_allKids, List.mem_append, List.mem_singleton] at hm ⊢; grind⟩)
theorem adds_columns (σ : Store) (p c : Nat) : Adds σ (σ.upd p (fun nd => { nd with columns := nd.columns ++ [c] })) p [c] :=
  adds_upd σ p _ [c] (fun nd => ⟨rfl, fun m hm => by simp only [mem_allKids, List.mem_append, List.mem_singleton] at hm ⊢; grind⟩)
theorem adds_extra (σ : Store) (p c : Nat) : Adds σ (σ.upd p (fun nd => { nd with extra := nd.extra ++ [c] })) p [c] :=
  adds_upd σ p _ [c] (fun nd => ⟨rfl, fun m hm => by simp only [mem_allKids, List.mem_append, List.mem_singleton] at hm ⊢; grind⟩)
theorem adds_pages (σ : Store) (p c : Nat) : Adds σ (σ.upd p (fun nd => { nd with pages := nd.pages ++ [c] })) p [c] :=
  adds_upd σ p _ [c] (fun nd => ⟨rfl, fun m hm => by simp only [mem_allKids, List.mem_append, List.mem_singleton] at hm ⊢; grind⟩)

/-- the store in which `add_child` of a region / column calls `set_scan_id` and derives coordinates -/
def regionGrown (σ : Store) (p c : Nat) (cc : Cls) : Store :=
  if cc = .line then (setParent1 σ c p).upd p (fun nd => { nd with lines := nd.lines ++ [c] })
  else setAsParent ((setParent1 σ c p).upd p (fun nd => { nd with regions := nd.regions ++ [c] })) p [c]

theorem adds_regionGrown (σ : Store) (p c : Nat) (cc : Cls) : Adds σ (regionGrown σ p c cc) p [c] := by
  unfold regionGrown
  split
  · exact Adds.after_eq (kidsEq_setParent1 σ c p) (adds_lines _ p c)
  · exact (Adds.after_eq (kidsEq_setParent1 σ c p) (adds_regions _ p c)).then_eq (kidsEq_setAsParent _ _ _)

theorem addChildRegion_eq (σ : Store) (p c : Nat) (cc : Cls) :
    addChildRegion σ p c cc =
      if cc = .line ∨ cc.isRegion = true then finishAdd (regionGrown σ p c cc) p c (fun pn => pn.regions ++ pn.lines)
      else .ok (setParent1 σ c p, .raised .TypeError) := by
  cases cc <;> simp [addChildRegion, regionGrown, Cls.isRegion]

theorem adds_addChildRegion {σ σ' : Store} {o : Out} {p c : Nat} {cc : Cls}
    (h : addChildRegion σ p c cc = .ok (σ', o)) : Adds σ σ' p [c] := by
  rw [addChildRegion_eq] at h
  split at h
  · exact (adds_regionGrown σ p c cc).then_eq (kidsEq_finishAdd h)
  · simp only [Except.ok.injEq, Prod.mk.injEq] at h
    rw [← h.1]; exact (kidsEq_setParent1 σ c p).adds _ _

/-- the store in which `PageXMLPage.add_child` calls `set_scan_id` and derives coordinates -/
def pageGrown (σ : Store) (p c : Nat) (cc : Cls) (asExtra : Bool) : Store :=
  if asExtra && cc.isRegion then (setParent1 σ c p).upd p (fun nd => { nd with extra := nd.extra ++ [c] })
  else if cc = .column then (setParent1 σ c p).upd p (fun nd => { nd with columns := nd.columns ++ [c] })
  else if cc = .line then (setParent1 σ c p).upd p (fun nd => { nd with lines := nd.lines ++ [c] })
  else (setParent1 σ c p).upd p (fun nd => { nd with regions := nd.regions ++ [c] })

theorem adds_pageGrown (σ : Store) (p c : Nat) (cc : Cls) (asExtra : Bool) : Adds σ (pageGrown σ p c cc asExtra) p [c] := by
  unfold pageGrown
  split
  · exact Adds.after_eq (kidsEq_setParent1 σ c p) (adds_extra _ p c)
  · split
    · exact Adds.after_eq (kidsEq_setParent1 σ c p) (adds_columns _ p c)
    · split
      · exact Adds.after_eq (kidsEq_setParent1 σ c p) (adds_lines _ p c)
      · exact Adds.after_eq (kidsEq_setParent1 σ c p) (adds_regions _ p c)

theorem addChildPage_eq (σ : Store) (p c : Nat) (cc : Cls) (asExtra : Bool) :
    addChildPage σ p c cc asExtra =
      if (asExtra && cc.isRegion) = true ∨ cc = .column ∨ cc = .line ∨ cc.isRegion = true then
        finishAdd (pageGrown σ p c cc asExtra) p c pageDocs
      else .ok (setParent1 σ c p, .raised .TypeError) := by
  cases asExtra <;> cases cc <;> simp [addChildPage, pageGrown, Cls.isRegion]

theorem adds_addChildPage {σ σ' : Store} {o : Out} {p c : Nat} {cc : Cls} {asExtra : Bool}
    (h : addChildPage σ p c cc asExtra = .ok (σ', o)) : Adds σ σ' p [c] := by
  rw [addChildPage_eq] at h
  split at h
  · exact (adds_pageGrown σ p c cc asExtra).then_eq (kidsEq_finishAdd h)
  · simp only [Except.ok.injEq, Prod.mk.injEq] at h
    rw [← h.1]; exact (kidsEq_setParent1 σ c p).adds _ _

/-- the store in which `PageXMLScan.add_child` calls `set_scan_id` -/
def scanGrown (σ : Store) (p c : Nat) (cc : Cls) : Store :=
  if cc = .page then (setParent1 σ c p).upd p (fun nd => { nd with pages := nd.pages ++ [c] })
  else if cc = .column then (setParent1 σ c p).upd p (fun nd => { nd with columns := nd.columns ++ [c] })
  else if cc.isRegion then (setParent1 σ c p).upd p (fun nd => { nd with regions := nd.regions ++ [c] })
  else if cc = .line then (setParent1 σ c p).upd p (fun nd => { nd with lines := nd.lines ++ [c] })
  else setParent1 σ c p

theorem adds_scanGrown (σ : Store) (p c : Nat) (cc : Cls) : Adds σ (scanGrown σ p c cc) p [c] := by
  unfold scanGrown
  split
  · exact Adds.after_eq (kidsEq_setParent1 σ c p) (adds_pages _ p c)
  · split
    · exact Adds.after_eq (kidsEq_setParent1 σ c p) (adds_columns _ p c)
    · split
      · exact Adds.after_eq (kidsEq_setParent1 σ c p) (adds_regions _ p c)
      · split
        · exact Adds.after_eq (kidsEq_setParent1 σ c p) (adds_lines _ p c)
        · exact (kidsEq_setParent1 σ c p).adds _ _

theorem addChildScan_eq (σ : Store) (p c : Nat) (cc : Cls) :
    addChildScan σ p c cc =
      match (scanGrown σ p c cc).get? p with
      | none => .error .KeyError
      | some pn => (setScanId ((scanGrown σ p c cc).size + 1) (scanGrown σ p c cc) c pn.id).map (fun τ => (τ, Out.unit)) := by
  unfold addChildScan scanGrown
  simp only [bind, Except.bind, pure, Except.pure, Except.map]
  rfl

theorem adds_addChildScan {σ σ' : Store} {o : Out} {p c : Nat} {cc : Cls}
    (h : addChildScan σ p c cc = .ok (σ', o)) : Adds σ σ' p [c] := by
  rw [addChildScan_eq] at h
  split at h
  · cases h
  · rename_i pn _
    cases hs : setScanId ((scanGrown σ p c cc).size + 1) (scanGrown σ p c cc) c pn.id with
    | error e => rw [hs] at h; simp [Except.map] at h
    | ok τ =>
      rw [hs] at h
      simp only [Except.map, Except.ok.injEq, Prod.mk.injEq] at h
      rw [← h.1]
      exact (adds_scanGrown σ p c cc).then_eq (kidsEq_setScanId hs)

theorem adds_attachLines (σ : Store) (p : Nat) (cs : List Nat) :
    Adds σ (setAsParent (σ.upd p (fun nd => { nd with lines := cs })) p cs) p cs :=
  (adds_upd σ p (fun nd => { nd with lines := cs }) cs (fun nd => ⟨rfl, fun m hm => by simp only [mem_allKids] at hm ⊢; grind⟩)).then_eq (kidsEq_setAsParent _ _ _)
theorem adds_attachRegions (σ : Store) (p : Nat) (cs : List Nat) :
    Adds σ (setAsParent (σ.upd p (fun nd => { nd with regions := cs })) p cs) p cs :=
  (adds_upd σ p (fun nd => { nd with regions := cs }) cs (fun nd => ⟨rfl, fun m hm => by simp only [mem_allKids] at hm ⊢; grind⟩)).then_eq (kidsEq_setAsParent _ _ _)
theorem adds_attachRows (σ : Store) (p : Nat) (cs : List Nat) :
    Adds σ (setAsParent (σ.upd p (fun nd => { nd with rows := cs })) p cs) p cs :=
  (adds_upd σ p (fun nd => { nd with rows := cs }) cs (fun nd => ⟨rfl, fun m hm => by simp only [mem_allKids] at hm ⊢; grind⟩)).then_eq (kidsEq_setAsParent _ _ _)

/-! ### every operation -/

/-- the node whose child lists an operation writes -/
def Op.source (σ : Store) : Op → Nat
  | .addChild p _ _ => p
  | .attachLines p _ => p
  | .attachRegions p _ => p
  | .attachRows p _ => p
  | _ => σ.size

/-- what it may put there -/
def Op.targets : Op → List Nat
  | .addChild _ c _ => [c]
  | .attachLines _ cs => cs
  | .attachRegions _ cs => cs
  | .attachRows _ cs => cs
  | op => op.newKids

theorem step_refs {σ σ' : Store} {op : Op} {o : Out} (h : step σ op = .ok (σ', o)) : op.refs.all σ.has = true := by
  unfold step at h
  split at h
  · cases h
  · rename_i hr; simpa using hr

/-- **one operation only writes the child lists of one node**: the node it constructs, or the
    container it is asked to grow -/
theorem step_adds {σ σ' : Store} {op : Op} {o : Out} (hinv : Inv σ) (h : step σ op = .ok (σ', o)) :
    Adds σ σ' (op.source σ) op.targets := by
  have hrefs := step_refs h
  unfold step at h
  rw [hrefs] at h
  simp only [Bool.not_true, Bool.false_eq_true, if_false] at h
  cases op with
  | mkWord a =>
    simp only [Except.ok.injEq] at h
    rw [show σ' = (mkWord σ a).1 from by rw [h]]; exact adds_mkWord σ a
  | mkLine a ws =>
    simp only [Except.ok.injEq] at h
    rw [show σ' = (mkLine σ a ws).1 from by rw [h]]; exact adds_mkLine σ a ws
  | mkRegion col a ls rs ts =>
    simp only [Except.ok.injEq] at h
    rw [show σ' = (mkRegion σ col a ls rs ts).1 from by rw [h]]; exact adds_mkRegion σ col a ls rs ts
  | mkPage a ls rs ts cols ex =>
    simp only [Except.ok.injEq] at h
    rw [show σ' = (mkPage σ a ls rs ts cols ex).1 from by rw [h]]; exact adds_mkPage σ a ls rs ts cols ex
  | mkScan a ls rs ts cols pages => exact adds_mkScan a ls rs ts cols pages h
  | mkCell a ls =>
    simp only [Except.ok.injEq] at h
    rw [show σ' = (mkCell σ a ls).1 from by rw [h]]; exact adds_mkCell σ a ls
  | mkRow a cs =>
    simp only [Except.ok.injEq] at h
    rw [show σ' = (mkRow σ a cs).1 from by rw [h]]; exact adds_mkRow σ a cs
  | mkTable a rs =>
    simp only [Except.ok.injEq] at h
    rw [show σ' = (mkTable σ a rs).1 from by rw [h]]; exact adds_mkTable σ a rs
  | addChild p c asExtra =>
    simp only [Op.source, Op.targets]
    have hr : ∀ x ∈ (Op.addChild p c asExtra).refs, σ.has x = true := fun x hx => List.all_eq_true.mp hrefs x hx
    obtain ⟨pn, gp⟩ := get?_of_lt (has_iff.mp (hr p (by simp [Op.refs])))
    obtain ⟨cn, gc⟩ := get?_of_lt (has_iff.mp (hr c (by simp [Op.refs])))
    simp only [clsOf, gp, gc, Option.map_some] at h
    cases hcl : pn.cls <;> simp only [hcl] at h
    case region => exact adds_addChildRegion h
    case column => exact adds_addChildRegion h
    case page => exact adds_addChildPage h
    case scan => exact adds_addChildScan h
    all_goals
      simp only [Except.ok.injEq, Prod.mk.injEq] at h
      rw [← h.1]; exact (KidsEq.rfl' σ).adds _ _
  | setParent c p =>
    simp only [Except.ok.injEq, Prod.mk.injEq] at h
    rw [← h.1]; exact (kidsEq_setParent1 σ c p).adds _ _
  | setAsParent p cs =>
    simp only [Except.ok.injEq, Prod.mk.injEq] at h
    rw [← h.1]; exact (kidsEq_setAsParent σ p cs).adds _ _
  | attachLines p cs =>
    simp only [Except.ok.injEq, Prod.mk.injEq] at h
    rw [← h.1]; exact adds_attachLines σ p cs
  | attachRegions p cs =>
    simp only [Except.ok.injEq, Prod.mk.injEq] at h
    rw [← h.1]; exact adds_attachRegions σ p cs
  | attachRows p cs =>
    simp only [Except.ok.injEq, Prod.mk.injEq] at h
    rw [← h.1]; exact adds_attachRows σ p cs
  | setParentage p =>
    simp only [] at h
    cases hsp : setParentage (σ.size + 1) σ p with
    | error e => rw [hsp] at h; cases h
    | ok σ₁ =>
      rw [hsp] at h
      simp only [bind, Except.bind, pure, Except.pure, Except.ok.injEq, Prod.mk.injEq] at h
      rw [← h.1]
      exact (inv_setParentage _ _ _ _ hinv hsp).2.kidsEq.adds _ _
  | addType n ts =>
    simp only [Except.ok.injEq, Prod.mk.injEq] at h
    rw [← h.1]; exact (kidsEq_upd σ n (·.addType ts) (fun nd => ⟨rfl, rfl⟩)).adds _ _
  | removeType n ts =>
    simp only [Except.ok.injEq, Prod.mk.injEq] at h
    rw [← h.1]; exact (kidsEq_upd σ n (·.removeType ts) (fun nd => ⟨rfl, rfl⟩)).adds _ _
  | hasType n t =>
    simp only [] at h
    cases hg : σ.get? n with
    | none => rw [hg] at h; cases h
    | some nd =>
      rw [hg] at h
      simp only [Except.ok.injEq, Prod.mk.injEq] at h
      rw [← h.1]; exact (KidsEq.rfl' σ).adds _ _
  | types n =>
    simp only [] at h
    cases hg : σ.get? n with
    | none => rw [hg] at h; cases h
    | some nd =>
      rw [hg] at h
      simp only [Except.ok.injEq, Prod.mk.injEq] at h
      rw [← h.1]; exact (KidsEq.rfl' σ).adds _ _
  | setFilename n v =>
    simp only [Except.ok.injEq, Prod.mk.injEq] at h
    rw [← h.1]; exact (kidsEq_upd σ n (setMeta "filename" (.str v)) (fun nd => ⟨rfl, rfl⟩)).adds _ _

end Pagexml.C02
