/-
What the C18 theorems need to know about the literals and defaults regenerated from the source
(Generated/C18.lean).  Every other proof of Lemmas/C18*.lean and Props/C18.lean treats them as
unknown numbers (it goes through for every value), except for the RELATIONS stated here, each
decided on the regenerated table: an edit of the source that breaks one of them breaks exactly
that obligation (and what is built on it).
-/
import PagexmlModel.Model.C18

namespace Pagexml.C18

open Generated.C18 (withinThr colHOverlapThr)

/-- two covered pixels next to each other are never a gap: `N ≥ 2` in `max(gap_threshold, N)`
    (with `N ≤ 1` and a threshold of 1 every pixel would be an interval of its own) -/
theorem consts_min_gap_ge_two : 2 ≤ gapMin := by decide

/-- the recursive call of handle_extra_lines asks for a minimum column width that (a) does not pass
    the guard around the recursive call again — the recursion has depth 2 — and (b) is not positive, so that
    it filters no gap interval away — no line is left over a second time; and the guard lets the recursive
    call happen whenever a positive minimum width can have left lines over -/
theorem consts_recursion_stops : recMcw ≤ recGuard ∧ recGuard ≤ 0 := by decide

/-- the overlap threshold of within_column is a fraction in `[1/2, 1)`: a line lying inside a range is
    within it, and a line cannot be within two disjoint ranges -/
theorem consts_within_threshold :
    0 < withinThr.2 ∧ withinThr.1 < withinThr.2 ∧ withinThr.2 ≤ 2 * withinThr.1 := by decide

/-- the threshold with which is_horizontally_overlapping is reached is not negative: columns without
    horizontal overlap are not "overlapping" -/
theorem consts_col_overlap_threshold_nonneg : 0 ≤ colHOverlapThr.1 ∧ 0 < colHOverlapThr.2 := by decide

/-! ### consequences for `ratioGt`, for every ratio with the property named -/

theorem ratioGt_zero {d : Int} {r : Int × Int} (hr : 0 ≤ r.1) (hd : 0 ≤ d) : ratioGt 0 d r = false := by
  simp only [ratioGt, Int.zero_mul, gt_iff_lt, decide_eq_false_iff_not, Int.not_lt]
  exact Int.mul_nonneg hr hd

theorem ratioGt_self {d : Int} {r : Int × Int} (hr : r.1 < r.2) (hd : 0 < d) : ratioGt d d r = true := by
  simp only [ratioGt, decide_eq_true_eq, gt_iff_lt]
  rw [Int.mul_comm r.1 d]
  exact Int.mul_lt_mul_of_pos_left hr hd

/-- above a ratio of at least one half means: more than half -/
theorem ratioGt_half {a d : Int} {r : Int × Int} (hq : 0 < r.2) (hr : r.2 ≤ 2 * r.1) (hd : 0 ≤ d)
    (h : ratioGt a d r = true) : a * 2 > d := by
  simp only [ratioGt, decide_eq_true_eq, gt_iff_lt] at h
  -- r.1 * d < a * r.2 and r.2 ≤ 2 r.1:  r.2 * d ≤ 2 r.1 d < 2 a r.2, so d < 2 a
  have h1 : r.2 * d ≤ 2 * r.1 * d := Int.mul_le_mul_of_nonneg_right hr hd
  have h2 : 2 * r.1 * d < r.2 * (a * 2) := by
    have : 2 * (r.1 * d) < 2 * (a * r.2) := by omega
    calc 2 * r.1 * d = 2 * (r.1 * d) := by rw [Int.mul_assoc]
      _ < 2 * (a * r.2) := this
      _ = r.2 * (a * 2) := by rw [Int.mul_comm a r.2, Int.mul_comm a 2, ← Int.mul_assoc, ← Int.mul_assoc,
                                  Int.mul_comm 2 r.2]
  have h3 : r.2 * d < r.2 * (a * 2) := Int.lt_of_le_of_lt h1 h2
  exact Int.lt_of_mul_lt_mul_left h3 (Int.le_of_lt hq)

end Pagexml.C18
