/-
C07: the export succeeds exactly when `exp*` holds, and then returns the pure tree `*Tree`
(`Model/C07Parse.lean`).  Together with `Lemmas/C07Shape.lean`:
`exportDocG false d = .ok x ↔ expScan s ∧ x = scanTree s` for `asScan d = some s`.
-/
import PagexmlModel.Lemmas.C07Shape

set_option linter.unusedSimpArgs false
set_option linter.unusedVariables false

namespace Pagexml.C07
open Pagexml.C06

theorem bind_ok_iff {α β} (r : Res α) (f : α → Res β) (b : β) :
    (r >>= f) = .ok b ↔ ∃ a, r = .ok a ∧ f a = .ok b := by
  cases r with
  | error e => simp
  | ok a => simp

@[simp] theorem okB_ok {α} (a : α) : okB (Except.ok a : Res α) = true := rfl
@[simp] theorem okB_error {α} (e : Err) : okB (Except.error e : Res α) = false := rfl

theorem okB_iff {α} (r : Res α) : okB r = true ↔ ∃ a, r = .ok a := by
  cases r <;> simp [okB]

/-! ### attributes -/

theorem pyStr_ok_iff (v : PyVal) (s : String) : pyStr v = .ok s ↔ okB (pyStr v) = true ∧ s = pyStrT v := by
  unfold pyStrT
  cases h : pyStr v with
  | error e => simp [okB]
  | ok t => simp [okB, eq_comm]

theorem idAttr_iff (id : PyVal) (a : List (String × String)) :
    (match id with
      | .none => (pure [] : Res (List (String × String)))
      | v => do pure [("id", ← needStr v)]) = .ok a ↔ idOk id = true ∧ a = idAttrs id := by
  cases id <;> simp [idOk, idAttrs, idStr, needStr, eq_comm]

theorem customAttr_iff (md : Meta) (a : List (String × String)) :
    (do match ← customString (customOf md) with
        | some s => pure [("custom", s)]
        | none => (pure [] : Res (List (String × String)))) = .ok a
      ↔ okB (customString (customOf md)) = true ∧ a = customAttrs md := by
  unfold customAttrs customStr
  cases h : customString (customOf md) with
  | error e => simp [okB]
  | ok o => cases o <;> simp [okB, eq_comm]

theorem docAttrs_iff (o : PyVal) (a : List (String × String)) :
    ((docAttributes o).mapM fun kv => do pure (kv.1, ← pyStr kv.2)) = .ok a
      ↔ (!o.truthy || okB (pyStr o)) = true ∧ a = orientAttrs o := by
  unfold docAttributes orientAttrs
  by_cases ht : o.truthy = true
  · simp only [ht, if_true, List.mapM_cons, List.mapM_nil, Bool.not_true, Bool.false_or]
    cases h : pyStr o with
    | error e => simp [okB]
    | ok s => simp [okB, pyStrT, h, eq_comm]
  · have ht' : o.truthy = false := by simpa using ht
    simp [ht', eq_comm]

theorem elemAttrs_iff (h : Hdr) (o : PyVal) (a : List (String × String)) :
    elemAttrs h.id (some (customOf h.md)) (docAttributes o) = .ok a
      ↔ (expHdr h && (!o.truthy || okB (pyStr o))) = true ∧ a = idAttrs h.id ++ customAttrs h.md ++ orientAttrs o := by
  obtain ⟨id, ty, md, co⟩ := h
  have hd := docAttrs_iff o
  unfold elemAttrs
  generalize ((docAttributes o).mapM fun kv => do pure (kv.1, ← pyStr kv.2)) = m at hd ⊢
  cases hc : customString (customOf md) with
  | error e =>
    have hco : okB (customString (customOf md)) = false := by rw [hc]; rfl
    cases id <;> simp [expHdr, hc, needStr, idOk]
  | ok oc =>
    have hco : okB (customString (customOf md)) = true := by rw [hc]; rfl
    have hcs : customStr md = oc := by simp [customStr, hc]
    cases m with
    | error e =>
      have hn : (!o.truthy || okB (pyStr o)) = false := by
        cases hh : (!o.truthy || okB (pyStr o)) with
        | false => rfl
        | true => have := (hd (orientAttrs o)).2 ⟨hh, rfl⟩; simp at this
      cases id <;> cases oc <;> simp [expHdr, hc, needStr, idOk, hn]
    | ok a3 =>
      obtain ⟨h3, rfl⟩ := (hd a3).1 rfl
      cases id <;> cases oc <;>
        simp [expHdr, hc, needStr, idOk, h3, idAttrs, idStr, customAttrs, hcs] <;>
        (constructor <;> intro hh <;> exact hh.symm)

theorem elemAttrs_plain_iff (h : Hdr) (a : List (String × String)) :
    elemAttrs h.id (some (customOf h.md)) [] = .ok a ↔ expHdr h = true ∧ a = idAttrs h.id ++ customAttrs h.md := by
  have := elemAttrs_iff h .none a
  simpa [docAttributes, orientAttrs, PyVal.truthy] using this

/-! ### children -/

theorem coordsChild_false (name : String) (c : Option Pts) : coordsChild false name c = .ok (coordsKids c) := by
  cases c <;> simp [coordsChild, coordsKids]

theorem baselineChild_false (name : String) (c : Option Pts) : baselineChild false name c = .ok (baselineKids c) := by
  cases c <;> simp [baselineChild, baselineKids]

theorem confAttr_iff (conf : PyVal) (a : List (String × String)) :
    confAttr conf = .ok a ↔ okB (pyStr conf) = true ∧ a = confAttrs conf := by
  cases conf <;> simp [confAttr, confAttrs, confStr, pyStr, okB, eq_comm]

theorem textEquiv_iff (text : Option String) (conf : PyVal) (x : Xml) :
    textEquiv text conf = .ok x ↔ okB (pyStr conf) = true ∧
      x = ⟨"TextEquiv", confAttrs conf, none, [⟨"Unicode", [], text, []⟩, ⟨"PlainText", [], text, []⟩]⟩ := by
  unfold textEquiv
  simp only [bind_ok_iff, confAttr_iff, pure_eq_ok, Except.ok.injEq]
  constructor
  · rintro ⟨a, ⟨h, rfl⟩, rfl⟩; exact ⟨h, rfl⟩
  · rintro ⟨h, rfl⟩; exact ⟨_, ⟨h, rfl⟩, rfl⟩

theorem pyStr_none_ok : okB (pyStr .none) = true := rfl

/-- add_pagexml_text on a Word / TextLine element -/
theorem textChild_self_iff (name : String) (hn : Gen.textSelfTags.contains name = true) (coords baseline : Option Pts)
    (conf : PyVal) (text : Option String) (c : List Xml) :
    textChild false name coords baseline conf text = .ok c ↔ okB (pyStr conf) = true ∧ c = teKids text conf := by
  by_cases hte : hasTE text conf = true
  · have e : textChild false name coords baseline conf text = (do pure [← textEquiv text conf]) := by
      cases text <;> cases conf <;> simp_all [textChild, hasTE]
    rw [e]
    simp only [bind_ok_iff, textEquiv_iff, pure_eq_ok, Except.ok.injEq, teKids, hte, if_true]
    constructor
    · rintro ⟨x, ⟨h, rfl⟩, rfl⟩; exact ⟨h, rfl⟩
    · rintro ⟨h, rfl⟩; exact ⟨_, ⟨h, rfl⟩, rfl⟩
  · have hte' : hasTE text conf = false := by simpa using hte
    have h2 : text = none ∧ conf = .none := by
      cases text <;> cases conf <;> simp_all [hasTE]
    obtain ⟨rfl, rfl⟩ := h2
    simp [textChild, teKids, hasTE, pyStr_none_ok, eq_comm]

theorem textChild_none (name : String) (coords baseline : Option Pts) :
    textChild false name coords baseline .none none = .ok [] := by
  simp [textChild]

/-! ### word, line, table -/

theorem wordElem_iff (w : Word) (x : Xml) : wordElem w = .ok x ↔ expWord w = true ∧ x = wordTree w := by
  unfold wordElem mkElement expWord wordTree
  simp only [bind_ok_iff, elemAttrs_plain_iff, coordsChild_false, baselineChild_false,
    textChild_self_iff "Word" (by decide), pure_eq_ok, Except.ok.injEq, Bool.and_eq_true, baselineKids, List.append_nil]
  constructor
  · rintro ⟨a, ⟨h1, rfl⟩, c1, rfl, c2, rfl, c3, ⟨h3, rfl⟩, rfl⟩
    exact ⟨⟨h1, h3⟩, by simp⟩
  · rintro ⟨⟨h1, h3⟩, rfl⟩
    exact ⟨_, ⟨h1, rfl⟩, _, rfl, _, rfl, _, ⟨h3, rfl⟩, by simp⟩

theorem mapR_iff {α} (el : α → Res Xml) (ok : α → Bool) (tree : α → Xml)
    (h : ∀ a x, el a = .ok x ↔ ok a = true ∧ x = tree a) :
    ∀ (as : List α) (xs : List Xml), mapR el as = .ok xs ↔ as.all ok = true ∧ xs = as.map tree
  | [], xs => by simp [mapR, eq_comm]
  | a :: as, xs => by
    simp only [mapR, bind_ok_iff, h, mapR_iff el ok tree h as, pure_eq_ok, Except.ok.injEq, List.all_cons,
      Bool.and_eq_true, List.map_cons]
    constructor
    · rintro ⟨b, ⟨h1, rfl⟩, bs, ⟨h2, rfl⟩, rfl⟩; exact ⟨⟨h1, h2⟩, rfl⟩
    · rintro ⟨⟨h1, h2⟩, rfl⟩; exact ⟨_, ⟨h1, rfl⟩, _, ⟨h2, rfl⟩, rfl⟩

theorem lineElem_iff (l : Line) (x : Xml) : lineElem l = .ok x ↔ expLine l = true ∧ x = lineTree l := by
  unfold lineElem mkElement expLine lineTree
  simp only [bind_ok_iff, elemAttrs_plain_iff, coordsChild_false, baselineChild_false,
    textChild_self_iff "TextLine" (by decide), mapR_iff wordElem expWord wordTree wordElem_iff,
    pure_eq_ok, Except.ok.injEq, Bool.and_eq_true]
  constructor
  · rintro ⟨e, ⟨a, ⟨h1, rfl⟩, c1, rfl, c2, rfl, c3, ⟨h3, rfl⟩, rfl⟩, ws, ⟨h4, rfl⟩, rfl⟩
    exact ⟨⟨⟨h1, h3⟩, h4⟩, by simp [addKids]⟩
  · rintro ⟨⟨⟨h1, h3⟩, h4⟩, rfl⟩
    exact ⟨_, ⟨_, ⟨h1, rfl⟩, _, rfl, _, rfl, _, ⟨h3, rfl⟩, rfl⟩, _, ⟨h4, rfl⟩, by simp [addKids]⟩

theorem tableElem_iff (t : Table) (x : Xml) : tableElem t = .ok x ↔ expTable t = true ∧ x = tableTree t := by
  unfold tableElem mkElement expTable tableTree
  simp only [bind_ok_iff, elemAttrs_iff, coordsChild_false, baselineChild_false, textChild_none,
    pure_eq_ok, Except.ok.injEq, baselineKids, List.append_nil]
  constructor
  · rintro ⟨a, ⟨h1, rfl⟩, c1, rfl, c2, rfl, c3, rfl, rfl⟩
    exact ⟨h1, by simp⟩
  · rintro ⟨h1, rfl⟩
    exact ⟨_, ⟨h1, rfl⟩, _, rfl, _, rfl, _, rfl, by simp⟩

/-! ### regions, to any depth -/

theorem regionElem_mk_iff (h : Hdr) (text : Option String) (orientation : PyVal) (ro : RO) (roa : PyVal)
    (lines : List Line) (regions : List Region) (tables : List Table)
    (ih : ∀ xs, regionElems regions = .ok xs ↔ expRegions regions = true ∧ xs = regionTrees regions) (x : Xml) :
    regionElem ⟨h, text, orientation, ro, roa, lines, regions, tables⟩ = .ok x
      ↔ expRegion ⟨h, text, orientation, ro, roa, lines, regions, tables⟩ = true
        ∧ x = regionTree ⟨h, text, orientation, ro, roa, lines, regions, tables⟩ := by
  unfold regionElem mkElement expRegion regionTree
  simp only [bind_ok_iff, elemAttrs_iff, coordsChild_false, baselineChild_false, textChild_none,
    mapR_iff lineElem expLine lineTree lineElem_iff, mapR_iff tableElem expTable tableTree tableElem_iff, ih,
    pure_eq_ok, Except.ok.injEq, Bool.and_eq_true, baselineKids, List.append_nil]
  constructor
  · rintro ⟨e, ⟨a, ⟨h1, rfl⟩, c1, rfl, c2, rfl, c3, rfl, rfl⟩, ls, ⟨h2, rfl⟩, rs, ⟨h3, rfl⟩, ts, ⟨h4, rfl⟩, rfl⟩
    exact ⟨⟨⟨⟨h1, h2⟩, h3⟩, h4⟩, by simp [addKids, List.append_assoc]⟩
  · rintro ⟨⟨⟨⟨h1, h2⟩, h3⟩, h4⟩, rfl⟩
    exact ⟨_, ⟨_, ⟨h1, rfl⟩, _, rfl, _, rfl, _, rfl, rfl⟩, _, ⟨h2, rfl⟩, _, ⟨h3, rfl⟩, _, ⟨h4, rfl⟩,
      by simp [addKids, List.append_assoc]⟩

mutual
theorem regionElem_iff : ∀ (r : Region) (x : Xml), regionElem r = .ok x ↔ expRegion r = true ∧ x = regionTree r
  | ⟨h, text, orientation, ro, roa, lines, regions, tables⟩, x =>
    regionElem_mk_iff h text orientation ro roa lines regions tables (regionElems_iff regions) x
theorem regionElems_iff : ∀ (rs : List Region) (xs : List Xml),
    regionElems rs = .ok xs ↔ expRegions rs = true ∧ xs = regionTrees rs
  | [], xs => by simp [regionElems, expRegions, regionTrees, eq_comm]
  | r :: rs, xs => by
    simp only [regionElems, bind_ok_iff, regionElem_iff r, regionElems_iff rs, pure_eq_ok, Except.ok.injEq, expRegions,
      Bool.and_eq_true, regionTrees]
    constructor
    · rintro ⟨b, ⟨h1, rfl⟩, bs, ⟨h2, rfl⟩, rfl⟩; exact ⟨⟨h1, h2⟩, rfl⟩
    · rintro ⟨⟨h1, h2⟩, rfl⟩; exact ⟨_, ⟨h1, rfl⟩, _, ⟨h2, rfl⟩, rfl⟩
end

/-! ### the page level -/

theorem imageDim_iff (md : Meta) (key : String) (coords : Option Pts) (proj : Int × Int → Int) (d : Option Int) :
    imageDim md key coords proj = .ok d ↔ okB (imageDim md key coords proj) = true ∧ d = dimOf md key coords proj := by
  unfold dimOf
  cases imageDim md key coords proj <;> simp [eq_comm]

theorem roaAttrs_iff (roa : PyVal) (a : List (String × String)) :
    roaAttrs roa = .ok a ↔ okB (roaAttrs roa) = true ∧ a = roaPairs roa := by
  unfold roaPairs
  cases roaAttrs roa <;> simp [eq_comm]

theorem refElem_iff (e : Int × PyVal) (x : Xml) : refElem e = .ok x ↔ strOk e.2 = true ∧ x = refTree e := by
  obtain ⟨i, v⟩ := e
  cases v <;> simp [refElem, needStr, strOk, refTree, strT, eq_comm]

theorem orderedGroupElem_iff (ro : RO) (roa : PyVal) (x : Xml) :
    orderedGroupElem ro roa = .ok x ↔ (okB (roaAttrs roa) && ro.all (fun e => strOk e.2)) = true
      ∧ x = ⟨"OrderedGroup", roaPairs roa, none, ro.map refTree⟩ := by
  unfold orderedGroupElem
  simp only [bind_ok_iff, roaAttrs_iff, mapR_iff refElem (fun e => strOk e.2) refTree refElem_iff, pure_eq_ok,
    Except.ok.injEq, Bool.and_eq_true]
  constructor
  · rintro ⟨a, ⟨h1, rfl⟩, rs, ⟨h2, rfl⟩, rfl⟩; exact ⟨⟨h1, h2⟩, rfl⟩
  · rintro ⟨⟨h1, h2⟩, rfl⟩; exact ⟨_, ⟨h1, rfl⟩, _, ⟨h2, rfl⟩, rfl⟩

theorem readingOrderKids_iff (ro : RO) (roa : PyVal) (ks : List Xml) :
    readingOrderKids ro roa = .ok ks ↔ (ro.isEmpty || (okB (roaAttrs roa) && ro.all (fun e => strOk e.2))) = true
      ∧ ks = readingOrderTrees ro roa := by
  unfold readingOrderKids readingOrderTrees
  cases hro : ro.isEmpty with
  | true => simp [eq_comm]
  | false =>
    simp only [Bool.not_false, if_true, bind_ok_iff, orderedGroupElem_iff, pure_eq_ok, Except.ok.injEq, Bool.false_or]
    constructor
    · rintro ⟨og, ⟨h1, rfl⟩, rfl⟩; exact ⟨h1, rfl⟩
    · rintro ⟨h1, rfl⟩; exact ⟨_, ⟨h1, rfl⟩, rfl⟩

theorem scanOrientationAttrs_iff (o : PyVal) (a : List (String × String)) :
    scanOrientationAttrs o = .ok a ↔ (!o.truthy || strOk o) = true ∧ a = scanOrientAttrs o := by
  unfold scanOrientationAttrs scanOrientAttrs
  cases ht : o.truthy with
  | false => simp [eq_comm]
  | true => cases o <;> simp [needStr, strOk, strT, eq_comm]

theorem mdFieldKids_iff (md : Meta) (field : String) (ks : List Xml) :
    mdFieldKids md field = .ok ks ↔ mdFieldOk md field = true ∧ ks = mdFieldTrees md field := by
  unfold mdFieldKids mdFieldOk mdFieldTrees
  cases alookup (.s field) md with
  | none => simp [eq_comm]
  | some v => cases v <;> simp [fieldElem, pyStr, pyStrT, okB, eq_comm]

theorem metadataKids_iff (md : Meta) (ks : List Xml) :
    metadataKids md = .ok ks ↔ (mdFieldOk md "Creator" && mdFieldOk md "Created" && mdFieldOk md "LastChange") = true
      ∧ ks = mdFieldTrees md "Creator" ++ mdFieldTrees md "Created" ++ mdFieldTrees md "LastChange" := by
  unfold metadataKids
  simp only [bind_ok_iff, mdFieldKids_iff, pure_eq_ok, Except.ok.injEq, Bool.and_eq_true]
  constructor
  · rintro ⟨a, ⟨h1, rfl⟩, b, ⟨h2, rfl⟩, c, ⟨h3, rfl⟩, rfl⟩; exact ⟨⟨⟨h1, h2⟩, h3⟩, rfl⟩
  · rintro ⟨⟨⟨h1, h2⟩, h3⟩, rfl⟩; exact ⟨_, ⟨h1, rfl⟩, _, ⟨h2, rfl⟩, _, ⟨h3, rfl⟩, rfl⟩

theorem fnameAttr_iff (md : Meta) (a : List (String × String)) :
    fnameAttr md = .ok a ↔ fnameOk md = true ∧ a = optAttrs "imageFilename" (imageFilename md) := by
  unfold fnameAttr fnameOk imageFilename
  cases alookup (.s "scan_id") md with
  | none => simp [optAttrs, eq_comm]
  | some v => cases v <;> simp [pyStr, pyStrT, optAttrs, eq_comm]

theorem pageAttrs_iff (md : Meta) (w h : Option Int) (a : List (String × String)) :
    pageAttrs md w h = .ok a ↔ fnameOk md = true
      ∧ a = optAttrs "imageFilename" (imageFilename md) ++ [("imageWidth", dimText w), ("imageHeight", dimText h)] := by
  unfold pageAttrs
  simp only [bind_ok_iff, fnameAttr_iff, pure_eq_ok, Except.ok.injEq]
  constructor
  · rintro ⟨f, ⟨h1, rfl⟩, rfl⟩; exact ⟨h1, rfl⟩
  · rintro ⟨h1, rfl⟩; exact ⟨_, ⟨h1, rfl⟩, rfl⟩

/-- **the export of a scan, as a pure tree**: without the guards the export succeeds exactly when
    `expScan` holds, and then returns `scanTree` -/
theorem scanElem_iff (s : Scan) (x : Xml) : scanElem s = .ok x ↔ expScan s = true ∧ x = scanTree s := by
  unfold scanElem docElemOf scanFill expScan scanTree pageTree metadataTree widthOf heightOf
  simp only [bind_ok_iff, imageDim_iff, metadataKids_iff, pageAttrs_iff, scanOrientationAttrs_iff, readingOrderKids_iff,
    regionElems_iff, mapR_iff tableElem expTable tableTree tableElem_iff, pure_eq_ok, Except.ok.injEq, Bool.and_eq_true]
  constructor
  · rintro ⟨w, ⟨h1, rfl⟩, ht, ⟨h2, rfl⟩, mk, ⟨⟨⟨h3, h4⟩, h5⟩, rfl⟩, pa, ⟨h6, rfl⟩, page,
      ⟨oa, ⟨h7, rfl⟩, ro, ⟨h8, rfl⟩, rs, ⟨h9, rfl⟩, ts, ⟨h10, rfl⟩, rfl⟩, rfl⟩
    exact ⟨⟨⟨⟨⟨⟨⟨⟨⟨⟨h1, h2⟩, h3⟩, h4⟩, h5⟩, h6⟩, h7⟩, h8⟩, h9⟩, h10⟩, by simp [rootAttrs, List.append_assoc]⟩
  · rintro ⟨⟨⟨⟨⟨⟨⟨⟨⟨⟨h1, h2⟩, h3⟩, h4⟩, h5⟩, h6⟩, h7⟩, h8⟩, h9⟩, h10⟩, rfl⟩
    exact ⟨_, ⟨h1, rfl⟩, _, ⟨h2, rfl⟩, _, ⟨⟨⟨h3, h4⟩, h5⟩, rfl⟩, _, ⟨h6, rfl⟩, _,
      ⟨_, ⟨h7, rfl⟩, _, ⟨h8, rfl⟩, _, ⟨h9, rfl⟩, _, ⟨h10, rfl⟩, rfl⟩, by simp [rootAttrs, List.append_assoc]⟩

/-- every exportable document (scan, region, line, word): its export without guards is the pure
    tree of its scan form -/
theorem export_iff (d : Doc) (s : Scan) (h : asScan d = some s) (x : Xml) :
    exportDocG false d = .ok x ↔ expScan s = true ∧ x = scanTree s := by
  rw [export_asScan d s h, scanElem_iff]

end Pagexml.C07
