/-
`parse_custom_attribute_parts` on the inside of a rendered tag: every `key:value` pair is
recovered whatever whitespace surrounds keys, colons and semicolons.
-/
import PagexmlModel.Lemmas.C11Grammar

namespace Pagexml.C11
open Pagexml.C03 (splitOn intercalate splitOn_ne_nil splitOn_no_sep splitOn_append_sep splitOn_intercalate)

/-- two lists related element by element -/
inductive All2 {α β} (R : α → β → Prop) : List α → List β → Prop
  | nil : All2 R [] []
  | cons {a b as bs} : R a b → All2 R as bs → All2 R (a :: as) (b :: bs)

/-- `p` is `k:v` with whitespace around the key and around the value -/
def PartOf (cc : CharClass) (k v p : List Char) : Prop :=
  ∃ a b c d, AllSpace cc a ∧ AllSpace cc b ∧ AllSpace cc c ∧ AllSpace cc d ∧
    p = a ++ k ++ b ++ ':' :: (c ++ v ++ d)

/-- a field of the body and the pair it denotes -/
structure FieldOf (cc : CharClass) (kv : List Char × List Char) (p : List Char) : Prop where
  part : PartOf cc kv.1 kv.2 p
  key_colon : ':' ∉ kv.1
  val_colon : ':' ∉ kv.2
  key_edges : NoEdgeSpace cc kv.1
  val_edges : NoEdgeSpace cc kv.2

theorem blank_allSpace {cc : CharClass} {w : List Char} (h : Blank cc w) : AllSpace cc w :=
  fun c hc => (h c hc).1

theorem allSpace_not_mem {cc : CharClass} {w : List Char} (h : AllSpace cc w) {c : Char}
    (hc : cc.isSpace c = false) : c ∉ w := by
  intro hm; have := h c hm; rw [hc] at this; exact absurd this (by simp)

theorem partOf_stripLeft {cc : CharClass} (hl : Lawful cc) {k v p : List Char} (h : PartOf cc k v p)
    (hk : NoEdgeSpace cc k) : PartOf cc k v (stripLeft cc p) := by
  obtain ⟨a, b, c, d, ha, hb, hc, hd, rfl⟩ := h
  have e : a ++ k ++ b ++ ':' :: (c ++ v ++ d) = a ++ (k ++ b ++ ':' :: (c ++ v ++ d)) := by simp
  rw [e, stripLeft_allSpace_append ha]
  cases k with
  | nil =>
    simp only [List.nil_append]
    rw [stripLeft_append_nonspace b hl.colon_not_space, stripLeft_allSpace hb]
    exact ⟨[], [], c, d, allSpace_nil cc, allSpace_nil cc, hc, hd, by simp⟩
  | cons x k' =>
    have hx : cc.isSpace x = false := hk.1 x rfl
    simp only [List.cons_append]
    rw [stripLeft_cons_nonspace hx]
    exact ⟨[], b, c, d, allSpace_nil cc, hb, hc, hd, by simp⟩

theorem partOf_stripRight {cc : CharClass} (hl : Lawful cc) {k v p : List Char} (h : PartOf cc k v p)
    (hv : NoEdgeSpace cc v) : PartOf cc k v (stripRight cc p) := by
  obtain ⟨a, b, c, d, ha, hb, hc, hd, rfl⟩ := h
  rw [stripRight_append_nonspace _ hl.colon_not_space, stripRight_append_allSpace _ hd]
  by_cases hne : v = []
  · subst hne
    simp only [List.append_nil]
    rw [stripRight_allSpace hc]
    exact ⟨a, b, [], [], ha, hb, allSpace_nil cc, allSpace_nil cc, by simp⟩
  · obtain ⟨x, l, e⟩ : ∃ x l, v = x ++ [l] := ⟨v.dropLast, v.getLast hne, (List.dropLast_concat_getLast hne).symm⟩
    have hlsp : cc.isSpace l = false := hv.2 l (by rw [e]; simp)
    have e2 : c ++ v = (c ++ x) ++ [l] := by rw [e]; simp
    rw [e2, stripRight_snoc_nonspace _ hlsp, ← e2]
    exact ⟨a, b, c, [], ha, hb, hc, allSpace_nil cc, by simp⟩

theorem fieldOf_stripLeft {cc : CharClass} (hl : Lawful cc) {kv : List Char × List Char} {p : List Char}
    (h : FieldOf cc kv p) : FieldOf cc kv (stripLeft cc p) :=
  { h with part := partOf_stripLeft hl h.part h.key_edges }

theorem fieldOf_stripRight {cc : CharClass} (hl : Lawful cc) {kv : List Char × List Char} {p : List Char}
    (h : FieldOf cc kv p) : FieldOf cc kv (stripRight cc p) :=
  { h with part := partOf_stripRight hl h.part h.val_edges }

/-- one round of the loop on a well-formed field -/
theorem parsePartsAux_field {cc : CharClass} (hl : Lawful cc) {kv : List Char × List Char} {p : List Char}
    (h : FieldOf cc kv p) {val : Val} (hconv : convertValue kv.1 kv.2 = .ok val) (ps : List (List Char)) (d : Dict) :
    parsePartsAux cc (p :: ps) d = parsePartsAux cc ps (dictSet d kv.1 val) := by
  obtain ⟨a, b, c, e, ha, hb, hc, he, rfl⟩ := h.part
  have hne : a ++ kv.1 ++ b ++ ':' :: (c ++ kv.2 ++ e) ≠ [] := by simp
  have hcol1 : ':' ∉ a ++ kv.1 ++ b := by
    simp only [List.mem_append, not_or]
    exact ⟨⟨allSpace_not_mem ha hl.colon_not_space, h.key_colon⟩, allSpace_not_mem hb hl.colon_not_space⟩
  have hcol2 : ':' ∉ c ++ kv.2 ++ e := by
    simp only [List.mem_append, not_or]
    exact ⟨⟨allSpace_not_mem hc hl.colon_not_space, h.val_colon⟩, allSpace_not_mem he hl.colon_not_space⟩
  have hs : splitOn ':' (a ++ kv.1 ++ b ++ ':' :: (c ++ kv.2 ++ e)) = [a ++ kv.1 ++ b, c ++ kv.2 ++ e] := by
    rw [splitOn_append_sep ':' _ _ hcol1, splitOn_no_sep ':' _ hcol2]
  have hk : strip cc (a ++ kv.1 ++ b) = kv.1 := strip_sandwich ha hb h.key_edges
  have hv : strip cc (c ++ kv.2 ++ e) = kv.2 := strip_sandwich hc he h.val_edges
  rw [parsePartsAux]
  simp only [hne, if_false, hs, hk, hv, hconv]

theorem convertValue_typed {k v : List Char} (h : k ∈ Gen.intKeys → ∃ i, pyInt? v = some i) :
    convertValue k v = .ok (typedVal k v) := by
  unfold convertValue typedVal
  by_cases hk : k ∈ Gen.intKeys
  · obtain ⟨i, hi⟩ := h hk
    simp [hk, hi]
  · simp [hk]

/-- the loop over a list of well-formed fields, followed by `extra` -/
theorem parsePartsAux_fields {cc : CharClass} (hl : Lawful cc) :
    ∀ (kvs : List (List Char × List Char)) (fs : List (List Char)),
      All2 (FieldOf cc) kvs fs →
      (∀ kv ∈ kvs, kv.1 ∈ Gen.intKeys → ∃ i, pyInt? kv.2 = some i) →
      ∀ (extra : List (List Char)) (d : Dict),
        parsePartsAux cc (fs ++ extra) d =
          parsePartsAux cc extra (kvs.foldl (fun d kv => dictSet d kv.1 (typedVal kv.1 kv.2)) d) := by
  intro kvs fs hf
  induction hf with
  | nil => intro _ extra d; rfl
  | @cons kv p kvs' fs' hkv _ ih =>
    intro ht extra d
    simp only [List.cons_append, List.foldl_cons]
    rw [parsePartsAux_field hl hkv (convertValue_typed (ht kv (by simp)))]
    exact ih (fun x hx => ht x (by simp [hx])) extra _

theorem forall2_mapLast {α β} {R : α → β → Prop} {g : β → β} (hg : ∀ a b, R a b → R a (g b)) :
    ∀ {as : List α} {bs : List β}, All2 R as bs → All2 R as (mapLast g bs) := by
  intro as bs h
  induction h with
  | nil => exact All2.nil
  | @cons a b as' bs' hab hrest ih =>
    cases hrest with
    | nil => exact All2.cons (hg _ _ hab) All2.nil
    | cons hab2 hrest2 =>
      simp only [mapLast]
      exact All2.cons hab ih

/-! ### the body of a rendered tag -/

theorem clean_of_blank {cc : CharClass} (hl : Lawful cc) {w : List Char} (h : Blank cc w) : Clean w := by
  intro c hc
  obtain ⟨hs, hn⟩ := h c hc
  refine ⟨?_, ?_, ?_, hn⟩
  · rintro rfl; rw [hl.semi_not_space] at hs; exact absurd hs (by simp)
  · rintro rfl; rw [hl.colon_not_space] at hs; exact absurd hs (by simp)
  · rintro rfl; rw [hl.rbrace_not_space] at hs; exact absurd hs (by simp)

theorem clean_append {a b : List Char} (ha : Clean a) (hb : Clean b) : Clean (a ++ b) := by
  intro c hc
  rcases List.mem_append.mp hc with h | h
  · exact ha c h
  · exact hb c h

theorem fieldOf_render {cc : CharClass} {a : LAttr} (h : a.OK cc) : FieldOf cc (a.key, a.value) a.render :=
  { part := ⟨a.pre, a.postKey, a.preVal, a.postVal, blank_allSpace h.pre, blank_allSpace h.postKey,
      blank_allSpace h.preVal, blank_allSpace h.postVal, rfl⟩
    key_colon := fun hm => (h.key_clean _ hm).2.1 rfl
    val_colon := fun hm => (h.value_clean _ hm).2.1 rfl
    key_edges := h.key_edges
    val_edges := h.value_edges }

/-- the characters of a rendered attribute other than its one colon are clean -/
theorem render_chars {cc : CharClass} (hl : Lawful cc) {a : LAttr} (h : a.OK cc) :
    ∀ c ∈ a.render, c ≠ ';' ∧ c ≠ '}' ∧ c ≠ '\n' := by
  intro c hc
  have hpre := clean_of_blank hl h.pre
  have hpk := clean_of_blank hl h.postKey
  have hpv := clean_of_blank hl h.preVal
  have hpo := clean_of_blank hl h.postVal
  unfold LAttr.render at hc
  simp only [List.mem_append, List.mem_cons] at hc
  have pick : ∀ {w : List Char}, Clean w → c ∈ w → c ≠ ';' ∧ c ≠ '}' ∧ c ≠ '\n' :=
    fun hw hm => ⟨(hw c hm).1, (hw c hm).2.2.1, (hw c hm).2.2.2⟩
  rcases hc with ((h1 | h1) | h1) | h1 | (h1 | h1) | h1
  · exact pick hpre h1
  · exact pick h.key_clean h1
  · exact pick hpk h1
  · subst h1; decide
  · exact pick hpv h1
  · exact pick h.value_clean h1
  · exact pick hpo h1

theorem forall2_fields {cc : CharClass} :
    ∀ (as : List LAttr), (∀ a ∈ as, a.OK cc) →
      All2 (FieldOf cc) (as.map (fun a => (a.key, a.value))) (as.map LAttr.render) := by
  intro as
  induction as with
  | nil => intro _; exact All2.nil
  | cons a as ih =>
    intro h
    exact All2.cons (fieldOf_render (h a (by simp))) (ih (fun x hx => h x (by simp [hx])))

theorem foldl_attrs (as : List LAttr) (d : Dict) :
    (as.map (fun a => (a.key, a.value))).foldl (fun d kv => dictSet d kv.1 (typedVal kv.1 kv.2)) d =
      dictOfAttrs as d := by
  unfold dictOfAttrs
  induction as generalizing d with
  | nil => rfl
  | cons a as ih => simp only [List.map_cons, List.foldl_cons]; exact ih _

/-- **the inside of a tag parses to its pairs**, for every whitespace placement -/
theorem parseParts_body {cc : CharClass} (hl : Lawful cc) (t : LTag) (hattrs : ∀ a ∈ t.attrs, a.OK cc)
    (hclose : Blank cc t.close) : parseParts cc t.body = .ok (dictOfAttrs t.attrs []) := by
  unfold parseParts LTag.body
  have hsemi : ∀ f ∈ t.fields, ';' ∉ f := by
    intro f hf hm
    unfold LTag.fields at hf
    rcases List.mem_append.mp hf with h | h
    · obtain ⟨a, ha, rfl⟩ := List.mem_map.mp h
      exact (render_chars hl (hattrs a ha) _ hm).1 rfl
    · split at h
      · simp at h; subst h; exact (clean_of_blank hl hclose _ hm).1 rfl
      · simp at h
  have hne : t.fields ≠ [] := by
    unfold LTag.fields
    cases hta : t.attrs with
    | nil => simp
    | cons a as => simp
  rw [splitOn_strip_intercalate hl.semi_not_space _ hne hsemi]
  have htyped : ∀ kv ∈ t.attrs.map (fun a => (a.key, a.value)), kv.1 ∈ Gen.intKeys → ∃ i, pyInt? kv.2 = some i := by
    intro kv hkv
    obtain ⟨a, ha, rfl⟩ := List.mem_map.mp hkv
    exact (hattrs a ha).typed
  have hclose0 : stripRight cc t.close = [] := stripRight_allSpace (blank_allSpace hclose)
  unfold LTag.fields
  cases hta : t.attrs with
  | nil =>
    simp only [List.map_nil, List.isEmpty_nil, Bool.true_or, if_true, List.nil_append, mapHead, mapLast]
    have : stripRight cc (stripLeft cc t.close) = [] := by
      rw [stripLeft_allSpace (blank_allSpace hclose)]; rfl
    rw [this]
    simp [parsePartsAux, dictOfAttrs]
  | cons a as =>
    have hall : ∀ x ∈ a :: as, x.OK cc := by rw [← hta]; exact hattrs
    have hf2 := forall2_fields (cc := cc) (a :: as) hall
    have hty : ∀ kv ∈ (a :: as).map (fun a => (a.key, a.value)), kv.1 ∈ Gen.intKeys → ∃ i, pyInt? kv.2 = some i := by
      rw [← hta]; exact htyped
    -- the first field is left-stripped
    have hf3 : All2 (FieldOf cc) ((a :: as).map (fun a => (a.key, a.value)))
        (stripLeft cc a.render :: as.map LAttr.render) := by
      simp only [List.map_cons] at hf2 ⊢
      cases hf2 with
      | cons h1 h2 => exact All2.cons (fieldOf_stripLeft hl h1) h2
    by_cases htr : t.trailing = true
    · simp only [List.isEmpty_cons, Bool.false_or, htr, if_true, List.map_cons, List.cons_append, mapHead]
      rw [← List.cons_append, mapLast_append_singleton, hclose0]
      rw [parsePartsAux_fields hl _ _ hf3 hty [[]] []]
      rw [foldl_attrs]
      simp [parsePartsAux]
    · have htr' : t.trailing = false := by simpa using htr
      simp only [List.isEmpty_cons, Bool.false_or, htr', Bool.false_eq_true, if_false, List.map_cons,
        List.append_nil, mapHead]
      have hf4 := forall2_mapLast (g := stripRight cc) (fun _ _ h => fieldOf_stripRight hl h) hf3
      have := parsePartsAux_fields hl _ _ hf4 hty [] []
      simp only [List.append_nil] at this
      rw [this, foldl_attrs]
      simp [parsePartsAux]

/-- characters of `sep.join(F)` -/
theorem mem_intercalate {sep : Char} {P : Char → Prop} (hsep : P sep) :
    ∀ (F : List (List Char)), (∀ f ∈ F, ∀ c ∈ f, P c) → ∀ c ∈ intercalate [sep] F, P c := by
  intro F
  induction F with
  | nil => intro _ c hc; simp [intercalate] at hc
  | cons f F ih =>
    intro h c hc
    cases F with
    | nil => exact h f (by simp) c (by simpa [intercalate] using hc)
    | cons g rest =>
      rw [intercalate_cons_cons] at hc
      simp only [List.mem_append, List.mem_singleton] at hc
      rcases hc with (h1 | h1) | h1
      · exact h f (by simp) c h1
      · subst h1; exact hsep
      · exact ih (fun x hx => h x (by simp [hx])) c h1

/-- the inside of a rendered tag contains neither a closing brace nor a newline -/
theorem body_chars {cc : CharClass} (hl : Lawful cc) (t : LTag) (hattrs : ∀ a ∈ t.attrs, a.OK cc)
    (hclose : Blank cc t.close) : '}' ∉ t.body ∧ '\n' ∉ t.body := by
  have hf : ∀ f ∈ t.fields, ∀ c ∈ f, c ≠ '}' ∧ c ≠ '\n' := by
    intro f hf c hc
    unfold LTag.fields at hf
    rcases List.mem_append.mp hf with h | h
    · obtain ⟨a, ha, rfl⟩ := List.mem_map.mp h
      exact (render_chars hl (hattrs a ha) c hc).2
    · split at h
      · simp at h; subst h
        have := clean_of_blank hl hclose c hc
        exact ⟨this.2.2.1, this.2.2.2⟩
      · simp at h
  have hi := mem_intercalate (sep := ';') (P := fun c => c ≠ '}' ∧ c ≠ '\n') (by decide) _ hf
  unfold LTag.body
  exact ⟨fun hm => (hi _ hm).1 rfl, fun hm => (hi _ hm).2 rfl⟩

end Pagexml.C11
