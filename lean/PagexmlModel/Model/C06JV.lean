/-
C06: "JSON-valued" documents.  Every attribute of a document that carries an arbitrary Python
value (ids, metadata, confidences, reading-order targets and attributes, spans, header,
corner points, orientation, x-height) holds a value that JSON text can carry unchanged:
`PyVal.stable` — no foreign object, every dict key a string.  This is what a document parsed
from XML holds (strings, ints, float literals, lists and string-keyed dicts of those) and what
every document rebuilt from decoded JSON text holds (theorem `C06_jv_closed`).
Definitions only; decidable, evaluated by the driver on every document the harness builds.
-/
import PagexmlModel.Model.C06WF

namespace Pagexml.C06

def Hdr.jv (h : Hdr) : Bool := h.id.stable && PyVal.stableKvs h.md

def roJv (ro : RO) : Bool := ro.all (fun e => e.2.stable)

def Word.jv (w : Word) : Bool := w.h.jv && w.conf.stable

def Line.jv (l : Line) : Bool :=
  l.h.jv && l.conf.stable && l.xheight.stable && roJv l.ro && l.roa.stable && l.words.all Word.jv

def Cell.jv (c : Cell) : Bool :=
  c.h.jv && c.row.stable && c.cellSpan.stable && c.rowSpan.stable && c.header.stable
  && c.cornerpoints.stable && c.orientation.stable && c.lines.all Line.jv

def Row.jv (r : Row) : Bool := r.h.jv && r.orientation.stable && r.cells.all Cell.jv

def Table.jv (t : Table) : Bool := t.h.jv && t.orientation.stable && t.rows.all Row.jv

mutual
def Region.jv : Region → Bool
  | ⟨h, _text, orientation, ro, roa, lines, regions, tables⟩ =>
    h.jv && orientation.stable && roJv ro && roa.stable && lines.all Line.jv && Region.jvL regions
    && tables.all Table.jv
def Region.jvL : List Region → Bool
  | [] => true
  | r :: rs => r.jv && Region.jvL rs
end

def Column.jv (c : Column) : Bool :=
  c.h.jv && c.orientation.stable && roJv c.ro && c.roa.stable && c.lines.all Line.jv && Region.jvL c.regions
  && c.tables.all Table.jv

def Page.jv (p : Page) : Bool :=
  p.h.jv && p.orientation.stable && roJv p.ro && p.roa.stable && p.columns.all Column.jv
  && Region.jvL p.regions && p.tables.all Table.jv && Region.jvL p.extra

def Scan.jv (s : Scan) : Bool :=
  s.h.jv && s.orientation.stable && roJv s.ro && s.roa.stable && s.pages.all Page.jv
  && s.columns.all Column.jv && Region.jvL s.regions && s.tables.all Table.jv && s.lines.all Line.jv

def Doc.jv : Doc → Bool
  | .word w => w.jv
  | .line l => l.jv
  | .region r => r.jv
  | .column c => c.jv
  | .page p => p.jv
  | .scan s => s.jv

end Pagexml.C06
