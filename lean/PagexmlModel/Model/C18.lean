/-
Model of pagexml/column_parser.py (column splitting on horizontal gaps), DESIGN §7 C18.

Transcribed statement by statement from the code as it is now (after f964878, 9b36c48, 1e3f851, aca4ff5, fc690f6):
compute_pixel_dist, determine_freq_gap_interval, find_column_gaps, within_column,
sort_lines_in_column_ranges, make_column_range_columns, find_overlapping_columns,
merge_overlapping_columns (merge_columns path = AttributeError), make_derived_column,
handle_extra_lines, split_lines_on_column_gaps, PhysicalStructureDoc.set_derived_id,
get_horizontal_overlap, is_horizontally_overlapping, PageXMLTextRegion.__lt__, get_lines.

Lines are boxes with ids.  Coordinates of columns are carried as bounding boxes: every consumer
here reads only left/right/width/x/y/w/h, and `parse_derived_coords` is the convex hull of all
corner points, whose bounding box is the union of the input boxes (C09 contract; since fc690f6
collinear point sets give the segment between their extremes instead of a QhullError).  Thresholds are rationals
`(p, q)` compared by cross-multiplication (`overlap / width > p/q` is `overlap * q > p * width`).
The numeric literals and defaults of the source (default gap threshold / overlap threshold / minimum column width,
the `2` of `max(gap_threshold, 2)`, the `min_column_width=0` of the recursive call and the `0` of its guard, the
threshold with which `is_horizontally_overlapping` is reached) are NOT written here: they are `Generated.C18.*`,
regenerated from the working tree on every run (harness/props/c18.py `translate`).
-/
import PagexmlModel.Basic.Err
import PagexmlModel.Basic.PyInt
import PagexmlModel.Generated.C18

namespace Pagexml.C18

/-! ### boxes, lines, ids -/

structure Box where
  l : Int
  t : Int
  r : Int
  b : Int
  deriving Repr, DecidableEq

def Box.width (b : Box) : Int := b.r - b.l
def Box.height (b : Box) : Int := b.b - b.t
def Box.tr (dx dy : Int) (b : Box) : Box := ⟨b.l + dx, b.t + dy, b.r + dx, b.b + dy⟩
/-- `outer` encloses `inner` -/
def Box.encloses (outer inner : Box) : Prop :=
  outer.l ≤ inner.l ∧ inner.r ≤ outer.r ∧ outer.t ≤ inner.t ∧ inner.b ≤ outer.b

structure Line where
  id : String
  box : Box
  deriving Repr, DecidableEq

def Line.tr (dx dy : Int) (l : Line) : Line := { l with box := l.box.tr dx dy }

/-- a Python id value: `None`, a given string, or the result of `set_derived_id`
    (`f"{parent_id}-{main_type}-{x}-{y}-{w}-{h}"`) -/
inductive PyId where
  | none
  | lit (s : String)
  | derived (parent : PyId) (kind : String) (box : Box)
  deriving Repr, DecidableEq

/-- Python truthiness of an id: `None` and `''` are falsy -/
def PyId.truthy : PyId → Bool
  | .none => false
  | .lit s => s != ""
  | .derived _ _ _ => true

def boxString (b : Box) : List Char :=
  showInt b.l ++ ['-'] ++ showInt b.t ++ ['-'] ++ showInt b.width ++ ['-'] ++ showInt b.height

/-- `str(id)` -/
def PyId.render : PyId → List Char
  | .none => "None".toList
  | .lit s => s.toList
  | .derived p k b => p.render ++ ['-'] ++ k.toList ++ ['-'] ++ boxString b

/-- translate every box number inside a derived id -/
def PyId.tr (dx dy : Int) : PyId → PyId
  | .none => .none
  | .lit s => .lit s
  | .derived p k b => .derived (p.tr dx dy) k (b.tr dx dy)

/-- what `split_lines_on_column_gaps` reads of the text region besides its lines:
    `text_region.id`, and `text_region.parent` (`none` = no parent, `some pid` = a parent
    whose `.id` is `pid`; parents are always truthy objects) -/
structure RegInfo where
  id : PyId
  parent : Option PyId
  deriving Repr, DecidableEq

/-- `text_region.parent and text_region.parent.id` -/
def RegInfo.parentHasId (g : RegInfo) : Bool :=
  match g.parent with
  | some p => p.truthy
  | none => false

/-- the id handed to `set_derived_id` by `if text_region.parent and text_region.parent.id: … else: …` -/
def RegInfo.base (g : RegInfo) : PyId :=
  match g.parent with
  | some p => if p.truthy then p else g.id
  | none => g.id

def RegInfo.tr (dx dy : Int) (g : RegInfo) : RegInfo :=
  ⟨g.id.tr dx dy, g.parent.map (PyId.tr dx dy)⟩

structure Col where
  lines : List Line
  box : Box
  id : PyId
  deriving Repr, DecidableEq

def Col.tr (dx dy : Int) (c : Col) : Col :=
  ⟨c.lines.map (Line.tr dx dy), c.box.tr dx dy, c.id.tr dx dy⟩

/-! ### text_region.get_lines(): lines of the sub-regions first (recursively), then own lines -/

inductive Region where
  | mk (lines : List Line) (subs : List Region)

mutual
def Region.getLines : Region → List Line
  | .mk ls subs => getLinesList subs ++ ls
def getLinesList : List Region → List Line
  | [] => []
  | r :: rs => r.getLines ++ getLinesList rs
end

/-! ### compute_pixel_dist: the sorted list of covered pixels -/

def minLeft (a : Int) : List Line → Int
  | [] => a
  | l :: ls => min l.box.l (minLeft a ls)

def maxRight (a : Int) : List Line → Int
  | [] => a
  | l :: ls => max l.box.r (maxRight a ls)

def minTop (a : Int) : List Line → Int
  | [] => a
  | l :: ls => min l.box.t (minTop a ls)

def maxBottom (a : Int) : List Line → Int
  | [] => a
  | l :: ls => max l.box.b (maxBottom a ls)

def covers (p : Int) (l : Line) : Bool := l.box.l ≤ p && p ≤ l.box.r

def covered (ls : List Line) (p : Int) : Bool := ls.any (covers p)

def intRange (lo : Int) (n : Nat) : List Int := (List.range n).map (fun (i : Nat) => lo + (i : Int))

/-- `sorted(pixel_dist.keys())`: the sorted, duplicate-free union of the intervals `[left, right]` -/
def pixels : List Line → List Int
  | [] => []
  | l :: ls =>
    let lo := minLeft l.box.l ls
    let hi := maxRight l.box.r ls
    (intRange lo (hi - lo + 1).toNat).filter (covered (l :: ls))

/-! ### determine_freq_gap_interval -/

/-- `N` of `max(gap_threshold, N)`: the smallest distance of two covered pixels that can be a gap
    (regenerated; 2 at the time of writing: adjacent pixels are never a gap, aca4ff5) -/
def gapMin : Int := Generated.C18.minGapPixels

/-- the loop over adjacent pixels; `(s, e)` is `curr_interval`, `e` is also `curr_pixel`;
    `next_pixel - curr_pixel < max(gap_threshold, N)` -/
def gapGo (thr : Int) (s e : Int) : List Int → List (Int × Int)
  | [] => [(s, e)]
  | p :: ps => if p - e < max thr gapMin then gapGo thr s p ps else (s, e) :: gapGo thr p p ps

def gapIntervals (thr : Int) : List Int → List (Int × Int)
  | [] => []
  | p :: ps => gapGo thr p p ps

/-- find_column_gaps followed by the `min_column_width` filter of split_lines_on_column_gaps -/
def columnRanges (thr mcw : Int) (lines : List Line) : List (Int × Int) :=
  (gapIntervals thr (pixels lines)).filter (fun ρ => ρ.2 - ρ.1 ≥ mcw)

/-! ### within_column / sort_lines_in_column_ranges -/

/-- `a / d > p/q` for `d > 0`, `q > 0` (`r = (p, q)`), by cross-multiplication -/
def ratioGt (a d : Int) (r : Int × Int) : Bool := decide (a * r.2 > r.1 * d)

/-- `overlap / width > overlap_threshold` for a line of non-zero (hence positive) width; the threshold is
    the default of split_lines_on_column_gaps (the harness never passes another one) -/
def withinCol (l : Line) (ρ : Int × Int) : Bool :=
  let start := max l.box.l ρ.1
  let en := min l.box.r ρ.2
  let overlap := if en > start then en - start else 0
  ratioGt overlap l.box.width Generated.C18.withinThr

/-- the inner loop body: zero-width lines are skipped (`continue`) -/
def hit (l : Line) (ρ : Int × Int) : Bool := l.box.width != 0 && withinCol l ρ

/-- `column_lines` (ranges are pairwise different, so `column_ranges.index(range)` is the
    position of the range) -/
def colLines (lines : List Line) (ranges : List (Int × Int)) : List (List Line) :=
  ranges.map (fun ρ => lines.filter (fun l => hit l ρ))

def extraLines (lines : List Line) (ranges : List (Int × Int)) : List Line :=
  lines.filter (fun l => !(ranges.any (hit l)))

/-! ### parse_derived_coords, as far as it is observed: the bounding box -/

def bbox (l : Line) (ls : List Line) : Box :=
  ⟨minLeft l.box.l ls, minTop l.box.t ls, maxRight l.box.r ls, maxBottom l.box.b ls⟩

/-- the hull of all corner points (since fc690f6 also of points on one straight line: the segment
    between the extremes) has the union of the boxes as bounding box; `Coords([])` is an IndexError -/
def hullBox : List Line → Res Box
  | [] => .error .IndexError
  | l :: ls => .ok (bbox l ls)

/-! ### get_horizontal_overlap / is_horizontally_overlapping / __lt__ (coords only: columns have no baseline) -/

def hOverlap (a b : Box) : Int :=
  let left := max a.l b.l
  let right := min a.r b.r
  if right ≥ left then right - left + 1 else 0

def isHOverlapping (a b : Box) : Bool :=
  if a.width = 0 ∧ b.width = 0 then false
  else if a.width = 0 then b.l ≤ a.l && a.l ≤ b.r
  else if b.width = 0 then a.l ≤ b.l && b.l ≤ a.r
  else ratioGt (hOverlap a b) (min a.width b.width) Generated.C18.colHOverlapThr

def colLt (a b : Col) : Bool :=
  if isHOverlapping a.box b.box then a.box.t < b.box.t else a.box.l < b.box.l

/-! ### make_column_range_columns / merge_overlapping_columns -/

def makeRangeCols (g : RegInfo) : List (List Line) → Res (List Col)
  | [] => .ok []
  | ls :: rest =>
    if ls.isEmpty then makeRangeCols g rest
    else do
      let b ← hullBox ls
      let cs ← makeRangeCols g rest
      return ⟨ls, b, .derived g.base "column" b⟩ :: cs

def insertCol (x : Col) : List Col → List Col
  | [] => [x]
  | y :: ys => if colLt x y then x :: y :: ys else y :: insertCol x ys

/-- `columns.sort()` (only reached with horizontally disjoint columns, on which `__lt__` is a
    strict total order; see `C18_total`) -/
def sortCols : List Col → List Col
  | [] => []
  | c :: cs => insertCol c (sortCols cs)

def anyAdjOverlap : List Col → Bool
  | a :: b :: rest => isHOverlapping a.box b.box || anyAdjOverlap (b :: rest)
  | _ => false

/-- a non-empty merge set reaches `merge_columns`, which dereferences the `None` returned by
    `merge_textregions([])` (columns made here hold lines, not text regions): AttributeError -/
def mergeOverlapping (cols : List Col) : Res (List Col) :=
  let s := sortCols cols
  if anyAdjOverlap s then .error .AttributeError else .ok s

/-! ### handle_extra_lines -/

/-- the loop choosing `best_column`; state = (index, width) of the best column and `best_overlap`
    (which is only updated together with the best column) -/
def pickBest (lb : Box) : List Col → Nat → Option (Nat × Int) → Int → Option (Nat × Int)
  | [], _, best, _ => best
  | c :: cs, i, best, bo =>
    let ov := hOverlap lb c.box
    if ov > bo then
      match best with
      | none => pickBest lb cs (i + 1) (some (i, c.box.width)) ov
      | some (_, w) =>
        if c.box.width < w then pickBest lb cs (i + 1) (some (i, c.box.width)) ov
        else pickBest lb cs (i + 1) best bo
    else pickBest lb cs (i + 1) best bo

/-- one extra line: `some cols'` when it was appended to a column, `none` when it is a non-column line -/
def placeLine (g : RegInfo) (line : Line) (cols : List Col) : Res (Option (List Col)) :=
  match pickBest line.box cols 0 none 0 with
  | none => .ok none
  | some (i, _) =>
    match cols[i]? with
    | none => .ok none
    | some c =>
      if isHOverlapping line.box c.box then do
        let ls := c.lines ++ [line]
        let b ← hullBox ls
        let id := match g.parent with
          | some p => PyId.derived p "column" b      -- `if text_region.parent:` (the id may be None)
          | none => c.id                             -- id keeps the box it was derived with
        return some (cols.set i ⟨ls, b, id⟩)
      else .ok none

def placeAll (g : RegInfo) : List Line → List Col → List Line → Res (List Col × List Line)
  | [], cols, nc => .ok (cols, nc)
  | l :: ls, cols, nc => do
    match ← placeLine g l cols with
    | some cols' => placeAll g ls cols' nc
    | none => placeAll g ls cols (nc ++ [l])

/-- the final loop over `extra_cols`: `if text_region.parent: extra_col.set_derived_id(parent.id)` -/
def reId (g : RegInfo) (cols : List Col) : List Col :=
  match g.parent with
  | some p => cols.map (fun c => { c with id := PyId.derived p "column" c.box })
  | none => cols

/-- the `extra` text region made of the non-column lines: its id is derived from the parent's
    id (when the parent has one) or the region's id; it gets the parent only in the first case -/
def extraReg (g : RegInfo) (eb : Box) : RegInfo :=
  ⟨PyId.derived g.base "text_region" eb, if g.parentHasId then g.parent else none⟩

/-- `N` of the guard `if min_column_width > N:` around the recursive call (regenerated) -/
def recGuard : Int := Generated.C18.recGuard
/-- the `min_column_width` that the recursive call passes (regenerated) -/
def recMcw : Int := Generated.C18.recMinColumnWidth

/-- handle_extra_lines; `recSplit` is the recursive call
    `split_lines_on_column_gaps(extra, gap_threshold=gap_threshold, min_column_width=M)` under the guard
    `if min_column_width > N:` (`M = recMcw`, `N = recGuard`, both 0 at the time of writing) -/
def handleExtra (recSplit : RegInfo → List Line → Res (List Col))
    (g : RegInfo) (cols : List Col) (extra : List Line) (mcw : Int) : Res (List Col) := do
  let (cols, nonCol) ← placeAll g extra cols []
  if nonCol.isEmpty then return cols
  let eb ← match hullBox nonCol with
    | .ok b => .ok b
    | .error _ => .error .ValueError        -- `except BaseException: raise ValueError`
  let eg := extraReg g eb
  let extraCols ←
    if mcw > recGuard then recSplit eg nonCol
    else do
      let b ← hullBox nonCol                -- make_derived_column(extra_lines, …, extra.id)
      pure [⟨nonCol, b, PyId.derived eg.id "column" b⟩]
  return cols ++ reId g extraCols

/-- split_lines_on_column_gaps on the lines returned by `text_region.get_lines()`;
    the recursion through handle_extra_lines takes fuel -/
def split : Nat → Int → Int → RegInfo → List Line → Res (List Col)
  | 0, _, _, _, _ => .error .OutOfFuel
  | fuel + 1, thr, mcw, g, lines => do
    let ranges := columnRanges thr mcw lines
    let cols0 ← makeRangeCols g (colLines lines ranges)
    let cols ← mergeOverlapping cols0
    handleExtra (split fuel thr recMcw) g cols (extraLines lines ranges) mcw

/-- the default fuel used by the driver; `C18_terminates` shows that 2 already suffices -/
def splitRegion (thr mcw : Int) (g : RegInfo) (r : Region) : Res (List Col) :=
  split 2 thr mcw g r.getLines

/-- `split_lines_on_column_gaps(region[, gap_threshold][, min_column_width])`: an argument that is not
    passed takes the default the source declares -/
def splitRegionDefaults (thr mcw : Option Int) (g : RegInfo) (r : Region) : Res (List Col) :=
  splitRegion (thr.getD Generated.C18.defaultGapThreshold) (mcw.getD Generated.C18.defaultMinColumnWidth) g r

end Pagexml.C18
