/-
The page level shared by C01 / C05 / C08: `SrcPage` (Metadata, Page attributes,
ReadingOrder, text regions, table regions), its rendering, `parse_page_metadata`,
`parse_page_image_size`, `parse_pagexml_json`, the part of `PageXMLScan.__init__` that is
observable (region order, padded tables, scan id in the metadata) and `mirrorScan`,
the specification.

Dates (`Created`, `LastChange`) are opaque: the model records that the field is carried
(`MetaVal.date raw`); the instant is checked by the harness oracle with `datetime`.
-/
import PagexmlModel.Model.C01
import PagexmlModel.Model.C05
import PagexmlModel.Model.C08

namespace Pagexml.Scan
open Pagexml.X Pagexml.C01 Pagexml.C05 Pagexml.C08
open Pagexml.C03 (Pt Coords mkCoords)

/-! ### source -/

structure SrcMeta where
  creator : Option String
  created : Option String
  lastChange : Option String
  comments : Option String
  deriving Repr, DecidableEq, Inhabited

inductive SrcRO where
  | absent
  | empty                                   -- `<ReadingOrder/>`
  | ordered (id : String) (caption : Option String) (refs : List (Int × String))
  | unordered (id : String) (refs : List String)
  deriving Repr, DecidableEq, Inhabited

structure SrcPage where
  ns2019 : Bool
  mdata : Option SrcMeta
  imageFilename : Option String
  width : Nat
  height : Nat
  roFirst : Bool
  ro : SrcRO
  regions : List SrcRegion
  tables : List SrcTable
  deriving Repr, Inhabited

def optText (tag : String) : Option String → List Xml
  | none => []
  | some t => [textElem tag t]

def renderMeta (m : SrcMeta) : Xml :=
  .elem "Metadata" [] ""
    (optText "Creator" m.creator ++ optText "Created" m.created
      ++ optText "LastChange" m.lastChange ++ optText "Comments" m.comments)

def renderRef (e : Int × String) : Xml :=
  .elem "RegionRefIndexed" [("index", intStr e.1), ("regionRef", e.2)] "" []

def renderRO : SrcRO → List Xml
  | .absent => []
  | .empty => [.elem "ReadingOrder" [] "" []]
  | .ordered id caption refs =>
    [.elem "ReadingOrder" [] ""
      [.elem "OrderedGroup" ([("id", id)] ++ optAttr "caption" caption) "" (refs.map renderRef)]]
  | .unordered id refs =>
    [.elem "ReadingOrder" [] ""
      [.elem "UnorderedGroup" [("id", id)] ""
        (refs.map (fun r => .elem "RegionRef" [("regionRef", r)] "" []))]]

def nsUri (ns2019 : Bool) : String :=
  if ns2019 then "http://schema.primaresearch.org/PAGE/gts/pagecontent/2019-07-15"
  else "http://schema.primaresearch.org/PAGE/gts/pagecontent/2013-07-15"

def renderPage (p : SrcPage) : Xml :=
  .elem "Page"
    (optAttr "imageFilename" p.imageFilename
      ++ [("imageWidth", natStr p.width), ("imageHeight", natStr p.height)]) ""
    ((if p.roFirst then renderRO p.ro else [])
      ++ renderRegions p.regions ++ p.tables.map renderTable
      ++ (if p.roFirst then [] else renderRO p.ro))

def renderDoc (p : SrcPage) : Xml :=
  .elem "PcGts" [("xmlns", nsUri p.ns2019)] ""
    ((p.mdata.map renderMeta).toList ++ [renderPage p])

/-! ### parsed scan -/

inductive MetaVal where
  | str (s : String)
  | int (i : Int)
  | date (raw : String)
  | other
  deriving Repr, DecidableEq, Inhabited

structure Scan where
  id : String
  coords : Option Coords
  mdata : List (String × MetaVal)
  regions : List Region
  tables : List Table
  readingOrder : Option RO
  roAttrs : List (String × String)
  deriving Repr

/-- the value `parse_page_metadata` stores for a (truthy) field -/
def metaField (k : String) (v : PyVal) : Res MetaVal :=
  if k = "Created" || k = "LastChange" then
    match v with
    | .str s => .ok (.date s)
    | _ => .error .AttributeError
  else match v with
    | .str s => if allAsciiDigits s.toList then
        (match pyInt? s.toList with
         | some i => .ok (.int i)
         | none => .error .ValueError)
      else .ok (.str s)
    | _ => .ok .other

/-- `parse_page_metadata` -/
def parseMeta (v : PyVal) : Res (List (String × MetaVal)) :=
  match v with
  | .dict d => d.foldlM (fun acc kv => do
      if truthy kv.2 then return assocSet kv.1 (← metaField kv.1 kv.2) acc else return acc) []
  | _ => .error .TypeError

def pageBox (w h : Int) : List Pt := [(0, 0), (w, 0), (w, h), (0, h)]

def tableVal (hull : List Pt → Res (List Pt)) (v : PyVal) : Res (List Table) :=
  match v with
  | .list xs => xs.mapM (parseTable hull)
  | x => do return [← parseTable hull x]

/-- `if 'Metadata' in pc and pc['Metadata']: metadata = parse_page_metadata(...)`, then the
    `xmlns` test (the namespace declaration arrives as `@xmlns`, so this key is normally absent) -/
def scanMeta (pc : PyVal) : Res (List (String × MetaVal)) := do
  let hasMeta ← (do
    if ← pyIn "Metadata" pc then return truthy (← pyGet "Metadata" pc) else return false : Res Bool)
  let mdata ← (if hasMeta then do parseMeta (← pyGet "Metadata" pc) else pure [] : Res (List (String × MetaVal)))
  if ← pyIn "xmlns" pc then
    let v ← pyGet "xmlns" pc
    return assocSet "namespace" (match v with
      | .str s => MetaVal.str s
      | _ => .other) mdata
  else return mdata

/-- the scan id: the image file name if the Page has one, else the file name -/
def scanId (fname : String) (page : PyVal) : Res String := do
  if ← pyIn "@imageFilename" page then
    match ← pyGet "@imageFilename" page with
    | .str s => return s
    | _ => return fname
  else return fname

/-- image size: coordinates and the two metadata entries, unless width or height is `'0'` -/
def scanSize (page : PyVal) (mdata : List (String × MetaVal)) :
    Res (Option Coords × List (String × MetaVal)) := do
  let wS ← strOf (← pyGet "@imageWidth" page)
  let sized ← (if wS ≠ "0" then do
      let hS ← strOf (← pyGet "@imageHeight" page)
      return hS ≠ "0"
    else pure false : Res Bool)
  if sized then
    let hS ← strOf (← pyGet "@imageHeight" page)
    let w ← pyIntStr wS
    let h ← pyIntStr hS
    let c ← coordsOfPts (pageBox w h)
    return (some c, assocSet "scan_height" (MetaVal.int h) (assocSet "scan_width" (MetaVal.int w) mdata))
  else return (none, mdata)

def scanRegions (hull : List Pt → Res (List Pt)) (page : PyVal) : Res (List Region) := do
  if ← pyIn "TextRegion" page then
    return (← regionVal hull (← pyGet "TextRegion" page)).filterMap id
  else return []

def scanTables (hull : List Pt → Res (List Pt)) (page : PyVal) : Res (List Table) := do
  if ← pyIn "TableRegion" page then tableVal hull (← pyGet "TableRegion" page)
  else return []

def scanRO (page : PyVal) : Res (RO × List (String × String)) := do
  let hasRO ← (do
    if ← pyIn "ReadingOrder" page then return truthy (← pyGet "ReadingOrder" page) else return false : Res Bool)
  if hasRO then parseReadingOrder (← pyGet "ReadingOrder" page) else return ([], [])

/-- `parse_pagexml_json` followed by the observable part of `PageXMLScan.__init__`
    and the `filename` entry added by `parse_pagexml_file` -/
def parseScan (hull : List Pt → Res (List Pt)) (fname : String) (doc : PyVal) : Res Scan := do
  let pc ← (match doc with
    | .dict d => (match lookup "PcGts" d with
      | some pc => pure pc
      | none => .error .TypeError)
    | _ => .error .TypeError : Res PyVal)
  let mdata ← scanMeta pc
  let page ← pyGet "Page" pc
  let docId ← scanId fname page
  let (coords, mdata) ← scanSize page mdata
  let regions ← scanRegions hull page
  let tables ← scanTables hull page
  let (ro, roAttrs) ← scanRO page
  -- PageXMLScan.__init__ / PageXMLTextRegion.__init__
  let tables := tables.map padTable
  let ordered := orderRegions Region.id ro regions
  let mdata := assocSet "filename" (MetaVal.str fname) (assocSet "scan_id" (MetaVal.str docId) mdata)
  return { id := docId, coords := coords, mdata := mdata, regions := ordered.1, tables := tables,
           readingOrder := ordered.2, roAttrs := roAttrs }

/-! ### observations on a scan (C05 / C08) -/

/-- `scan.get_lines()`: `get_regions()` is `text_regions + table_regions` (the reading
    order dict is keyed by integers, so `tr.id in self.reading_order` is never true for
    string ids: the regions were already ordered by the constructor) -/
def Scan.getLines (s : Scan) : List Line :=
  allLinesList s.regions ++ (s.tables.map (·.allLines)).flatten

def Scan.regionsInReadingOrder (s : Scan) : List Region :=
  getInReadingOrder Region.id s.readingOrder s.regions

/-! ### the specification -/

def mirrorMetaField (k : String) (t : Option String) : List (String × MetaVal) :=
  match t with
  | none => []
  | some t =>
    match textVal t with
    | .str s =>
      if k = "Created" || k = "LastChange" then [(k, .date s)]
      else if allAsciiDigits s.toList then [(k, .int ((pyInt? s.toList).getD 0))]
      else [(k, .str s)]
    | _ => []

def mirrorMeta (m : Option SrcMeta) : List (String × MetaVal) :=
  match m with
  | none => []
  | some m => mirrorMetaField "Creator" m.creator ++ mirrorMetaField "Created" m.created
      ++ mirrorMetaField "LastChange" m.lastChange ++ mirrorMetaField "Comments" m.comments

/-- the reading order dict the ReadingOrder element denotes -/
def roOf : SrcRO → RO
  | .ordered _ _ refs => roOfEntries refs
  | _ => []

def roAttrsOf : SrcRO → List (String × String)
  | .ordered id caption refs =>
    if refs.isEmpty then [] else [("id", id)] ++ (match caption with
      | some c => [("caption", c)]
      | none => [])
  | _ => []

def mirrorScan (hullT : List Pt → List Pt) (fname : String) (p : SrcPage) : Scan :=
  let docId := p.imageFilename.getD fname
  let sized := p.width ≠ 0 && p.height ≠ 0
  let ordered := orderRegions Region.id (roOf p.ro) (mirrorRegions hullT p.regions)
  { id := docId
    coords := if sized then some (boxOf (pageBox p.width p.height)) else none
    mdata := mirrorMeta p.mdata
      ++ (if sized then [("scan_width", .int p.width), ("scan_height", .int p.height)] else [])
      ++ [("scan_id", .str docId), ("filename", .str fname)]
    regions := ordered.1
    tables := p.tables.map (fun t => padTable (mirrorTable hullT t))
    readingOrder := ordered.2
    roAttrs := roAttrsOf p.ro }

end Pagexml.Scan
