/-
Store model of the pagexml object graph (DESIGN §3.5, §7 C02).

Mirrors, statement by statement:
  pagexml/model/basic_document_model.py   StructureDoc.__init__/set_parent/set_as_parent/
                                          add_parent_id_to_metadata/add_type/remove_type/has_type/types,
                                          PhysicalStructureDoc.__init__/add_parent_id_to_metadata
  pagexml/model/pagexml_document_model.py constructors of PageXMLDoc, Word, TextLine, TextRegion, Column,
                                          Page, Scan, TableCell/Row/Region; add_child ×3; set_scan_id
  pagexml/model/physical_document_model.py set_parentage
  pagexml/parser.py                       the attribute assignments + set_as_parent calls of
                                          parse_textregion / parse_tableregion / make_rows_from_cells

Objects are nodes of a store (identity = index in `nodes`); every Python mutation is an update
of that store.  Python exceptions raised *after* a mutation has happened are outputs
(`Out.raised`), because the mutated objects stay observable; `.error` is only used for
requests that name a non-existing object and for exhausted recursion fuel.
-/
import PagexmlModel.Basic.Err

namespace Pagexml.C02

/-! ### classes, metadata values, type tags -/

inductive Cls where
  | word | line | region | column | page | scan | cell | row | table
  deriving DecidableEq, Repr, Inhabited

/-- the `main_type` every constructor of the class ends with -/
def Cls.mainType : Cls → String
  | .word => "word" | .line => "line" | .region => "text_region" | .column => "column"
  | .page => "page" | .scan => "scan" | .cell => "table_cell" | .row => "table_row"
  | .table => "table_region"

/-- `isinstance(x, PageXMLTextRegion)` -/
def Cls.isRegion : Cls → Bool
  | .region | .column | .page | .scan => true
  | _ => false

/-- a metadata value (also used for `doc.id`): `None`, a string, or anything else
    (carried as its JSON text; the model never looks inside) -/
inductive MVal where
  | none
  | str (s : String)
  | other (s : String)
  deriving DecidableEq, Repr, Inhabited

/-- a Python dict with string keys, in insertion order -/
abbrev Meta := List (String × MVal)

/-- `d[k] = v` -/
def mset : Meta → String → MVal → Meta
  | [], k, v => [(k, v)]
  | (k', v') :: r, k, v => if k' = k then (k, v) :: r else (k', v') :: mset r k v

/-- `d.get(k)` -/
def mget : Meta → String → Option MVal
  | [], _ => none
  | (k', v') :: r, k => if k' = k then some v' else mget r k

/-- `self.type`: a plain string or a list of strings -/
inductive PyType where
  | str (s : String)
  | list (l : List String)
  deriving DecidableEq, Repr, Inhabited

def PyType.toList : PyType → List String
  | .str s => [s]
  | .list l => l

/-- one round of `if doc_type not in self.type: self.type.append(doc_type)` -/
def addOne (acc : List String) (t : String) : List String :=
  if t ∈ acc then acc else acc ++ [t]

/-- `add_type(ts)` (a string argument is the one-element list) -/
def addTypes (ty : PyType) (ts : List String) : PyType :=
  .list (ts.foldl addOne ty.toList)

/-- one round of `if doc_type in self.type: self.type.remove(doc_type)` (`list.remove`
    deletes the first occurrence) -/
def removeOne (acc : List String) (t : String) : List String := acc.erase t

/-- `remove_type(ts)`: a list that is left with exactly one tag collapses to that string -/
def removeTypes (ty : PyType) (ts : List String) : PyType :=
  match ts.foldl removeOne ty.toList with
  | [t] => .str t
  | l => .list l

/-- `has_type(t)` -/
def hasType : PyType → String → Bool
  | .str s, t => t == s
  | .list l, t => l.contains t

/-- `types` (a Python set; observed as the duplicate-free list of its members) -/
def typeSet (ty : PyType) : List String := ty.toList.foldl addOne []

/-! ### nodes and the store -/

structure Node where
  cls : Cls
  id : MVal
  type : PyType
  mainType : String
  md : Meta
  parent : Option Nat := none
  text : Option String := none
  /-- `coords`: a token standing for the coordinate value, `none` = `None` -/
  coords : Option Nat := none
  /-- `_area`: `none` = not cached; `some t` = cached area of the coordinates with token `t`
      (`some none`: cached `0` of an element without coordinates) -/
  area : Option (Option Nat) := none
  pages : List Nat := []
  columns : List Nat := []
  extra : List Nat := []
  regions : List Nat := []
  tables : List Nat := []
  rows : List Nat := []
  cells : List Nat := []
  lines : List Nat := []
  words : List Nat := []
  deriving DecidableEq, Repr, Inhabited

/-- the text-hierarchy children (regions, lines, words) a node lists: what the property's
    first clause speaks about.  Table regions and rows list only rows / cells. -/
def Node.kids (nd : Node) : List Nat :=
  match nd.cls with
  | .table | .row => []
  | _ => nd.pages ++ nd.columns ++ nd.extra ++ nd.regions ++ nd.lines ++ nd.words

/-- everything a node lists, in the attribute order of `set_scan_id` -/
def Node.allKids (nd : Node) : List Nat :=
  nd.pages ++ nd.columns ++ nd.extra ++ nd.regions ++ nd.tables ++ nd.rows ++ nd.cells ++ nd.lines ++ nd.words

/-- `bool(obj)`: table regions and rows define `__len__` -/
def Node.truthy (nd : Node) : Bool :=
  match nd.cls with
  | .table => !nd.rows.isEmpty
  | .row => !nd.cells.isEmpty
  | _ => true

structure Store where
  nodes : List Node := []
  /-- counter for the tokens of derived coordinates -/
  tick : Nat := 0
  deriving Repr, Inhabited

def updAt {α} : List α → Nat → (α → α) → List α
  | [], _, _ => []
  | a :: l, 0, f => f a :: l
  | a :: l, n + 1, f => a :: updAt l n f

def Store.size (σ : Store) : Nat := σ.nodes.length
def Store.get? (σ : Store) (n : Nat) : Option Node := σ.nodes[n]?
def Store.upd (σ : Store) (n : Nat) (f : Node → Node) : Store := { σ with nodes := updAt σ.nodes n f }
def Store.alloc (σ : Store) (nd : Node) : Store := { σ with nodes := σ.nodes ++ [nd] }
def Store.has (σ : Store) (n : Nat) : Bool := n < σ.size

/-! ### set_parent, set_as_parent, set_scan_id, set_parentage -/

/-- the three keys `add_parent_id_to_metadata` writes, in its order -/
def provenance (pn : Node) (m : Meta) : Meta :=
  mset (mset (mset m "parent_type" (.str pn.mainType)) "parent_id" pn.id) (pn.mainType ++ "_id") pn.id

/-- `child.set_parent(parent)`: `self.parent = parent; self.add_parent_id_to_metadata()`
    (the metadata is written only `if self.parent:` — a falsy parent is an empty table / row) -/
def setParent1 (σ : Store) (c p : Nat) : Store :=
  match σ.get? p with
  | none => σ
  | some pn =>
    σ.upd c (fun nd => { nd with parent := some p,
                                 md := if pn.truthy then provenance pn nd.md else nd.md })

/-- `parent.set_as_parent(children)` -/
def setAsParent (σ : Store) (p : Nat) (cs : List Nat) : Store :=
  cs.foldl (fun s c => setParent1 s c p) σ

def setMeta (k : String) (v : MVal) (nd : Node) : Node := { nd with md := mset nd.md k v }

/-- `set_scan_id(doc, scan_id)`: recursion over the object graph, hence fuel
    (exhausted fuel is CPython's RecursionError on a cyclic structure) -/
def setScanId : Nat → Store → Nat → MVal → Res Store
  | 0, _, _, _ => .error .RecursionError
  | f + 1, σ, n, v =>
    match σ.get? n with
    | none => .error .KeyError
    | some nd =>
      nd.allKids.foldlM (fun s c => setScanId f s c v) (σ.upd n (setMeta "scan_id" v))

/-- `set_parentage(parent_doc)` of physical_document_model.py: re-link pages, columns,
    text regions, lines and words (not `extra`, not the table structure), recursively -/
def setParentage : Nat → Store → Nat → Res Store
  | 0, _, _ => .error .RecursionError
  | f + 1, σ, p =>
    match σ.get? p with
    | none => .error .KeyError
    | some nd => do
      let σ ← nd.pages.foldlM (fun s c => setParentage f s c) (setAsParent σ p nd.pages)
      let σ ← nd.columns.foldlM (fun s c => setParentage f s c) (setAsParent σ p nd.columns)
      let σ ← nd.regions.foldlM (fun s c => setParentage f s c) (setAsParent σ p nd.regions)
      let σ ← nd.lines.foldlM (fun s c => setParentage f s c) (setAsParent σ p nd.lines)
      nd.words.foldlM (fun s c => setParentage f s c) (setAsParent σ p nd.words)

/-! ### constructors -/

/-- constructor arguments shared by all classes -/
structure Args where
  id : MVal := .none
  /-- `metadata if metadata else {}` -/
  md : Meta := []
  /-- the caller's `doc_type` (a string is the one-element list; `None` / empty = `[]`) -/
  dtype : List String := []
  coords : Option Nat := none
  text : Option String := none
  deriving Repr, Inhabited

def Node.addType (nd : Node) (ts : List String) : Node := { nd with type := addTypes nd.type ts }
def Node.removeType (nd : Node) (ts : List String) : Node := { nd with type := removeTypes nd.type ts }

/-- `if doc_type: self.add_type(doc_type)` -/
def Node.addTypeIf (nd : Node) (ts : List String) : Node :=
  if ts.isEmpty then nd else nd.addType ts

/-- `StructureDoc.__init__(doc_id, doc_type='physical_structure_doc', metadata=…)` -/
def structInit (cls : Cls) (a : Args) : Node :=
  let nd : Node := { cls := cls, id := a.id, type := .str "structure_doc", mainType := "structure_doc",
                     md := a.md }
  let nd := nd.addType ["physical_structure_doc"]
  { nd with mainType := "physical_structure_doc" }

/-- `PhysicalStructureDoc.__init__(…, doc_type=docType)` -/
def physInit (cls : Cls) (a : Args) (docType : String) : Node :=
  let nd := structInit cls a
  let nd := { nd with coords := a.coords, area := none }
  let nd := { nd with mainType := docType }
  nd.addType [docType]

/-- `PageXMLDoc.__init__(…, doc_type=docType)` -/
def docInit (cls : Cls) (a : Args) (docType : String) : Node :=
  (physInit cls a docType).addType ["pagexml_doc"]

/-- outputs of one operation -/
inductive Out where
  | unit
  | node (n : Nat)
  /-- the call raised this exception; the store returned with it is the state left behind -/
  | raised (e : Err)
  | bool (b : Bool)
  | strs (l : List String)
  deriving Repr, DecidableEq

/-- `PageXMLWord(...)` -/
def mkWord (σ : Store) (a : Args) : Store × Out :=
  let nd := docInit .word a "word"
  let nd := { nd with mainType := "word", text := a.text }
  let nd := nd.addTypeIf a.dtype
  (σ.alloc nd, .node σ.size)

/-- `PageXMLTextLine(..., words=ws)` -/
def mkLine (σ : Store) (a : Args) (ws : List Nat) : Store × Out :=
  let n := σ.size
  let nd := docInit .line a "line"
  let nd := { nd with mainType := "line", text := a.text, words := ws }
  let nd := setMeta "type" (.str "line") nd
  let σ := σ.alloc nd
  let σ := setAsParent σ n ws
  let σ := σ.upd n (·.addTypeIf a.dtype)
  (σ, .node n)

/-- the part of a region-family constructor that `PageXMLTextRegion.__init__` executes
    (only the plain region passes a `text`; the subclasses leave it `None`):
    `cls` is the class being constructed (its `_main_type` is known before the children are
    attached), `dt` the `doc_type` argument that reaches `PageXMLTextRegion.__init__`
    (the caller's for a plain region, the class's own name for the subclasses).
    The node is created with all its child lists (nobody can observe the lists between the
    assignments); the lines are attached twice, as in the source. -/
def regionInit (σ : Store) (cls : Cls) (a : Args) (dt : List String) (nd0 : Node) : Store :=
  let n := σ.size
  let nd := docInit cls a "text_region"
  let nd := { nd with mainType := cls.mainType, text := nd0.text,
                      regions := nd0.regions, tables := nd0.tables, lines := nd0.lines,
                      columns := nd0.columns, extra := nd0.extra, pages := nd0.pages }
  let σ := σ.alloc nd
  let σ := setAsParent σ n nd0.lines
  let σ := setAsParent σ n nd0.lines
  let σ := setAsParent σ n nd0.regions
  σ.upd n (·.addTypeIf dt)

/-- child lists of a constructor call, carried in a node-shaped record -/
def kidsRec (lines regions tables columns extra pages : List Nat) (text : Option String := none) : Node :=
  { cls := .region, id := .none, type := .list [], mainType := "", md := [], text := text,
    lines := lines, regions := regions, tables := tables, columns := columns, extra := extra, pages := pages }

/-- `PageXMLTextRegion(...)` (`col = false`) / `PageXMLColumn(...)` (`col = true`) -/
def mkRegion (σ : Store) (col : Bool) (a : Args) (ls rs ts : List Nat) : Store × Out :=
  let n := σ.size
  if col then
    let σ := regionInit σ .column a ["column"] (kidsRec ls rs ts [] [] [])
    let σ := σ.upd n (fun nd => { nd with mainType := "column" })
    let σ := σ.upd n (·.addTypeIf a.dtype)
    (σ, .node n)
  else
    (regionInit σ .region a a.dtype (kidsRec ls rs ts [] [] [] a.text), .node n)

/-- `PageXMLPage(...)` -/
def mkPage (σ : Store) (a : Args) (ls rs ts cols extra : List Nat) : Store × Out :=
  let n := σ.size
  let σ := regionInit σ .page a ["page"] (kidsRec ls rs ts cols extra [])
  let σ := σ.upd n (fun nd => { nd with mainType := "page" })
  let σ := setAsParent σ n cols
  let σ := setAsParent σ n extra
  let σ := σ.upd n (·.addTypeIf a.dtype)
  (σ, .node n)

/-- `PageXMLScan(...)`; the last statement records the scan id on everything below -/
def mkScan (σ : Store) (a : Args) (ls rs ts cols pages : List Nat) : Res (Store × Out) := do
  let n := σ.size
  let σ := regionInit σ .scan a ["scan"] (kidsRec ls rs ts cols [] pages)
  let σ := σ.upd n (fun nd => { nd with mainType := "scan" })
  let σ := setAsParent σ n pages
  let σ := setAsParent σ n cols
  let σ := σ.upd n (·.addTypeIf a.dtype)
  let σ ← setScanId (σ.size + 1) σ n a.id
  return (σ, .node n)

/-- `PageXMLTableCell(..., lines=ls)`: the lines are attached; the cell value joins the texts of
    the lines that have one (since the repair d748213 a line without text no longer raises) -/
def mkCell (σ : Store) (a : Args) (ls : List Nat) : Store × Out :=
  let n := σ.size
  let nd := docInit .cell a "table_cell"
  let nd := { nd with mainType := "table_cell", lines := ls }
  let σ := σ.alloc nd
  let σ := setAsParent σ n ls
  (σ.upd n (·.addTypeIf a.dtype), .node n)

/-- `PageXMLTableRow(..., cells=cs)` (cells with one common row index and integer columns;
    the constructor does not link the cells; `cells[0].row` raises IndexError for `cells=[]`
    before anything was linked: no object comes into being) -/
def mkRow (σ : Store) (a : Args) (cs : List Nat) : Store × Out :=
  if cs.isEmpty then (σ, .raised .IndexError) else
  let nd := docInit .row a "table_row"
  let nd := { nd with mainType := "table_row", cells := cs }
  (σ.alloc (nd.addTypeIf a.dtype), .node σ.size)

/-- `PageXMLTableRegion(..., rows=rs)` -/
def mkTable (σ : Store) (a : Args) (rs : List Nat) : Store × Out :=
  let nd := docInit .table a "table_region"
  let nd := { nd with mainType := "table_region", rows := rs }
  (σ.alloc (nd.addTypeIf a.dtype), .node σ.size)

/-! ### add_child -/

def clsOf (σ : Store) (n : Nat) : Option Cls := (σ.get? n).map (·.cls)

/-- `if 'scan_id' in self.metadata: set_scan_id(child, self.metadata['scan_id'])` -/
def propagateScanId (σ : Store) (p c : Nat) : Res Store :=
  match σ.get? p with
  | none => .error .KeyError
  | some pn =>
    match mget pn.md "scan_id" with
    | none => .ok σ
    | some v => setScanId (σ.size + 1) σ c v

/-- `self.coords = parse_derived_coords(docs)`: AttributeError when one of `docs` has no
    coordinates (`None.points`), else new coordinates (fresh token) and the area cache is dropped -/
def deriveCoords (σ : Store) (p : Nat) (docs : List Nat) : Store × Out :=
  if docs.any (fun d => match σ.get? d with | some dn => dn.coords.isNone | none => true) then
    (σ, .raised .AttributeError)
  else
    ({ (σ.upd p (fun nd => { nd with coords := some σ.tick, area := none })) with tick := σ.tick + 1 }, .unit)

/-- the tail of `add_child` of regions and pages: scan id, then derived coordinates over
    `docsOf self` -/
def finishAdd (σ : Store) (p c : Nat) (docsOf : Node → List Nat) : Res (Store × Out) := do
  let σ ← propagateScanId σ p c
  match σ.get? p with
  | none => .error .KeyError
  | some pn => return deriveCoords σ p (docsOf pn)

/-- `PageXMLTextRegion.add_child` (also used by `PageXMLColumn`) -/
def addChildRegion (σ : Store) (p c : Nat) (cc : Cls) : Res (Store × Out) :=
  let σ := setParent1 σ c p
  if cc = .line then
    finishAdd (σ.upd p (fun nd => { nd with lines := nd.lines ++ [c] })) p c (fun pn => pn.regions ++ pn.lines)
  else if cc.isRegion then
    finishAdd (setAsParent (σ.upd p (fun nd => { nd with regions := nd.regions ++ [c] })) p [c]) p c
      (fun pn => pn.regions ++ pn.lines)
  else
    .ok (σ, .raised .TypeError)

def pageDocs (pn : Node) : List Nat := pn.extra ++ pn.columns ++ pn.regions ++ pn.lines

/-- `PageXMLPage.add_child(child, as_extra)` -/
def addChildPage (σ : Store) (p c : Nat) (cc : Cls) (asExtra : Bool) : Res (Store × Out) :=
  let σ := setParent1 σ c p
  if asExtra && cc.isRegion then
    finishAdd (σ.upd p (fun nd => { nd with extra := nd.extra ++ [c] })) p c pageDocs
  else if cc = .column then
    finishAdd (σ.upd p (fun nd => { nd with columns := nd.columns ++ [c] })) p c pageDocs
  else if cc = .line then
    finishAdd (σ.upd p (fun nd => { nd with lines := nd.lines ++ [c] })) p c pageDocs
  else if cc.isRegion then
    finishAdd (σ.upd p (fun nd => { nd with regions := nd.regions ++ [c] })) p c pageDocs
  else
    .ok (σ, .raised .TypeError)

/-- `PageXMLScan.add_child` (no `else` branch, no derived coordinates) -/
def addChildScan (σ : Store) (p c : Nat) (cc : Cls) : Res (Store × Out) := do
  let σ := setParent1 σ c p
  let σ :=
    if cc = .page then σ.upd p (fun nd => { nd with pages := nd.pages ++ [c] })
    else if cc = .column then σ.upd p (fun nd => { nd with columns := nd.columns ++ [c] })
    else if cc.isRegion then σ.upd p (fun nd => { nd with regions := nd.regions ++ [c] })
    else if cc = .line then σ.upd p (fun nd => { nd with lines := nd.lines ++ [c] })
    else σ
  match σ.get? p with
  | none => .error .KeyError
  | some pn =>
    let σ ← setScanId (σ.size + 1) σ c pn.id
    return (σ, .unit)

/-! ### operations -/

inductive Op where
  | mkWord (a : Args)
  | mkLine (a : Args) (words : List Nat)
  | mkRegion (col : Bool) (a : Args) (lines regions tables : List Nat)
  | mkPage (a : Args) (lines regions tables columns extra : List Nat)
  | mkScan (a : Args) (lines regions tables columns pages : List Nat)
  | mkCell (a : Args) (lines : List Nat)
  | mkRow (a : Args) (cells : List Nat)
  | mkTable (a : Args) (rows : List Nat)
  | addChild (p c : Nat) (asExtra : Bool)
  | setParent (c p : Nat)
  | setAsParent (p : Nat) (cs : List Nat)
  /-- parser: `region.lines = cs; region.set_as_parent(region.lines)` -/
  | attachLines (p : Nat) (cs : List Nat)
  /-- parser: `region.text_regions = cs; region.set_as_parent(region.text_regions)` -/
  | attachRegions (p : Nat) (cs : List Nat)
  /-- parser: `table.rows = cs; table.set_as_parent(table.rows)` -/
  | attachRows (p : Nat) (cs : List Nat)
  | setParentage (p : Nat)
  | addType (n : Nat) (ts : List String)
  | removeType (n : Nat) (ts : List String)
  | hasType (n : Nat) (t : String)
  | types (n : Nat)
  /-- parser: `scan_doc.metadata['filename'] = pagexml_file` -/
  | setFilename (n : Nat) (v : String)
  deriving Repr

/-- the object ids an operation mentions -/
def Op.refs : Op → List Nat
  | .mkWord _ => []
  | .mkLine _ ws => ws
  | .mkRegion _ _ ls rs ts => ls ++ rs ++ ts
  | .mkPage _ ls rs ts cols ex => ls ++ rs ++ ts ++ cols ++ ex
  | .mkScan _ ls rs ts cols pages => ls ++ rs ++ ts ++ cols ++ pages
  | .mkCell _ ls => ls
  | .mkRow _ cs => cs
  | .mkTable _ rs => rs
  | .addChild p c _ => [p, c]
  | .setParent c p => [c, p]
  | .setAsParent p cs => p :: cs
  | .attachLines p cs => p :: cs
  | .attachRegions p cs => p :: cs
  | .attachRows p cs => p :: cs
  | .setParentage p => [p]
  | .addType n _ => [n]
  | .removeType n _ => [n]
  | .hasType n _ => [n]
  | .types n => [n]
  | .setFilename n _ => [n]

/-- one operation; a request naming an object that does not exist is `.error KeyError` -/
def step (σ : Store) (op : Op) : Res (Store × Out) :=
  if !(op.refs.all σ.has) then .error .KeyError else
  match op with
  | .mkWord a => .ok (mkWord σ a)
  | .mkLine a ws => .ok (mkLine σ a ws)
  | .mkRegion col a ls rs ts => .ok (mkRegion σ col a ls rs ts)
  | .mkPage a ls rs ts cols ex => .ok (mkPage σ a ls rs ts cols ex)
  | .mkScan a ls rs ts cols pages => mkScan σ a ls rs ts cols pages
  | .mkCell a ls => .ok (mkCell σ a ls)
  | .mkRow a cs => .ok (mkRow σ a cs)
  | .mkTable a rs => .ok (mkTable σ a rs)
  | .addChild p c asExtra =>
    match clsOf σ p, clsOf σ c with
    | some .region, some cc => addChildRegion σ p c cc
    | some .column, some cc => addChildRegion σ p c cc
    | some .page, some cc => addChildPage σ p c cc asExtra
    | some .scan, some cc => addChildScan σ p c cc
    | some _, some _ => .ok (σ, .raised .AttributeError)     -- the class has no add_child
    | _, _ => .error .KeyError
  | .setParent c p => .ok (setParent1 σ c p, .unit)
  | .setAsParent p cs => .ok (setAsParent σ p cs, .unit)
  | .attachLines p cs => .ok (setAsParent (σ.upd p (fun nd => { nd with lines := cs })) p cs, .unit)
  | .attachRegions p cs => .ok (setAsParent (σ.upd p (fun nd => { nd with regions := cs })) p cs, .unit)
  | .attachRows p cs => .ok (setAsParent (σ.upd p (fun nd => { nd with rows := cs })) p cs, .unit)
  | .setParentage p => do
    let σ ← setParentage (σ.size + 1) σ p
    return (σ, .unit)
  | .addType n ts => .ok (σ.upd n (·.addType ts), .unit)
  | .removeType n ts => .ok (σ.upd n (·.removeType ts), .unit)
  | .hasType n t =>
    match σ.get? n with
    | some nd => .ok (σ, .bool (hasType nd.type t))
    | none => .error .KeyError
  | .types n =>
    match σ.get? n with
    | some nd => .ok (σ, .strs (typeSet nd.type))
    | none => .error .KeyError
  | .setFilename n v => .ok (σ.upd n (setMeta "filename" (.str v)), .unit)

/-! ### the tree discipline (decidable precondition of the invariants) -/

/-- no container lists `c` -/
def Store.free (σ : Store) (c : Nat) : Bool := σ.nodes.all (fun nd => !nd.allKids.contains c)

/-- no container other than `p` lists `c` -/
def Store.onlyBy (σ : Store) (c p : Nat) : Bool :=
  (List.range σ.size).all (fun n => n == p ||
    match σ.get? n with
    | some nd => !nd.allKids.contains c
    | none => true)

def Store.notScan (σ : Store) (c : Nat) : Bool := clsOf σ c != some .scan

/-- the child ids a node lists (`[]` for an id that names no object) -/
def Store.kidsOf (σ : Store) (k : Nat) : List Nat :=
  match σ.get? k with
  | some nd => nd.allKids
  | none => []

def addNew (acc : List Nat) (m : Nat) : List Nat := if m ∈ acc then acc else acc ++ [m]

/-- one more level: the set `s` together with everything its members list -/
def Store.grow (σ : Store) (s : List Nat) : List Nat := (s.flatMap σ.kidsOf).foldl addNew s

/-- everything reachable from `s` through child lists in at most `fuel` steps -/
def Store.closure (σ : Store) : Nat → List Nat → List Nat
  | 0, s => s
  | f + 1, s => σ.closure f (σ.grow s)

/-- `p` is `c` or sits below `c` (decided by exploring at most `size` levels below `c`; on the
    forests the discipline maintains no chain is longer than that — `C02_depth_le_size`) -/
def Store.reaches (σ : Store) (c p : Nat) : Bool := (σ.closure σ.size [c]).contains p

/-- the tags the statement demands on every element of class `c` -/
def Cls.tags (c : Cls) : List String := [c.mainType, "structure_doc", "physical_structure_doc", "pagexml_doc"]

/-- the children handed to a constructor -/
def Op.newKids : Op → List Nat
  | .mkLine _ ws => ws
  | .mkRegion _ _ ls rs ts => ls ++ rs ++ ts
  | .mkPage _ ls rs ts cols ex => ls ++ rs ++ ts ++ cols ++ ex
  | .mkScan _ ls rs ts cols pages => ls ++ rs ++ ts ++ cols ++ pages
  | .mkCell _ ls => ls
  | .mkRow _ cs => cs
  | .mkTable _ rs => rs
  | _ => []

/-- The histories for which the invariants are claimed (the property's "trees"): an element is
    attached only while no container lists it, and never below itself (`add_child` of the container
    itself or of one of its ancestors would close a cycle); a scan is never attached;
    `set_parent` / `set_as_parent` are called with the element's own container (or for an
    unlisted element); the parser's attach statements act on a region / table that is not yet
    attached itself (and do not attach it to itself); the tags the statement demands are not
    removed. -/
def Pre (σ : Store) (op : Op) : Bool :=
  op.refs.all σ.has &&
  match op with
  | .addChild p c _ => σ.free c && σ.notScan c && !σ.reaches c p
  | .setParent c p => σ.onlyBy c p && σ.notScan c
  | .setAsParent p cs => cs.all (fun c => σ.onlyBy c p && σ.notScan c)
  | .attachLines p cs | .attachRegions p cs | .attachRows p cs =>
    σ.free p && σ.notScan p && cs.all (fun c => σ.onlyBy c p && σ.notScan c) && cs.all (fun c => c != p)
  | .removeType n ts =>
    match clsOf σ n with
    | some c => ts.all (fun t => !c.tags.contains t)
    | none => false
  | op => op.newKids.all (fun c => σ.free c && σ.notScan c)

/-- a history: the operations in order, stopping at the first `.error` -/
def run (σ : Store) : List Op → Res Store
  | [] => .ok σ
  | op :: ops =>
    match step σ op with
    | .ok (σ', _) => run σ' ops
    | .error e => .error e

def Store.empty : Store := {}

/-- every operation of the history meets the precondition in the state it is applied to -/
def runPre (σ : Store) : List Op → Bool
  | [] => true
  | op :: ops =>
    Pre σ op &&
    match step σ op with
    | .ok (σ', _) => runPre σ' ops
    | .error _ => true

end Pagexml.C02
