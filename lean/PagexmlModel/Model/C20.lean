/-
Model of pagexml/analysis/text_stats.py (line analysers, keyness direction, word statistics,
words-per-line), pagexml/analysis/stats.py (get_doc_stats) and the line-width tables of
pagexml/analysis/layout_stats.py.  Transcribed statement by statement; see DESIGN §7 C20.

Tokens are abstract (`α` with decidable equality).  The tokeniser is a parameter (`LineOps.tok`):
for the character analyser it lists the characters of the line, for the word analyser it is
`text_helper.get_line_words` (modelled by C17).  Lower-casing (`str.lower`) and the emptiness
test are parameters as well, so every theorem holds for every tokeniser.

Defaults and literals of the source (default `max_word_length` / `line_bin_width` / `max_bin` of get_doc_stats,
the bin sizes that reach `_init_doc_stats` and `get_word_cat_stats`, the defaults of `get_word_cat_stats`,
DEFAULT_ELEMENTS, `prev_point = 0` of the two line-width functions) are NOT written here: they come from
Generated/C20.lean, rewritten from the working tree on every run.  What stays hand-written (the names of the
columns, the bounds `1 … max_word_length` of the binning loops) is tied to the source by the obligations of
Lemmas/C20Consts.lean.
-/
import PagexmlModel.Basic.Err
import PagexmlModel.Generated.C20

namespace Pagexml.C20

/-- drop repeated elements, keeping first occurrences (keys of a dict / elements of a set) -/
def dedupKeep {β : Type} [DecidableEq β] : List β → List β
  | [] => []
  | x :: r => x :: (dedupKeep r).filter (fun y => decide (y ≠ x))

/-! ### `collections.Counter` -/

/-- a Python `Counter`: association list in insertion order (keys unique in every reachable
    value; `cget` adds up all entries of a key, so no lemma needs the uniqueness) -/
abbrev Counter (α : Type) := List (α × Nat)

section counter
variable {α : Type} [DecidableEq α]

/-- `c[t]` (0 for a missing key) -/
def cget : Counter α → α → Nat
  | [], _ => 0
  | (k, n) :: r, t => (if k = t then n else 0) + cget r t

/-- `c[t] += n` (an absent key is inserted at the end) -/
def cinc : Counter α → α → Nat → Counter α
  | [], t, n => [(t, n)]
  | (k, m) :: r, t, n => if k = t then (k, m + n) :: r else (k, m) :: cinc r t n

/-- `c.update(tokens)` -/
def cupdate (c : Counter α) (toks : List α) : Counter α := toks.foldl (fun c t => cinc c t 1) c

/-- `sum(c.values())` -/
def ctotal (c : Counter α) : Nat := (c.map (·.2)).sum

def ckeys (c : Counter α) : List α := c.map (·.1)

/-- `t in c` -/
def chas (c : Counter α) (t : α) : Bool := (ckeys c).contains t

/-- `Counter.__add__`: counts added key by key (keys of `a` first, then the new keys of `b`),
    only positive counts kept -/
def cadd (a b : Counter α) : Counter α :=
  (b.foldl (fun acc p => cinc acc p.1 p.2) a).filter (fun p => 0 < p.2)

end counter

/-! ### line analysers -/

/-- one element of the `text_lines` iterable as `get_line_text` sees it -/
inductive LineIn (L : Type) where
  | text (t : L)        -- a str, a dict with 'text', or a PageXMLTextLine with text
  | none                -- None, or a dict / line whose text is None
  | dictNoText          -- a dict without 'text': KeyError
  | badType             -- anything else: TypeError
  deriving Repr

/-- what the analysers do with a line text -/
structure LineOps (L α : Type) where
  isEmpty : L → Bool        -- `len(line_text) == 0`
  lower : L → L             -- `line_text.lower()`
  tok : L → List α          -- characters of the line / `get_line_words(line, word_break_chars)`

structure Analyser (α : Type) where
  all : Counter α := []
  start : Counter α := []
  mid : Counter α := []
  end_ : Counter α := []
  numLines : Nat := 0
  deriving Repr

section analyser
variable {L α : Type} [DecidableEq α]

/-- one round of `_iter_lines`: `none` = skipped, `some l` = yielded (lower-cased under
    ignorecase) -/
def prepLine (ops : LineOps L α) (ic : Bool) : LineIn L → Res (Option L)
  | .dictNoText => .error .KeyError
  | .badType => .error .TypeError
  | .none => .ok none
  | .text t => .ok (if ops.isEmpty t then none else some (if ic then ops.lower t else t))

/-- `text_helper.split_line_words` -/
def splitLineWords : List α → List α × List α × List α
  | [] => ([], [], [])
  | w :: rest => ([w], rest.dropLast, [(w :: rest).getLast (by simp)])

/-- body of the loop of `analyse_line_words` -/
def wordsStep (a : Analyser α) (ws : List α) : Analyser α :=
  let (s, m, e) := splitLineWords ws
  { mid := cupdate a.mid m, start := cupdate a.start s, end_ := cupdate a.end_ e,
    all := cupdate a.all ws, numLines := a.numLines + 1 }

/-- body of the loop of `analyse_line_chars`; `line_text[0]` on an empty token list is an
    IndexError (unreachable when the tokeniser lists the characters of a non-empty line) -/
def charsStep (a : Analyser α) (cs : List α) : Res (Analyser α) :=
  match cs with
  | [] => .error .IndexError
  | c :: rest =>
    let a1 := { a with all := cupdate a.all (c :: rest), start := cupdate a.start [c] }
    match rest with
    | [] => .ok a1
    | r :: rs =>
      let last := (r :: rs).getLast (by simp)
      .ok { a1 with end_ := cupdate a1.end_ [last], mid := cupdate a1.mid (r :: rs).dropLast }

/-- the loop of `analyse_line_words` (without the final `set_stats`) -/
def analyseWords (ops : LineOps L α) (ic : Bool) (a : Analyser α) : List (LineIn L) → Res (Analyser α)
  | [] => .ok a
  | x :: r =>
    match prepLine ops ic x with
    | .error e => .error e
    | .ok none => analyseWords ops ic a r
    | .ok (some l) => analyseWords ops ic (wordsStep a (ops.tok l)) r

/-- the loop of `analyse_line_chars` -/
def analyseChars (ops : LineOps L α) (ic : Bool) (a : Analyser α) : List (LineIn L) → Res (Analyser α)
  | [] => .ok a
  | x :: r =>
    match prepLine ops ic x with
    | .error e => .error e
    | .ok none => analyseChars ops ic a r
    | .ok (some l) =>
      match charsStep a (ops.tok l) with
      | .error e => .error e
      | .ok a' => analyseChars ops ic a' r

/-- a fraction `num/den` (`den ≠ 0`); the float the code stores is `num/den` -/
abbrev Frac := Nat × Nat

structure Stats where
  totalAll : Nat
  totalMid : Nat
  totalEnd : Nat
  totalStart : Nat
  totalLines : Nat
  deriving Repr, DecidableEq

/-- `x / total if total else 0.0` -/
def guardedFrac (n total : Nat) : Frac := if total = 0 then (0, 1) else (n, total)

/-- one row of `frac`: token, all, start, mid, end -/
abbrev FracRow (α : Type) := α × Frac × Frac × Frac × Frac

/-- `set_stats`: totals, and for every key of `freq['all']` the four fractions; the `all`
    fraction divides by `all_total` unguarded (ZeroDivisionError when a key is present while
    the total is 0, which needs a zero count) -/
def setStats (a : Analyser α) : Res (Stats × List (FracRow α)) := do
  let allT := ctotal a.all
  let startT := ctotal a.start
  let midT := ctotal a.mid
  let endT := ctotal a.end_
  let rows ← (ckeys a.all).mapM (fun t =>
    if allT = 0 then (.error .ZeroDivisionError : Res (FracRow α))
    else .ok (t, (cget a.all t, allT), guardedFrac (cget a.start t) startT,
              guardedFrac (cget a.mid t) midT, guardedFrac (cget a.end_ t) endT))
  return ({ totalAll := allT, totalMid := midT, totalEnd := endT, totalStart := startT,
            totalLines := a.numLines }, rows)

/-- `frac[x][t] / frac['all'][t]` as an exact fraction (`0.0 / y = 0.0`; `y = 0.0` raises) -/
def relFrac (f fall : Frac) : Res Frac :=
  if fall.1 = 0 then .error .ZeroDivisionError
  else if f.1 = 0 then .ok (0, 1)
  else .ok (f.1 * fall.2, f.2 * fall.1)

structure StatRow (α : Type) where
  token : α
  allFreq : Nat
  allFrac : Frac
  startFreq : Nat
  startFrac : Frac
  startRel : Frac
  midFreq : Nat
  midFrac : Frac
  midRel : Frac
  endFreq : Nat
  endFrac : Frac
  endRel : Frac

/-- one row of `get_stats` -/
def statRow (a : Analyser α) (x : FracRow α) : Res (StatRow α) := do
  let t := x.fst
  let fa := x.snd.fst
  let fs := x.snd.snd.fst
  let fm := x.snd.snd.snd.fst
  let fe := x.snd.snd.snd.snd
  let rs ← relFrac fs fa
  let rm ← relFrac fm fa
  let re ← relFrac fe fa
  return { token := t, allFreq := cget a.all t, allFrac := fa,
           startFreq := cget a.start t, startFrac := fs, startRel := rs,
           midFreq := cget a.mid t, midFrac := fm, midRel := rm,
           endFreq := cget a.end_ t, endFrac := fe, endRel := re }

/-- `get_stats` (one row per key of `freq['all']`; the code lists them in `most_common`
    order, the harness compares rows as a set) after `set_stats` -/
def getStats (a : Analyser α) : Res (List (StatRow α)) := do
  let (_, rows) ← setStats a
  rows.mapM (statRow a)

/-- the final `set_stats()` of a constructor / `__add__` / `merge_analysers` -/
def withStats (a : Analyser α) : Res (Analyser α × Stats) :=
  match setStats a with
  | .ok p => .ok (a, p.1)
  | .error e => .error e

/-- `LineWordAnalyser(text_lines)`: analyse, then `set_stats` -/
def lineWordAnalyser (ops : LineOps L α) (ic : Bool) (c : List (LineIn L)) : Res (Analyser α × Stats) :=
  match analyseWords ops ic {} c with
  | .ok a => withStats a
  | .error e => .error e

/-- `LineCharAnalyser(text_lines)` -/
def lineCharAnalyser (ops : LineOps L α) (ic : Bool) (c : List (LineIn L)) : Res (Analyser α × Stats) :=
  match analyseChars ops ic {} c with
  | .ok a => withStats a
  | .error e => .error e

/-- the counters and line count of `a + b` -/
def addCore (a b : Analyser α) : Analyser α :=
  { mid := cadd a.mid b.mid, end_ := cadd a.end_ b.end_, all := cadd a.all b.all,
    start := cadd a.start b.start, numLines := a.numLines + b.numLines }

/-- `LineAnalyser.__add__` -/
def addAnalysers (a b : Analyser α) : Res (Analyser α × Stats) := withStats (addCore a b)

/-- the inner loop of `merge_analysers` for one analyser: for every key of its `all`
    counter, add its counts (start / mid / end only when the key is present there) -/
def mergeOne (m a : Analyser α) : Analyser α :=
  a.all.foldl (fun m p =>
    { m with
      all := cinc m.all p.1 p.2,
      start := if chas a.start p.1 then cinc m.start p.1 (cget a.start p.1) else m.start,
      mid := if chas a.mid p.1 then cinc m.mid p.1 (cget a.mid p.1) else m.mid,
      end_ := if chas a.end_ p.1 then cinc m.end_ p.1 (cget a.end_ p.1) else m.end_ }) m

def mergeCore (as : List (Analyser α)) : Analyser α :=
  { as.foldl mergeOne {} with numLines := (as.map (·.numLines)).sum }

/-- `merge_analysers` for analysers of one token type and one ignorecase setting
    (`line_analysers[0]` on an empty list is an IndexError) -/
def mergeAnalysers (as : List (Analyser α)) : Res (Analyser α × Stats) :=
  match as with
  | [] => .error .IndexError
  | _ => withStats (mergeCore as)

end analyser

/-! ### keyness -/

/-- the 2×2 contingency table of `get_observed` -/
structure Table where
  a : Int   -- token in target
  b : Int   -- token in reference
  c : Int   -- other tokens in target
  d : Int   -- other tokens in reference
  deriving Repr, DecidableEq

def Table.n (t : Table) : Int := t.a + t.b + t.c + t.d

/-- `observed[0, 0] > expected[0, 0]` with `expected[0,0] = (a+b)(a+c)/N`, read exactly
    (for `N > 0`: multiply by `N`; for `N = 0` numpy gives nan and the comparison is false,
    and so is `a·0 > …` with all four cells 0) -/
def Table.more (t : Table) : Bool := decide (t.a * t.n > (t.a + t.b) * (t.a + t.c))

/-- the table of the swapped comparison (target and reference exchanged) -/
def Table.swap (t : Table) : Table := { a := t.b, b := t.a, c := t.d, d := t.c }

section keyness
variable {α : Type} [DecidableEq α]

def observed (tok : α) (target : Counter α) (targetTotal : Nat) (ref : Counter α) (refTotal : Nat) : Table :=
  let a : Int := if chas target tok then cget target tok else 0
  let b : Int := if chas ref tok then cget ref tok else 0
  { a := a, b := b, c := (targetTotal : Int) - a, d := (refTotal : Int) - b }

/-- `set(list(target.keys()) + list(reference.keys()))` as a duplicate-free list -/
def keynessVocab (target ref : Counter α) : List α := dedupKeep (ckeys target ++ ckeys ref)

/-- `compute_keyness`: for every vocabulary token its table and direction
    (`true` = 'more', `false` = 'less'); the score is a float and not part of the model -/
def computeKeyness (target ref : Counter α) (vocab : Option (List α)) : List (α × Table × Bool) :=
  let v := match vocab with
    | some v => v
    | none => keynessVocab target ref
  let tt := ctotal target
  let rt := ctotal ref
  v.map (fun tok => let t := observed tok target tt ref rt; (tok, t, t.more))

/-- the reference counter of `compute_complement_keyness`: `all − target` for every key of
    `all` (zero entries are kept, as in the code; the subtraction is an integer one, the
    harness only uses targets that are sub-counters of `all`) -/
def complementCounter (all target : Counter α) : Counter α :=
  (ckeys all).foldl (fun r t => cinc (r.filter (fun p => p.1 ≠ t)) t (cget all t - cget target t)) []

end keyness

/-! ### word statistics (`get_word_cat_stats`) -/

/-- how the code classifies a word (`len`, `str.isalpha`, `isdigit`, `istitle`,
    all-punctuation, membership of the stop-word list) -/
structure WordClass (W : Type) where
  len : W → Nat
  isAlpha : W → Bool
  isDigit : W → Bool
  isTitle : W → Bool
  isPunct : W → Bool
  isStop : W → Bool

/-- number of list elements satisfying `p` (`len([w for w in words if p(w)])`) -/
def countP {W : Type} (p : W → Bool) (ws : List W) : Nat := (ws.filter p).length

/-- one step of the bin loop: state = bins with the current one first -/
def binStep (size : Nat) (freq : Nat → Nat) (st : List (Nat × Nat)) (wl : Nat) : List (Nat × Nat) :=
  match st with
  | [] => []
  | (b, n) :: r =>
    if wl > b then
      (if size = 0 then (b, freq wl) :: r else (b + size, freq wl) :: (b, n) :: r)
    else (b, n + freq wl) :: r

/-- the `num_words_length_<bin>` entries, in insertion order -/
def lengthBins (size maxLen : Nat) (freq : Nat → Nat) : List (Nat × Nat) :=
  ((List.range' 1 maxLen).foldl (binStep size freq) [(size, 0)]).reverse

structure WordCatStats where
  numWords : Nat
  numAlpha : Nat
  numNumber : Nat
  numTitle : Nat
  numNonTitle : Nat
  numStop : Option Nat
  numPunct : Nat
  numOversized : Nat
  bins : List (Nat × Nat)
  deriving Repr, DecidableEq

def wordCatStats {W : Type} (cls : WordClass W) (useStop : Bool) (maxLen size : Nat) (ws : List W) : WordCatStats :=
  { numWords := ws.length,
    numAlpha := countP cls.isAlpha ws,
    numNumber := countP cls.isDigit ws,
    numTitle := countP cls.isTitle ws,
    numNonTitle := countP (fun w => !cls.isTitle w) ws,
    numStop := if useStop then some (countP cls.isStop ws) else none,
    numPunct := countP cls.isPunct ws,
    numOversized := countP (fun w => decide (cls.len w > maxLen)) ws,
    bins := lengthBins size maxLen
      (fun wl => countP (fun w => decide (cls.len w ≤ maxLen) && decide (cls.len w = wl)) ws) }

/-! ### words per line (`get_words_per_line`, tables generated from the module) -/

/-- category (index into `Generated.wplCats`) of a line with `n` words -/
def wplCatIdx (n : Nat) : Nat :=
  match Generated.C20.wplToCat[n]? with
  | some i => i
  | none => Generated.C20.wplOverflow

def wplLabel (i : Nat) : String :=
  match Generated.C20.wplCats[i]? with
  | some (s, _, _) => s
  | none => ""

/-- the `Counter` of range labels, one update per line -/
def wordsPerLine {W : Type} (cls : WordClass W) (alphaOnly : Bool) (lines : List (List W)) : Counter String :=
  cupdate [] (lines.map (fun ws =>
    wplLabel (wplCatIdx (if alphaOnly then (ws.filter cls.isAlpha).length else ws.length))))

/-! ### line widths (`layout_stats`) -/

/-- a width range `"<prev>-<bp>"` / `"<prev>-"` -/
abbrev WidthRange := Int × Option Int

def categoriseFrom (prev : Int) (w : Int) : List Int → WidthRange
  | [] => (prev, none)
  | bp :: r => if bp > w then (prev, some bp) else categoriseFrom bp w r

/-- `prev_point = N` at the start of `categorise_line_width` / of `get_boundary_width_ranges`
    (regenerated from the source; the theorems need them to be equal: `consts_width_starts_agree`) -/
def catStart : Int := Generated.C20.catWidthStart
def rangesStart : Int := Generated.C20.rangesWidthStart

/-- `categorise_line_width` -/
def categoriseLineWidth (w : Int) (bps : List Int) : WidthRange := categoriseFrom catStart w bps

def rangesFrom (prev : Int) : List Int → List WidthRange
  | [] => [(prev, none)]
  | bp :: r => (prev, some bp) :: rangesFrom bp r

/-- `get_boundary_width_ranges` -/
def boundaryWidthRanges (bps : List Int) : List WidthRange := rangesFrom rangesStart bps

/-- `counter[key] = 0` -/
def csetZero {α : Type} [DecidableEq α] (c : Counter α) (t : α) : Counter α :=
  if chas c t then c.map (fun p => if p.1 = t then (p.1, 0) else p) else c ++ [(t, 0)]

/-- `get_line_width_stats` -/
def lineWidthStats (widths : List Int) (bps : List Int) : Counter WidthRange :=
  cupdate ((boundaryWidthRanges bps).foldl csetZero []) (widths.map (fun w => categoriseLineWidth w bps))

/-! ### `get_doc_stats` -/

inductive Val where
  | none
  | int (i : Int)
  | str (s : String)
  deriving Repr, DecidableEq

/-- the columns of the table -/
inductive Col where
  | docId | docNum | docWidth | docHeight
  | elem (i : Nat)                      -- DEFAULT_ELEMENTS[i]
  | numWords | numAlpha | numNumber | numTitle | numNonTitle | numStop | numPunct | numOversized
  | wpl (label : String)
  | awpl (label : String)
  | wordLen (bin : Nat)
  | lineWidth (r : WidthRange)
  deriving Repr, DecidableEq

/-- a line of a document as `get_doc_stats` uses it: text (`none` = no text) and box width -/
structure DocLine (T : Type) where
  text : Option T
  width : Int

/-- the two ways the code splits a text into words -/
structure TextOps (T W : Type) where
  docTok : T → List W      -- `get_doc_words` (split on ' ' or on regex word boundaries)
  wplTok : T → List W      -- `get_words_per_line` (always split on ' ', '' dropped)
  isEmptyText : T → Bool   -- `line.text == ''`

structure Doc (T : Type) where
  id : String
  size : Option (Int × Int)             -- coords width / height, `none` without coords
  elems : List (Option Nat)             -- `stats[field]` for the six DEFAULT_ELEMENTS, `none` = absent
  lines : List (DocLine T)              -- `get_lines()`

/-- `range(start, stop, step)` as a list (`step = 0` is a ValueError) -/
def pyRangeLen (start stop step : Int) : Nat :=
  if step > 0 then ((stop - start + step - 1) / step).toNat
  else if step < 0 then ((start - stop - step - 1) / (-step)).toNat
  else 0

def pyRange (start stop step : Int) : Res (List Int) :=
  if step = 0 then .error .ValueError
  else .ok ((List.range (pyRangeLen start stop step)).map (fun (i : Nat) => start + step * (i : Int)))

/-- the defaults and literals of the source, regenerated on every run (Generated/C20.lean); the proofs
    never look at their values except in Lemmas/C20Consts.lean -/
def defaultMaxLen : Nat := Generated.C20.defaultMaxWordLength
def lineBinWidth : Int := Generated.C20.defaultLineBinWidth
def maxBin : Int := Generated.C20.defaultMaxBin
/-- the bin size that reaches `_init_doc_stats` / `get_word_cat_stats` from `get_doc_stats` -/
def initBinSize : Nat := Generated.C20.initBinSize
def wordBinSize : Nat := Generated.C20.wordCatBinSize

/-- `[point for point in range(line_bin_width, max_bin, line_bin_width)]` -/
def boundaryPointsOf (lbw mb : Int) : Res (List Int) := pyRange lbw mb lbw

/-- the default boundary points as a plain list (`[]` if the range raises) -/
def defaultBps : List Int :=
  match boundaryPointsOf lineBinWidth maxBin with
  | .ok l => l
  | .error _ => []

/-- the configuration `get_doc_stats` works with: boundary points, stop words given or not,
    `max_word_length`, and the bin sizes of `_init_doc_stats` (`initSize`) and `get_word_cat_stats`
    (`wordSize`) — in the code these two are the defaults of two different functions.  The defaults
    of the structure are those of the code. -/
structure DocCfg where
  bps : List Int := defaultBps
  useStop : Bool := false
  maxLen : Nat := defaultMaxLen
  initSize : Nat := initBinSize
  wordSize : Nat := wordBinSize

abbrev DocTable := List (Col × List Val)

/-- `len(DEFAULT_ELEMENTS)` -/
def numElems : Nat := Generated.C20.defaultElements.length

/-- the columns that do not depend on the configuration (`fields` of `_init_doc_stats`) -/
def fixedCols : List Col :=
  [Col.docId, .docNum, .docWidth, .docHeight] ++ (List.range numElems).map Col.elem ++
  [.numWords, .numAlpha, .numNumber, .numTitle, .numNonTitle, .numStop, .numPunct, .numOversized]

/-- the word-category columns, in the order of the dict `get_word_cat_stats` returns -/
def wordCatCols : List Col :=
  [.numWords, .numAlpha, .numNumber, .numTitle, .numNonTitle, .numStop, .numPunct, .numOversized]

/-- a width range as the code prints it -/
def rangeStr (r : WidthRange) : String :=
  match r.2 with
  | some b => s!"{r.1}-{b}"
  | none => s!"{r.1}-"

/-- the name of a column (the key of the dict `get_doc_stats` returns) -/
def colName : Col → String
  | .docId => "doc_id" | .docNum => "doc_num" | .docWidth => "doc_width" | .docHeight => "doc_height"
  | .elem i => Generated.C20.defaultElements.getD i s!"elem_{i}"
  | .numWords => "num_words" | .numAlpha => "num_alpha_words" | .numNumber => "num_number_words"
  | .numTitle => "num_title_words" | .numNonTitle => "num_non_title_words" | .numStop => "num_stop_words"
  | .numPunct => "num_punctuation_words" | .numOversized => "num_oversized_words"
  | .wpl s => s!"words_per_line_{s}"
  | .awpl s => s!"alpha_words_per_line_{s}"
  | .wordLen b => s!"num_words_length_{b}"
  | .lineWidth r => s!"line_width_range_{rangeStr r}"

/-- `_init_doc_stats`: the bins are `range(size, max_word_length + 1, size)` (for `size = 0` the range raises:
    see `getDocStats`) -/
def initDocStats (cfg : DocCfg) : DocTable :=
  let fields := [Col.docId, .docNum, .docWidth, .docHeight] ++ (List.range numElems).map Col.elem ++
    [.numWords, .numAlpha, .numNumber, .numTitle, .numNonTitle, .numStop, .numPunct, .numOversized]
  let wplLabels := Generated.C20.wplCats.map (fun c => c.1)
  let cols := fields ++ wplLabels.map Col.wpl ++ wplLabels.map Col.awpl ++
    ((List.range (cfg.maxLen / cfg.initSize)).map (fun i => Col.wordLen (cfg.initSize * (i + 1)))) ++
    (boundaryWidthRanges cfg.bps).map Col.lineWidth
  -- a dict: a repeated key keeps its first position
  (dedupKeep cols).map (fun c => (c, []))

def optNat : Option Nat → Val
  | some n => .int n
  | none => .none

/-- everything one document appends, in the order of the code -/
def docRow {T W : Type} (ops : TextOps T W) (cls : WordClass W) (cfg : DocCfg) (pi : Nat) (d : Doc T) :
    List (Col × Val) :=
  let lines := d.lines.filter (fun l => l.text.isSome)
  let words := lines.flatMap (fun l => match l.text with | some t => ops.docTok t | none => [])
  let ws := wordCatStats cls cfg.useStop cfg.maxLen cfg.wordSize words
  let lineWords := lines.map (fun l => match l.text with
    | some t => if ops.isEmptyText t then [] else ops.wplTok t
    | none => [])
  let wplS := wordsPerLine cls false lineWords
  let awplS := wordsPerLine cls true lineWords
  let lw := lineWidthStats (lines.map (·.width)) cfg.bps
  let wplLabels := Generated.C20.wplCats.map (fun c => c.1)
  [(Col.docId, Val.str d.id), (.docNum, .int (pi + 1)),
   (.docWidth, match d.size with | some s => .int s.1 | none => .none),
   (.docHeight, match d.size with | some s => .int s.2 | none => .none)] ++
  (List.range numElems).map (fun i => (Col.elem i, Val.int ((d.elems.getD i none).getD 0))) ++
  [(.numWords, .int ws.numWords), (.numAlpha, .int ws.numAlpha), (.numNumber, .int ws.numNumber),
   (.numTitle, .int ws.numTitle), (.numNonTitle, .int ws.numNonTitle), (.numStop, optNat ws.numStop),
   (.numPunct, .int ws.numPunct), (.numOversized, .int ws.numOversized)] ++
  ws.bins.map (fun b => (Col.wordLen b.1, Val.int b.2)) ++
  wplLabels.map (fun s => (Col.wpl s, Val.int (cget wplS s))) ++
  wplLabels.map (fun s => (Col.awpl s, Val.int (cget awplS s))) ++
  lw.map (fun p => (Col.lineWidth p.1, Val.int p.2))

/-- `table[col].append(v)`; a missing column is a KeyError -/
def appendCol : DocTable → Col → Val → Res DocTable
  | [], _, _ => .error .KeyError
  | (c, vs) :: r, col, v =>
    if c = col then .ok ((c, vs ++ [v]) :: r)
    else match appendCol r col v with
      | .ok r' => .ok ((c, vs) :: r')
      | .error e => .error e

def appendRow (t : DocTable) (row : List (Col × Val)) : Res DocTable :=
  row.foldlM (fun t p => appendCol t p.1 p.2) t

def docStatsFrom {T W : Type} (ops : TextOps T W) (cls : WordClass W) (cfg : DocCfg) :
    Nat → DocTable → List (Doc T) → Res DocTable
  | _, t, [] => .ok t
  | pi, t, d :: ds =>
    match appendRow t (docRow ops cls cfg pi d) with
    | .ok t' => docStatsFrom ops cls cfg (pi + 1) t' ds
    | .error e => .error e

/-- `get_doc_stats` for a configuration (`range(0, …, 0)` in `_init_doc_stats` is a ValueError) -/
def getDocStats {T W : Type} (ops : TextOps T W) (cls : WordClass W) (cfg : DocCfg) (ds : List (Doc T)) :
    Res DocTable :=
  if cfg.initSize = 0 then .error .ValueError
  else docStatsFrom ops cls cfg 0 (initDocStats cfg) ds

/-- the configuration of a call `get_doc_stats(docs, line_width_boundary_points=bps, stop_words=…,
    max_word_length=maxLen, line_bin_width=lbw, max_bin=mb)`; `none` = the argument is not passed and the
    default of the code applies (`line_bin_width` / `max_bin` only matter without boundary points) -/
def docCfgOf (bps : Option (List Int)) (useStop : Bool) (maxLen : Option Nat) (lbw mb : Option Int) : Res DocCfg :=
  let pts : Res (List Int) := match bps with
    | some b => .ok b
    | none => boundaryPointsOf (lbw.getD lineBinWidth) (mb.getD maxBin)
  match pts with
  | .ok b => .ok { bps := b, useStop := useStop, maxLen := maxLen.getD defaultMaxLen }
  | .error e => .error e

/-- `get_doc_stats` as it is called -/
def getDocStatsPy {T W : Type} (ops : TextOps T W) (cls : WordClass W) (bps : Option (List Int)) (useStop : Bool)
    (maxLen : Option Nat) (lbw mb : Option Int) (ds : List (Doc T)) : Res DocTable :=
  match docCfgOf bps useStop maxLen lbw mb with
  | .ok cfg => getDocStats ops cls cfg ds
  | .error e => .error e

/-- `get_word_cat_stats(words, stop_words, max_word_length=…, word_length_bin_size=…)` as it is called
    (`none` = the default of the function) -/
def wordCatStatsPy {W : Type} (cls : WordClass W) (useStop : Bool) (maxLen size : Option Nat) (ws : List W) :
    WordCatStats :=
  wordCatStats cls useStop (maxLen.getD Generated.C20.wordCatDefaultMaxLen)
    (size.getD Generated.C20.wordCatDefaultBinSize) ws

end Pagexml.C20
