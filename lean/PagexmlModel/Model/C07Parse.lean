/-
C07, second half: the exported tree handed to the parser.

* `toX` / `docX`: the abstract tree of the export as the element tree expat reads from the string
  lxml writes (the contract kept from DESIGN §3.6: serialise + re-read is the identity on the
  abstract tree; lxml declares the default namespace and the `xsi` prefix on the root and writes
  the Clark-notation attribute `{…XMLSchema-instance}schemaLocation` as `xsi:schemaLocation`;
  `None` text is no text).  `X.toDictDoc (docX x)` is then `xmltodict.parse(string)` and
  `Scan.parseScan` the parser of C01 — the harness compares both with the real functions on the
  real string on every case.
* `wordTree` … `scanTree`: the exported tree written as a pure function of the document
  (`Lemmas/C07Tree.lean`: the export succeeds iff `exp*` holds, and then returns exactly this tree).
* `content*`: what the re-parsed scan must contain (`SameContent`), as a function of the document.
* `rt*`: the property's quantifier as a decidable predicate (evaluated by the driver on every case).
-/
import PagexmlModel.Model.C07
import PagexmlModel.Model.Scan

namespace Pagexml.C07
open Pagexml.C06

/-! ### the tree the parser's XML reader sees -/

mutual
def toX : Xml → X.Xml
  | ⟨tag, attrs, text, children⟩ => .elem tag attrs (text.getD "") (toXs children)
def toXs : List Xml → List X.Xml
  | [] => []
  | c :: cs => toX c :: toXs cs
end

def xsiNamespace : String := "http://www.w3.org/2001/XMLSchema-instance"

/-- a Clark-notation attribute name in the `xsi` namespace, as serialised -/
def serialAttr (kv : String × String) : String × String :=
  if kv.1 = Gen.xsiSchemaLocationAttr then ("xsi:schemaLocation", kv.2) else kv

/-- the root element as serialised: namespace declarations first -/
def docX (x : Xml) : X.Xml :=
  .elem x.tag ([("xmlns", Gen.pageNamespace), ("xmlns:xsi", xsiNamespace)] ++ x.attrs.map serialAttr)
    (x.text.getD "") (toXs x.children)

/-! ### the exported tree as a pure function of the document -/

def okB {α} : Res α → Bool
  | .ok _ => true
  | .error _ => false

/-- an id lxml accepts: `None` (no attribute) or a `str` -/
def idOk : PyVal → Bool
  | .none => true
  | .str _ => true
  | _ => false

def idAttrs (id : PyVal) : List (String × String) :=
  match idStr id with
  | some s => [("id", s)]
  | none => []

def customAttrs (md : Meta) : List (String × String) :=
  match customStr md with
  | some s => [("custom", s)]
  | none => []

/-- `str(v)`, `""` where `str` is not modelled -/
def pyStrT (v : PyVal) : String :=
  match pyStr v with
  | .ok s => s
  | .error _ => ""

def orientAttrs (o : PyVal) : List (String × String) :=
  if o.truthy then [("orientation", pyStrT o)] else []

def coordsKids : Option Pts → List Xml
  | some ps => [pointsElem "Coords" ps]
  | none => []

def baselineKids : Option Pts → List Xml
  | some ps => [pointsElem "Baseline" ps]
  | none => []

def confAttrs (conf : PyVal) : List (String × String) :=
  match confStr conf with
  | some s => [("conf", s)]
  | none => []

/-- `if text is not None or conf is not None` -/
def hasTE : Option String → PyVal → Bool
  | none, .none => false
  | _, _ => true

def teKids (text : Option String) (conf : PyVal) : List Xml :=
  if hasTE text conf then
    [⟨"TextEquiv", confAttrs conf, none, [⟨"Unicode", [], text, []⟩, ⟨"PlainText", [], text, []⟩]⟩]
  else []

def wordTree (w : Word) : Xml :=
  ⟨"Word", idAttrs w.h.id ++ customAttrs w.h.md, none, coordsKids w.h.coords ++ teKids w.text w.conf⟩

def lineTree (l : Line) : Xml :=
  ⟨"TextLine", idAttrs l.h.id ++ customAttrs l.h.md, none,
    coordsKids l.h.coords ++ baselineKids l.baseline ++ teKids l.text l.conf ++ l.words.map wordTree⟩

def tableTree (t : Table) : Xml :=
  ⟨"TableRegion", idAttrs t.h.id ++ customAttrs t.h.md ++ orientAttrs t.orientation, none, coordsKids t.h.coords⟩

mutual
def regionTree : Region → Xml
  | ⟨h, _text, orientation, _ro, _roa, lines, regions, tables⟩ =>
    ⟨"TextRegion", idAttrs h.id ++ customAttrs h.md ++ orientAttrs orientation, none,
      coordsKids h.coords ++ lines.map lineTree ++ regionTrees regions ++ tables.map tableTree⟩
def regionTrees : List Region → List Xml
  | [] => []
  | r :: rs => regionTree r :: regionTrees rs
end

/-- what the export needs of a word / line / table / region to succeed (without the guards):
    ids are `None` or strings, the custom attributes serialise, `str()` is modelled for the
    confidence / orientation -/
def expHdr (h : Hdr) : Bool := idOk h.id && okB (customString (customOf h.md))

def expWord (w : Word) : Bool := expHdr w.h && okB (pyStr w.conf)

def expLine (l : Line) : Bool := expHdr l.h && okB (pyStr l.conf) && l.words.all expWord

def expTable (t : Table) : Bool := expHdr t.h && (!t.orientation.truthy || okB (pyStr t.orientation))

mutual
def expRegion : Region → Bool
  | ⟨h, _text, orientation, _ro, _roa, lines, regions, tables⟩ =>
    expHdr h && (!orientation.truthy || okB (pyStr orientation)) && lines.all expLine && expRegions regions
      && tables.all expTable
def expRegions : List Region → Bool
  | [] => true
  | r :: rs => expRegion r && expRegions rs
end

/-! ### the page level -/

def strOk : PyVal → Bool
  | .str _ => true
  | _ => false

def strT : PyVal → String
  | .str s => s
  | _ => ""

def refTree (e : Int × PyVal) : Xml :=
  ⟨"RegionRefIndexed", [("index", strOfInt e.1), ("regionRef", strT e.2)], none, []⟩

/-- the attributes of the OrderedGroup element -/
def roaPairs (roa : PyVal) : List (String × String) :=
  match roaAttrs roa with
  | .ok a => a
  | .error _ => []

def readingOrderTrees (ro : RO) (roa : PyVal) : List Xml :=
  if !ro.isEmpty then [⟨"ReadingOrder", [], none, [⟨"OrderedGroup", roaPairs roa, none, ro.map refTree⟩]⟩] else []

def mdFieldTrees (md : Meta) (field : String) : List Xml :=
  match alookup (.s field) md with
  | some v => [⟨field, [], some (pyStrT v), []⟩]
  | none => []

def metadataTree (md : Meta) : Xml :=
  ⟨"Metadata", [], none, mdFieldTrees md "Creator" ++ mdFieldTrees md "Created" ++ mdFieldTrees md "LastChange"⟩

def mdFieldOk (md : Meta) (field : String) : Bool :=
  match alookup (.s field) md with
  | some v => okB (pyStr v)
  | none => true

/-- the image file name written on the Page element -/
def imageFilename (md : Meta) : Option String :=
  match alookup (.s "scan_id") md with
  | some .none => none
  | some v => some (pyStrT v)
  | none => none

def fnameOk (md : Meta) : Bool :=
  match alookup (.s "scan_id") md with
  | some v => okB (pyStr v)
  | none => true

def dimOf (md : Meta) (key : String) (coords : Option Pts) (proj : Int × Int → Int) : Option Int :=
  match imageDim md key coords proj with
  | .ok d => d
  | .error _ => none

def widthOf (h : Hdr) : Option Int := dimOf h.md "scan_width" h.coords (·.1)
def heightOf (h : Hdr) : Option Int := dimOf h.md "scan_height" h.coords (·.2)

def dimText : Option Int → String
  | some i => strOfInt i
  | none => "0"

def optAttrs (k : String) : Option String → List (String × String)
  | some v => [(k, v)]
  | none => []

def scanOrientAttrs (o : PyVal) : List (String × String) :=
  if o.truthy then [("orientation", strT o)] else []

def pageTree (s : Scan) : Xml :=
  ⟨"Page", optAttrs "imageFilename" (imageFilename s.h.md)
      ++ [("imageWidth", dimText (widthOf s.h)), ("imageHeight", dimText (heightOf s.h))] ++ scanOrientAttrs s.orientation,
    none, readingOrderTrees s.ro s.roa ++ regionTrees s.regions ++ s.tables.map tableTree⟩

def scanTree (s : Scan) : Xml :=
  ⟨"PcGts", [(Gen.xsiSchemaLocationAttr, Gen.schemaLocation)], none, [metadataTree s.h.md, pageTree s]⟩

def expScan (s : Scan) : Bool :=
  okB (imageDim s.h.md "scan_width" s.h.coords (·.1)) && okB (imageDim s.h.md "scan_height" s.h.coords (·.2))
  && mdFieldOk s.h.md "Creator" && mdFieldOk s.h.md "Created" && mdFieldOk s.h.md "LastChange"
  && fnameOk s.h.md
  && (!s.orientation.truthy || strOk s.orientation)
  && (s.ro.isEmpty || (okB (roaAttrs s.roa) && s.ro.all (fun e => strOk e.2)))
  && expRegions s.regions && s.tables.all expTable

/-! ### what the re-parsed scan must contain -/

open Pagexml.C03 (Pt Coords) in
def boxOpt (c : Option Pts) : Option Coords := c.map C01.boxOf

/-- the text the parser finds in a Unicode element holding `text` (`None` is an empty element) -/
def uniVal (text : Option String) : X.PyVal := X.textVal (text.getD "")

def contentWord (w : Word) : C01.Word :=
  { id := idStr w.h.id
    text := if hasTE w.text w.conf then some (match uniVal w.text with | .str s => s | _ => "") else none
    coords := boxOpt w.h.coords
    conf := confStr w.conf }

/-- `parse_conf`: no attribute and `conf=""` are `None` -/
def lineConf (text : Option String) (conf : PyVal) : Option String :=
  if hasTE text conf then (confStr conf).bind (fun c => if c = "" then none else some c) else none

def contentLine (l : Line) : C01.Line :=
  { id := idStr l.h.id
    text := if hasTE l.text l.conf then C01.txtOf (uniVal l.text) else .none
    coords := boxOpt l.h.coords
    baseline := boxOpt l.baseline
    conf := lineConf l.text l.conf
    xheight := none
    words := l.words.map contentWord }

def orientOf (o : PyVal) : Option String := if o.truthy then some (pyStrT o) else none

mutual
def contentRegion : Region → C01.Region
  | ⟨h, _text, orientation, _ro, _roa, lines, regions, _tables⟩ =>
    .mk (idStr h.id) (orientOf orientation) (boxOpt h.coords) .none (lines.map contentLine) (contentRegions regions)
def contentRegions : List Region → List C01.Region
  | [] => []
  | r :: rs => contentRegion r :: contentRegions rs
end

/-- the reading-order dict the ReadingOrder element denotes -/
def contentRO (ro : RO) : C05.RO := C05.roOfEntries (ro.map fun e => (e.1, strT e.2))

def lookupS (k : String) : List (String × String) → Option String
  | [] => none
  | (k', v) :: r => if k' = k then some v else lookupS k r

/-- the parser keeps the `id` and `caption` attributes of the group -/
def contentRoAttrs (ro : RO) (roa : PyVal) : List (String × String) :=
  if ro.isEmpty then []
  else optAttrs "id" (lookupS "id" (roaPairs roa)) ++ optAttrs "caption" (lookupS "caption" (roaPairs roa))

def srcMetaOf (md : Meta) : Scan.SrcMeta :=
  let f := fun (k : String) => (alookup (.s k) md).map pyStrT
  { creator := f "Creator", created := f "Created", lastChange := f "LastChange", comments := none }

def sizedB (s : Scan) : Bool := (widthOf s.h).getD 0 != 0 && (heightOf s.h).getD 0 != 0

def contentScan (fname : String) (s : Scan) : Scan.Scan :=
  let docId := (imageFilename s.h.md).getD fname
  let w := (widthOf s.h).getD 0
  let ht := (heightOf s.h).getD 0
  let ordered := C05.orderRegions C01.Region.id (contentRO s.ro) (contentRegions s.regions)
  { id := docId
    coords := if sizedB s then some (C01.boxOf (Scan.pageBox w ht)) else none
    mdata := Scan.mirrorMeta (some (srcMetaOf s.h.md))
      ++ (if sizedB s then [("scan_width", .int w), ("scan_height", .int ht)] else [])
      ++ [("scan_id", .str docId), ("filename", .str fname)]
    regions := ordered.1
    tables := []
    readingOrder := ordered.2
    roAttrs := contentRoAttrs s.ro s.roa }

/-! ### the property's quantifier -/

def ptsOk : Option Pts → Bool
  | some ps => !ps.isEmpty
  | none => false

def rtWord (w : Word) : Bool := expWord w && ptsOk w.h.coords

/-- a confidence the parser can read back: a float literal (or the empty string) -/
def confLit (conf : PyVal) : Bool :=
  match confStr conf with
  | some c => c = "" || C01.isFloatLit c
  | none => true

def rtLine (l : Line) : Bool :=
  expHdr l.h && okB (pyStr l.conf) && ptsOk l.h.coords && l.baseline != some [] && confLit l.conf && l.words.all rtWord

mutual
def rtRegion : Region → Bool
  | ⟨h, _text, orientation, _ro, _roa, lines, regions, tables⟩ =>
    expHdr h && ptsOk h.coords
      && (!orientation.truthy || (okB (pyStr orientation) && C01.isFloatLit (pyStrT orientation)))
      && lines.all rtLine && rtRegions regions && tables.isEmpty
def rtRegions : List Region → Bool
  | [] => true
  | r :: rs => rtRegion r && rtRegions rs
end

/-- the text-hierarchy scans of the property: every region, line and word has coordinates (PAGE
    requires them; the parser raises KeyError on a line or word without), ids are strings or absent,
    confidences / orientations are float literals, the custom attributes serialise, reading-order
    references are strings; no table regions -/
def rtScan (s : Scan) : Bool :=
  okB (imageDim s.h.md "scan_width" s.h.coords (·.1)) && okB (imageDim s.h.md "scan_height" s.h.coords (·.2))
  && mdFieldOk s.h.md "Creator" && mdFieldOk s.h.md "Created" && mdFieldOk s.h.md "LastChange"
  && fnameOk s.h.md
  && (!s.orientation.truthy || strOk s.orientation)
  && (s.ro.isEmpty || (okB (roaAttrs s.roa) && s.ro.all (fun e => strOk e.2)))
  && rtRegions s.regions && s.tables.isEmpty

/-! ### a bare region / line / word is exported as the scan that holds just it -/

/-- the dummy `PageXMLTextRegion(coords=…)` holding one line -/
def dummyRegionOf (coords : Option Pts) (lines : List Line) : Region :=
  ⟨⟨.none, [], [], coords⟩, none, .none, [], .none, lines, [], []⟩

/-- the dummy `PageXMLTextLine(coords=…)` holding one word -/
def dummyLineOf (coords : Option Pts) (words : List Word) : Line :=
  { h := ⟨.none, [], [], coords⟩, baseline := none, text := none, conf := .none, xheight := .none, ro := [], roa := .none,
    words := words }

/-- a scan with the header (metadata, coordinates) `h`, no orientation, no reading order -/
def wrapScan (h : Hdr) (regions : List Region) : Scan :=
  { h := h, orientation := .none, ro := [], roa := .none, pages := [], columns := [], regions := regions, tables := [],
    lines := [] }

/-- the scan whose export is the export of `d` (`export_asScan`): the scan itself; for a region the
    scan holding just it; for a line the dummy region `PageXMLTextRegion(coords=line.coords)` around
    it; for a word the dummy region and dummy line around it -/
def asScan : Doc → Option Scan
  | .scan s => some s
  | .region r => some (wrapScan r.h [r])
  | .line l => some (wrapScan l.h [dummyRegionOf l.h.coords [l]])
  | .word w => some (wrapScan w.h [dummyRegionOf w.h.coords [dummyLineOf w.h.coords [w]]])
  | _ => none

/-- a scan / region / line / word of the property -/
def rtDoc (d : Doc) : Bool :=
  match asScan d with
  | some s => rtScan s
  | none => false

end Pagexml.C07
