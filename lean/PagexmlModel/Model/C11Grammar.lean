/-
The grammar of the C11 statement as data (definitions only): a tag `name {key:value; ...}`
together with every whitespace placement the statement allows, and its rendering as a string.
Kept among the model files so that the driver can render a layout too: the harness compares
this rendering with its own generator on every grammar case, which ties the strings the
theorems speak about to the strings the real code is run on.
-/
import PagexmlModel.Model.C11

namespace Pagexml.C11
open Pagexml.C03 (intercalate)

/-- one attribute with its whitespace: `pre key postKey : preVal value postVal` -/
structure LAttr where
  pre : List Char
  key : List Char
  postKey : List Char
  preVal : List Char
  value : List Char
  postVal : List Char

/-- one tag with its layout: `sep name {field;field;…[;close]}`.  `sep` is whatever stands
    between the previous `}` (or the start) and the name: any non-word characters, or nothing. -/
structure LTag where
  sep : List Char
  name : List Char
  attrs : List LAttr
  trailing : Bool        -- a semicolon after the last attribute (followed by `close`)
  close : List Char      -- whitespace before `}` after a trailing semicolon / in empty braces

def LAttr.render (a : LAttr) : List Char :=
  a.pre ++ a.key ++ a.postKey ++ ':' :: (a.preVal ++ a.value ++ a.postVal)

def LTag.fields (t : LTag) : List (List Char) :=
  t.attrs.map LAttr.render ++ (if t.attrs.isEmpty || t.trailing then [t.close] else [])

def LTag.body (t : LTag) : List Char := intercalate [';'] t.fields

def LTag.render (t : LTag) : List Char := t.sep ++ (t.name ++ ' ' :: '{' :: (t.body ++ ['}']))

def renderLaid : List LTag → List Char → List Char
  | [], tail => tail
  | t :: ts, tail => t.render ++ renderLaid ts tail

end Pagexml.C11
