/-
Model of the PageXML export: pagexml/model/xml.py (make_empty_pagexml, make_custom_string,
make_pagexml_element, add_pagexml_sub_element, add_pagexml_coords/baseline/text,
add_reading_order) and `to_pagexml` / `_to_pagexml` / `add_to_pagexml` of Word, TextLine,
TextRegion, Scan, get_image_width/height, get_doc_attributes (pagexml_document_model.py).
The structure rules (`Gen.*`) are regenerated from xml.py on every run.

Documents are the C06 trees.  Scope: the text hierarchy — a scan exports its text regions and
table regions (never its pages, columns or direct lines); a table region only gets as far as its
own element; words carry no baseline.
-/
import PagexmlModel.Model.C06
import PagexmlModel.Generated.C07

namespace Pagexml.C07
open Pagexml.C06

/-- abstract element tree: local tag name (every element is in the PAGE namespace), attributes
    in insertion order, text, children -/
structure Xml where
  tag : String
  attrs : List (String × String)
  text : Option String
  children : List Xml
  deriving Repr, Inhabited

/-! ### the structure rules, interpreted from the generated tables -/

def lookupTable (k : String) : List (String × List String) → Option (List String)
  | [] => none
  | (p, cs) :: t => if p = k then some cs else lookupTable k t

/-- is_valid_pagexml_sub_element -/
def validChild (parent child : String) : Res Bool :=
  if !Gen.validTags.contains parent then .error .ValueError
  else if !Gen.validTags.contains child then .error .ValueError
  else match lookupTable parent Gen.childTable with
    | some cs => .ok (cs.contains child)
    | none => if Gen.leafParents.contains parent then .ok false else .error .ValueError

/-- is_pagexml_singleton_relation (returns True or falls off the end) -/
def singleton (parent child : String) : Res Bool :=
  if !Gen.validTags.contains parent then .error .ValueError
  else if !Gen.validTags.contains child then .error .ValueError
  else .ok (Gen.singletonTable.any fun e => e.1 = parent && e.2.contains child)

/-- `str(x)` for the values the export writes into attributes -/
def pyStr : PyVal → Res String
  | .str s => .ok s
  | .int i => .ok (strOfInt i)
  | .num l => .ok l
  | .none => .ok "None"
  | .bool b => .ok (if b then "True" else "False")
  | _ => .error .TypeError

/-- lxml accepts only `str` for attribute values and text -/
def needStr : PyVal → Res String
  | .str s => .ok s
  | _ => .error .TypeError

def joinWith (sep : String) : List String → String
  | [] => ""
  | [a] => a
  | a :: b :: t => a ++ sep ++ joinWith sep (b :: t)

/-- one element of make_custom_string: `tag_name {k1:v1; k2:v2;} ` (KeyError without tag_name) -/
def customElementString (e : PyVal) : Res String :=
  match e with
  | .dict kvs => do
    let fields := kvs.filter (fun kv => kv.1 != Key.s "tag_name")
    let parts ← fields.mapM fun kv => do
      let k ← match kv.1 with | .s k => pure k | .i n => pure (strOfInt n)
      let v ← pyStr kv.2
      pure (k ++ ":" ++ v ++ ";")
    let tag ← match alookup (.s "tag_name") kvs with
      | some t => needStr t
      | none => .error .KeyError
    pure (tag ++ " {" ++ joinWith " " parts ++ "} ")
  | _ => .error .TypeError

/-- make_custom_string over `doc.custom`; `none`: the attribute is not written -/
def customString : PyVal → Res (Option String)
  | .none => .ok none
  | .list es => do let ss ← es.mapM customElementString; pure (some (joinWith " " ss))
  | .dict [] => .ok (some "")
  | _ => .error .TypeError

/-- the `custom` property: metadata['custom_attributes'], else `{}` -/
def customOf (md : Meta) : PyVal :=
  match alookup (.s "custom_attributes") md with
  | some v => v
  | none => .dict []

def pointString (ps : Pts) : String := String.ofList (C03.pointString ps)

/-- `parent.find(PAGE + tag) is not None` -/
def hasChild (x : Xml) (tag : String) : Bool := x.children.any (·.tag = tag)

/-- the checks of add_pagexml_sub_element before the element is made.
    Every function below takes a flag `g`: `true` is the code as it is; `false` switches the
    structural guards off (validity of parent/child, singletons, tag sets of Coords / Baseline /
    text).  `C07_export_ok` states that for text-hierarchy documents the flag makes no difference:
    no guard ever fires. -/
def checkAdd (g : Bool) (parent : Xml) (name : String) : Res Unit :=
  if g then do
    if (← validChild parent.tag name) = false then .error .TypeError
    if ← singleton parent.tag name then
      if hasChild parent name then .error .ValueError
    pure ()
  else pure ()

/-- `if is_valid_pagexml_sub_element(p, c) is False: raise err` (errors of the test itself propagate) -/
def guardValid (g : Bool) (p c : String) (err : Err) : Res Unit :=
  if g then do
    if (← validChild p c) = false then .error err
    pure ()
  else pure ()

def append (parent child : Xml) : Xml := { parent with children := parent.children ++ [child] }

/-- add_pagexml_sub_element: check, make, append; returns the parent with the new child -/
def addSub (g : Bool) (parent : Xml) (name : String) (build : Res Xml) : Res Xml := do
  checkAdd g parent name
  let c ← build
  pure (append parent c)

/-- `{'conf': str(conf)} if conf is not None else {}` -/
def confAttr : PyVal → Res (List (String × String))
  | .none => .ok []
  | c => do pure [("conf", ← pyStr c)]

def textEquiv (text : Option String) (conf : PyVal) : Res Xml := do
  let attrs ← confAttr conf
  pure ⟨"TextEquiv", attrs, none, [⟨"Unicode", [], text, []⟩, ⟨"PlainText", [], text, []⟩]⟩

/-- the attributes make_pagexml_element writes: id, custom, then the extra attributes -/
def elemAttrs (id : PyVal) (custom : Option PyVal) (attributes : List (String × PyVal)) : Res (List (String × String)) := do
  let a1 ← match id with
    | .none => pure []
    | v => do pure [("id", ← needStr v)]
  let a2 ← match custom with
    | none => pure []
    | some c => do match ← customString c with
      | some s => pure [("custom", s)]
      | none => pure []
  let a3 ← attributes.mapM fun kv => do pure (kv.1, ← pyStr kv.2)
  pure (a1 ++ a2 ++ a3)

def pointsElem (tag : String) (ps : Pts) : Xml := ⟨tag, [("points", pointString ps)], none, []⟩

/-- add_pagexml_coords -/
def coordsChild (g : Bool) (name : String) : Option Pts → Res (List Xml)
  | none => .ok []
  | some ps => if !g || Gen.coordsTags.contains name then .ok [pointsElem "Coords" ps] else .error .TypeError

/-- add_pagexml_baseline -/
def baselineChild (g : Bool) (name : String) : Option Pts → Res (List Xml)
  | none => .ok []
  | some ps => if !g || Gen.baselineTags.contains name then .ok [pointsElem "Baseline" ps] else .error .TypeError

/-- `if text is not None or conf is not None: add_pagexml_text(...)`.  A text / confidence on an
    element that is neither a text element nor a text region raises TypeError; for a text region
    the text is wrapped in a new TextLine (which then holds two TextEquiv elements — the code
    appends a second one). -/
def textChild (g : Bool) (name : String) (coords baseline : Option Pts) : PyVal → Option String → Res (List Xml)
  | .none, none => .ok []
  | conf, text =>
    if Gen.textSelfTags.contains name then do pure [← textEquiv text conf]
    else if Gen.textViaLineTags.contains name then do
      guardValid g name "TextLine" .TypeError
      let lc := match coords with | none => [] | some ps => [pointsElem "Coords" ps]
      let lb := match baseline with | none => [] | some ps => [pointsElem "Baseline" ps]
      let te ← textEquiv text conf
      pure [(⟨"TextLine", [], none, lc ++ lb ++ [te, te]⟩ : Xml)]
    else if g then .error .TypeError
    else do pure [← textEquiv text conf]

/-- make_pagexml_element, for the tags the modelled exports use -/
def mkElement (g : Bool) (name : String) (id : PyVal) (custom : Option PyVal) (attributes : List (String × PyVal))
    (coords baseline : Option Pts) (text : Option String) (conf : PyVal) : Res Xml := do
  let a ← elemAttrs id custom attributes
  let c1 ← coordsChild g name coords
  let c2 ← baselineChild g name baseline
  let c3 ← textChild g name coords baseline conf text
  pure ⟨name, a, none, c1 ++ c2 ++ c3⟩

/-! ### add_to_pagexml -/

def foldAdd {α} (f : Xml → α → Res Xml) : Xml → List α → Res Xml
  | x, [] => .ok x
  | x, a :: as => do foldAdd f (← f x a) as

/-- PageXMLWord.add_to_pagexml -/
def addWord (g : Bool) (parent : Xml) (w : Word) : Res Xml :=
  addSub g parent "Word" (mkElement g "Word" w.h.id (some (customOf w.h.md)) [] w.h.coords none w.text w.conf)

/-- PageXMLTextLine.add_to_pagexml -/
def addLine (g : Bool) (parent : Xml) (l : Line) : Res Xml :=
  addSub g parent "TextLine" (do
    let e ← mkElement g "TextLine" l.h.id (some (customOf l.h.md)) [] l.h.coords l.baseline l.text l.conf
    foldAdd (addWord g) e l.words)

/-- get_doc_attributes -/
def docAttributes (orientation : PyVal) : List (String × PyVal) :=
  if orientation.truthy then [("orientation", orientation)] else []

/-- PageXMLTableRegion.add_to_pagexml (rows and cells are not written) -/
def addTable (g : Bool) (parent : Xml) (t : Table) : Res Xml :=
  addSub g parent "TableRegion"
    (mkElement g "TableRegion" t.h.id (some (customOf t.h.md)) (docAttributes t.orientation) t.h.coords none none .none)

mutual
/-- PageXMLTextRegion.add_to_pagexml: lines, then sub-regions, then table regions -/
def addRegion (g : Bool) (parent : Xml) : Region → Res Xml
  | ⟨h, _text, orientation, _ro, _roa, lines, regions, tables⟩ =>
    addSub g parent "TextRegion" (do
      let e ← mkElement g "TextRegion" h.id (some (customOf h.md)) (docAttributes orientation) h.coords none none .none
      let e ← foldAdd (addLine g) e lines
      let e ← addRegions g e regions
      foldAdd (addTable g) e tables)
def addRegions (g : Bool) (parent : Xml) : List Region → Res Xml
  | [] => .ok parent
  | r :: rs => do addRegions g (← addRegion g parent r) rs
end

/-- `for attr in reading_order_attributes: ordered_xml.set(attr, reading_order_attributes[attr])` -/
def roaAttrs (roa : PyVal) : Res (List (String × String)) :=
  if roa.truthy then
    match roa with
    | .dict kvs => kvs.mapM fun kv =>
        match kv.1 with
        | .s k => do pure (k, ← needStr kv.2)
        | .i _ => .error .TypeError
    | _ => .error .TypeError
  else pure []

def refElem (e : Int × PyVal) : Res Xml := do
  let ref ← needStr e.2
  pure ⟨"RegionRefIndexed", [("index", strOfInt e.1), ("regionRef", ref)], none, []⟩

def addRef (g : Bool) (og : Xml) (e : Int × PyVal) : Res Xml := addSub g og "RegionRefIndexed" (refElem e)

def orderedGroup (g : Bool) (ro : RO) (roa : PyVal) : Res Xml := do
  let attrs ← roaAttrs roa
  foldAdd (addRef g) ⟨"OrderedGroup", attrs, none, []⟩ ro

/-- add_reading_order on the Page element -/
def addReadingOrder (g : Bool) (page : Xml) (ro : RO) (roa : PyVal) : Res Xml := do
  guardValid g page.tag "ReadingOrder" .ValueError
  addSub g page "ReadingOrder" (addSub g ⟨"ReadingOrder", [], none, []⟩ "OrderedGroup" (orderedGroup g ro roa))

/-- `if self.orientation: scan_xml.attrib['orientation'] = self.orientation` (lxml wants a str) -/
def scanOrientation (page : Xml) (o : PyVal) : Res Xml :=
  if o.truthy then do
    let v ← needStr o
    pure { page with attrs := page.attrs ++ [("orientation", v)] }
  else pure page

def scanReadingOrder (g : Bool) (page : Xml) (ro : RO) (roa : PyVal) : Res Xml :=
  if !ro.isEmpty then addReadingOrder g page ro roa else pure page

/-- PageXMLScan.add_to_pagexml -/
def addScan (g : Bool) (page : Xml) (s : Scan) : Res Xml := do
  let page ← scanOrientation page s.orientation
  let page ← scanReadingOrder g page s.ro s.roa
  let page ← addRegions g page s.regions
  foldAdd (addTable g) page s.tables

/-! ### to_pagexml -/

/-- `int(metadata[k])` -/
def pyIntOf : PyVal → Res Int
  | .int i => .ok i
  | .bool b => .ok (if b then 1 else 0)
  | .str s => match pyInt? s.toList with
    | some i => .ok i
    | none => .error .ValueError
  | _ => .error .TypeError

def maxL : List Int → Int → Int
  | [], m => m
  | a :: as, m => maxL as (max a m)
def minL : List Int → Int → Int
  | [], m => m
  | a :: as, m => minL as (min a m)

/-- `coords.width` / `coords.height` of a non-empty point list -/
def extent (xs : List Int) : Int :=
  match xs with
  | [] => 0
  | a :: as => maxL as a - minL as a

/-- get_image_width / get_image_height -/
def imageDim (md : Meta) (key : String) (coords : Option Pts) (proj : Int × Int → Int) : Res (Option Int) :=
  match alookup (.s key) md with
  | some v => do pure (some (← pyIntOf v))
  | none => match coords with
    | some ps => .ok (some (extent (ps.map proj)))
    | none => .ok none

/-- `field_xml.text = str(metadata[field])` (the parser reads an all-digit Creator as an int) -/
def fieldElem (field : String) (v : PyVal) : Res Xml := do
  let t ← pyStr v
  pure ⟨field, [], some t, []⟩

/-- `if field in metadata: add_pagexml_sub_element(metadata_ele, field).text = metadata[field]` -/
def mdField (g : Bool) (md : Meta) (m : Xml) (field : String) : Res Xml :=
  match alookup (.s field) md with
  | some v => addSub g m field (fieldElem field v)
  | none => .ok m

/-- the imageFilename attribute: `metadata['scan_id']` when present and not None -/
def fnameAttr (md : Meta) : Res (List (String × String)) :=
  match alookup (.s "scan_id") md with
  | some .none => pure []
  | some v => do pure [("imageFilename", ← pyStr v)]
  | none => pure []

/-- make_empty_pagexml -/
def emptyPagexml (g : Bool) (md : Meta) (w h : Option Int) : Res (Xml × Xml) := do
  let mdEl ← foldAdd (mdField g md) ⟨"Metadata", [], none, []⟩ ["Creator", "Created", "LastChange"]
  let root : Xml := ⟨"PcGts", [(Gen.xsiSchemaLocationAttr, Gen.schemaLocation)], none, [mdEl]⟩
  let fname ← fnameAttr md
  let dim := fun (d : Option Int) => match d with | some i => strOfInt i | none => "0"
  let page : Xml := ⟨"Page", fname ++ [("imageWidth", dim w), ("imageHeight", dim h)], none, []⟩
  checkAdd g root "Page"
  pure (root, page)

/-- `to_pagexml`: the PcGts tree.  The Page element is completed by the class's `_to_pagexml`. -/
def toPagexml (g : Bool) (h : Hdr) (fill : Xml → Res Xml) : Res Xml := do
  let w ← imageDim h.md "scan_width" h.coords (·.1)
  let ht ← imageDim h.md "scan_height" h.coords (·.2)
  let (root, page) ← emptyPagexml g h.md w ht
  let page ← fill page
  pure (append root page)

/-- the dummy region PageXMLTextRegion(coords=…) of Line / Word `_to_pagexml` -/
def dummyRegion (g : Bool) (coords : Option Pts) : Res Xml :=
  mkElement g "TextRegion" .none (some (.dict [])) [] coords none none .none

def exportDocG (g : Bool) : Doc → Res Xml
  | .scan s => toPagexml g s.h (fun page => addScan g page s)
  | .region r => toPagexml g r.h (fun page => addRegion g page r)
  | .line l => toPagexml g l.h (fun page =>
      addSub g page "TextRegion" (do addLine g (← dummyRegion g l.h.coords) l))
  | .word w => toPagexml g w.h (fun page =>
      addSub g page "TextRegion" (do
        let tr ← dummyRegion g w.h.coords
        addSub g tr "TextLine" (do
          let ln ← mkElement g "TextLine" .none (some (.dict [])) [] w.h.coords none none .none
          addWord g ln w)))
  | .column _ => .error .OutOfFuel   -- outside the property (scan, text region, line, word)
  | .page _ => .error .OutOfFuel

/-- `doc.to_pagexml()` -/
def exportDoc (d : Doc) : Res Xml := exportDocG true d

/-! ### what the parser reads from an exported tree (the content the property compares) -/

/-- the content of one element of the text hierarchy, as strings: id, Coords / Baseline points,
    text, confidence, custom string, orientation; then the lines / regions / words below it -/
structure Node where
  id : Option String
  points : Option String
  baseline : Option String
  text : Option String
  conf : Option String
  custom : Option String
  lines : List Node
  regions : List Node
  words : List Node
  deriving Repr, Inhabited

def attr (x : Xml) (k : String) : Option String :=
  (x.attrs.find? (·.1 = k)).map (·.2)

def child (x : Xml) (tag : String) : Option Xml := x.children.find? (·.tag = tag)

def pointsAt (x : Xml) (tag : String) : Option String := (child x tag).bind (attr · "points")

/-- parse_text_equiv: the Unicode child of TextEquiv (else PlainText) -/
def textAt (x : Xml) : Option String :=
  (child x "TextEquiv").bind fun te =>
    match child te "Unicode" with
    | some u => u.text
    | none => (child te "PlainText").bind (·.text)

def confAt (x : Xml) : Option String := (child x "TextEquiv").bind (attr · "conf")

mutual
/-- what the parser reads from a TextRegion / TextLine / Word element -/
def readNode : Xml → Node
  | ⟨tag, attrs, text, children⟩ =>
    let x : Xml := ⟨tag, attrs, text, children⟩
    { id := attr x "id", points := pointsAt x "Coords", baseline := pointsAt x "Baseline",
      text := textAt x, conf := confAt x, custom := attr x "custom",
      lines := readNodes "TextLine" children, regions := readNodes "TextRegion" children,
      words := readNodes "Word" children }
def readNodes (tag : String) : List Xml → List Node
  | [] => []
  | c :: cs => if c.tag = tag then readNode c :: readNodes tag cs else readNodes tag cs
end

/-- the Page element of an exported tree -/
def pageOf (root : Xml) : Option Xml := child root "Page"

/-- the reading order the parser reads: (index, regionRef) of every RegionRefIndexed, in order -/
def readingOrderAt (page : Xml) : List (String × String) :=
  match (child page "ReadingOrder").bind (child · "OrderedGroup") with
  | some g => g.children.filterMap fun r =>
      if r.tag = "RegionRefIndexed" then
        match attr r "index", attr r "regionRef" with
        | some i, some ref => some (i, ref)
        | _, _ => none
      else none
  | none => []

/-! the same content, read from the document -/

def idStr : PyVal → Option String
  | .str s => some s
  | _ => none

def confStr (c : PyVal) : Option String :=
  match c with
  | .none => none
  | c => match pyStr c with | .ok s => some s | .error _ => none

def customStr (md : Meta) : Option String :=
  match customString (customOf md) with
  | .ok s => s
  | .error _ => none

def wordNode (w : Word) : Node :=
  { id := idStr w.h.id, points := w.h.coords.map pointString, baseline := none, text := w.text,
    conf := confStr w.conf, custom := customStr w.h.md,
    lines := [], regions := [], words := [] }

def lineNode (l : Line) : Node :=
  { id := idStr l.h.id, points := l.h.coords.map pointString, baseline := l.baseline.map pointString, text := l.text,
    conf := confStr l.conf, custom := customStr l.h.md,
    lines := [], regions := [], words := l.words.map wordNode }

mutual
def regionNode : Region → Node
  | ⟨h, _text, _orientation, _ro, _roa, lines, regions, _tables⟩ =>
    { id := idStr h.id, points := h.coords.map pointString, baseline := none, text := none, conf := none,
      custom := customStr h.md, lines := lines.map lineNode, regions := regionNodes regions, words := [] }
def regionNodes : List Region → List Node
  | [] => []
  | r :: rs => regionNode r :: regionNodes rs
end

end Pagexml.C07
