/-
C02: the operation sequences of the three ways documents come into being, as functions from a
document tree to a history (`List Op`) of the store model:

* `JTree.hist false` — bottom-up through the constructors: children first (in the order given),
  then the constructor of the node with the ids of the children it takes;
* `JTree.hist true`  — the JSON builders `json_to_pagexml_*`: the same, followed by
  `set_parentage(node)` for every class but line and word;
* `PScan.hist`       — the XML parser: a text region is constructed empty, gets its type tag,
  then its lines are built (bottom-up) and attached (`region.lines = …; set_as_parent`), then
  its sub-regions (recursively) — or the other way round, as the child elements come —; a table
  region is constructed empty, its rows are built from their cells (`make_rows_from_cells`:
  the row constructor, then `set_as_parent(cells)`) and attached; finally the scan constructor
  and `metadata['filename']`.

Node ids are positions in the store, so a history is built relative to the number of objects
that exist when it starts (`base`).  Definitions only.
-/
import PagexmlModel.Model.C02

namespace Pagexml.C02

/-- a document tree: class, the `as_extra` flag (meaningful for a text region below a page),
    constructor arguments, children in the order they are built -/
inductive JTree where
  | node (kind : Cls) (extra : Bool) (a : Args) (kids : List JTree)
  deriving Repr, Inhabited

def JTree.kind : JTree → Cls
  | .node k _ _ _ => k

def JTree.extra : JTree → Bool
  | .node _ e _ _ => e

/-- a built child: class, extra flag, node id -/
abbrev Built := Cls × Bool × Nat

/-- the ids of the built children that go into one constructor argument -/
def slot (ks : List Built) (p : Cls → Bool → Bool) : List Nat := (ks.filter (fun k => p k.1 k.2.1)).map (·.2.2)

def isCls (c : Cls) : Cls → Bool → Bool := fun k _ => k == c

/-- the constructor call of a node, given its built children (children of a class the
    constructor has no argument for are left alone) -/
def mkOp (kind : Cls) (a : Args) (ks : List Built) : Op :=
  match kind with
  | .word => .mkWord a
  | .line => .mkLine a (slot ks (isCls .word))
  | .region => .mkRegion false a (slot ks (isCls .line)) (slot ks (isCls .region)) (slot ks (isCls .table))
  | .column => .mkRegion true a (slot ks (isCls .line)) (slot ks (isCls .region)) (slot ks (isCls .table))
  | .page => .mkPage a (slot ks (isCls .line)) (slot ks (fun k e => k == .region && !e)) (slot ks (isCls .table))
               (slot ks (isCls .column)) (slot ks (fun k e => k == .region && e))
  | .scan => .mkScan a (slot ks (isCls .line)) (slot ks (isCls .region)) (slot ks (isCls .table))
               (slot ks (isCls .column)) (slot ks (isCls .page))
  | .cell => .mkCell a (slot ks (isCls .line))
  | .row => .mkRow a (slot ks (isCls .cell))
  | .table => .mkTable a (slot ks (isCls .row))

/-- what follows the constructor call: `set_parentage(node)` in the JSON builders; in the parser
    (`make_rows_from_cells`) a row is made the parent of its cells -/
def postOps (json : Bool) (kind : Cls) (n : Nat) (ks : List Built) : List Op :=
  if json then (if kind == .word || kind == .line then [] else [.setParentage n])
  else (if kind == .row then [.setAsParent n (slot ks (isCls .cell))] else [])

mutual
/-- the history that builds the tree, and the id of its root, when `base` objects exist -/
def JTree.hist (json : Bool) : JTree → Nat → List Op × Nat
  | .node kind _ a kids, base =>
    match JTree.histL json kids base with
    | (ops, ks, next) => (ops ++ [mkOp kind a ks] ++ postOps json kind next ks, next)
def JTree.histL (json : Bool) : List JTree → Nat → List Op × List Built × Nat
  | [], base => ([], [], base)
  | t :: ts, base =>
    match t.hist json base with
    | (o1, r) =>
      match JTree.histL json ts (r + 1) with
      | (o2, ks, next) => (o1 ++ o2, (t.kind, t.extra, r) :: ks, next)
end

mutual
/-- the row constructor needs at least one cell (`cells[0].row`; the builders raise otherwise
    and no document results) -/
def JTree.valid : JTree → Bool
  | .node kind _ _ kids => (kind != .row || kids.any (fun k => k.kind == .cell)) && JTree.validL kids
def JTree.validL : List JTree → Bool
  | [] => true
  | t :: ts => t.valid && JTree.validL ts
end

/-! ### the XML parser -/

/-- a text region as the parser meets it: constructor arguments, the tag `add_type` gets from
    `metadata['type']` (none: `[]`), whether the `TextLine` children come before the `TextRegion`
    children, the lines (trees of kind line with word children), the sub-regions -/
inductive PRegion where
  | mk (a : Args) (addT : List String) (linesFirst : Bool) (lines : List JTree) (regions : List PRegion)
  deriving Repr, Inhabited

/-- `region.lines = …; region.set_as_parent(region.lines)` — only when there are `TextLine` children -/
def attachL (n : Nat) (trees : List JTree) (ks : List Built) : List Op :=
  if trees.isEmpty then [] else [.attachLines n (slot ks (isCls .line))]

def addTypeOp (n : Nat) (ts : List String) : List Op := if ts.isEmpty then [] else [.addType n ts]

mutual
/-- parse_textregion: (history, id of the region, next free id) -/
def PRegion.hist : PRegion → Nat → List Op × Nat × Nat
  | .mk a addT lf lines regions, base =>
    let ops0 := [Op.mkRegion false a [] [] []] ++ addTypeOp base addT
    if lf then
      match JTree.histL false lines (base + 1) with
      | (lo, lks, b1) =>
        match PRegion.histL regions b1 with
        | (ro, rids, b2) =>
          (ops0 ++ lo ++ attachL base lines lks ++ ro ++ (if regions.isEmpty then [] else [.attachRegions base rids]),
           base, b2)
    else
      match PRegion.histL regions (base + 1) with
      | (ro, rids, b1) =>
        match JTree.histL false lines b1 with
        | (lo, lks, b2) =>
          (ops0 ++ ro ++ (if regions.isEmpty then [] else [.attachRegions base rids]) ++ lo ++ attachL base lines lks,
           base, b2)
def PRegion.histL : List PRegion → Nat → List Op × List Nat × Nat
  | [], base => ([], [], base)
  | r :: rs, base =>
    match r.hist base with
    | (o1, n, b1) =>
      match PRegion.histL rs b1 with
      | (o2, ns, b2) => (o1 ++ o2, n :: ns, b2)
end

/-- a table region as the parser meets it: arguments, type tag, the rows (trees of kind row over
    cells over lines, the cells grouped by row as `make_rows_from_cells` groups them) -/
structure PTable where
  a : Args
  addT : List String
  rows : List JTree
  deriving Repr, Inhabited

/-- parse_tableregion: (history, id of the table, next free id) -/
def PTable.hist (t : PTable) (base : Nat) : List Op × Nat × Nat :=
  match JTree.histL false t.rows (base + 1) with
  | (ro, rks, b1) =>
    ([Op.mkTable t.a []] ++ addTypeOp base t.addT ++ ro ++ [.attachRows base (slot rks (isCls .row))], base, b1)

def PTable.histL : List PTable → Nat → List Op × List Nat × Nat
  | [], base => ([], [], base)
  | t :: ts, base =>
    match t.hist base with
    | (o1, n, b1) =>
      match PTable.histL ts b1 with
      | (o2, ns, b2) => (o1 ++ o2, n :: ns, b2)

structure PScan where
  a : Args
  regions : List PRegion
  tables : List PTable
  file : String
  deriving Repr, Inhabited

/-- parse_pagexml_json -/
def PScan.hist (s : PScan) (base : Nat) : List Op × Nat :=
  match PRegion.histL s.regions base with
  | (ro, rids, b1) =>
    match PTable.histL s.tables b1 with
    | (to, tids, b2) =>
      (ro ++ to ++ [.mkScan s.a [] rids tids [] [], .setFilename b2 s.file], b2)

mutual
def PRegion.valid : PRegion → Bool
  | .mk _ _ _ lines regions => JTree.validL lines && PRegion.validL regions
def PRegion.validL : List PRegion → Bool
  | [] => true
  | r :: rs => r.valid && PRegion.validL rs
end

def PScan.valid (s : PScan) : Bool := PRegion.validL s.regions && s.tables.all (fun t => JTree.validL t.rows)

end Pagexml.C02
